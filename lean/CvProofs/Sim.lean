/-
  Simulation ("parametricity") lemmas: every algorithm of the model looks at states only through the generators and
  the hasher.  If `f : β → α` commutes with the generators of two graphs `g' : Graph β`, `g : Graph α` and preserves
  hashes, then running an algorithm on `g` with `f`-images of the inputs gives the `f`-image of the run on `g'`.
  Core Lean only.  Used to restrict the path theorems to a closed set of states (`CvProofs/Restrict.lean`).
-/
import CvProofs.Bfs
import CvProofs.Paths
import CvProofs.Mitm
import CvProofs.BfsKernel
namespace Cv

variable {α β : Type}

/-- `f` is a simulation of `g'` in `g` -/
structure Sim (g' : Graph β) (g : Graph α) (f : β → α) : Prop where
  nGens : g'.nGens = g.nGens
  act : ∀ i, i < g.nGens → ∀ x, g.act i (f x) = f (g'.act i x)
  hash : ∀ x, g.hash (f x) = g'.hash x
  invClosed : g'.invClosed = g.invClosed
  batch : g'.batchSize = g.batchSize

namespace Sim
variable {g' : Graph β} {g : Graph α} {f : β → α}

theorem hash_comp (h : Sim g' g f) : (fun x => g.hash (f x)) = g'.hash := funext h.hash

/-! ### tensor operations -/

theorem dedupAdj_map (key : α → Int) (f : β → α) (prev : Option Int) (l : List β) :
    dedupAdj key prev (l.map f) = (dedupAdj (fun x => key (f x)) prev l).map f := by
  induction l generalizing prev with
  | nil => rfl
  | cons a t ih =>
    simp only [List.map_cons, dedupAdj]
    split
    · exact ih _
    · rw [List.map_cons, ih]

theorem sortByKey_map (key : α → Int) (f : β → α) (l : List β) :
    sortByKey key (l.map f) = (sortByKey (fun x => key (f x)) l).map f := by
  unfold sortByKey
  exact (List.map_mergeSort (r := fun a b => decide (key (f a) ≤ key (f b)))
    (s := fun a b => decide (key a ≤ key b)) (f := f) (l := l) (fun _ _ _ _ => rfl)).symm

theorem uniqueStates_map (key : α → Int) (f : β → α) (l : List β) :
    uniqueStates key (l.map f) = (uniqueStates (fun x => key (f x)) l).map f := by
  unfold uniqueStates
  rw [sortByKey_map, dedupAdj_map]

theorem splitBy_map (f : β → α) (ns : List Nat) (xs : List β) :
    splitBy ns (xs.map f) = (splitBy ns xs).map (List.map f) := by
  induction ns generalizing xs with
  | nil => rfl
  | cons n ns ih =>
    simp only [splitBy, List.map_cons]
    rw [← List.map_drop, ih, List.map_take]

theorem tensorSplit_map (f : β → α) (k : Nat) (xs : List β) :
    tensorSplit k (xs.map f) = (tensorSplit k xs).map (List.map f) := by
  unfold tensorSplit
  rw [splitBy_map, List.length_map]

/-! ### graph operations -/

theorem neighbors (h : Sim g' g f) (xs : List β) : g.neighbors (xs.map f) = (g'.neighbors xs).map f := by
  unfold Graph.neighbors
  rw [List.map_flatMap, h.nGens]
  simp only [List.flatMap_def]
  congr 1
  apply List.map_congr_left
  intro i hi
  rw [List.map_map, List.map_map]
  apply List.map_congr_left
  intro x _
  exact h.act i (List.mem_range.1 hi) x

theorem unique (h : Sim g' g f) (xs : List β) : g.unique (xs.map f) = (g'.unique xs).map f := by
  unfold Graph.unique
  rw [uniqueStates_map, h.hash_comp]

theorem map_hash (h : Sim g' g f) (xs : List β) : (xs.map f).map g.hash = xs.map g'.hash := by
  rw [List.map_map]
  apply List.map_congr_left
  intro x _
  exact h.hash x

theorem nb (h : Sim g' g f) (x : β) : g.nb (f x) = (g'.nb x).map f := by
  unfold Graph.nb nbOf
  rw [List.map_map, h.nGens]
  apply List.map_congr_left
  intro i hi
  exact h.act i (List.mem_range.1 hi) x

/-! ### one BFS iteration -/

theorem expandPlain (h : Sim g' g f) (seen : List (List Int)) (xs : List β) :
    Cv.expandPlain g seen (xs.map f) =
      ((Cv.expandPlain g' seen xs).1.map f, (Cv.expandPlain g' seen xs).2) := by
  unfold Cv.expandPlain
  simp only
  rw [h.neighbors, h.unique, List.filter_map, h.map_hash]
  have : ((fun x => notSeen seen (g.hash x)) ∘ f) = fun x => notSeen seen (g'.hash x) := by
    funext x; simp [h.hash x]
  rw [this]

theorem batchStep (h : Sim g' g f) (seen : List (List Int)) (acc : List (List β) × List (List Int))
    (b : List β) :
    Cv.batchStep g seen (acc.1.map (List.map f), acc.2) (b.map f) =
      ((Cv.batchStep g' seen acc b).1.map (List.map f), (Cv.batchStep g' seen acc b).2) := by
  unfold Cv.batchStep
  simp only
  rw [h.neighbors, h.unique, List.filter_map, h.map_hash]
  have : ((fun x => notSeen seen (g.hash x) && acc.2.all fun ob => !isinSorted ob (g.hash x)) ∘ f) =
      fun x => notSeen seen (g'.hash x) && acc.2.all fun ob => !isinSorted ob (g'.hash x) := by
    funext x; simp [h.hash x]
  rw [this]
  simp

theorem foldl_batchStep (h : Sim g' g f) (seen : List (List Int)) (bs : List (List β))
    (acc : List (List β) × List (List Int)) :
    (bs.map (List.map f)).foldl (Cv.batchStep g seen) (acc.1.map (List.map f), acc.2) =
      ((bs.foldl (Cv.batchStep g' seen) acc).1.map (List.map f), (bs.foldl (Cv.batchStep g' seen) acc).2) := by
  induction bs generalizing acc with
  | nil => rfl
  | cons b t ih =>
    simp only [List.map_cons, List.foldl_cons]
    rw [h.batchStep, ih]

theorem expandBatched (h : Sim g' g f) (seen : List (List Int)) (xs : List β) (xsH : List Int) :
    Cv.expandBatched g seen (xs.map f) xsH =
      ((Cv.expandBatched g' seen xs xsH).1.map f, (Cv.expandBatched g' seen xs xsH).2) := by
  rw [expandBatched_eq, expandBatched_eq, tensorSplit_map, h.batch]
  have := h.foldl_batchStep seen (tensorSplit (ceilDiv xsH.length g.batchSize) xs) ([], [])
  simp only [List.map_nil] at this
  rw [this]
  simp only [List.map_flatten]

/-! ### the BFS loop -/

end Sim

/-- image of a loop state -/
def BfsLoop.map (f : β → α) (s : BfsLoop β) : BfsLoop α :=
  { layer1 := s.layer1.map f, layer1H := s.layer1H, seen := s.seen, sizes := s.sizes,
    layers := s.layers.map fun p => (p.1, p.2.map f), allH := s.allH, eStarts := s.eStarts,
    eEnds := s.eEnds, cb := s.cb, completed := s.completed }

/-- image of a BFS result -/
def BfsOut.map (f : β → α) (r : BfsOut β) : BfsOut α :=
  { layerSizes := r.layerSizes, layers := r.layers.map fun p => (p.1, p.2.map f),
    completed := r.completed, hashes := r.hashes, edges := r.edges, cbTrace := r.cbTrace }

/-- the same options, the callback reading the layer through `f` -/
def BfsCfg.comap (c : BfsCfg α) (f : β → α) : BfsCfg β :=
  { maxStore := c.maxStore, maxExplore := c.maxExplore, maxDiameter := c.maxDiameter,
    returnEdges := c.returnEdges, returnHashes := c.returnHashes, disableBatching := c.disableBatching,
    stop := c.stop.map fun s i l => s i (l.map f) }

namespace Sim
variable {g' : Graph β} {g : Graph α} {f : β → α}

theorem expandSel (h : Sim g' g f) (c : BfsCfg α) (s : BfsLoop β) :
    Cv.expandSel g c (s.map f) =
      ((Cv.expandSel g' (c.comap f) s).1.map f, (Cv.expandSel g' (c.comap f) s).2) := by
  unfold Cv.expandSel
  simp only [BfsLoop.map, BfsCfg.comap, List.length_map, h.batch]
  split
  · exact h.expandBatched _ _ _
  · exact h.expandPlain _ _

theorem preState (h : Sim g' g f) (c : BfsCfg α) (s : BfsLoop β) :
    Cv.preState g c (s.map f) = (Cv.preState g' (c.comap f) s).map f := by
  unfold Cv.preState
  simp only [BfsLoop.map, BfsCfg.comap, List.length_map, h.batch, h.nGens, h.neighbors, h.map_hash]
  split <;> split <;> rfl

theorem postState (h : Sim g' g f) (c : BfsCfg α) (i : Nat) (s : BfsLoop β) (l2 : List β) (l2H : List Int) :
    Cv.postState g c i (s.map f) (l2.map f) l2H = (Cv.postState g' (c.comap f) i s l2 l2H).map f := by
  have hs : (c.comap f).storeLimit = c.storeLimit := rfl
  by_cases h1 : l2.length ≤ c.storeLimit <;> by_cases h2 : g.invClosed = true <;>
    simp [Cv.postState, BfsLoop.map, h1, h2, hs, h.invClosed]

theorem bfsLoop (h : Sim g' g f) (c : BfsCfg α) (fuel : Nat) : ∀ (i : Nat) (s : BfsLoop β),
    Cv.bfsLoop g c fuel i (s.map f) = (Cv.bfsLoop g' (c.comap f) fuel i s).map f := by
  induction fuel with
  | zero => intro i s; rfl
  | succ fuel ih =>
    intro i s
    rw [bfsLoop_succ, bfsLoop_succ, h.expandSel, h.preState]
    simp only [List.length_map]
    rw [h.postState]
    have hme : (c.comap f).maxExplore = c.maxExplore := rfl
    rw [hme]
    generalize Cv.postState g' (c.comap f) i (Cv.preState g' (c.comap f) s) (Cv.expandSel g' (c.comap f) s).1
      (Cv.expandSel g' (c.comap f) s).2 = ps
    split
    · rfl
    · split
      · rfl
      · cases hst : c.stop with
        | none =>
          have : (c.comap f).stop = none := by simp [BfsCfg.comap, hst]
          rw [this]
          exact ih _ _
        | some st =>
          have : (c.comap f).stop = some fun i l => st i (l.map f) := by simp [BfsCfg.comap, hst]
          rw [this]
          simp only
          split
          · rfl
          · exact ih (i + 1) { ps with cb := ps.cb ++ [i] }

theorem bfsInit (h : Sim g' g f) (S : List β) : Cv.bfsInit g (S.map f) = (Cv.bfsInit g' S).map f := by
  unfold Cv.bfsInit BfsLoop.map
  simp only [h.unique, h.map_hash, List.length_map, List.map_cons, List.map_nil]

theorem bfsFinal (h : Sim g' g f) (c : BfsCfg α) (S : List β) :
    Cv.bfsFinal g c (S.map f) = (Cv.bfsFinal g' (c.comap f) S).map f := by
  unfold Cv.bfsFinal
  rw [h.bfsInit, h.bfsLoop]
  rfl

theorem bfsFinish (c : BfsCfg α) (s : BfsLoop β) :
    Cv.Kernel.bfsFinish c (s.map f) = (Cv.Kernel.bfsFinish (c.comap f) s).map f := by
  unfold Cv.Kernel.bfsFinish BfsOut.map
  have hany : ((s.layers.map fun p => (p.1, p.2.map f)).any fun p => p.1 == s.sizes.length - 1) =
      s.layers.any fun p => p.1 == s.sizes.length - 1 := by
    rw [List.any_map]; rfl
  simp only [BfsLoop.map, BfsCfg.comap, hany]
  congr 1
  split <;> simp

/-- **BFS simulation**: the run on `g` from `f`-images is the `f`-image of the run on `g'` -/
theorem bfs (h : Sim g' g f) (c : BfsCfg α) (S : List β) :
    Cv.bfs g c (S.map f) = (Cv.bfs g' (c.comap f) S).map f := by
  rw [Cv.Kernel.bfs_eq_finish, Cv.Kernel.bfs_eq_finish, h.bfsFinal, bfsFinish]

/-! ### `restore_path`, `find_path_to`, `find_path_from` -/

theorem rpFind (h : Sim g' g f) (layer : List Int) (x : β) : Cv.rpFind g layer (f x) = Cv.rpFind g' layer x := by
  unfold Cv.rpFind
  have : ((List.range g.nGens).map fun i => g.act i (f x)) =
      ((List.range g'.nGens).map fun i => g'.act i x).map f := by
    rw [List.map_map, h.nGens]
    apply List.map_congr_left
    intro i hi
    exact h.act i (List.mem_range.1 hi) x
  rw [this, List.findIdx?_map]
  congr 1
  funext c
  simp [h.hash c]

theorem restorePath (h : Sim g' g f) (Hs : List (List Int)) (x : β) :
    Cv.restorePath g Hs (f x) = Cv.restorePath g' Hs x := by
  induction Hs using list_snoc_induction generalizing x with
  | nil => rfl
  | snoc Hs H ih =>
    rw [restorePath_snoc, restorePath_snoc, h.rpFind]
    cases hk : Cv.rpFind g' H x with
    | none => rfl
    | some k =>
      simp only
      have hlt : k < g.nGens := h.nGens ▸ (rpFind_some hk).1
      rw [h.act k hlt, ih]

/-- the indices returned by `restore_path` are generator indices -/
theorem _root_.Cv.restorePath_lt (gi : Graph α) (Hs : List (List Int)) (x : α) (p : List Nat)
    (hp : Cv.restorePath gi Hs x = some p) : ∀ i ∈ p, i < gi.nGens := by
  induction Hs using list_snoc_induction generalizing x p with
  | nil =>
    rw [restorePath_nil] at hp
    cases hp
    intro i hi; cases hi
  | snoc Hs H ih =>
    rw [restorePath_snoc] at hp
    cases hk : Cv.rpFind gi H x with
    | none => rw [hk] at hp; cases hp
    | some k =>
      rw [hk] at hp
      simp only at hp
      cases hr : Cv.restorePath gi Hs (gi.act k x) with
      | none => rw [hr] at hp; cases hp
      | some q =>
        rw [hr] at hp
        simp only [Option.map_some, Option.some.injEq] at hp
        subst hp
        intro i hi
        rcases List.mem_append.1 hi with hi | hi
        · exact ih _ _ hr i hi
        · simp only [List.mem_singleton] at hi
          subst hi
          exact (rpFind_some hk).1

theorem applyPath (h : Sim g' g f) (x : β) (p : List Nat) (hp : ∀ i ∈ p, i < g.nGens) :
    Cv.applyPath g.act (f x) p = f (Cv.applyPath g'.act x p) := by
  induction p generalizing x with
  | nil => rfl
  | cons i p ih =>
    rw [applyPath_cons, applyPath_cons, h.act i (hp i (by simp)), ih _ (fun j hj => hp j (by simp [hj]))]

variable {gi' : Graph β} {gi : Graph α}

theorem findPathTo (h : Sim g' g f) (hi : Sim gi' gi f) (Hs : List (List Int)) (x : β) :
    Cv.findPathTo g gi Hs (f x) = Cv.findPathTo g' gi' Hs x := by
  unfold Cv.findPathTo
  rw [h.hash]
  cases Hs.findIdx? (fun layer => isinSorted layer (g'.hash x)) with
  | none => rfl
  | some i => simp only; rw [hi.restorePath]

theorem findPathFrom (h : Sim g' g f) (hi : Sim gi' gi f) (m : Option (List Nat)) (Hs : List (List Int))
    (x : β) : Cv.findPathFrom g gi m Hs (f x) = Cv.findPathFrom g' gi' m Hs x := by
  unfold Cv.findPathFrom
  rw [h.invClosed, h.findPathTo hi]

/-! ### meet in the middle -/

theorem mitmCfg_comap (P : α → Bool) (D : Nat) : (mitmCfg P D).comap f = mitmCfg (fun x => P (f x)) D := by
  unfold mitmCfg BfsCfg.comap
  simp only [Option.map_some, List.any_map]
  rfl

theorem lastStored_map (r : BfsOut β) : lastStored (r.map f) = (lastStored r).map f := by
  unfold lastStored BfsOut.map
  simp only [List.find?_map]
  have : ((fun p : Nat × List α => p.1 == r.layerSizes.length - 1) ∘ fun p : Nat × List β => (p.1, p.2.map f)) =
      fun p : Nat × List β => p.1 == r.layerSizes.length - 1 := rfl
  rw [this]
  cases r.layers.find? (fun p => p.1 == r.layerSizes.length - 1) <;> simp

theorem mitm_go (h : Sim g' g f) (hi : Sim gi' gi f) (Hs : List (List Int)) (r2 : BfsOut β) (ms : List β) :
    mitmFindPathTo.go g gi Hs (r2.map f) (ms.map f) = mitmFindPathTo.go g' gi' Hs r2 ms := by
  induction ms with
  | nil => rfl
  | cons m rest ih =>
    rw [List.map_cons, mitm_go_cons, mitm_go_cons, hi.restorePath, ih]
    have : (r2.map f).hashes = r2.hashes := rfl
    rw [this, h.restorePath]

theorem mitmFindPathTo (h : Sim g' g f) (hi : Sim gi' gi f) (Hs : List (List Int)) (x : β) :
    Cv.mitmFindPathTo g gi Hs (f x) = Cv.mitmFindPathTo g' gi' Hs x := by
  rw [mitmFindPathTo_eq, mitmFindPathTo_eq, h.findPathTo hi]
  cases Cv.findPathTo g' gi' Hs x with
  | found p => rfl
  | assertFail m => rfl
  | notFound =>
    simp only
    have hb := hi.bfs (mitmCfg (fun x => isinSorted (Hs.getLast?.getD []) (g.hash x)) (Hs.length - 1)) [x]
    rw [List.map_cons, List.map_nil, mitmCfg_comap] at hb
    simp only [h.hash] at hb
    rw [hb, lastStored_map, List.filter_map]
    have : ((fun x => isinSorted (Hs.getLast?.getD []) (g.hash x)) ∘ f) =
        fun x => isinSorted (Hs.getLast?.getD []) (g'.hash x) := by
      funext y; simp [h.hash y]
    rw [this, h.mitm_go hi]

theorem mitmFindPathFrom (h : Sim g' g f) (hi : Sim gi' gi f) (m : Option (List Nat)) (Hs : List (List Int))
    (x : β) : Cv.mitmFindPathFrom g gi m Hs (f x) = Cv.mitmFindPathFrom g' gi' m Hs x := by
  unfold Cv.mitmFindPathFrom
  rw [h.invClosed, h.mitmFindPathTo hi]

/-! ### InteractiveBfs, `find_path_between` -/

end Sim

def IBfs.map (f : β → α) (b : IBfs β) : IBfs α := { cur := b.cur.map f, hashes := b.hashes }

def BetweenRes.map (f : β → α) (r : BetweenRes β) : BetweenRes α := { start := f r.start, edges := r.edges }

namespace Sim
variable {g' : Graph β} {g : Graph α} {f : β → α} {gi' : Graph β} {gi : Graph α}

theorem ibfs_init (h : Sim g' g f) (S : List β) : IBfs.init g (S.map f) = (IBfs.init g' S).map f := by
  unfold IBfs.init IBfs.map
  simp only [h.unique, h.map_hash]

theorem ibfs_notSeen (h : Sim g' g f) (b : IBfs β) (v : Int) : (b.map f).notSeen g v = b.notSeen g' v := by
  unfold IBfs.notSeen IBfs.map
  simp only [h.invClosed]

theorem ibfs_step (h : Sim g' g f) (b : IBfs β) : (b.map f).step g = (b.step g').map f := by
  unfold IBfs.step
  have h1 : (b.map f).cur = b.cur.map f := rfl
  have h2 : (b.map f).hashes = b.hashes := rfl
  simp only [h1, h2, h.neighbors, h.unique, List.filter_map, h.map_hash]
  have : ((fun x => (b.map f).notSeen g (g.hash x)) ∘ f) = fun x => b.notSeen g' (g'.hash x) := by
    funext x; simp [h.hash x, h.ibfs_notSeen]
  rw [this]
  rfl

theorem findOnLast (h : Sim g' g f) (b : IBfs β) (hs : List Int) :
    (b.map f).findOnLast g hs = (b.findOnLast g' hs).map f := by
  unfold IBfs.findOnLast IBfs.map
  simp only [List.find?_map]
  have : ((fun x => isinSorted hs (g.hash x)) ∘ f) = fun x => isinSorted hs (g'.hash x) := by
    funext x; simp [h.hash x]
  rw [this]

theorem betweenFinish (h : Sim g' g f) (hi : Sim gi' gi f) (b1 : IBfs β) (mid : β) (hs2 : List (List Int)) :
    Cv.betweenFinish g gi (b1.map f) (f mid) hs2 =
      (Cv.betweenFinish g' gi' b1 mid hs2).map (Option.map (BetweenRes.map f)) := by
  unfold Cv.betweenFinish
  have h2 : (b1.map f).hashes = b1.hashes := rfl
  rw [h2, h.restorePath, hi.restorePath]
  cases hp2 : Cv.restorePath g' hs2 mid with
  | none => rfl
  | some p2 =>
    cases hp1 : Cv.restorePath gi' b1.hashes.dropLast mid with
    | none => rfl
    | some p1 =>
      simp only [Option.map_some, BetweenRes.map]
      have hlt : ∀ i ∈ p1.reverse, i < gi.nGens := fun i hi' =>
        hi.nGens ▸ restorePath_lt gi' _ _ _ hp1 i (List.mem_reverse.1 hi')
      rw [hi.applyPath mid p1.reverse hlt]

theorem betweenLoop (h : Sim g' g f) (hi : Sim gi' gi f) (fuel : Nat) : ∀ (b1 b2 : IBfs β),
    Cv.betweenLoop g gi fuel (b1.map f) (b2.map f) =
      (Cv.betweenLoop g' gi' fuel b1 b2).map (Option.map (BetweenRes.map f)) := by
  induction fuel with
  | zero => intro b1 b2; rfl
  | succ fuel ih =>
    intro b1 b2
    rw [betweenLoop_succ, betweenLoop_succ, h.ibfs_step, hi.ibfs_step]
    have h2 : ((b2.step gi').map f).hashes = (b2.step gi').hashes := rfl
    rw [h2, h.findOnLast, h.findOnLast]
    cases (b1.step g').findOnLast g' ((b2.step gi').hashes.getD ((b2.step gi').hashes.length - 2) []) with
    | some m => exact h.betweenFinish hi _ _ _
    | none =>
      simp only [Option.map_none]
      cases (b1.step g').findOnLast g' ((b2.step gi').hashes.getD ((b2.step gi').hashes.length - 1) []) with
      | some m => exact h.betweenFinish hi _ _ _
      | none => exact ih _ _

theorem findPathBetween (h : Sim g' g f) (hi : Sim gi' gi f) (S T : List β) (M : Nat) :
    Cv.findPathBetween g gi (S.map f) (T.map f) M =
      (Cv.findPathBetween g' gi' S T M).map (Option.map (BetweenRes.map f)) := by
  unfold Cv.findPathBetween
  simp only [h.ibfs_init, hi.ibfs_init]
  have h2 : ((IBfs.init gi' T).map f).hashes = (IBfs.init gi' T).hashes := rfl
  rw [h2, h.findOnLast]
  cases (IBfs.init g' S).findOnLast g' ((IBfs.init gi' T).hashes.getLast?.getD []) with
  | some m => rfl
  | none => exact h.betweenLoop hi M _ _

/-! ### `_precompute_bfs`, `find_path` -/

theorem precomputeBfs_hashes (h : Sim g' g f) (c : β) (me md : Option Nat) :
    (Cv.precomputeBfs g (f c) me md).hashes = (Cv.precomputeBfs g' c me md).hashes := by
  unfold Cv.precomputeBfs
  have := h.bfs
    ({ maxStore := some 0, maxExplore := (me.filter (· ≠ 0)).getD (10^6),
       maxDiameter := (md.filter (· ≠ 0)).getD 50, returnHashes := true } : BfsCfg α) [c]
  rw [List.map_cons, List.map_nil] at this
  rw [this]
  rfl

theorem findPath (h : Sim g' g f) (hi : Sim gi' gi f) (m : Option (List Nat)) (c x : β) (me md : Option Nat) :
    Cv.findPath g gi m (f c) (f x) me md = Cv.findPath g' gi' m c x me md := by
  unfold Cv.findPath
  rw [h.invClosed, h.precomputeBfs_hashes, hi.precomputeBfs_hashes, h.mitmFindPathFrom hi, hi.mitmFindPathTo h]

end Sim
end Cv
