/-
  General lemmas about the Python prelude (`CvModel/PyPrelude.lean`) and the bridge (`CvModel/PyBridge.lean`)
  used by worker g2: ranges as mapped `List.range`, loops that append to a pair of lists, `toN?`/`toI`
  round trip, `rawToPermDef` of a well formed definition.
-/
import CvModel.PyPrelude
import CvModel.PyBridge
import CvModel.Families
import CvProofs.GraphDef
import CvProofs.FamiliesBase
namespace Cv.PyG2
open Cv.Py Cv.GraphDef Cv.Perm Cv.Families

/-! ### ranges -/

theorem pyRange_up (a b : Int) :
    pyRange a b 1 = (List.range (b - a).toNat).map fun (k : Nat) => a + (k : Int) := by
  unfold pyRange
  rw [if_pos (by decide)]
  have : (b - a + 1 - 1) / 1 = b - a := by rw [Int.ediv_one]; omega
  rw [this]
  apply List.map_congr_left
  intro k _
  omega

theorem pyRange_down (a b : Int) :
    pyRange a b (-1) = (List.range (a - b).toNat).map fun (k : Nat) => a - (k : Int) := by
  unfold pyRange
  rw [if_neg (by decide), if_pos (by decide)]
  have : (a - b + -(-1) - 1) / -(-1) = a - b := by
    have : (-(-1) : Int) = 1 := by decide
    rw [this, Int.ediv_one]; omega
  rw [this]
  apply List.map_congr_left
  intro k _
  omega

theorem pyRange_zero (n : Nat) : pyRange 0 (n : Int) 1 = toI (List.range n) := by
  rw [pyRange_up]
  simp only [Int.sub_zero, Int.toNat_natCast, toI]
  apply List.map_congr_left
  intro k _
  simp

theorem pyRange_nat (a b : Nat) : pyRange (a : Int) (b : Int) 1 = toI (List.range' a (b - a)) := by
  rw [pyRange_up]
  have : ((b : Int) - (a : Int)).toNat = b - a := by omega
  rw [this, toI, List.range'_eq_map_range, List.map_map]
  apply List.map_congr_left
  intro k _
  simp

theorem pyRange_nat_succ (a b : Nat) :
    pyRange ((a : Int) + 1) (b : Int) 1 = toI (List.range' (a + 1) (b - (a + 1))) := by
  have : ((a : Int) + 1) = ((a + 1 : Nat) : Int) := by omega
  rw [this, pyRange_nat]

/-- `oneLine` as a mapped range of `Int` -/
theorem toI_oneLine (n : Nat) (f : Nat → Nat) :
    toI (oneLine n f) = (List.range n).map fun k => ((f k : Nat) : Int) := by
  simp [toI, oneLine, List.map_map, Function.comp_def]

/-- split off the first piece of a mapped range -/
theorem map_range_split (g : Nat → Int) (n a m : Nat) (g1 : Nat → Int) (rest : List Int)
    (hn : n = a + m)
    (h1 : ∀ k, k < a → g k = g1 k)
    (h2 : (List.range m).map (fun k => g (a + k)) = rest) :
    (List.range n).map g = (List.range a).map g1 ++ rest := by
  subst hn
  rw [List.range_add, List.map_append, List.map_map]
  congr 1
  · apply List.map_congr_left
    intro k hk
    exact h1 k (List.mem_range.1 hk)

/-- the last piece -/
theorem map_range_last (g : Nat → Int) (m c : Nat) (g1 : Nat → Int)
    (hn : m = c) (h1 : ∀ k, k < c → g k = g1 k) :
    (List.range m).map g = (List.range c).map g1 := by
  subst hn
  apply List.map_congr_left
  intro k hk
  exact h1 k (List.mem_range.1 hk)

/-! ### `toI`, `toN?` -/

theorem toN?_toI (l : List Nat) : toN? (toI l) = some l := by
  unfold toN? toI
  induction l with
  | nil => rfl
  | cons a t ih =>
    rw [List.map_cons, List.mapM_cons, ih]
    simp

theorem mapM_toN?_toI (L : List (List Nat)) : (L.map toI).mapM toN? = some L := by
  induction L with
  | nil => rfl
  | cons a t ih =>
    rw [List.map_cons, List.mapM_cons, ih, toN?_toI]
    rfl

/-- a well formed definition handed to `create` with explicit central state and names (and no name) -/
theorem rawToPermDef_explicit (d : PermDef) (hname : d.name = "")
    (h : d.gens ≠ [] ∧ (∀ p ∈ d.gens, IsPermOf d.central.length p) ∧ d.names.length = d.gens.length ∧
      d.central ≠ [] ∧ ∀ x ∈ d.central, x < d.central.length) :
    rawToPermDef ⟨d.gens.map toI, some (toI d.central), some d.names, none⟩ = some d := by
  unfold rawToPermDef
  simp only [mapM_toN?_toI, toN?_toI, Option.map_some, Option.getD_none]
  have := (create_self_iff d).2 h
  rw [hname] at this
  exact this

/-! ### loops -/

/-- a loop over `range`-like `Int` indices whose body appends to a pair of lists -/
theorem loop_pair {A B : Type} (L : List Nat) (body : List A × List B → Int → Option (List A × List B))
    (F : Nat → List A) (G : Nat → List B)
    (h : ∀ k ∈ L, ∀ st, body st (k : Int) = some (st.1 ++ F k, st.2 ++ G k))
    (init : List A × List B) :
    (toI L).foldlM body init = some (init.1 ++ L.flatMap F, init.2 ++ L.flatMap G) := by
  induction L generalizing init with
  | nil => simp [toI]
  | cons a t ih =>
    have ha := h a (List.mem_cons_self) init
    have ht := ih (fun k hk => h k (List.mem_cons_of_mem _ hk))
    simp only [toI, List.map_cons, List.foldlM_cons] at ht ⊢
    have : Int.ofNat a = (a : Int) := rfl
    rw [this, ha]
    simp only [Option.bind_eq_bind, Option.bind_some]
    rw [ht]
    simp [List.append_assoc]

theorem flatMap_single {α β : Type} (f : α → β) (l : List α) : l.flatMap (fun k => [f k]) = l.map f := by
  induction l with
  | nil => rfl
  | cons a t ih => simp [List.flatMap_cons, ih]

/-- innermost loop: one element per index -/
theorem loop_pair_single {A B : Type} (L : List Nat)
    (body : List A × List B → Int → Option (List A × List B))
    (f : Nat → A) (g : Nat → B)
    (h : ∀ k ∈ L, ∀ st, body st (k : Int) = some (st.1 ++ [f k], st.2 ++ [g k]))
    (init : List A × List B) :
    (toI L).foldlM body init = some (init.1 ++ L.map f, init.2 ++ L.map g) := by
  rw [loop_pair L body (fun k => [f k]) (fun k => [g k]) h]
  rw [flatMap_single, flatMap_single]

/-! ### strings -/

theorem pyStr_nat (k : Nat) : pyStr (k : Int) = toString k := rfl

theorem pyStr_pred (k : Nat) (h : 1 ≤ k) : pyStr ((k : Int) - 1) = toString (k - 1) := by
  have : (k : Int) - 1 = ((k - 1 : Nat) : Int) := by omega
  rw [this]; rfl

end Cv.PyG2
