/-
  G10 part 2 — `CayleyGraphDef.generators_inverse_map` (permutation branch), REGENERATED from the source, equals the
  model `inverseMapPerm` (the `dict` keyed by generators keeps the LAST index = `lastIndexOf`).  Core Lean only.
-/
import CvProofs.PyGraphDefG10

namespace Cv.PyG10
open Cv.Py Cv.PyGen Cv.GraphDef Cv.Perm

/-! ### dictionaries keyed by arbitrary values -/

theorem pyKGet_pyKSet {κ β : Type} [BEq κ] [LawfulBEq κ] (d : List (κ × β)) (k k' : κ) (v : β) :
    pyKGet (pyKSet d k v) k' = if k == k' then some v else pyKGet d k' := by
  induction d with
  | nil =>
    simp only [pyKSet, pyKGet, List.find?_cons, List.find?_nil]
    by_cases h : (k == k') = true <;> simp [h]
  | cons hd t ih =>
    obtain ⟨k0, v0⟩ := hd
    simp only [pyKSet]
    by_cases h0 : (k0 == k) = true
    · have e : k0 = k := by simpa using h0
      subst e
      simp only [beq_self_eq_true, if_true, pyKGet, List.find?_cons]
      by_cases h : (k0 == k') = true <;> simp [h]
    · simp only [h0, if_false, Bool.false_eq_true]
      have ih' := ih
      simp only [pyKGet] at ih' ⊢
      simp only [List.find?_cons]
      by_cases h1 : (k0 == k') = true
      · have e : k0 = k' := by simpa using h1
        have h2 : (k == k') = false := by
          rw [← e]
          cases hh : (k == k0) with
          | false => rfl
          | true =>
            exfalso; apply h0
            have : k = k0 := by simpa using hh
            simp [this]
        simp [h1, h2]
      · simp only [h1]
        exact ih'

theorem pyKHas_eq {κ β : Type} [BEq κ] (d : List (κ × β)) (k : κ) :
    pyKHas d k = (pyKGet d k).isSome := by
  unfold pyKHas pyKGet
  rw [Option.isSome_map, Bool.eq_iff_iff, List.find?_isSome]
  simp

/-- the loop `{tuple(L[i]): i for i in range(k)}`: looking a key up gives the last index holding it -/
theorem dict_build {κ : Type} [BEq κ] [LawfulBEq κ] (L : List κ) (k : Nat) (hk : k ≤ L.length) :
    ∃ D : List (κ × Int),
      List.foldlM (fun (d_ : List (κ × Int)) (i : Int) => do let t_2 ← pyGet L i; pure (pyKSet d_ t_2 i)) []
        (toI (List.range k)) = some D ∧
      ∀ x, pyKGet D x =
        ((List.range k).foldl (fun acc j => if L[j]? == some x then some j else acc) none).map Int.ofNat := by
  induction k with
  | zero => exact ⟨[], rfl, fun x => rfl⟩
  | succ k ih =>
    obtain ⟨D, h1, h2⟩ := ih (by omega)
    have hk' : k < L.length := by omega
    refine ⟨pyKSet D L[k] (k : Int), ?_, ?_⟩
    · rw [List.range_succ, show toI (List.range k ++ [k]) = toI (List.range k) ++ [(k : Int)] by simp [toI],
        List.foldlM_append, h1]
      simp only [Option.bind_eq_bind, Option.bind_some, List.foldlM_cons, List.foldlM_nil, PyG1.pyGet_nat,
        List.getElem?_eq_getElem hk', Option.pure_def]
    · intro x
      rw [pyKGet_pyKSet, List.range_succ, List.foldl_append, h2]
      simp only [List.foldl_cons, List.foldl_nil, List.getElem?_eq_getElem hk', Option.some_beq_some]
      by_cases h : (L[k] == x) = true <;> simp [h]

theorem lastIndexOf_map_toI (L : List (List Nat)) (q : List Nat) :
    lastIndexOf (L.map toI) (toI q) = lastIndexOf L q := by
  unfold lastIndexOf
  rw [List.length_map]
  congr 1
  funext acc j
  rw [getElem?_map_toI_beq]

/-- the generators dictionary of `generators_inverse_map` -/
theorem gens_dict (gens : List (List Nat)) :
    ∃ D : List (List Int × Int),
      List.foldlM (fun (d_ : List (List Int × Int)) (i : Int) => do
          let t_2 ← pyGet (gens.map toI) i; pure (pyKSet d_ t_2 i)) []
        (toI (List.range gens.length)) = some D ∧
      ∀ q, pyKGet D (toI q) = (lastIndexOf gens q).map Int.ofNat := by
  obtain ⟨D, h1, h2⟩ := dict_build (gens.map toI) gens.length (by simp)
  refine ⟨D, h1, fun q => ?_⟩
  rw [h2, ← lastIndexOf_map_toI]
  unfold lastIndexOf
  rw [List.length_map]

/-! ### the loop with an early `return None` -/

/-- the body of the dictionary-building loop (abbreviation; the theorems below are about the generated definition, which
must be definitionally equal to the loops over these bodies) -/
def dictBody (G : List (List Int)) : List (List Int × Int) → Int → Option (List (List Int × Int)) :=
  fun (d_ : List ((List Int) × (Int))) i => do let t_2 ← pyGet G i; pure (pyKSet d_ t_2 i)

/-- the body of the main loop of `generators_inverse_map` (abbreviation, see `dictBody`) -/
def imBody (G : List (List Int)) (D : List (List Int × Int)) :
    Option (Option (List Int)) × List Int → Int → Option (Option (Option (List Int)) × List Int) :=
  fun (st : Option (Option (List Int)) × ((List Int))) (i : Int) => do
      if (Option.isSome st.1) then pure st else do
          let ans := st.2
          let t_3 ← pyGet G i
          let t_4 ← Cv.PyGen.Perm.inverse_permutation t_3
          let inv_perm : List Int := t_4
          if ((!(pyKHas D inv_perm))) then do
              pure (some none, ans)
          else do
              let t_5 ← pyKGet D inv_perm
              let ans := ans ++ [t_5]
              pure (none, ans)

theorem imBody_done (G : List (List Int)) (D : List (List Int × Int)) (r : Option (List Int)) (a : List Int)
    (i : Int) : imBody G D (some r, a) i = some (some r, a) := rfl

/-- model of one lookup: index of the inverse of generator `i` -/
def imF (gens : List (List Nat)) (i : Nat) : Option Nat :=
  (gens[i]?).bind fun p => lastIndexOf gens (Cv.Perm.inverse p)

theorem imBody_step (gens : List (List Nat)) (hv : ∀ p ∈ gens, ∀ i ∈ p, i < p.length)
    (D : List (List Int × Int)) (hD : ∀ q, pyKGet D (toI q) = (lastIndexOf gens q).map Int.ofNat)
    (x : Nat) (hx : x < gens.length) (A : List Nat) :
    imBody (gens.map toI) D (none, toI A) (x : Int) =
      some (match imF gens x with
        | none => (some none, toI A)
        | some j => (none, toI (A ++ [j]))) := by
  have hp : ∀ i ∈ gens[x], i < gens[x].length := hv _ (List.getElem_mem hx)
  have hf : imF gens x = lastIndexOf gens (Cv.Perm.inverse gens[x]) := by
    simp [imF, List.getElem?_eq_getElem hx]
  rw [hf]
  unfold imBody
  simp only [Option.isSome_none, Bool.false_eq_true, if_false, Option.pure_def, Option.bind_eq_bind,
    pyGet_map_toI, List.getElem?_eq_getElem hx, Option.map_some, Option.bind_some,
    PyG1.inverse_permutation_gen _ hp, pyKHas_eq, hD]
  cases hj : lastIndexOf gens (Cv.Perm.inverse gens[x]) with
  | none => simp
  | some j => simp [toI]

/-- once the loop has returned, the remaining iterations do nothing -/
theorem im_loop_done (G : List (List Int)) (D : List (List Int × Int)) (l : List Int)
    (r : Option (List Int)) (a : List Int) :
    List.foldlM (imBody G D) (some r, a) l = some (some r, a) := by
  induction l with
  | nil => rfl
  | cons x t ih =>
    rw [List.foldlM_cons, imBody_done]
    exact ih

theorem im_loop (gens : List (List Nat)) (hv : ∀ p ∈ gens, ∀ i ∈ p, i < p.length)
    (D : List (List Int × Int)) (hD : ∀ q, pyKGet D (toI q) = (lastIndexOf gens q).map Int.ofNat)
    (l : List Nat) (hl : ∀ i ∈ l, i < gens.length) (A : List Nat) :
    ∃ st, List.foldlM (imBody (gens.map toI) D) (none, toI A) (toI l) = some st ∧
      (match l.mapM (imF gens) with
       | some m => st = (none, toI (A ++ m))
       | none => st.1 = some none) := by
  induction l generalizing A with
  | nil => exact ⟨(none, toI A), rfl, by simp⟩
  | cons x t ih =>
    have hx : x < gens.length := hl x List.mem_cons_self
    have ht : ∀ i ∈ t, i < gens.length := fun i hi => hl i (List.mem_cons_of_mem _ hi)
    show ∃ st, List.foldlM _ (none, toI A) ((x : Int) :: toI t) = some st ∧ _
    rw [List.foldlM_cons, imBody_step gens hv D hD x hx A, List.mapM_cons]
    cases hj : imF gens x with
    | none => exact ⟨_, im_loop_done _ _ _ _ _, rfl⟩
    | some j =>
      obtain ⟨st, h1, h2⟩ := ih ht (A ++ [j])
      refine ⟨st, h1, ?_⟩
      cases hm : List.mapM (imF gens) t with
      | none => rw [hm] at h2; simpa using h2
      | some m => rw [hm] at h2; simpa using h2

theorem inverseMapPerm_eq_range (gens : List (List Nat)) :
    inverseMapPerm gens = (List.range gens.length).mapM (imF gens) := by
  unfold inverseMapPerm imF
  exact (PyG1.mapM_range_getElem? gens _).symm

/-- in-range generators are enough -/
theorem generators_inverse_map_gen' (gens : List (List Nat)) (hv : ∀ p ∈ gens, ∀ i ∈ p, i < p.length) :
    GraphDef.generators_inverse_map (gens.map toI) = some ((inverseMapPerm gens).map toI) := by
  unfold GraphDef.generators_inverse_map
  have hlen : pyLen (gens.map toI) = (gens.length : Int) := by simp [pyLen]
  obtain ⟨D, hD1, hD2⟩ := gens_dict gens
  obtain ⟨st, h1, h2⟩ := im_loop gens hv D hD2 (List.range gens.length)
    (fun i hi => List.mem_range.1 hi) []
  rw [hlen, PyG1.pyRange_zero_one_nat]
  show (List.foldlM (dictBody (gens.map toI)) [] (toI (List.range gens.length)) >>= fun t_1 =>
      List.foldlM (imBody (gens.map toI) t_1) (none, []) (toI (List.range gens.length)) >>= fun st =>
        if (Option.isSome st.1) then st.1 else pure (some st.2)) = _
  have hD1' : List.foldlM (dictBody (gens.map toI)) [] (toI (List.range gens.length)) = some D := hD1
  have h1' : List.foldlM (imBody (gens.map toI) D) (none, []) (toI (List.range gens.length)) = some st := h1
  rw [hD1']
  show (List.foldlM (imBody (gens.map toI) D) (none, []) (toI (List.range gens.length)) >>= _) = _
  rw [h1', inverseMapPerm_eq_range]
  cases hm : List.mapM (imF gens) (List.range gens.length) with
  | none =>
    rw [hm] at h2
    simp only at h2
    simp [h2]
  | some m =>
    rw [hm] at h2
    simp only at h2
    simp [h2]

theorem generators_inverse_map_gen (gens : List (List Nat)) (n : Nat) (hv : ∀ g ∈ gens, IsPermOf n g) :
    GraphDef.generators_inverse_map (gens.map toI) = some ((inverseMapPerm gens).map toI) :=
  generators_inverse_map_gen' gens (fun p hp i hi => by
    rw [(hv p hp).length_eq]; exact (hv p hp).lt i hi)

end Cv.PyG10
