/-
  Concrete instances for `CvProps/C04m.lean`, `C05m.lean`, `C12m.lean`: the Heisenberg group modulo 3 (A16's `heis3`,
  `eye3`, `b3Hash`, `gH`) with the inverted generator list `heis3i`, and the directed graph on `x, y` alone.  All
  hypotheses of the theorems are established; the models are EVALUATED in the kernel (`bfs` through
  `Cv.Kernel.bfs_eq_bfsK`, `InteractiveBfs` through `uniqueStates_eq`).  Core Lean only.
-/
import CvProofs.InstanceMatPaths
import CvProofs.InstanceMatExample
import CvProofs.InstancePathsExample
namespace Cv.InstanceMat.PathsExample
open Cv Cv.InstanceMat Cv.InstanceMat.Example Cv.Kernel

/-! ### the pair -/

/-- `with_inverted_generators`: the inverses in the same order -/
def heis3i : List MatGen := [hx', hy', hx, hy]
/-- inverted copy of `gH` (same hasher, same flag, batch size 2) -/
def gHi : Graph (List Int) := matGraph heis3i 3 3 b3Hash true 2
/-- `generators_inverse_map` of `heis3` -/
def heis3Map : List Nat := [2, 3, 0, 1]

/-- the directed graph on `x, y` (NOT inverse-closed, flag `false`) and its inverted copy -/
def gD : Graph (List Int) := matGraph [hx, hy] 3 3 b3Hash false 2
def gDi : Graph (List Int) := matGraph [hx', hy'] 3 3 b3Hash false 2

theorem heis3_pair : MatPair heis3 heis3i 3 3 :=
  ⟨by decide, by decide, by decide, rfl, by decide +kernel⟩

theorem xy_pair : MatPair [hx, hy] [hx', hy'] 3 3 :=
  ⟨by decide, by decide, by decide, rfl, by decide +kernel⟩

theorem heis3_invMap : MatInvMap heis3 3 3 heis3Map :=
  matInvMap_of_check heis3 3 3 heis3Map rfl (by decide +kernel)

theorem heis3_closed : MatInvClosed heis3 3 3 := heis3_invMap.closed

/-- `x, y` alone are not closed under inverses modulo 3 -/
theorem xy_not_closed : ¬ MatInvClosed [hx, hy] 3 3 := by decide +kernel

/-- the base-3 hash is injective on ALL flattened 3×3 states with entries in `[0, 3)` (19683 states; by arithmetic, not
by enumeration) -/
theorem b3Hash_inj_valid : ∀ S T, MatValid 3 3 3 S → MatValid 3 3 3 T → b3Hash S = b3Hash T → S = T := by
  intro S T hS hT h
  match S, T, hS, hT with
  | [a1, a2, a3, a4, a5, a6, a7, a8, a9], [b1, b2, b3, b4, b5, b6, b7, b8, b9], hS, hT =>
    have h1 := hS.2; have h2 := hT.2
    simp only [List.mem_cons, List.not_mem_nil, or_false, forall_eq_or_imp, forall_eq] at h1 h2
    simp only [b3Hash, List.foldl_cons, List.foldl_nil] at h
    have : a1 = b1 ∧ a2 = b2 ∧ a3 = b3 ∧ a4 = b4 ∧ a5 = b5 ∧ a6 = b6 ∧ a7 = b7 ∧ a8 = b8 ∧ a9 = b9 := by omega
    obtain ⟨rfl, rfl, rfl, rfl, rfl, rfl, rfl, rfl, rfl⟩ := this
    rfl

theorem matValid_of (S : List Int) (h : decide (MatValid 3 3 3 S) = true) : MatValid 3 3 3 S := of_decide_eq_true h

theorem eye3_valid : MatValid 3 3 3 eye3 := by decide

/-! ### the ball of depth 2 (evaluated) -/

def cBall (D : Nat) : BfsCfg (List Int) := { returnHashes := true, maxDiameter := D }

def ballH : List (List Int) :=
  [[6643], [6670, 6697, 8830, 11017], [8857, 8884, 9586, 10342, 11044, 11071, 11800, 12502]]

theorem ballH_eq : (bfs gH (cBall 2) [eye3]).hashes = ballH := by rw [bfs_eq_bfsK]; decide +kernel

/-- the evaluated list IS a ball (by `mat_ball`, not by inspection) -/
theorem ballH_isBall : IsBall gH eye3 ballH := by
  obtain ⟨_, _, _, h⟩ := mat_ball heis3 heis3i 3 3 3 heis3_pair b3Hash true 2 b3Hash_inj_valid
    (fun _ => heis3_closed) (by decide) (cBall 2) rfl eye3 eye3_valid
  rw [← ballH_eq]; exact h

/-! ### C04m evaluated -/

/-- distance 2: `y` then `x` -/
theorem to_found : findPathTo gH gHi ballH [1, 1, 1, 0, 1, 1, 0, 0, 1] = .found [1, 0] := by decide +kernel
/-- the centre element `I + E(0,2)` is at distance 4: outside the ball -/
theorem to_outside : findPathTo gH gHi ballH [1, 0, 1, 0, 1, 0, 0, 0, 1] = .notFound := by decide +kernel
/-- a reduced state that is not unitriangular: outside the orbit -/
theorem to_offOrbit : findPathTo gH gHi ballH [2, 0, 0, 0, 1, 0, 0, 0, 1] = .notFound := by decide +kernel
theorem from_found : findPathFrom gH gHi (some heis3Map) ballH [1, 1, 1, 0, 1, 1, 0, 0, 1] = .found [2, 3] := by
  decide +kernel
theorem from_outside : findPathFrom gH gHi (some heis3Map) ballH [1, 0, 1, 0, 1, 0, 0, 0, 1] = .notFound := by
  decide +kernel
theorem revert_ex : revertPathM (some heis3Map) [1, 0] = some [2, 3] := by decide

/-- the query state has to be REDUCED: `[4, 0, 0, 0, 1, 0, 0, 0, 1]` (≡ identity modulo 3, not in `P`) is not "found"
although the mathematical action maps it into the orbit — and a state colliding with the central state under the
base-3 hash is "found" with the empty path -/
theorem hq_needed : ¬ MatValid 3 3 3 [0, 0, 0, 0, 0, 0, 0, 0, 6643] ∧
    findPathTo gH gHi ballH [0, 0, 0, 0, 0, 0, 0, 0, 6643] = .found [] ∧
    applyPath (matGenAct heis3 3 3) eye3 [] ≠ [0, 0, 0, 0, 0, 0, 0, 0, 6643] := by
  refine ⟨by decide, by decide +kernel, by decide⟩

/-- `hinv` is needed: with the generators themselves in place of their inverses (`gi = g`) a path is "found" that does
not lead to the query state; with `x, y` alone the assertion fires -/
theorem hinv_needed : findPathTo gH gH ballH [1, 1, 1, 0, 1, 1, 0, 0, 1] = .found [3, 2] ∧
    applyPath (matGenAct heis3 3 3) eye3 [3, 2] ≠ [1, 1, 1, 0, 1, 1, 0, 0, 1] ∧
    findPathTo gD gD ballH [1, 1, 1, 0, 1, 1, 0, 0, 1] =
      .assertFail "Not found any neighbor on previous layer." := by
  refine ⟨by decide +kernel, by decide +kernel, by decide +kernel⟩

end Cv.InstanceMat.PathsExample
