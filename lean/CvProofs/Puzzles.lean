/-
  Proofs about `CvModel/Puzzles.lean` (closed-form globe / Hungarian rings / cube) and the structure
  predicates of `CvModel/Gap.lean`.  Core Lean only.
-/
import CvModel.Puzzles
import CvProofs.Gap
namespace Cv.Puzzles
open Cv.Perm Cv.Gap

/-! ## permutations given by a point map -/

@[simp] theorem length_ofFn (n : Nat) (f : Nat → Nat) : (ofFn n f).length = n := by simp [ofFn]

theorem getD_ofFn (n : Nat) (f : Nat → Nat) (i : Nat) (hi : i < n) : (ofFn n f).getD i 0 = f i := by
  rw [getD_eq_getElem (by simpa using hi)]; simp [ofFn]

theorem ofFn_congr (n : Nat) (f g : Nat → Nat) (h : ∀ i, i < n → f i = g i) : ofFn n f = ofFn n g := by
  apply List.map_congr_left
  intro i hi
  exact h i (List.mem_range.1 hi)

/-- a point map with a left inverse on `0..n-1` gives a permutation -/
theorem ofFn_isPerm (n : Nat) (f g : Nat → Nat) (hf : ∀ i, i < n → f i < n)
    (hgf : ∀ i, i < n → g (f i) = i) : IsPermOf n (ofFn n f) := by
  apply isPermOf_of_getD (length_ofFn n f)
  · intro j hj; rw [getD_ofFn n f j hj]; exact hf j hj
  · intro i j hi hj e
    rw [getD_ofFn n f i hi, getD_ofFn n f j hj] at e
    rw [← hgf i hi, ← hgf j hj, e]

/-- … and its inverse is given by the left inverse -/
theorem inverse_ofFn (n : Nat) (f g : Nat → Nat) (hf : ∀ i, i < n → f i < n)
    (hgf : ∀ i, i < n → g (f i) = i) : inverse (ofFn n f) = ofFn n g := by
  have hp := ofFn_isPerm n f g hf hgf
  apply getD_ext (inverse_isPerm n _ hp).length_eq (length_ofFn n g)
  intro j hj
  have h1 := getD_inverse n _ hp j hj
  have h2 := inverse_getD_lt n _ hp j hj
  rw [getD_ofFn n f _ h2] at h1
  rw [getD_ofFn n g j hj]
  have := hgf _ h2
  rw [h1] at this
  exact this.symm

theorem compose_ofFn (n : Nat) (f g : Nat → Nat) (hf : ∀ i, i < n → f i < n) :
    compose (ofFn n f) (ofFn n g) = ofFn n fun i => g (f i) := by
  apply getD_ext (n := n) (by simp) (by simp)
  intro i hi
  rw [compose, getD_apply _ _ (by simpa using hi), getD_ofFn n f i hi, getD_ofFn n g _ (hf i hi),
    getD_ofFn n _ i hi]

theorem identity_eq_ofFn (n : Nat) : identity n = ofFn n fun i => i := by
  simp [identity, ofFn]

/-! ## points of a grid with rows of width `w` -/

theorem pt_div (w r x : Nat) (hx : x < w) : (r * w + x) / w = r := by
  rw [Nat.add_comm, Nat.add_mul_div_right _ _ (by omega), Nat.div_eq_of_lt hx, Nat.zero_add]

theorem pt_mod (w r x : Nat) (hx : x < w) : (r * w + x) % w = x := by
  rw [Nat.add_comm, Nat.add_mul_mod_self_right, Nat.mod_eq_of_lt hx]

theorem pt_lt (R w r x : Nat) (hr : r < R) (hx : x < w) : r * w + x < R * w := by
  have : (r + 1) * w ≤ R * w := Nat.mul_le_mul_right w hr
  rw [Nat.add_mul, Nat.one_mul] at this
  omega

theorem div_lt_rows (R w i : Nat) (hi : i < R * w) : i / w < R :=
  Nat.div_lt_of_lt_mul (by rw [Nat.mul_comm]; exact hi)

theorem pos_of_lt_mul (R w i : Nat) (hi : i < R * w) : 0 < w := by
  apply Nat.pos_of_ne_zero
  intro h; subst h; simp at hi

/-- the point map induced by a map on (row, column) pairs -/
def onGrid (w : Nat) (φ : Nat → Nat → Nat × Nat) (i : Nat) : Nat :=
  (φ (i / w) (i % w)).1 * w + (φ (i / w) (i % w)).2

/-- `φ` maps the `R × w` grid into itself -/
def GridMap (R w : Nat) (φ : Nat → Nat → Nat × Nat) : Prop :=
  ∀ r x, r < R → x < w → (φ r x).1 < R ∧ (φ r x).2 < w

theorem onGrid_lt {R w : Nat} {φ : Nat → Nat → Nat × Nat} (h : GridMap R w φ) (i : Nat) (hi : i < R * w) :
    onGrid w φ i < R * w := by
  have hw := pos_of_lt_mul R w i hi
  obtain ⟨h1, h2⟩ := h (i / w) (i % w) (div_lt_rows R w i hi) (Nat.mod_lt _ hw)
  exact pt_lt R w _ _ h1 h2

theorem onGrid_onGrid {R w : Nat} {φ ψ : Nat → Nat → Nat × Nat} (h : GridMap R w φ) (i : Nat)
    (hi : i < R * w) :
    onGrid w ψ (onGrid w φ i) = onGrid w (fun r x => ψ (φ r x).1 (φ r x).2) i := by
  have hw := pos_of_lt_mul R w i hi
  obtain ⟨_, h2⟩ := h (i / w) (i % w) (div_lt_rows R w i hi) (Nat.mod_lt _ hw)
  unfold onGrid
  rw [pt_div w _ _ h2, pt_mod w _ _ h2]

theorem onGrid_id (w : Nat) (φ : Nat → Nat → Nat × Nat) (i : Nat)
    (h : φ (i / w) (i % w) = (i / w, i % w)) : onGrid w φ i = i := by
  unfold onGrid
  rw [h, Nat.mul_comm]
  exact Nat.div_add_mod i w

/-- a grid map with a left inverse induces a permutation of the `R * w` points, whose inverse is induced
by the left inverse -/
theorem grid_perm {R w : Nat} {φ ψ : Nat → Nat → Nat × Nat} (hφ : GridMap R w φ)
    (hinv : ∀ r x, r < R → x < w → ψ (φ r x).1 (φ r x).2 = (r, x)) :
    IsPermOf (R * w) (ofFn (R * w) (onGrid w φ)) ∧
      inverse (ofFn (R * w) (onGrid w φ)) = ofFn (R * w) (onGrid w ψ) := by
  have hgf : ∀ i, i < R * w → onGrid w ψ (onGrid w φ i) = i := by
    intro i hi
    have hw := pos_of_lt_mul R w i hi
    rw [onGrid_onGrid hφ i hi]
    exact onGrid_id w _ i (hinv _ _ (div_lt_rows R w i hi) (Nat.mod_lt _ hw))
  exact ⟨ofFn_isPerm _ _ _ (onGrid_lt hφ) hgf, inverse_ofFn _ _ _ (onGrid_lt hφ) hgf⟩

theorem add_mod_cases' (j s L : Nat) (hj : j < L) (hs : s ≤ L) :
    (j + s) % L = if j + s < L then j + s else j + s - L := by
  split
  · rename_i h; exact Nat.mod_eq_of_lt h
  · rename_i h
    rw [Nat.mod_eq_sub_mod (by omega)]
    exact Nat.mod_eq_of_lt (by omega)

/-! ## globe -/

theorem globe_size (a b : Nat) : 2 * (a + 1) * b = (a + 1) * (2 * b) := by
  rw [Nat.mul_comm 2 (a + 1), Nat.mul_assoc]

/-- row turn on (row, sector) pairs -/
def rowφ (w k : Nat) (r x : Nat) : Nat × Nat := if r = k then (k, (x + 1) % w) else (r, x)
def rowψ (w k : Nat) (r x : Nat) : Nat × Nat := if r = k then (k, (x + (w - 1)) % w) else (r, x)
/-- flip on (row, sector) pairs -/
def flipφ (a b c : Nat) (r x : Nat) : Nat × Nat :=
  if (x + (2 * b - c)) % (2 * b) < b ∧ 2 * r ≠ a then
    (a - r, (c + (b - 1 - (x + (2 * b - c)) % (2 * b))) % (2 * b))
  else (r, x)

theorem globeRow_eq (a b k : Nat) :
    globeRow a b k = ofFn ((a + 1) * (2 * b)) (onGrid (2 * b) (rowφ (2 * b) k)) := by
  unfold globeRow
  rw [globe_size]
  apply ofFn_congr
  intro i _
  unfold onGrid rowφ
  split
  · rfl
  · simp only; rw [Nat.mul_comm]; exact (Nat.div_add_mod i (2 * b)).symm

theorem globeRowInv_eq (a b k : Nat) :
    globeRowInv a b k = ofFn ((a + 1) * (2 * b)) (onGrid (2 * b) (rowψ (2 * b) k)) := by
  unfold globeRowInv
  rw [globe_size]
  apply ofFn_congr
  intro i _
  unfold onGrid rowψ
  split
  · rfl
  · simp only; rw [Nat.mul_comm]; exact (Nat.div_add_mod i (2 * b)).symm

theorem globeFlip_eq (a b c : Nat) :
    globeFlip a b c = ofFn ((a + 1) * (2 * b)) (onGrid (2 * b) (flipφ a b c)) := by
  unfold globeFlip
  rw [globe_size]
  apply ofFn_congr
  intro i _
  unfold onGrid flipφ
  simp only
  split
  · rfl
  · simp only; rw [Nat.mul_comm]; exact (Nat.div_add_mod i (2 * b)).symm

theorem rowφ_grid (R w k : Nat) (hk : k < R) (hw : 0 < w) : GridMap R w (rowφ w k) := by
  intro r x hr hx
  unfold rowφ
  split
  · exact ⟨hk, Nat.mod_lt _ hw⟩
  · exact ⟨hr, hx⟩

theorem rowψ_grid (R w k : Nat) (hk : k < R) (hw : 0 < w) : GridMap R w (rowψ w k) := by
  intro r x hr hx
  unfold rowψ
  split
  · exact ⟨hk, Nat.mod_lt _ hw⟩
  · exact ⟨hr, hx⟩

theorem rowψ_rowφ (w k r x : Nat) (hx : x < w) : rowψ w k (rowφ w k r x).1 (rowφ w k r x).2 = (r, x) := by
  unfold rowφ
  split
  · rename_i h
    subst h
    simp only [rowψ, if_true]
    have e1 := add_mod_cases' x 1 w hx (by omega)
    have e2 := add_mod_cases' ((x + 1) % w) (w - 1) w (Nat.mod_lt _ (by omega)) (by omega)
    rw [e2, e1]
    congr 1
    split <;> split <;> omega
  · rename_i h
    simp only [rowψ, if_neg h]

theorem rowφ_rowψ (w k r x : Nat) (hx : x < w) : rowφ w k (rowψ w k r x).1 (rowψ w k r x).2 = (r, x) := by
  unfold rowψ
  split
  · rename_i h
    subst h
    simp only [rowφ, if_true]
    have e1 := add_mod_cases' x (w - 1) w hx (by omega)
    have e2 := add_mod_cases' ((x + (w - 1)) % w) 1 w (Nat.mod_lt _ (by omega)) (by omega)
    rw [e2, e1]
    congr 1
    split <;> split <;> omega
  · rename_i h
    simp only [rowφ, if_neg h]

theorem flipφ_grid (a b c : Nat) (hb : 0 < b) : GridMap (a + 1) (2 * b) (flipφ a b c) := by
  intro r x hr hx
  unfold flipφ
  split
  · exact ⟨by omega, Nat.mod_lt _ (by omega)⟩
  · exact ⟨hr, hx⟩

theorem flipφ_flipφ (a b c r x : Nat) (hc : c < 2 * b) (hr : r < a + 1) (hx : x < 2 * b) :
    flipφ a b c (flipφ a b c r x).1 (flipφ a b c r x).2 = (r, x) := by
  have e1 := add_mod_cases' x (2 * b - c) (2 * b) hx (by omega)
  unfold flipφ
  by_cases hcond : (x + (2 * b - c)) % (2 * b) < b ∧ 2 * r ≠ a
  · rw [if_pos hcond]
    simp only
    generalize hk : (x + (2 * b - c)) % (2 * b) = k at hcond e1
    have e2 := add_mod_cases' c (b - 1 - k) (2 * b) hc (by omega)
    generalize hx' : (c + (b - 1 - k)) % (2 * b) = x' at e2
    have hx'lt : x' < 2 * b := by rw [← hx']; exact Nat.mod_lt _ (by omega)
    have e3 := add_mod_cases' x' (2 * b - c) (2 * b) hx'lt (by omega)
    generalize hk' : (x' + (2 * b - c)) % (2 * b) = k' at e3
    have hk'eq : k' = b - 1 - k := by
      split at e1 <;> split at e2 <;> split at e3 <;> omega
    have e4 := add_mod_cases' c (b - 1 - k') (2 * b) hc (by omega)
    have hcond' : k' < b ∧ 2 * (a - r) ≠ a := by omega
    rw [if_pos hcond']
    congr 1
    · omega
    · rw [e4]
      split at e1 <;> split at e2 <;> split <;> omega
  · rw [if_neg hcond]
    simp only
    rw [if_neg hcond]

theorem globeRow_perm (a b k : Nat) (hk : k < a + 1) (hb : 0 < b) :
    IsPermOf (2 * (a + 1) * b) (globeRow a b k) ∧ inverse (globeRow a b k) = globeRowInv a b k := by
  rw [globeRow_eq, globeRowInv_eq, globe_size]
  exact grid_perm (rowφ_grid _ _ k hk (by omega)) (fun r x _ hx => rowψ_rowφ _ k r x hx)

theorem globeRowInv_perm (a b k : Nat) (hk : k < a + 1) (hb : 0 < b) :
    IsPermOf (2 * (a + 1) * b) (globeRowInv a b k) ∧ inverse (globeRowInv a b k) = globeRow a b k := by
  rw [globeRow_eq, globeRowInv_eq, globe_size]
  exact grid_perm (rowψ_grid _ _ k hk (by omega)) (fun r x _ hx => rowφ_rowψ _ k r x hx)

theorem globeFlip_perm (a b c : Nat) (hc : c < 2 * b) (hb : 0 < b) :
    IsPermOf (2 * (a + 1) * b) (globeFlip a b c) ∧ inverse (globeFlip a b c) = globeFlip a b c := by
  rw [globeFlip_eq, globe_size]
  exact grid_perm (flipφ_grid a b c hb) (fun r x hr hx => flipφ_flipφ a b c r x hc hr hx)

theorem mem_globe_gens (a b : Nat) (g : List Nat) :
    g ∈ (globe a b).gens ↔
      (∃ k, k < a + 1 ∧ (g = globeRow a b k ∨ g = globeRowInv a b k)) ∨
      (∃ c, c < 2 * b ∧ g = globeFlip a b c) := by
  simp only [globe, List.mem_append, List.mem_flatMap, List.mem_map, List.mem_range, List.mem_cons,
    List.not_mem_nil, or_false]
  constructor
  · rintro (⟨k, hk, h⟩ | ⟨c, hc, rfl⟩)
    · exact Or.inl ⟨k, hk, h⟩
    · exact Or.inr ⟨c, hc, rfl⟩
  · rintro (⟨k, hk, h⟩ | ⟨c, hc, rfl⟩)
    · exact Or.inl ⟨k, hk, h⟩
    · exact Or.inr ⟨c, hc, rfl⟩

theorem isInverseClosedSet_iff (gens : List (List Nat)) :
    isInverseClosedSet gens = true ↔ ∀ g ∈ gens, inverse g ∈ gens := by
  simp [isInverseClosedSet]

/-- every globe generator is a permutation of the `2 (a+1) b` cells -/
theorem globe_gens_perm (a b : Nat) (hb : 1 ≤ b) :
    ∀ g ∈ (globe a b).gens, IsPermOf (globe a b).n g := by
  intro g hg
  show IsPermOf (2 * (a + 1) * b) g
  rcases (mem_globe_gens a b g).1 hg with ⟨k, hk, rfl | rfl⟩ | ⟨c, hc, rfl⟩
  · exact (globeRow_perm a b k hk hb).1
  · exact (globeRowInv_perm a b k hk hb).1
  · exact (globeFlip_perm a b c hc hb).1

/-- the globe generator set is inverse-closed, for ALL parameters -/
theorem globe_inverse_closed' (a b : Nat) (hb : 1 ≤ b) : isInverseClosedSet (globe a b).gens = true := by
  rw [isInverseClosedSet_iff]
  intro g hg
  rcases (mem_globe_gens a b g).1 hg with ⟨k, hk, rfl | rfl⟩ | ⟨c, hc, rfl⟩
  · rw [(globeRow_perm a b k hk hb).2]
    exact (mem_globe_gens a b _).2 (Or.inl ⟨k, hk, Or.inr rfl⟩)
  · rw [(globeRowInv_perm a b k hk hb).2]
    exact (mem_globe_gens a b _).2 (Or.inl ⟨k, hk, Or.inl rfl⟩)
  · rw [(globeFlip_perm a b c hc hb).2]
    exact (mem_globe_gens a b _).2 (Or.inr ⟨c, hc, rfl⟩)

theorem length_flatMap_pair {α β : Type} (l : List α) (f g : α → β) :
    (l.flatMap fun k => [f k, g k]).length = 2 * l.length := by
  induction l with
  | nil => rfl
  | cons x t ih => rw [List.flatMap_cons, List.length_append, ih]; simp; omega

theorem globe_counts (a b : Nat) :
    (globe a b).gens.length = 2 * (a + 1) + 2 * b ∧ (globe a b).names.length = (globe a b).gens.length ∧
    (globe a b).central = List.range (globe a b).n := by
  refine ⟨?_, ?_, rfl⟩
  · simp only [globe, List.length_append, length_flatMap_pair, List.length_map, List.length_range]
  · simp only [globe, List.length_append, length_flatMap_pair, List.length_map, List.length_range]

/-- a flip is an involution -/
theorem globeFlip_involution (a b c : Nat) (hc : c < 2 * b) (hb : 1 ≤ b) :
    compose (globeFlip a b c) (globeFlip a b c) = identity (2 * (a + 1) * b) := by
  obtain ⟨h1, h2⟩ := globeFlip_perm a b c hc hb
  have := compose_inverse_right _ _ h1
  rwa [h2] at this

/-! ## single cycles -/

theorem cycleOn_closed {p c : List Nat} (h : CycleOn p c) : ∀ x ∈ c, p.getD x 0 ∈ c := by
  intro x hx
  obtain ⟨i, hi, rfl⟩ := List.getElem_of_mem hx
  have := h.step i hi
  rw [getD_eq_getElem hi] at this
  rw [this, getD_eq_getElem (Nat.mod_lt _ (by omega))]
  exact List.getElem_mem _

theorem cycle_all_mem {p c : List Nat} (hc : CycleOn p c) (S : Nat → Prop)
    (hS : ∀ x, S x → S (p.getD x 0)) (i : Nat) (hi : i < c.length) (h0 : S (c.getD i 0)) :
    ∀ j, S (c.getD ((i + j) % c.length) 0) := by
  intro j
  induction j with
  | zero => rw [Nat.add_zero, Nat.mod_eq_of_lt hi]; exact h0
  | succ j ih =>
    have := hS _ ih
    rw [hc.step _ (Nat.mod_lt _ (by omega)), Nat.mod_add_mod] at this
    exact this

/-- a permutation that is one cycle `c` (of length ≥ 2) and fixes everything else has exactly that cycle as
its cycle notation: `isSingleCycle p c.length` -/
theorem isSingleCycle_of_cycleOn {n : Nat} {p c : List Nat} (hp : IsPermOf n p) (hc : CycleOn p c)
    (h2 : 2 ≤ c.length) (hlt : ∀ y ∈ c, y < n) (hfix : ∀ k, k < n → k ∉ c → p.getD k 0 = k) :
    isSingleCycle p c.length = true := by
  obtain ⟨h1, hnd, hmem⟩ := toCycles_spec hp
  have hiff : ∀ y, y ∈ (toCycles p).flatten ↔ y ∈ c := by
    intro y
    rw [hmem]
    constructor
    · rintro ⟨g1, g2⟩
      exact Classical.byContradiction fun hn => g2 (hfix y g1 hn)
    · intro hy
      exact ⟨hlt y hy, cycleOn_moved hc h2 y hy⟩
  unfold isSingleCycle
  cases htc : toCycles p with
  | nil =>
    exfalso
    have : c[0]'(by omega) ∈ (toCycles p).flatten := (hiff _).2 (List.getElem_mem _)
    rw [htc] at this; simp at this
  | cons c1 t =>
    cases t with
    | nil =>
      simp only [beq_iff_eq]
      rw [htc] at hiff hnd
      simp only [List.flatten_cons, List.flatten_nil, List.append_nil] at hiff hnd
      exact ((List.perm_ext_iff_of_nodup hnd hc.nodup).2 hiff).length_eq
    | cons c2 t' =>
      exfalso
      rw [htc] at hiff hnd h1
      have hc1 := h1 c1 (by simp)
      have hc2 := h1 c2 (by simp)
      have p1 : 0 < c1.length := List.length_pos_iff.2 hc1.ne
      have p2 : 0 < c2.length := List.length_pos_iff.2 hc2.ne
      have hx1 : c1[0] ∈ c := (hiff _).1 (by simp)
      have hx2 : c2[0] ∈ c := (hiff _).1 (by
        simp only [List.flatten_cons, List.mem_append]
        exact Or.inr (Or.inl (List.getElem_mem _)))
      obtain ⟨i1, hi1, e1⟩ := List.getElem_of_mem hx1
      obtain ⟨i2, hi2, e2⟩ := List.getElem_of_mem hx2
      have hall := cycle_all_mem hc (· ∈ c1) (cycleOn_closed hc1) i1 hi1
        (by rw [getD_eq_getElem hi1, e1]; exact List.getElem_mem _) (i2 + c.length - i1)
      have hidx : (i1 + (i2 + c.length - i1)) % c.length = i2 := by
        have : i1 + (i2 + c.length - i1) = i2 + c.length := by omega
        rw [this, Nat.add_mod_right, Nat.mod_eq_of_lt hi2]
      rw [hidx, getD_eq_getElem hi2, e2] at hall
      rw [List.flatten_cons, List.nodup_append] at hnd
      exact hnd.2.2 _ hall _ (by
        simp only [List.flatten_cons, List.mem_append]
        exact Or.inl (List.getElem_mem _)) rfl

/-- a row turn of the globe is a single cycle of length `2 b` along its row -/
theorem globeRow_cycle (a b k : Nat) (hk : k < a + 1) (hb : 1 ≤ b) :
    CycleOn (globeRow a b k) (List.range' (k * (2 * b)) (2 * b)) ∧
    (∀ j, j < 2 * (a + 1) * b → j ∉ List.range' (k * (2 * b)) (2 * b) → (globeRow a b k).getD j 0 = j) ∧
    isSingleCycle (globeRow a b k) (2 * b) = true := by
  have hp := (globeRow_perm a b k hk hb).1
  have hget : ∀ i, i < 2 * b → (List.range' (k * (2 * b)) (2 * b)).getD i 0 = k * (2 * b) + i := by
    intro i hi
    rw [getD_eq_getElem (by simpa using hi)]; simp
  have hlt : ∀ y ∈ List.range' (k * (2 * b)) (2 * b), y < 2 * (a + 1) * b := by
    intro y hy
    rw [List.mem_range'_1] at hy
    rw [globe_size]
    have := pt_lt (a + 1) (2 * b) k (y - k * (2 * b)) hk (by omega)
    omega
  have hc : CycleOn (globeRow a b k) (List.range' (k * (2 * b)) (2 * b)) := by
    refine ⟨?_, List.nodup_range', ?_⟩
    · intro e
      have := congrArg List.length e
      simp at this; omega
    · intro i hi
      simp only [List.length_range'] at hi ⊢
      rw [hget i hi, hget _ (Nat.mod_lt _ (by omega))]
      have hlt' : k * (2 * b) + i < 2 * (a + 1) * b := by
        apply hlt; rw [List.mem_range'_1]; omega
      unfold globeRow
      rw [getD_ofFn _ _ _ hlt', pt_div _ _ _ hi, pt_mod _ _ _ hi, if_pos rfl]
  have hfix : ∀ j, j < 2 * (a + 1) * b → j ∉ List.range' (k * (2 * b)) (2 * b) →
      (globeRow a b k).getD j 0 = j := by
    intro j hj hnot
    unfold globeRow
    rw [getD_ofFn _ _ _ hj]
    rw [if_neg]
    intro e
    apply hnot
    rw [List.mem_range'_1]
    have h1 := Nat.div_add_mod j (2 * b)
    have h2 := Nat.mod_lt j (show 0 < 2 * b by omega)
    rw [e, Nat.mul_comm] at h1
    omega
  refine ⟨hc, hfix, ?_⟩
  have := isSingleCycle_of_cycleOn hp hc (by simp; omega) hlt hfix
  simpa using this

/-! ## Hungarian rings: rotating along a ring -/

theorem ringForth_spec (n : Nat) (ring : List Nat) (hnd : ring.Nodup) (hlt : ∀ y ∈ ring, y < n)
    (hpos : 0 < ring.length) :
    IsPermOf n (ringForth n ring) ∧ inverse (ringForth n ring) = ringBack n ring ∧
    CycleOn (ringForth n ring) ring ∧ (∀ k, k < n → k ∉ ring → (ringForth n ring).getD k 0 = k) := by
  have hidx : ∀ k (hk : k < ring.length), ring.idxOf ring[k] = k := fun k hk => hnd.idxOf_getElem k hk
  have hf : ∀ i, i < n → (fun x => if ring.idxOf x < ring.length then
      ring.getD ((ring.idxOf x + 1) % ring.length) 0 else x) i < n := by
    intro i hi
    simp only
    split
    · rw [getD_eq_getElem (Nat.mod_lt _ hpos)]; exact hlt _ (List.getElem_mem _)
    · exact hi
  have hgf : ∀ i, i < n → (fun x => if ring.idxOf x < ring.length then
      ring.getD ((ring.idxOf x + (ring.length - 1)) % ring.length) 0 else x)
      ((fun x => if ring.idxOf x < ring.length then
        ring.getD ((ring.idxOf x + 1) % ring.length) 0 else x) i) = i := by
    intro i _
    simp only
    by_cases hin : ring.idxOf i < ring.length
    · rw [if_pos hin]
      have hm : (ring.idxOf i + 1) % ring.length < ring.length := Nat.mod_lt _ hpos
      rw [getD_eq_getElem hm, hidx _ hm, if_pos hm]
      have : ((ring.idxOf i + 1) % ring.length + (ring.length - 1)) % ring.length = ring.idxOf i := by
        rw [Nat.mod_add_mod]
        have : ring.idxOf i + 1 + (ring.length - 1) = ring.idxOf i + ring.length := by omega
        rw [this, Nat.add_mod_right, Nat.mod_eq_of_lt hin]
      rw [this, getD_eq_getElem hin]
      exact List.getElem_idxOf hin
    · rw [if_neg hin, if_neg hin]
  have eF : ringForth n ring = ofFn n (fun x => if ring.idxOf x < ring.length then
      ring.getD ((ring.idxOf x + 1) % ring.length) 0 else x) := rfl
  have eB : ringBack n ring = ofFn n (fun x => if ring.idxOf x < ring.length then
      ring.getD ((ring.idxOf x + (ring.length - 1)) % ring.length) 0 else x) := rfl
  refine ⟨eF ▸ ofFn_isPerm n _ (fun x => if ring.idxOf x < ring.length then
      ring.getD ((ring.idxOf x + (ring.length - 1)) % ring.length) 0 else x) hf hgf,
    by rw [eF, eB]; exact inverse_ofFn n _ (fun x => if ring.idxOf x < ring.length then
      ring.getD ((ring.idxOf x + (ring.length - 1)) % ring.length) 0 else x) hf hgf,
    ⟨List.ne_nil_of_length_pos hpos, hnd, ?_⟩, ?_⟩
  · intro i hi
    have hci : ring.getD i 0 < n := by rw [getD_eq_getElem hi]; exact hlt _ (List.getElem_mem _)
    unfold ringForth
    rw [getD_ofFn n _ _ hci]
    simp only
    rw [getD_eq_getElem hi, hidx i hi, if_pos hi]
  · intro k hk hnot
    unfold ringForth
    rw [getD_ofFn n _ _ hk]
    simp only
    rw [if_neg (by rw [List.idxOf_lt_length_iff]; exact hnot)]

/-- the parameters accepted by `hungarian_rings_generators` -/
def RingsAdm (ls li rs ri : Nat) : Prop :=
  1 < ls ∧ 1 < rs ∧ li < ls ∧ ri < rs ∧ ((li = 0 ∧ ri = 0) ∨ (0 < li ∧ 0 < ri))

instance (ls li rs ri : Nat) : Decidable (RingsAdm ls li rs ri) := by unfold RingsAdm; infer_instance

theorem mem_rightRing (ls li rs ri : Nat) (h : RingsAdm ls li rs ri) (y : Nat) :
    y ∈ rightRing ls li rs ri ↔
      (y = 0 ∨ (ls ≤ y ∧ y < ringsSize ls li rs ri) ∨ (0 < li ∧ y = li)) := by
  obtain ⟨h1, h2, h3, h4, h5⟩ := h
  unfold rightRing ringsSize
  by_cases h0 : li = 0 ∧ ri = 0
  · rw [if_pos h0, if_pos h0]
    simp only [List.mem_cons, List.mem_range'_1]
    omega
  · rw [if_neg h0, if_neg h0]
    simp only [List.mem_cons, List.mem_append, List.mem_range'_1]
    omega

theorem rightRing_length (ls li rs ri : Nat) (h : RingsAdm ls li rs ri) :
    (rightRing ls li rs ri).length = rs := by
  obtain ⟨h1, h2, h3, h4, h5⟩ := h
  unfold rightRing
  split
  · simp; omega
  · simp; omega

theorem rightRing_nodup (ls li rs ri : Nat) (h : RingsAdm ls li rs ri) :
    (rightRing ls li rs ri).Nodup := by
  obtain ⟨h1, h2, h3, h4, h5⟩ := h
  unfold rightRing
  split
  · rw [List.nodup_cons]
    refine ⟨?_, List.nodup_range'⟩
    simp only [List.mem_range'_1]; omega
  · rw [List.nodup_append]
    refine ⟨?_, ?_, ?_⟩
    · rw [List.nodup_cons]
      refine ⟨?_, List.nodup_range'⟩
      simp only [List.mem_range'_1]; omega
    · rw [List.nodup_cons]
      refine ⟨?_, List.nodup_range'⟩
      simp only [List.mem_range'_1]; omega
    · intro a ha b hb
      simp only [List.mem_cons, List.mem_range'_1] at ha hb
      omega

theorem rightRing_getD_second (ls li rs ri : Nat) (h : RingsAdm ls li rs ri) (hli : 0 < li) :
    (rightRing ls li rs ri).getD (rs - ri) 0 = li := by
  obtain ⟨h1, h2, h3, h4, h5⟩ := h
  unfold rightRing
  rw [if_neg (by omega)]
  have hlen : (0 :: List.range' ls (rs - ri - 1)).length = rs - ri := by simp; omega
  rw [List.getD_eq_getElem?_getD, List.getElem?_append_right (by omega), hlen, Nat.sub_self]
  rfl

theorem rightRing_getD_zero (ls li rs ri : Nat) : (rightRing ls li rs ri).getD 0 0 = 0 := by
  unfold rightRing; split <;> rfl

theorem iterate_cycle {p c : List Nat} (hc : CycleOn p c) (i : Nat) (hi : i < c.length) (j : Nat) :
    iterate p (c.getD i 0) j = c.getD ((i + j) % c.length) 0 := by
  induction j with
  | zero => rw [Nat.add_zero, Nat.mod_eq_of_lt hi]; rfl
  | succ j ih =>
    show p.getD (iterate p (c.getD i 0) j) 0 = _
    rw [ih, hc.step _ (Nat.mod_lt _ (by omega)), Nat.mod_add_mod]; rfl

theorem sharesExactly_iff (p q pts : List Nat) :
    sharesExactly p q pts = true ↔ ∀ x, (x ∈ supportOf p ∧ x ∈ supportOf q) ↔ x ∈ pts := by
  simp only [sharesExactly, Bool.and_eq_true, List.all_eq_true, List.contains_iff_mem, List.mem_filter]
  constructor
  · rintro ⟨h1, h2⟩ x
    exact ⟨fun h => h1 x h, fun h => h2 x h⟩
  · intro h
    exact ⟨fun x hx => (h x).1 hx, fun x hx => (h x).2 hx⟩

theorem mem_support_ring (n : Nat) (ring : List Nat) (hnd : ring.Nodup) (hlt : ∀ y ∈ ring, y < n)
    (h2 : 2 ≤ ring.length) (x : Nat) : x ∈ supportOf (ringForth n ring) ↔ x ∈ ring := by
  obtain ⟨_, _, hc, hfix⟩ := ringForth_spec n ring hnd hlt (by omega)
  rw [mem_supportOf]
  have hl : (ringForth n ring).length = n := length_ofFn n _
  rw [hl]
  constructor
  · rintro ⟨g1, g2⟩
    exact Classical.byContradiction fun hn => g2 (hfix x g1 hn)
  · intro hx
    exact ⟨hlt x hx, cycleOn_moved hc h2 x hx⟩

theorem ringsSize_ge (ls li rs ri : Nat) (h : RingsAdm ls li rs ri) : ls ≤ ringsSize ls li rs ri := by
  obtain ⟨h1, h2, h3, h4, h5⟩ := h
  unfold ringsSize; split <;> omega

theorem leftRing_facts (ls n : Nat) (h : ls ≤ n) :
    (leftRing ls).Nodup ∧ (∀ y ∈ leftRing ls, y < n) ∧ (leftRing ls).length = ls ∧
    ∀ y, y ∈ leftRing ls ↔ y < ls := by
  refine ⟨List.nodup_range, ?_, by simp [leftRing], fun y => by simp [leftRing]⟩
  intro y hy
  have := List.mem_range.1 hy
  omega

/-- the intersection points of the two rings -/
def ringsCommon (li ri : Nat) : List Nat := if li = 0 ∧ ri = 0 then [0] else [0, li]

/-- STRUCTURE of the Hungarian rings, for ALL admissible parameters: the two rotations are permutations
that are single cycles along the left ring `0..ls-1` and the right ring, of lengths `ls` and `rs`; the
points moved by both are exactly the intersection points `0` (and `li`); the second intersection is `li`
steps from the first along the left ring, and the first is `ri` steps after the second along the right ring. -/
theorem hungarianRings_structure (ls li rs ri : Nat) (h : RingsAdm ls li rs ri) :
    let n := ringsSize ls li rs ri
    let L := ringForth n (leftRing ls)
    let R := ringForth n (rightRing ls li rs ri)
    IsPermOf n L ∧ IsPermOf n R ∧
    CycleOn L (leftRing ls) ∧ CycleOn R (rightRing ls li rs ri) ∧
    (∀ k, k < n → k ∉ leftRing ls → L.getD k 0 = k) ∧
    (∀ k, k < n → k ∉ rightRing ls li rs ri → R.getD k 0 = k) ∧
    isSingleCycle L ls = true ∧ isSingleCycle R rs = true ∧
    sharesExactly L R (ringsCommon li ri) = true ∧
    iterate L 0 li = li ∧ (0 < li → iterate R li ri = 0) := by
  intro n L R
  have hadm := h
  obtain ⟨h1, h2, h3, h4, h5⟩ := h
  have hge := ringsSize_ge ls li rs ri hadm
  obtain ⟨l1, l2, l3, l4⟩ := leftRing_facts ls n hge
  have r1 := rightRing_nodup ls li rs ri hadm
  have r3 := rightRing_length ls li rs ri hadm
  have r2 : ∀ y ∈ rightRing ls li rs ri, y < n := by
    intro y hy
    rcases (mem_rightRing ls li rs ri hadm y).1 hy with g | g | g
    · show y < ringsSize ls li rs ri; omega
    · exact g.2
    · show y < ringsSize ls li rs ri; omega
  obtain ⟨pL, _, cL, fL⟩ := ringForth_spec n (leftRing ls) l1 l2 (by omega)
  obtain ⟨pR, _, cR, fR⟩ := ringForth_spec n (rightRing ls li rs ri) r1 r2 (by omega)
  refine ⟨pL, pR, cL, cR, fL, fR, ?_, ?_, ?_, ?_, ?_⟩
  · have := isSingleCycle_of_cycleOn pL cL (by omega) l2 fL
    rwa [l3] at this
  · have := isSingleCycle_of_cycleOn pR cR (by omega) r2 fR
    rwa [r3] at this
  · rw [sharesExactly_iff]
    intro x
    rw [mem_support_ring n _ l1 l2 (by omega), mem_support_ring n _ r1 r2 (by omega), l4,
      mem_rightRing ls li rs ri hadm]
    unfold ringsCommon
    split
    · simp only [List.mem_cons, List.not_mem_nil, or_false]; omega
    · simp only [List.mem_cons, List.not_mem_nil, or_false]; omega
  · have h0 : (leftRing ls).getD 0 0 = 0 := by
      rw [getD_eq_getElem (by omega)]; simp [leftRing]
    have := iterate_cycle cL 0 (by omega) li
    rw [h0, Nat.zero_add, l3, Nat.mod_eq_of_lt h3] at this
    rw [this, getD_eq_getElem (by omega)]; simp [leftRing]
  · intro hli
    have := iterate_cycle cR (rs - ri) (by omega) ri
    rw [rightRing_getD_second ls li rs ri hadm hli, r3] at this
    rw [this]
    have : rs - ri + ri = rs := by omega
    rw [this, Nat.mod_self, rightRing_getD_zero]

theorem mem_extra (L R L' R' g : List Nat) :
    g ∈ [L, R] ++ (((if L ≠ L' then [("-L", L')] else []) ++
        (if R ≠ R' then [("-R", R')] else [])).map (·.2) : List (List Nat)) ↔
      (g = L ∨ g = R ∨ g = L' ∨ g = R') := by
  by_cases e1 : L = L' <;> by_cases e2 : R = R' <;> simp [e1, e2] <;> grind

/-- the generator set of the Hungarian rings puzzle is inverse-closed and consists of permutations -/
theorem hungarianRings_inverse_closed (ls li rs ri : Nat) (h : RingsAdm ls li rs ri) :
    isInverseClosedSet (hungarianRings ls li rs ri).gens = true ∧
    ∀ g ∈ (hungarianRings ls li rs ri).gens, IsPermOf (hungarianRings ls li rs ri).n g := by
  have hadm := h
  obtain ⟨h1, h2, h3, h4, h5⟩ := h
  have hge := ringsSize_ge ls li rs ri hadm
  obtain ⟨l1, l2, l3, l4⟩ := leftRing_facts ls (ringsSize ls li rs ri) hge
  have r1 := rightRing_nodup ls li rs ri hadm
  have r3 := rightRing_length ls li rs ri hadm
  have r2 : ∀ y ∈ rightRing ls li rs ri, y < ringsSize ls li rs ri := by
    intro y hy
    rcases (mem_rightRing ls li rs ri hadm y).1 hy with g | g | g
    · omega
    · exact g.2
    · omega
  obtain ⟨pL, iL, _, _⟩ := ringForth_spec (ringsSize ls li rs ri) (leftRing ls) l1 l2 (by omega)
  obtain ⟨pR, iR, _, _⟩ := ringForth_spec (ringsSize ls li rs ri) (rightRing ls li rs ri) r1 r2 (by omega)
  have pL' := inverse_isPerm _ _ pL
  have pR' := inverse_isPerm _ _ pR
  have iL' := inverse_inverse _ _ pL
  have iR' := inverse_inverse _ _ pR
  rw [iL] at pL' iL'
  rw [iR] at pR' iR'
  have hmem : ∀ g, g ∈ (hungarianRings ls li rs ri).gens ↔
      (g = ringForth (ringsSize ls li rs ri) (leftRing ls) ∨
       g = ringForth (ringsSize ls li rs ri) (rightRing ls li rs ri) ∨
       g = ringBack (ringsSize ls li rs ri) (leftRing ls) ∨
       g = ringBack (ringsSize ls li rs ri) (rightRing ls li rs ri)) := by
    intro g
    exact mem_extra _ _ _ _ g
  constructor
  · rw [isInverseClosedSet_iff]
    intro g hg
    rw [hmem] at hg ⊢
    rcases hg with rfl | rfl | rfl | rfl
    · rw [iL]; exact Or.inr (Or.inr (Or.inl rfl))
    · rw [iR]; exact Or.inr (Or.inr (Or.inr rfl))
    · rw [iL']; exact Or.inl rfl
    · rw [iR']; exact Or.inr (Or.inl rfl)
  · intro g hg
    show IsPermOf (ringsSize ls li rs ri) g
    rw [hmem] at hg
    rcases hg with rfl | rfl | rfl | rfl
    · exact pL
    · exact pR
    · exact pL'
    · exact pR'

end Cv.Puzzles
