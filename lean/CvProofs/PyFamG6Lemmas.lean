/-
  G6 — lemmas about the itertools part of the Python prelude (`pyPicks`, `pyPermutationsN`, `pyCombinationsN`,
  `pyEnumerate`, `pyAnyM`) and loop lemmas with a filter.  Core Lean only.
-/
import CvProofs.PyFamG4More
import CvProofs.PyFamG4Key
namespace Cv.PyG6
open Cv.Py Cv.PyGen Cv.Families Cv.PyG4
open Cv.GraphDef (PermDef)

/-! ### `pyPicks`, `pyPermutationsN` and `map` -/

theorem flatMap_single {α β : Type} (f : α → β) (l : List α) : l.flatMap (fun k => [f k]) = l.map f := by
  induction l with
  | nil => rfl
  | cons a t ih => simp only [List.flatMap_cons, List.map_cons, ih, List.cons_append, List.nil_append]

theorem flatMap_congr {α β : Type} (f g : α → List β) (l : List α) (h : ∀ x ∈ l, f x = g x) :
    l.flatMap f = l.flatMap g := by
  induction l with
  | nil => rfl
  | cons a t ih =>
    simp only [List.flatMap_cons, h a List.mem_cons_self, ih (fun x hx => h x (List.mem_cons_of_mem _ hx))]

theorem pyPicks_map {α β : Type} (f : α → β) (l : List α) :
    pyPicks (l.map f) = (pyPicks l).map fun p => (f p.1, p.2.map f) := by
  induction l with
  | nil => rfl
  | cons a t ih =>
    simp only [List.map_cons, pyPicks, ih, List.map_map]
    congr 1

theorem pyPermutationsN_map {α β : Type} (f : α → β) (r : Nat) (l : List α) :
    pyPermutationsN r (l.map f) = (pyPermutationsN r l).map (List.map f) := by
  induction r generalizing l with
  | zero => rfl
  | succ r ih =>
    simp only [pyPermutationsN, pyPicks_map, List.flatMap_map, List.map_flatMap, ih, List.map_map]
    congr 1

theorem pyPicks_nodup (l : List Nat) (h : l.Nodup) :
    pyPicks l = l.map fun a => (a, l.filter (· != a)) := by
  induction l with
  | nil => rfl
  | cons a t ih =>
    have ha : a ∉ t := (List.nodup_cons.1 h).1
    have ht : t.Nodup := (List.nodup_cons.1 h).2
    simp only [pyPicks, ih ht, List.map_cons, List.map_map]
    congr 1
    · congr 1
      rw [List.filter_cons]
      simp only [bne_self_eq_false, Bool.false_eq_true, if_false]
      symm
      rw [List.filter_eq_self]
      intro x hx
      simp only [bne_iff_ne, ne_eq]
      intro e; subst e; exact ha hx
    · apply List.map_congr_left
      intro b hb
      simp only [Function.comp_apply]
      congr 1
      rw [List.filter_cons]
      have : (a != b) = true := by
        simp only [bne_iff_ne, ne_eq]; intro e; subst e; exact ha hb
      rw [this]; rfl

theorem pyPermutationsN_one {α : Type} (l : List α) : pyPermutationsN 1 l = l.map fun a => [a] := by
  have hp : ∀ l : List α, (pyPicks l).map (·.1) = l := by
    intro l
    induction l with
    | nil => rfl
    | cons a t ih => simp only [pyPicks, List.map_cons, List.map_map]; congr 1
  simp only [pyPermutationsN, List.map_cons, List.map_nil]
  rw [flatMap_single (fun p : α × List α => [p.1])]
  conv => rhs; rw [← hp l]
  rw [List.map_map]; rfl

/-- `permutations(l, 2)` of a duplicate-free list -/
theorem pyPermutationsN_two (l : List Nat) (h : l.Nodup) :
    pyPermutationsN 2 l = l.flatMap fun a => (l.filter (· != a)).map fun b => [a, b] := by
  rw [pyPermutationsN, pyPicks_nodup l h, List.flatMap_map]
  apply flatMap_congr
  intro a _
  rw [pyPermutationsN_one, List.map_map]; rfl

/-- `permutations(l, 3)` of a duplicate-free list -/
theorem pyPermutationsN_three (l : List Nat) (h : l.Nodup) :
    pyPermutationsN 3 l = l.flatMap fun a => (l.filter (· != a)).flatMap fun b =>
      ((l.filter (· != a)).filter (· != b)).map fun c => [a, b, c] := by
  rw [pyPermutationsN, pyPicks_nodup l h, List.flatMap_map]
  apply flatMap_congr
  intro a _
  rw [pyPermutationsN_two _ (h.filter _), List.map_flatMap]
  apply flatMap_congr
  intro b _
  rw [List.map_map]; rfl

end Cv.PyG6
