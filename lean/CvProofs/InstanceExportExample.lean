/-
  Concrete runs for C09e / C08e / C11x, evaluated in the kernel (`bfs = bfsK`, `CvProofs/BfsKernel.lean`): LRX(4), width 2
  (one word), collision-free `posHash`, flagged inverse-closed, batch size 3, TWO start states listed with a repetition;
  the un-encoded graph with the base-4 hash.  Core Lean only.
-/
import CvProofs.InstanceExport
import CvProofs.InstanceExample
import CvProofs.InstancePathsExample
import CvProofs.BfsKernel
namespace Cv.InstX.Example
open Cv Cv.Instance Cv.Codec Cv.Instance.Example Cv.Kernel

/-- two start states, the first one listed twice -/
def starts2 : List (List Nat) := [id4, [1, 2, 3, 0], id4]
def gX : Graph (List W) := encodedPermGraph 2 4 lrx4 posHash true 3
def gP2 : Graph (List Nat) := plainPermGraph lrx4 b4Hash true 2

theorem starts2_encodable : ∀ s ∈ starts2, encodable 2 4 s = true := by decide
theorem starts2_symm : SymmOnOrbit lrx4 starts2 :=
  symmOnOrbit_of_invClosed 4 lrx4 lrx4_perm lrx4_invClosed starts2 (by decide)
theorem posHash_inj24 : ∀ x y, Valid 2 4 x → Valid 2 4 y → posHash x = posHash y → x = y :=
  fun _ _ _ _ h => posHash_injective h

theorem orbit2_subset : ∀ s, InOrbit (permGraphNb lrx4) starts2 s → s ∈ all24 := by
  have h0 : ∀ s ∈ starts2, s ∈ all24 := by decide +kernel
  exact fun s hs => Transport.inOrbit_invariant _ _ (· ∈ all24) h0 (fun a b ha hb => all24_closed a ha b hb) s hs

theorem b4Hash_inj2 : ∀ s t, InOrbit (permGraphNb lrx4) starts2 s → InOrbit (permGraphNb lrx4) starts2 t →
    b4Hash s = b4Hash t → s = t := by
  have h : ∀ s ∈ all24, ∀ t ∈ all24, b4Hash s = b4Hash t → s = t := by decide +kernel
  intro s t hs ht
  exact h s (orbit2_subset s hs) t (orbit2_subset t ht)

/-! ### early-stopped runs (C09e) -/

/-- stopped by `max_diameter = 2` -/
def cD : BfsCfg (List W) := { maxDiameter := 2 }
/-- stopped by `max_layer_size_to_explore = 5` (layer 2 has 6 states), a callback that never fires is present -/
def cX : BfsCfg (List W) := { maxExplore := 5, stop := some (fun _ _ => false) }
/-- stopped by the callback "the layer contains the encoding of `[0, 2, 1, 3]`"; store limit 4, hashes requested -/
def cS : BfsCfg (List W) :=
  { stop := some (fun _ L => L.contains (encode 2 4 [0, 2, 1, 3])), maxStore := some 4, returnHashes := true }

theorem runD : (bfs gX cD (starts2.map (encode 2 4))).completed = false ∧
    (bfs gX cD (starts2.map (encode 2 4))).layerSizes = [2, 4, 6] ∧
    (bfs gX cD (starts2.map (encode 2 4))).layers.map (fun p => (p.1, p.2.map (decode 2 4))) =
      [(0, [[1, 2, 3, 0], [0, 1, 2, 3]]),
       (1, [[2, 1, 3, 0], [2, 3, 0, 1], [3, 0, 1, 2], [1, 0, 2, 3]]),
       (2, [[3, 2, 0, 1], [1, 3, 0, 2], [0, 2, 1, 3], [0, 2, 3, 1], [3, 1, 0, 2], [0, 3, 1, 2]])] := by
  rw [bfs_eq_bfsK]; decide +kernel

theorem runX : (bfs gX cX (starts2.map (encode 2 4))).completed = false ∧
    (bfs gX cX (starts2.map (encode 2 4))).layerSizes = [2, 4, 6] ∧
    (bfs gX cX (starts2.map (encode 2 4))).cbTrace = [1] := by
  rw [bfs_eq_bfsK]; decide +kernel

theorem runS : (bfs gX cS (starts2.map (encode 2 4))).completed = false ∧
    (bfs gX cS (starts2.map (encode 2 4))).layerSizes = [2, 4, 6] ∧
    (bfs gX cS (starts2.map (encode 2 4))).layers =
      [(0, [[0x39#64], [0xe4#64]]), (1, [[0x36#64], [0x4e#64], [0x93#64], [0xe1#64]])] ∧
    (bfs gX cS (starts2.map (encode 2 4))).layers.map (fun p => (p.1, p.2.map (decode 2 4))) =
      [(0, [[1, 2, 3, 0], [0, 1, 2, 3]]), (1, [[2, 1, 3, 0], [2, 3, 0, 1], [3, 0, 1, 2], [1, 0, 2, 3]])] ∧
    (bfs gX cS (starts2.map (encode 2 4))).hashes.map (·.length) = [2, 4, 6] ∧
    (bfs gX cS (starts2.map (encode 2 4))).cbTrace = [1, 2] := by
  rw [bfs_eq_bfsK]; decide +kernel

/-- the exhaustive run from the two start states -/
theorem runFull : (bfs gX {} (starts2.map (encode 2 4))).completed = true ∧
    (bfs gX {} (starts2.map (encode 2 4))).layerSizes = [2, 4, 6, 6, 4, 2] := by
  rw [bfs_eq_bfsK]; decide +kernel

/-- un-encoded: callback "the layer contains `[0, 2, 1, 3]`", store limit 4, hashes requested -/
def cSp : BfsCfg (List Nat) :=
  { stop := some (fun _ L => L.contains [0, 2, 1, 3]), maxStore := some 4, returnHashes := true }

theorem runSp : (bfs gP2 cSp starts2).completed = false ∧ (bfs gP2 cSp starts2).layerSizes = [2, 4, 6] ∧
    (bfs gP2 cSp starts2).layers =
      [(0, [[0, 1, 2, 3], [1, 2, 3, 0]]), (1, [[1, 0, 2, 3], [2, 1, 3, 0], [2, 3, 0, 1], [3, 0, 1, 2]])] ∧
    (bfs gP2 cSp starts2).hashes = [[27, 108], [75, 156, 177, 198], [39, 45, 54, 114, 210, 225]] ∧
    (bfs gP2 cSp starts2).cbTrace = [1, 2] := by
  rw [bfs_eq_bfsK]; decide +kernel

theorem runFullp : (bfs gP2 {} starts2).completed = true ∧
    (bfs gP2 {} starts2).layerSizes = [2, 4, 6, 6, 4, 2] := by
  rw [bfs_eq_bfsK]; decide +kernel

/-- single word: the graph of the 1-D routines with the identity hasher, batch size 1 -/
theorem run1d :
    (bfs (encodedPermGraph1d 2 4 lrx4 identityHash true 1) cS (starts2.map (encode 2 4))).completed = false ∧
    (bfs (encodedPermGraph1d 2 4 lrx4 identityHash true 1) cS (starts2.map (encode 2 4))).layerSizes = [2, 4, 6] ∧
    (bfs (encodedPermGraph1d 2 4 lrx4 identityHash true 1) cS (starts2.map (encode 2 4))).layers.map
        (fun p => (p.1, p.2.map (decode 2 4))) =
      [(0, [[1, 2, 3, 0], [0, 1, 2, 3]]), (1, [[2, 1, 3, 0], [2, 3, 0, 1], [3, 0, 1, 2], [1, 0, 2, 3]])] ∧
    (bfs (encodedPermGraph1d 2 4 lrx4 identityHash true 1) cS (starts2.map (encode 2 4))).hashes =
      [[57, 228], [54, 78, 147, 225], [75, 120, 135, 141, 156, 216]] ∧
    (bfs (encodedPermGraph1d 2 4 lrx4 identityHash true 1) cS (starts2.map (encode 2 4))).cbTrace = [1, 2] := by
  rw [bfs_eq_bfsK]; decide +kernel

/-! ### exports (C08e) -/

def cE : BfsCfg (List W) := { maxStore := none, returnEdges := true, returnHashes := true }
def cP : BfsCfg (List W) := { maxStore := none, returnEdges := true, returnHashes := true, maxDiameter := 1 }
def cEp : BfsCfg (List Nat) := { maxStore := none, returnEdges := true, returnHashes := true }
def cPp : BfsCfg (List Nat) := { maxStore := none, returnEdges := true, returnHashes := true, maxDiameter := 1 }
/-- store limit 4: layer 2 (six states) is dropped -/
def cE4 : BfsCfg (List W) := { maxStore := some 4, returnEdges := true, returnHashes := true }

theorem small_of_mem (l : List Nat) (hl : ∀ m ∈ l, m ≤ 10 ^ 15) (i m : Nat) (h : l[i]? = some m) : m ≤ 10 ^ 15 :=
  hl m (List.mem_of_getElem? h)

theorem expE : (bfs gX cE (starts2.map (encode 2 4))).completed = true ∧
    (bfs gX cE (starts2.map (encode 2 4))).layerSizes = [2, 4, 6, 6, 4, 2] ∧
    (allStates (bfs gX cE (starts2.map (encode 2 4)))).map (·.map (decode 2 4)) =
      some [[1, 2, 3, 0], [0, 1, 2, 3], [2, 1, 3, 0], [2, 3, 0, 1], [3, 0, 1, 2], [1, 0, 2, 3], [3, 2, 0, 1],
        [0, 2, 3, 1], [3, 1, 0, 2], [1, 3, 0, 2], [0, 3, 1, 2], [0, 2, 1, 3], [2, 3, 1, 0], [3, 1, 2, 0],
        [1, 3, 2, 0], [3, 0, 2, 1], [2, 0, 3, 1], [2, 0, 1, 3], [3, 2, 1, 0], [0, 3, 2, 1], [0, 1, 3, 2],
        [1, 2, 0, 3], [1, 0, 3, 2], [2, 1, 0, 3]] ∧
    edgesList (bfs gX cE (starts2.map (encode 2 4))) =
      some [(0, 3), (1, 0), (0, 1), (1, 4), (0, 2), (1, 5), (2, 9), (3, 4), (4, 1), (5, 7), (2, 11), (3, 0),
        (4, 3), (5, 8), (2, 0), (3, 6), (4, 10), (5, 1), (6, 17), (7, 12), (8, 5), (9, 15), (10, 13), (11, 2),
        (6, 14), (7, 5), (8, 12), (9, 2), (10, 16), (11, 15), (6, 3), (7, 16), (8, 9), (9, 8), (10, 4), (11, 17),
        (12, 8), (13, 21), (14, 6), (15, 11), (16, 10), (17, 20), (12, 7), (13, 10), (14, 20), (15, 9), (16, 21),
        (17, 6), (12, 18), (13, 14), (14, 13), (15, 19), (16, 7), (17, 11), (18, 23), (19, 18), (20, 14),
        (21, 16), (18, 19), (19, 22), (20, 17), (21, 13), (18, 12), (19, 15), (20, 22), (21, 23), (22, 19),
        (23, 22), (22, 23), (23, 18), (22, 20), (23, 21)] := by
  rw [bfs_eq_bfsK]; decide +kernel

theorem expP : (bfs gX cP (starts2.map (encode 2 4))).completed = false ∧
    (bfs gX cP (starts2.map (encode 2 4))).layerSizes = [2, 4] ∧
    (allStates (bfs gX cP (starts2.map (encode 2 4)))).map (·.map (decode 2 4)) =
      some [[1, 2, 3, 0], [0, 1, 2, 3], [2, 1, 3, 0], [2, 3, 0, 1], [3, 0, 1, 2], [1, 0, 2, 3]] ∧
    edgesList (bfs gX cP (starts2.map (encode 2 4))) =
      some [(0, 3), (1, 0), (0, 1), (1, 4), (0, 2), (1, 5), (3, 0), (0, 1), (1, 0), (4, 1), (2, 0), (5, 1)] := by
  rw [bfs_eq_bfsK]; decide +kernel

theorem expE4 : (bfs gX cE4 (starts2.map (encode 2 4))).completed = true ∧
    (bfs gX cE4 (starts2.map (encode 2 4))).layerSizes = [2, 4, 6, 6, 4, 2] ∧
    allStates (bfs gX cE4 (starts2.map (encode 2 4))) = none := by
  rw [bfs_eq_bfsK]; decide +kernel

theorem expEp : (bfs gP2 cEp starts2).completed = true ∧ (bfs gP2 cEp starts2).layerSizes = [2, 4, 6, 6, 4, 2] ∧
    (allStates (bfs gP2 cEp starts2)).map List.length = some 24 ∧
    (edgesList (bfs gP2 cEp starts2)).map List.length = some 72 := by
  rw [bfs_eq_bfsK]; decide +kernel

theorem expPp : (bfs gP2 cPp starts2).completed = false ∧ (bfs gP2 cPp starts2).layerSizes = [2, 4] ∧
    allStates (bfs gP2 cPp starts2) =
      some [[0, 1, 2, 3], [1, 2, 3, 0], [1, 0, 2, 3], [2, 1, 3, 0], [2, 3, 0, 1], [3, 0, 1, 2]] ∧
    edgesList (bfs gP2 cPp starts2) =
      some [(0, 1), (1, 4), (0, 5), (1, 0), (0, 2), (1, 3), (1, 0), (4, 1), (5, 0), (0, 1), (2, 0), (3, 1)] := by
  rw [bfs_eq_bfsK]; decide +kernel

def cE4p : BfsCfg (List Nat) := { maxStore := some 4, returnEdges := true, returnHashes := true }

theorem expE4p : (bfs gP2 cE4p starts2).completed = true ∧
    (bfs gP2 cE4p starts2).layerSizes = [2, 4, 6, 6, 4, 2] ∧ allStates (bfs gP2 cE4p starts2) = none := by
  rw [bfs_eq_bfsK]; decide +kernel

/-- single word: the exports of the graph of the 1-D routines with the identity hasher, batch size 1 -/
theorem exp1d :
    (bfs (encodedPermGraph1d 2 4 lrx4 identityHash true 1) cE (starts2.map (encode 2 4))).completed = true ∧
    (allStates (bfs (encodedPermGraph1d 2 4 lrx4 identityHash true 1) cE (starts2.map (encode 2 4)))).map
      List.length = some 24 ∧
    (edgesList (bfs (encodedPermGraph1d 2 4 lrx4 identityHash true 1) cE (starts2.map (encode 2 4)))).map
      List.length = some 72 ∧
    (bfs (encodedPermGraph1d 2 4 lrx4 identityHash true 1) cP (starts2.map (encode 2 4))).completed = false ∧
    (allStates (bfs (encodedPermGraph1d 2 4 lrx4 identityHash true 1) cP (starts2.map (encode 2 4)))).map
        (·.map (decode 2 4)) =
      some [[1, 2, 3, 0], [0, 1, 2, 3], [2, 1, 3, 0], [2, 3, 0, 1], [3, 0, 1, 2], [1, 0, 2, 3]] ∧
    edgesList (bfs (encodedPermGraph1d 2 4 lrx4 identityHash true 1) cP (starts2.map (encode 2 4))) =
      some [(0, 3), (1, 0), (0, 1), (1, 4), (0, 2), (1, 5), (3, 0), (0, 1), (1, 0), (4, 1), (2, 0), (5, 1)] ∧
    allStates (bfs (encodedPermGraph1d 2 4 lrx4 identityHash true 1) cE4 (starts2.map (encode 2 4))) = none := by
  simp only [bfs_eq_bfsK]; decide +kernel

/-! ### the other engines (C11x) -/

/-- kernel-evaluable copies of the interactive engine (structural sorting, `uniqueStatesK`) -/
def initK {α : Type} (g : Graph α) (S : List α) : IBfs α :=
  { cur := uniqueStatesK g.hash S, hashes := [(uniqueStatesK g.hash S).map g.hash] }
def stepK {α : Type} (g : Graph α) (b : IBfs α) : IBfs α :=
  { cur := (uniqueStatesK g.hash (g.neighbors b.cur)).filter fun x => b.notSeen g (g.hash x),
    hashes := b.hashes ++ [((uniqueStatesK g.hash (g.neighbors b.cur)).filter fun x => b.notSeen g (g.hash x)).map
      g.hash] }
def iterK {α : Type} (g : Graph α) (b : IBfs α) : Nat → IBfs α
  | 0 => b
  | k + 1 => stepK g (iterK g b k)

theorem init_eqK {α : Type} (g : Graph α) (S : List α) : IBfs.init g S = initK g S := by
  unfold IBfs.init initK Graph.unique
  rw [uniqueStates_eq]
theorem step_eqK {α : Type} (g : Graph α) (b : IBfs α) : IBfs.step g b = stepK g b := by
  unfold IBfs.step stepK Graph.unique
  rw [uniqueStates_eq]
theorem iter_eqK {α : Type} (g : Graph α) (b : IBfs α) (k : Nat) : IBfs.iter g b k = iterK g b k := by
  induction k with
  | zero => rfl
  | succ k ih => show IBfs.step g (IBfs.iter g b k) = stepK g (iterK g b k); rw [ih, step_eqK]

/-- interactive BFS on the encoded graph from the two start states: layer 2 decoded, the hash tensors, exhaustion -/
theorem ibfsX :
    (IBfs.iter gX (IBfs.init gX (starts2.map (encode 2 4))) 2).cur.map (decode 2 4) =
      [[3, 2, 0, 1], [0, 2, 3, 1], [3, 1, 0, 2], [1, 3, 0, 2], [0, 3, 1, 2], [0, 2, 1, 3]] ∧
    (IBfs.iter gX (IBfs.init gX (starts2.map (encode 2 4))) 2).hashes.map List.length = [2, 4, 6] ∧
    ((List.range 8).map fun k => (IBfs.iter gX (IBfs.init gX (starts2.map (encode 2 4))) k).cur.length) =
      [2, 4, 6, 6, 4, 2, 0, 0] := by
  simp only [iter_eqK, init_eqK]
  decide +kernel

theorem ibfsP :
    (IBfs.iter gP2 (IBfs.init gP2 starts2) 2).cur =
      [[0, 2, 1, 3], [0, 2, 3, 1], [0, 3, 1, 2], [1, 3, 0, 2], [3, 1, 0, 2], [3, 2, 0, 1]] ∧
    (IBfs.iter gP2 (IBfs.init gP2 starts2) 2).hashes =
      [[27, 108], [75, 156, 177, 198], [39, 45, 54, 114, 210, 225]] := by
  simp only [iter_eqK, init_eqK]
  decide +kernel

theorem ibfs1d :
    ((List.range 8).map fun k => (IBfs.iter (encodedPermGraph1d 2 4 lrx4 identityHash true 1)
        (IBfs.init (encodedPermGraph1d 2 4 lrx4 identityHash true 1) (starts2.map (encode 2 4))) k).cur.length) =
      [2, 4, 6, 6, 4, 2, 0, 0] := by
  simp only [iter_eqK, init_eqK]
  decide +kernel

/-- NumPy engine on single-word states (1-D routines), inverse map `[1, 0, 2]` of LRX(4): exhaustive, cut by the depth
limit, and on scalars -/
theorem numpyX :
    bfsNumpy 3 (encodedPermGraph1d 2 4 lrx4 identityHash true 1).act [1, 0, 2] (encode 2 4 id4) 10 =
      [1, 3, 5, 6, 5, 3, 1] ∧
    bfsNumpy 3 (encodedPermGraph1d 2 4 lrx4 identityHash true 1).act [1, 0, 2] (encode 2 4 id4) 3 = [1, 3, 5, 6] ∧
    bfsNumpy 3 (fun i (x : W) => evalProg1d (compile (lrx4.getD i []) 2 4) x) [1, 0, 2]
      ((encode 2 4 id4).getD 0 0#64) 10 = [1, 3, 5, 6, 5, 3, 1] := by decide +kernel

/-- the inverse map is needed: with every generator declared its own inverse the engine skips the wrong groups -/
theorem numpyX_wrong :
    bfsNumpy 3 (encodedPermGraph1d 2 4 lrx4 identityHash true 1).act [0, 1, 2] (encode 2 4 id4) 10 ≠
      [1, 3, 5, 6, 5, 3, 1] := by decide +kernel

/-! ### the batch-size hypothesis is needed -/

/-- batch size 0 (`ceil(len/0)` batches; the Python code raises `ZeroDivisionError`): the model reports completion after
layer 0 although class 1 is not empty -/
theorem batch0_needed :
    (bfs (encodedPermGraph 2 4 lrx4 posHash true 0) {} (starts2.map (encode 2 4))).completed = true ∧
    (bfs (encodedPermGraph 2 4 lrx4 posHash true 0) {} (starts2.map (encode 2 4))).layerSizes = [2] ∧
    DistLayer (permGraphNb lrx4) starts2 1 [1, 0, 2, 3] := by
  refine ⟨?_, ?_, ⟨⟨id4, by decide, .snoc (.nil _) (by decide)⟩, ?_⟩⟩
  · rw [bfs_eq_bfsK]; decide +kernel
  · rw [bfs_eq_bfsK]; decide +kernel
  · intro j hj hr
    have : j = 0 := by omega
    subst this
    have := (reach_zero ..).1 hr
    revert this; decide

end Cv.InstX.Example
