/-
  Finiteness of the set of reduced `n×k` states and the pigeonhole argument: a map of a finite set into itself that has
  a left inverse on the set is undone by it from BOTH sides.  Used to get the two-sided inverse law of the matrix pair
  (`CvProofs/InstanceMatPaths.lean`) from a ONE-sided condition on the generator matrices (`invs[i] · gens[i] ≡ I` as in
  the task, or `gens[i] · invs[i] ≡ I` as `MatrixGenerator.inv` asserts).  Core Lean only.
-/
import CvProofs.InstanceMatSymm
namespace Cv.InstanceMat

/-! ### pigeonhole on a duplicate-free list -/

theorem surj_of_inj_on {α : Type} [DecidableEq α] (A : List α) (hA : A.Nodup) (f : α → α)
    (hmaps : ∀ x ∈ A, f x ∈ A) (hinj : ∀ x ∈ A, ∀ y ∈ A, f x = f y → x = y) :
    ∀ y ∈ A, ∃ x ∈ A, f x = y := by
  intro y hy
  apply Classical.byContradiction
  intro hno
  have hne : ∀ x ∈ A, f x ≠ y := fun x hx e => hno ⟨x, hx, e⟩
  have hnd : (A.map f).Nodup := by
    rw [List.nodup_iff_pairwise_ne, List.pairwise_map]
    exact (List.nodup_iff_pairwise_ne.1 hA).imp_of_mem (fun ha hb hab e => hab (hinj _ ha _ hb e))
  have hsub : A.map f ⊆ A.erase y := by
    intro z hz
    obtain ⟨x, hx, rfl⟩ := List.mem_map.1 hz
    exact (List.mem_erase_of_ne (hne x hx)).2 (hmaps x hx)
  have h1 := hnd.length_le_of_subset hsub
  have hpos : 1 ≤ A.length := List.length_pos_of_mem hy
  rw [List.length_map, List.length_erase] at h1
  simp only [hy, if_true] at h1
  omega

/-- a self-map of a finite set with a left inverse on the set: the left inverse is a right inverse as well -/
theorem right_inverse_of_left {α : Type} [DecidableEq α] (A : List α) (hA : A.Nodup) (f g : α → α)
    (hf : ∀ x ∈ A, f x ∈ A) (hgf : ∀ x ∈ A, g (f x) = x) : ∀ y ∈ A, f (g y) = y := by
  intro y hy
  obtain ⟨x, hx, rfl⟩ := surj_of_inj_on A hA f hf
    (fun a ha b hb e => by rw [← hgf a ha, ← hgf b hb, e]) y hy
  rw [hgf x hx]

/-! ### the reduced states of a given length -/

/-- all lists of length `N` with entries in `[0, m)` -/
def allStates (m : Nat) : Nat → List (List Int)
  | 0 => [[]]
  | N + 1 => (List.range m).flatMap fun (a : Nat) => (allStates m N).map fun t => (a : Int) :: t

theorem mem_allStates (m : Nat) : ∀ (N : Nat) (S : List Int),
    S ∈ allStates m N ↔ S.length = N ∧ ∀ e ∈ S, 0 ≤ e ∧ e < (m : Int) := by
  intro N
  induction N with
  | zero =>
    intro S
    simp only [allStates, List.mem_singleton]
    constructor
    · rintro rfl; exact ⟨rfl, fun e he => by cases he⟩
    · rintro ⟨h, -⟩; exact List.eq_nil_of_length_eq_zero h
  | succ N ih =>
    intro S
    simp only [allStates, List.mem_flatMap, List.mem_range, List.mem_map]
    constructor
    · rintro ⟨a, ha, t, ht, rfl⟩
      obtain ⟨h1, h2⟩ := (ih t).1 ht
      refine ⟨by rw [List.length_cons, h1], ?_⟩
      intro e he
      rcases List.mem_cons.1 he with rfl | he
      · omega
      · exact h2 e he
    · rintro ⟨hl, hb⟩
      match S, hl, hb with
      | e :: t, hl, hb =>
        have he := hb e (by simp)
        refine ⟨e.toNat, by omega, t, (ih t).2 ⟨by simpa using hl, fun x hx => hb x (by simp [hx])⟩, ?_⟩
        rw [Int.toNat_of_nonneg he.1]

theorem nodup_allStates (m : Nat) : ∀ N, (allStates m N).Nodup := by
  intro N
  induction N with
  | zero => simp [allStates]
  | succ N ih =>
    simp only [allStates]
    rw [List.nodup_iff_pairwise_ne, List.pairwise_flatMap]
    constructor
    · intro a _
      rw [List.pairwise_map]
      exact (List.nodup_iff_pairwise_ne.1 ih).imp (fun hab e => hab (List.cons.inj e).2)
    · apply (List.nodup_iff_pairwise_ne.1 List.nodup_range).imp
      intro a b hab x hx y hy e
      obtain ⟨t, -, rfl⟩ := List.mem_map.1 hx
      obtain ⟨u, -, rfl⟩ := List.mem_map.1 hy
      have := (List.cons.inj e).1
      exact hab (by omega)

end Cv.InstanceMat
