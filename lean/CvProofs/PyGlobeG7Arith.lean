/-
  G7 part 3: arithmetic of the flip of the globe: the cells swapped by the flip loop of `globe_gens` and the point map
  of `globeFlip`.  Core Lean only.
-/
import CvProofs.Puzzles

namespace Cv.PyG7
open Cv.Puzzles

/-- cell in row `i`, sector `(c + k) mod w` -/
def enc (w c i k : Nat) : Nat := i * w + (c + k) % w

/-- the point map of `globeFlip a b c` -/
def flipσ (a b c : Nat) : Nat → Nat := onGrid (2 * b) (flipφ a b c)

/-- the cells `block1[k]` visited by the flip loop, in order -/
def flipPs (a b c : Nat) : List Nat :=
  (List.range ((a + 1) / 2)).flatMap fun i => (List.range b).map fun k => enc (2 * b) c i k

theorem globeFlip_eq_σ (a b c : Nat) : globeFlip a b c = ofFn (2 * (a + 1) * b) (flipσ a b c) := by
  rw [globeFlip_eq, globe_size]; rfl

theorem off_enc (b c k : Nat) (hc : c < 2 * b) (hk : k < 2 * b) :
    ((c + k) % (2 * b) + (2 * b - c)) % (2 * b) = k := by
  have e1 := add_mod_cases' c k (2 * b) hc (by omega)
  have hlt : (c + k) % (2 * b) < 2 * b := Nat.mod_lt _ (by omega)
  generalize (c + k) % (2 * b) = y at e1 hlt
  have e2 := add_mod_cases' y (2 * b - c) (2 * b) hlt (by omega)
  rw [e2]
  split at e1 <;> split <;> omega

theorem enc_off (b c x : Nat) (hc : c < 2 * b) (hx : x < 2 * b) :
    (c + (x + (2 * b - c)) % (2 * b)) % (2 * b) = x := by
  have e1 := add_mod_cases' x (2 * b - c) (2 * b) hx (by omega)
  have hlt : (x + (2 * b - c)) % (2 * b) < 2 * b := Nat.mod_lt _ (by omega)
  generalize (x + (2 * b - c)) % (2 * b) = y at e1 hlt
  have e2 := add_mod_cases' c y (2 * b) hc (by omega)
  rw [e2]
  split at e1 <;> split <;> omega

theorem enc_row (b c i k : Nat) (hb : 1 ≤ b) : enc (2 * b) c i k / (2 * b) = i :=
  pt_div _ _ _ (Nat.mod_lt _ (by omega))

theorem enc_col (b c i k : Nat) (hb : 1 ≤ b) : enc (2 * b) c i k % (2 * b) = (c + k) % (2 * b) :=
  pt_mod _ _ _ (Nat.mod_lt _ (by omega))

theorem enc_lt (a b c i k : Nat) (hb : 1 ≤ b) (hi : i < a + 1) : enc (2 * b) c i k < 2 * (a + 1) * b := by
  rw [globe_size]; exact pt_lt (a + 1) (2 * b) i _ hi (Nat.mod_lt _ (by omega))

theorem flipσ_enc (a b c i k : Nat) (hb : 1 ≤ b) (hc : c < 2 * b) (hi : i < (a + 1) / 2) (hk : k < b) :
    flipσ a b c (enc (2 * b) c i k) = (a - i) * (2 * b) + (c + (b - 1 - k)) % (2 * b) := by
  unfold flipσ onGrid
  rw [enc_row b c i k hb, enc_col b c i k hb]
  unfold flipφ
  rw [off_enc b c k hc (by omega)]
  have hcond : k < b ∧ 2 * i ≠ a := by omega
  rw [if_pos hcond]

theorem flipσ_lt (a b c j : Nat) (hb : 1 ≤ b) (hj : j < 2 * (a + 1) * b) : flipσ a b c j < 2 * (a + 1) * b := by
  rw [globe_size] at *; exact onGrid_lt (flipφ_grid a b c (by omega)) j hj

theorem flipσ_invol (a b c j : Nat) (hb : 1 ≤ b) (hc : c < 2 * b) (hj : j < 2 * (a + 1) * b) :
    flipσ a b c (flipσ a b c j) = j := by
  rw [globe_size] at hj
  unfold flipσ
  rw [onGrid_onGrid (flipφ_grid a b c hb) j hj]
  exact onGrid_id _ _ j (flipφ_flipφ a b c _ _ hc (div_lt_rows _ _ _ hj) (Nat.mod_lt _ (by omega)))

theorem mem_flipPs (a b c p : Nat) :
    p ∈ flipPs a b c ↔ ∃ i, i < (a + 1) / 2 ∧ ∃ k, k < b ∧ enc (2 * b) c i k = p := by
  unfold flipPs
  simp only [List.mem_flatMap, List.mem_map, List.mem_range]

theorem flipPs_lt (a b c : Nat) (hb : 1 ≤ b) (hc : c < 2 * b) :
    ∀ p ∈ flipPs a b c, p < 2 * (a + 1) * b ∧ flipσ a b c p < 2 * (a + 1) * b ∧
      flipσ a b c (flipσ a b c p) = p := by
  intro p hp
  obtain ⟨i, hi, k, hk, rfl⟩ := (mem_flipPs a b c p).1 hp
  have h1 := enc_lt a b c i k hb (by omega)
  exact ⟨h1, flipσ_lt a b c _ hb h1, flipσ_invol a b c _ hb hc h1⟩

theorem flipσ_enc_row (a b c i k : Nat) (hb : 1 ≤ b) (hc : c < 2 * b) (hi : i < (a + 1) / 2) (hk : k < b) :
    flipσ a b c (enc (2 * b) c i k) / (2 * b) = a - i := by
  rw [flipσ_enc a b c i k hb hc hi hk]
  exact pt_div _ _ _ (Nat.mod_lt _ (by omega))

theorem enc_sep (a b c i k i' k' : Nat) (hb : 1 ≤ b) (hc : c < 2 * b) (hi : i < (a + 1) / 2)
    (hi' : i' < (a + 1) / 2) (hk : k < b) (hk' : k' < b) (hne : i ≠ i' ∨ k ≠ k') :
    enc (2 * b) c i k ≠ enc (2 * b) c i' k' ∧ enc (2 * b) c i k ≠ flipσ a b c (enc (2 * b) c i' k') ∧
      flipσ a b c (enc (2 * b) c i k) ≠ enc (2 * b) c i' k' ∧
      flipσ a b c (enc (2 * b) c i k) ≠ flipσ a b c (enc (2 * b) c i' k') := by
  have hpq : enc (2 * b) c i k ≠ enc (2 * b) c i' k' := by
    intro e
    have er := congrArg (· / (2 * b)) e
    have ec := congrArg (fun p => (p % (2 * b) + (2 * b - c)) % (2 * b)) e
    simp only [enc_row _ _ _ _ hb, enc_col _ _ _ _ hb] at er ec
    rw [off_enc b c k hc (by omega), off_enc b c k' hc (by omega)] at ec
    omega
  refine ⟨hpq, ?_, ?_, ?_⟩
  · intro e
    have er := congrArg (· / (2 * b)) e
    simp only [enc_row _ _ _ _ hb, flipσ_enc_row a b c i' k' hb hc hi' hk'] at er
    omega
  · intro e
    have er := congrArg (· / (2 * b)) e
    simp only [enc_row _ _ _ _ hb, flipσ_enc_row a b c i k hb hc hi hk] at er
    omega
  · intro e
    have e2 := congrArg (flipσ a b c) e
    rw [flipσ_invol a b c _ hb hc (enc_lt a b c i k hb (by omega)),
      flipσ_invol a b c _ hb hc (enc_lt a b c i' k' hb (by omega))] at e2
    exact hpq e2

theorem flipPs_pairwise (a b c : Nat) (hb : 1 ≤ b) (hc : c < 2 * b) :
    (flipPs a b c).Pairwise fun p q =>
      p ≠ q ∧ p ≠ flipσ a b c q ∧ flipσ a b c p ≠ q ∧ flipσ a b c p ≠ flipσ a b c q := by
  unfold flipPs
  rw [List.pairwise_flatMap]
  constructor
  · intro i hi
    rw [List.mem_range] at hi
    rw [List.pairwise_map]
    refine List.Pairwise.imp_of_mem ?_ (List.pairwise_lt_range (n := b))
    intro k k' hk hk' hlt
    rw [List.mem_range] at hk hk'
    exact enc_sep a b c i k i k' hb hc hi hi hk hk' (Or.inr (by omega))
  · refine List.Pairwise.imp_of_mem ?_ (List.pairwise_lt_range (n := (a + 1) / 2))
    intro i i' hi hi' hlt x hx y hy
    rw [List.mem_range] at hi hi'
    simp only [List.mem_map, List.mem_range] at hx hy
    obtain ⟨k, hk, rfl⟩ := hx
    obtain ⟨k', hk', rfl⟩ := hy
    exact enc_sep a b c i k i' k' hb hc hi hi' hk hk' (Or.inl (by omega))

theorem flipPs_cover (a b c j : Nat) (hb : 1 ≤ b) (hc : c < 2 * b) (hj : j < 2 * (a + 1) * b)
    (hne : flipσ a b c j ≠ j) : j ∈ flipPs a b c ∨ j ∈ (flipPs a b c).map (flipσ a b c) := by
  have hj' := hj
  rw [globe_size] at hj'
  have hr : j / (2 * b) < a + 1 := div_lt_rows _ _ _ hj'
  have hx : j % (2 * b) < 2 * b := Nat.mod_lt _ (by omega)
  have hdm : j / (2 * b) * (2 * b) + j % (2 * b) = j := by
    rw [Nat.mul_comm]; exact Nat.div_add_mod j (2 * b)
  have hcond : (j % (2 * b) + (2 * b - c)) % (2 * b) < b ∧ 2 * (j / (2 * b)) ≠ a := by
    apply Classical.byContradiction
    intro hn
    apply hne
    unfold flipσ
    apply onGrid_id
    unfold flipφ
    rw [if_neg hn]
  have hxe := enc_off b c (j % (2 * b)) hc hx
  generalize hkk : (j % (2 * b) + (2 * b - c)) % (2 * b) = kk at hcond hxe
  have hjenc : enc (2 * b) c (j / (2 * b)) kk = j := by
    unfold enc; rw [hxe]; exact hdm
  by_cases hlow : 2 * (j / (2 * b)) < a
  · left
    exact (mem_flipPs a b c j).2 ⟨j / (2 * b), by omega, kk, hcond.1, hjenc⟩
  · right
    rw [List.mem_map]
    refine ⟨flipσ a b c j, ?_, flipσ_invol a b c j hb hc hj⟩
    have hval : flipσ a b c j = enc (2 * b) c (a - j / (2 * b)) (b - 1 - kk) := by
      unfold flipσ onGrid flipφ enc
      rw [hkk, if_pos hcond]
    rw [hval]
    exact (mem_flipPs a b c _).2 ⟨a - j / (2 * b), by omega, b - 1 - kk, by omega, rfl⟩

end Cv.PyG7
