/-
  The path algorithms (`find_path_to`, `find_path_from`, meet in the middle, `find_path_between`, `find_path`) on the
  MATRIX graph `matGraph` (`CvModel/InstanceMat.lean`), in terms of the mathematical graph `matNb` and the mathematical
  action `matGenAct` (exact product reduced modulo `m`).

  `g  = matGraph gens n k hash ic batch`     generator `i` multiplies from the left by `gens[i]` modulo `m`
  `gi = matGraph invs n k hash ic batch'`    `with_inverted_generators`: `invs[i]` is an inverse of `gens[i]` modulo `m`
  `P  = MatValid n k m`                      flattened `n×k` states with entries in `[0, m)`

  The pair satisfies `PathHypOn P g gi` (`CvProofs/Restrict.lean`), so every path theorem holds for central / query
  states in `P`, with the SAME conclusions, stated for `matNb` and `matGenAct`.  Core Lean only.
-/
import CvProofs.InstanceMatSymm
import CvProofs.InstanceMatFinite
import CvProofs.Restrict
import CvProofs.GraphDef
namespace Cv.InstanceMat
open Cv

/-- flattened `n×k` states with entries in `[0, m)` -/
def MatValid (n k m : Nat) (S : List Int) : Prop := S.length = n * k ∧ ∀ e ∈ S, 0 ≤ e ∧ e < (m : Int)

instance (n k m : Nat) (S : List Int) : Decidable (MatValid n k m S) := by unfold MatValid; infer_instance

/-- generator `i` of the mathematical action: exact product with `gens[i]`, reduced modulo its modulo -/
def matGenAct (gens : List MatGen) (n k : Nat) (i : Nat) (S : List Int) : List Int :=
  matApply (gens.getD i ⟨[], 0⟩) n k S

/-- `A · B ≡ I (mod m)` (exact integer product, compared entry by entry modulo `m`) -/
def MatInvOf (n m : Nat) (A B : MatGen) : Prop :=
  (matProd n n A.matrix B.matrix).map (· % (m : Int)) = (eyeInt n).map (· % (m : Int))

instance (n m : Nat) (A B : MatGen) : Decidable (MatInvOf n m A B) := by unfold MatInvOf; infer_instance

/-- the generator list is closed under inverses modulo `m` (what the flag `generators_inverse_closed` says) -/
def MatInvClosed (gens : List MatGen) (n m : Nat) : Prop := ∀ G ∈ gens, ∃ G' ∈ gens, MatInvOf n m G' G

/-- `mp` is an inverse map of the generator list (what `generators_inverse_map` is): `gens[mp[i]] · gens[i] ≡ I` -/
def MatInvMap (gens : List MatGen) (n m : Nat) (mp : List Nat) : Prop :=
  mp.length = gens.length ∧ ∀ i, i < gens.length →
    ∃ j, mp[i]? = some j ∧ j < gens.length ∧ MatInvOf n m (gens.getD j ⟨[], 0⟩) (gens.getD i ⟨[], 0⟩)

instance (gens : List MatGen) (n m : Nat) : Decidable (MatInvClosed gens n m) := by
  unfold MatInvClosed; infer_instance

/-- a decidable form of `MatInvMap` -/
theorem matInvMap_of_check (gens : List MatGen) (n m : Nat) (mp : List Nat) (hl : mp.length = gens.length)
    (h : ∀ i, i < gens.length → mp.getD i 0 < gens.length ∧
      MatInvOf n m (gens.getD (mp.getD i 0) ⟨[], 0⟩) (gens.getD i ⟨[], 0⟩)) : MatInvMap gens n m mp := by
  refine ⟨hl, fun i hi => ⟨mp.getD i 0, ?_, (h i hi).1, (h i hi).2⟩⟩
  rw [List.getD_eq_getElem?_getD, List.getElem?_eq_getElem (by omega)]
  rfl

/-- the hypotheses on the two generator families: one positive modulo `m`, `invs[i]` a ONE-sided inverse of `gens[i]`
modulo `m` (left: `invs[i] · gens[i] ≡ I`, or right: `gens[i] · invs[i] ≡ I`, which is what `MatrixGenerator.inv`
asserts); the other side follows on the finite set of reduced states (`matGenAct_inverse`) -/
structure MatPair (gens invs : List MatGen) (n m : Nat) : Prop where
  hm : m ≠ 0
  modG : ∀ G ∈ gens, G.modulo = m
  modI : ∀ G ∈ invs, G.modulo = m
  len : invs.length = gens.length
  inv : ∀ i, i < gens.length → MatInvOf n m (invs.getD i ⟨[], 0⟩) (gens.getD i ⟨[], 0⟩) ∨
    MatInvOf n m (gens.getD i ⟨[], 0⟩) (invs.getD i ⟨[], 0⟩)

theorem MatPair.symm {gens invs : List MatGen} {n m : Nat} (h : MatPair gens invs n m) : MatPair invs gens n m :=
  ⟨h.hm, h.modI, h.modG, h.len.symm, fun i hi => (h.inv i (h.len ▸ hi)).symm⟩

theorem MatInvMap.closed {gens : List MatGen} {n m : Nat} {mp : List Nat} (h : MatInvMap gens n m mp) :
    MatInvClosed gens n m := by
  intro G hG
  obtain ⟨i, hi, rfl⟩ := List.getElem_of_mem hG
  obtain ⟨j, -, hj, hinv⟩ := h.2 i hi
  refine ⟨gens.getD j ⟨[], 0⟩, getD_mem' gens _ j hj, ?_⟩
  rw [show gens[i] = gens.getD i ⟨[], 0⟩ by
    rw [List.getD_eq_getElem?_getD, List.getElem?_eq_getElem hi]; rfl]
  exact hinv


/-! ### the library's checks (`MatrixGenerator.is_inverse_to`, `generators_inverse_map`) give the hypotheses -/

/-- the stored (reduced) form of a generator matrix, as `Cv.Matrix` / `Cv.GraphDef` see it -/
def redMatrix (m : Nat) (A : MatGen) : List Nat := A.matrix.map (Cv.Matrix.ofInt m)

theorem apply_cast (n k m : Nat) (hm : m ≠ 0) (X S : List Int) :
    (Cv.Matrix.apply m n k (X.map (Cv.Matrix.ofInt m)) (S.map (Cv.Matrix.ofInt m))).map Int.ofNat =
      (matProd n k X S).map (· % (m : Int)) := by
  have h := matAct_eq_of_modulo ⟨X, m⟩ hm n k S
  unfold matAct matApply at h
  simp only [hm, if_false, show Cv.Matrix.modulusOf m = m from if_neg hm] at h
  exact h

theorem eye_cast (n m : Nat) (hm : 2 ≤ m) : (Cv.Matrix.eye n).map Int.ofNat = (eyeInt n).map (· % (m : Int)) := by
  unfold Cv.Matrix.eye eyeInt
  rw [List.map_map, List.map_map]
  apply List.map_congr_left
  intro idx _
  simp only [Function.comp]
  split
  · show (1 : Int) = 1 % (m : Int)
    exact (Int.emod_eq_of_lt (by omega) (by omega)).symm
  · show (0 : Int) = 0 % (m : Int)
    exact (Int.zero_emod _).symm

/-- `A · B ≡ I (mod m)` is what the library computes: `A.apply(B.matrix) == eye` -/
theorem matInvOf_iff_apply (n m : Nat) (hm : 2 ≤ m) (A B : MatGen) :
    MatInvOf n m A B ↔ Cv.Matrix.apply m n n (redMatrix m A) (redMatrix m B) = Cv.Matrix.eye n := by
  unfold MatInvOf redMatrix
  rw [← apply_cast n n m (by omega), ← eye_cast n m hm]
  exact List.map_inj_right (fun _ _ h => Int.ofNat.inj h)

/-- `MatrixGenerator.is_inverse_to` (equal moduli) is the two-sided condition -/
theorem isInverse_iff (n m : Nat) (hm : 2 ≤ m) (A B : MatGen) :
    Cv.Matrix.isInverse m n (redMatrix m A) (redMatrix m B) = true ↔ MatInvOf n m A B ∧ MatInvOf n m B A := by
  rw [matInvOf_iff_apply n m hm, matInvOf_iff_apply n m hm]
  unfold Cv.Matrix.isInverse
  rw [Bool.and_eq_true, beq_iff_eq, beq_iff_eq]

theorem foldl_last_some (c : Nat → Bool) (l : List Nat) (acc : Option Nat) (j : Nat)
    (h : l.foldl (fun acc j => if c j then some j else acc) acc = some j) :
    (j ∈ l ∧ c j = true) ∨ acc = some j := by
  induction l generalizing acc with
  | nil => exact Or.inr h
  | cons a t ih =>
    rw [List.foldl_cons] at h
    rcases ih _ h with h1 | h1
    · exact Or.inl ⟨by simp [h1.1], h1.2⟩
    · by_cases hc : c a = true
      · rw [if_pos hc] at h1
        cases h1
        exact Or.inl ⟨by simp, hc⟩
      · rw [if_neg hc] at h1
        exact Or.inr h1

/-- **`generators_inverse_map`** (`Cv.GraphDef.inverseMapMat` on the stored matrices): whatever it returns is an inverse
map of the generator list -/
theorem inverseMapMat_spec (gens : List MatGen) (n m : Nat) (hm : 2 ≤ m) (mp : List Nat)
    (h : Cv.GraphDef.inverseMapMat m n (gens.map (redMatrix m)) = some mp) : MatInvMap gens n m mp := by
  unfold Cv.GraphDef.inverseMapMat at h
  have hl := Cv.GraphDef.mapM_some_length h
  rw [List.length_map] at hl
  refine ⟨hl, ?_⟩
  intro i hi
  obtain ⟨j, hj1, hj2⟩ := Cv.GraphDef.mapM_some_getElem h i (by rw [List.length_map]; exact hi)
  rcases foldl_last_some _ _ _ _ hj2 with ⟨hjm, hc⟩ | hnone
  · rw [List.length_map, List.mem_range] at hjm
    refine ⟨j, hj1, hjm, ?_⟩
    have e1 : (gens.map (redMatrix m))[i]'(by rw [List.length_map]; exact hi) =
        redMatrix m (gens.getD i ⟨[], 0⟩) := by
      rw [List.getElem_map, List.getD_eq_getElem?_getD, List.getElem?_eq_getElem hi]; rfl
    have e2 : (gens.map (redMatrix m)).getD j [] = redMatrix m (gens.getD j ⟨[], 0⟩) := by
      rw [List.getD_eq_getElem?_getD, List.getD_eq_getElem?_getD, List.getElem?_map,
        List.getElem?_eq_getElem hjm]; rfl
    rw [e1, e2] at hc
    exact ((isInverse_iff n m hm _ _).1 hc).2
  · cases hnone

/-- … and when it returns a map, the generator list is closed under inverses (the flag is truthful) -/
theorem inverseMapMat_closed (gens : List MatGen) (n m : Nat) (hm : 2 ≤ m) (mp : List Nat)
    (h : Cv.GraphDef.inverseMapMat m n (gens.map (redMatrix m)) = some mp) : MatInvClosed gens n m :=
  (inverseMapMat_spec gens n m hm mp h).closed

/-! ### the modelled graph is the mathematical one (positive moduli) -/

theorem applyPath_congr {α : Type} (a1 a2 : Nat → α → α) (p : List Nat) (h : ∀ i ∈ p, ∀ x, a1 i x = a2 i x)
    (s : α) : applyPath a1 s p = applyPath a2 s p := by
  induction p generalizing s with
  | nil => rfl
  | cons i p ih =>
    show applyPath a1 (a1 i s) p = applyPath a2 (a2 i s) p
    rw [h i (by simp), ih (fun j hj => h j (by simp [hj]))]

section graph
variable (gens : List MatGen) (n k m : Nat) (hm : m ≠ 0) (hmod : ∀ G ∈ gens, G.modulo = m)
  (hash : List Int → Int) (ic : Bool) (batch : Nat)
include hm hmod

theorem modulo_ne (G : MatGen) (hG : G ∈ gens) : G.modulo ≠ 0 := by rw [hmod G hG]; exact hm

/-- the neighbours in the modelled graph are the mathematical ones, on EVERY state -/
theorem matGraph_nb_pos : (matGraph gens n k hash ic batch).nb = matNb gens n k := by
  funext S
  exact matGraph_nb_eq gens n k hash ic batch S (fun G hG h0 => absurd h0 (modulo_ne gens m hm hmod G hG))

/-- generator `i` of the modelled graph is generator `i` of the mathematical action -/
theorem matGraph_act_pos (i : Nat) (hi : i < gens.length) (S : List Int) :
    (matGraph gens n k hash ic batch).act i S = matGenAct gens n k i S :=
  matAct_eq_of_modulo _ (modulo_ne gens m hm hmod _ (getD_mem' gens _ i hi)) n k S

theorem matGraph_applyPath (S : List Int) (p : List Nat) (hp : ∀ i ∈ p, i < gens.length) :
    applyPath (matGraph gens n k hash ic batch).act S p = applyPath (matGenAct gens n k) S p :=
  applyPath_congr _ _ p (fun i hi x => matGraph_act_pos gens n k m hm hmod hash ic batch i (hp i hi) x) S

theorem matValid_matGenAct (i : Nat) (hi : i < gens.length) (S : List Int) : MatValid n k m (matGenAct gens n k i S) := by
  have hG := getD_mem' gens ⟨[], 0⟩ i hi
  have h := matApply_reduced (gens.getD i ⟨[], 0⟩) n k S (modulo_ne gens m hm hmod _ hG)
  rw [hmod _ hG] at h
  exact h

/-- the states of `P` are closed under the generators (every image is in `P`) -/
theorem mat_closed : ClosedOn (MatValid n k m) (matGraph gens n k hash ic batch) := by
  intro i hi S _
  rw [matGraph_act_pos gens n k m hm hmod hash ic batch i hi S]
  exact matValid_matGenAct gens n k m hm hmod i hi S

omit hm hmod in
theorem mem_matNb (S T : List Int) : T ∈ matNb gens n k S ↔ ∃ i, i < gens.length ∧ matGenAct gens n k i S = T := by
  unfold matNb matGenAct
  rw [List.mem_map]
  constructor
  · rintro ⟨G, hG, rfl⟩
    obtain ⟨i, hi, rfl⟩ := List.getElem_of_mem hG
    refine ⟨i, hi, ?_⟩
    rw [List.getD_eq_getElem?_getD, List.getElem?_eq_getElem hi]; rfl
  · rintro ⟨i, hi, rfl⟩
    exact ⟨_, getD_mem' gens _ i hi, rfl⟩

/-- a generator list closed under inverses modulo `m` gives a graph that is symmetric on `P` -/
theorem mat_symmOn (hcl : MatInvClosed gens n m) : SymmOn (MatValid n k m) (matGraph gens n k hash ic batch) := by
  intro S T hS hT
  rw [matGraph_nb_pos gens n k m hm hmod hash ic batch] at hT ⊢
  obtain ⟨G, hGm, rfl⟩ := List.mem_map.1 hT
  obtain ⟨G', hG'm, hGG'⟩ := hcl G hGm
  exact List.mem_map.2 ⟨G', hG'm, matApply_inverse G G' n k m hm (hmod G hGm) (hmod G' hG'm) hGG' S hS.1 hS.2⟩

/-- an inverse map of the generator list is an inverse map of the graph on `P` -/
theorem mat_isInvMapOn (mp : List Nat) (hmp : MatInvMap gens n m mp) :
    IsInvMapOn (MatValid n k m) (matGraph gens n k hash ic batch) mp := by
  refine ⟨hmp.1, ?_⟩
  intro i hi
  have hi' : i < gens.length := hi
  obtain ⟨j, hj1, hj2, hj3⟩ := hmp.2 i hi'
  refine ⟨j, hj1, hj2, ?_⟩
  intro S hS
  rw [matGraph_act_pos gens n k m hm hmod hash ic batch i hi' S,
    matGraph_act_pos gens n k m hm hmod hash ic batch j hj2 _]
  exact matApply_inverse _ _ n k m hm (hmod _ (getD_mem' gens _ i hi')) (hmod _ (getD_mem' gens _ j hj2)) hj3 S
    hS.1 hS.2

/-- `revert_path` with an inverse map of the generator list (a statement about the generator list only) -/
theorem mat_revertPath_gens (mp : List Nat) (hmp : MatInvMap gens n m mp) (p : List Nat)
    (hv : ∀ i ∈ p, i < gens.length) (A : List Int) (hA : MatValid n k m A) :
    ∃ r, revertPathM (some mp) p = some r ∧ r.length = p.length ∧ (∀ i ∈ r, i < gens.length) ∧
      applyPath (matGenAct gens n k) (applyPath (matGenAct gens n k) A p) r = A := by
  obtain ⟨r, h1, h2, h3, h4⟩ := revertPathM_spec_on (g := matGraph gens n k (fun _ => 0) true 1)
    (mat_closed gens n k m hm hmod (fun _ => 0) true 1) mp
    (mat_isInvMapOn gens n k m hm hmod (fun _ => 0) true 1 mp hmp) p hv A hA
  refine ⟨r, h1, h2, h3, ?_⟩
  rw [matGraph_applyPath gens n k m hm hmod (fun _ => 0) true 1 A p hv,
    matGraph_applyPath gens n k m hm hmod (fun _ => 0) true 1 _ r h3] at h4
  exact h4

end graph

/-! ### the pair (graph, inverted graph) -/

section pair
variable (gens invs : List MatGen) (n k m : Nat) (hp : MatPair gens invs n m)
  (hash : List Int → Int) (ic : Bool) (batch batch' : Nat)
include hp

local notation "G" => matGraph gens n k hash ic batch
local notation "GI" => matGraph invs n k hash ic batch'
local notation "Math" => matNb gens n k
local notation "MathI" => matNb invs n k
local notation "P" => MatValid n k m

/-- `invs[i]` undoes `gens[i]` on `P`, from BOTH sides: one side is matrix associativity modulo `m`, the other one the
pigeonhole principle on the finite set `P` -/
theorem matGenAct_inverse (i : Nat) (hi : i < gens.length) (S : List Int) (hS : P S) :
    matGenAct invs n k i (matGenAct gens n k i S) = S ∧ matGenAct gens n k i (matGenAct invs n k i S) = S := by
  have hi' : i < invs.length := hp.len ▸ hi
  have hG := hp.modG _ (getD_mem' gens ⟨[], 0⟩ i hi)
  have hG' := hp.modI _ (getD_mem' invs ⟨[], 0⟩ i hi')
  have hmem : ∀ T, T ∈ allStates m (n * k) ↔ P T := fun T => mem_allStates m (n * k) T
  have hnd := nodup_allStates m (n * k)
  have hSA := (hmem S).2 hS
  rcases hp.inv i hi with hl | hr
  · have h1 : ∀ T ∈ allStates m (n * k), matGenAct invs n k i (matGenAct gens n k i T) = T := fun T hT =>
      matApply_inverse _ _ n k m hp.hm hG hG' hl T ((hmem T).1 hT).1 ((hmem T).1 hT).2
    have h2 := right_inverse_of_left _ hnd (matGenAct gens n k i) (matGenAct invs n k i)
      (fun T _ => (hmem _).2 (matValid_matGenAct gens n k m hp.hm hp.modG i hi T)) h1
    exact ⟨h1 S hSA, h2 S hSA⟩
  · have h1 : ∀ T ∈ allStates m (n * k), matGenAct gens n k i (matGenAct invs n k i T) = T := fun T hT =>
      matApply_inverse _ _ n k m hp.hm hG' hG hr T ((hmem T).1 hT).1 ((hmem T).1 hT).2
    have h2 := right_inverse_of_left _ hnd (matGenAct invs n k i) (matGenAct gens n k i)
      (fun T _ => (hmem _).2 (matValid_matGenAct invs n k m hp.hm hp.modI i hi' T)) h1
    exact ⟨h2 S hSA, h1 S hSA⟩

/-- **`PathHyp` on `P`** for the matrix pair: same hasher, `P` closed under both families, `gi.act i` undoes `g.act i`
on `P` (both ways), no hash collisions inside `P` (hypothesis) -/
theorem mat_pathHypOn (hinj : ∀ S T, P S → P T → hash S = hash T → S = T) : PathHypOn P G GI where
  hashEq := fun _ _ => rfl
  nGens := hp.len
  closed := mat_closed gens n k m hp.hm hp.modG hash ic batch
  closedI := mat_closed invs n k m hp.hm hp.modI hash ic batch'
  inv := fun i hi S hS => by
    have hi0 : i < gens.length := hi
    have hi' : i < invs.length := hp.len ▸ hi0
    have hc := matValid_matGenAct gens n k m hp.hm hp.modG i hi0 S
    have hc' := matValid_matGenAct invs n k m hp.hm hp.modI i hi' S
    rw [matGraph_act_pos gens n k m hp.hm hp.modG hash ic batch i hi0 S,
      matGraph_act_pos invs n k m hp.hm hp.modI hash ic batch' i hi' S,
      matGraph_act_pos invs n k m hp.hm hp.modI hash ic batch' i hi' _,
      matGraph_act_pos gens n k m hp.hm hp.modG hash ic batch i hi0 _]
    exact matGenAct_inverse gens invs n k m hp i hi0 S hS
  inj := hinj

/-- the inverted generator list acts on `P` like the generators themselves, re-indexed: if `gens[j] · gens[i] ≡ I` then
`invs[j]` acts like `gens[i]` -/
theorem invs_act_eq (i j : Nat) (hi : i < gens.length) (hj : j < gens.length)
    (hji : MatInvOf n m (gens.getD j ⟨[], 0⟩) (gens.getD i ⟨[], 0⟩)) (S : List Int) (hS : P S) :
    matGenAct invs n k j S = matGenAct gens n k i S := by
  have hGi := hp.modG _ (getD_mem' gens ⟨[], 0⟩ i hi)
  have hGj := hp.modG _ (getD_mem' gens ⟨[], 0⟩ j hj)
  have h1 : matGenAct gens n k j (matGenAct gens n k i S) = S :=
    matApply_inverse _ _ n k m hp.hm hGi hGj hji S hS.1 hS.2
  have h2 := (matGenAct_inverse gens invs n k m hp j hj (matGenAct gens n k i S)
    (matValid_matGenAct gens n k m hp.hm hp.modG i hi S)).1
  rw [h1] at h2
  exact h2

/-- the inverted graph is symmetric on `P` when the generator list is closed under inverses -/
theorem matInv_symmOn (hcl : MatInvClosed gens n m) : SymmOn P GI := by
  intro S T hS hT
  rw [matGraph_nb_pos invs n k m hp.hm hp.modI hash ic batch'] at hT ⊢
  obtain ⟨i, hi, rfl⟩ := (mem_matNb invs n k S _).1 hT
  have hi0 : i < gens.length := hp.len ▸ hi
  obtain ⟨G', hG', hinv⟩ := hcl _ (getD_mem' gens ⟨[], 0⟩ i hi0)
  obtain ⟨j, hj, rfl⟩ := List.getElem_of_mem hG'
  have hgj : gens[j] = gens.getD j ⟨[], 0⟩ := by
    rw [List.getD_eq_getElem?_getD, List.getElem?_eq_getElem hj]; rfl
  rw [hgj] at hinv
  refine (mem_matNb invs n k _ S).2 ⟨j, hp.len ▸ hj, ?_⟩
  rw [invs_act_eq gens invs n k m hp i j hi0 hj hinv _ (matValid_matGenAct invs n k m hp.hm hp.modI i hi S)]
  exact (matGenAct_inverse gens invs n k m hp i hi0 S hS).2

/-! ### the ball -/

/-- a BFS run with `return_all_hashes` from a central state in `P` returns a ball -/
theorem mat_ball (hinj : ∀ S T, P S → P T → hash S = hash T → S = T)
    (hic : ic = true → MatInvClosed gens n m) (hb : 0 < batch)
    (c : BfsCfg (List Int)) (hr : c.returnHashes = true) (central : List Int) (hc : P central) :
    ∃ K, K ≤ c.maxDiameter ∧ (bfs G c [central]).hashes.length = K + 1 ∧
      IsBall G central (bfs G c [central]).hashes :=
  bfs_isBall_on (mat_closed gens n k m hp.hm hp.modG hash ic batch) hinj
    (fun h => mat_symmOn gens n k m hp.hm hp.modG hash ic batch (hic h)) hb c hr [central]
    (fun s hs => by rw [List.mem_singleton] at hs; subst hs; exact hc)

/-- a ball of the matrix graph in terms of the mathematical graph -/
theorem mat_ball_math (central : List Int) (Hs : List (List Int)) (hball : IsBall G central Hs) :
    ∀ i H, Hs[i]? = some H → H.Pairwise (· < ·) ∧ ∃ L : List (List Int), L.Nodup ∧
      (∀ s, s ∈ L ↔ DistLayer Math [central] i s) ∧ H.Perm (L.map hash) := by
  intro i H hi
  have := hball i H hi
  rw [matGraph_nb_pos gens n k m hp.hm hp.modG hash ic batch] at this
  exact this

/-! ### C04m -/

/-- **C04m** `find_path_to` -/
theorem mat_findPathTo_spec (hinj : ∀ S T, P S → P T → hash S = hash T → S = T)
    (central : List Int) (hc : P central) (Hs : List (List Int)) (hball : IsBall G central Hs)
    (q : List Int) (hq : P q) :
    match findPathTo G GI Hs q with
    | .found p => applyPath (matGenAct gens n k) central p = q ∧ DistLayer Math [central] p.length q ∧
        p.length < Hs.length ∧ ∀ i ∈ p, i < gens.length
    | .notFound => ∀ i, i < Hs.length → ¬ DistLayer Math [central] i q
    | .assertFail _ => False := by
  have key := findPathTo_spec_on (mat_pathHypOn gens invs n k m hp hash ic batch batch' hinj) central hc Hs hball q hq
  rw [matGraph_nb_pos gens n k m hp.hm hp.modG hash ic batch] at key
  cases hr : findPathTo G GI Hs q with
  | found p =>
    rw [hr] at key
    simp only at key ⊢
    rw [← matGraph_applyPath gens n k m hp.hm hp.modG hash ic batch central p key.2.2.2]
    exact key
  | notFound => rw [hr] at key; exact key
  | assertFail msg => rw [hr] at key; exact key

/-- **C04m** `find_path_from` (flag set, `mp` an inverse map of the generator list) -/
theorem mat_findPathFrom_spec (hinj : ∀ S T, P S → P T → hash S = hash T → S = T)
    (hic : ic = true) (mp : List Nat) (hmp : MatInvMap gens n m mp)
    (central : List Int) (hc : P central) (Hs : List (List Int)) (hball : IsBall G central Hs)
    (q : List Int) (hq : P q) :
    match findPathFrom G GI (some mp) Hs q with
    | .found p => applyPath (matGenAct gens n k) q p = central ∧ DistLayer Math [central] p.length q ∧
        p.length < Hs.length ∧ ∀ i ∈ p, i < gens.length
    | .notFound => ∀ i, i < Hs.length → ¬ DistLayer Math [central] i q
    | .assertFail _ => False := by
  have key := findPathFrom_spec_on (mat_pathHypOn gens invs n k m hp hash ic batch batch' hinj) hic mp
    (mat_isInvMapOn gens n k m hp.hm hp.modG hash ic batch mp hmp) central hc Hs hball q hq
  rw [matGraph_nb_pos gens n k m hp.hm hp.modG hash ic batch] at key
  cases hr : findPathFrom G GI (some mp) Hs q with
  | found p =>
    rw [hr] at key
    simp only at key ⊢
    rw [← matGraph_applyPath gens n k m hp.hm hp.modG hash ic batch q p key.2.2.2]
    exact key
  | notFound => rw [hr] at key; exact key
  | assertFail msg => rw [hr] at key; exact key

/-- **C04m** `revert_path` with an inverse map of the generator list -/
theorem mat_revertPath_spec (mp : List Nat) (hmp : MatInvMap gens n m mp) (p : List Nat)
    (hv : ∀ i ∈ p, i < gens.length) (A : List Int) (hA : P A) :
    ∃ r, revertPathM (some mp) p = some r ∧ r.length = p.length ∧ (∀ i ∈ r, i < gens.length) ∧
      applyPath (matGenAct gens n k) (applyPath (matGenAct gens n k) A p) r = A :=
  mat_revertPath_gens gens n k m hp.hm hp.modG mp hmp p hv A hA

/-! ### C05m -/

omit hp in
/-- transport of the size hypothesis to the inverted graph -/
theorem matInv_hexp (hm : m ≠ 0) (hmodI : ∀ A ∈ invs, A.modulo = m) (dest : List Int) (D : Nat)
    (hexp : ∀ d (L : List (List Int)), 1 ≤ d → d ≤ D → L.Nodup →
      (∀ s, s ∈ L ↔ DistLayer MathI [dest] d s) → L.length < 10^12) :
    ∀ d L, 1 ≤ d → d ≤ D → IsLayer GI [dest] d L → L.length < 10^12 := by
  intro d L hd1 hd2 hL
  have h2 := hL.2
  rw [matGraph_nb_pos invs n k m hm hmodI hash ic batch'] at h2
  exact hexp d L hd1 hd2 hL.1 h2

/-- **C05m** meet in the middle `find_path_to` -/
theorem mat_mitmFindPathTo_spec (hinj : ∀ S T, P S → P T → hash S = hash T → S = T)
    (hic : ic = true → MatInvClosed gens n m) (hb : 0 < batch')
    (central : List Int) (hc : P central) (Hs : List (List Int)) (hball : IsBall G central Hs)
    (hne : Hs ≠ []) (dest : List Int) (hd : P dest)
    (hexp : ∀ d (L : List (List Int)), 1 ≤ d → d ≤ Hs.length - 1 → L.Nodup →
      (∀ s, s ∈ L ↔ DistLayer MathI [dest] d s) → L.length < 10^12) :
    match mitmFindPathTo G GI Hs dest with
    | .found p => applyPath (matGenAct gens n k) central p = dest ∧ DistLayer Math [central] p.length dest ∧
        p.length ≤ 2 * (Hs.length - 1) ∧ ∀ i ∈ p, i < gens.length
    | .notFound => ∀ d, d ≤ 2 * (Hs.length - 1) → ¬ Walk Math d central dest
    | .assertFail _ => False := by
  have key := mitmFindPathTo_spec_on (mat_pathHypOn gens invs n k m hp hash ic batch batch' hinj)
    (fun h => matInv_symmOn gens invs n k m hp hash ic batch' (hic h)) hb central hc Hs hball hne dest hd
    (matInv_hexp invs n k m hash ic batch' hp.hm hp.modI dest _ hexp)
  rw [matGraph_nb_pos gens n k m hp.hm hp.modG hash ic batch] at key
  cases hr : mitmFindPathTo G GI Hs dest with
  | found p =>
    rw [hr] at key
    simp only at key ⊢
    rw [← matGraph_applyPath gens n k m hp.hm hp.modG hash ic batch central p key.2.2.2]
    exact key
  | notFound => rw [hr] at key; exact key
  | assertFail msg => rw [hr] at key; exact key

/-- **C05m** meet in the middle `find_path_from` -/
theorem mat_mitmFindPathFrom_spec (hinj : ∀ S T, P S → P T → hash S = hash T → S = T)
    (hic : ic = true) (mp : List Nat) (hmp : MatInvMap gens n m mp) (hb : 0 < batch')
    (central : List Int) (hc : P central) (Hs : List (List Int)) (hball : IsBall G central Hs)
    (hne : Hs ≠ []) (start : List Int) (hs : P start)
    (hexp : ∀ d (L : List (List Int)), 1 ≤ d → d ≤ Hs.length - 1 → L.Nodup →
      (∀ s, s ∈ L ↔ DistLayer MathI [start] d s) → L.length < 10^12) :
    match mitmFindPathFrom G GI (some mp) Hs start with
    | .found p => applyPath (matGenAct gens n k) start p = central ∧ p.length ≤ 2 * (Hs.length - 1) ∧
        (∀ d, Walk Math d start central → p.length ≤ d) ∧ ∀ i ∈ p, i < gens.length
    | .notFound => ∀ d, d ≤ 2 * (Hs.length - 1) → ¬ Walk Math d start central
    | .assertFail _ => False := by
  have hcl := hmp.closed
  have key := mitmFindPathFrom_spec_on (mat_pathHypOn gens invs n k m hp hash ic batch batch' hinj) hic
    (mat_symmOn gens n k m hp.hm hp.modG hash ic batch hcl)
    (fun _ => matInv_symmOn gens invs n k m hp hash ic batch' hcl) hb mp
    (mat_isInvMapOn gens n k m hp.hm hp.modG hash ic batch mp hmp) central hc Hs hball hne start hs
    (matInv_hexp invs n k m hash ic batch' hp.hm hp.modI start _ hexp)
  rw [matGraph_nb_pos gens n k m hp.hm hp.modG hash ic batch] at key
  cases hr : mitmFindPathFrom G GI (some mp) Hs start with
  | found p =>
    rw [hr] at key
    simp only at key ⊢
    rw [← matGraph_applyPath gens n k m hp.hm hp.modG hash ic batch start p key.2.2.2]
    exact key
  | notFound => rw [hr] at key; exact key
  | assertFail msg => rw [hr] at key; exact key

/-- **C05m** `find_path_between` (no assumption on the flag) -/
theorem mat_between_spec (hinj : ∀ S T, P S → P T → hash S = hash T → S = T)
    (S T : List (List Int)) (hS : ∀ s ∈ S, P s) (hT : ∀ t ∈ T, P t) (M : Nat) :
    match findPathBetween G GI S T M with
    | none => False
    | some none => ∀ s ∈ S, ∀ t ∈ T, ∀ d, d ≤ 2 * M → ¬ Walk Math d s t
    | some (some r) =>
        r.start ∈ S ∧ applyPath (matGenAct gens n k) r.start r.edges ∈ T ∧ (∀ i ∈ r.edges, i < gens.length) ∧
        r.edges.length ≤ 2 * M ∧ ∀ s ∈ S, ∀ t ∈ T, ∀ d, Walk Math d s t → r.edges.length ≤ d := by
  have key := between_spec_on (mat_pathHypOn gens invs n k m hp hash ic batch batch' hinj) S T hS hT M
  rw [matGraph_nb_pos gens n k m hp.hm hp.modG hash ic batch] at key
  cases hr : findPathBetween G GI S T M with
  | none => rw [hr] at key; exact key
  | some o =>
    cases o with
    | none => rw [hr] at key; exact key
    | some r =>
      rw [hr] at key
      simp only at key ⊢
      rw [← matGraph_applyPath gens n k m hp.hm hp.modG hash ic batch r.start r.edges key.2.2.1]
      exact key

/-! ### C12m -/

/-- the hypotheses of the `find_path` theorems hold for the matrix pair; `invMap` is the library's
`generators_inverse_map`: when the flag is set it is an inverse map of the generator list -/
theorem mat_findHypOn (hinj : ∀ S T, P S → P T → hash S = hash T → S = T) (invMap : Option (List Nat))
    (hmap : ic = true → ∃ mp, invMap = some mp ∧ MatInvMap gens n m mp) (hb : 0 < batch) (hb' : 0 < batch') :
    FindHypOn P G GI invMap where
  path := mat_pathHypOn gens invs n k m hp hash ic batch batch' hinj
  symG := fun h => by
    obtain ⟨mp, -, hmp⟩ := hmap h
    exact mat_symmOn gens n k m hp.hm hp.modG hash ic batch hmp.closed
  symGi := fun h => by
    obtain ⟨mp, -, hmp⟩ := hmap h
    exact matInv_symmOn gens invs n k m hp hash ic batch' hmp.closed
  batchG := hb
  batchGi := hb'
  invMap := fun h => by
    obtain ⟨mp, h1, hmp⟩ := hmap h
    exact ⟨mp, h1, mat_isInvMapOn gens n k m hp.hm hp.modG hash ic batch mp hmp⟩

end pair

/-- the ball `find_path` caches for the matrix pair: around the central state, in `g` when the flag is set, in the
inverted graph otherwise -/
def matFindBall (gens invs : List MatGen) (n k : Nat) (hash : List Int → Int) (ic : Bool) (batch batch' : Nat)
    (central : List Int) (me md : Option Nat) : List (List Int) :=
  if ic then (precomputeBfs (matGraph gens n k hash ic batch) central me md).hashes
  else (precomputeBfs (matGraph invs n k hash ic batch') central me md).hashes

section find
variable (gens invs : List MatGen) (n k m : Nat) (hp : MatPair gens invs n m)
  (hash : List Int → Int) (ic : Bool) (batch batch' : Nat)
include hp

local notation "G" => matGraph gens n k hash ic batch
local notation "GI" => matGraph invs n k hash ic batch'
local notation "Math" => matNb gens n k
local notation "P" => MatValid n k m

/-- the cached ball is a ball of `g` around the central state -/
theorem mat_precomputeBfs_isBall (hinj : ∀ S T, P S → P T → hash S = hash T → S = T)
    (hic : ic = true → MatInvClosed gens n m) (hb : 0 < batch) (central : List Int) (hc : P central)
    (me md : Option Nat) :
    IsBall G central (precomputeBfs G central me md).hashes ∧ (precomputeBfs G central me md).hashes ≠ [] :=
  precomputeBfs_isBall_on (mat_closed gens n k m hp.hm hp.modG hash ic batch) hinj
    (fun h => mat_symmOn gens n k m hp.hm hp.modG hash ic batch (hic h)) hb central hc me md

/-- **C12m** `find_path` returns valid paths -/
theorem mat_findPath_valid (hinj : ∀ S T, P S → P T → hash S = hash T → S = T) (invMap : Option (List Nat))
    (hmap : ic = true → ∃ mp, invMap = some mp ∧ MatInvMap gens n m mp) (hb : 0 < batch) (hb' : 0 < batch')
    (central start : List Int) (hc : P central) (hs : P start) (me md : Option Nat) :
    match findPath G GI invMap central start me md with
    | .found p => applyPath (matGenAct gens n k) start p = central ∧ ∀ i ∈ p, i < gens.length
    | .notFound => True
    | .assertFail _ => False := by
  have key := findPath_valid_on invMap (mat_findHypOn gens invs n k m hp hash ic batch batch' hinj invMap hmap hb hb')
    central start hc hs me md
  cases hr : findPath G GI invMap central start me md with
  | found p =>
    rw [hr] at key
    simp only at key ⊢
    rw [← matGraph_applyPath gens n k m hp.hm hp.modG hash ic batch start p key.2]
    exact key
  | notFound => trivial
  | assertFail msg => rw [hr] at key; exact key

/-- **C12m** `find_path` returns shortest paths -/
theorem mat_findPath_shortest (hinj : ∀ S T, P S → P T → hash S = hash T → S = T) (invMap : Option (List Nat))
    (hmap : ic = true → ∃ mp, invMap = some mp ∧ MatInvMap gens n m mp) (hb : 0 < batch) (hb' : 0 < batch')
    (central start : List Int) (hc : P central) (hs : P start) (me md : Option Nat)
    (hexp : ∀ d (L : List (List Int)), 1 ≤ d →
      d ≤ (matFindBall gens invs n k hash ic batch batch' central me md).length - 1 → L.Nodup →
      (∀ s, s ∈ L ↔ DistLayer (matNb (if ic then invs else gens) n k) [start] d s) → L.length < 10^12) :
    match findPath G GI invMap central start me md with
    | .found p => p.length ≤ 2 * ((matFindBall gens invs n k hash ic batch batch' central me md).length - 1) ∧
        ∀ d, Walk Math d start central → p.length ≤ d
    | .notFound => ∀ d, d ≤ 2 * ((matFindBall gens invs n k hash ic batch batch' central me md).length - 1) →
        ¬ Walk Math d start central
    | .assertFail _ => False := by
  have hG : (G).invClosed = ic := rfl
  have key := findPath_shortest_on invMap
    (mat_findHypOn gens invs n k m hp hash ic batch batch' hinj invMap hmap hb hb') central start hc hs me md
    (by
      intro d L hd1 hd2 hL
      rw [hG] at hd2 hL
      have h2 := hL.2
      cases hicb : ic with
      | true =>
        rw [hicb] at hd2 h2
        simp only [if_true] at hd2 h2
        rw [matGraph_nb_pos invs n k m hp.hm hp.modI hash true batch'] at h2
        refine hexp d L hd1 ?_ hL.1 ?_
        · unfold matFindBall; rw [hicb]; exact hd2
        · rw [hicb]; exact h2
      | false =>
        rw [hicb] at hd2 h2
        simp only [Bool.false_eq_true, if_false] at hd2 h2
        rw [matGraph_nb_pos gens n k m hp.hm hp.modG hash false batch] at h2
        refine hexp d L hd1 ?_ hL.1 ?_
        · unfold matFindBall; rw [hicb]; exact hd2
        · rw [hicb]; exact h2)
  simp only at key
  rw [matGraph_nb_pos gens n k m hp.hm hp.modG hash ic batch] at key
  exact key

end find

/-! ### how the size hypothesis `hexp` is discharged -/

/-- every distance class lies inside any set of states that contains the start states and is closed under the
generators -/
theorem mat_layer_le_of_closed (gens : List MatGen) (n k : Nat) (A : List (List Int))
    (hA : ∀ s ∈ A, ∀ t ∈ matNb gens n k s, t ∈ A) (S : List (List Int)) (hS : ∀ s ∈ S, s ∈ A) (d : Nat)
    (L : List (List Int)) (hnd : L.Nodup) (hmem : ∀ s, s ∈ L ↔ DistLayer (matNb gens n k) S d s) :
    L.length ≤ A.length := by
  apply hnd.length_le_of_subset
  intro s hs
  exact Transport.inOrbit_invariant _ _ (fun s => s ∈ A) hS (fun a b ha hb => hA a ha b hb) s
    ((hmem s).1 hs).inOrbit

end Cv.InstanceMat
