/-
  Worker g8, part 3: the right rotation as built by `hungarian_rings_permutations` (on `Nat` lists) is the ring shift
  of `rightRing`.
-/
import CvProofs.PyRingsG8b
namespace Cv.PyG8
open Cv.Py Cv.PyGen Cv.Puzzles Cv.PyG2

/-- the shifted right ring after `remove(first_intersect_value)` -/
def shiftTail (R : List Nat) (s : Nat) : List Nat := R.drop (s + 1) ++ R.take s

theorem shiftTail_length (R : List Nat) (s : Nat) (hs : s < R.length) : (shiftTail R s).length = R.length - 1 := by
  simp [shiftTail]; omega

theorem shiftTail_getElem? (R : List Nat) (s k : Nat) (hs : s < R.length) (hk : k + 1 < R.length) :
    (shiftTail R s)[k]? = R[(k + 1 + s) % R.length]? := by
  unfold shiftTail
  rw [add_mod_cases' (k + 1) s R.length hk (by omega)]
  split
  · rw [List.getElem?_append_left (by simp; omega), List.getElem?_drop]
    congr 1; omega
  · rw [List.getElem?_append_right (by simp; omega), List.getElem?_take, if_pos (by simp; omega)]
    congr 1; simp; omega

/-- right rotation, one intersection -/
def rightGen1 (ls : Nat) (R : List Nat) (s : Nat) : List Nat :=
  (List.range ls ++ shiftTail R s).set 0 (R.getD s 0)

/-- right rotation, two intersections -/
def rightGen2 (ls li ri : Nat) (R : List Nat) (s : Nat) : List Nat :=
  ((List.range ls ++ (shiftTail R s).eraseIdx (R.length - 1 - ri)).set 0 (R.getD s 0)).set li
    ((shiftTail R s).getD (R.length - 1 - ri) 0)

theorem rightRing_one_getElem? (ls rs j : Nat) (hj : j < rs) :
    (rightRing ls 0 rs 0)[j]? = some (if j = 0 then 0 else ls + j - 1) := by
  unfold rightRing
  rw [if_pos ⟨rfl, rfl⟩]
  cases j with
  | zero => rfl
  | succ k =>
    rw [List.getElem?_cons_succ, List.getElem?_range' (by omega), if_neg (by omega)]
    congr 1; omega

theorem rightRing_two_getElem? (ls li rs ri j : Nat) (hli : 0 < li) (hri : 0 < ri) (hr : ri < rs) (hj : j < rs) :
    (rightRing ls li rs ri)[j]? =
      some (if j = 0 then 0 else if j < rs - ri then ls + j - 1 else if j = rs - ri then li else ls + j - 2) := by
  unfold rightRing
  rw [if_neg (by omega)]
  have hlen : (0 :: List.range' ls (rs - ri - 1)).length = rs - ri := by simp; omega
  by_cases h1 : j < rs - ri
  · rw [List.getElem?_append_left (by omega)]
    cases j with
    | zero => rfl
    | succ k =>
      rw [List.getElem?_cons_succ, List.getElem?_range' (by omega), if_neg (by omega), if_pos h1]
      congr 1; omega
  · rw [List.getElem?_append_right (by omega), hlen, if_neg (by omega), if_neg h1]
    by_cases h2 : j = rs - ri
    · rw [if_pos h2, h2, Nat.sub_self]; rfl
    · rw [if_neg h2]
      obtain ⟨k, hk⟩ : ∃ k, j - (rs - ri) = k + 1 := ⟨j - (rs - ri) - 1, by omega⟩
      rw [hk, List.getElem?_cons_succ, List.getElem?_range' (by omega)]
      congr 1; omega

theorem ringsSize_one (ls rs : Nat) : ringsSize ls 0 rs 0 = ls + rs - 1 := by simp [ringsSize]
theorem ringsSize_two (ls li rs ri : Nat) (hli : 0 < li) : ringsSize ls li rs ri = ls + rs - 2 := by
  unfold ringsSize; rw [if_neg (by omega)]

theorem rightGen1_eq (ls rs s : Nat) (h1 : 1 < ls) (h2 : 1 < rs) (hs : s < rs) :
    rightGen1 ls (rightRing ls 0 rs 0) s = ringShift (ringsSize ls 0 rs 0) (rightRing ls 0 rs 0) s := by
  have hadm : RingsAdm ls 0 rs 0 := ⟨h1, h2, by omega, by omega, Or.inl ⟨rfl, rfl⟩⟩
  have hlen := rightRing_length ls 0 rs 0 hadm
  have hn := ringsSize_one ls rs
  have hsl := shiftTail_length (rightRing ls 0 rs 0) s (by omega)
  apply eq_ringShift
  · simp [rightGen1, hsl, hlen, hn]; omega
  · intro j hj hlt
    rw [hlen] at hj ⊢
    have hv : (rightRing ls 0 rs 0)[j] = if j = 0 then 0 else ls + j - 1 := by
      have := rightRing_one_getElem? ls rs j hj
      rw [List.getElem?_eq_getElem (by omega)] at this
      exact Option.some.inj this
    rw [hv]
    unfold rightGen1
    by_cases hj0 : j = 0
    · subst hj0
      rw [if_pos rfl, List.getElem?_set_self (by simp; omega), Nat.zero_add, Nat.mod_eq_of_lt hs,
        List.getD_eq_getElem?_getD, List.getElem?_eq_getElem (by omega)]
      rfl
    · rw [if_neg hj0, List.getElem?_set_ne (by omega), List.getElem?_append_right (by simp; omega)]
      simp only [List.length_range]
      have : ls + j - 1 - ls = j - 1 := by omega
      rw [this, shiftTail_getElem? _ _ _ (by omega) (by omega), hlen]
      congr 2; omega
  · intro x hx hnot
    rw [mem_rightRing ls 0 rs 0 hadm] at hnot
    unfold rightGen1
    rw [List.getElem?_set_ne (by omega), List.getElem?_append_left (by simp; omega), List.getElem?_range (by omega)]

theorem rightGen2_eq (ls li rs ri s : Nat) (hadm : RingsAdm ls li rs ri) (hli : 0 < li) (hri : 0 < ri) (hs : s < rs) :
    rightGen2 ls li ri (rightRing ls li rs ri) s = ringShift (ringsSize ls li rs ri) (rightRing ls li rs ri) s := by
  have hlen := rightRing_length ls li rs ri hadm
  have hn := ringsSize_two ls li rs ri hli
  have hsl := shiftTail_length (rightRing ls li rs ri) s (by omega)
  have hmem := mem_rightRing ls li rs ri hadm
  obtain ⟨h1, h2, h3, h4, _⟩ := hadm
  have hel : ((shiftTail (rightRing ls li rs ri) s).eraseIdx (rs - 1 - ri)).length = rs - 2 := by
    rw [List.length_eraseIdx, hsl, hlen, if_pos (by omega)]; omega
  apply eq_ringShift
  · unfold rightGen2
    rw [hlen, List.length_set, List.length_set, List.length_append, hel, List.length_range]; omega
  · intro j hj hlt
    rw [hlen] at hj ⊢
    have hv : (rightRing ls li rs ri)[j] =
        if j = 0 then 0 else if j < rs - ri then ls + j - 1 else if j = rs - ri then li else ls + j - 2 := by
      have := rightRing_two_getElem? ls li rs ri j hli hri h4 hj
      rw [List.getElem?_eq_getElem (by omega)] at this
      exact Option.some.inj this
    rw [hv]
    unfold rightGen2
    rw [hlen]
    by_cases hj0 : j = 0
    · subst hj0
      rw [if_pos rfl, List.getElem?_set_ne (by omega), List.getElem?_set_self (by simp; omega), Nat.zero_add,
        Nat.mod_eq_of_lt hs, List.getD_eq_getElem?_getD, List.getElem?_eq_getElem (by omega)]
      rfl
    rw [if_neg hj0]
    by_cases hj1 : j < rs - ri
    · rw [if_pos hj1, List.getElem?_set_ne (by omega), List.getElem?_set_ne (by omega),
        List.getElem?_append_right (by simp; omega)]
      simp only [List.length_range]
      have : ls + j - 1 - ls = j - 1 := by omega
      rw [this, List.getElem?_eraseIdx_of_lt (by omega), shiftTail_getElem? _ _ _ (by omega) (by omega), hlen]
      congr 2; omega
    rw [if_neg hj1]
    by_cases hj2 : j = rs - ri
    · rw [if_pos hj2, List.getElem?_set_self (by rw [List.length_set, List.length_append, hel, List.length_range]; omega),
        List.getD_eq_getElem?_getD, shiftTail_getElem? _ _ _ (by omega) (by omega), hlen]
      have : rs - 1 - ri + 1 + s = j + s := by omega
      rw [this, List.getElem?_eq_getElem (by rw [hlen]; exact Nat.mod_lt _ (by omega))]
      rfl
    · rw [if_neg hj2, List.getElem?_set_ne (by omega), List.getElem?_set_ne (by omega),
        List.getElem?_append_right (by simp; omega)]
      simp only [List.length_range]
      have : ls + j - 2 - ls = j - 2 := by omega
      rw [this, List.getElem?_eraseIdx_of_ge (by omega), shiftTail_getElem? _ _ _ (by omega) (by omega), hlen]
      congr 2; omega
  · intro x hx hnot
    rw [hmem] at hnot
    unfold rightGen2
    rw [List.getElem?_set_ne (by omega), List.getElem?_set_ne (by omega),
      List.getElem?_append_left (by simp; omega), List.getElem?_range (by omega)]

end Cv.PyG8
