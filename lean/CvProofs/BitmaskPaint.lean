/-
  Proofs about `CvModel/Bitmask.lean`, part 4: the chunk table, positions of vertices (chunk index, rank), and
  `CayleyGraphChunkedBfs.paint_gray` (routing of encoded neighbours to chunks through `np.unique` / `group_starts`).
  Core Lean only.
-/
import CvProofs.BitmaskBits
import CvProofs.PermConj
namespace Cv.Bitmask
open Cv.Perm

/-! ### `itertools.permutations(l, r)` -/

theorem partialPerms_spec (r : Nat) (l s : List Nat) (h : s ∈ partialPerms r l) :
    s.length = r ∧ ∃ rest, l.Perm (s ++ rest) := by
  induction r generalizing l s with
  | zero =>
    simp only [partialPerms, List.mem_cons, List.not_mem_nil, or_false] at h
    subst h
    exact ⟨rfl, l, List.Perm.refl _⟩
  | succ r ih =>
    simp only [partialPerms, List.mem_flatMap, List.mem_map] at h
    obtain ⟨⟨a, r'⟩, hp, t, ht, rfl⟩ := h
    obtain ⟨hlen, rest, hperm⟩ := ih r' t ht
    refine ⟨by simp [hlen], rest, ?_⟩
    exact (picks_spec l a r' hp).trans (hperm.cons a)

theorem partialPerms_complete (r : Nat) (l s rest : List Nat) (hlen : s.length = r) (h : l.Perm (s ++ rest)) :
    s ∈ partialPerms r l := by
  induction r generalizing l s with
  | zero =>
    have : s = [] := List.length_eq_zero_iff.1 hlen
    subst this
    simp [partialPerms]
  | succ r ih =>
    cases s with
    | nil => simp at hlen
    | cons a t =>
      have ha : a ∈ l := h.symm.subset (by simp)
      obtain ⟨r', hr'⟩ := picks_complete l a ha
      have hp := picks_spec l a r' hr'
      have ht : r'.Perm (t ++ rest) := (hp.symm.trans h).cons_inv
      simp only [partialPerms, List.mem_flatMap, List.mem_map]
      exact ⟨(a, r'), hr', t, ih r' t (by simpa using hlen) ht, rfl⟩

/-! ### the chunk table -/

/-- the static parts of `self.chunks` -/
def staticChunks (n R : Nat) : List Chunk := (partialPerms (n - R) (List.range n)).map (mkChunk n R)

theorem initChunks_chunk (n R : Nat) : (initChunks n R).map (·.chunk) = staticChunks n R := by
  simp [initChunks, staticChunks, newVChunk, List.map_map, Function.comp_def]

theorem drop_mem_partialPerms {n : Nat} {p : List Nat} (hp : IsPermOf n p) (R : Nat) :
    p.drop R ∈ partialPerms (n - R) (List.range n) := by
  apply partialPerms_complete (n - R) (List.range n) (p.drop R) (p.take R)
  · rw [List.length_drop, hp.length_eq]
  · have h1 : (List.range n).Perm p := ((isPermOf_iff_perm n p).1 hp).symm
    refine h1.trans ?_
    conv => lhs; rw [← List.take_append_drop R p]
    exact List.perm_append_comm

/-- the entries of every suffix in the chunk table -/
theorem suffix_of_mem {n R : Nat} {s : List Nat} (hs : s ∈ partialPerms (n - R) (List.range n)) :
    s.length = n - R ∧ ∀ v ∈ s, v < n := by
  obtain ⟨hlen, rest, hperm⟩ := partialPerms_spec _ _ _ hs
  refine ⟨hlen, fun v hv => ?_⟩
  exact List.mem_range.1 (hperm.symm.subset (List.mem_append_left _ hv))

/-! ### positions of vertices: (index of the chunk, rank inside the chunk) -/

/-- index of the chunk that `chunk_map[x & suffix_mask]` refers to -/
def ixE (n R : Nat) (x : Nat) : Nat :=
  ((staticChunks n R).findIdx? (fun c => c.encodedSuffix == chunkOf n R x)).getD 0

/-- the chunk of an encoded vertex, computed from its suffix -/
def chunkFor (n R : Nat) (x : Nat) : Chunk := mkChunk n R ((decodePerm n x).drop R)

/-- rank of an encoded vertex inside its chunk -/
def rkE (n R : Nat) (x : Nat) : Nat := permToRank R (chunkFor n R x) x

theorem ixE_congr (n R : Nat) {x y : Nat} (h : chunkOf n R x = chunkOf n R y) : ixE n R x = ixE n R y := by
  unfold ixE; rw [h]

section pos
set_option linter.unusedSectionVars false
variable {n R : Nat} (hR : R ≤ n) (hn : n ≤ 16)
include hR hn

theorem lt16_of_perm {p : List Nat} (hp : IsPermOf n p) : ∀ v ∈ p, v < 16 :=
  fun v hv => Nat.lt_of_lt_of_le (hp.lt v hv) hn

theorem chunkFor_enc {p : List Nat} (hp : IsPermOf n p) :
    chunkFor n R (encodePerm p) = mkChunk n R (p.drop R) := by
  unfold chunkFor
  have := decode_encodePerm' p (lt16_of_perm hR hn hp)
  rw [hp.length_eq] at this
  rw [this]

theorem chunkOf_enc {p : List Nat} (hp : IsPermOf n p) :
    chunkOf n R (encodePerm p) = (mkChunk n R (p.drop R)).encodedSuffix := by
  rw [encodePerm_eq_pack, chunkOf_pack n R p hp.length_eq hR (lt16_of_perm hR hn hp),
    encodedSuffix_eq n R _ (by rw [List.length_drop, hp.length_eq])]

/-- the routing key of a valid vertex finds its chunk -/
theorem findIdx_chunk {p : List Nat} (hp : IsPermOf n p) :
    ∃ i, (staticChunks n R).findIdx? (fun c => c.encodedSuffix == chunkOf n R (encodePerm p)) = some i ∧
      (staticChunks n R)[i]? = some (mkChunk n R (p.drop R)) := by
  have hkey := chunkOf_enc hR hn hp
  cases h : (staticChunks n R).findIdx? (fun c => c.encodedSuffix == chunkOf n R (encodePerm p)) with
  | none =>
    rw [List.findIdx?_eq_none_iff] at h
    have hmem : mkChunk n R (p.drop R) ∈ staticChunks n R :=
      List.mem_map.2 ⟨_, drop_mem_partialPerms hp R, rfl⟩
    have := h _ hmem
    rw [hkey] at this
    simp at this
  | some i =>
    refine ⟨i, rfl, ?_⟩
    rw [List.findIdx?_eq_some_iff_getElem] at h
    obtain ⟨hi, hpred, -⟩ := h
    rw [List.getElem?_eq_getElem hi]
    have hmem : (staticChunks n R)[i] ∈ (partialPerms (n - R) (List.range n)).map (mkChunk n R) :=
      List.getElem_mem hi
    rw [List.mem_map] at hmem
    obtain ⟨s, hs, hsc⟩ := hmem
    have hsc' : (staticChunks n R)[i] = mkChunk n R s := hsc.symm
    rw [hsc'] at hpred ⊢
    obtain ⟨hslen, hslt⟩ := suffix_of_mem hs
    rw [beq_iff_eq, hkey, encodedSuffix_eq n R s hslen,
      encodedSuffix_eq n R _ (by rw [List.length_drop, hp.length_eq])] at hpred
    have h' := Nat.eq_of_mul_eq_mul_left (Nat.pow_pos (by omega)) hpred
    have : s = p.drop R := by
      apply pack_injective 4 _ _ (fun v hv => Nat.lt_of_lt_of_le (hslt v hv) hn)
        (drop_lt16 (lt16_of_perm hR hn hp) R) (by rw [hslen, List.length_drop, hp.length_eq]) h'
    rw [this]

theorem ixE_spec {p : List Nat} (hp : IsPermOf n p) :
    (staticChunks n R).findIdx? (fun c => c.encodedSuffix == chunkOf n R (encodePerm p)) =
      some (ixE n R (encodePerm p)) ∧
    (staticChunks n R)[ixE n R (encodePerm p)]? = some (mkChunk n R (p.drop R)) := by
  obtain ⟨i, h1, h2⟩ := findIdx_chunk hR hn hp
  have : ixE n R (encodePerm p) = i := by unfold ixE; rw [h1]; rfl
  rw [this]; exact ⟨h1, h2⟩

theorem ixE_lt {p : List Nat} (hp : IsPermOf n p) : ixE n R (encodePerm p) < (staticChunks n R).length := by
  have := (ixE_spec hR hn hp).2
  apply Classical.byContradiction
  intro h
  rw [List.getElem?_eq_none (by omega)] at this
  cases this

variable (hR8 : R ≤ 8)
include hR8

theorem rkE_enc {p : List Nat} (hp : IsPermOf n p) :
    rkE n R (encodePerm p) = permToRank R (mkChunk n R (p.drop R)) (encodePerm p) := by
  unfold rkE; rw [chunkFor_enc hR hn hp]

theorem rkE_lt {p : List Nat} (hp : IsPermOf n p) : rkE n R (encodePerm p) < fact R := by
  rw [rkE_enc hR hn hR8 hp]
  exact (rank_roundtrip' n R hR hn hR8 p hp).2

theorem rankToPerm_rkE {p : List Nat} (hp : IsPermOf n p) :
    rankToPerm R (mkChunk n R (p.drop R)) (rkE n R (encodePerm p)) = encodePerm p := by
  rw [rkE_enc hR hn hR8 hp]
  exact (rank_roundtrip' n R hR hn hR8 p hp).1

/-- the position determines the vertex -/
theorem pos_injective {p q : List Nat} (hp : IsPermOf n p) (hq : IsPermOf n q)
    (hi : ixE n R (encodePerm p) = ixE n R (encodePerm q)) (hr : rkE n R (encodePerm p) = rkE n R (encodePerm q)) :
    p = q := by
  have h1 := (ixE_spec hR hn hp).2
  have h2 := (ixE_spec hR hn hq).2
  rw [hi, h2] at h1
  have hs : p.drop R = q.drop R := by
    have := congrArg Chunk.suffix (Option.some.inj h1)
    simpa [mkChunk_suffix] using this.symm
  rw [rkE_enc hR hn hR8 hp, rkE_enc hR hn hR8 hq] at hr
  exact rank_injective_in_chunk' n R hR hn hR8 p q hp hq hs hr

end pos

/-! ### the state: a list of chunks over the chunk table -/

/-- the fields that painting does not touch -/
def frz (vc : VChunk) : Chunk × Bits × Bits × Bool × Nat :=
  (vc.chunk, vc.black, vc.lastLayer, vc.changed, vc.lastCount)

structure Shape (n R : Nat) (cs : List VChunk) : Prop where
  chunks : cs.map (·.chunk) = staticChunks n R
  sizes : ∀ vc ∈ cs, vc.black.size = numWords R ∧ vc.lastLayer.size = numWords R ∧ vc.gray.size = numWords R

/-- bit `r` of the bit set `sel` of chunk number `i` -/
def bitOf (sel : VChunk → Bits) (cs : List VChunk) (i r : Nat) : Bool :=
  match cs[i]? with
  | some vc => bitAt (sel vc) r
  | none => false

/-- a valid encoded vertex -/
def ValidE (n : Nat) (x : Nat) : Prop := ∃ p, IsPermOf n p ∧ x = encodePerm p

/-- `cs'` is `cs` with the gray bits of the vertices `X` added -/
structure Painted (n R : Nat) (cs cs' : List VChunk) (X : List Nat) : Prop where
  frozen : cs'.map frz = cs.map frz
  graySize : cs'.map (·.gray.size) = cs.map (·.gray.size)
  gray : ∀ i r, bitOf (·.gray) cs' i r = true ↔
    (bitOf (·.gray) cs i r = true ∨ ∃ x ∈ X, ixE n R x = i ∧ rkE n R x = r)

theorem Painted.refl (n R : Nat) (cs : List VChunk) : Painted n R cs cs [] :=
  ⟨rfl, rfl, fun i r => by simp⟩

theorem Painted.trans {n R : Nat} {cs cs' cs'' : List VChunk} {X Y : List Nat}
    (h1 : Painted n R cs cs' X) (h2 : Painted n R cs' cs'' Y) : Painted n R cs cs'' (X ++ Y) := by
  refine ⟨h2.frozen.trans h1.frozen, h2.graySize.trans h1.graySize, fun i r => ?_⟩
  rw [h2.gray, h1.gray]
  simp only [List.mem_append]
  constructor
  · rintro ((h | ⟨x, hx, e⟩) | ⟨x, hx, e⟩)
    · exact Or.inl h
    · exact Or.inr ⟨x, Or.inl hx, e⟩
    · exact Or.inr ⟨x, Or.inr hx, e⟩
  · rintro (h | ⟨x, hx | hx, e⟩)
    · exact Or.inl (Or.inl h)
    · exact Or.inl (Or.inr ⟨x, hx, e⟩)
    · exact Or.inr ⟨x, hx, e⟩

theorem Painted.congr {n R : Nat} {cs cs' : List VChunk} {X Y : List Nat} (h : Painted n R cs cs' X)
    (hXY : ∀ x, x ∈ X ↔ x ∈ Y) : Painted n R cs cs' Y := by
  refine ⟨h.frozen, h.graySize, fun i r => ?_⟩
  rw [h.gray]
  constructor
  · rintro (h | ⟨x, hx, e⟩)
    · exact Or.inl h
    · exact Or.inr ⟨x, (hXY x).1 hx, e⟩
  · rintro (h | ⟨x, hx, e⟩)
    · exact Or.inl h
    · exact Or.inr ⟨x, (hXY x).2 hx, e⟩

theorem frz_chunk (vc : VChunk) : (frz vc).1 = vc.chunk := rfl

theorem map_chunk_of_frz {cs cs' : List VChunk} (h : cs'.map frz = cs.map frz) :
    cs'.map (·.chunk) = cs.map (·.chunk) := by
  have := congrArg (List.map Prod.fst) h
  simpa [List.map_map, Function.comp_def, frz] using this

theorem getElem?_of_map_eq {α β : Type} {f : α → β} {l l' : List α} (h : l'.map f = l.map f) (i : Nat) :
    (l'[i]?).map f = (l[i]?).map f := by
  rw [← List.getElem?_map, ← List.getElem?_map, h]

theorem Painted.shape {n R : Nat} {cs cs' : List VChunk} {X : List Nat} (h : Painted n R cs cs' X)
    (hs : Shape n R cs) : Shape n R cs' := by
  refine ⟨(map_chunk_of_frz h.frozen).trans hs.chunks, ?_⟩
  intro vc' hvc'
  obtain ⟨i, hi, rfl⟩ := List.getElem_of_mem hvc'
  have h1 := getElem?_of_map_eq h.frozen i
  have h2 := getElem?_of_map_eq h.graySize i
  rw [List.getElem?_eq_getElem hi] at h1 h2
  cases hc : cs[i]? with
  | none => rw [hc] at h1; simp at h1
  | some vc =>
    rw [hc] at h1 h2
    simp only [Option.map_some, Option.some.injEq] at h1 h2
    have hmem : vc ∈ cs := List.mem_of_getElem? hc
    obtain ⟨s1, s2, s3⟩ := hs.sizes vc hmem
    simp only [frz, Prod.mk.injEq] at h1
    obtain ⟨-, hb, hl, -, -⟩ := h1
    exact ⟨by rw [hb]; exact s1, by rw [hl]; exact s2, by rw [h2]; exact s3⟩

/-! ### `self.chunk_map[key].paint_gray(perms)` -/

theorem frz_paintChunk (R : Nat) (vc : VChunk) (xs : List Nat) : frz (paintChunk R vc xs) = frz vc := rfl

theorem map_modify_of_eq {α β : Type} (g : α → β) (f : α → α) (h : ∀ a, g (f a) = g a) (l : List α) (i : Nat) :
    (l.modify i f).map g = l.map g := by
  apply List.ext_getElem?
  intro j
  rw [List.getElem?_map, List.getElem?_map, List.getElem?_modify]
  cases l[j]? with
  | none => rfl
  | some a =>
    simp only [Option.map_some]
    split <;> simp [h]

theorem foldl_setBit_congr (xs : List Nat) (f g : Nat → Nat) (h : ∀ x ∈ xs, f x = g x) (b : Bits) :
    xs.foldl (fun b x => setBit b (f x)) b = (xs.map g).foldl setBit b := by
  induction xs generalizing b with
  | nil => rfl
  | cons a t ih =>
    rw [List.foldl_cons, List.map_cons, List.foldl_cons, h a List.mem_cons_self]
    exact ih (fun x hx => h x (List.mem_cons_of_mem _ hx)) _

theorem rank_div_lt {R r : Nat} (h : r < fact R) : r / 64 < numWords R := by
  unfold numWords; omega

section paintKey
variable {n R : Nat} (hR : R ≤ n) (hn : n ≤ 16) (hR8 : R ≤ 8)
include hR hn hR8

theorem paintKey_spec {cs : List VChunk} (hs : Shape n R cs) (k : Nat) (xs : List Nat) (hne : xs ≠ [])
    (hval : ∀ x ∈ xs, ValidE n x) (hkey : ∀ x ∈ xs, chunkOf n R x = k) :
    ∃ cs', paintKey R cs k xs = .ok cs' ∧ Painted n R cs cs' xs := by
  obtain ⟨x0, hx0⟩ := List.exists_mem_of_ne_nil xs hne
  obtain ⟨p0, hp0, rfl⟩ := hval x0 hx0
  have hk0 := hkey _ hx0
  obtain ⟨hfind, hget⟩ := ixE_spec hR hn hp0
  rw [hk0] at hfind
  -- the lookup in the dynamic list
  have hfind' : cs.findIdx? (fun vc => vc.chunk.encodedSuffix == k) = some (ixE n R (encodePerm p0)) := by
    rw [← hs.chunks, List.findIdx?_map] at hfind
    exact hfind
  -- facts about every painted vertex
  have hx : ∀ x ∈ xs, ixE n R x = ixE n R (encodePerm p0) ∧ chunkFor n R x = mkChunk n R (p0.drop R) ∧
      rkE n R x < fact R := by
    intro x hxm
    obtain ⟨p, hp, rfl⟩ := hval x hxm
    have hkx : chunkOf n R (encodePerm p) = chunkOf n R (encodePerm p0) := by rw [hkey _ hxm, hk0]
    refine ⟨ixE_congr n R hkx, ?_, rkE_lt hR hn hR8 hp⟩
    rw [chunkFor_enc hR hn hp, (chunkOf_eq_iff' n R p p0 hp hp0 hn).1 hkx]
  refine ⟨cs.modify (ixE n R (encodePerm p0)) (paintChunk R · xs), ?_, ?_, ?_, ?_⟩
  · unfold paintKey; rw [hfind']
  · exact map_modify_of_eq frz _ (fun a => frz_paintChunk R a xs) cs _
  · apply map_modify_of_eq
    intro a
    show (xs.foldl (fun g x => setBit g (permToRank R a.chunk x)) a.gray).size = a.gray.size
    rw [foldl_setBit_congr xs _ _ (fun x _ => rfl), size_foldl_setBit]
  · intro i r
    unfold bitOf
    rw [List.getElem?_modify]
    by_cases hi : ixE n R (encodePerm p0) = i
    · subst hi
      have hchunk : (cs[ixE n R (encodePerm p0)]?).map (·.chunk) = some (mkChunk n R (p0.drop R)) := by
        rw [← List.getElem?_map, hs.chunks]; exact hget
      cases hc : cs[ixE n R (encodePerm p0)]? with
      | none => rw [hc] at hchunk; simp at hchunk
      | some vc =>
        rw [hc] at hchunk
        simp only [Option.map_some, Option.some.injEq] at hchunk
        simp only [if_true, Option.map_eq_map, Option.map_some]
        have hgray : (paintChunk R vc xs).gray = (xs.map (rkE n R)).foldl setBit vc.gray := by
          show xs.foldl (fun g x => setBit g (permToRank R vc.chunk x)) vc.gray = _
          apply foldl_setBit_congr
          intro x hxm
          rw [hchunk, ← (hx x hxm).2.1]; rfl
        have hsz := (hs.sizes vc (List.mem_of_getElem? hc)).2.2
        rw [hgray, bitAt_foldl_setBit _ _ (by
          intro r' hr'
          rw [List.mem_map] at hr'
          obtain ⟨x, hxm, rfl⟩ := hr'
          rw [hsz]; exact rank_div_lt (hx x hxm).2.2)]
        simp only [Bool.or_eq_true, List.contains_eq_mem, List.mem_map, decide_eq_true_eq]
        constructor
        · rintro (h | ⟨x, hxm, e⟩)
          · exact Or.inl h
          · exact Or.inr ⟨x, hxm, (hx x hxm).1, e⟩
        · rintro (h | ⟨x, hxm, -, e⟩)
          · exact Or.inl h
          · exact Or.inr ⟨x, hxm, e⟩
    · simp only [if_neg hi]
      have : (id <$> cs[i]?) = cs[i]? := by simp
      constructor
      · intro h
        left
        cases hc : cs[i]? with
        | none => rw [hc] at h; simp at h
        | some vc => rw [hc] at h; simpa using h
      · rintro (h | ⟨x, hxm, e, -⟩)
        · cases hc : cs[i]? with
          | none => rw [hc] at h; simp at h
          | some vc => rw [hc] at h; simpa using h
        · exact absurd ((hx x hxm).1.symm.trans e) hi

end paintKey

/-! ### `np.unique` -/

theorem dedupAdj_sublist (l : List Nat) : (dedupAdj l).Sublist l := by
  fun_induction dedupAdj l with
  | case1 => exact List.Sublist.refl _
  | case2 a => exact List.Sublist.refl _
  | case3 a b t h ih => exact ih.cons a
  | case4 a b t h ih => exact ih.cons_cons a

theorem mem_dedupAdj (l : List Nat) (x : Nat) : x ∈ dedupAdj l ↔ x ∈ l := by
  fun_induction dedupAdj l with
  | case1 => simp
  | case2 a => simp
  | case3 a b t h ih =>
    have hab : a = b := by simpa using h
    rw [ih, hab]; simp
  | case4 a b t h ih =>
    rw [List.mem_cons, ih]; simp

theorem mem_npUnique (perms : List Nat) (x : Nat) : x ∈ npUnique perms ↔ x ∈ perms := by
  unfold npUnique
  rw [mem_dedupAdj, List.mem_mergeSort]

theorem npUnique_sorted (perms : List Nat) : (npUnique perms).Pairwise (· ≤ ·) :=
  (Cv.mergeSort_le_sorted perms).sublist (dedupAdj_sublist _)

theorem npUnique_eq_nil (perms : List Nat) : npUnique perms = [] ↔ perms = [] := by
  constructor
  · intro h
    apply List.eq_nil_iff_forall_not_mem.2
    intro x hx
    have := (mem_npUnique perms x).2 hx
    rw [h] at this; cases this
  · intro h; subst h; simp [npUnique, dedupAdj]

/-! ### the routing key is monotone -/

theorem chunkOf_eq_div (n R : Nat) (hR : R ≤ n) (x : Nat) (hx : x < 2 ^ (4 * n)) :
    chunkOf n R x = 2 ^ (4 * R) * (x / 2 ^ (4 * R)) := by
  have hpos : 0 < 2 ^ (4 * R) := Nat.pow_pos (by omega)
  have hb : x / 2 ^ (4 * R) < 2 ^ (4 * (n - R)) := by
    apply Nat.div_lt_of_lt_mul
    rw [← Nat.pow_add]
    have : 4 * R + 4 * (n - R) = 4 * n := by omega
    rw [this]; exact hx
  have := and_suffixMask n R (x % 2 ^ (4 * R)) (x / 2 ^ (4 * R)) (Nat.mod_lt _ hpos) hb
  rw [Nat.mod_add_div] at this
  exact this

theorem chunkOf_mono (n R : Nat) (hR : R ≤ n) (x y : Nat) (hxy : x ≤ y) (hy : y < 2 ^ (4 * n)) :
    chunkOf n R x ≤ chunkOf n R y := by
  rw [chunkOf_eq_div n R hR x (Nat.lt_of_le_of_lt hxy hy), chunkOf_eq_div n R hR y hy]
  exact Nat.mul_le_mul_left _ (Nat.div_le_div_right hxy)

theorem validE_lt {n : Nat} (hn : n ≤ 16) {x : Nat} (h : ValidE n x) : x < 2 ^ (4 * n) := by
  obtain ⟨p, hp, rfl⟩ := h
  rw [encodePerm_eq_pack]
  have := pack_lt 4 p (fun v hv => Nat.lt_of_lt_of_le (hp.lt v hv) hn)
  rwa [hp.length_eq] at this

/-! ### `group_starts` -/

/-- position `t` starts a new group: `np.roll(keys, 1)[t] != keys[t]` -/
def isStart (keys : List Nat) (t : Nat) : Bool := (roll1 keys).getD t 0 != keys.getD t 0

theorem getD_toArray (l : List Nat) (i : Nat) : l.toArray.getD i 0 = l.getD i 0 := by
  rw [Array.getD_eq_getD_getElem?, List.getElem?_toArray, List.getD_eq_getElem?_getD]

theorem groupStarts_eq (keys : List Nat) : groupStarts keys = (List.range keys.length).filter (isStart keys) := by
  unfold groupStarts
  apply List.filter_congr
  intro i _
  simp only [isStart, getD_toArray]

theorem roll1_getD_zero (keys : List Nat) (h : keys ≠ []) :
    (roll1 keys).getD 0 0 = keys.getD (keys.length - 1) 0 := by
  unfold roll1
  rw [List.getLast?_eq_some_getLast h]
  simp only [List.getD_cons_zero]
  rw [List.getLast_eq_getElem h, getD_eq_getElem]

theorem roll1_getD_succ (keys : List Nat) (t : Nat) (h : t + 1 < keys.length) :
    (roll1 keys).getD (t + 1) 0 = keys.getD t 0 := by
  have hne : keys ≠ [] := by intro e; subst e; simp at h
  unfold roll1
  rw [List.getLast?_eq_some_getLast hne]
  simp only [List.getD_cons_succ]
  rw [List.getD_eq_getElem?_getD, List.getElem?_dropLast, if_pos (by omega), ← List.getD_eq_getElem?_getD]

/-- a position `t ≥ 1` that is not a group start has the key of its predecessor -/
theorem key_eq_pred {keys : List Nat} {t : Nat} (ht : t + 1 < keys.length) (h : isStart keys (t + 1) = false) :
    keys.getD (t + 1) 0 = keys.getD t 0 := by
  unfold isStart at h
  rw [roll1_getD_succ keys t ht] at h
  have : keys.getD t 0 = keys.getD (t + 1) 0 := by simpa using h
  exact this.symm

/-- keys are constant on a stretch without group starts -/
theorem key_const {keys : List Nat} {a b : Nat} (hb : b ≤ keys.length)
    (h : ∀ t, a < t → t < b → isStart keys t = false) (t : Nat) (hat : a ≤ t) (htb : t < b) :
    keys.getD t 0 = keys.getD a 0 := by
  induction t with
  | zero =>
    have : a = 0 := by omega
    subst this; rfl
  | succ t ih =>
    by_cases e : a = t + 1
    · rw [e]
    · rw [key_eq_pred (by omega) (h (t + 1) (by omega) htb)]
      exact ih (by omega) (by omega)

/-- monotone keys: if there is a group start at all, position 0 is one -/
theorem isStart_zero_of_exists {keys : List Nat} (hs : keys.Pairwise (· ≤ ·)) {t : Nat} (ht : t < keys.length)
    (h : isStart keys t = true) : isStart keys 0 = true := by
  have hne : keys ≠ [] := by intro e; subst e; simp at ht
  cases t with
  | zero => exact h
  | succ t =>
    unfold isStart at h ⊢
    rw [roll1_getD_succ keys t ht] at h
    rw [roll1_getD_zero keys hne]
    have hne' : keys.getD t 0 ≠ keys.getD (t + 1) 0 := by simpa using h
    have hmono : ∀ i j, i ≤ j → j < keys.length → keys.getD i 0 ≤ keys.getD j 0 := by
      intro i j hij hj
      rw [getD_eq_getElem (by omega), getD_eq_getElem hj]
      rcases Nat.lt_or_ge i j with hlt | hge
      · exact List.pairwise_iff_getElem.1 hs i j (by omega) hj hlt
      · have : i = j := by omega
        subst this; exact Nat.le_refl _
    have h1 := hmono 0 t (by omega) (by omega)
    have h2 := hmono t (t + 1) (by omega) ht
    have h3 := hmono (t + 1) (keys.length - 1) (by omega) (by omega)
    simp only [bne_iff_ne, ne_eq]
    omega

/-! ### the loop over the groups -/

/-- the second branch of `paint_gray` after `np.unique`, keys and group starts have been computed -/
def segLoop (R : Nat) (ps : List Nat) (ka gs : Array Nat) (chunks : List VChunk) : Except BfsError (List VChunk) :=
  (List.foldlM (fun chunks i => paintKey R chunks (ka.getD (gs.getD i 0) 0)
      (List.take (gs.getD (i + 1) 0 - gs.getD i 0) (List.drop (gs.getD i 0) ps))) chunks (List.range (gs.size - 1))) >>=
    fun chunks =>
      if gs.size == 0 then .error .groupStartsEmpty
      else paintKey R chunks (ka.getD (gs.getD (gs.size - 1) 0) 0) (List.drop (gs.getD (gs.size - 1) 0) ps)

theorem paintGray_eq (n R : Nat) (chunks : List VChunk) (perms : List Nat) : paintGray n R chunks perms =
    if perms.length == 1 then paintKey R chunks (chunkOf n R (perms.getD 0 0)) perms
    else segLoop R (npUnique perms) ((npUnique perms).map (chunkOf n R)).toArray
      (groupStarts ((npUnique perms).map (chunkOf n R))).toArray chunks := rfl

/-- the same loop written by recursion on the list of group starts -/
def paintSegs (R : Nat) (ps : List Nat) (ka : Array Nat) : List VChunk → List Nat → Except BfsError (List VChunk)
  | _, [] => .error .groupStartsEmpty
  | cs, [a] => paintKey R cs (ka.getD a 0) (ps.drop a)
  | cs, a :: b :: rest =>
    match paintKey R cs (ka.getD a 0) ((ps.drop a).take (b - a)) with
    | .error e => .error e
    | .ok cs' => paintSegs R ps ka cs' (b :: rest)

theorem segLoop_eq (R : Nat) (ps : List Nat) (ka : Array Nat) (gsL : List Nat) (cs : List VChunk) :
    segLoop R ps ka gsL.toArray cs = paintSegs R ps ka cs gsL := by
  induction gsL generalizing cs with
  | nil => rfl
  | cons a t ih =>
    cases t with
    | nil => rfl
    | cons b rest =>
      have hsz : (a :: b :: rest).toArray.size - 1 = rest.length + 1 := by simp
      have hsz' : (b :: rest).toArray.size - 1 = rest.length := by simp
      have ih' := ih
      unfold segLoop at ih' ⊢
      rw [hsz, List.range_succ_eq_map, List.foldlM_cons]
      rw [paintSegs]
      have e0 : (a :: b :: rest).toArray.getD 0 0 = a := by simp
      have e1 : (a :: b :: rest).toArray.getD (0 + 1) 0 = b := by simp
      rw [e0, e1]
      cases hpk : paintKey R cs (ka.getD a 0) (List.take (b - a) (List.drop a ps)) with
      | error e => rfl
      | ok cs' =>
        simp only [bind, Except.bind]
        rw [← ih' cs', hsz', List.foldlM_map]
        have hshift : ∀ i, (a :: b :: rest).toArray.getD (i + 1) 0 = (b :: rest).toArray.getD i 0 := by
          intro i; simp
        have hsize0 : ((a :: b :: rest).toArray.size == 0) = false := by simp
        have hsize0' : ((b :: rest).toArray.size == 0) = false := by simp
        simp only [hshift, hsize0, hsize0', Nat.succ_eq_add_one, bind, Except.bind]

theorem mem_seg {ps : List Nat} {a b x : Nat} (hx : x ∈ (ps.drop a).take (b - a)) :
    ∃ t, a ≤ t ∧ t < b ∧ t < ps.length ∧ x = ps.getD t 0 := by
  rw [List.mem_take_iff_getElem] at hx
  obtain ⟨j, hj, rfl⟩ := hx
  rw [List.length_drop] at hj
  refine ⟨a + j, by omega, by omega, by omega, ?_⟩
  rw [List.getElem_drop, getD_eq_getElem (by omega)]

theorem mem_drop' {ps : List Nat} {a x : Nat} (hx : x ∈ ps.drop a) :
    ∃ t, a ≤ t ∧ t < ps.length ∧ x = ps.getD t 0 := by
  rw [List.mem_drop_iff_getElem] at hx
  obtain ⟨j, hj, rfl⟩ := hx
  have hj' : a + j < ps.length := by omega
  exact ⟨a + j, by omega, hj', by rw [getD_eq_getElem hj']⟩

theorem seg_append_drop (ps : List Nat) (a b : Nat) (hab : a ≤ b) :
    (ps.drop a).take (b - a) ++ ps.drop b = ps.drop a := by
  have : ps.drop b = (ps.drop a).drop (b - a) := by
    rw [List.drop_drop]; congr 1; omega
  rw [this, List.take_append_drop]

theorem getD_map_key (n R : Nat) (ps : List Nat) (t : Nat) (ht : t < ps.length) :
    (ps.map (chunkOf n R)).getD t 0 = chunkOf n R (ps.getD t 0) := by
  rw [getD_eq_getElem (by simpa using ht), getD_eq_getElem ht, List.getElem_map]

section segs
variable {n R : Nat} (hR : R ≤ n) (hn : n ≤ 16) (hR8 : R ≤ 8)
include hR hn hR8

theorem paintSegs_spec (ps : List Nat) (hval : ∀ x ∈ ps, ValidE n x) (rest : List Nat) :
    ∀ (a : Nat) (cs : List VChunk), Shape n R cs → (a :: rest).Pairwise (· < ·) →
      (∀ t ∈ a :: rest, t < ps.length) →
      (∀ t, a < t → t < ps.length → t ∉ a :: rest → isStart (ps.map (chunkOf n R)) t = false) →
      ∃ cs', paintSegs R ps (ps.map (chunkOf n R)).toArray cs (a :: rest) = .ok cs' ∧
        Painted n R cs cs' (ps.drop a) := by
  induction rest with
  | nil =>
    intro a cs hs _ hlt hns
    have ha : a < ps.length := hlt a List.mem_cons_self
    rw [paintSegs]
    apply paintKey_spec hR hn hR8 hs
    · intro e
      have := congrArg List.length e
      rw [List.length_drop] at this
      simp at this; omega
    · intro x hx; exact hval x (List.mem_of_mem_drop hx)
    · intro x hx
      obtain ⟨t, hat, htl, rfl⟩ := mem_drop' hx
      rw [getD_toArray, ← getD_map_key n R ps t htl]
      apply key_const (b := ps.length) (by simp) _ t hat htl
      intro t' h1 h2
      exact hns t' h1 h2 (by simp; omega)
  | cons b rest ih =>
    intro a cs hs hsorted hlt hns
    have ha : a < ps.length := hlt a List.mem_cons_self
    have hb : b < ps.length := hlt b (by simp)
    obtain ⟨hab', hsorted'⟩ := List.pairwise_cons.1 hsorted
    have hab : a < b := hab' b List.mem_cons_self
    rw [paintSegs]
    obtain ⟨cs1, hpk, hp1⟩ := paintKey_spec hR hn hR8 hs ((ps.map (chunkOf n R)).toArray.getD a 0)
      ((ps.drop a).take (b - a))
      (by
        intro e
        have := congrArg List.length e
        rw [List.length_take, List.length_drop] at this
        simp at this; omega)
      (fun x hx => hval x (List.mem_of_mem_drop (List.mem_of_mem_take hx)))
      (by
        intro x hx
        obtain ⟨t, hat, htb, htl, rfl⟩ := mem_seg hx
        rw [getD_toArray, ← getD_map_key n R ps t htl]
        apply key_const (b := b) (by simp; omega) _ t hat htb
        intro t' h1 h2
        apply hns t' h1 (by omega)
        intro hmem
        rcases List.mem_cons.1 hmem with e | hmem
        · omega
        · rcases List.mem_cons.1 hmem with e | hmem
          · omega
          · have := (List.pairwise_cons.1 hsorted').1 t' hmem
            omega)
    rw [hpk]
    obtain ⟨cs', hps, hp2⟩ := ih b cs1 (hp1.shape hs) hsorted' (fun t ht => hlt t (List.mem_cons_of_mem _ ht))
      (by
        intro t h1 h2 hnm
        apply hns t (by omega) h2
        intro hmem
        rcases List.mem_cons.1 hmem with e | hmem
        · omega
        · exact hnm hmem)
    refine ⟨cs', hps, ?_⟩
    have := hp1.trans hp2
    rwa [seg_append_drop ps a b (by omega)] at this

end segs

/-! ### `CayleyGraphChunkedBfs.paint_gray` -/

section paintGray
variable {n R : Nat} (hR : R ≤ n) (hn : n ≤ 16) (hR8 : R ≤ 8)
include hR hn hR8

/-- one vertex: the first branch -/
theorem paintGray_single {cs : List VChunk} (hs : Shape n R cs) (x : Nat) (hx : ValidE n x) :
    ∃ cs', paintGray n R cs [x] = .ok cs' ∧ Painted n R cs cs' [x] := by
  rw [paintGray_eq]
  simp only [List.length_cons, List.length_nil, Nat.zero_add, beq_self_eq_true, if_true, List.getD_cons_zero]
  apply paintKey_spec hR hn hR8 hs
  · simp
  · intro y hy; rw [List.mem_singleton.1 hy]; exact hx
  · intro y hy; rw [List.mem_singleton.1 hy]

omit hR8 in
/-- keys of the sorted distinct vertices are monotone -/
theorem keys_sorted (perms : List Nat) (hval : ∀ x ∈ perms, ValidE n x) :
    ((npUnique perms).map (chunkOf n R)).Pairwise (· ≤ ·) := by
  rw [List.pairwise_map]
  apply (npUnique_sorted perms).imp_of_mem
  intro a b _ hb hab
  exact chunkOf_mono n R hR a b hab (validE_lt hn (hval b ((mem_npUnique perms b).1 hb)))

/-- at least two entries, two different chunks: all vertices get painted -/
theorem paintGray_many {cs : List VChunk} (hs : Shape n R cs) (perms : List Nat) (hlen : perms.length ≠ 1)
    (hval : ∀ x ∈ perms, ValidE n x)
    (hdiff : ∃ x ∈ perms, ∃ y ∈ perms, chunkOf n R x ≠ chunkOf n R y) :
    ∃ cs', paintGray n R cs perms = .ok cs' ∧ Painted n R cs cs' perms := by
  rw [paintGray_eq, if_neg (by simpa using hlen), segLoop_eq, groupStarts_eq]
  have hval' : ∀ x ∈ npUnique perms, ValidE n x := fun x hx => hval x ((mem_npUnique perms x).1 hx)
  have hks := keys_sorted hR hn perms hval
  generalize hps : npUnique perms = ps at hval' hks ⊢
  have hklen : (ps.map (chunkOf n R)).length = ps.length := List.length_map _
  -- there is a group start
  have hex : ∃ t, t < ps.length ∧ isStart (ps.map (chunkOf n R)) t = true := by
    apply Classical.byContradiction
    intro hno
    have hall : ∀ t, t < ps.length → isStart (ps.map (chunkOf n R)) t = false := by
      intro t ht
      cases h : isStart (ps.map (chunkOf n R)) t with
      | false => rfl
      | true => exact absurd ⟨t, ht, h⟩ hno
    have hconst : ∀ t, t < ps.length → (ps.map (chunkOf n R)).getD t 0 = (ps.map (chunkOf n R)).getD 0 0 := by
      intro t ht
      exact key_const (a := 0) (b := ps.length) (by simp) (fun t' _ h2 => hall t' h2) t (Nat.zero_le _) ht
    obtain ⟨x, hx, y, hy, hxy⟩ := hdiff
    have hx' : x ∈ ps := by rw [← hps]; exact (mem_npUnique perms x).2 hx
    have hy' : y ∈ ps := by rw [← hps]; exact (mem_npUnique perms y).2 hy
    obtain ⟨i, hi, rfl⟩ := List.getElem_of_mem hx'
    obtain ⟨j, hj, rfl⟩ := List.getElem_of_mem hy'
    apply hxy
    have h1 := hconst i hi
    have h2 := hconst j hj
    rw [getD_map_key n R ps i hi, getD_eq_getElem hi] at h1
    rw [getD_map_key n R ps j hj, getD_eq_getElem hj] at h2
    rw [h1, h2]
  obtain ⟨t0, ht0, hst0⟩ := hex
  have h0 : isStart (ps.map (chunkOf n R)) 0 = true := isStart_zero_of_exists hks (by rw [hklen]; exact ht0) hst0
  have hpos : 0 < ps.length := by omega
  -- the list of group starts begins with 0
  obtain ⟨m, hm⟩ : ∃ m, ps.length = m + 1 := ⟨ps.length - 1, by omega⟩
  have hfilter : (List.range (ps.map (chunkOf n R)).length).filter (isStart (ps.map (chunkOf n R))) =
      0 :: ((List.range m).map Nat.succ).filter (isStart (ps.map (chunkOf n R))) := by
    rw [hklen, hm, List.range_succ_eq_map, List.filter_cons, if_pos h0]
  have hmem : ∀ t, t ∈ (List.range (ps.map (chunkOf n R)).length).filter (isStart (ps.map (chunkOf n R))) ↔
      t < ps.length ∧ isStart (ps.map (chunkOf n R)) t = true := by
    intro t; rw [List.mem_filter, List.mem_range, hklen]
  have hsorted : ((List.range (ps.map (chunkOf n R)).length).filter (isStart (ps.map (chunkOf n R)))).Pairwise
      (· < ·) := List.pairwise_lt_range.sublist List.filter_sublist
  rw [hfilter] at hmem hsorted ⊢
  obtain ⟨cs', h1, h2⟩ := paintSegs_spec hR hn hR8 ps hval' _ 0 cs hs hsorted (fun t ht => ((hmem t).1 ht).1)
    (by
      intro t _ htl hnm
      cases h : isStart (ps.map (chunkOf n R)) t with
      | false => rfl
      | true => exact absurd ((hmem t).2 ⟨htl, h⟩) hnm)
  refine ⟨cs', h1, ?_⟩
  rw [List.drop_zero] at h2
  apply h2.congr
  intro x
  rw [← hps]; exact mem_npUnique perms x

omit hR hn hR8 in
/-- not exactly one entry and all of them in one chunk: `group_starts` is empty and `group_starts[-1]` raises -/
theorem paintGray_error (cs : List VChunk) (perms : List Nat) (hlen : perms.length ≠ 1)
    (hsame : ∀ x ∈ perms, ∀ y ∈ perms, chunkOf n R x = chunkOf n R y) :
    paintGray n R cs perms = .error .groupStartsEmpty := by
  rw [paintGray_eq, if_neg (by simpa using hlen), segLoop_eq, groupStarts_eq]
  generalize hps : npUnique perms = ps
  have hsame' : ∀ i j, i < ps.length → j < ps.length →
      (ps.map (chunkOf n R)).getD i 0 = (ps.map (chunkOf n R)).getD j 0 := by
    intro i j hi hj
    rw [getD_map_key n R ps i hi, getD_map_key n R ps j hj, getD_eq_getElem hi, getD_eq_getElem hj]
    apply hsame
    · rw [← mem_npUnique, hps]; exact List.getElem_mem hi
    · rw [← mem_npUnique, hps]; exact List.getElem_mem hj
  have hklen : (ps.map (chunkOf n R)).length = ps.length := List.length_map _
  have hnil : (List.range (ps.map (chunkOf n R)).length).filter (isStart (ps.map (chunkOf n R))) = [] := by
    rw [List.filter_eq_nil_iff]
    intro t ht
    have htl : t < ps.length := by rw [← hklen]; exact List.mem_range.1 ht
    have hne : ps.map (chunkOf n R) ≠ [] := by
      intro e; rw [e] at hklen; simp at hklen; omega
    unfold isStart
    cases t with
    | zero =>
      rw [roll1_getD_zero _ hne, hsame' _ 0 (by rw [hklen]; omega) htl]; simp
    | succ t =>
      rw [roll1_getD_succ _ t (by rw [hklen]; exact htl), hsame' t (t + 1) (by omega) htl]; simp
  rw [hnil]; rfl

end paintGray

end Cv.Bitmask
