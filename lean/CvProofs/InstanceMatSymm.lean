/-
  The mathematical matrix graph `matNb` (`CvModel/InstanceMat.lean`) of a generator list that is closed under inverses
  modulo `m` is symmetric on the orbit of reduced `n×k` start states: this is the hypothesis `hic` of `mat_bfs_spec`,
  derived here from a finite, decidable condition on the generators alone (`G' · G ≡ I (mod m)`), through
  associativity of the list-level product, the unit law and the compatibility of the product with residues.
  Core Lean only.
-/
import CvProofs.InstanceMat
import CvProofs.InstanceMatExample
namespace Cv.InstanceMat
open Cv

/-- the identity matrix as a row-major list -/
def eyeInt (n : Nat) : List Int := (List.range (n * n)).map fun idx => if idx / n = idx % n then 1 else 0

/-! ### finite sums -/

/-- `F 0 + … + F (n-1)` -/
def sumTo : Nat → (Nat → Int) → Int
  | 0, _ => 0
  | n + 1, F => sumTo n F + F n

theorem sumTo_succ (n : Nat) (F : Nat → Int) : sumTo (n + 1) F = sumTo n F + F n := rfl

theorem foldl_range_eq_sumTo (F : Nat → Int) (n : Nat) :
    (List.range n).foldl (fun acc j => acc + F j) 0 = sumTo n F := by
  induction n with
  | zero => rfl
  | succ n ih =>
    rw [List.range_succ, List.foldl_append, ih]
    rfl

theorem sumTo_congr (n : Nat) (F G : Nat → Int) (h : ∀ j, j < n → F j = G j) : sumTo n F = sumTo n G := by
  induction n with
  | zero => rfl
  | succ n ih =>
    rw [sumTo_succ, sumTo_succ, ih (fun j hj => h j (by omega)), h n (by omega)]

theorem sumTo_const_zero (n : Nat) : sumTo n (fun _ => 0) = 0 := by
  induction n with
  | zero => rfl
  | succ n ih => rw [sumTo_succ, ih]; rfl

theorem sumTo_add (n : Nat) (F G : Nat → Int) : sumTo n (fun j => F j + G j) = sumTo n F + sumTo n G := by
  induction n with
  | zero => rfl
  | succ n ih =>
    rw [sumTo_succ, sumTo_succ, sumTo_succ, ih]
    omega

theorem mul_sumTo (a : Int) (n : Nat) (F : Nat → Int) : a * sumTo n F = sumTo n (fun j => a * F j) := by
  induction n with
  | zero => exact Int.mul_zero a
  | succ n ih => rw [sumTo_succ, sumTo_succ, Int.mul_add, ih]

theorem sumTo_mul (a : Int) (n : Nat) (F : Nat → Int) : sumTo n F * a = sumTo n (fun j => F j * a) := by
  induction n with
  | zero => exact Int.zero_mul a
  | succ n ih => rw [sumTo_succ, sumTo_succ, Int.add_mul, ih]

/-- exchange of two finite sums -/
theorem sumTo_comm (n p : Nat) (F : Nat → Nat → Int) :
    sumTo n (fun j => sumTo p (fun i => F j i)) = sumTo p (fun i => sumTo n (fun j => F j i)) := by
  induction n with
  | zero => exact (sumTo_const_zero p).symm
  | succ n ih =>
    have h : sumTo p (fun i => sumTo (n + 1) (fun j => F j i)) =
        sumTo p (fun i => sumTo n (fun j => F j i)) + sumTo p (fun i => F n i) :=
      sumTo_add p (fun i => sumTo n (fun j => F j i)) (fun i => F n i)
    rw [h, sumTo_succ, ih]

/-- a sum against a Kronecker delta -/
theorem sumTo_ite (n r : Nat) (F : Nat → Int) :
    sumTo n (fun j => if r = j then F j else 0) = if r < n then F r else 0 := by
  induction n with
  | zero => rfl
  | succ n ih =>
    rw [sumTo_succ, ih]
    by_cases h1 : r < n
    · rw [if_pos h1, if_neg (by omega), if_pos (by omega)]; omega
    · by_cases h2 : r = n
      · subst h2
        rw [if_neg h1, if_pos rfl, if_pos (by omega)]; omega
      · rw [if_neg h1, if_neg h2, if_neg (by omega)]; rfl

theorem sumTo_emod_congr (m : Int) (n : Nat) (F G : Nat → Int) (h : ∀ j, j < n → F j % m = G j % m) :
    sumTo n F % m = sumTo n G % m := by
  induction n with
  | zero => rfl
  | succ n ih =>
    rw [sumTo_succ, sumTo_succ, Int.add_emod, ih (fun j hj => h j (by omega)), h n (by omega), ← Int.add_emod]

/-! ### index arithmetic -/

theorem idx_lt (j c n k : Nat) (hj : j < n) (hc : c < k) : j * k + c < n * k :=
  calc j * k + c < j * k + k := by omega
    _ = (j + 1) * k := (Nat.succ_mul j k).symm
    _ ≤ n * k := Nat.mul_le_mul_right k hj

theorem idx_div (j c k : Nat) (hc : c < k) : (j * k + c) / k = j := by
  rw [Nat.mul_comm, Nat.mul_add_div (by omega), Nat.div_eq_of_lt hc]; rfl

theorem idx_mod (j c k : Nat) (hc : c < k) : (j * k + c) % k = c := by
  rw [Nat.mul_comm, Nat.mul_add_mod, Nat.mod_eq_of_lt hc]

theorem idx_row (idx n k : Nat) (h : idx < n * k) : idx / k < n ∧ idx % k < k := by
  have hk : 0 < k := by
    rcases Nat.eq_zero_or_pos k with h0 | h0
    · subst h0; simp at h
    · exact h0
  exact ⟨Nat.div_lt_of_lt_mul (by rw [Nat.mul_comm]; exact h), Nat.mod_lt _ hk⟩

/-! ### entries of the product -/

theorem matProd_eq_map (n k : Nat) (M S : List Int) :
    matProd n k M S = (List.range (n * k)).map fun idx =>
      sumTo n fun j => M.getD (idx / k * n + j) 0 * S.getD (j * k + idx % k) 0 := by
  unfold matProd
  apply List.map_congr_left
  intro idx _
  exact foldl_range_eq_sumTo _ n

theorem matProd_length (n k : Nat) (M S : List Int) : (matProd n k M S).length = n * k := by
  unfold matProd
  rw [List.length_map, List.length_range]

theorem matProd_getD (n k : Nat) (M S : List Int) (idx : Nat) (h : idx < n * k) :
    (matProd n k M S).getD idx 0 =
      sumTo n fun j => M.getD (idx / k * n + j) 0 * S.getD (j * k + idx % k) 0 := by
  rw [matProd_eq_map, List.getD_eq_getElem?_getD, List.getElem?_map, List.getElem?_range h]
  rfl

/-- entry `(j, c)` of the product -/
theorem matProd_getD' (n k : Nat) (M S : List Int) (j c : Nat) (hj : j < n) (hc : c < k) :
    (matProd n k M S).getD (j * k + c) 0 = sumTo n fun i => M.getD (j * n + i) 0 * S.getD (i * k + c) 0 := by
  rw [matProd_getD n k M S _ (idx_lt j c n k hj hc), idx_div j c k hc, idx_mod j c k hc]

/-- associativity of the list-level product (no length hypotheses: every index that is read on either side is in
range) -/
theorem matProd_assoc (n k : Nat) (A B S : List Int) :
    matProd n k A (matProd n k B S) = matProd n k (matProd n n A B) S := by
  rw [matProd_eq_map n k A (matProd n k B S), matProd_eq_map n k (matProd n n A B) S]
  apply List.map_congr_left
  intro idx hidx
  obtain ⟨hr, hc⟩ := idx_row idx n k (List.mem_range.1 hidx)
  calc sumTo n (fun j => A.getD (idx / k * n + j) 0 * (matProd n k B S).getD (j * k + idx % k) 0)
      = sumTo n (fun j => sumTo n (fun i =>
          A.getD (idx / k * n + j) 0 * (B.getD (j * n + i) 0 * S.getD (i * k + idx % k) 0))) := by
        apply sumTo_congr
        intro j hj
        rw [matProd_getD' n k B S j (idx % k) hj hc, mul_sumTo]
    _ = sumTo n (fun i => sumTo n (fun j =>
          A.getD (idx / k * n + j) 0 * (B.getD (j * n + i) 0 * S.getD (i * k + idx % k) 0))) :=
        sumTo_comm n n _
    _ = sumTo n (fun i => (matProd n n A B).getD (idx / k * n + i) 0 * S.getD (i * k + idx % k) 0) := by
        apply sumTo_congr
        intro i hi
        rw [matProd_getD' n n A B (idx / k) i hr hi, sumTo_mul]
        apply sumTo_congr
        intro j _
        exact (Int.mul_assoc _ _ _).symm

theorem eyeInt_getD (n r j : Nat) (hr : r < n) (hj : j < n) :
    (eyeInt n).getD (r * n + j) 0 = if r = j then 1 else 0 := by
  unfold eyeInt
  rw [List.getD_eq_getElem?_getD, List.getElem?_map, List.getElem?_range (idx_lt r j n n hr hj)]
  show (if (r * n + j) / n = (r * n + j) % n then (1 : Int) else 0) = _
  rw [idx_div r j n hj, idx_mod r j n hj]

theorem matProd_eye (n k : Nat) (S : List Int) (hS : S.length = n * k) : matProd n k (eyeInt n) S = S := by
  rw [matProd_eq_map, ← hS]
  have h := map_range_getD' S (0 : Int) id
  rw [List.map_id] at h
  refine Eq.trans ?_ h
  apply List.map_congr_left
  intro idx hidx
  rw [hS] at hidx
  obtain ⟨hr, hc⟩ := idx_row idx n k (List.mem_range.1 hidx)
  calc sumTo n (fun j => (eyeInt n).getD (idx / k * n + j) 0 * S.getD (j * k + idx % k) 0)
      = sumTo n (fun j => if idx / k = j then S.getD (j * k + idx % k) 0 else 0) := by
        apply sumTo_congr
        intro j hj
        rw [eyeInt_getD n (idx / k) j hr hj]
        split
        · exact Int.one_mul _
        · exact Int.zero_mul _
    _ = S.getD (idx / k * k + idx % k) 0 := by
        rw [sumTo_ite n (idx / k) (fun j => S.getD (j * k + idx % k) 0), if_pos hr]
    _ = id (S.getD idx 0) := by rw [Nat.div_add_mod']; rfl

/-! ### residues -/

theorem getD_map_emod (m : Int) (l : List Int) (i : Nat) : (l.map (· % m)).getD i 0 = l.getD i 0 % m := by
  rw [List.getD_eq_getElem?_getD, List.getD_eq_getElem?_getD, List.getElem?_map]
  cases l[i]? with
  | none => exact (Int.zero_emod m).symm
  | some a => rfl

theorem getD_emod_of_map_eq (m : Int) (A A' : List Int) (h : A.map (· % m) = A'.map (· % m)) (i : Nat) :
    A.getD i 0 % m = A'.getD i 0 % m := by
  rw [← getD_map_emod, h, getD_map_emod]

theorem map_emod_emod (m : Int) (l : List Int) : (l.map (· % m)).map (· % m) = l.map (· % m) := by
  rw [List.map_map]
  apply List.map_congr_left
  intro x _
  exact Int.emod_emod_of_dvd x (Int.dvd_refl m)

/-- the residues of the product only depend on the residues of the two factors -/
theorem matProd_congr_mod (n k : Nat) (m : Int) (A A' S S' : List Int)
    (hA : A.map (· % m) = A'.map (· % m)) (hS : S.map (· % m) = S'.map (· % m)) :
    (matProd n k A S).map (· % m) = (matProd n k A' S').map (· % m) := by
  rw [matProd_eq_map n k A S, matProd_eq_map n k A' S', List.map_map, List.map_map]
  apply List.map_congr_left
  intro idx _
  show sumTo n _ % m = sumTo n _ % m
  apply sumTo_emod_congr
  intro j _
  show A.getD (idx / k * n + j) 0 * S.getD (j * k + idx % k) 0 % m =
    A'.getD (idx / k * n + j) 0 * S'.getD (j * k + idx % k) 0 % m
  rw [Int.mul_emod, getD_emod_of_map_eq m A A' hA, getD_emod_of_map_eq m S S' hS, ← Int.mul_emod]

theorem matProd_mod_left (n k : Nat) (m : Int) (A S : List Int) :
    (matProd n k (A.map (· % m)) S).map (· % m) = (matProd n k A S).map (· % m) :=
  matProd_congr_mod n k m _ _ _ _ (map_emod_emod m A) rfl

theorem matProd_mod_right (n k : Nat) (m : Int) (A S : List Int) :
    (matProd n k A (S.map (· % m))).map (· % m) = (matProd n k A S).map (· % m) :=
  matProd_congr_mod n k m _ _ _ _ rfl (map_emod_emod m S)

theorem map_emod_of_reduced (m : Int) (S : List Int) (hred : ∀ e ∈ S, 0 ≤ e ∧ e < m) : S.map (· % m) = S := by
  conv => rhs; rw [← List.map_id S]
  apply List.map_congr_left
  intro e he
  exact Int.emod_eq_of_lt (hred e he).1 (hred e he).2

/-! ### the action of a generator and of its inverse modulo `m` -/

theorem matApply_pos (G : MatGen) (n k : Nat) (S : List Int) (h : G.modulo ≠ 0) :
    matApply G n k S = (matProd n k G.matrix S).map (· % (G.modulo : Int)) := if_neg h

/-- the image of a state has length `n*k` and reduced entries -/
theorem matApply_reduced (G : MatGen) (n k : Nat) (S : List Int) (h : G.modulo ≠ 0) :
    (matApply G n k S).length = n * k ∧ ∀ e ∈ matApply G n k S, 0 ≤ e ∧ e < (G.modulo : Int) := by
  rw [matApply_pos G n k S h]
  refine ⟨by rw [List.length_map, matProd_length], ?_⟩
  intro e he
  obtain ⟨x, -, rfl⟩ := List.mem_map.1 he
  exact ⟨Int.emod_nonneg _ (by omega), Int.emod_lt_of_pos _ (by omega)⟩

theorem matApply_inverse (G G' : MatGen) (n k m : Nat) (hm : m ≠ 0) (hG : G.modulo = m) (hG' : G'.modulo = m)
    (hinv : (matProd n n G'.matrix G.matrix).map (· % (m : Int)) = (eyeInt n).map (· % (m : Int)))
    (S : List Int) (hS : S.length = n * k) (hred : ∀ e ∈ S, 0 ≤ e ∧ e < (m : Int)) :
    matApply G' n k (matApply G n k S) = S := by
  rw [matApply_pos G n k S (by omega), matApply_pos G' n k _ (by omega), hG, hG', matProd_mod_right,
    matProd_assoc, matProd_congr_mod n k (m : Int) _ (eyeInt n) S S hinv rfl, matProd_eye n k S hS]
  exact map_emod_of_reduced (m : Int) S hred

/-! ### the graph -/

/-- states of the orbit have length `n*k` and reduced entries -/
theorem matNb_invariant (gens : List MatGen) (n k m : Nat) (hm : m ≠ 0) (hmod : ∀ G ∈ gens, G.modulo = m)
    (starts : List (List Int)) (hstarts : ∀ S ∈ starts, S.length = n * k ∧ ∀ e ∈ S, 0 ≤ e ∧ e < (m : Int)) :
    ∀ S, InOrbit (matNb gens n k) starts S → S.length = n * k ∧ ∀ e ∈ S, 0 ≤ e ∧ e < (m : Int) := by
  apply Transport.inOrbit_invariant (matNb gens n k) starts
    (fun S => S.length = n * k ∧ ∀ e ∈ S, 0 ≤ e ∧ e < (m : Int)) hstarts
  intro S T _ hT
  obtain ⟨G, hGm, rfl⟩ := List.mem_map.1 hT
  have h := matApply_reduced G n k S (by rw [hmod G hGm]; exact hm)
  rw [hmod G hGm] at h
  exact h

/-- a generator list closed under inverses modulo `m` gives a graph that is symmetric on the orbit of reduced
`n×k` start states -/
theorem matNb_symmOnOrbit (gens : List MatGen) (n k m : Nat) (hm : m ≠ 0) (hmod : ∀ G ∈ gens, G.modulo = m)
    (hinv : ∀ G ∈ gens, ∃ G' ∈ gens,
      (matProd n n G'.matrix G.matrix).map (· % (m : Int)) = (eyeInt n).map (· % (m : Int)))
    (starts : List (List Int)) (hstarts : ∀ S ∈ starts, S.length = n * k ∧ ∀ e ∈ S, 0 ≤ e ∧ e < (m : Int)) :
    ∀ S T, InOrbit (matNb gens n k) starts S → T ∈ matNb gens n k S → S ∈ matNb gens n k T := by
  intro S T hS hT
  obtain ⟨hlen, hred⟩ := matNb_invariant gens n k m hm hmod starts hstarts S hS
  obtain ⟨G, hGm, rfl⟩ := List.mem_map.1 hT
  obtain ⟨G', hG'm, hGG'⟩ := hinv G hGm
  exact List.mem_map.2 ⟨G', hG'm,
    matApply_inverse G G' n k m hm (hmod G hGm) (hmod G' hG'm) hGG' S hlen hred⟩

/-! ### non-vacuity: the Heisenberg group modulo 3 -/

namespace Example

/-- the generator list is closed under inverses modulo 3: a finite check on the four generators -/
theorem heis3_invClosed : ∀ G ∈ heis3, ∃ G' ∈ heis3,
    (matProd 3 3 G'.matrix G.matrix).map (· % ((3 : Nat) : Int)) = (eyeInt 3).map (· % ((3 : Nat) : Int)) := by
  decide +kernel

/-- the symmetry of the Heisenberg graph on its orbit, from the general theorem (no enumeration of the orbit) -/
theorem heis3_symm' : ∀ s t, InOrbit (matNb heis3 3 3) [eye3] s → t ∈ matNb heis3 3 3 s →
    s ∈ matNb heis3 3 3 t :=
  matNb_symmOnOrbit heis3 3 3 3 (by decide) (by decide) heis3_invClosed [eye3] (by decide +kernel)

/-- the unit matrix of the example is `eyeInt 3` -/
example : eyeInt 3 = eye3 := by decide +kernel

/-- inverse-closedness is needed: without `x⁻¹`, `y⁻¹` the graph is not symmetric at the start state -/
example : ¬ (∀ t ∈ matNb [hx, hy] 3 3 eye3, eye3 ∈ matNb [hx, hy] 3 3 t) := by decide +kernel

end Example

end Cv.InstanceMat
