/-
  Order of the generators: the index lists of `CvModel/Families.lean` are strictly increasing in the
  lexicographic order (hence duplicate-free), i.e. the generators of the pair/triple/quadruple-indexed
  families appear in lexicographic order of their indices, each index exactly once.  Core Lean only.
-/
import CvProofs.FamiliesBase
namespace Cv.Families

/-- lexicographic order on pairs, triples (`Nat × Nat × Nat`) and quadruples -/
def lex2 (a b : Nat × Nat) : Prop := a.1 < b.1 ∨ (a.1 = b.1 ∧ a.2 < b.2)
def lex3 (a b : Nat × Nat × Nat) : Prop := a.1 < b.1 ∨ (a.1 = b.1 ∧ lex2 a.2 b.2)
def lex4 (a b : Nat × Nat × Nat × Nat) : Prop := a.1 < b.1 ∨ (a.1 = b.1 ∧ lex3 a.2 b.2)

theorem lex2_irrefl (a : Nat × Nat) : ¬ lex2 a a := by unfold lex2; omega
theorem lex3_irrefl (a : Nat × Nat × Nat) : ¬ lex3 a a := by
  unfold lex3; intro h; rcases h with h | ⟨_, h⟩
  · omega
  · exact lex2_irrefl _ h
theorem lex4_irrefl (a : Nat × Nat × Nat × Nat) : ¬ lex4 a a := by
  unfold lex4; intro h; rcases h with h | ⟨_, h⟩
  · omega
  · exact lex3_irrefl _ h

theorem nodup_of_pairwise_irrefl {α : Type} {R : α → α → Prop} (hirr : ∀ a, ¬ R a a) {l : List α}
    (h : l.Pairwise R) : l.Nodup := by
  rw [List.nodup_iff_pairwise_ne]
  refine h.imp ?_
  intro a b hr e
  subst e
  exact hirr a hr

/-- a `flatMap` over an increasing list of keys whose blocks are sorted and carry their key -/
theorem pairwise_flatMap_keys {β : Type} (keys : List Nat) (f : Nat → List β) (R : β → β → Prop)
    (hk : keys.Pairwise (· < ·)) (h1 : ∀ i ∈ keys, (f i).Pairwise R)
    (h2 : ∀ i i', i < i' → ∀ x ∈ f i, ∀ y ∈ f i', R x y) : (keys.flatMap f).Pairwise R := by
  rw [List.pairwise_flatMap]
  exact ⟨h1, hk.imp (fun h x hx y hy => h2 _ _ h x hx y hy)⟩

theorem range'_sorted (s len : Nat) : (List.range' s len).Pairwise (· < ·) :=
  List.pairwise_lt_range'

theorem pairsLt_sorted (n : Nat) : (pairsLt n).Pairwise lex2 := by
  unfold pairsLt
  apply pairwise_flatMap_keys _ _ _ List.pairwise_lt_range
  · intro i _
    rw [List.pairwise_map]
    exact (range'_sorted _ _).imp (fun h => Or.inr ⟨rfl, h⟩)
  · intro i i' hii x hx y hy
    obtain ⟨_, _, rfl⟩ := List.mem_map.1 hx
    obtain ⟨_, _, rfl⟩ := List.mem_map.1 hy
    exact Or.inl hii

theorem pairsLe_sorted (n : Nat) : (pairsLe n).Pairwise lex2 := by
  unfold pairsLe
  apply pairwise_flatMap_keys _ _ _ List.pairwise_lt_range
  · intro i _
    rw [List.pairwise_map]
    exact (range'_sorted _ _).imp (fun h => Or.inr ⟨rfl, h⟩)
  · intro i i' hii x hx y hy
    obtain ⟨_, _, rfl⟩ := List.mem_map.1 hx
    obtain ⟨_, _, rfl⟩ := List.mem_map.1 hy
    exact Or.inl hii

theorem pairsSplit_sorted (n k : Nat) : (pairsSplit n k).Pairwise lex2 := by
  unfold pairsSplit
  apply pairwise_flatMap_keys _ _ _ List.pairwise_lt_range
  · intro i _
    rw [List.pairwise_map]
    exact (range'_sorted _ _).imp (fun h => Or.inr ⟨rfl, h⟩)
  · intro i i' hii x hx y hy
    obtain ⟨_, _, rfl⟩ := List.mem_map.1 hx
    obtain ⟨_, _, rfl⟩ := List.mem_map.1 hy
    exact Or.inl hii

theorem pairsNe1_sorted (n : Nat) : (pairsNe1 n).Pairwise lex2 := by
  unfold pairsNe1
  apply pairwise_flatMap_keys _ _ _ (range'_sorted _ _)
  · intro i _
    rw [List.pairwise_map]
    exact ((range'_sorted _ _).filter _).imp (fun h => Or.inr ⟨rfl, h⟩)
  · intro i i' hii x hx y hy
    obtain ⟨_, _, rfl⟩ := List.mem_map.1 hx
    obtain ⟨_, _, rfl⟩ := List.mem_map.1 hy
    exact Or.inl hii

/-- a `flatMap` over a lexicographically sorted list of pair keys -/
theorem pairwise_flatMap_keys2 {β : Type} (keys : List (Nat × Nat)) (f : Nat × Nat → List β)
    (R : β → β → Prop) (hk : keys.Pairwise lex2) (h1 : ∀ i ∈ keys, (f i).Pairwise R)
    (h2 : ∀ i i', lex2 i i' → ∀ x ∈ f i, ∀ y ∈ f i', R x y) : (keys.flatMap f).Pairwise R := by
  rw [List.pairwise_flatMap]
  exact ⟨h1, hk.imp (fun h x hx y hy => h2 _ _ h x hx y hy)⟩

theorem triplesT_sorted (n : Nat) : (triplesT n).Pairwise lex3 := by
  unfold triplesT
  apply pairwise_flatMap_keys2 _ _ _ (pairsLt_sorted n)
  · intro ij _
    rw [List.pairwise_map]
    exact (range'_sorted _ _).imp (fun h => Or.inr ⟨rfl, Or.inr ⟨rfl, h⟩⟩)
  · intro ij ij' hlt x hx y hy
    obtain ⟨_, _, rfl⟩ := List.mem_map.1 hx
    obtain ⟨_, _, rfl⟩ := List.mem_map.1 hy
    rcases hlt with h | ⟨h1, h2⟩
    · exact Or.inl h
    · exact Or.inr ⟨h1, Or.inl h2⟩

theorem triplesMinFirst_sorted (n : Nat) : (triplesMinFirst n).Pairwise lex3 := by
  unfold triplesMinFirst
  apply pairwise_flatMap_keys2 _ _ _ (pairsLt_sorted n)
  · intro ab _
    rw [List.pairwise_map]
    exact ((range'_sorted _ _).filter _).imp (fun h => Or.inr ⟨rfl, Or.inr ⟨rfl, h⟩⟩)
  · intro ab ab' hlt x hx y hy
    obtain ⟨_, _, rfl⟩ := List.mem_map.1 hx
    obtain ⟨_, _, rfl⟩ := List.mem_map.1 hy
    rcases hlt with h | ⟨h1, h2⟩
    · exact Or.inl h
    · exact Or.inr ⟨h1, Or.inl h2⟩

theorem quadsI_sorted (n : Nat) : (quadsI n).Pairwise lex4 := by
  unfold quadsI
  rw [List.pairwise_flatMap]
  constructor
  · intro t _
    rw [List.pairwise_map]
    exact (range'_sorted _ _).imp (fun h => Or.inr ⟨rfl, Or.inr ⟨rfl, Or.inr ⟨rfl, h⟩⟩⟩)
  · apply (triplesT_sorted n).imp
    intro t t' hlt x hx y hy
    obtain ⟨_, _, rfl⟩ := List.mem_map.1 hx
    obtain ⟨_, _, rfl⟩ := List.mem_map.1 hy
    rcases hlt with h | ⟨h1, h | ⟨h2, h3⟩⟩
    · exact Or.inl h
    · exact Or.inr ⟨h1, Or.inl h⟩
    · exact Or.inr ⟨h1, Or.inr ⟨h2, Or.inl h3⟩⟩

/-- summary: all index lists are strictly sorted, hence duplicate-free -/
theorem index_lists_sorted (n k : Nat) :
    (pairsLt n).Pairwise lex2 ∧ (pairsLe n).Pairwise lex2 ∧ (pairsSplit n k).Pairwise lex2 ∧
    (pairsNe1 n).Pairwise lex2 ∧ (triplesT n).Pairwise lex3 ∧ (triplesMinFirst n).Pairwise lex3 ∧
    (quadsI n).Pairwise lex4 :=
  ⟨pairsLt_sorted n, pairsLe_sorted n, pairsSplit_sorted n k, pairsNe1_sorted n, triplesT_sorted n,
    triplesMinFirst_sorted n, quadsI_sorted n⟩

theorem index_lists_nodup (n k : Nat) :
    (pairsLt n).Nodup ∧ (pairsLe n).Nodup ∧ (pairsSplit n k).Nodup ∧ (pairsNe1 n).Nodup ∧
    (triplesT n).Nodup ∧ (triplesMinFirst n).Nodup ∧ (quadsI n).Nodup :=
  ⟨nodup_of_pairwise_irrefl lex2_irrefl (pairsLt_sorted n),
   nodup_of_pairwise_irrefl lex2_irrefl (pairsLe_sorted n),
   nodup_of_pairwise_irrefl lex2_irrefl (pairsSplit_sorted n k),
   nodup_of_pairwise_irrefl lex2_irrefl (pairsNe1_sorted n),
   nodup_of_pairwise_irrefl lex3_irrefl (triplesT_sorted n),
   nodup_of_pairwise_irrefl lex3_irrefl (triplesMinFirst_sorted n),
   nodup_of_pairwise_irrefl lex4_irrefl (quadsI_sorted n)⟩

end Cv.Families
