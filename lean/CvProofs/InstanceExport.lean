/-
  End-to-end instances for early-stopped BFS (C09e), the explicit-graph export (C08e) and the other engines (C11x):
  the generic theorems of `CvProofs/Bfs.lean`, `Export.lean`, `Paths.lean` (interactive BFS), `Engines.lean` (NumPy engine)
  under ORBIT-RESTRICTED hypotheses, then for the library's graphs (`encodedPermGraph`, `encodedPermGraph1d`,
  `plainPermGraph`) with every conclusion stated on the MATHEMATICAL graph `permGraphNb perms` of decoded states.
  Core Lean only.
-/
import CvProofs.Transport
import CvProofs.Instance
import CvProofs.InstancePaths
import CvProofs.Export
import CvProofs.Paths
import CvProofs.Engines
import CvProofs.Restrict
namespace Cv.InstX
open Cv Cv.Instance Cv.Codec

/-! ## 1. the early-stop theorems under orbit-restricted hypotheses -/

section O
variable {α : Type} {g : Graph α} {S : List α}

theorem orbitGraph_hash (g : Graph α) (S : List α) : (orbitGraph g S).hash = g.hash := rfl
theorem orbitGraph_nGens (g : Graph α) (S : List α) : (orbitGraph g S).nGens = g.nGens := rfl

theorem O_completed_sound (h : BfsHypO g S) (c : BfsCfg α) (hc : (bfs g c S).completed = true) :
    ∀ x, ¬ DistLayer g.nb S (bfs g c S).layerSizes.length x := by
  have := BfsThm.completed_sound (bfsHyp_orbitGraph h) c
  simp only [bfs_orbitGraph, distLayer_orbitGraph] at this
  exact this hc

theorem O_stopped_by_rule (h : BfsHypO g S) (c : BfsCfg α) (hc : (bfs g c S).completed = false) :
    (bfs g c S).layerSizes.length = c.maxDiameter + 1 ∨
    (∃ n, (bfs g c S).layerSizes.getLast? = some n ∧ c.maxExplore ≤ n ∧ 2 ≤ (bfs g c S).layerSizes.length) ∨
    (∃ f L, c.stop = some f ∧ IsLayer g S ((bfs g c S).layerSizes.length - 1) L ∧
        f ((bfs g c S).layerSizes.length - 1) L = true) := by
  have := BfsThm.stopped_by_rule (bfsHyp_orbitGraph h) c
  simp only [bfs_orbitGraph, isLayer_orbitGraph] at this
  exact this hc

theorem O_no_early_stop (h : BfsHypO g S) (c : BfsCfg α) (i : Nat) (hi0 : 0 < i)
    (hi : i + 1 < (bfs g c S).layerSizes.length) (n : Nat) (hn : (bfs g c S).layerSizes[i]? = some n) :
    n < c.maxExplore := by
  have := BfsThm.no_early_stop (bfsHyp_orbitGraph h) c i hi0
  simp only [bfs_orbitGraph] at this
  exact this hi n hn

theorem O_stored_sound (h : BfsHypO g S) (c : BfsCfg α) (i : Nat) (L : List α)
    (hm : (i, L) ∈ (bfs g c S).layers) : IsLayer g S i L := by
  have := BfsThm.stored_sound (bfsHyp_orbitGraph h) c i L
  simp only [bfs_orbitGraph, isLayer_orbitGraph] at this
  exact this hm

theorem O_stored_iff (h : BfsHypO g S) (c : BfsCfg α) (i : Nat) :
    (∃ L, (i, L) ∈ (bfs g c S).layers) ↔
      ∃ n, (bfs g c S).layerSizes[i]? = some n ∧
        (i = 0 ∨ n ≤ c.storeLimit ∨ ((bfs g c S).completed = true ∧ i + 1 = (bfs g c S).layerSizes.length)) := by
  have := BfsThm.stored_iff (bfsHyp_orbitGraph h) c i
  simp only [bfs_orbitGraph] at this
  exact this

theorem O_hashes_rule (h : BfsHypO g S) (c : BfsCfg α) :
    (c.returnHashes = false → (bfs g c S).hashes = []) ∧
    (c.returnHashes = true → (bfs g c S).hashes.length = (bfs g c S).layerSizes.length ∧
      ∀ i H, (bfs g c S).hashes[i]? = some H →
        H.Pairwise (· < ·) ∧ ∃ L, IsLayer g S i L ∧ H.Perm (L.map g.hash)) := by
  have := BfsThm.hashes_rule (bfsHyp_orbitGraph h) c
  simp only [bfs_orbitGraph, isLayer_orbitGraph, orbitGraph_hash] at this
  exact this

theorem O_callback_trace (h : BfsHypO g S) (c : BfsCfg α) :
    (c.stop = none → (bfs g c S).cbTrace = []) ∧
    (∀ f, c.stop = some f → ∃ m, (bfs g c S).cbTrace = (List.range m).map (· + 1) ∧
        (m + 1 = (bfs g c S).layerSizes.length ∨
         (m + 2 = (bfs g c S).layerSizes.length ∧
            ∃ n, (bfs g c S).layerSizes.getLast? = some n ∧ c.maxExplore ≤ n))) := by
  have := BfsThm.callback_trace (bfsHyp_orbitGraph h) c
  simp only [bfs_orbitGraph] at this
  exact this

end O

/-! ## 2. early-stopped BFS on the encoded graph (C09e) -/

section enc
variable (w n : Nat) (hw : 1 ≤ w) (hw' : w ≤ 64) (perms : List (List Nat))
  (hp : ∀ p ∈ perms, Cv.Perm.IsPermOf n p) (hash : List W → Int) (ic : Bool) (batch : Nat)
  (starts : List (List Nat)) (hs : ∀ s ∈ starts, encodable w n s = true)

local notation "G" => encodedPermGraph w n perms hash ic batch
local notation "E" => starts.map (encode w n)
local notation "Math" => permGraphNb perms

omit perms hash ic batch starts hs in
include hw hw' in
theorem encode_decode_valid (x : List W) (hx : Valid w n x) : encode w n (decode w n x) = x := by
  obtain ⟨s, hs, rfl⟩ := hx
  rw [decode_encode w n hw hw' s hs]

include hw hw' hp hs

/-- rows of an enumeration of an encoded distance class are encodings -/
theorem valid_of_isLayer (i : Nat) (L : List (List W)) (hL : IsLayer G E i L) : ∀ x ∈ L, Valid w n x :=
  fun x hx => valid_of_inOrbit w n hw hw' perms hp hash ic batch starts hs x ((hL.2 x).1 hx).inOrbit

/-- an enumeration of an encoded class gives an enumeration of the mathematical class of the same length, and the hashes
of the rows are the hashes of the encodings of the mathematical states -/
theorem math_layer_of_isLayer (i : Nat) (L : List (List W)) (hL : IsLayer G E i L) :
    ∃ M : List (List Nat), M.Nodup ∧ (∀ s, s ∈ M ↔ DistLayer Math starts i s) ∧ M.length = L.length ∧
      M = L.map (decode w n) ∧ M.map (fun s => hash (encode w n s)) = L.map hash := by
  obtain ⟨h1, h2⟩ := encoded_layer_map w n hw hw' perms hp hash ic batch starts hs i L hL
  refine ⟨L.map (decode w n), h1, h2, by simp, rfl, ?_⟩
  rw [List.map_map]
  apply List.map_congr_left
  intro x hx
  simp only [Function.comp]
  rw [encode_decode_valid w n hw hw' x (valid_of_isLayer w n hw hw' perms hp hash ic batch starts hs i L hL x hx)]

variable (hinj : ∀ x y, Valid w n x → Valid w n y → hash x = hash y → x = y)
  (hic : ic = true → SymmOnOrbit perms starts) (hb : 0 < batch) (c : BfsCfg (List W))
include hinj hic hb

theorem enc_sizes_prefix (i : Nat) (hi : i < (bfs G c E).layerSizes.length) :
    ∃ L : List (List Nat), L.Nodup ∧ (∀ s, s ∈ L ↔ DistLayer Math starts i s) ∧
      (bfs G c E).layerSizes[i]? = some L.length := by
  have hH := encoded_bfsHypO w n hw hw' perms hp hash ic batch starts hs hinj hic hb
  obtain ⟨L, hL, hsz⟩ := BfsThmO.sizes_prefix hH c i hi
  obtain ⟨M, h1, h2, h3, -, -⟩ := math_layer_of_isLayer w n hw hw' perms hp hash ic batch starts hs i L hL
  exact ⟨M, h1, h2, by rw [hsz, h3]⟩

theorem enc_sizes_pos (i : Nat) (hi : 0 < i) (m : Nat) (hm : (bfs G c E).layerSizes[i]? = some m) : 0 < m :=
  BfsThmO.sizes_pos (encoded_bfsHypO w n hw hw' perms hp hash ic batch starts hs hinj hic hb) c i hi m hm

theorem enc_completed_sound (hc : (bfs G c E).completed = true) :
    ∀ s, ¬ DistLayer Math starts (bfs G c E).layerSizes.length s := by
  have hH := encoded_bfsHypO w n hw hw' perms hp hash ic batch starts hs hinj hic hb
  have hval := valid_of_inOrbit w n hw hw' perms hp hash ic batch starts hs
  intro s hsd
  have := Transport.distLayer_lift (G).nb Math (decode w n) E
    (fun x hx => encoded_hcomm w n hw hw' perms hp hash ic batch x (hval x hx))
    (fun x y hx hy => decode_inj_valid w n hw hw' x y (hval x hx) (hval y hy)) (bfs G c E).layerSizes.length s
    (by rw [map_decode_encode w n hw hw' starts hs]; exact hsd)
  obtain ⟨x, hx, -⟩ := this
  exact O_completed_sound hH c hc x hx

theorem enc_stopped_by_rule (hc : (bfs G c E).completed = false) :
    (bfs G c E).layerSizes.length = c.maxDiameter + 1 ∨
    (∃ m, (bfs G c E).layerSizes.getLast? = some m ∧ c.maxExplore ≤ m ∧ 2 ≤ (bfs G c E).layerSizes.length) ∨
    (∃ f L, c.stop = some f ∧ (L.map (decode w n)).Nodup ∧
        (∀ s, s ∈ L.map (decode w n) ↔ DistLayer Math starts ((bfs G c E).layerSizes.length - 1) s) ∧
        f ((bfs G c E).layerSizes.length - 1) L = true) := by
  have hH := encoded_bfsHypO w n hw hw' perms hp hash ic batch starts hs hinj hic hb
  rcases O_stopped_by_rule hH c hc with h | h | ⟨f, L, h1, h2, h3⟩
  · exact Or.inl h
  · exact Or.inr (Or.inl h)
  · obtain ⟨a, b⟩ := encoded_layer_map w n hw hw' perms hp hash ic batch starts hs _ L h2
    exact Or.inr (Or.inr ⟨f, L, h1, a, b, h3⟩)

theorem enc_no_early_stop (i : Nat) (hi0 : 0 < i) (hi : i + 1 < (bfs G c E).layerSizes.length) (m : Nat)
    (hm : (bfs G c E).layerSizes[i]? = some m) : m < c.maxExplore :=
  O_no_early_stop (encoded_bfsHypO w n hw hw' perms hp hash ic batch starts hs hinj hic hb) c i hi0 hi m hm

theorem enc_stored_sound (i : Nat) (L : List (List W)) (hm : (i, L) ∈ (bfs G c E).layers) :
    (L.map (decode w n)).Nodup ∧ (∀ s, s ∈ L.map (decode w n) ↔ DistLayer Math starts i s) ∧
      ∀ x ∈ L, encodable w n (decode w n x) = true ∧ x = encode w n (decode w n x) := by
  have hH := encoded_bfsHypO w n hw hw' perms hp hash ic batch starts hs hinj hic hb
  have hL := O_stored_sound hH c i L hm
  obtain ⟨a, b⟩ := encoded_layer_map w n hw hw' perms hp hash ic batch starts hs i L hL
  refine ⟨a, b, ?_⟩
  intro x hx
  have hv := valid_of_isLayer w n hw hw' perms hp hash ic batch starts hs i L hL x hx
  refine ⟨?_, (encode_decode_valid w n hw hw' x hv).symm⟩
  obtain ⟨s, hs', rfl⟩ := hv
  rw [decode_encode w n hw hw' s hs']; exact hs'

theorem enc_stored_iff (i : Nat) :
    (∃ L, (i, L) ∈ (bfs G c E).layers) ↔
      ∃ m, (bfs G c E).layerSizes[i]? = some m ∧
        (i = 0 ∨ m ≤ c.storeLimit ∨ ((bfs G c E).completed = true ∧ i + 1 = (bfs G c E).layerSizes.length)) :=
  O_stored_iff (encoded_bfsHypO w n hw hw' perms hp hash ic batch starts hs hinj hic hb) c i

theorem enc_hashes_rule :
    (c.returnHashes = false → (bfs G c E).hashes = []) ∧
    (c.returnHashes = true → (bfs G c E).hashes.length = (bfs G c E).layerSizes.length ∧
      ∀ i H, (bfs G c E).hashes[i]? = some H →
        H.Pairwise (· < ·) ∧ ∃ L : List (List Nat), L.Nodup ∧ (∀ s, s ∈ L ↔ DistLayer Math starts i s) ∧
          H.Perm (L.map fun s => hash (encode w n s))) := by
  have hH := encoded_bfsHypO w n hw hw' perms hp hash ic batch starts hs hinj hic hb
  obtain ⟨h1, h2⟩ := O_hashes_rule hH c
  refine ⟨h1, fun hr => ⟨(h2 hr).1, ?_⟩⟩
  intro i H hH'
  obtain ⟨a, L, hL, hperm⟩ := (h2 hr).2 i H hH'
  obtain ⟨M, m1, m2, -, -, m5⟩ := math_layer_of_isLayer w n hw hw' perms hp hash ic batch starts hs i L hL
  exact ⟨a, M, m1, m2, by rw [m5]; exact hperm⟩

theorem enc_callback_trace :
    (c.stop = none → (bfs G c E).cbTrace = []) ∧
    (∀ f, c.stop = some f → ∃ m, (bfs G c E).cbTrace = (List.range m).map (· + 1) ∧
        (m + 1 = (bfs G c E).layerSizes.length ∨
         (m + 2 = (bfs G c E).layerSizes.length ∧
            ∃ k, (bfs G c E).layerSizes.getLast? = some k ∧ c.maxExplore ≤ k))) :=
  O_callback_trace (encoded_bfsHypO w n hw hw' perms hp hash ic batch starts hs hinj hic hb) c

end enc

/-! ## 3. early-stopped BFS on the un-encoded graph (C09e) -/

section plain
variable (perms : List (List Nat)) (hash : List Nat → Int) (ic : Bool) (batch : Nat) (starts : List (List Nat))
  (hinj : ∀ s t, InOrbit (permGraphNb perms) starts s → InOrbit (permGraphNb perms) starts t →
    hash s = hash t → s = t)
  (hic : ic = true → SymmOnOrbit perms starts) (hb : 0 < batch) (c : BfsCfg (List Nat))

local notation "P" => plainPermGraph perms hash ic batch
local notation "Math" => permGraphNb perms

theorem plain_isLayer_iff (i : Nat) (L : List (List Nat)) :
    IsLayer P starts i L ↔ (L.Nodup ∧ ∀ s, s ∈ L ↔ DistLayer Math starts i s) := by
  unfold IsLayer; rw [plain_nb]

include hinj hic hb

theorem pl_sizes_prefix (i : Nat) (hi : i < (bfs P c starts).layerSizes.length) :
    ∃ L : List (List Nat), L.Nodup ∧ (∀ s, s ∈ L ↔ DistLayer Math starts i s) ∧
      (bfs P c starts).layerSizes[i]? = some L.length := by
  obtain ⟨L, hL, hsz⟩ := BfsThmO.sizes_prefix (plain_bfsHypO perms hash ic batch starts hinj hic hb) c i hi
  rw [plain_isLayer_iff] at hL
  exact ⟨L, hL.1, hL.2, hsz⟩

theorem pl_sizes_pos (i : Nat) (hi : 0 < i) (m : Nat) (hm : (bfs P c starts).layerSizes[i]? = some m) : 0 < m :=
  BfsThmO.sizes_pos (plain_bfsHypO perms hash ic batch starts hinj hic hb) c i hi m hm

theorem pl_completed_sound (hc : (bfs P c starts).completed = true) :
    ∀ s, ¬ DistLayer Math starts (bfs P c starts).layerSizes.length s := by
  have := O_completed_sound (plain_bfsHypO perms hash ic batch starts hinj hic hb) c hc
  rw [plain_nb] at this
  exact this

theorem pl_stopped_by_rule (hc : (bfs P c starts).completed = false) :
    (bfs P c starts).layerSizes.length = c.maxDiameter + 1 ∨
    (∃ m, (bfs P c starts).layerSizes.getLast? = some m ∧ c.maxExplore ≤ m ∧
      2 ≤ (bfs P c starts).layerSizes.length) ∨
    (∃ f L, c.stop = some f ∧ L.Nodup ∧
        (∀ s, s ∈ L ↔ DistLayer Math starts ((bfs P c starts).layerSizes.length - 1) s) ∧
        f ((bfs P c starts).layerSizes.length - 1) L = true) := by
  rcases O_stopped_by_rule (plain_bfsHypO perms hash ic batch starts hinj hic hb) c hc with h | h | ⟨f, L, h1, h2, h3⟩
  · exact Or.inl h
  · exact Or.inr (Or.inl h)
  · rw [plain_isLayer_iff] at h2
    exact Or.inr (Or.inr ⟨f, L, h1, h2.1, h2.2, h3⟩)

theorem pl_no_early_stop (i : Nat) (hi0 : 0 < i) (hi : i + 1 < (bfs P c starts).layerSizes.length) (m : Nat)
    (hm : (bfs P c starts).layerSizes[i]? = some m) : m < c.maxExplore :=
  O_no_early_stop (plain_bfsHypO perms hash ic batch starts hinj hic hb) c i hi0 hi m hm

theorem pl_stored_sound (i : Nat) (L : List (List Nat)) (hm : (i, L) ∈ (bfs P c starts).layers) :
    L.Nodup ∧ ∀ s, s ∈ L ↔ DistLayer Math starts i s := by
  have := O_stored_sound (plain_bfsHypO perms hash ic batch starts hinj hic hb) c i L hm
  rw [plain_isLayer_iff] at this
  exact this

theorem pl_stored_iff (i : Nat) :
    (∃ L, (i, L) ∈ (bfs P c starts).layers) ↔
      ∃ m, (bfs P c starts).layerSizes[i]? = some m ∧
        (i = 0 ∨ m ≤ c.storeLimit ∨
          ((bfs P c starts).completed = true ∧ i + 1 = (bfs P c starts).layerSizes.length)) :=
  O_stored_iff (plain_bfsHypO perms hash ic batch starts hinj hic hb) c i

theorem pl_hashes_rule :
    (c.returnHashes = false → (bfs P c starts).hashes = []) ∧
    (c.returnHashes = true → (bfs P c starts).hashes.length = (bfs P c starts).layerSizes.length ∧
      ∀ i H, (bfs P c starts).hashes[i]? = some H →
        H.Pairwise (· < ·) ∧ ∃ L : List (List Nat), L.Nodup ∧ (∀ s, s ∈ L ↔ DistLayer Math starts i s) ∧
          H.Perm (L.map hash)) := by
  obtain ⟨h1, h2⟩ := O_hashes_rule (plain_bfsHypO perms hash ic batch starts hinj hic hb) c
  refine ⟨h1, fun hr => ⟨(h2 hr).1, ?_⟩⟩
  intro i H hH'
  obtain ⟨a, L, hL, hperm⟩ := (h2 hr).2 i H hH'
  rw [plain_isLayer_iff] at hL
  exact ⟨a, L, hL.1, hL.2, hperm⟩

theorem pl_callback_trace :
    (c.stop = none → (bfs P c starts).cbTrace = []) ∧
    (∀ f, c.stop = some f → ∃ m, (bfs P c starts).cbTrace = (List.range m).map (· + 1) ∧
        (m + 1 = (bfs P c starts).layerSizes.length ∨
         (m + 2 = (bfs P c starts).layerSizes.length ∧
            ∃ k, (bfs P c starts).layerSizes.getLast? = some k ∧ c.maxExplore ≤ k))) :=
  O_callback_trace (plain_bfsHypO perms hash ic batch starts hinj hic hb) c

end plain

/-! ## 4. the export theorems under orbit-restricted hypotheses, and through a representation map -/

section XO
variable {α : Type} [DecidableEq α] (g : Graph α) (S : List α)

omit [DecidableEq α] in
theorem orbitGraph_act_of_orbit (i : Nat) (x : α) (hx : InOrbit g.nb S x) :
    (orbitGraph g S).act i x = g.act i x := orbitAct_of_orbit g S i x hx

omit [DecidableEq α] in
theorem O_stored_all_complete (h : BfsHypO g S) (c : BfsCfg α) (hcomp : (bfs g c S).completed = true)
    (hsmall : ∀ i n, 0 < i → i + 1 < (bfs g c S).layerSizes.length → (bfs g c S).layerSizes[i]? = some n →
      n ≤ c.storeLimit) :
    ∀ j, j < (bfs g c S).layerSizes.length → ∃ L, (j, L) ∈ (bfs g c S).layers := by
  have := stored_all_complete (orbitGraph g S) S (bfsHyp_orbitGraph h) c
  simp only [bfs_orbitGraph] at this
  exact this hcomp hsmall

omit [DecidableEq α] in
theorem O_stored_all_partial (h : BfsHypO g S) (c : BfsCfg α)
    (hsmall : ∀ i n, 0 < i → (bfs g c S).layerSizes[i]? = some n → n ≤ c.storeLimit) :
    ∀ j, j < (bfs g c S).layerSizes.length → ∃ L, (j, L) ∈ (bfs g c S).layers := by
  have := stored_all_partial (orbitGraph g S) S (bfsHyp_orbitGraph h) c
  simp only [bfs_orbitGraph] at this
  exact this hsmall

omit [DecidableEq α] in
theorem O_allStates_none_of_big (h : BfsHypO g S) (c : BfsCfg α) (i n : Nat)
    (hi : 0 < i) (hn : (bfs g c S).layerSizes[i]? = some n) (hbig : c.storeLimit < n)
    (hlast : (bfs g c S).completed = true → i + 1 < (bfs g c S).layerSizes.length) :
    allStates (bfs g c S) = none := by
  have := allStates_none_of_big (orbitGraph g S) S (bfsHyp_orbitGraph h) c i n hi
  simp only [bfs_orbitGraph] at this
  exact this hn hbig hlast

theorem O_export_complete_stored (h : BfsHypO g S) (c : BfsCfg α)
    (he : c.returnEdges = true) (hh : c.returnHashes = true)
    (hall : ∀ j, j < (bfs g c S).layerSizes.length → ∃ L, (j, L) ∈ (bfs g c S).layers)
    (hcomp : (bfs g c S).completed = true) :
    ∃ V E, allStates (bfs g c S) = some V ∧ edgesList (bfs g c S) = some E ∧
      V.Nodup ∧ (∀ x, x ∈ V ↔ InOrbit g.nb S x) ∧
      (bfs g c S).hashes.flatten = V.map g.hash ∧
      E.Perm (V.flatMap fun v => (List.range g.nGens).map fun i => (V.idxOf v, V.idxOf (g.act i v))) ∧
      (∀ i j, adjacency E i j = true ↔ ∃ v k, V[i]? = some v ∧ k < g.nGens ∧ V[j]? = some (g.act k v)) := by
  have := export_complete_stored (orbitGraph g S) S (bfsHyp_orbitGraph h) c he hh
  simp only [bfs_orbitGraph, inOrbit_orbitGraph, orbitGraph_hash, orbitGraph_nGens] at this
  obtain ⟨V, E, h1, h2, h3, h4, h5, h6, h7⟩ := this hall hcomp
  refine ⟨V, E, h1, h2, h3, h4, h5, ?_, ?_⟩
  · refine h6.trans (List.Perm.of_eq ?_)
    apply flatMap_congr'
    intro v hv
    apply List.map_congr_left
    intro i _
    rw [orbitGraph_act_of_orbit g S i v ((h4 v).1 hv)]
  · intro i j
    rw [h7 i j]
    constructor
    · rintro ⟨v, k, a, b, d⟩
      rw [orbitGraph_act_of_orbit g S k v ((h4 v).1 (List.mem_of_getElem? a))] at d
      exact ⟨v, k, a, b, d⟩
    · rintro ⟨v, k, a, b, d⟩
      refine ⟨v, k, a, b, ?_⟩
      rw [orbitGraph_act_of_orbit g S k v ((h4 v).1 (List.mem_of_getElem? a))]
      exact d

theorem O_export_partial_stored (h : BfsHypO g S) (c : BfsCfg α)
    (he : c.returnEdges = true) (hh : c.returnHashes = true)
    (hall : ∀ j, j < (bfs g c S).layerSizes.length → ∃ L, (j, L) ∈ (bfs g c S).layers)
    (hcomp : (bfs g c S).completed = false) (hstep : 2 ≤ (bfs g c S).layerSizes.length) :
    ∃ V E, allStates (bfs g c S) = some V ∧ edgesList (bfs g c S) = some E ∧ V.Nodup ∧
      (∀ x, x ∈ V ↔ ∃ j, j < (bfs g c S).layerSizes.length ∧ DistLayer g.nb S j x) ∧
      (bfs g c S).hashes.flatten = V.map g.hash ∧
      (∀ v k j, j + 1 < (bfs g c S).layerSizes.length → DistLayer g.nb S j v → k < g.nGens →
          (V.idxOf v, V.idxOf (g.act k v)) ∈ E) ∧
      (∀ e ∈ E, (∃ v k j, j + 1 < (bfs g c S).layerSizes.length ∧ DistLayer g.nb S j v ∧ k < g.nGens ∧
                    e = (V.idxOf v, V.idxOf (g.act k v))) ∨
                (∃ v k, DistLayer g.nb S ((bfs g c S).layerSizes.length - 2) v ∧ k < g.nGens ∧
                    e = (V.idxOf (g.act k v), V.idxOf v))) := by
  have := export_partial_stored (orbitGraph g S) S (bfsHyp_orbitGraph h) c he hh
  simp only [bfs_orbitGraph, distLayer_orbitGraph, orbitGraph_hash, orbitGraph_nGens] at this
  obtain ⟨V, E, h1, h2, h3, h4, h5, h6, h7⟩ := this hall hcomp hstep
  refine ⟨V, E, h1, h2, h3, h4, h5, ?_, ?_⟩
  · intro v k j hj hd hk
    have := h6 v k j hj hd hk
    rwa [orbitGraph_act_of_orbit g S k v hd.inOrbit] at this
  · intro e hem
    rcases h7 e hem with ⟨v, k, j, a, b, d, rfl⟩ | ⟨v, k, a, b, rfl⟩
    · left
      refine ⟨v, k, j, a, b, d, ?_⟩
      rw [orbitGraph_act_of_orbit g S k v b.inOrbit]
    · right
      refine ⟨v, k, a, b, ?_⟩
      rw [orbitGraph_act_of_orbit g S k v a.inOrbit]

end XO

/-- `idxOf` does not depend on the (lawful) `BEq` instance -/
theorem idxOf_inst_eq {α : Type} (i1 i2 : BEq α) [@LawfulBEq α i1] [@LawfulBEq α i2] :
    @List.idxOf α i1 = @List.idxOf α i2 := by
  funext x l
  induction l with
  | nil => rfl
  | cons a t ih =>
    rw [@List.idxOf_cons _ _ _ _ i1, @List.idxOf_cons _ _ _ _ i2, ih]
    by_cases h : a = x
    · subst h
      rw [@beq_self_eq_true _ i1, @beq_self_eq_true _ i2]
    · have h1 : (@BEq.beq α i1 a x) = false := (@beq_eq_false_iff_ne _ i1 _ _ _).2 h
      have h2 : (@BEq.beq α i2 a x) = false := (@beq_eq_false_iff_ne _ i2 _ _ _).2 h
      rw [h1, h2]

/-- the generic theorems use the `BEq` derived from `DecidableEq`; statements about `List (List Nat)` elaborate with the
structural `BEq` of lists -/
theorem idxOf_listNat [d : DecidableEq (List Nat)] :
    @List.idxOf (List Nat) (@instBEqOfDecidableEq _ d) = @List.idxOf (List Nat) List.instBEq :=
  idxOf_inst_eq _ _

section XR
variable {α β : Type} [DecidableEq α] [DecidableEq β]

theorem idxOf_map_injOn (f : α → β) (V : List α) (x : α) (hinj : ∀ y ∈ V, f y = f x → y = x) :
    (V.map f).idxOf (f x) = V.idxOf x := by
  induction V with
  | nil => rfl
  | cons a t ih =>
    simp only [List.map_cons, List.idxOf_cons]
    by_cases hax : a = x
    · subst hax; simp
    · have h1 : (f a == f x) = false := by
        simp only [beq_eq_false_iff_ne, ne_eq]
        intro e; exact hax (hinj a List.mem_cons_self e)
      have h2 : (a == x) = false := by simpa using hax
      rw [h1, h2]
      simp only [cond_false]
      rw [ih (fun y hy => hinj y (List.mem_cons_of_mem _ hy))]

omit [DecidableEq α] [DecidableEq β] in
theorem nodup_map_injOn (f : α → β) (V : List α) (hnd : V.Nodup)
    (hinj : ∀ x ∈ V, ∀ y ∈ V, f x = f y → x = y) : (V.map f).Nodup := by
  rw [List.nodup_iff_pairwise_ne, List.pairwise_map]
  exact List.Pairwise.imp_of_mem (fun {a b} ha hb hab hfab => hab (hinj a ha b hb hfab)) hnd

variable (g : Graph α) (S : List α) (nb₂ : β → List β) (act₂ : Nat → β → β) (f : α → β)
  (hcomm : ∀ x, InOrbit g.nb S x → (g.nb x).map f = nb₂ (f x))
  (hact : ∀ x, InOrbit g.nb S x → ∀ i, i < g.nGens → f (g.act i x) = act₂ i (f x))
  (hinj : ∀ x y, InOrbit g.nb S x → InOrbit g.nb S y → f x = f y → x = y)

omit [DecidableEq α] [DecidableEq β] in
theorem inOrbit_act {x : α} (hx : InOrbit g.nb S x) (i : Nat) (hi : i < g.nGens) : InOrbit g.nb S (g.act i x) :=
  hx.step (act_mem_nb g i hi x)

include hcomm hact hinj

/-- **export of an exhaustive run, read through a representation map `f`**: the image of the vertex list enumerates
the orbit of the represented graph, the edge list is all `(index v, index (act₂ i v))` with multiplicity -/
theorem R_export_complete_stored (h : BfsHypO g S) (c : BfsCfg α)
    (he : c.returnEdges = true) (hh : c.returnHashes = true)
    (hall : ∀ j, j < (bfs g c S).layerSizes.length → ∃ L, (j, L) ∈ (bfs g c S).layers)
    (hcomp : (bfs g c S).completed = true) :
    ∃ V E, allStates (bfs g c S) = some V ∧ edgesList (bfs g c S) = some E ∧
      (V.map f).Nodup ∧ (∀ z, z ∈ V.map f ↔ InOrbit nb₂ (S.map f) z) ∧ (∀ x ∈ V, InOrbit g.nb S x) ∧
      (bfs g c S).hashes.flatten = V.map g.hash ∧
      E.Perm ((V.map f).flatMap fun v => (List.range g.nGens).map fun i =>
        ((V.map f).idxOf v, (V.map f).idxOf (act₂ i v))) ∧
      (∀ i j, adjacency E i j = true ↔
        ∃ v k, (V.map f)[i]? = some v ∧ k < g.nGens ∧ (V.map f)[j]? = some (act₂ k v)) := by
  obtain ⟨V, E, h1, h2, h3, h4, h5, h6, h7⟩ := O_export_complete_stored g S h c he hh hall hcomp
  have horb : ∀ x ∈ V, InOrbit g.nb S x := fun x hx => (h4 x).1 hx
  refine ⟨V, E, h1, h2, nodup_map_injOn f V h3 (fun x hx y hy => hinj x y (horb x hx) (horb y hy)), ?_, horb, h5,
    ?_, ?_⟩
  · intro z
    rw [List.mem_map]
    constructor
    · rintro ⟨x, hx, rfl⟩
      exact Transport.inOrbit_map g.nb nb₂ f S hcomm x (horb x hx)
    · intro hz
      obtain ⟨x, hx, rfl⟩ := Transport.inOrbit_lift g.nb nb₂ f S hcomm z hz
      exact ⟨x, (h4 x).2 hx, rfl⟩
  · refine h6.trans (List.Perm.of_eq ?_)
    rw [List.flatMap_map]
    apply flatMap_congr'
    intro v hv
    apply List.map_congr_left
    intro i hi
    have hi' := List.mem_range.1 hi
    have hvo := horb v hv
    rw [← hact v hvo i hi',
      idxOf_map_injOn f V v (fun y hy => hinj y v (horb y hy) hvo),
      idxOf_map_injOn f V _ (fun y hy => hinj y _ (horb y hy) (inOrbit_act g S hvo i hi'))]
  · intro i j
    rw [h7 i j]
    simp only [List.getElem?_map]
    constructor
    · rintro ⟨v, k, a, b, d⟩
      refine ⟨f v, k, by rw [a]; rfl, b, ?_⟩
      rw [d, ← hact v (horb v (List.mem_of_getElem? a)) k b]; rfl
    · rintro ⟨v', k, a, b, d⟩
      cases hvi : V[i]? with
      | none => rw [hvi] at a; cases a
      | some v =>
        rw [hvi] at a
        have hv' : f v = v' := by simpa using a
        subst hv'
        have hvo := horb v (List.mem_of_getElem? hvi)
        cases hvj : V[j]? with
        | none => rw [hvj] at d; cases d
        | some u =>
          rw [hvj] at d
          have hu : f u = act₂ k (f v) := by simpa using d
          rw [← hact v hvo k b] at hu
          have := hinj u _ (horb u (List.mem_of_getElem? hvj)) (inOrbit_act g S hvo k b) hu
          exact ⟨v, k, rfl, b, by rw [this]⟩

/-- **export of an early-stopped run, read through a representation map `f`** -/
theorem R_export_partial_stored (h : BfsHypO g S) (c : BfsCfg α)
    (he : c.returnEdges = true) (hh : c.returnHashes = true)
    (hall : ∀ j, j < (bfs g c S).layerSizes.length → ∃ L, (j, L) ∈ (bfs g c S).layers)
    (hcomp : (bfs g c S).completed = false) (hstep : 2 ≤ (bfs g c S).layerSizes.length) :
    ∃ V E, allStates (bfs g c S) = some V ∧ edgesList (bfs g c S) = some E ∧ (V.map f).Nodup ∧
      (∀ z, z ∈ V.map f ↔ ∃ j, j < (bfs g c S).layerSizes.length ∧ DistLayer nb₂ (S.map f) j z) ∧
      (∀ x ∈ V, InOrbit g.nb S x) ∧
      (bfs g c S).hashes.flatten = V.map g.hash ∧
      (∀ v k j, j + 1 < (bfs g c S).layerSizes.length → DistLayer nb₂ (S.map f) j v → k < g.nGens →
          ((V.map f).idxOf v, (V.map f).idxOf (act₂ k v)) ∈ E) ∧
      (∀ e ∈ E, (∃ v k j, j + 1 < (bfs g c S).layerSizes.length ∧ DistLayer nb₂ (S.map f) j v ∧ k < g.nGens ∧
                    e = ((V.map f).idxOf v, (V.map f).idxOf (act₂ k v))) ∨
                (∃ v k, DistLayer nb₂ (S.map f) ((bfs g c S).layerSizes.length - 2) v ∧ k < g.nGens ∧
                    e = ((V.map f).idxOf (act₂ k v), (V.map f).idxOf v))) := by
  obtain ⟨V, E, h1, h2, h3, h4, h5, h6, h7⟩ := O_export_partial_stored g S h c he hh hall hcomp hstep
  have horb : ∀ x ∈ V, InOrbit g.nb S x := fun x hx => by
    obtain ⟨j, -, hd⟩ := (h4 x).1 hx; exact hd.inOrbit
  have hidx : ∀ v, InOrbit g.nb S v → (V.map f).idxOf (f v) = V.idxOf v :=
    fun v hvo => idxOf_map_injOn f V v (fun y hy => hinj y v (horb y hy) hvo)
  have hidx2 : ∀ v k, InOrbit g.nb S v → k < g.nGens → (V.map f).idxOf (act₂ k (f v)) = V.idxOf (g.act k v) := by
    intro v k hvo hk
    rw [← hact v hvo k hk]
    exact hidx _ (inOrbit_act g S hvo k hk)
  refine ⟨V, E, h1, h2, nodup_map_injOn f V h3 (fun x hx y hy => hinj x y (horb x hx) (horb y hy)), ?_, horb, h5,
    ?_, ?_⟩
  · intro z
    rw [List.mem_map]
    constructor
    · rintro ⟨x, hx, rfl⟩
      obtain ⟨j, hj, hd⟩ := (h4 x).1 hx
      exact ⟨j, hj, (Transport.distLayer_iff g.nb nb₂ f S hcomm hinj j x hd.inOrbit).1 hd⟩
    · rintro ⟨j, hj, hd⟩
      obtain ⟨x, hx, rfl⟩ := Transport.distLayer_lift g.nb nb₂ f S hcomm hinj j z hd
      exact ⟨x, (h4 x).2 ⟨j, hj, hx⟩, rfl⟩
  · intro v k j hj hd hk
    obtain ⟨x, hx, rfl⟩ := Transport.distLayer_lift g.nb nb₂ f S hcomm hinj j v hd
    rw [hidx x hx.inOrbit, hidx2 x k hx.inOrbit hk]
    exact h6 x k j hj hx hk
  · intro e hem
    rcases h7 e hem with ⟨v, k, j, a, b, d, rfl⟩ | ⟨v, k, a, b, rfl⟩
    · left
      refine ⟨f v, k, j, a, (Transport.distLayer_iff g.nb nb₂ f S hcomm hinj j v b.inOrbit).1 b, d, ?_⟩
      rw [hidx v b.inOrbit, hidx2 v k b.inOrbit d]
    · right
      refine ⟨f v, k, (Transport.distLayer_iff g.nb nb₂ f S hcomm hinj _ v a.inOrbit).1 a, b, ?_⟩
      rw [hidx v a.inOrbit, hidx2 v k a.inOrbit b]

end XR

/-! ## 5. the export on the encoded graph (C08e) -/

section encX
variable (w n : Nat) (hw : 1 ≤ w) (hw' : w ≤ 64) (perms : List (List Nat))
  (hp : ∀ p ∈ perms, Cv.Perm.IsPermOf n p) (hash : List W → Int) (ic : Bool) (batch : Nat)
  (starts : List (List Nat)) (hs : ∀ s ∈ starts, encodable w n s = true)

local notation "G" => encodedPermGraph w n perms hash ic batch
local notation "E" => starts.map (encode w n)
local notation "Math" => permGraphNb perms

include hw hw' hp

/-- `decode` intertwines generator `i` of the encoded graph with generator `i` of the mathematical action -/
theorem decode_act (x : List W) (hx : Valid w n x) (i : Nat) (hi : i < perms.length) :
    decode w n ((G).act i x) = genAct perms i (decode w n x) := by
  obtain ⟨s, hs', rfl⟩ := hx
  rw [encoded_act_genAct w n hw hw' perms hp hash ic batch i hi s, decode_encode w n hw hw' s hs',
    decode_encode w n hw hw' _ (encodable_genAct w n perms hp i hi s hs')]

omit hp in
theorem map_encode_decode (V : List (List W)) (hV : ∀ x ∈ V, Valid w n x) :
    (V.map (decode w n)).map (encode w n) = V := by
  rw [List.map_map]
  conv => rhs; rw [← List.map_id V]
  apply List.map_congr_left
  intro x hx
  exact encode_decode_valid w n hw hw' x (hV x hx)

variable (hinj : ∀ x y, Valid w n x → Valid w n y → hash x = hash y → x = y)
  (hic : ic = true → SymmOnOrbit perms starts) (hb : 0 < batch) (c : BfsCfg (List W))
include hs hinj hic hb

theorem enc_export_complete_stored (he : c.returnEdges = true) (hh : c.returnHashes = true)
    (hall : ∀ j, j < (bfs G c E).layerSizes.length → ∃ L, (j, L) ∈ (bfs G c E).layers)
    (hcomp : (bfs G c E).completed = true) :
    ∃ (V : List (List W)) (Ed : List (Nat × Nat)),
      allStates (bfs G c E) = some V ∧ edgesList (bfs G c E) = some Ed ∧
      (V.map (decode w n)).Nodup ∧ (∀ s, s ∈ V.map (decode w n) ↔ InOrbit Math starts s) ∧
      (V.map (decode w n)).map (encode w n) = V ∧
      (bfs G c E).hashes.flatten = V.map hash ∧
      Ed.Perm ((V.map (decode w n)).flatMap fun v => (List.range perms.length).map fun i =>
        ((V.map (decode w n)).idxOf v, (V.map (decode w n)).idxOf (genAct perms i v))) ∧
      (∀ i j, adjacency Ed i j = true ↔
        ∃ v k, (V.map (decode w n))[i]? = some v ∧ k < perms.length ∧
          (V.map (decode w n))[j]? = some (genAct perms k v)) := by
  have hval := valid_of_inOrbit w n hw hw' perms hp hash ic batch starts hs
  have hH := encoded_bfsHypO w n hw hw' perms hp hash ic batch starts hs hinj hic hb
  have := R_export_complete_stored G E Math (genAct perms) (decode w n)
    (fun x hx => encoded_hcomm w n hw hw' perms hp hash ic batch x (hval x hx))
    (fun x hx i hi => decode_act w n hw hw' perms hp hash ic batch x (hval x hx) i hi)
    (fun x y hx hy => decode_inj_valid w n hw hw' x y (hval x hx) (hval y hy)) hH c he hh hall hcomp
  rw [map_decode_encode w n hw hw' starts hs] at this
  simp only [idxOf_listNat] at this
  obtain ⟨V, Ed, h1, h2, h3, h4, h5, h6, h7, h8⟩ := this
  exact ⟨V, Ed, h1, h2, h3, h4, map_encode_decode w n hw hw' V (fun x hx => hval x (h5 x hx)), h6, h7, h8⟩

theorem enc_export_partial_stored (he : c.returnEdges = true) (hh : c.returnHashes = true)
    (hall : ∀ j, j < (bfs G c E).layerSizes.length → ∃ L, (j, L) ∈ (bfs G c E).layers)
    (hcomp : (bfs G c E).completed = false) (hstep : 2 ≤ (bfs G c E).layerSizes.length) :
    ∃ (V : List (List W)) (Ed : List (Nat × Nat)),
      allStates (bfs G c E) = some V ∧ edgesList (bfs G c E) = some Ed ∧
      (V.map (decode w n)).Nodup ∧
      (∀ s, s ∈ V.map (decode w n) ↔ ∃ j, j < (bfs G c E).layerSizes.length ∧ DistLayer Math starts j s) ∧
      (V.map (decode w n)).map (encode w n) = V ∧
      (bfs G c E).hashes.flatten = V.map hash ∧
      (∀ v k j, j + 1 < (bfs G c E).layerSizes.length → DistLayer Math starts j v → k < perms.length →
          ((V.map (decode w n)).idxOf v, (V.map (decode w n)).idxOf (genAct perms k v)) ∈ Ed) ∧
      (∀ e ∈ Ed,
        (∃ v k j, j + 1 < (bfs G c E).layerSizes.length ∧ DistLayer Math starts j v ∧ k < perms.length ∧
            e = ((V.map (decode w n)).idxOf v, (V.map (decode w n)).idxOf (genAct perms k v))) ∨
        (∃ v k, DistLayer Math starts ((bfs G c E).layerSizes.length - 2) v ∧ k < perms.length ∧
            e = ((V.map (decode w n)).idxOf (genAct perms k v), (V.map (decode w n)).idxOf v))) := by
  have hval := valid_of_inOrbit w n hw hw' perms hp hash ic batch starts hs
  have hH := encoded_bfsHypO w n hw hw' perms hp hash ic batch starts hs hinj hic hb
  have := R_export_partial_stored G E Math (genAct perms) (decode w n)
    (fun x hx => encoded_hcomm w n hw hw' perms hp hash ic batch x (hval x hx))
    (fun x hx i hi => decode_act w n hw hw' perms hp hash ic batch x (hval x hx) i hi)
    (fun x y hx hy => decode_inj_valid w n hw hw' x y (hval x hx) (hval y hy)) hH c he hh hall hcomp hstep
  rw [map_decode_encode w n hw hw' starts hs] at this
  simp only [idxOf_listNat] at this
  obtain ⟨V, Ed, h1, h2, h3, h4, h5, h6, h7, h8⟩ := this
  exact ⟨V, Ed, h1, h2, h3, h4, map_encode_decode w n hw hw' V (fun x hx => hval x (h5 x hx)), h6, h7, h8⟩

theorem enc_stored_all_complete (hcomp : (bfs G c E).completed = true)
    (hsmall : ∀ i m, 0 < i → i + 1 < (bfs G c E).layerSizes.length → (bfs G c E).layerSizes[i]? = some m →
      m ≤ c.storeLimit) :
    ∀ j, j < (bfs G c E).layerSizes.length → ∃ L, (j, L) ∈ (bfs G c E).layers :=
  O_stored_all_complete G E (encoded_bfsHypO w n hw hw' perms hp hash ic batch starts hs hinj hic hb) c hcomp hsmall

theorem enc_stored_all_partial
    (hsmall : ∀ i m, 0 < i → (bfs G c E).layerSizes[i]? = some m → m ≤ c.storeLimit) :
    ∀ j, j < (bfs G c E).layerSizes.length → ∃ L, (j, L) ∈ (bfs G c E).layers :=
  O_stored_all_partial G E (encoded_bfsHypO w n hw hw' perms hp hash ic batch starts hs hinj hic hb) c hsmall

theorem enc_export_needs_store (i m : Nat) (hi : 0 < i) (hm : (bfs G c E).layerSizes[i]? = some m)
    (hbig : c.storeLimit < m)
    (hlast : (bfs G c E).completed = true → i + 1 < (bfs G c E).layerSizes.length) :
    allStates (bfs G c E) = none :=
  O_allStates_none_of_big G E (encoded_bfsHypO w n hw hw' perms hp hash ic batch starts hs hinj hic hb) c i m hi hm
    hbig hlast

end encX

/-! ## 6. the export on the un-encoded graph (C08e) -/

section plainX
variable (perms : List (List Nat)) (hash : List Nat → Int) (ic : Bool) (batch : Nat) (starts : List (List Nat))
  (hinj : ∀ s t, InOrbit (permGraphNb perms) starts s → InOrbit (permGraphNb perms) starts t →
    hash s = hash t → s = t)
  (hic : ic = true → SymmOnOrbit perms starts) (hb : 0 < batch) (c : BfsCfg (List Nat))

local notation "P" => plainPermGraph perms hash ic batch
local notation "Math" => permGraphNb perms

include hinj hic hb

theorem pl_export_complete_stored (he : c.returnEdges = true) (hh : c.returnHashes = true)
    (hall : ∀ j, j < (bfs P c starts).layerSizes.length → ∃ L, (j, L) ∈ (bfs P c starts).layers)
    (hcomp : (bfs P c starts).completed = true) :
    ∃ (V : List (List Nat)) (Ed : List (Nat × Nat)),
      allStates (bfs P c starts) = some V ∧ edgesList (bfs P c starts) = some Ed ∧
      V.Nodup ∧ (∀ s, s ∈ V ↔ InOrbit Math starts s) ∧
      (bfs P c starts).hashes.flatten = V.map hash ∧
      Ed.Perm (V.flatMap fun v => (List.range perms.length).map fun i => (V.idxOf v, V.idxOf (genAct perms i v))) ∧
      (∀ i j, adjacency Ed i j = true ↔
        ∃ v k, V[i]? = some v ∧ k < perms.length ∧ V[j]? = some (genAct perms k v)) := by
  have := O_export_complete_stored P starts (plain_bfsHypO perms hash ic batch starts hinj hic hb) c he hh hall hcomp
  rw [plain_nb] at this
  simp only [idxOf_listNat] at this
  exact this

theorem pl_export_partial_stored (he : c.returnEdges = true) (hh : c.returnHashes = true)
    (hall : ∀ j, j < (bfs P c starts).layerSizes.length → ∃ L, (j, L) ∈ (bfs P c starts).layers)
    (hcomp : (bfs P c starts).completed = false) (hstep : 2 ≤ (bfs P c starts).layerSizes.length) :
    ∃ (V : List (List Nat)) (Ed : List (Nat × Nat)),
      allStates (bfs P c starts) = some V ∧ edgesList (bfs P c starts) = some Ed ∧ V.Nodup ∧
      (∀ s, s ∈ V ↔ ∃ j, j < (bfs P c starts).layerSizes.length ∧ DistLayer Math starts j s) ∧
      (bfs P c starts).hashes.flatten = V.map hash ∧
      (∀ v k j, j + 1 < (bfs P c starts).layerSizes.length → DistLayer Math starts j v → k < perms.length →
          (V.idxOf v, V.idxOf (genAct perms k v)) ∈ Ed) ∧
      (∀ e ∈ Ed,
        (∃ v k j, j + 1 < (bfs P c starts).layerSizes.length ∧ DistLayer Math starts j v ∧ k < perms.length ∧
            e = (V.idxOf v, V.idxOf (genAct perms k v))) ∨
        (∃ v k, DistLayer Math starts ((bfs P c starts).layerSizes.length - 2) v ∧ k < perms.length ∧
            e = (V.idxOf (genAct perms k v), V.idxOf v))) := by
  have := O_export_partial_stored P starts (plain_bfsHypO perms hash ic batch starts hinj hic hb) c he hh hall hcomp
    hstep
  rw [plain_nb] at this
  simp only [idxOf_listNat] at this
  exact this

theorem pl_stored_all_complete (hcomp : (bfs P c starts).completed = true)
    (hsmall : ∀ i m, 0 < i → i + 1 < (bfs P c starts).layerSizes.length →
      (bfs P c starts).layerSizes[i]? = some m → m ≤ c.storeLimit) :
    ∀ j, j < (bfs P c starts).layerSizes.length → ∃ L, (j, L) ∈ (bfs P c starts).layers :=
  O_stored_all_complete P starts (plain_bfsHypO perms hash ic batch starts hinj hic hb) c hcomp hsmall

theorem pl_stored_all_partial
    (hsmall : ∀ i m, 0 < i → (bfs P c starts).layerSizes[i]? = some m → m ≤ c.storeLimit) :
    ∀ j, j < (bfs P c starts).layerSizes.length → ∃ L, (j, L) ∈ (bfs P c starts).layers :=
  O_stored_all_partial P starts (plain_bfsHypO perms hash ic batch starts hinj hic hb) c hsmall

theorem pl_export_needs_store (i m : Nat) (hi : 0 < i) (hm : (bfs P c starts).layerSizes[i]? = some m)
    (hbig : c.storeLimit < m)
    (hlast : (bfs P c starts).completed = true → i + 1 < (bfs P c starts).layerSizes.length) :
    allStates (bfs P c starts) = none :=
  O_allStates_none_of_big P starts (plain_bfsHypO perms hash ic batch starts hinj hic hb) c i m hi hm hbig hlast

end plainX

/-! ## 7. single-word states: the graph built from the 1-D routines gives the same run -/

theorem bfs1d_eq (w n : Nat) (hw : 1 ≤ w) (hw' : w ≤ 64) (hlen : encLen w n = 1)
    (perms : List (List Nat)) (hp : ∀ p ∈ perms, Cv.Perm.IsPermOf n p) (hash : List W → Int) (ic : Bool)
    (batch : Nat) (c : BfsCfg (List W)) (starts : List (List Nat)) :
    bfs (encodedPermGraph1d w n perms hash ic batch) c (starts.map (encode w n)) =
      bfs (encodedPermGraph w n perms hash ic batch) c (starts.map (encode w n)) := by
  apply bfs_encoded1d w n hw hw' hlen perms hp hash ic batch c
  intro x hx
  obtain ⟨s, -, rfl⟩ := List.mem_map.1 hx
  rw [length_encode, hlen]

/-! ## 8. `get_edge_name`, the store limit, symmetry of the exported adjacency -/

theorem storeLimit_of_none {α : Type} (c : BfsCfg α) (h : c.maxStore = none) : c.storeLimit = 10 ^ 15 := by
  simp [BfsCfg.storeLimit, h]

theorem mem_nb_genAct (perms : List (List Nat)) (s t : List Nat) (h : t ∈ permGraphNb perms s) :
    ∃ i, i < perms.length ∧ t = genAct perms i s := by
  obtain ⟨p, hp, rfl⟩ := List.mem_map.1 h
  obtain ⟨i, hi, rfl⟩ := List.getElem_of_mem hp
  refine ⟨i, hi, ?_⟩
  unfold genAct
  rw [getD_of_lt' perms i [] hi]

/-- `get_edge_name` on encodings: the FIRST generator of the mathematical action that maps `s1` to `s2` -/
theorem enc_edgeGen_spec (w n : Nat) (hw : 1 ≤ w) (hw' : w ≤ 64) (perms : List (List Nat))
    (hp : ∀ p ∈ perms, Cv.Perm.IsPermOf n p) (hash : List W → Int) (ic : Bool) (batch : Nat)
    (s1 s2 : List Nat) (h1 : encodable w n s1 = true) (h2 : encodable w n s2 = true) :
    (∀ i, edgeGen (encodedPermGraph w n perms hash ic batch) (encode w n s1) (encode w n s2) = some i →
      i < perms.length ∧ genAct perms i s1 = s2 ∧ ∀ j, j < i → genAct perms j s1 ≠ s2) ∧
    ((∃ i, i < perms.length ∧ genAct perms i s1 = s2) →
      (edgeGen (encodedPermGraph w n perms hash ic batch) (encode w n s1) (encode w n s2)).isSome = true) := by
  have key : ∀ i, i < perms.length →
      ((encodedPermGraph w n perms hash ic batch).act i (encode w n s1) = encode w n s2 ↔ genAct perms i s1 = s2) := by
    intro i hi
    rw [encoded_act_genAct w n hw hw' perms hp hash ic batch i hi s1]
    constructor
    · exact encode_injective w n hw hw' _ _ (encodable_genAct w n perms hp i hi s1 h1) h2
    · intro e; rw [e]
  obtain ⟨a, b⟩ := edgeGen_spec' (encodedPermGraph w n perms hash ic batch) (encode w n s1) (encode w n s2)
  constructor
  · intro i hi
    obtain ⟨hlt, hact⟩ := a i hi
    refine ⟨hlt, (key i hlt).1 hact, ?_⟩
    intro j hj e
    exact edgeGen_first _ _ _ i hi j hj ((key j (Nat.lt_trans hj hlt)).2 e)
  · rintro ⟨i, hi, e⟩
    exact b ⟨i, hi, (key i hi).2 e⟩

/-- `get_edge_name` on un-encoded states -/
theorem pl_edgeGen_spec (perms : List (List Nat)) (hash : List Nat → Int) (ic : Bool) (batch : Nat)
    (s1 s2 : List Nat) :
    (∀ i, edgeGen (plainPermGraph perms hash ic batch) s1 s2 = some i →
      i < perms.length ∧ genAct perms i s1 = s2 ∧ ∀ j, j < i → genAct perms j s1 ≠ s2) ∧
    ((∃ i, i < perms.length ∧ genAct perms i s1 = s2) →
      (edgeGen (plainPermGraph perms hash ic batch) s1 s2).isSome = true) := by
  obtain ⟨a, b⟩ := edgeGen_spec' (plainPermGraph perms hash ic batch) s1 s2
  exact ⟨fun i hi => ⟨(a i hi).1, (a i hi).2, edgeGen_first _ _ _ i hi⟩, b⟩

/-- a mathematical graph that is symmetric on the orbit gives a symmetric exported adjacency matrix -/
theorem adjacency_symm_of_orbit (perms : List (List Nat)) (starts : List (List Nat))
    (hsym : SymmOnOrbit perms starts) (D : List (List Nat)) (Ed : List (Nat × Nat))
    (hD : ∀ s, s ∈ D → InOrbit (permGraphNb perms) starts s)
    (hadj : ∀ i j, adjacency Ed i j = true ↔
      ∃ v k, D[i]? = some v ∧ k < perms.length ∧ D[j]? = some (genAct perms k v)) :
    ∀ i j, adjacency Ed i j = adjacency Ed j i := by
  have one : ∀ i j, adjacency Ed i j = true → adjacency Ed j i = true := by
    intro i j h
    obtain ⟨v, k, a, b, d⟩ := (hadj i j).1 h
    have hv := hD v (List.mem_of_getElem? a)
    obtain ⟨k', hk', e⟩ := mem_nb_genAct perms _ _ (hsym v _ hv (genAct_mem perms k b v))
    exact (hadj j i).2 ⟨_, k', d, hk', by rw [← e]; exact a⟩
  intro i j
  rw [Bool.eq_iff_iff]
  exact ⟨one i j, one j i⟩

/-! ## 9. the interactive BFS under orbit-restricted hypotheses, and on the library's graphs (C11x) -/

section IO
variable {α : Type} (g : Graph α) (S : List α)

theorem closedOn_orbit : ClosedOn (InOrbit g.nb S) g :=
  fun i hi x hx => hx.step (act_mem_nb g i hi x)

theorem ibfs_iter_sim {β : Type} {g' : Graph β} {f : β → α} (h : Sim g' g f) (S' : List β) (k : Nat) :
    IBfs.iter g (IBfs.init g (S'.map f)) k = (IBfs.iter g' (IBfs.init g' S') k).map f := by
  induction k with
  | zero => exact h.ibfs_init S'
  | succ k ih =>
    show (IBfs.iter g (IBfs.init g (S'.map f)) k).step g = ((IBfs.iter g' (IBfs.init g' S') k).step g').map f
    rw [ih, h.ibfs_step]

/-- `ibfs_layers` on a closed set of states `P` -/
theorem ibfs_layers_on (P : α → Prop) (hc : ClosedOn P g)
    (hinj : ∀ x y, P x → P y → g.hash x = g.hash y → x = y)
    (hsym : g.invClosed = true → SymmOn P g) (S' : List {x // P x}) (k : Nat) :
    (IBfs.iter g (IBfs.init g (S'.map Subtype.val)) k).cur.Nodup ∧
    (∀ x, x ∈ (IBfs.iter g (IBfs.init g (S'.map Subtype.val)) k).cur ↔ DistLayer g.nb (S'.map Subtype.val) k x) ∧
    (IBfs.iter g (IBfs.init g (S'.map Subtype.val)) k).hashes.length = k + 1 ∧
    (∀ i H, (IBfs.iter g (IBfs.init g (S'.map Subtype.val)) k).hashes[i]? = some H → H.Pairwise (· < ·) ∧
        ∃ L : List α, L.Nodup ∧ (∀ x, x ∈ L ↔ DistLayer g.nb (S'.map Subtype.val) i x) ∧ H = L.map g.hash) ∧
    (IBfs.iter g (IBfs.init g (S'.map Subtype.val)) k).hashes.getLast? =
      some ((IBfs.iter g (IBfs.init g (S'.map Subtype.val)) k).cur.map g.hash) := by
  have sg := sim_restrict g _ hc
  have vinj := val_inj P
  have hI : IHyp (g.restrict _ hc) :=
    ⟨fun x y e => Subtype.ext (hinj x.1 y.1 x.2 y.2 e), fun hic => symm_restrict hc (hsym hic)⟩
  obtain ⟨h1, h2, h3, h4, h5⟩ := ibfs_layers hI S' k
  rw [ibfs_iter_sim g sg S' k]
  have hcur := sg.isLayer_map vinj (S := S') (i := k) ⟨h1, h2⟩
  refine ⟨hcur.1, hcur.2, h3, ?_, ?_⟩
  · intro i H hH
    obtain ⟨a, L, l1, l2, l3⟩ := h4 i H hH
    have hL := sg.isLayer_map vinj (S := S') (i := i) ⟨l1, l2⟩
    exact ⟨a, L.map Subtype.val, hL.1, hL.2, by rw [l3, sg.map_hash]⟩
  · show (IBfs.iter (g.restrict _ hc) (IBfs.init (g.restrict _ hc) S') k).hashes.getLast? = _
    rw [h5]
    show _ = some (((IBfs.iter (g.restrict _ hc) (IBfs.init (g.restrict _ hc) S') k).cur.map Subtype.val).map g.hash)
    rw [sg.map_hash]

/-- `ibfs_layers` with hash injectivity and symmetry asked on the orbit of the start list only -/
theorem O_ibfs_layers
    (hinj : ∀ x y, InOrbit g.nb S x → InOrbit g.nb S y → g.hash x = g.hash y → x = y)
    (hsym : g.invClosed = true → ∀ x y, InOrbit g.nb S x → y ∈ g.nb x → x ∈ g.nb y) (k : Nat) :
    (IBfs.iter g (IBfs.init g S) k).cur.Nodup ∧
    (∀ x, x ∈ (IBfs.iter g (IBfs.init g S) k).cur ↔ DistLayer g.nb S k x) ∧
    (IBfs.iter g (IBfs.init g S) k).hashes.length = k + 1 ∧
    (∀ i H, (IBfs.iter g (IBfs.init g S) k).hashes[i]? = some H → H.Pairwise (· < ·) ∧
        ∃ L : List α, L.Nodup ∧ (∀ x, x ∈ L ↔ DistLayer g.nb S i x) ∧ H = L.map g.hash) ∧
    (IBfs.iter g (IBfs.init g S) k).hashes.getLast? = some ((IBfs.iter g (IBfs.init g S) k).cur.map g.hash) := by
  obtain ⟨S', hS'⟩ := exists_sub_list (InOrbit g.nb S) S (fun s hs => Transport.inOrbit_of_mem hs)
  have := ibfs_layers_on g (InOrbit g.nb S) (closedOn_orbit g S) hinj hsym S' k
  rw [hS'] at this
  exact this

end IO

section encI
variable (w n : Nat) (hw : 1 ≤ w) (hw' : w ≤ 64) (perms : List (List Nat))
  (hp : ∀ p ∈ perms, Cv.Perm.IsPermOf n p) (hash : List W → Int) (ic : Bool) (batch : Nat)
  (starts : List (List Nat)) (hs : ∀ s ∈ starts, encodable w n s = true)
  (hinj : ∀ x y, Valid w n x → Valid w n y → hash x = hash y → x = y)
  (hic : ic = true → SymmOnOrbit perms starts)
include hw hw' hp hs hinj hic

local notation "G" => encodedPermGraph w n perms hash ic batch
local notation "E" => starts.map (encode w n)
local notation "Math" => permGraphNb perms

/-- the interactive BFS on the encoded graph: after `k` steps the current layer decodes to exactly distance class `k` of
the mathematical graph, `hashes[i]` is the strictly sorted tensor of the hashes of the encodings of class `i` -/
theorem enc_ibfs_layers (k : Nat) :
    ((IBfs.iter G (IBfs.init G E) k).cur.map (decode w n)).Nodup ∧
    (∀ s, s ∈ (IBfs.iter G (IBfs.init G E) k).cur.map (decode w n) ↔ DistLayer Math starts k s) ∧
    ((IBfs.iter G (IBfs.init G E) k).cur.map (decode w n)).map (encode w n) = (IBfs.iter G (IBfs.init G E) k).cur ∧
    (IBfs.iter G (IBfs.init G E) k).hashes.length = k + 1 ∧
    (∀ i H, (IBfs.iter G (IBfs.init G E) k).hashes[i]? = some H → H.Pairwise (· < ·) ∧
        ∃ L : List (List Nat), L.Nodup ∧ (∀ s, s ∈ L ↔ DistLayer Math starts i s) ∧
          H = L.map fun s => hash (encode w n s)) ∧
    (IBfs.iter G (IBfs.init G E) k).hashes.getLast? = some ((IBfs.iter G (IBfs.init G E) k).cur.map hash) := by
  -- batch size plays no role here: take the orbit-restricted hypotheses at batch size 1
  have hH := encoded_bfsHypO w n hw hw' perms hp hash ic 1 starts hs hinj hic (by decide)
  have hnb : (encodedPermGraph w n perms hash ic 1).nb = (G).nb := rfl
  obtain ⟨h1, h2, h3, h4, h5⟩ := O_ibfs_layers G E
    (fun x y hx hy e => hH.inj x y (hnb ▸ hx) (hnb ▸ hy) e)
    (fun hc x y hx hy => hH.symm hc x y (hnb ▸ hx) hy) k
  have hcur : IsLayer G E k (IBfs.iter G (IBfs.init G E) k).cur := ⟨h1, h2⟩
  obtain ⟨a, b⟩ := encoded_layer_map w n hw hw' perms hp hash ic batch starts hs k _ hcur
  refine ⟨a, b, map_encode_decode w n hw hw' _
    (valid_of_isLayer w n hw hw' perms hp hash ic batch starts hs k _ hcur), h3, ?_, h5⟩
  intro i H hHi
  obtain ⟨c1, L, l1, l2, l3⟩ := h4 i H hHi
  obtain ⟨M, m1, m2, -, -, m5⟩ := math_layer_of_isLayer w n hw hw' perms hp hash ic batch starts hs i L ⟨l1, l2⟩
  exact ⟨c1, M, m1, m2, by rw [m5]; exact l3⟩

end encI

section plainI
variable (perms : List (List Nat)) (hash : List Nat → Int) (ic : Bool) (batch : Nat) (starts : List (List Nat))
  (hinj : ∀ s t, InOrbit (permGraphNb perms) starts s → InOrbit (permGraphNb perms) starts t →
    hash s = hash t → s = t)
  (hic : ic = true → SymmOnOrbit perms starts)
include hinj hic

local notation "P" => plainPermGraph perms hash ic batch
local notation "Math" => permGraphNb perms

theorem pl_ibfs_layers (k : Nat) :
    (IBfs.iter P (IBfs.init P starts) k).cur.Nodup ∧
    (∀ s, s ∈ (IBfs.iter P (IBfs.init P starts) k).cur ↔ DistLayer Math starts k s) ∧
    (IBfs.iter P (IBfs.init P starts) k).hashes.length = k + 1 ∧
    (∀ i H, (IBfs.iter P (IBfs.init P starts) k).hashes[i]? = some H → H.Pairwise (· < ·) ∧
        ∃ L : List (List Nat), L.Nodup ∧ (∀ s, s ∈ L ↔ DistLayer Math starts i s) ∧ H = L.map hash) ∧
    (IBfs.iter P (IBfs.init P starts) k).hashes.getLast? =
      some ((IBfs.iter P (IBfs.init P starts) k).cur.map hash) := by
  have := O_ibfs_layers P starts (by rw [plain_nb]; exact hinj) (by intro h; rw [plain_nb]; exact hic h) k
  rw [plain_nb] at this
  exact this

end plainI

/-! ## 10. the NumPy engine: naturality under an injective map, and on single-word encoded states (C11x) -/

section numpyMap
variable {α β : Type} [DecidableEq α] [DecidableEq β] (f : β → α) (finj : Function.Injective f)
include finj

theorem contains_map_inj (l : List β) (x : β) : (l.map f).contains (f x) = l.contains x := by
  rw [Bool.eq_iff_iff]
  simp only [List.contains_iff_mem, List.mem_map]
  constructor
  · rintro ⟨y, hy, e⟩; rw [← finj e]; exact hy
  · intro h; exact ⟨x, h, rfl⟩

theorem setdiff_map (a b : List β) : setdiff (a.map f) (b.map f) = (setdiff a b).map f := by
  unfold setdiff
  rw [List.filter_map]
  congr 1
  apply List.filter_congr
  intro x _
  simp only [Function.comp, contains_map_inj f finj]

omit finj [DecidableEq α] [DecidableEq β] in
theorem getD_map_nil (L : List (List β)) (i : Nat) : (L.map (List.map f)).getD i [] = (L.getD i []).map f := by
  simp only [List.getD_eq_getElem?_getD, List.getElem?_map]
  cases L[i]? <;> rfl

theorem foldl_setdiff_map (is : List Nat) (F : Nat → List β) (init : List β) :
    is.foldl (fun acc i => setdiff acc ((F i).map f)) (init.map f) =
      (is.foldl (fun acc i => setdiff acc (F i)) init).map f := by
  induction is generalizing init with
  | nil => rfl
  | cons i t ih => simp only [List.foldl_cons]; rw [setdiff_map f finj, ih]

theorem foldl_setdiff2_map (is : List Nat) (F1 F2 : Nat → List β) (init : List β) :
    is.foldl (fun st i => setdiff (setdiff st ((F1 i).map f)) ((F2 i).map f)) (init.map f) =
      (is.foldl (fun st i => setdiff (setdiff st (F1 i)) (F2 i)) init).map f := by
  induction is generalizing init with
  | nil => rfl
  | cons i t ih => simp only [List.foldl_cons]; rw [setdiff_map f finj, setdiff_map f finj, ih]

theorem makeUnique_map (L : List (List β)) :
    makeUnique (L.map (List.map f)) = (makeUnique L).map (List.map f) := by
  unfold makeUnique
  rw [List.length_map, List.map_map]
  apply List.map_congr_left
  intro i1 _
  simp only [Function.comp, getD_map_nil]
  exact foldl_setdiff_map f finj _ (fun i => L.getD i []) _

theorem numpyStep_map (nGens : Nat) (act' : Nat → β → β) (act : Nat → α → α)
    (hact : ∀ i, i < nGens → ∀ x, act i (f x) = f (act' i x)) (inv : List Nat) (l0 l1 : List (List β)) :
    numpyStep nGens act inv (l0.map (List.map f)) (l1.map (List.map f)) =
      (numpyStep nGens act' inv l0 l1).map (List.map f) := by
  unfold numpyStep
  simp only
  rw [← makeUnique_map f finj, List.map_map]
  congr 1
  apply List.map_congr_left
  intro i1 hi1
  have hi1' := List.mem_range.1 hi1
  simp only [Function.comp, getD_map_nil]
  have hng : (((List.range nGens).filter fun i2 => i2 != inv.getD i1 0).flatMap fun i2 =>
        ((l1.getD i2 []).map f).map (act i1)) =
      (((List.range nGens).filter fun i2 => i2 != inv.getD i1 0).flatMap fun i2 =>
        (l1.getD i2 []).map (act' i1)).map f := by
    rw [List.map_flatMap]
    congr 1
    funext i2
    rw [List.map_map, List.map_map]
    apply List.map_congr_left
    intro x _
    exact hact i1 hi1' x
  rw [hng]
  exact foldl_setdiff2_map f finj _ (fun i => l0.getD i []) (fun i => l1.getD i []) _

omit finj [DecidableEq α] [DecidableEq β] in
theorem sum_length_map (X : List (List β)) :
    ((X.map (List.map f)).map List.length).sum = (X.map List.length).sum := by
  rw [List.map_map]
  congr 1
  apply List.map_congr_left
  intro l _
  simp

theorem numpyLoop_map (nGens : Nat) (act' : Nat → β → β) (act : Nat → α → α)
    (hact : ∀ i, i < nGens → ∀ x, act i (f x) = f (act' i x)) (inv : List Nat) (fuel : Nat) :
    ∀ (l0 l1 : List (List β)) (sizes : List Nat),
      numpyLoop nGens act inv fuel (l0.map (List.map f)) (l1.map (List.map f)) sizes =
        numpyLoop nGens act' inv fuel l0 l1 sizes := by
  induction fuel with
  | zero => intro l0 l1 sizes; rfl
  | succ fuel ih =>
    intro l0 l1 sizes
    rw [numpyLoop_succ, numpyLoop_succ, numpyStep_map f finj nGens act' act hact, sum_length_map]
    split
    · rfl
    · exact ih _ _ _

theorem length_eraseDups_map (l : List β) : (l.map f).eraseDups.length = l.eraseDups.length := by
  have h1 : (l.eraseDups.map f).Nodup := by
    rw [List.nodup_iff_pairwise_ne, List.pairwise_map]
    exact (List.nodup_iff_pairwise_ne.1 (nodup_eraseDups' l)).imp (fun hab e => hab (finj e))
  have hp : ((l.map f).eraseDups).Perm (l.eraseDups.map f) := by
    rw [List.perm_ext_iff_of_nodup (nodup_eraseDups' _) h1]
    intro a
    simp only [List.mem_eraseDups, List.mem_map]
  rw [hp.length_eq, List.length_map]

theorem bfsNumpy_map (nGens : Nat) (act' : Nat → β → β) (act : Nat → α → α)
    (hact : ∀ i, i < nGens → ∀ x, act i (f x) = f (act' i x)) (inv : List Nat) (start : β) (D : Nat) :
    bfsNumpy nGens act inv (f start) D = bfsNumpy nGens act' inv start D := by
  unfold bfsNumpy
  have h0 : List.replicate nGens [f start] = (List.replicate nGens [start]).map (List.map f) := by
    rw [List.map_replicate]; rfl
  have h1 : makeUnique ((List.range nGens).map fun i => setdiff [act i (f start)] [f start]) =
      (makeUnique ((List.range nGens).map fun i => setdiff [act' i start] [start])).map (List.map f) := by
    rw [← makeUnique_map f finj, List.map_map]
    congr 1
    apply List.map_congr_left
    intro i hi
    simp only [Function.comp]
    rw [hact i (List.mem_range.1 hi) start, ← setdiff_map f finj]
    rfl
  simp only
  rw [h0, h1, ← List.map_flatten, length_eraseDups_map f finj]
  split
  · rfl
  · exact numpyLoop_map f finj nGens act' act hact inv _ _ _ _

end numpyMap

section encNumpy
variable (w n : Nat) (hw : 1 ≤ w) (hw' : w ≤ 64) (perms : List (List Nat))
  (hp : ∀ p ∈ perms, Cv.Perm.IsPermOf n p) (hash : List W → Int) (ic : Bool) (batch : Nat)
include hw hw' hp

local notation "G" => encodedPermGraph w n perms hash ic batch
local notation "Math" => permGraphNb perms

/-- on encodings, the library's `generators_inverse_map` gives TWO-SIDED inverses of the compiled routines -/
theorem enc_numpyHyp (invIdx : List Nat) (hm : permInvMap perms = some invIdx) :
    NumpyHyp perms.length
      ((G).restrict (Valid w n) (encoded_closed w n hw hw' perms hp hash ic batch)).act invIdx := by
  obtain ⟨h1, h2⟩ := Cv.GraphDef.inverseMapPerm_spec n perms hp invIdx hm
  refine ⟨h1, ?_⟩
  intro i hi
  obtain ⟨j, hj1, hj2, hj3, -, -⟩ := h2 i hi
  refine ⟨j, hj1, hj2, ?_⟩
  intro x
  have hc := encoded_closed w n hw hw' perms hp hash ic batch
  have hi0 : i < (G).nGens := hi
  have hj0 : j < (G).nGens := hj2
  obtain ⟨x, s, hs, rfl⟩ := x
  have hcancel := Cv.Perm.apply_inverse_cancel n _ (hp _ (getD_mem perms [] i hi)) s (length_of_encodable hs)
  constructor
  · apply Subtype.ext
    rw [restrict_act hc j hj0, restrict_act hc i hi0]
    show (G).act j ((G).act i (encode w n s)) = encode w n s
    rw [encoded_act_genAct w n hw hw' perms hp hash ic batch i hi s,
      encoded_act_genAct w n hw hw' perms hp hash ic batch j hj2 _]
    congr 1
    unfold genAct
    rw [hj3]
    exact hcancel.1
  · apply Subtype.ext
    rw [restrict_act hc i hi0, restrict_act hc j hj0]
    show (G).act i ((G).act j (encode w n s)) = encode w n s
    rw [encoded_act_genAct w n hw hw' perms hp hash ic batch j hj2 s,
      encoded_act_genAct w n hw hw' perms hp hash ic batch i hi _]
    congr 1
    unfold genAct
    rw [hj3]
    exact hcancel.2

/-- **NumPy engine on single-word encoded states**: run with the 1-D routines (`encodedPermGraph1d`) and the library's
inverse map from the encoding of `start`, it reports the growth function of the mathematical graph -/
theorem enc_bfsNumpy_spec (hlen : encLen w n = 1) (invIdx : List Nat) (hm : permInvMap perms = some invIdx)
    (start : List Nat) (hs : encodable w n start = true) (D : Nat) (hD : 1 ≤ D) :
    (∀ (i m : Nat),
      (bfsNumpy perms.length (encodedPermGraph1d w n perms hash ic batch).act invIdx (encode w n start) D)[i]? =
          some m →
        ∃ L : List (List Nat), L.Nodup ∧ (∀ s, s ∈ L ↔ DistLayer Math [start] i s) ∧ m = L.length) ∧
    1 ≤ (bfsNumpy perms.length (encodedPermGraph1d w n perms hash ic batch).act invIdx (encode w n start) D).length ∧
    (bfsNumpy perms.length (encodedPermGraph1d w n perms hash ic batch).act invIdx (encode w n start) D).length ≤
      D + 1 ∧
    ((bfsNumpy perms.length (encodedPermGraph1d w n perms hash ic batch).act invIdx (encode w n start) D).length <
        D + 1 →
      ∀ s, ¬ DistLayer Math [start]
        (bfsNumpy perms.length (encodedPermGraph1d w n perms hash ic batch).act invIdx (encode w n start) D).length
        s) := by
  have hc := encoded_closed w n hw hw' perms hp hash ic batch
  have sg1 := (encoded1d_agree w n hw hw' hlen perms hp hash ic batch).sim hc
  have sg := sim_restrict G (Valid w n) hc
  let x0 : {x // Valid w n x} := ⟨encode w n start, ⟨start, hs, rfl⟩⟩
  have hmap := bfsNumpy_map (Subtype.val : {x // Valid w n x} → List W) (val_inj _) perms.length
    ((G).restrict (Valid w n) hc).act (encodedPermGraph1d w n perms hash ic batch).act
    (fun i hi x => sg1.act i hi x) invIdx x0 D
  have hx0 : (x0 : {x // Valid w n x}).1 = encode w n start := rfl
  rw [hx0] at hmap
  rw [hmap]
  obtain ⟨a, b, c, d⟩ := bfsNumpy_spec' perms.length ((G).restrict (Valid w n) hc).act invIdx
    (enc_numpyHyp w n hw hw' perms hp hash ic batch invIdx hm) x0 D hD
  -- transport along `decode ∘ val`
  have hnbR : nbOf perms.length ((G).restrict (Valid w n) hc).act = ((G).restrict (Valid w n) hc).nb := rfl
  have hcomm : ∀ x : {x // Valid w n x}, InOrbit (nbOf perms.length ((G).restrict (Valid w n) hc).act) [x0] x →
      ((nbOf perms.length ((G).restrict (Valid w n) hc).act) x).map (fun y => decode w n y.1) =
        Math (decode w n x.1) := by
    intro x _
    rw [hnbR, ← encoded_hcomm w n hw hw' perms hp hash ic batch x.1 x.2, sg.nb x, List.map_map]
    rfl
  have hinjf : ∀ x y : {x // Valid w n x}, InOrbit (nbOf perms.length ((G).restrict (Valid w n) hc).act) [x0] x →
      InOrbit (nbOf perms.length ((G).restrict (Valid w n) hc).act) [x0] y →
      decode w n x.1 = decode w n y.1 → x = y :=
    fun x y _ _ e => Subtype.ext (decode_inj_valid w n hw hw' x.1 y.1 x.2 y.2 e)
  have hS : [x0].map (fun y : {x // Valid w n x} => decode w n y.1) = [start] := by
    show [decode w n (encode w n start)] = [start]
    rw [decode_encode w n hw hw' start hs]
  refine ⟨?_, b, c, ?_⟩
  · intro i m him
    obtain ⟨L, l1, l2, l3⟩ := a i m him
    obtain ⟨q1, q2⟩ := Transport.layer_map _ Math (fun y : {x // Valid w n x} => decode w n y.1) [x0] hcomm hinjf
      i L l1 l2
    rw [hS] at q2
    exact ⟨_, q1, q2, by rw [l3, List.length_map]⟩
  · intro hlt s hsd
    rw [← hS] at hsd
    obtain ⟨x, hx, -⟩ := Transport.distLayer_lift _ Math (fun y : {x // Valid w n x} => decode w n y.1) [x0] hcomm
      hinjf _ s hsd
    exact d hlt x hx

end encNumpy

/-- the engine works on SCALARS (a 1-D `int64` array): the same run with states `W` instead of one-word rows -/
theorem bfsNumpy_scalar_eq (w n : Nat) (hlen : encLen w n = 1) (perms : List (List Nat)) (hash : List W → Int)
    (ic : Bool) (batch : Nat) (invIdx : List Nat) (start : List Nat) (D : Nat) :
    bfsNumpy perms.length (fun i (x : W) => evalProg1d (compile (perms.getD i []) w n) x) invIdx
        ((encode w n start).getD 0 0#64) D =
      bfsNumpy perms.length (encodedPermGraph1d w n perms hash ic batch).act invIdx (encode w n start) D := by
  have h1 : encode w n start = [(encode w n start).getD 0 0#64] := by
    have hl : (encode w n start).length = 1 := by rw [length_encode, hlen]
    match encode w n start, hl with
    | [a], _ => rfl
  have := bfsNumpy_map (fun x : W => [x]) (fun a b e => by simpa using e) perms.length
    (fun i (x : W) => evalProg1d (compile (perms.getD i []) w n) x)
    (encodedPermGraph1d w n perms hash ic batch).act (fun i _ x => rfl) invIdx
    ((encode w n start).getD 0 0#64) D
  rw [← h1] at this
  exact this.symm

/-- single-word states: the interactive BFS on the graph of the 1-D routines is the one on `encodedPermGraph` -/
theorem ibfs1d_eq (w n : Nat) (hw : 1 ≤ w) (hw' : w ≤ 64) (hlen : encLen w n = 1)
    (perms : List (List Nat)) (hp : ∀ p ∈ perms, Cv.Perm.IsPermOf n p) (hash : List W → Int) (ic : Bool)
    (batch : Nat) (starts : List (List Nat)) (hs : ∀ s ∈ starts, encodable w n s = true) (k : Nat) :
    IBfs.iter (encodedPermGraph1d w n perms hash ic batch)
        (IBfs.init (encodedPermGraph1d w n perms hash ic batch) (starts.map (encode w n))) k =
      IBfs.iter (encodedPermGraph w n perms hash ic batch)
        (IBfs.init (encodedPermGraph w n perms hash ic batch) (starts.map (encode w n))) k := by
  have hc := encoded_closed w n hw hw' perms hp hash ic batch
  have sg1 := (encoded1d_agree w n hw hw' hlen perms hp hash ic batch).sim hc
  have sg := sim_restrict (encodedPermGraph w n perms hash ic batch) (Valid w n) hc
  obtain ⟨S', hS'⟩ := exists_sub_list (Valid w n) (starts.map (encode w n)) (fun x hx => by
    obtain ⟨s, hsm, rfl⟩ := List.mem_map.1 hx
    exact ⟨s, hs s hsm, rfl⟩)
  rw [← hS', ibfs_iter_sim _ sg1 S' k, ibfs_iter_sim _ sg S' k]

/-! ## 11. the early-stopped export WITH MULTIPLICITY -/

section XP
variable {α : Type} [DecidableEq α]

/-- early-stopped run, WITH MULTIPLICITY: the edge list is a rearrangement of the out-edges of the vertices of the
non-final layers (`Vn`, a prefix of the vertex list) followed by the REVERSED out-edges of the last expanded layer `Lp` -/
theorem export_partial_perm (g : Graph α) (S : List α) (h : BfsHyp g S) (c : BfsCfg α)
    (he : c.returnEdges = true) (hh : c.returnHashes = true)
    (hall : ∀ j, j < (bfs g c S).layerSizes.length → ∃ L, (j, L) ∈ (bfs g c S).layers)
    (hcomp : (bfs g c S).completed = false) (hstep : 2 ≤ (bfs g c S).layerSizes.length) :
    ∃ V E Vn Vl Lp, allStates (bfs g c S) = some V ∧ edgesList (bfs g c S) = some E ∧ V = Vn ++ Vl ∧
      (∀ x, x ∈ Vn ↔ ∃ j, j + 1 < (bfs g c S).layerSizes.length ∧ DistLayer g.nb S j x) ∧
      IsLayer g S ((bfs g c S).layerSizes.length - 1) Vl ∧
      IsLayer g S ((bfs g c S).layerSizes.length - 2) Lp ∧
      E.Perm ((Vn.flatMap fun v => (List.range g.nGens).map fun i => (V.idxOf v, V.idxOf (g.act i v))) ++
        (Lp.flatMap fun v => (List.range g.nGens).map fun i => (V.idxOf (g.act i v), V.idxOf v))) := by
  obtain ⟨Ls, hsz, hL, hlen, hfind, hhash, -, hedp⟩ := export_common h c he hh hall
  have hV := allStates_eq _ Ls hsz hlen hfind
  have hnd := layers_flatten_nodup Ls hL
  have hmem := mem_layers_flatten Ls hL
  have hk : (bfs g c S).layerSizes.length = Ls.length := by rw [hsz, List.length_map]
  rw [hk] at hstep ⊢
  have hinjV : ∀ x ∈ Ls.flatten, ∀ y ∈ Ls.flatten, g.hash x = g.hash y → x = y := by
    intro x hx y hy e
    obtain ⟨j, -, hd⟩ := (hmem x).1 hx
    obtain ⟨j', -, hd'⟩ := (hmem y).1 hy
    exact h.inj x y hd.inOrbit hd'.inOrbit e
  have hclosed : ∀ j v, j + 1 < Ls.length → DistLayer g.nb S j v →
      v ∈ Ls.flatten ∧ ∀ i, i < g.nGens → g.act i v ∈ Ls.flatten := by
    intro j v hj hd
    refine ⟨(hmem v).2 ⟨j, by omega, hd⟩, ?_⟩
    intro i hi
    have hr : Reach g.nb S (j + 1) (g.act i v) := (reach_succ ..).2 ⟨v, hd.1, act_mem_nb g i hi v⟩
    obtain ⟨j', hj', hd'⟩ := exists_distLayer_of_reach hr
    exact (hmem _).2 ⟨j', by omega, hd'⟩
  have hsub : ∀ L ∈ Ls.take (Ls.length - 1), ∀ x ∈ L,
      x ∈ Ls.flatten ∧ ∀ i, i < g.nGens → g.act i x ∈ Ls.flatten := by
    intro L hLm x hx
    obtain ⟨j, hj, hget⟩ := (mem_take_iff _ _ _).1 hLm
    exact hclosed j x (by omega) (((hL j L hget).2 x).1 hx)
  have hlastget : Ls[Ls.length - 2]? = some (Ls.getD (Ls.length - 2) []) := by
    rw [List.getD_eq_getElem?_getD, List.getElem?_eq_getElem (by omega)]; rfl
  have hlastmem : Ls.getD (Ls.length - 2) [] ∈ Ls.take (Ls.length - 1) :=
    (mem_take_iff _ _ _).2 ⟨Ls.length - 2, by omega, hlastget⟩
  have hflat : (bfs g c S).hashes.flatten = Ls.flatten.map g.hash := by
    rw [hhash, List.map_flatten]
  have hE := edgesList_eq (bfs g c S) _ _ (hedp hcomp hstep) (by rw [hhash, List.length_map, hk]) hflat
    (nodup_map_hash g _ hnd hinjV) (by
      intro e hem
      rcases List.mem_append.1 hem with hem | hem
      · obtain ⟨L, hLm, heL⟩ := List.mem_flatMap.1 hem
        exact mem_edgeBlock_flat g _ L (hsub L hLm) e heL
      · obtain ⟨e', he', rfl⟩ := List.mem_map.1 hem
        have := mem_edgeBlock_flat g _ _ (hsub _ hlastmem) e' he'
        exact ⟨this.2, this.1⟩)
  rw [List.map_append, map_edgeBlocks g _ _ hinjV hsub, List.map_map] at hE
  have hswap : ((fun e : Int × Int => ((Ls.flatten.map g.hash).idxOf e.1, (Ls.flatten.map g.hash).idxOf e.2)) ∘
      Prod.swap) = Prod.swap ∘
        (fun e : Int × Int => ((Ls.flatten.map g.hash).idxOf e.1, (Ls.flatten.map g.hash).idxOf e.2)) := by
    funext e; rfl
  rw [hswap, ← List.map_map, map_edgeBlock g _ _ hinjV (hsub _ hlastmem)] at hE
  -- the last layer
  have hlast1 : Ls[Ls.length - 1]? = some (Ls.getD (Ls.length - 1) []) := by
    rw [List.getD_eq_getElem?_getD, List.getElem?_eq_getElem (by omega)]; rfl
  have hsplit : Ls.flatten = (Ls.take (Ls.length - 1)).flatten ++ Ls.getD (Ls.length - 1) [] := by
    conv => lhs; rw [← List.take_append_drop (Ls.length - 1) Ls]
    rw [List.flatten_append]
    congr 1
    have hd : Ls.drop (Ls.length - 1) = [Ls.getD (Ls.length - 1) []] := by
      rw [List.drop_eq_getElem_cons (by omega), List.drop_of_length_le (by omega),
        List.getD_eq_getElem?_getD, List.getElem?_eq_getElem (by omega)]
      rfl
    rw [hd]; simp
  refine ⟨Ls.flatten, _, (Ls.take (Ls.length - 1)).flatten, Ls.getD (Ls.length - 1) [],
    Ls.getD (Ls.length - 2) [], hV, hE, hsplit, ?_, hL _ _ hlast1, hL _ _ hlastget, ?_⟩
  · intro x
    rw [List.mem_flatten]
    constructor
    · rintro ⟨L, hLm, hx⟩
      obtain ⟨j, hj, hget⟩ := (mem_take_iff _ _ _).1 hLm
      exact ⟨j, by omega, ((hL j L hget).2 x).1 hx⟩
    · rintro ⟨j, hj, hd⟩
      have hjl : j < Ls.length := by omega
      exact ⟨Ls[j], (mem_take_iff _ _ _).2 ⟨j, by omega, List.getElem?_eq_getElem hjl⟩,
        ((hL j _ (List.getElem?_eq_getElem hjl)).2 x).2 hd⟩
  · apply List.Perm.append
    · rw [flatten_flatMap]
      exact flatMap_perm_congr _ _ _ (fun L _ => idxBlock_perm g _ L)
    · refine ((idxBlock_perm g Ls.flatten (Ls.getD (Ls.length - 2) [])).map Prod.swap).trans (List.Perm.of_eq ?_)
      rw [List.map_flatMap]
      apply flatMap_congr'
      intro v _
      rw [List.map_map]
      rfl


/-- … under orbit-restricted hypotheses -/
theorem O_export_partial_perm (g : Graph α) (S : List α) (h : BfsHypO g S) (c : BfsCfg α)
    (he : c.returnEdges = true) (hh : c.returnHashes = true)
    (hall : ∀ j, j < (bfs g c S).layerSizes.length → ∃ L, (j, L) ∈ (bfs g c S).layers)
    (hcomp : (bfs g c S).completed = false) (hstep : 2 ≤ (bfs g c S).layerSizes.length) :
    ∃ V E Vn Vl Lp, allStates (bfs g c S) = some V ∧ edgesList (bfs g c S) = some E ∧ V = Vn ++ Vl ∧
      (∀ x, x ∈ Vn ↔ ∃ j, j + 1 < (bfs g c S).layerSizes.length ∧ DistLayer g.nb S j x) ∧
      IsLayer g S ((bfs g c S).layerSizes.length - 1) Vl ∧
      IsLayer g S ((bfs g c S).layerSizes.length - 2) Lp ∧
      E.Perm ((Vn.flatMap fun v => (List.range g.nGens).map fun i => (V.idxOf v, V.idxOf (g.act i v))) ++
        (Lp.flatMap fun v => (List.range g.nGens).map fun i => (V.idxOf (g.act i v), V.idxOf v))) := by
  have := export_partial_perm (orbitGraph g S) S (bfsHyp_orbitGraph h) c he hh
  simp only [bfs_orbitGraph, distLayer_orbitGraph, isLayer_orbitGraph, orbitGraph_nGens] at this
  obtain ⟨V, E, Vn, Vl, Lp, h1, h2, h3, h4, h5, h6, h7⟩ := this hall hcomp hstep
  refine ⟨V, E, Vn, Vl, Lp, h1, h2, h3, h4, h5, h6, h7.trans (List.Perm.of_eq ?_)⟩
  congr 1
  · apply flatMap_congr'
    intro v hv
    obtain ⟨j, -, hd⟩ := (h4 v).1 hv
    apply List.map_congr_left
    intro i _
    rw [orbitGraph_act_of_orbit g S i v hd.inOrbit]
  · apply flatMap_congr'
    intro v hv
    apply List.map_congr_left
    intro i _
    rw [orbitGraph_act_of_orbit g S i v ((h6.2 v).1 hv).inOrbit]

/-- … and read through a representation map `f` -/
theorem R_export_partial_perm {β : Type} [DecidableEq β] (g : Graph α) (S : List α) (nb₂ : β → List β)
    (act₂ : Nat → β → β) (f : α → β)
    (hcomm : ∀ x, InOrbit g.nb S x → (g.nb x).map f = nb₂ (f x))
    (hact : ∀ x, InOrbit g.nb S x → ∀ i, i < g.nGens → f (g.act i x) = act₂ i (f x))
    (hinj : ∀ x y, InOrbit g.nb S x → InOrbit g.nb S y → f x = f y → x = y)
    (h : BfsHypO g S) (c : BfsCfg α)
    (he : c.returnEdges = true) (hh : c.returnHashes = true)
    (hall : ∀ j, j < (bfs g c S).layerSizes.length → ∃ L, (j, L) ∈ (bfs g c S).layers)
    (hcomp : (bfs g c S).completed = false) (hstep : 2 ≤ (bfs g c S).layerSizes.length) :
    ∃ (V : List α) (E : List (Nat × Nat)) (Dn Dl Dp : List β),
      allStates (bfs g c S) = some V ∧ edgesList (bfs g c S) = some E ∧ V.map f = Dn ++ Dl ∧
      (∀ z, z ∈ Dn ↔ ∃ j, j + 1 < (bfs g c S).layerSizes.length ∧ DistLayer nb₂ (S.map f) j z) ∧
      (Dl.Nodup ∧ ∀ z, z ∈ Dl ↔ DistLayer nb₂ (S.map f) ((bfs g c S).layerSizes.length - 1) z) ∧
      (Dp.Nodup ∧ ∀ z, z ∈ Dp ↔ DistLayer nb₂ (S.map f) ((bfs g c S).layerSizes.length - 2) z) ∧
      E.Perm ((Dn.flatMap fun v => (List.range g.nGens).map fun i =>
          ((V.map f).idxOf v, (V.map f).idxOf (act₂ i v))) ++
        (Dp.flatMap fun v => (List.range g.nGens).map fun i =>
          ((V.map f).idxOf (act₂ i v), (V.map f).idxOf v))) := by
  obtain ⟨V, E, Vn, Vl, Lp, h1, h2, h3, h4, h5, h6, h7⟩ := O_export_partial_perm g S h c he hh hall hcomp hstep
  have horbn : ∀ x ∈ Vn, InOrbit g.nb S x := fun x hx => by
    obtain ⟨j, -, hd⟩ := (h4 x).1 hx; exact hd.inOrbit
  have horbl : ∀ x ∈ Vl, InOrbit g.nb S x := fun x hx => ((h5.2 x).1 hx).inOrbit
  have horbp : ∀ x ∈ Lp, InOrbit g.nb S x := fun x hx => ((h6.2 x).1 hx).inOrbit
  have horb : ∀ x ∈ V, InOrbit g.nb S x := by
    intro x hx
    rw [h3] at hx
    rcases List.mem_append.1 hx with hx | hx
    · exact horbn x hx
    · exact horbl x hx
  have hidx : ∀ v, InOrbit g.nb S v → (V.map f).idxOf (f v) = V.idxOf v :=
    fun v hvo => idxOf_map_injOn f V v (fun y hy => hinj y v (horb y hy) hvo)
  have hidx2 : ∀ v k, InOrbit g.nb S v → k < g.nGens → (V.map f).idxOf (act₂ k (f v)) = V.idxOf (g.act k v) := by
    intro v k hvo hk
    rw [← hact v hvo k hk]
    exact hidx _ (inOrbit_act g S hvo k hk)
  refine ⟨V, E, Vn.map f, Vl.map f, Lp.map f, h1, h2, by rw [h3, List.map_append], ?_,
    Transport.layer_map g.nb nb₂ f S hcomm hinj _ Vl h5.1 h5.2,
    Transport.layer_map g.nb nb₂ f S hcomm hinj _ Lp h6.1 h6.2, h7.trans (List.Perm.of_eq ?_)⟩
  · intro z
    rw [List.mem_map]
    constructor
    · rintro ⟨x, hx, rfl⟩
      obtain ⟨j, hj, hd⟩ := (h4 x).1 hx
      exact ⟨j, hj, (Transport.distLayer_iff g.nb nb₂ f S hcomm hinj j x hd.inOrbit).1 hd⟩
    · rintro ⟨j, hj, hd⟩
      obtain ⟨x, hx, rfl⟩ := Transport.distLayer_lift g.nb nb₂ f S hcomm hinj j z hd
      exact ⟨x, (h4 x).2 ⟨j, hj, hx⟩, rfl⟩
  · rw [List.flatMap_map, List.flatMap_map]
    congr 1
    · apply flatMap_congr'
      intro v hv
      apply List.map_congr_left
      intro i hi
      rw [hidx v (horbn v hv), hidx2 v i (horbn v hv) (List.mem_range.1 hi)]
    · apply flatMap_congr'
      intro v hv
      apply List.map_congr_left
      intro i hi
      rw [hidx v (horbp v hv), hidx2 v i (horbp v hv) (List.mem_range.1 hi)]

end XP

section encXP
variable (w n : Nat) (hw : 1 ≤ w) (hw' : w ≤ 64) (perms : List (List Nat))
  (hp : ∀ p ∈ perms, Cv.Perm.IsPermOf n p) (hash : List W → Int) (ic : Bool) (batch : Nat)
  (starts : List (List Nat)) (hs : ∀ s ∈ starts, encodable w n s = true)
  (hinj : ∀ x y, Valid w n x → Valid w n y → hash x = hash y → x = y)
  (hic : ic = true → SymmOnOrbit perms starts) (hb : 0 < batch) (c : BfsCfg (List W))
include hw hw' hp hs hinj hic hb

local notation "G" => encodedPermGraph w n perms hash ic batch
local notation "E" => starts.map (encode w n)
local notation "Math" => permGraphNb perms

theorem enc_export_partial_perm (he : c.returnEdges = true) (hh : c.returnHashes = true)
    (hall : ∀ j, j < (bfs G c E).layerSizes.length → ∃ L, (j, L) ∈ (bfs G c E).layers)
    (hcomp : (bfs G c E).completed = false) (hstep : 2 ≤ (bfs G c E).layerSizes.length) :
    ∃ (V : List (List W)) (Ed : List (Nat × Nat)) (Dn Dl Dp : List (List Nat)),
      allStates (bfs G c E) = some V ∧ edgesList (bfs G c E) = some Ed ∧ V.map (decode w n) = Dn ++ Dl ∧
      (∀ s, s ∈ Dn ↔ ∃ j, j + 1 < (bfs G c E).layerSizes.length ∧ DistLayer Math starts j s) ∧
      (Dl.Nodup ∧ ∀ s, s ∈ Dl ↔ DistLayer Math starts ((bfs G c E).layerSizes.length - 1) s) ∧
      (Dp.Nodup ∧ ∀ s, s ∈ Dp ↔ DistLayer Math starts ((bfs G c E).layerSizes.length - 2) s) ∧
      Ed.Perm ((Dn.flatMap fun v => (List.range perms.length).map fun i =>
          ((V.map (decode w n)).idxOf v, (V.map (decode w n)).idxOf (genAct perms i v))) ++
        (Dp.flatMap fun v => (List.range perms.length).map fun i =>
          ((V.map (decode w n)).idxOf (genAct perms i v), (V.map (decode w n)).idxOf v))) := by
  have hval := valid_of_inOrbit w n hw hw' perms hp hash ic batch starts hs
  have hH := encoded_bfsHypO w n hw hw' perms hp hash ic batch starts hs hinj hic hb
  have := R_export_partial_perm G E Math (genAct perms) (decode w n)
    (fun x hx => encoded_hcomm w n hw hw' perms hp hash ic batch x (hval x hx))
    (fun x hx i hi => decode_act w n hw hw' perms hp hash ic batch x (hval x hx) i hi)
    (fun x y hx hy => decode_inj_valid w n hw hw' x y (hval x hx) (hval y hy)) hH c he hh hall hcomp hstep
  rw [map_decode_encode w n hw hw' starts hs] at this
  simp only [idxOf_listNat] at this
  exact this

end encXP

section plainXP
variable (perms : List (List Nat)) (hash : List Nat → Int) (ic : Bool) (batch : Nat) (starts : List (List Nat))
  (hinj : ∀ s t, InOrbit (permGraphNb perms) starts s → InOrbit (permGraphNb perms) starts t →
    hash s = hash t → s = t)
  (hic : ic = true → SymmOnOrbit perms starts) (hb : 0 < batch) (c : BfsCfg (List Nat))
include hinj hic hb

local notation "P" => plainPermGraph perms hash ic batch
local notation "Math" => permGraphNb perms

theorem pl_export_partial_perm (he : c.returnEdges = true) (hh : c.returnHashes = true)
    (hall : ∀ j, j < (bfs P c starts).layerSizes.length → ∃ L, (j, L) ∈ (bfs P c starts).layers)
    (hcomp : (bfs P c starts).completed = false) (hstep : 2 ≤ (bfs P c starts).layerSizes.length) :
    ∃ (V : List (List Nat)) (Ed : List (Nat × Nat)) (Vn Vl Lp : List (List Nat)),
      allStates (bfs P c starts) = some V ∧ edgesList (bfs P c starts) = some Ed ∧ V = Vn ++ Vl ∧
      (∀ s, s ∈ Vn ↔ ∃ j, j + 1 < (bfs P c starts).layerSizes.length ∧ DistLayer Math starts j s) ∧
      (Vl.Nodup ∧ ∀ s, s ∈ Vl ↔ DistLayer Math starts ((bfs P c starts).layerSizes.length - 1) s) ∧
      (Lp.Nodup ∧ ∀ s, s ∈ Lp ↔ DistLayer Math starts ((bfs P c starts).layerSizes.length - 2) s) ∧
      Ed.Perm ((Vn.flatMap fun v => (List.range perms.length).map fun i =>
          (V.idxOf v, V.idxOf (genAct perms i v))) ++
        (Lp.flatMap fun v => (List.range perms.length).map fun i =>
          (V.idxOf (genAct perms i v), V.idxOf v))) := by
  have := O_export_partial_perm P starts (plain_bfsHypO perms hash ic batch starts hinj hic hb) c he hh hall hcomp
    hstep
  unfold IsLayer at this
  rw [plain_nb] at this
  simp only [idxOf_listNat] at this
  exact this

end plainXP

end Cv.InstX
