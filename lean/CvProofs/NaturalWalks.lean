/-
  Naturality of the three random-walk generators (`walksClassic`, `walksBfs`, `walksNbt`, CvModel/Beam.lean)
  with respect to a `GraphMap`.  Core Lean only.
-/
import CvProofs.Natural
namespace Cv

variable {α β : Type} {h : Graph β} {g : Graph α} {f : β → α}

namespace GraphMap

/-- a filter that looks at a state only through its hash commutes with `map f` -/
theorem filter_hash (m : GraphMap h g f) (p : Int → Bool) (xs : List β) :
    (xs.filter fun x => p (h.hash x)).map f = (xs.map f).filter fun x => p (g.hash x) := by
  induction xs with
  | nil => rfl
  | cons a t ih =>
    simp only [List.filter_cons, List.map_cons, m.hash a]
    split
    · rw [List.map_cons, ih]
    · exact ih

theorem unique_neighbors (m : GraphMap h g f) (xs : List β) :
    (h.unique (h.neighbors xs)).map f = g.unique (g.neighbors (xs.map f)) := by
  rw [m.unique, m.neighbors]

end GraphMap

theorem map_pair_step (f : β → α) (l : List β) (n : Nat) :
    (l.map fun x => (x, n)).map (Prod.map f id) = (l.map f).map fun x => (x, n) := by
  rw [List.map_map, List.map_map]
  rfl

/-! ### BFS mode -/

theorem walksBfsLoop_map (m : GraphMap h g f) (width : Nat) :
    ∀ (fuel iStep : Nat) (cur : List β) (seen : HashSetM) (perms : List (List Nat)) (out : List (β × Nat)),
      (walksBfsLoop h width fuel iStep cur seen perms out).map (Prod.map f id) =
        walksBfsLoop g width fuel iStep (cur.map f) seen perms (out.map (Prod.map f id)) := by
  intro fuel
  induction fuel with
  | zero => intro iStep cur seen perms out; rfl
  | succ fuel ih =>
    intro iStep cur seen perms out
    have hn : ((h.unique (h.neighbors cur)).filter fun x => seen.unseen (h.hash x)).map f =
        (g.unique (g.neighbors (cur.map f))).filter fun x => seen.unseen (g.hash x) := by
      rw [m.filter_hash (fun v => seen.unseen v), m.unique_neighbors]
    simp only [walksBfsLoop]
    rw [← hn]
    generalize ((h.unique (h.neighbors cur)).filter fun x => seen.unseen (h.hash x)) = nxt
    rw [List.isEmpty_map, List.length_map]
    by_cases he : nxt.isEmpty = true
    · rw [if_pos he, if_pos he]
    · rw [if_neg he, if_neg he]
      by_cases hw : nxt.length > width
      · rw [if_pos hw, if_pos hw]
        cases perms with
        | nil =>
          simp only []
          rw [ih, List.map_append, map_pair_step, m.map_hash, List.map_take]
        | cons p rest =>
          simp only []
          rw [ih, List.map_append, map_pair_step, m.map_hash, gather_map]
      · rw [if_neg hw, if_neg hw]
        simp only []
        rw [ih, List.map_append, map_pair_step, m.map_hash]

theorem walksBfs_map (m : GraphMap h g f) (width length : Nat) (start : β) (perms : List (List Nat)) :
    (walksBfs h width length start perms).map (Prod.map f id) = walksBfs g width length (f start) perms := by
  unfold walksBfs
  rw [walksBfsLoop_map m, m.hash start]
  rfl

/-! ### nbt mode -/

theorem walksNbtLoop_map (m : GraphMap h g f) (width historyDepth : Nat) :
    ∀ (fuel : Nat) (cur : List β) (ring : Ring) (cyc stepCorrected : Nat) (perms : List (List Nat))
      (out : List (β × Nat)),
      (walksNbtLoop h width historyDepth fuel cur ring cyc stepCorrected perms out).map (Prod.map f id) =
        walksNbtLoop g width historyDepth fuel (cur.map f) ring cyc stepCorrected perms
          (out.map (Prod.map f id)) := by
  intro fuel
  induction fuel with
  | zero => intro cur ring cyc stepCorrected perms out; rfl
  | succ fuel ih =>
    intro cur ring cyc stepCorrected perms out
    have hf : ((h.neighbors cur).filter fun x => !ring.flatten.contains (h.hash x)).map f =
        (g.neighbors (cur.map f)).filter fun x => !ring.flatten.contains (g.hash x) := by
      rw [m.filter_hash (fun v => !ring.flatten.contains v), m.neighbors]
    have hH : (h.neighbors cur).map h.hash = (g.neighbors (cur.map f)).map g.hash := by
      rw [m.map_hash, m.neighbors]
    simp only [walksNbtLoop]
    rw [← hf, hH, ← m.neighbors]
    generalize ((h.neighbors cur).filter fun x => !ring.flatten.contains (h.hash x)) = fresh
    generalize h.neighbors cur = all
    rw [List.length_map]
    by_cases hd : historyDepth > 0
    · simp only [if_pos hd]
      by_cases h1 : fresh.length ≥ width
      · simp only [if_pos h1]
        rw [ih, List.map_append, map_pair_step, List.map_take, gather_map, List.length_map]
      · simp only [if_neg h1]
        by_cases h2 : fresh.length > 0
        · simp only [if_pos h2]
          have hc : (List.replicate (ceilDiv width fresh.length) (fresh.map f)).flatten.take width =
              ((List.replicate (ceilDiv width fresh.length) fresh).flatten.take width).map f := by
            rw [List.map_take, List.map_flatten, List.map_replicate]
          rw [hc, ih, List.map_append, map_pair_step, List.map_take, gather_map, List.length_map]
        · simp only [if_neg h2]
          rw [ih, List.map_append, map_pair_step, List.map_take, gather_map, List.length_map]
    · simp only [if_neg hd]
      rw [ih, List.map_append, map_pair_step, List.map_take, gather_map, List.length_map]

theorem walksNbt_map (m : GraphMap h g f) (width length historyDepth : Nat) (start : β)
    (perms : List (List Nat)) :
    (walksNbt h width length historyDepth start perms).map (Prod.map f id) =
      walksNbt g width length historyDepth (f start) perms := by
  unfold walksNbt
  simp only []
  rw [walksNbtLoop_map m, map_pair_step, List.map_replicate, m.hash start, m.nGens]

/-! ### classic mode -/

theorem classic_step_map (m : GraphMap h g f) :
    ∀ (prev : List β) (gens : List Nat), (∀ i ∈ gens, i < g.nGens) →
      ((List.zip prev gens).map fun p => h.act p.2 p.1).map f =
        (List.zip (prev.map f) gens).map fun p => g.act p.2 p.1 := by
  intro prev
  induction prev with
  | nil => intro gens _; rfl
  | cons a t ih =>
    intro gens hg
    cases gens with
    | nil => rfl
    | cons i is =>
      simp only [List.map_cons, List.zip_cons_cons]
      rw [m.act i (hg i (by simp)) a, ih is (fun j hj => hg j (by simp [hj]))]

theorem getD_mem_or_nil {γ : Type} (l : List (List γ)) (k : Nat) : l.getD k [] ∈ l ∨ l.getD k [] = [] := by
  rw [List.getD_eq_getElem?_getD]
  cases hk : l[k]? with
  | none => exact Or.inr rfl
  | some d => exact Or.inl (List.mem_of_getElem? hk)

theorem getLast?_getD_map (f : β → α) (acc : List (List β)) :
    (acc.map (List.map f)).getLast?.getD [] = (acc.getLast?.getD []).map f := by
  rw [List.getLast?_map]
  cases acc.getLast? with
  | none => rfl
  | some l => rfl

theorem classic_blocks_map (m : GraphMap h g f) (draws : List (List Nat))
    (hd : ∀ d ∈ draws, ∀ i ∈ d, i < g.nGens) :
    ∀ (ks : List Nat) (acc : List (List β)),
      (ks.foldl (fun (acc : List (List β)) k =>
          let prev := acc.getLast?.getD []
          let gens := draws.getD k []
          acc ++ [(List.zip prev gens).map fun p => h.act p.2 p.1]) acc).map (List.map f) =
        ks.foldl (fun (acc : List (List α)) k =>
          let prev := acc.getLast?.getD []
          let gens := draws.getD k []
          acc ++ [(List.zip prev gens).map fun p => g.act p.2 p.1]) (acc.map (List.map f)) := by
  intro ks
  induction ks with
  | nil => intro acc; rfl
  | cons k ks ih =>
    intro acc
    simp only [List.foldl_cons]
    rw [ih, List.map_append, getLast?_getD_map]
    have hg : ∀ i ∈ draws.getD k [], i < g.nGens := by
      rcases getD_mem_or_nil draws k with hk | hk
      · exact hd _ hk
      · rw [hk]; intro i hi; cases hi
    simp only [List.map_cons, List.map_nil]
    rw [classic_step_map m _ _ hg]

theorem classic_flat_map (f : β → α) :
    ∀ (blocks : List (List β)) (ns : List Nat),
      ((List.zip blocks ns).flatMap fun p => p.1.map fun x => (x, p.2)).map (Prod.map f id) =
        (List.zip (blocks.map (List.map f)) ns).flatMap fun p => p.1.map fun x => (x, p.2) := by
  intro blocks
  induction blocks with
  | nil => intro ns; rfl
  | cons b bs ih =>
    intro ns
    cases ns with
    | nil => rfl
    | cons n ns =>
      simp only [List.map_cons, List.zip_cons_cons, List.flatMap_cons, List.map_append]
      rw [ih, map_pair_step]

theorem walksClassic_map (m : GraphMap h g f) (width length : Nat) (start : β) (draws : List (List Nat))
    (hd : ∀ d ∈ draws, ∀ i ∈ d, i < g.nGens) :
    (walksClassic h width length start draws).map (Prod.map f id) =
      walksClassic g width length (f start) draws := by
  unfold walksClassic
  simp only []
  rw [classic_flat_map, classic_blocks_map m draws hd]
  simp only [List.map_cons, List.map_nil, List.map_replicate]

end Cv
