/-
  Random walk generators (`CvModel/Beam.lean`, section "Random walks"): classic, nbt and BFS modes (C07).
  Core Lean only.  Everything random is an oracle input (`draws`, `perms`); theorems hold for ALL oracles.
-/
import CvProofs.Beam
namespace Cv

variable {α : Type}

/-! ### classic mode -/

/-- contract of torch.randint: `draws[k]` has `width` entries, all `< nGens` -/
def DrawsOk (g : Graph α) (width : Nat) (draws : List (List Nat)) (steps : Nat) : Prop :=
  steps ≤ draws.length ∧ ∀ (k : Nat) (d : List Nat), draws[k]? = some d → d.length = width ∧ ∀ i ∈ d, i < g.nGens

/-- contract of torch.randperm(n): a duplicate-free list of indices < n (only the first half is needed by
`walksBfs_spec`; each drawn perm is used with n = current candidate count) -/
def PermOk (p : List Nat) (n : Nat) : Prop := p.Nodup ∧ ∀ i ∈ p, i < n

namespace BW

/-- block `n` of the classic generator: the states after `n` steps, one per walk -/
def classicBlock (g : Graph α) (width : Nat) (start : α) (draws : List (List Nat)) : Nat → List α
  | 0 => List.replicate width start
  | n+1 => (List.zip (classicBlock g width start draws n) (draws.getD n [])).map fun p => g.act p.2 p.1

theorem classic_blocks (g : Graph α) (width : Nat) (start : α) (draws : List (List Nat)) (m : Nat) :
    (List.range m).foldl (fun (acc : List (List α)) k =>
      let prev := acc.getLast?.getD []
      let gens := draws.getD k []
      acc ++ [(List.zip prev gens).map fun p => g.act p.2 p.1]) [List.replicate width start]
    = (List.range (m + 1)).map (classicBlock g width start draws) := by
  induction m with
  | zero => simp [classicBlock]
  | succ m ih =>
    rw [List.range_succ, List.foldl_append, ih]
    simp only [List.foldl_cons, List.foldl_nil]
    conv => rhs; rw [List.range_succ, List.map_append]
    congr 1
    simp [List.range_succ, classicBlock]

theorem walksClassic_eq (g : Graph α) (width length : Nat) (hl : 1 ≤ length) (start : α)
    (draws : List (List Nat)) :
    walksClassic g width length start draws =
      (List.range length).flatMap fun n => (classicBlock g width start draws n).map fun x => (x, n) := by
  unfold walksClassic
  simp only []
  rw [classic_blocks]
  have h1 : length - 1 + 1 = length := by omega
  rw [h1]
  have : List.zip ((List.range length).map (classicBlock g width start draws)) (List.range length) =
      (List.range length).map fun n => (classicBlock g width start draws n, n) := by
    have := List.zip_map' (f := classicBlock g width start draws) (g := id) (l := List.range length)
    simpa using this
  rw [this, List.flatMap_map]

theorem flatMap_range_length {β : Type} (f : Nat → List β) (w L : Nat)
    (hf : ∀ n, n < L → (f n).length = w) : ((List.range L).flatMap f).length = w * L := by
  induction L with
  | zero => simp
  | succ L ih =>
    rw [List.range_succ, List.flatMap_append, List.length_append, ih (fun n hn => hf n (by omega))]
    simp [hf L (by omega), Nat.mul_succ]

theorem flatMap_range_getElem? {β : Type} (f : Nat → List β) (w L : Nat)
    (hf : ∀ n, n < L → (f n).length = w) (n j : Nat) (hn : n < L) (hj : j < w) :
    ((List.range L).flatMap f)[n * w + j]? = (f n)[j]? := by
  induction L with
  | zero => omega
  | succ L ih =>
    have hlen := flatMap_range_length f w L (fun n hn => hf n (by omega))
    rw [List.range_succ, List.flatMap_append]
    by_cases hnL : n < L
    · have h1 : (n + 1) * w ≤ L * w := Nat.mul_le_mul_right w (by omega)
      have h2 : n * w + j < ((List.range L).flatMap f).length := by
        rw [hlen, Nat.mul_comm w L]; rw [Nat.succ_mul] at h1; omega
      rw [List.getElem?_append_left h2]
      exact ih (fun n hn => hf n (by omega)) hnL
    · have : n = L := by omega
      subst this
      have h2 : ((List.range n).flatMap f).length ≤ n * w + j := by
        rw [hlen, Nat.mul_comm w n]; omega
      rw [List.getElem?_append_right h2, hlen, Nat.mul_comm w n]
      simp

/-- decomposition of an index of the output into (block, position in block) -/
theorem index_split (w L k : Nat) (hk : k < w * L) :
    0 < w ∧ k / w < L ∧ k % w < w ∧ k = (k / w) * w + k % w := by
  have hw : 0 < w := by
    rcases Nat.eq_zero_or_pos w with h | h
    · subst h; simp at hk
    · exact h
  refine ⟨hw, ?_, Nat.mod_lt _ hw, ?_⟩
  · exact Nat.div_lt_of_lt_mul hk
  · rw [Nat.mul_comm]; exact (Nat.div_add_mod k w).symm

theorem getD_of_lt {β : Type} (l : List β) (n : Nat) (d : β) (h : n < l.length) : l.getD n d = l[n] := by
  simp [List.getD, h]

theorem getD_of_ge {β : Type} (l : List β) (n : Nat) (d : β) (h : l.length ≤ n) : l.getD n d = d := by
  simp [List.getD, List.getElem?_eq_none h]

theorem classicBlock_length (g : Graph α) (width : Nat) (start : α) (draws : List (List Nat))
    (hd : ∀ (k : Nat) (d : List Nat), draws[k]? = some d → d.length = width) (n : Nat)
    (hn : n ≤ draws.length) : (classicBlock g width start draws n).length = width := by
  induction n with
  | zero => simp [classicBlock]
  | succ n ih =>
    have hlt : n < draws.length := by omega
    have h1 : draws.getD n [] = draws[n] := getD_of_lt _ _ _ hlt
    have h2 := hd n draws[n] (by simp [hlt])
    rw [classicBlock, List.length_map, List.length_zip, ih (by omega), h1, h2, Nat.min_self]

theorem classicBlock_succ_getElem? (g : Graph α) (width : Nat) (start : α) (draws : List (List Nat))
    (n j : Nat) (q : α) (hq : (classicBlock g width start draws (n + 1))[j]? = some q) :
    ∃ p i, (classicBlock g width start draws n)[j]? = some p ∧ (draws.getD n [])[j]? = some i ∧
      q = g.act i p := by
  simp only [classicBlock, List.getElem?_map, Option.map_eq_some_iff] at hq
  obtain ⟨⟨p, i⟩, hz, rfl⟩ := hq
  rw [List.getElem?_zip_eq_some] at hz
  exact ⟨p, i, hz.1, hz.2, rfl⟩

theorem classicBlock_walk (g : Graph α) (width : Nat) (start : α) (draws : List (List Nat))
    (hd : ∀ (k : Nat) (d : List Nat), draws[k]? = some d → ∀ i ∈ d, i < g.nGens) (n : Nat) :
    ∀ x ∈ classicBlock g width start draws n, Walk g.nb n start x := by
  induction n with
  | zero =>
    intro x hx
    simp only [classicBlock, List.mem_replicate] at hx
    rw [hx.2]; exact .nil _
  | succ n ih =>
    intro x hx
    simp only [classicBlock, List.mem_map] at hx
    obtain ⟨⟨p, i⟩, hz, rfl⟩ := hx
    have hp := (List.of_mem_zip hz).1
    have hi := (List.of_mem_zip hz).2
    have hi' : i < g.nGens := by
      by_cases hlt : n < draws.length
      · have h1 : draws.getD n [] = draws[n] := getD_of_lt _ _ _ hlt
        rw [h1] at hi
        exact hd n draws[n] (by simp [hlt]) i hi
      · have h1 : draws.getD n [] = [] := getD_of_ge _ _ _ (by omega)
        rw [h1] at hi; simp at hi
    exact .snoc (ih p hp) ((mem_nb g p _).2 ⟨i, hi', rfl⟩)

theorem walksClassic_spec' (g : Graph α) (width length : Nat) (hl : 1 ≤ length) (start : α)
    (draws : List (List Nat)) (hd : DrawsOk g width draws (length - 1)) :
    let out := walksClassic g width length start draws
    out.length = width * length ∧
    (∀ k, k < width → out[k]? = some (start, 0)) ∧
    (∀ k p, out[k]? = some p → p.2 = k / width) ∧
    (∀ k p q, out[k]? = some p → out[k + width]? = some q → ∃ i, i < g.nGens ∧ q.1 = g.act i p.1) ∧
    (∀ p ∈ out, Walk g.nb p.2 start p.1) := by
  intro out
  obtain ⟨hsteps, hcontract⟩ := hd
  let f : Nat → List (α × Nat) := fun n => (classicBlock g width start draws n).map fun x => (x, n)
  have hout : out = (List.range length).flatMap f := walksClassic_eq g width length hl start draws
  have hblk : ∀ n, n < length → (classicBlock g width start draws n).length = width := fun n hn =>
    classicBlock_length g width start draws (fun k d h => (hcontract k d h).1) n (by omega)
  have hf : ∀ n, n < length → (f n).length = width := fun n hn => by simp [f, hblk n hn]
  have hlen : out.length = width * length := by rw [hout]; exact flatMap_range_length f width length hf
  have hidx : ∀ n j, n < length → j < width → out[n * width + j]? = (f n)[j]? := fun n j hn hj => by
    rw [hout]; exact flatMap_range_getElem? f width length hf n j hn hj
  have hlt : ∀ k p, out[k]? = some p → k < width * length := fun k p h => by
    rw [← hlen]; exact (List.getElem?_eq_some_iff.1 h).1
  refine ⟨hlen, ?_, ?_, ?_, ?_⟩
  · intro k hk
    have := hidx 0 k (by omega) hk
    simp only [Nat.zero_mul, Nat.zero_add] at this
    rw [this]
    simp [f, classicBlock, hk]
  · intro k p hp
    obtain ⟨hw, hn, hj, hk⟩ := index_split width length k (hlt k p hp)
    rw [hk, hidx _ _ hn hj] at hp
    simp only [f, List.getElem?_map, Option.map_eq_some_iff] at hp
    obtain ⟨x, _, rfl⟩ := hp
    rfl
  · intro k p q hp hq
    obtain ⟨hw, hn, hj, hk⟩ := index_split width length k (hlt k p hp)
    have hk2 : k + width = (k / width + 1) * width + k % width := by rw [Nat.succ_mul]; omega
    have hn2 : k / width + 1 < length := by
      have h := hlt _ q hq
      rw [hk2] at h
      rcases Nat.lt_or_ge (k / width + 1) length with h' | h'
      · exact h'
      · have := Nat.mul_le_mul_right width h'
        rw [Nat.mul_comm width length] at h; omega
    rw [hk, hidx _ _ hn hj] at hp
    rw [hk2, hidx _ _ hn2 hj] at hq
    simp only [f, List.getElem?_map, Option.map_eq_some_iff] at hp hq
    obtain ⟨x, hx, rfl⟩ := hp
    obtain ⟨y, hy, rfl⟩ := hq
    obtain ⟨p, i, hp, hi, rfl⟩ := classicBlock_succ_getElem? g width start draws _ _ y hy
    rw [hx] at hp
    cases hp
    refine ⟨i, ?_, rfl⟩
    have hlt' : k / width < draws.length := by omega
    have h1 : draws.getD (k / width) [] = draws[k / width] := getD_of_lt _ _ _ hlt'
    rw [h1] at hi
    exact (hcontract (k / width) _ (by simp [hlt'])).2 i (List.mem_of_getElem? hi)
  · intro p hp
    rw [hout] at hp
    simp only [f, List.mem_flatMap, List.mem_range, List.mem_map] at hp
    obtain ⟨n, _, x, hx, rfl⟩ := hp
    exact classicBlock_walk g width start draws (fun k d h => (hcontract k d h).2) n x hx

/-! ### nbt mode -/

/-- the candidate rows and the corrected step counter of one nbt step -/
def nbtCand (g : Graph α) (width historyDepth : Nat) (cur : List α) (ring : Ring) (sc : Nat) : List α × Nat :=
  let all := g.neighbors cur
  if historyDepth > 0 then
    let banned := ring.flatten
    let fresh := all.filter fun x => !banned.contains (g.hash x)
    if fresh.length ≥ width then (fresh, sc + 1)
    else if fresh.length > 0 then
      ((List.replicate (ceilDiv width fresh.length) fresh).flatten.take width, sc + 1)
    else (cur, sc)
  else (all, sc + 1)

def nbtRing (g : Graph α) (historyDepth : Nat) (cur : List α) (ring : Ring) (cyc : Nat) : Ring × Nat :=
  if historyDepth > 0 then
    (ring.set ((cyc + 1) % historyDepth) ((g.neighbors cur).map g.hash), (cyc + 1) % historyDepth)
  else (ring, cyc)

theorem walksNbtLoop_succ (g : Graph α) (width hd fuel : Nat) (cur : List α) (ring : Ring) (cyc sc : Nat)
    (perms : List (List Nat)) (out : List (α × Nat)) :
    walksNbtLoop g width hd (fuel + 1) cur ring cyc sc perms out =
      let c := nbtCand g width hd cur ring sc
      let cur' := (gather c.1 (perms.head?.getD (List.range c.1.length))).take width
      let r := nbtRing g hd cur ring cyc
      walksNbtLoop g width hd fuel cur' r.1 r.2 c.2 perms.tail (out ++ cur'.map fun x => (x, c.2)) := by
  rfl

theorem nbtCand_walk (g : Graph α) (width hd : Nat) (start : α) (cur : List α) (ring : Ring) (sc : Nat)
    (hcur : ∀ x ∈ cur, Walk g.nb sc start x) :
    ∀ x ∈ (nbtCand g width hd cur ring sc).1, Walk g.nb (nbtCand g width hd cur ring sc).2 start x := by
  have hall := walk_neighbors g sc start cur hcur
  unfold nbtCand
  simp only []
  split
  · split
    · intro x hx
      exact hall x (List.mem_filter.1 hx).1
    · split
      · intro x hx
        have hx := List.mem_of_mem_take hx
        simp only [List.mem_flatten, List.mem_replicate] at hx
        obtain ⟨l, ⟨_, rfl⟩, hx⟩ := hx
        exact hall x (List.mem_filter.1 hx).1
      · exact hcur
  · exact hall

theorem walksNbtLoop_spec (g : Graph α) (width hd : Nat) (start : α) (fuel : Nat) :
    ∀ (cur : List α) (ring : Ring) (cyc sc : Nat) (perms : List (List Nat)) (out : List (α × Nat)),
    (∀ x ∈ cur, Walk g.nb sc start x) → (∀ p ∈ out, Walk g.nb p.2 start p.1) →
    (∃ rest, walksNbtLoop g width hd fuel cur ring cyc sc perms out = out ++ rest) ∧
    ∀ p ∈ walksNbtLoop g width hd fuel cur ring cyc sc perms out, Walk g.nb p.2 start p.1 := by
  induction fuel with
  | zero =>
    intro cur ring cyc sc perms out _ hout
    exact ⟨⟨[], by simp [walksNbtLoop]⟩, by simpa [walksNbtLoop] using hout⟩
  | succ fuel ih =>
    intro cur ring cyc sc perms out hcur hout
    rw [walksNbtLoop_succ]
    simp only []
    have hc := nbtCand_walk g width hd start cur ring sc hcur
    generalize nbtCand g width hd cur ring sc = c at hc ⊢
    have hcur' : ∀ x ∈ (gather c.1 (perms.head?.getD (List.range c.1.length))).take width,
        Walk g.nb c.2 start x := fun x hx => hc x (gather_subset _ _ x (List.mem_of_mem_take hx))
    obtain ⟨⟨rest, hrest⟩, hw⟩ := ih _ (nbtRing g hd cur ring cyc).1 (nbtRing g hd cur ring cyc).2 c.2
      perms.tail (out ++ ((gather c.1 (perms.head?.getD (List.range c.1.length))).take width).map
        fun x => (x, c.2)) hcur' (by
        intro p hp
        rcases List.mem_append.1 hp with hp | hp
        · exact hout p hp
        · obtain ⟨x, hx, rfl⟩ := List.mem_map.1 hp
          exact hcur' x hx)
    refine ⟨⟨((gather c.1 (perms.head?.getD (List.range c.1.length))).take width).map
        (fun x => (x, c.2)) ++ rest, ?_⟩, hw⟩
    rw [hrest, List.append_assoc]

theorem walksNbt_spec' (g : Graph α) (width length historyDepth : Nat) (hl : 1 ≤ length) (start : α)
    (perms : List (List Nat)) :
    let out := walksNbt g width length historyDepth start perms
    (∀ k, k < width → out[k]? = some (start, 0)) ∧ (∀ p ∈ out, Walk g.nb p.2 start p.1) := by
  have _ := hl
  intro out
  have h := walksNbtLoop_spec g width historyDepth start (length - 1) (List.replicate width start)
    (if historyDepth > 0 then
      List.replicate historyDepth (List.replicate (width * g.nGens) (g.hash start)) else [])
    0 0 perms ((List.replicate width start).map fun x => (x, 0))
    (by intro x hx; rw [(List.mem_replicate.1 hx).2]; exact .nil _)
    (by
      intro p hp
      obtain ⟨x, hx, rfl⟩ := List.mem_map.1 hp
      rw [(List.mem_replicate.1 hx).2]; exact .nil _)
  obtain ⟨⟨rest, hrest⟩, hw⟩ := h
  have hout : out = (List.replicate width start).map (fun x => (x, 0)) ++ rest := hrest
  refine ⟨?_, hw⟩
  intro k hk
  rw [hout, List.getElem?_append_left (by simpa using hk)]
  simp [hk]

/-! ### BFS mode -/

theorem gather_cons (l : List α) (i : Nat) (idx : List Nat) :
    gather l (i :: idx) = match l[i]? with | some x => x :: gather l idx | none => gather l idx := by
  simp only [gather, List.filterMap_cons]
  cases l[i]? <;> rfl

theorem mem_gather (l : List α) (idx : List Nat) (x : α) :
    x ∈ gather l idx ↔ ∃ i ∈ idx, l[i]? = some x := by
  simp [gather, List.mem_filterMap]

theorem gather_nodup (l : List α) (idx : List Nat) (hl : l.Nodup) (hi : idx.Nodup) :
    (gather l idx).Nodup := by
  induction idx with
  | nil => simp [gather]
  | cons i idx ih =>
    rw [List.nodup_cons] at hi
    rw [gather_cons]
    cases hx : l[i]? with
    | none => exact ih hi.2
    | some x =>
      simp only []
      rw [List.nodup_cons]
      refine ⟨?_, ih hi.2⟩
      intro hmem
      obtain ⟨j, hj, hjx⟩ := (mem_gather l idx x).1 hmem
      have hlt : i < l.length := (List.getElem?_eq_some_iff.1 hx).1
      have : i = j := (List.getElem?_inj hlt hl).1 (by rw [hx, hjx])
      subst this
      exact hi.1 hj

/-- the thinning step of the BFS-mode generator: (kept layer, remaining perms) -/
def bfsThin (width : Nat) (nxt : List α) (perms : List (List Nat)) : List α × List (List Nat) :=
  if nxt.length > width then
    match perms with
    | p :: rest => (gather nxt (p.take width), rest)
    | [] => (nxt.take width, [])
  else (nxt, perms)

theorem walksBfsLoop_succ (g : Graph α) (width fuel iStep : Nat) (cur : List α) (seen : HashSetM)
    (perms : List (List Nat)) (out : List (α × Nat)) :
    walksBfsLoop g width (fuel + 1) iStep cur seen perms out =
      let nxt := (g.unique (g.neighbors cur)).filter fun x => seen.unseen (g.hash x)
      if nxt.isEmpty then out
      else
        let t := bfsThin width nxt perms
        walksBfsLoop g width fuel (iStep + 1) t.1 (seen.addSorted (sortInts (t.1.map g.hash))) t.2
          (out ++ t.1.map fun x => (x, iStep)) := by
  simp only [walksBfsLoop, bfsThin]
  split
  · rfl
  · split
    · split <;> rfl
    · rfl

theorem bfsThin_spec (width : Nat) (nxt : List α) (perms : List (List Nat)) (hn : nxt.Nodup)
    (hp : ∀ p ∈ perms, p.Nodup) :
    (∀ x ∈ (bfsThin width nxt perms).1, x ∈ nxt) ∧ (bfsThin width nxt perms).1.Nodup ∧
    (∀ p ∈ (bfsThin width nxt perms).2, p.Nodup) ∧
    (nxt.length ≤ width → (bfsThin width nxt perms).1 = nxt) := by
  unfold bfsThin
  split
  · split
    · rename_i p rest
      refine ⟨gather_subset _ _, gather_nodup _ _ hn ?_, fun q hq => hp q (by simp [hq]), by omega⟩
      exact (hp p (by simp)).sublist (List.take_sublist _ _)
    · exact ⟨fun x hx => List.mem_of_mem_take hx, hn.sublist (List.take_sublist _ _), by simp, by omega⟩
  · exact ⟨fun x hx => hx, hn, hp, fun _ => rfl⟩

/-- invariant of the BFS-mode loop -/
structure WInv (g : Graph α) (start : α) (seen : HashSetM) (perms : List (List Nat))
    (out : List (α × Nat)) : Prop where
  perms : ∀ p ∈ perms, p.Nodup
  sorted : ∀ d ∈ seen.data, d.Pairwise (· ≤ ·)
  seen : ∀ v, (∃ d ∈ seen.data, v ∈ d) ↔ v ∈ out.map fun p => g.hash p.1
  nodup : (out.map (·.1)).Nodup
  walk : ∀ p ∈ out, Walk g.nb p.2 start p.1

theorem WInv.step (g : Graph α) (start : α) (seen : HashSetM) (perms : List (List Nat))
    (out : List (α × Nat)) (inv : WInv g start seen perms out) (width i : Nat) (cur : List α)
    (hcur : ∀ x ∈ cur, Walk g.nb i start x) :
    let nxt := (g.unique (g.neighbors cur)).filter fun x => seen.unseen (g.hash x)
    let t := bfsThin width nxt perms
    WInv g start (seen.addSorted (sortInts (t.1.map g.hash))) t.2 (out ++ t.1.map fun x => (x, i + 1)) ∧
    ∀ x ∈ t.1, Walk g.nb (i + 1) start x := by
  intro nxt t
  have hnn : nxt.Nodup := (unique_nodup g _).sublist List.filter_sublist
  obtain ⟨hsub, hnd, hperm, _⟩ := bfsThin_spec width nxt perms hnn inv.perms
  have hwn : ∀ x ∈ nxt, Walk g.nb (i + 1) start x := fun x hx =>
    walk_neighbors g i start cur hcur x (unique_subset g _ x (List.mem_filter.1 hx).1)
  have hfresh : ∀ x ∈ nxt, x ∉ out.map (·.1) := by
    intro x hx hmem
    have hu := (List.mem_filter.1 hx).2
    rw [HashSetM.unseen_iff seen inv.sorted] at hu
    apply hu
    rw [inv.seen]
    obtain ⟨p, hp, rfl⟩ := List.mem_map.1 hmem
    exact List.mem_map.2 ⟨p, hp, rfl⟩
  obtain ⟨hs1, hs2⟩ := HashSetM.addSorted_inv seen (sortInts (t.1.map g.hash)) inv.sorted (sortInts_sorted _)
  refine ⟨⟨hperm, hs1, ?_, ?_, ?_⟩, fun x hx => hwn x (hsub x hx)⟩
  · intro v
    rw [hs2, mem_sortInts, inv.seen]
    simp only [List.map_append, List.map_map, List.mem_append, List.mem_map, Function.comp_def]
    constructor
    · rintro (h | h)
      · exact Or.inr h
      · exact Or.inl h
    · rintro (h | h)
      · exact Or.inr h
      · exact Or.inl h
  · rw [List.map_append, List.map_map]
    have : ((fun x : α × Nat => x.1) ∘ fun x => (x, i + 1)) = id := rfl
    rw [this, List.map_id, List.nodup_append]
    refine ⟨inv.nodup, hnd, ?_⟩
    intro a ha b hb hab
    subst hab
    exact hfresh a (hsub a hb) ha
  · intro p hp
    rcases List.mem_append.1 hp with hp | hp
    · exact inv.walk p hp
    · obtain ⟨x, hx, rfl⟩ := List.mem_map.1 hp
      exact hwn x (hsub x hx)

theorem walksBfsLoop_spec (g : Graph α) (start : α) (width : Nat) (fuel : Nat) :
    ∀ (i : Nat) (cur : List α) (seen : HashSetM) (perms : List (List Nat)) (out : List (α × Nat)),
    WInv g start seen perms out → (∀ x ∈ cur, Walk g.nb i start x) →
    (∃ rest, walksBfsLoop g width fuel (i + 1) cur seen perms out = out ++ rest) ∧
    (∀ p ∈ walksBfsLoop g width fuel (i + 1) cur seen perms out, Walk g.nb p.2 start p.1) ∧
    ((walksBfsLoop g width fuel (i + 1) cur seen perms out).map (·.1)).Nodup := by
  induction fuel with
  | zero =>
    intro i cur seen perms out inv _
    simp only [walksBfsLoop]
    exact ⟨⟨[], by simp⟩, inv.walk, inv.nodup⟩
  | succ fuel ih =>
    intro i cur seen perms out inv hcur
    rw [walksBfsLoop_succ]
    simp only []
    split
    · exact ⟨⟨[], by simp⟩, inv.walk, inv.nodup⟩
    · obtain ⟨inv', hcur'⟩ := inv.step g start seen perms out width i cur hcur
      obtain ⟨⟨rest, hrest⟩, h2, h3⟩ := ih (i + 1) _ _ _ _ inv' hcur'
      refine ⟨?_, h2, h3⟩
      rw [hrest, List.append_assoc]
      exact ⟨_, rfl⟩

theorem WInv.init (g : Graph α) (start : α) (perms : List (List Nat)) (hp : ∀ p ∈ perms, p.Nodup) :
    WInv g start (({} : HashSetM).addSorted [g.hash start]) perms [(start, 0)] := by
  refine ⟨hp, ?_, ?_, by simp, ?_⟩
  · intro d hd
    simp [HashSetM.addSorted] at hd
    subst hd; simp
  · intro v
    simp [HashSetM.addSorted]
  · intro p hp
    rw [List.mem_singleton.1 hp]; exact .nil _

theorem walksBfs_spec' (g : Graph α) (hinj : Function.Injective g.hash) (width length : Nat)
    (hw : 1 ≤ width) (hl : 1 ≤ length) (start : α) (perms : List (List Nat))
    (hp : ∀ p ∈ perms, p.Nodup) :
    let out := walksBfs g width length start perms
    out.head? = some (start, 0) ∧ (∀ p ∈ out, Walk g.nb p.2 start p.1) ∧ (out.map (·.1)).Nodup := by
  have _ := hinj; have _ := hw; have _ := hl
  intro out
  obtain ⟨⟨rest, hrest⟩, h2, h3⟩ := walksBfsLoop_spec g start width (length - 1) 0 [start] _ perms
    [(start, 0)] (WInv.init g start perms hp)
    (by intro x hx; rw [List.mem_singleton.1 hx]; exact .nil _)
  have hout : out = [(start, 0)] ++ rest := hrest
  exact ⟨by rw [hout]; rfl, h2, h3⟩

/-! ### BFS mode, wide and long enough: exactly the distance classes -/

theorem bfsThin_of_le (width : Nat) (nxt : List α) (perms : List (List Nat)) (h : nxt.length ≤ width) :
    bfsThin width nxt perms = (nxt, perms) := by
  unfold bfsThin
  rw [if_neg (by omega)]

/-- the BFS recurrence for distance classes -/
theorem distLayer_succ_iff' (nb : α → List α) (S : List α) (i : Nat) (x : α) :
    DistLayer nb S (i + 1) x ↔ (∃ y, DistLayer nb S i y ∧ x ∈ nb y) ∧ ∀ k, k ≤ i → ¬ DistLayer nb S k x := by
  constructor
  · intro hx
    refine ⟨distLayer_pred' nb S i x hx, ?_⟩
    intro k hk hkx
    exact hx.2 k (by omega) hkx.1
  · rintro ⟨⟨y, hy, hxy⟩, hmin⟩
    refine ⟨(reach_succ ..).2 ⟨y, hy.1, hxy⟩, ?_⟩
    intro j hj hr
    obtain ⟨j', hj', hd⟩ := reach_distLayer' nb S j x hr
    exact hmin j' (by omega) hd

/-- no class `e` ⇒ no class beyond `e` -/
theorem distLayer_empty_above (nb : α → List α) (S : List α) (e : Nat) (he : ∀ x, ¬ DistLayer nb S e x)
    (k : Nat) (hk : e ≤ k) (x : α) : ¬ DistLayer nb S k x := by
  intro hx
  obtain ⟨y, hy⟩ := distLayer_nonempty_below nb S k x hx e hk
  exact he y hy

/-- invariant of the never-thinned BFS-mode loop after layer `i` has been emitted -/
structure EInv (g : Graph α) (start : α) (i : Nat) (cur : List α) (seen : HashSetM)
    (out : List (α × Nat)) : Prop where
  sorted : ∀ d ∈ seen.data, d.Pairwise (· ≤ ·)
  seen : ∀ v, (∃ d ∈ seen.data, v ∈ d) ↔ v ∈ out.map fun p => g.hash p.1
  cur : ∀ x, x ∈ cur ↔ DistLayer g.nb [start] i x
  out : ∀ x k, (x, k) ∈ out ↔ k ≤ i ∧ DistLayer g.nb [start] k x

theorem walksBfsLoop_exact (g : Graph α) (hinj : Function.Injective g.hash) (start : α) (width : Nat)
    (hwide : ∀ (k : Nat) (L : List α), L.Nodup → (∀ x ∈ L, DistLayer g.nb [start] k x) → L.length ≤ width)
    (ecc : Nat) (hecc : ∀ x, ¬ DistLayer g.nb [start] (ecc + 1) x) (fuel : Nat) :
    ∀ (i : Nat) (cur : List α) (seen : HashSetM) (perms : List (List Nat)) (out : List (α × Nat)),
    ecc ≤ i + fuel → EInv g start i cur seen out → ∀ x k,
    (x, k) ∈ walksBfsLoop g width fuel (i + 1) cur seen perms out ↔ DistLayer g.nb [start] k x := by
  induction fuel with
  | zero =>
    intro i cur seen perms out hf inv x k
    simp only [walksBfsLoop]
    rw [inv.out]
    constructor
    · exact fun h => h.2
    · intro h
      refine ⟨?_, h⟩
      rcases Nat.lt_or_ge i k with hlt | hge
      · exact absurd h (distLayer_empty_above g.nb [start] (ecc + 1) hecc k (by omega) x)
      · exact hge
  | succ fuel ih =>
    intro i cur seen perms out hf inv x k
    rw [walksBfsLoop_succ]
    simp only []
    have hnxt : ∀ z, z ∈ (g.unique (g.neighbors cur)).filter (fun x => seen.unseen (g.hash x)) ↔
        DistLayer g.nb [start] (i + 1) z := by
      intro z
      rw [List.mem_filter, mem_unique g hinj, mem_neighbors, HashSetM.unseen_iff seen inv.sorted,
        inv.seen, distLayer_succ_iff']
      constructor
      · rintro ⟨⟨y, hy, hzy⟩, hns⟩
        refine ⟨⟨y, (inv.cur y).1 hy, hzy⟩, ?_⟩
        intro j hj hjz
        apply hns
        exact List.mem_map.2 ⟨(z, j), (inv.out z j).2 ⟨hj, hjz⟩, rfl⟩
      · rintro ⟨⟨y, hy, hzy⟩, hmin⟩
        refine ⟨⟨y, (inv.cur y).2 hy, hzy⟩, ?_⟩
        intro hmem
        obtain ⟨⟨z', j⟩, hp, hpz⟩ := List.mem_map.1 hmem
        have : z' = z := hinj hpz
        subst this
        obtain ⟨hj, hjz⟩ := (inv.out z' j).1 hp
        exact hmin j hj hjz
    split
    · rename_i hemp
      rw [List.isEmpty_iff] at hemp
      have hnone : ∀ z, ¬ DistLayer g.nb [start] (i + 1) z := by
        intro z hz
        have := (hnxt z).2 hz
        rw [hemp] at this
        simp at this
      rw [inv.out]
      constructor
      · exact fun h => h.2
      · intro h
        refine ⟨?_, h⟩
        rcases Nat.lt_or_ge i k with hlt | hge
        · exact absurd h (distLayer_empty_above g.nb [start] (i + 1) hnone k (by omega) x)
        · exact hge
    · have hnn : ((g.unique (g.neighbors cur)).filter (fun x => seen.unseen (g.hash x))).Nodup :=
        (unique_nodup g _).sublist List.filter_sublist
      have hle := hwide (i + 1) _ hnn (fun z hz => (hnxt z).1 hz)
      rw [bfsThin_of_le width _ perms hle]
      simp only []
      obtain ⟨hs1, hs2⟩ := HashSetM.addSorted_inv seen
        (sortInts (((g.unique (g.neighbors cur)).filter (fun x => seen.unseen (g.hash x))).map g.hash))
        inv.sorted (sortInts_sorted _)
      refine ih (i + 1) _ _ perms _ (by omega) ⟨hs1, ?_, hnxt, ?_⟩ x k
      · intro v
        rw [hs2, mem_sortInts, inv.seen]
        simp only [List.map_append, List.map_map, List.mem_append, List.mem_map, Function.comp_def]
        constructor
        · rintro (h | h)
          · exact Or.inr h
          · exact Or.inl h
        · rintro (h | h)
          · exact Or.inr h
          · exact Or.inl h
      · intro z j
        rw [List.mem_append, inv.out, List.mem_map]
        constructor
        · rintro (⟨hj, hz⟩ | ⟨z', hz', he⟩)
          · exact ⟨by omega, hz⟩
          · cases he
            exact ⟨Nat.le_refl _, (hnxt z).1 hz'⟩
        · rintro ⟨hj, hz⟩
          by_cases hji : j ≤ i
          · exact Or.inl ⟨hji, hz⟩
          · have : j = i + 1 := by omega
            subst this
            exact Or.inr ⟨z, (hnxt z).2 hz, rfl⟩

theorem walksBfs_exact' (g : Graph α) (hinj : Function.Injective g.hash) (width length : Nat) (start : α)
    (perms : List (List Nat))
    (hwide : ∀ (k : Nat) (L : List α), L.Nodup → (∀ x ∈ L, DistLayer g.nb [start] k x) → L.length ≤ width)
    (ecc : Nat) (hecc : ∀ x, ¬ DistLayer g.nb [start] (ecc + 1) x) (hlen : ecc < length) (x : α) (k : Nat) :
    (x, k) ∈ walksBfs g width length start perms ↔ DistLayer g.nb [start] k x := by
  unfold walksBfs
  refine walksBfsLoop_exact g hinj start width hwide ecc hecc (length - 1) 0 [start] _ perms _ (by omega)
    ⟨?_, ?_, ?_, ?_⟩ x k
  · intro d hd
    simp [HashSetM.addSorted] at hd
    subst hd; simp
  · intro v
    simp [HashSetM.addSorted]
  · intro z
    simp [DistLayer, reach_zero]
  · intro z j
    simp only [List.mem_singleton, Prod.mk.injEq, Nat.le_zero]
    constructor
    · rintro ⟨rfl, rfl⟩
      exact ⟨rfl, by simp [DistLayer, reach_zero]⟩
    · rintro ⟨rfl, hz⟩
      have := hz.1
      rw [reach_zero, List.mem_singleton] at this
      exact ⟨this, rfl⟩

end BW
end Cv
