/-
  Explicit graph export (`CvModel/Export.lean`): edge names, adjacency, vertex numbering, edge list.
  Core Lean only.
-/
import CvModel.Export
import CvProofs.Bfs
import CvProofs.RefBfs
namespace Cv
variable {α : Type} [DecidableEq α]

/-! ### `edgeGen` (get_edge_name) -/

theorem edgeGen_spec' (g : Graph α) (s1 s2 : α) :
    (∀ i, edgeGen g s1 s2 = some i → i < g.nGens ∧ g.act i s1 = s2) ∧
    ((∃ i, i < g.nGens ∧ g.act i s1 = s2) → (edgeGen g s1 s2).isSome = true) := by
  unfold edgeGen
  constructor
  · intro i hi
    have h1 := List.mem_of_find?_eq_some hi
    have h2 := List.find?_some hi
    exact ⟨List.mem_range.1 h1, by simpa using h2⟩
  · rintro ⟨i, hi, hact⟩
    rw [List.find?_isSome]
    exact ⟨i, List.mem_range.2 hi, by simpa using hact⟩

/-- `edgeGen` returns the FIRST generator doing the job -/
theorem edgeGen_first (g : Graph α) (s1 s2 : α) (i : Nat) (h : edgeGen g s1 s2 = some i) :
    ∀ j, j < i → g.act j s1 ≠ s2 := by
  unfold edgeGen at h
  intro j hj
  rw [List.find?_range_eq_some] at h
  have := h.2.2 j hj
  simpa using this

/-! ### adjacency -/

omit [DecidableEq α] in
theorem adjacency_iff (E : List (Nat × Nat)) (i j : Nat) : adjacency E i j = true ↔ (i, j) ∈ E := by
  unfold adjacency
  rw [List.contains_iff_mem]

omit [DecidableEq α] in
theorem adjacency_symm_iff' (E : List (Nat × Nat)) :
    (∀ i j, adjacency E i j = adjacency E j i) ↔ ∀ e ∈ E, (e.2, e.1) ∈ E := by
  constructor
  · intro h e he
    rw [← adjacency_iff, ← h, adjacency_iff]
    exact he
  · intro h i j
    rw [Bool.eq_iff_iff, adjacency_iff, adjacency_iff]
    exact ⟨fun hm => h _ hm, fun hm => h _ hm⟩


/-! ### generic list facts -/

theorem eraseDups_of_nodup {β : Type} [DecidableEq β] (l : List β) (h : l.Nodup) : l.eraseDups = l := by
  induction l with
  | nil => rfl
  | cons a t ih =>
    rw [List.nodup_cons] at h
    rw [List.eraseDups_cons]
    have : t.filter (fun b => !b == a) = t := by
      rw [List.filter_eq_self]
      intro b hb
      have : b ≠ a := fun e => h.1 (e ▸ hb)
      simpa using this
    rw [this, ih h.2]

/-- `hashes_to_indices_dict[h]` is the position of the first occurrence of `h` -/
theorem lookupIdx_zip_range' (l : List Int) (s : Nat) (h : Int) (hm : h ∈ l) :
    lookupIdx (l.zip (List.range' s l.length)) h = some (l.idxOf h + s) := by
  induction l generalizing s with
  | nil => cases hm
  | cons a t ih =>
    simp only [List.length_cons, List.range'_succ, List.zip_cons_cons, lookupIdx, List.find?_cons]
    by_cases hah : a = h
    · subst hah
      simp
    · have hm' : h ∈ t := by
        rcases List.mem_cons.1 hm with e | e
        · exact absurd e.symm hah
        · exact e
      have hb : (a == h) = false := by simpa using hah
      simp only [hb, List.idxOf_cons, cond_false]
      have := ih (s + 1) hm'
      simp only [lookupIdx] at this
      rw [this]
      congr 1; omega

theorem lookupIdx_zip_range (l : List Int) (h : Int) (hm : h ∈ l) :
    lookupIdx (l.zip (List.range l.length)) h = some (l.idxOf h) := by
  rw [List.range_eq_range', lookupIdx_zip_range' l 0 h hm]; rfl

omit [DecidableEq α] in
theorem idxOf_map_inj [BEq α] [LawfulBEq α] (f : α → Int) (l : List α) (x : α) (hx : x ∈ l)
    (hinj : ∀ y ∈ l, f y = f x → y = x) :
    (l.map f).idxOf (f x) = l.idxOf x := by
  induction l with
  | nil => cases hx
  | cons a t ih =>
    simp only [List.map_cons, List.idxOf_cons]
    by_cases hax : a = x
    · subst hax; simp
    · have h1 : (f a == f x) = false := by
        simp only [beq_eq_false_iff_ne, ne_eq]
        intro e; exact hax (hinj a List.mem_cons_self e)
      have h2 : (a == x) = false := by simpa using hax
      rw [h1, h2]
      simp only [cond_false]
      rw [ih]
      · rcases List.mem_cons.1 hx with e | e
        · exact absurd e.symm hax
        · exact e
      · intro y hy; exact hinj y (List.mem_cons_of_mem _ hy)

theorem mapM_option_eq_some {β γ : Type} (f : β → Option γ) (g : β → γ) (l : List β)
    (h : ∀ b ∈ l, f b = some (g b)) : l.mapM f = some (l.map g) := by
  induction l with
  | nil => rfl
  | cons a t ih =>
    rw [List.mapM_cons, h a List.mem_cons_self, ih (fun b hb => h b (List.mem_cons_of_mem _ hb))]
    rfl

theorem zip_flatten_map {ι β γ : Type} (A : List ι) (f : ι → List β) (g : ι → List γ)
    (h : ∀ a ∈ A, (f a).length = (g a).length) :
    (A.map f).flatten.zip (A.map g).flatten = A.flatMap fun a => (f a).zip (g a) := by
  induction A with
  | nil => rfl
  | cons a t ih =>
    simp only [List.map_cons, List.flatten_cons, List.flatMap_cons]
    rw [List.zip_append (h a List.mem_cons_self), ih (fun b hb => h b (List.mem_cons_of_mem _ hb))]

theorem length_repeatList (l : List Int) (n : Nat) : (repeatList l n).length = n * l.length := by
  induction n with
  | zero => simp [repeatList]
  | succ n ih => simp [repeatList, ih, Nat.succ_mul, Nat.add_comm]

theorem zip_repeatList {β γ : Type} (l : List Int) (L : List β) (hl : l.length = L.length) (h : Nat → β → γ)
    (is : List Nat) :
    (repeatList l is.length).zip (is.flatMap fun i => L.map (h i)) = is.flatMap fun i => l.zip (L.map (h i)) := by
  induction is with
  | nil => rfl
  | cons i t ih =>
    simp only [List.length_cons, repeatList, List.flatMap_cons]
    rw [List.zip_append (by simp [hl]), ih]

/-- exchanging the two loops of a double `flatMap` is a permutation -/
theorem flatMap_cons_perm {β γ : Type} (l : List β) (g : β → γ) (h : β → List γ) :
    (l.flatMap fun b => g b :: h b).Perm (l.map g ++ l.flatMap h) := by
  induction l with
  | nil => exact List.Perm.refl _
  | cons b t ih =>
    simp only [List.flatMap_cons, List.map_cons, List.cons_append]
    refine List.Perm.cons _ ?_
    refine (List.Perm.append_left _ ih).trans ?_
    rw [← List.append_assoc, ← List.append_assoc]
    exact List.Perm.append_right _ List.perm_append_comm

theorem flatMap_swap_perm {β γ δ : Type} (l1 : List β) (l2 : List γ) (f : β → γ → δ) :
    (l1.flatMap fun a => l2.map fun b => f a b).Perm (l2.flatMap fun b => l1.map fun a => f a b) := by
  induction l1 with
  | nil => simp
  | cons a t ih =>
    simp only [List.flatMap_cons, List.map_cons]
    exact (List.Perm.append_left _ ih).trans (flatMap_cons_perm l2 (f a) (fun b => t.map fun a => f a b)).symm


/-! ### structural invariant of the loop when edges and hashes are recorded -/

section struct
omit [DecidableEq α]

theorem expandSel_edges (g : Graph α) (c : BfsCfg α) (s : BfsLoop α) (he : c.returnEdges = true) :
    expandSel g c s = expandPlain g s.seen s.layer1 := by
  simp [expandSel, he]

theorem expandPlain_snd (g : Graph α) (seen : List (List Int)) (l : List α) :
    (expandPlain g seen l).2 = (expandPlain g seen l).1.map g.hash := rfl

theorem preState_eStarts (g : Graph α) (c : BfsCfg α) (s : BfsLoop α) (he : c.returnEdges = true) :
    (preState g c s).eStarts = s.eStarts ++ [repeatList s.layer1H g.nGens] := by
  unfold preState; simp only [he]; split <;> rfl

theorem preState_eEnds (g : Graph α) (c : BfsCfg α) (s : BfsLoop α) (he : c.returnEdges = true) :
    (preState g c s).eEnds = s.eEnds ++ [(g.neighbors s.layer1).map g.hash] := by
  unfold preState; simp only [he]; split <;> rfl

@[simp] theorem postState_eStarts (g : Graph α) (c : BfsCfg α) (i : Nat) (s : BfsLoop α) (l2 : List α)
    (l2H : List Int) : (postState g c i s l2 l2H).eStarts = s.eStarts := by
  unfold postState; dsimp only; split <;> rfl

@[simp] theorem postState_eEnds (g : Graph α) (c : BfsCfg α) (i : Nat) (s : BfsLoop α) (l2 : List α)
    (l2H : List Int) : (postState g c i s l2 l2H).eEnds = s.eEnds := by
  unfold postState; dsimp only; split <;> rfl

/-- `Ls` (ghost) = the layers `0 … i-1` found so far; `done` = whether the block of the last layer has been recorded -/
structure XInv (g : Graph α) (c : BfsCfg α) (i : Nat) (s : BfsLoop α) (Ls : List (List α)) (done : Bool) :
    Prop where
  pos : 1 ≤ i
  len : Ls.length = i
  last : Ls[i - 1]? = some s.layer1
  lH : s.layer1H = s.layer1.map g.hash
  sizes : s.sizes = Ls.map List.length
  layers : ∀ j L, (j, L) ∈ s.layers → Ls[j]? = some L
  mono : (s.layers.map (·.1)).Pairwise (· < ·)
  bound : ∀ p ∈ s.layers, p.1 < i
  allH : s.allH = (if done = true then Ls else Ls.take (i - 1)).map (List.map g.hash)
  eS : s.eStarts = (if done = true then Ls else Ls.take (i - 1)).map fun L => repeatList (L.map g.hash) g.nGens
  eE : s.eEnds = (if done = true then Ls else Ls.take (i - 1)).map fun L => (g.neighbors L).map g.hash

theorem map_take_pred_append_last {β γ : Type} (f : β → γ) (Ls : List β) (i : Nat) (L : β)
    (hlen : Ls.length = i) (hi : 1 ≤ i) (hl : Ls[i - 1]? = some L) :
    (Ls.take (i - 1)).map f ++ [f L] = Ls.map f := by
  have := take_pred_append_last Ls i L hlen hi hl
  conv => rhs; rw [← this]
  simp

theorem bfsLoop_struct (g : Graph α) (c : BfsCfg α) (he : c.returnEdges = true) (hh : c.returnHashes = true) :
    ∀ (fuel i : Nat) (s : BfsLoop α) (Ls : List (List α)), XInv g c i s Ls false → s.completed = false →
      ∃ i' Ls', XInv g c i' (bfsLoop g c fuel i s) Ls' (bfsLoop g c fuel i s).completed := by
  intro fuel
  induction fuel with
  | zero =>
    intro i s Ls hx hc
    refine ⟨i, Ls, ?_⟩
    show XInv g c i s Ls s.completed
    rw [hc]; exact hx
  | succ fuel ih =>
    intro i s Ls hx hc
    rw [bfsLoop_succ]
    have h2H : (expandSel g c s).2 = (expandSel g c s).1.map g.hash := by
      rw [expandSel_edges g c s he]; rfl
    generalize (expandSel g c s).1 = l2 at *
    generalize (expandSel g c s).2 = l2H at *
    subst h2H
    have hpos := hx.pos
    -- the three recorded lists after the appends of this iteration
    have hallH : (preState g c s).allH = Ls.map (List.map g.hash) := by
      rw [preState_allH, if_pos hh, hx.allH, hx.lH]
      exact map_take_pred_append_last _ Ls i _ hx.len hpos hx.last
    have heS : (preState g c s).eStarts = Ls.map fun L => repeatList (L.map g.hash) g.nGens := by
      rw [preState_eStarts g c s he, hx.eS, hx.lH]
      exact map_take_pred_append_last (fun L => repeatList (L.map g.hash) g.nGens) Ls i _ hx.len hpos hx.last
    have heE : (preState g c s).eEnds = Ls.map fun L => (g.neighbors L).map g.hash := by
      rw [preState_eEnds g c s he, hx.eE]
      exact map_take_pred_append_last (fun L => (g.neighbors L).map g.hash) Ls i _ hx.len hpos hx.last
    split
    · -- completed
      refine ⟨i, Ls, ?_⟩
      refine ⟨hpos, hx.len, by simpa using hx.last, by simpa using hx.lH, by simpa using hx.sizes,
        by simpa using hx.layers, by simpa using hx.mono, by simpa using hx.bound, ?_, ?_, ?_⟩
      · simpa using hallH
      · simpa using heS
      · simpa using heE
    · -- the invariant after a non-empty new layer
      have htake : (Ls ++ [l2]).take (i + 1 - 1) = Ls := by
        rw [Nat.add_sub_cancel]; exact take_snoc_length Ls i l2 hx.len
      have hpost : XInv g c (i + 1) (postState g c i (preState g c s) l2 (l2.map g.hash)) (Ls ++ [l2]) false := by
        refine ⟨by omega, by simp [hx.len], ?_, rfl, ?_, ?_, ?_, ?_, ?_, ?_, ?_⟩
        · rw [Nat.add_sub_cancel, postState_layer1]
          exact getElem?_snoc_eq_some.2 (Or.inr ⟨hx.len.symm, rfl⟩)
        · simp [hx.sizes]
        · intro j L hm
          rw [postState_layers, preState_layers] at hm
          split at hm
          · rcases List.mem_append.1 hm with hm | hm
            · exact getElem?_snoc_eq_some.2 (Or.inl (hx.layers j L hm))
            · simp only [List.mem_singleton, Prod.mk.injEq] at hm
              obtain ⟨rfl, rfl⟩ := hm
              exact getElem?_snoc_eq_some.2 (Or.inr ⟨hx.len.symm, rfl⟩)
          · exact getElem?_snoc_eq_some.2 (Or.inl (hx.layers j L hm))
        · rw [postState_layers, preState_layers]
          split
          · rw [List.map_append, List.pairwise_append]
            refine ⟨hx.mono, by simp, ?_⟩
            intro a ha b hb
            obtain ⟨p, hp, rfl⟩ := List.mem_map.1 ha
            simp only [List.map_cons, List.map_nil, List.mem_singleton] at hb
            subst hb
            exact hx.bound p hp
          · exact hx.mono
        · intro p hp
          rw [postState_layers, preState_layers] at hp
          split at hp
          · rcases List.mem_append.1 hp with hp | hp
            · have := hx.bound p hp; omega
            · simp only [List.mem_singleton] at hp
              subst hp; simp
          · have := hx.bound p hp; omega
        · simp only [Bool.false_eq_true, if_false, htake, postState_allH]; exact hallH
        · simp only [Bool.false_eq_true, if_false, htake, postState_eStarts]; exact heS
        · simp only [Bool.false_eq_true, if_false, htake, postState_eEnds]; exact heE
      have hpc : (postState g c i (preState g c s) l2 (l2.map g.hash)).completed = false := by simpa using hc
      split
      · refine ⟨i + 1, Ls ++ [l2], ?_⟩
        rw [hpc]; exact hpost
      · split
        · exact ih (i + 1) _ (Ls ++ [l2]) hpost hpc
        · rename_i f hstop
          have hpost' : XInv g c (i + 1)
              { postState g c i (preState g c s) l2 (l2.map g.hash) with
                cb := (postState g c i (preState g c s) l2 (l2.map g.hash)).cb ++ [i] } (Ls ++ [l2]) false :=
            ⟨hpost.pos, hpost.len, hpost.last, hpost.lH, hpost.sizes, hpost.layers, hpost.mono, hpost.bound, hpost.allH,
              hpost.eS, hpost.eE⟩
          split
          · refine ⟨i + 1, Ls ++ [l2], ?_⟩
            show XInv g c (i + 1) _ (Ls ++ [l2]) (postState g c i (preState g c s) l2 (l2.map g.hash)).completed
            rw [hpc]; exact hpost'
          · exact ih (i + 1) _ (Ls ++ [l2]) hpost' hpc

theorem xinv_init (g : Graph α) (c : BfsCfg α) (S : List α) : XInv g c 1 (bfsInit g S) [g.unique S] false := by
  refine ⟨Nat.le_refl _, rfl, rfl, rfl, rfl, ?_, ?_, ?_, rfl, rfl, rfl⟩
  · intro j L hm
    simp only [bfsInit, List.mem_singleton, Prod.mk.injEq] at hm
    obtain ⟨rfl, rfl⟩ := hm
    rfl
  · simp [bfsInit]
  · intro p hp
    simp only [bfsInit, List.mem_singleton] at hp
    subst hp; exact Nat.zero_lt_one

theorem bfsFinal_struct (g : Graph α) (c : BfsCfg α) (S : List α) (he : c.returnEdges = true)
    (hh : c.returnHashes = true) :
    ∃ i Ls, XInv g c i (bfsFinal g c S) Ls (bfsFinal g c S).completed :=
  bfsLoop_struct g c he hh c.maxDiameter 1 (bfsInit g S) _ (xinv_init g c S) rfl

end struct

/-! ### the recorded edge blocks -/

section blocks
omit [DecidableEq α]

/-- the hash rows recorded while expanding layer `L`: generator-major, `(hash x, hash (act i x))` -/
def edgeBlock (g : Graph α) (L : List α) : List (Int × Int) :=
  (List.range g.nGens).flatMap fun i => L.map fun x => (g.hash x, g.hash (g.act i x))

theorem zip_swap {β γ : Type} (a : List β) (b : List γ) : (a.zip b).map Prod.swap = b.zip a := by
  induction a generalizing b with
  | nil => cases b <;> rfl
  | cons x a ih =>
    cases b with
    | nil => rfl
    | cons y b => simp [ih]

theorem zip_block (g : Graph α) (L : List α) :
    (repeatList (L.map g.hash) g.nGens).zip ((g.neighbors L).map g.hash) = edgeBlock g L := by
  have h1 : (g.neighbors L).map g.hash =
      (List.range g.nGens).flatMap fun i => L.map (fun x => g.hash (g.act i x)) := by
    simp only [Graph.neighbors, List.map_flatMap, List.map_map]; rfl
  have h2 := zip_repeatList (L.map g.hash) L (by simp) (fun i x => g.hash (g.act i x)) (List.range g.nGens)
  rw [List.length_range] at h2
  rw [h1, h2]
  unfold edgeBlock
  simp only [List.zip_map']

theorem length_block (g : Graph α) (L : List α) :
    (repeatList (L.map g.hash) g.nGens).length = ((g.neighbors L).map g.hash).length := by
  rw [length_repeatList]
  simp only [Graph.neighbors, List.length_map, List.length_flatMap]
  induction g.nGens with
  | zero => simp
  | succ n ih => simp [List.range_succ, Nat.succ_mul, ih]

theorem zip_blocks (g : Graph α) (Ls : List (List α)) :
    (Ls.map fun L => repeatList (L.map g.hash) g.nGens).flatten.zip
      (Ls.map fun L => (g.neighbors L).map g.hash).flatten = Ls.flatMap (edgeBlock g) := by
  rw [zip_flatten_map Ls _ _ (fun L _ => length_block g L)]
  simp only [zip_block]

theorem bfs_edges (g : Graph α) (c : BfsCfg α) (S : List α) : (bfs g c S).edges =
    if c.returnEdges = true then
      some ((if (!(bfsFinal g c S).completed) = true then
          match (bfsFinal g c S).eStarts.getLast?, (bfsFinal g c S).eEnds.getLast? with
          | some v1, some v2 => ((bfsFinal g c S).eStarts ++ [v2], (bfsFinal g c S).eEnds ++ [v1])
          | _, _ => ((bfsFinal g c S).eStarts, (bfsFinal g c S).eEnds)
        else ((bfsFinal g c S).eStarts, (bfsFinal g c S).eEnds)).1.flatten.zip
        (if (!(bfsFinal g c S).completed) = true then
          match (bfsFinal g c S).eStarts.getLast?, (bfsFinal g c S).eEnds.getLast? with
          | some v1, some v2 => ((bfsFinal g c S).eStarts ++ [v2], (bfsFinal g c S).eEnds ++ [v1])
          | _, _ => ((bfsFinal g c S).eStarts, (bfsFinal g c S).eEnds)
        else ((bfsFinal g c S).eStarts, (bfsFinal g c S).eEnds)).2.flatten)
    else none := rfl

end blocks

section common
omit [DecidableEq α]

theorem length_blocks (g : Graph α) (Ls : List (List α)) :
    (Ls.map fun L => repeatList (L.map g.hash) g.nGens).flatten.length =
      (Ls.map fun L => (g.neighbors L).map g.hash).flatten.length := by
  induction Ls with
  | nil => rfl
  | cons L t ih =>
    simp only [List.map_cons, List.flatten_cons, List.length_append, ih, length_block g L]

theorem getLast?_take_pred {β : Type} (Ls : List β) (k : Nat) (hlen : Ls.length = k) (hk : 2 ≤ k) (d : β) :
    (Ls.take (k - 1)).getLast? = some (Ls.getD (k - 2) d) := by
  rw [List.getLast?_eq_getElem?, List.length_take, List.getElem?_take]
  have h1 : min (k - 1) Ls.length - 1 = k - 2 := by omega
  rw [h1, if_pos (by omega), List.getD_eq_getElem?_getD, List.getElem?_eq_getElem (by omega)]
  rfl

/-- what the export functions see of a run that recorded edges and hashes and stored every layer -/
theorem export_common {g : Graph α} {S : List α} (h : BfsHyp g S) (c : BfsCfg α)
    (he : c.returnEdges = true) (hh : c.returnHashes = true)
    (hall : ∀ j, j < (bfs g c S).layerSizes.length → ∃ L, (j, L) ∈ (bfs g c S).layers) :
    ∃ Ls : List (List α),
      (bfs g c S).layerSizes = Ls.map List.length ∧
      (∀ j L, Ls[j]? = some L → IsLayer g S j L) ∧
      (bfs g c S).layers.length = Ls.length ∧
      (∀ j, j < Ls.length →
        ∃ L, (bfs g c S).layers.find? (fun p => p.1 == j) = some (j, L) ∧ Ls[j]? = some L) ∧
      (bfs g c S).hashes = Ls.map (List.map g.hash) ∧
      ((bfs g c S).completed = true → (bfs g c S).edges = some (Ls.flatMap (edgeBlock g))) ∧
      ((bfs g c S).completed = false → 2 ≤ Ls.length →
        (bfs g c S).edges = some ((Ls.take (Ls.length - 1)).flatMap (edgeBlock g) ++
          (edgeBlock g (Ls.getD (Ls.length - 2) [])).map Prod.swap)) := by
  obtain ⟨k, Ls, hx⟩ := bfsFinal_struct g c S he hh
  have hk := hx.pos
  have hlen := hx.len
  have hszlen : (bfsFinal g c S).sizes.length = k := by rw [hx.sizes, List.length_map, hlen]
  rw [bfs_layerSizes, hszlen] at hall
  -- the returned `layers`: entries are ghost layers, indices strictly increasing and below `k`
  have hR : (∀ j L, (j, L) ∈ (bfs g c S).layers → Ls[j]? = some L) ∧
      ((bfs g c S).layers.map (·.1)).Pairwise (· < ·) ∧ ∀ p ∈ (bfs g c S).layers, p.1 < k := by
    rw [bfs_layers, hszlen]
    split
    · rename_i hcond
      simp only [Bool.and_eq_true, Bool.not_eq_true', List.any_eq_false, beq_iff_eq] at hcond
      have hlt : ∀ p ∈ (bfsFinal g c S).layers, p.1 < k - 1 := by
        intro p hp
        have h1 := hx.bound p hp
        have h2 := hcond.2 p hp
        omega
      refine ⟨?_, ?_, ?_⟩
      · intro j L hm
        rcases List.mem_append.1 hm with hm | hm
        · exact hx.layers j L hm
        · simp only [List.mem_singleton, Prod.mk.injEq] at hm
          obtain ⟨rfl, rfl⟩ := hm
          exact hx.last
      · rw [List.map_append, List.pairwise_append]
        refine ⟨hx.mono, by simp, ?_⟩
        intro a ha b hb
        obtain ⟨p, hp, rfl⟩ := List.mem_map.1 ha
        simp only [List.map_cons, List.map_nil, List.mem_singleton] at hb
        subst hb
        exact hlt p hp
      · intro p hp
        rcases List.mem_append.1 hp with hp | hp
        · exact hx.bound p hp
        · simp only [List.mem_singleton] at hp
          subst hp; show k - 1 < k; omega
    · exact ⟨hx.layers, hx.mono, hx.bound⟩
  obtain ⟨hR1, hR2, hR3⟩ := hR
  have hidx : (bfs g c S).layers.map (·.1) = List.range k := by
    apply strict_ext _ _ hR2 List.pairwise_lt_range
    intro j
    rw [List.mem_range]
    constructor
    · intro hj
      obtain ⟨p, hp, rfl⟩ := List.mem_map.1 hj
      exact hR3 p hp
    · intro hj
      obtain ⟨L, hm⟩ := hall j hj
      exact List.mem_map.2 ⟨(j, L), hm, rfl⟩
  have hent : ∀ j, j < k → ∃ L, (j, L) ∈ (bfs g c S).layers ∧ Ls[j]? = some L := by
    intro j hj
    obtain ⟨L, hm⟩ := hall j hj
    exact ⟨L, hm, hR1 j L hm⟩
  refine ⟨Ls, by rw [bfs_layerSizes, hx.sizes], ?_, ?_, ?_, ?_, ?_, ?_⟩
  · intro j L hj
    have hjk : j < k := by rw [← hlen]; exact (List.getElem?_eq_some_iff.1 hj).1
    obtain ⟨L', hm, hL'⟩ := hent j hjk
    rw [hj] at hL'; cases hL'
    exact BfsThm.stored_sound h c j L hm
  · rw [← List.length_map (f := (·.1)), hidx, List.length_range, hlen]
  · intro j hj
    obtain ⟨L, hm, hL⟩ := hent j (by omega)
    cases hf : (bfs g c S).layers.find? (fun p => p.1 == j) with
    | none =>
      rw [List.find?_eq_none] at hf
      exact absurd (by simp) (hf _ hm)
    | some p =>
      have h1 := List.find?_some hf
      have h2 := List.mem_of_find?_eq_some hf
      obtain ⟨j', L'⟩ := p
      simp only [beq_iff_eq] at h1
      subst h1
      exact ⟨L', rfl, hR1 _ _ h2⟩
  · rw [bfs_hashes, hh]
    cases hcomp : (bfsFinal g c S).completed with
    | true =>
      have := hx.allH
      rw [hcomp] at this
      simpa using this
    | false =>
      have := hx.allH
      rw [hcomp] at this
      simp only [Bool.false_eq_true, if_false] at this
      simp only [Bool.not_false, Bool.and_self, if_true]
      rw [this, hx.lH]
      exact map_take_pred_append_last _ Ls k _ hlen hk hx.last
  · intro hcomp
    rw [bfs_completed] at hcomp
    have h1 := hx.eS
    have h2 := hx.eE
    rw [hcomp] at h1 h2
    simp only [if_true] at h1 h2
    rw [bfs_edges, if_pos he, hcomp]
    simp only [Bool.not_true, Bool.false_eq_true, if_false]
    rw [h1, h2, zip_blocks]
  · intro hcomp h2k
    rw [bfs_completed] at hcomp
    have h1 := hx.eS
    have h2 := hx.eE
    rw [hcomp] at h1 h2
    simp only [Bool.false_eq_true, if_false] at h1 h2
    rw [bfs_edges, if_pos he, hcomp]
    simp only [Bool.not_false, if_true]
    have hl := getLast?_take_pred Ls k hlen (by omega) []
    have hl1 : (bfsFinal g c S).eStarts.getLast? =
        some (repeatList ((Ls.getD (k - 2) []).map g.hash) g.nGens) := by
      rw [h1, List.getLast?_map, hl]; rfl
    have hl2 : (bfsFinal g c S).eEnds.getLast? =
        some ((g.neighbors (Ls.getD (k - 2) [])).map g.hash) := by
      rw [h2, List.getLast?_map, hl]; rfl
    rw [hl1, hl2]
    simp only [List.flatten_append, List.flatten_cons, List.flatten_nil, List.append_nil]
    rw [h1, h2, List.zip_append (length_blocks g _), zip_blocks, hlen, ← zip_swap, zip_block]

end common

/-! ### the vertex list `V` = the layers stacked -/

section vertices
omit [DecidableEq α]

theorem mem_layers_flatten {g : Graph α} {S : List α} (Ls : List (List α))
    (hL : ∀ j L, Ls[j]? = some L → IsLayer g S j L) (x : α) :
    x ∈ Ls.flatten ↔ ∃ j, j < Ls.length ∧ DistLayer g.nb S j x := by
  rw [List.mem_flatten]
  constructor
  · rintro ⟨L, hm, hx⟩
    obtain ⟨j, hj⟩ := List.mem_iff_getElem?.1 hm
    exact ⟨j, (List.getElem?_eq_some_iff.1 hj).1, ((hL j L hj).2 x).1 hx⟩
  · rintro ⟨j, hj, hd⟩
    have hget := List.getElem?_eq_getElem hj
    exact ⟨Ls[j], List.getElem_mem hj, ((hL j _ hget).2 x).2 hd⟩

theorem layers_flatten_nodup {g : Graph α} {S : List α} (Ls : List (List α))
    (hL : ∀ j L, Ls[j]? = some L → IsLayer g S j L) : Ls.flatten.Nodup := by
  unfold List.Nodup
  rw [List.pairwise_flatten]
  constructor
  · intro L hm
    obtain ⟨j, hj⟩ := List.mem_iff_getElem?.1 hm
    exact (hL j L hj).1
  · rw [List.pairwise_iff_getElem]
    intro i j hi hj hij x hx y hy hxy
    subst hxy
    have h1 := ((hL i _ (List.getElem?_eq_getElem hi)).2 x).1 hx
    have h2 := ((hL j _ (List.getElem?_eq_getElem hj)).2 x).1 hy
    have := distLayer_unique h1 h2
    omega

theorem foldlM_layers (layers : List (Nat × List α)) (Ls : List (List α)) (k : Nat) (hk : k ≤ Ls.length)
    (hfind : ∀ j, j < Ls.length → ∃ L, layers.find? (fun p => p.1 == j) = some (j, L) ∧ Ls[j]? = some L) :
    (List.range k).foldlM (fun acc i =>
      match layers.find? (fun p => p.1 == i) with
      | some p => some (acc ++ p.2)
      | none => none) ([] : List α) = some (Ls.take k).flatten := by
  induction k with
  | zero => rfl
  | succ k ih =>
    rw [List.range_succ, List.foldlM_append, ih (by omega)]
    obtain ⟨L, h1, h2⟩ := hfind k (by omega)
    have hk' : k < Ls.length := by omega
    rw [List.getElem?_eq_getElem hk'] at h2
    cases h2
    simp only [Option.bind_eq_bind, Option.bind_some, List.foldlM_cons, h1, List.foldlM_nil]
    rw [List.take_succ_eq_append_getElem hk', List.flatten_append]
    simp

theorem allStates_eq (r : BfsOut α) (Ls : List (List α)) (h1 : r.layerSizes = Ls.map List.length)
    (h2 : r.layers.length = Ls.length)
    (hfind : ∀ j, j < Ls.length → ∃ L, r.layers.find? (fun p => p.1 == j) = some (j, L) ∧ Ls[j]? = some L) :
    allStates r = some Ls.flatten := by
  unfold allStates
  have hl : r.layerSizes.length = Ls.length := by rw [h1, List.length_map]
  rw [hl, h2]
  simp only [bne_self_eq_false, Bool.false_eq_true, if_false]
  have := foldlM_layers r.layers Ls Ls.length (Nat.le_refl _) hfind
  rw [List.take_length] at this
  exact this

end vertices

/-! ### the edge list -/

section edges

omit [DecidableEq α] in
theorem edgesList_eq (r : BfsOut α) (es : List (Int × Int)) (flat : List Int) (hedges : r.edges = some es)
    (hlen : r.hashes.length = r.layerSizes.length) (hflat : r.hashes.flatten = flat) (hnd : flat.Nodup)
    (hes : ∀ e ∈ es, e.1 ∈ flat ∧ e.2 ∈ flat) :
    edgesList r = some (es.map fun e => (flat.idxOf e.1, flat.idxOf e.2)) := by
  unfold edgesList
  rw [hedges]
  simp only [hlen, bne_self_eq_false, Bool.false_eq_true, if_false]
  have htab : hashesToIndices r.hashes = some (flat.zip (List.range flat.length)) := by
    unfold hashesToIndices
    simp only [hflat, eraseDups_of_nodup flat hnd, beq_self_eq_true, if_true]
  rw [htab]
  simp only
  apply mapM_option_eq_some
  intro e he
  obtain ⟨h1, h2⟩ := hes e he
  rw [lookupIdx_zip_range flat e.1 h1, lookupIdx_zip_range flat e.2 h2]

/-- the index rows for the out-edges of the vertices of `L` -/
def idxBlock (g : Graph α) (V L : List α) : List (Nat × Nat) :=
  (List.range g.nGens).flatMap fun i => L.map fun x => (V.idxOf x, V.idxOf (g.act i x))

theorem flatMap_congr' {β γ : Type} (l : List β) (f g : β → List γ) (h : ∀ b ∈ l, f b = g b) :
    l.flatMap f = l.flatMap g := by
  induction l with
  | nil => rfl
  | cons a t ih =>
    rw [List.flatMap_cons, List.flatMap_cons, h a List.mem_cons_self,
      ih (fun b hb => h b (List.mem_cons_of_mem _ hb))]

theorem map_edgeBlock (g : Graph α) (V L : List α)
    (hinj : ∀ x ∈ V, ∀ y ∈ V, g.hash x = g.hash y → x = y)
    (hL : ∀ x ∈ L, x ∈ V ∧ ∀ i, i < g.nGens → g.act i x ∈ V) :
    (edgeBlock g L).map (fun e => ((V.map g.hash).idxOf e.1, (V.map g.hash).idxOf e.2)) = idxBlock g V L := by
  unfold edgeBlock idxBlock
  rw [List.map_flatMap]
  apply flatMap_congr'
  intro i hi
  rw [List.map_map]
  apply List.map_congr_left
  intro x hx
  obtain ⟨hxV, hact⟩ := hL x hx
  have hax := hact i (List.mem_range.1 hi)
  simp only [Function.comp]
  rw [idxOf_map_inj g.hash V x hxV (fun y hy e => hinj y hy x hxV e),
    idxOf_map_inj g.hash V _ hax (fun y hy e => hinj y hy _ hax e)]

theorem mem_idxBlock (g : Graph α) (V L : List α) (e : Nat × Nat) :
    e ∈ idxBlock g V L ↔ ∃ v k, v ∈ L ∧ k < g.nGens ∧ e = (V.idxOf v, V.idxOf (g.act k v)) := by
  unfold idxBlock
  simp only [List.mem_flatMap, List.mem_range, List.mem_map]
  constructor
  · rintro ⟨k, hk, v, hv, rfl⟩; exact ⟨v, k, hv, hk, rfl⟩
  · rintro ⟨v, k, hv, hk, rfl⟩; exact ⟨k, hk, v, hv, rfl⟩

theorem idxBlock_perm (g : Graph α) (V L : List α) :
    (idxBlock g V L).Perm (L.flatMap fun v => (List.range g.nGens).map fun i => (V.idxOf v, V.idxOf (g.act i v))) :=
  flatMap_swap_perm (List.range g.nGens) L (fun i x => (V.idxOf x, V.idxOf (g.act i x)))

theorem flatMap_perm_congr {β γ : Type} (l : List β) (f g : β → List γ) (h : ∀ b ∈ l, (f b).Perm (g b)) :
    (l.flatMap f).Perm (l.flatMap g) := by
  induction l with
  | nil => exact List.Perm.refl _
  | cons a t ih =>
    rw [List.flatMap_cons, List.flatMap_cons]
    exact (h a List.mem_cons_self).append (ih (fun b hb => h b (List.mem_cons_of_mem _ hb)))

theorem flatten_flatMap {β γ : Type} (Ls : List (List β)) (f : β → List γ) :
    Ls.flatten.flatMap f = Ls.flatMap fun L => L.flatMap f := by
  induction Ls with
  | nil => rfl
  | cons L t ih => simp [List.flatMap_append, ih]

theorem getElem?_idxOf_of_mem (V : List α) (v : α) (hv : v ∈ V) : V[V.idxOf v]? = some v := by
  have h := List.idxOf_lt_length_of_mem hv
  rw [List.getElem?_eq_getElem h, List.getElem_idxOf h]

theorem idxOf_of_getElem? (V : List α) (hnd : V.Nodup) (i : Nat) (v : α) (h : V[i]? = some v) : V.idxOf v = i := by
  obtain ⟨hi, rfl⟩ := List.getElem?_eq_some_iff.1 h
  exact hnd.idxOf_getElem i hi

end edges

/-! ### the export theorems -/

section main

omit [DecidableEq α] in
theorem distLayer_empty_of_le (nb : α → List α) (S : List α) (k : Nat)
    (hk : ∀ x, ¬ DistLayer nb S k x) : ∀ j, k ≤ j → ∀ x, ¬ DistLayer nb S j x := by
  intro j
  induction j with
  | zero => intro hj; have : k = 0 := by omega
            subst this; exact hk
  | succ j ih =>
    intro hj x hx
    by_cases hkj : k = j + 1
    · subst hkj; exact hk x hx
    · obtain ⟨y, hy, -⟩ := distLayer_pred_bfs hx
      exact ih (by omega) y hy

omit [DecidableEq α] in
theorem act_mem_nb (g : Graph α) (i : Nat) (hi : i < g.nGens) (x : α) : g.act i x ∈ g.nb x := by
  simp only [Graph.nb, nbOf, List.mem_map, List.mem_range]
  exact ⟨i, hi, rfl⟩

/-- renumbering the recorded rows of a family of layers whose out-neighbours all lie in `V` -/
theorem map_edgeBlocks (g : Graph α) (V : List α) (Ls' : List (List α))
    (hinj : ∀ x ∈ V, ∀ y ∈ V, g.hash x = g.hash y → x = y)
    (hsub : ∀ L ∈ Ls', ∀ x ∈ L, x ∈ V ∧ ∀ i, i < g.nGens → g.act i x ∈ V) :
    (Ls'.flatMap (edgeBlock g)).map (fun e => ((V.map g.hash).idxOf e.1, (V.map g.hash).idxOf e.2)) =
      Ls'.flatMap (idxBlock g V) := by
  rw [List.map_flatMap]
  apply flatMap_congr'
  intro L hL
  exact map_edgeBlock g V L hinj (hsub L hL)

omit [DecidableEq α] in
theorem mem_edgeBlock_flat (g : Graph α) (V L : List α)
    (hL : ∀ x ∈ L, x ∈ V ∧ ∀ i, i < g.nGens → g.act i x ∈ V) (e : Int × Int) (he : e ∈ edgeBlock g L) :
    e.1 ∈ V.map g.hash ∧ e.2 ∈ V.map g.hash := by
  unfold edgeBlock at he
  simp only [List.mem_flatMap, List.mem_range, List.mem_map] at he
  obtain ⟨i, hi, x, hx, rfl⟩ := he
  obtain ⟨h1, h2⟩ := hL x hx
  exact ⟨List.mem_map_of_mem h1, List.mem_map_of_mem (h2 i hi)⟩

omit [DecidableEq α] in
theorem nodup_map_hash (g : Graph α) (V : List α) (hnd : V.Nodup)
    (hinj : ∀ x ∈ V, ∀ y ∈ V, g.hash x = g.hash y → x = y) : (V.map g.hash).Nodup := by
  refine (List.pairwise_map).2 (hnd.imp_of_mem ?_)
  intro a b ha hb hab heq
  exact hab (hinj a ha b hb heq)

/-- completed BFS that recorded everything and stored every layer -/
theorem export_complete_stored (g : Graph α) (S : List α) (h : BfsHyp g S) (c : BfsCfg α)
    (he : c.returnEdges = true) (hh : c.returnHashes = true)
    (hall : ∀ j, j < (bfs g c S).layerSizes.length → ∃ L, (j, L) ∈ (bfs g c S).layers)
    (hcomp : (bfs g c S).completed = true) :
    ∃ V E, allStates (bfs g c S) = some V ∧ edgesList (bfs g c S) = some E ∧
      V.Nodup ∧ (∀ x, x ∈ V ↔ InOrbit g.nb S x) ∧
      (bfs g c S).hashes.flatten = V.map g.hash ∧
      E.Perm (V.flatMap fun v => (List.range g.nGens).map fun i => (V.idxOf v, V.idxOf (g.act i v))) ∧
      (∀ i j, adjacency E i j = true ↔ ∃ v k, V[i]? = some v ∧ k < g.nGens ∧ V[j]? = some (g.act k v)) := by
  obtain ⟨Ls, hsz, hL, hlen, hfind, hhash, hedc, -⟩ := export_common h c he hh hall
  have hV := allStates_eq _ Ls hsz hlen hfind
  have hnd := layers_flatten_nodup Ls hL
  have hmem := mem_layers_flatten Ls hL
  have hk : (bfs g c S).layerSizes.length = Ls.length := by rw [hsz, List.length_map]
  have horb : ∀ x, x ∈ Ls.flatten ↔ InOrbit g.nb S x := by
    intro x
    rw [hmem]
    constructor
    · rintro ⟨j, -, hd⟩; exact hd.inOrbit
    · rintro ⟨n, hn⟩
      obtain ⟨j, -, hd⟩ := exists_distLayer_of_reach hn
      refine ⟨j, ?_, hd⟩
      apply Classical.byContradiction
      intro hge
      have hemp := BfsThm.completed_sound h c hcomp
      rw [hk] at hemp
      exact distLayer_empty_of_le g.nb S _ hemp j (by omega) x hd
  have hinjV : ∀ x ∈ Ls.flatten, ∀ y ∈ Ls.flatten, g.hash x = g.hash y → x = y :=
    fun x hx y hy e => h.inj x y ((horb x).1 hx) ((horb y).1 hy) e
  have hclosed : ∀ x ∈ Ls.flatten, ∀ i, i < g.nGens → g.act i x ∈ Ls.flatten :=
    fun x hx i hi => (horb _).2 (((horb x).1 hx).step (act_mem_nb g i hi x))
  have hsub : ∀ L ∈ Ls, ∀ x ∈ L, x ∈ Ls.flatten ∧ ∀ i, i < g.nGens → g.act i x ∈ Ls.flatten := by
    intro L hLm x hx
    have : x ∈ Ls.flatten := List.mem_flatten.2 ⟨L, hLm, hx⟩
    exact ⟨this, hclosed x this⟩
  have hflat : (bfs g c S).hashes.flatten = Ls.flatten.map g.hash := by
    rw [hhash, List.map_flatten]
  have hE := edgesList_eq (bfs g c S) _ _ (hedc hcomp) (by rw [hhash, List.length_map, hk]) hflat
    (nodup_map_hash g _ hnd hinjV) (by
      intro e hem
      obtain ⟨L, hLm, heL⟩ := List.mem_flatMap.1 hem
      exact mem_edgeBlock_flat g _ L (hsub L hLm) e heL)
  rw [map_edgeBlocks g _ Ls hinjV hsub] at hE
  refine ⟨Ls.flatten, Ls.flatMap (idxBlock g Ls.flatten), hV, hE, hnd, horb, hflat, ?_, ?_⟩
  · rw [flatten_flatMap]
    exact flatMap_perm_congr Ls _ _ (fun L _ => idxBlock_perm g _ L)
  · intro i j
    rw [adjacency_iff, List.mem_flatMap]
    constructor
    · rintro ⟨L, hLm, hm⟩
      obtain ⟨v, k, hv, hk', heq⟩ := (mem_idxBlock g _ L _).1 hm
      simp only [Prod.mk.injEq] at heq
      obtain ⟨rfl, rfl⟩ := heq
      obtain ⟨hvV, hact⟩ := hsub L hLm v hv
      exact ⟨v, k, getElem?_idxOf_of_mem _ v hvV, hk', getElem?_idxOf_of_mem _ _ (hact k hk')⟩
    · rintro ⟨v, k, hi, hk', hj⟩
      have hvV : v ∈ Ls.flatten := List.mem_of_getElem? hi
      obtain ⟨L, hLm, hv⟩ := List.mem_flatten.1 hvV
      refine ⟨L, hLm, (mem_idxBlock g _ L _).2 ⟨v, k, hv, hk', ?_⟩⟩
      rw [idxOf_of_getElem? _ hnd i v hi, idxOf_of_getElem? _ hnd j _ hj]


omit [DecidableEq α] in
theorem mem_take_iff {β : Type} (l : List β) (m : Nat) (b : β) :
    b ∈ l.take m ↔ ∃ j, j < m ∧ l[j]? = some b := by
  rw [List.mem_iff_getElem?]
  simp only [List.getElem?_take]
  constructor
  · rintro ⟨j, hj⟩
    split at hj
    · exact ⟨j, by assumption, hj⟩
    · cases hj
  · rintro ⟨j, hj, hb⟩
    exact ⟨j, by rw [if_pos hj]; exact hb⟩

/-- early-stopped BFS that recorded everything and stored every layer -/
theorem export_partial_stored (g : Graph α) (S : List α) (h : BfsHyp g S) (c : BfsCfg α)
    (he : c.returnEdges = true) (hh : c.returnHashes = true)
    (hall : ∀ j, j < (bfs g c S).layerSizes.length → ∃ L, (j, L) ∈ (bfs g c S).layers)
    (hcomp : (bfs g c S).completed = false) (hstep : 2 ≤ (bfs g c S).layerSizes.length) :
    ∃ V E, allStates (bfs g c S) = some V ∧ edgesList (bfs g c S) = some E ∧ V.Nodup ∧
      (∀ x, x ∈ V ↔ ∃ j, j < (bfs g c S).layerSizes.length ∧ DistLayer g.nb S j x) ∧
      (bfs g c S).hashes.flatten = V.map g.hash ∧
      (∀ v k j, j + 1 < (bfs g c S).layerSizes.length → DistLayer g.nb S j v → k < g.nGens →
          (V.idxOf v, V.idxOf (g.act k v)) ∈ E) ∧
      (∀ e ∈ E, (∃ v k j, j + 1 < (bfs g c S).layerSizes.length ∧ DistLayer g.nb S j v ∧ k < g.nGens ∧
                    e = (V.idxOf v, V.idxOf (g.act k v))) ∨
                (∃ v k, DistLayer g.nb S ((bfs g c S).layerSizes.length - 2) v ∧ k < g.nGens ∧
                    e = (V.idxOf (g.act k v), V.idxOf v))) := by
  obtain ⟨Ls, hsz, hL, hlen, hfind, hhash, -, hedp⟩ := export_common h c he hh hall
  have hV := allStates_eq _ Ls hsz hlen hfind
  have hnd := layers_flatten_nodup Ls hL
  have hmem := mem_layers_flatten Ls hL
  have hk : (bfs g c S).layerSizes.length = Ls.length := by rw [hsz, List.length_map]
  rw [hk] at hstep ⊢
  have hinjV : ∀ x ∈ Ls.flatten, ∀ y ∈ Ls.flatten, g.hash x = g.hash y → x = y := by
    intro x hx y hy e
    obtain ⟨j, -, hd⟩ := (hmem x).1 hx
    obtain ⟨j', -, hd'⟩ := (hmem y).1 hy
    exact h.inj x y hd.inOrbit hd'.inOrbit e
  -- vertices of a non-final layer have all their out-neighbours in `V`
  have hclosed : ∀ j v, j + 1 < Ls.length → DistLayer g.nb S j v →
      v ∈ Ls.flatten ∧ ∀ i, i < g.nGens → g.act i v ∈ Ls.flatten := by
    intro j v hj hd
    refine ⟨(hmem v).2 ⟨j, by omega, hd⟩, ?_⟩
    intro i hi
    have hr : Reach g.nb S (j + 1) (g.act i v) := (reach_succ ..).2 ⟨v, hd.1, act_mem_nb g i hi v⟩
    obtain ⟨j', hj', hd'⟩ := exists_distLayer_of_reach hr
    exact (hmem _).2 ⟨j', by omega, hd'⟩
  have hsub : ∀ L ∈ Ls.take (Ls.length - 1), ∀ x ∈ L,
      x ∈ Ls.flatten ∧ ∀ i, i < g.nGens → g.act i x ∈ Ls.flatten := by
    intro L hLm x hx
    obtain ⟨j, hj, hget⟩ := (mem_take_iff _ _ _).1 hLm
    exact hclosed j x (by omega) (((hL j L hget).2 x).1 hx)
  have hlastget : Ls[Ls.length - 2]? = some (Ls.getD (Ls.length - 2) []) := by
    rw [List.getD_eq_getElem?_getD, List.getElem?_eq_getElem (by omega)]; rfl
  have hlastmem : Ls.getD (Ls.length - 2) [] ∈ Ls.take (Ls.length - 1) :=
    (mem_take_iff _ _ _).2 ⟨Ls.length - 2, by omega, hlastget⟩
  have hflat : (bfs g c S).hashes.flatten = Ls.flatten.map g.hash := by
    rw [hhash, List.map_flatten]
  have hE := edgesList_eq (bfs g c S) _ _ (hedp hcomp hstep) (by rw [hhash, List.length_map, hk]) hflat
    (nodup_map_hash g _ hnd hinjV) (by
      intro e hem
      rcases List.mem_append.1 hem with hem | hem
      · obtain ⟨L, hLm, heL⟩ := List.mem_flatMap.1 hem
        exact mem_edgeBlock_flat g _ L (hsub L hLm) e heL
      · obtain ⟨e', he', rfl⟩ := List.mem_map.1 hem
        have := mem_edgeBlock_flat g _ _ (hsub _ hlastmem) e' he'
        exact ⟨this.2, this.1⟩)
  rw [List.map_append, map_edgeBlocks g _ _ hinjV hsub, List.map_map] at hE
  have hswap : ((fun e : Int × Int => ((Ls.flatten.map g.hash).idxOf e.1, (Ls.flatten.map g.hash).idxOf e.2)) ∘
      Prod.swap) = Prod.swap ∘
        (fun e : Int × Int => ((Ls.flatten.map g.hash).idxOf e.1, (Ls.flatten.map g.hash).idxOf e.2)) := by
    funext e; rfl
  rw [hswap, ← List.map_map, map_edgeBlock g _ _ hinjV (hsub _ hlastmem)] at hE
  refine ⟨Ls.flatten, _, hV, hE, hnd, hmem, hflat, ?_, ?_⟩
  · intro v k j hj hd hk'
    apply List.mem_append_left
    rw [List.mem_flatMap]
    have hjl : j < Ls.length := by omega
    refine ⟨Ls[j], (mem_take_iff _ _ _).2 ⟨j, by omega, List.getElem?_eq_getElem hjl⟩, ?_⟩
    exact (mem_idxBlock g _ _ _).2
      ⟨v, k, ((hL j _ (List.getElem?_eq_getElem hjl)).2 v).2 hd, hk', rfl⟩
  · intro e hem
    rcases List.mem_append.1 hem with hem | hem
    · left
      obtain ⟨L, hLm, heL⟩ := List.mem_flatMap.1 hem
      obtain ⟨j, hj, hget⟩ := (mem_take_iff _ _ _).1 hLm
      obtain ⟨v, k, hv, hk', rfl⟩ := (mem_idxBlock g _ L _).1 heL
      exact ⟨v, k, j, by omega, ((hL j L hget).2 v).1 hv, hk', rfl⟩
    · right
      obtain ⟨e', he', rfl⟩ := List.mem_map.1 hem
      obtain ⟨v, k, hv, hk', rfl⟩ := (mem_idxBlock g _ _ _).1 he'
      exact ⟨v, k, ((hL _ _ hlastget).2 v).1 hv, hk', rfl⟩


/-! ### when is every layer stored? -/

omit [DecidableEq α] in
/-- completed run: the layers `1 … length-2` must fit the store limit (layer 0 and the last layer are always kept) -/
theorem stored_all_complete (g : Graph α) (S : List α) (h : BfsHyp g S) (c : BfsCfg α)
    (hcomp : (bfs g c S).completed = true)
    (hsmall : ∀ i n, 0 < i → i + 1 < (bfs g c S).layerSizes.length → (bfs g c S).layerSizes[i]? = some n →
      n ≤ c.storeLimit) :
    ∀ j, j < (bfs g c S).layerSizes.length → ∃ L, (j, L) ∈ (bfs g c S).layers := by
  intro j hj
  rw [BfsThm.stored_iff h c j]
  refine ⟨_, List.getElem?_eq_getElem hj, ?_⟩
  by_cases h0 : j = 0
  · exact Or.inl h0
  · by_cases hl : j + 1 < (bfs g c S).layerSizes.length
    · exact Or.inr (Or.inl (hsmall j _ (by omega) hl (List.getElem?_eq_getElem hj)))
    · exact Or.inr (Or.inr ⟨hcomp, by omega⟩)

omit [DecidableEq α] in
/-- any run: the layers `1 … length-1` must fit the store limit -/
theorem stored_all_partial (g : Graph α) (S : List α) (h : BfsHyp g S) (c : BfsCfg α)
    (hsmall : ∀ i n, 0 < i → (bfs g c S).layerSizes[i]? = some n → n ≤ c.storeLimit) :
    ∀ j, j < (bfs g c S).layerSizes.length → ∃ L, (j, L) ∈ (bfs g c S).layers := by
  intro j hj
  rw [BfsThm.stored_iff h c j]
  refine ⟨_, List.getElem?_eq_getElem hj, ?_⟩
  by_cases h0 : j = 0
  · exact Or.inl h0
  · exact Or.inr (Or.inl (hsmall j _ (by omega) (List.getElem?_eq_getElem hj)))

omit [DecidableEq α] in
theorem foldlM_layers_some (layers : List (Nat × List α)) (l : List Nat) (init V : List α)
    (hV : l.foldlM (fun acc i =>
      match layers.find? (fun p => p.1 == i) with
      | some p => some (acc ++ p.2)
      | none => none) init = some V) :
    ∀ a ∈ l, ∃ L, (a, L) ∈ layers := by
  induction l generalizing init with
  | nil => intro a ha; cases ha
  | cons b t ih =>
    rw [List.foldlM_cons] at hV
    cases hf : layers.find? (fun p => p.1 == b) with
    | none => simp [hf] at hV
    | some p =>
      simp only [hf, Option.bind_eq_bind, Option.bind_some] at hV
      intro a ha
      rcases List.mem_cons.1 ha with rfl | ha
      · have h1 := List.find?_some hf
        have h2 := List.mem_of_find?_eq_some hf
        simp only [beq_iff_eq] at h1
        exact ⟨p.2, by rw [← h1]; exact h2⟩
      · exact ih _ hV a ha

omit [DecidableEq α] in
/-- `all_states` succeeds only if every layer was stored -/
theorem allStates_some_stored (r : BfsOut α) (V : List α) (hV : allStates r = some V) :
    ∀ j, j < r.layerSizes.length → ∃ L, (j, L) ∈ r.layers := by
  unfold allStates at hV
  split at hV
  · cases hV
  · intro j hj
    exact foldlM_layers_some r.layers _ [] V hV j (List.mem_range.2 hj)

omit [DecidableEq α] in
/-- the size hypothesis of the export theorems is needed: an unstored layer makes `all_states` fail -/
theorem allStates_none_of_big (g : Graph α) (S : List α) (h : BfsHyp g S) (c : BfsCfg α) (i n : Nat)
    (hi : 0 < i) (hn : (bfs g c S).layerSizes[i]? = some n) (hbig : c.storeLimit < n)
    (hlast : (bfs g c S).completed = true → i + 1 < (bfs g c S).layerSizes.length) :
    allStates (bfs g c S) = none := by
  cases hV : allStates (bfs g c S) with
  | none => rfl
  | some V =>
    exfalso
    have hi' : i < (bfs g c S).layerSizes.length := (List.getElem?_eq_some_iff.1 hn).1
    obtain ⟨L, hm⟩ := allStates_some_stored _ V hV i hi'
    obtain ⟨n', hn', hcase⟩ := (BfsThm.stored_iff h c i).1 ⟨L, hm⟩
    rw [hn] at hn'; cases hn'
    rcases hcase with h0 | h0 | ⟨hc, h0⟩
    · omega
    · omega
    · have := hlast hc; omega

end main

/-! ### the final bookkeeping of `bfs` as a function of the state returned by the loop (for evaluation on examples) -/

section outOf
omit [DecidableEq α]

def bfsOutOf (c : BfsCfg α) (s : BfsLoop α) : BfsOut α :=
  let allH := if c.returnHashes && !s.completed then s.allH ++ [s.layer1H] else s.allH
  let edges : Option (List (Int × Int)) :=
    if c.returnEdges then
      let (es, ee) :=
        if !s.completed then
          match s.eStarts.getLast?, s.eEnds.getLast? with
          | some v1, some v2 => (s.eStarts ++ [v2], s.eEnds ++ [v1])
          | _, _ => (s.eStarts, s.eEnds)
        else (s.eStarts, s.eEnds)
      some (es.flatten.zip ee.flatten)
    else none
  let last := s.sizes.length - 1
  let layers :=
    if s.completed && !(s.layers.any fun p => p.1 == last) then s.layers ++ [(last, s.layer1)]
    else s.layers
  { layerSizes := s.sizes, layers := layers, completed := s.completed, hashes := allH,
    edges := edges, cbTrace := s.cb }

theorem bfs_eq_outOf (g : Graph α) (c : BfsCfg α) (S : List α) : bfs g c S = bfsOutOf c (bfsFinal g c S) := rfl

end outOf
end Cv
