/-
  Naturality of the path functions and of the two beam searches in the state type: a `GraphMap h g f`
  (and one for the inverted copies) turns a run on `h` into the run on `g` from the mapped states.
  Core Lean only.
-/
import CvProofs.Natural
import CvProofs.Paths
namespace Cv

variable {α β : Type} {h hi : Graph β} {g gi : Graph α} {f : β → α}

/-- the configuration seen through `f`: the oracle is asked about the mapped rows -/
def SimpleCfg.comap (c : SimpleCfg α) (f : β → α) : SimpleCfg β :=
  { beamWidth := c.beamWidth, maxSteps := c.maxSteps, returnPath := c.returnPath, ball := c.ball,
    select := fun i l => c.select i (l.map f) }

def AdvCfg.comap (c : AdvCfg α) (f : β → α) : AdvCfg β :=
  { beamWidth := c.beamWidth, maxSteps := c.maxSteps, historyDepth := c.historyDepth,
    select := fun i l => c.select i (l.map f) }

/-! ### restore_path / find_path_to / find_path_from -/

theorem rpFind_map (mi : GraphMap hi gi f) (layer : List Int) (q : β) :
    rpFind hi layer q = rpFind gi layer (f q) := by
  have hc : ((List.range hi.nGens).map fun i => hi.act i q).map f =
      (List.range gi.nGens).map fun i => gi.act i (f q) := by
    rw [mi.nGens, List.map_map]
    apply List.map_congr_left
    intro i hi'
    exact mi.act i (List.mem_range.1 hi') q
  have hp : (fun c => layer.contains (hi.hash c)) = (fun c => layer.contains (gi.hash c)) ∘ f := by
    funext c
    simp only [Function.comp_apply, mi.hash c]
  unfold rpFind
  rw [← hc, hp]
  exact List.findIdx?_map.symm

theorem rpFold_map (mi : GraphMap hi gi f) (rev : List (List Int)) (q : β) (acc : List Nat) :
    (rpFold hi rev (q, acc)).map (fun r => (f r.1, r.2)) = rpFold gi rev (f q, acc) := by
  induction rev generalizing q acc with
  | nil => rfl
  | cons H rev ih =>
    rw [rpFold_cons, rpFold_cons]
    dsimp only
    rw [rpFind_map mi]
    cases hk : rpFind gi H (f q) with
    | none => rfl
    | some k =>
      dsimp only
      rw [← mi.act k (rpFind_some hk).1 q]
      exact ih _ _

theorem restorePath_map (mi : GraphMap hi gi f) (Hs : List (List Int)) (q : β) :
    restorePath hi Hs q = restorePath gi Hs (f q) := by
  rw [restorePath_eq_rpFold, restorePath_eq_rpFold, ← rpFold_map mi, Option.map_map]
  rfl

theorem findPathTo_map (m : GraphMap h g f) (mi : GraphMap hi gi f) (Hs : List (List Int)) (q : β) :
    findPathTo h hi Hs q = findPathTo g gi Hs (f q) := by
  unfold findPathTo
  simp only [m.hash q, restorePath_map mi]

theorem findPathFrom_map (m : GraphMap h g f) (mi : GraphMap hi gi f) (invMap : Option (List Nat))
    (Hs : List (List Int)) (q : β) :
    findPathFrom h hi invMap Hs q = findPathFrom g gi invMap Hs (f q) := by
  unfold findPathFrom
  rw [m.invClosed, findPathTo_map m mi]

/-! ### search_simple -/

theorem simpleLoop_map (m : GraphMap h g f) (mi : GraphMap hi gi f) (invMap : Option (List Nat)) (central : β)
    (c : SimpleCfg α) (ballH : List (List Int)) (fuel i : Nat) (layer1 : List β) (allH : List (List Int)) :
    simpleLoop h hi invMap central (c.comap f) ballH fuel i layer1 allH =
      simpleLoop g gi invMap (f central) c ballH fuel i (layer1.map f) allH := by
  induction fuel generalizing i layer1 allH with
  | zero => rfl
  | succ fuel ih =>
    rw [simpleLoop, simpleLoop]
    dsimp only
    rw [← m.neighbors, ← m.unique]
    generalize h.unique (h.neighbors layer1) = L
    rw [m.map_hash L]
    have hcf1 : (c.comap f).returnPath = c.returnPath := rfl
    have hcf2 : (c.comap f).beamWidth = c.beamWidth := rfl
    have hcf3 : (c.comap f).select i L = c.select i (L.map f) := rfl
    rw [hcf1, hcf2, hcf3]
    cases checkPathFound ballH (List.map g.hash (List.map f L)) with
    | none =>
      dsimp only
      have e : (if L.length ≥ c.beamWidth then gather L (c.select i (L.map f)) else L).map f =
          if (L.map f).length ≥ c.beamWidth then gather (L.map f) (c.select i (L.map f)) else L.map f := by
        rw [List.length_map]
        split
        · exact gather_map f L _
        · rfl
      rw [ih, m.map_hash, e]
    | some j =>
      dsimp only
      have hp : (fun x => isinSorted (ballH.getD j []) (h.hash x)) =
          (fun x => isinSorted (ballH.getD j []) (g.hash x)) ∘ f := by
        funext x
        simp only [Function.comp_apply, m.hash x]
      rw [restorePath_map mi allH central, List.find?_map, hp]
      cases List.find? ((fun x => isinSorted (ballH.getD j []) (g.hash x)) ∘ f) L with
      | none => rfl
      | some middle =>
        dsimp only [Option.map]
        rw [restorePath_map mi, findPathFrom_map m mi]

theorem beamSimple_map (m : GraphMap h g f) (mi : GraphMap hi gi f) (invMap : Option (List Nat)) (central start : β)
    (c : SimpleCfg α) :
    beamSimple h hi invMap central start (c.comap f) = beamSimple g gi invMap (f central) (f start) c := by
  unfold beamSimple
  dsimp only
  have e : g.unique [f start] = (h.unique [start]).map f := by
    rw [m.unique]
    rfl
  have hc1 : (c.comap f).ball = c.ball := rfl
  have hc2 : (c.comap f).maxSteps = c.maxSteps := rfl
  rw [e, ← m.map_hash, ← m.hash central, m.invClosed, hc1, hc2]
  simp only [simpleLoop_map m mi]

/-! ### search_advanced -/

theorem advLoop_map [DecidableEq α] [DecidableEq β] (m : GraphMap h g f) (hf : Function.Injective f)
    (dest : β) (c : AdvCfg α) (fuel iStep : Nat) (beam : List β) (ring : Ring) (cyc : Nat) :
    advLoop h dest (c.comap f) fuel iStep beam ring cyc =
      advLoop g (f dest) c fuel iStep (beam.map f) ring cyc := by
  induction fuel generalizing iStep beam ring cyc with
  | zero => rfl
  | succ fuel ih =>
    rw [advLoop, advLoop]
    dsimp only
    rw [← m.neighbors, ← m.unique]
    generalize h.unique (h.neighbors beam) = L
    rw [m.map_hash L]
    have hcf1 : (c.comap f).historyDepth = c.historyDepth := rfl
    have hcf2 : (c.comap f).beamWidth = c.beamWidth := rfl
    have hcf3 : ∀ K, (c.comap f).select iStep K = c.select iStep (K.map f) := fun _ => rfl
    simp only [hcf1, hcf2, hcf3]
    have hany : ((L.map f).any fun x => x == f dest) = L.any fun x => x == dest := by
      rw [List.any_map]
      congr 1
      funext x
      rw [Function.comp_apply, Bool.eq_iff_iff, beq_iff_eq, beq_iff_eq, hf.eq_iff]
    have hp : (fun x => !(List.flatten ring).contains (h.hash x)) =
        (fun x => !(List.flatten ring).contains (g.hash x)) ∘ f := by
      funext x
      simp only [Function.comp_apply, m.hash x]
    have hstep : ∀ (kept : List β) (ring' : Ring) (cyc' : Nat),
        advLoop h dest (c.comap f) fuel (iStep + 1)
          (if kept.length > c.beamWidth then gather kept (c.select iStep (List.map f kept)) else kept) ring' cyc' =
        advLoop g (f dest) c fuel (iStep + 1)
          (if (kept.map f).length > c.beamWidth then gather (kept.map f) (c.select iStep (kept.map f))
            else kept.map f) ring' cyc' := by
      intro kept ring' cyc'
      have e : (if kept.length > c.beamWidth then gather kept (c.select iStep (kept.map f)) else kept).map f =
          if (kept.map f).length > c.beamWidth then gather (kept.map f) (c.select iStep (kept.map f))
            else kept.map f := by
        rw [List.length_map]
        split
        · exact gather_map f kept _
        · rfl
      rw [ih, e]
    rw [hany, List.filter_map, ← hp]
    generalize List.filter (fun x => !(List.flatten ring).contains (h.hash x)) L = K
    rw [List.isEmpty_map]
    by_cases hany' : (L.any fun x => x == dest) = true
    · rw [if_pos hany', if_pos hany']
    · rw [if_neg hany', if_neg hany']
      by_cases hd : c.historyDepth > 0
      · simp only [if_pos hd]
        cases hK : K.isEmpty with
        | true => simp only [if_true, hd, and_self]
        | false =>
          simp only [Bool.false_eq_true, if_false, and_false]
          cases writeColumn (List.getD ring ((cyc + 1) % c.historyDepth) []) (List.map g.hash (List.map f L)) with
          | none => rfl
          | some col => exact hstep _ _ _
      · simp only [if_neg hd]
        exact hstep _ _ _

theorem beamAdvanced_map [DecidableEq α] [DecidableEq β] (m : GraphMap h g f) (hf : Function.Injective f)
    (start dest : β) (c : AdvCfg α) :
    beamAdvanced h start dest (c.comap f) = beamAdvanced g (f start) (f dest) c := by
  unfold beamAdvanced
  dsimp only
  have hb : (f start == f dest) = (start == dest) := by
    rw [Bool.eq_iff_iff, beq_iff_eq, beq_iff_eq, hf.eq_iff]
  have hc1 : (c.comap f).historyDepth = c.historyDepth := rfl
  have hc2 : (c.comap f).beamWidth = c.beamWidth := rfl
  have hc3 : (c.comap f).maxSteps = c.maxSteps := rfl
  rw [hb, hc1, hc2, hc3, m.nGens, m.hash start, advLoop_map m hf]
  rfl

end Cv
