import CvProofs.PyLemmasG2
import CvGen.PyFamilies
import CvProofs.Families
namespace Cv.PyG2
open Cv.Py Cv.PyGen Cv.GraphDef Cv.Perm Cv.Families

theorem assert_ge (n : Nat) (c : Int) (h : c ≤ (n : Int)) : pyAssert (decide ((n : Int) ≥ c)) = some () := by
  unfold pyAssert; rw [if_pos]; simpa using h

theorem assert_lt (n c : Int) (h : n < c) : pyAssert (decide (n ≥ c)) = none := by
  unfold pyAssert; rw [if_neg]; simpa using h

/-- `create` accepts a valid family built by `mk` (explicit central state and names, no name) -/
theorem rawToPermDef_mk {ι : Type} (len : Nat) (idx : List ι) (g : ι → Nat → Nat) (nm : ι → String)
    (hv : Valid len (Families.mk len idx g nm "")) (hidx : idx ≠ []) (hlen : 0 < len) :
    rawToPermDef ⟨(idx.map fun x => oneLine len (g x)).map toI, some (toI (List.range len)),
      some (idx.map nm), none⟩ = some (Families.mk len idx g nm "") := by
  obtain ⟨h1, h2, h3⟩ := hv
  refine rawToPermDef_explicit (Families.mk len idx g nm "") rfl ⟨?_, ?_, h3, ?_, ?_⟩
  · simpa [Families.mk] using hidx
  · intro p hp; rw [h2, List.length_range]; exact h1 p hp
  · rw [h2]; intro h; have := congrArg List.length h; simp at this; omega
  · rw [h2]; intro x hx; simpa using hx

/-! ## full_reversals -/

theorem revGen_eq (n i j : Nat) (hij : i < j) (hj : j < n) :
    pyRange 0 (i : Int) 1 ++ pyRange (j : Int) ((i : Int) - 1) (-1) ++ pyRange ((j : Int) + 1) (n : Int) 1
      = toI (oneLine n (revFn i j)) := by
  rw [toI_oneLine, pyRange_up, pyRange_down, pyRange_up, List.append_assoc]
  symm
  refine map_range_split _ _ _ (n - i) _ _ (by omega) (fun k hk => ?_) ?_
  · unfold revFn; split <;> omega
  refine map_range_split _ _ _ (n - (j + 1)) _ _ (by omega) (fun k hk => ?_) ?_
  · unfold revFn; split <;> omega
  refine map_range_last _ _ _ _ (by omega) (fun k hk => ?_)
  · unfold revFn; split <;> omega

theorem full_reversals_raw (n : Nat) (hn : 2 ≤ n) :
    Fam.full_reversals (n : Int) = some ⟨((pairsLt n).map fun x => oneLine n (revFn x.1 x.2)).map toI,
      some (toI (List.range n)), some ((pairsLt n).map fun x => s!"R[{x.1}..{x.2}]"), none⟩ := by
  unfold Fam.full_reversals
  rw [assert_ge n 2 (by omega)]
  simp only [Option.bind_eq_bind, Option.bind_some, Option.pure_def, pyRange_zero]
  rw [loop_pair (List.range n) _
    (fun i => (List.range' (i+1) (n-(i+1))).map fun j => toI (oneLine n (revFn i j)))
    (fun i => (List.range' (i+1) (n-(i+1))).map fun j => s!"R[{i}..{j}]")]
  · simp only [Option.bind_some, List.nil_append, pairsLt, List.map_flatMap, List.map_map, Function.comp_def]
  · intro i hi st
    rw [pyRange_nat_succ, loop_pair_single _ _ (fun j => toI (oneLine n (revFn i j))) (fun j => s!"R[{i}..{j}]")]
    · rfl
    · intro j hj st'
      simp only [List.mem_range'_1, List.mem_range] at hi hj
      rw [revGen_eq n i j (by omega) (by omega)]
      rfl

theorem pairsLt_ne_nil (n : Nat) (hn : 2 ≤ n) : pairsLt n ≠ [] := by
  intro h
  have : (0, 1) ∈ pairsLt n := (mem_pairsLt n 0 1).2 ⟨by omega, by omega⟩
  rw [h] at this; simp at this

theorem full_reversals_gen (n : Nat) :
    (Fam.full_reversals (n : Int)).bind rawToPermDef = Families.fullReversals n := by
  by_cases hn : 2 ≤ n
  · rw [full_reversals_raw n hn, Option.bind_some]
    have hd : permFamily "full_reversals" [n] = fullReversals n := rfl
    unfold fullReversals at hd ⊢
    rw [if_pos hn] at hd ⊢
    exact rawToPermDef_mk _ _ _ _ (full_reversals_valid n _ hd) (pairsLt_ne_nil n hn) (by omega)
  · unfold fullReversals Fam.full_reversals
    rw [if_neg hn, assert_lt _ _ (by omega)]
    rfl

theorem full_reversals_gen_neg (n : Int) (h : n < 0) : Fam.full_reversals n = none := by
  unfold Fam.full_reversals
  rw [assert_lt _ _ (by omega)]
  rfl

/-! ## all_transpositions -/

theorem pySet_nat {α : Type} (x : List α) (i : Nat) (v : α) (h : i < x.length) :
    pySet x (i : Int) v = some (x.set i v) := by
  unfold pySet
  rw [if_pos (by omega), if_pos (by simpa using h)]
  simp

theorem assert_true (b : Bool) (h : b = true) : pyAssert b = some () := by
  subst h; rfl

theorem transposition_gen (n i j : Nat) (hi : i < n) (hj : j < n) (hij : i ≠ j) :
    Cv.PyGen.Perm.transposition (n : Int) (i : Int) (j : Int) = some (toI (oneLine n (swapFn i j))) := by
  unfold Cv.PyGen.Perm.transposition
  rw [assert_true _ (by simp; omega), assert_true _ (by simp; omega), assert_true _ (by simp; omega)]
  simp only [Option.bind_eq_bind, Option.bind_some, pyRange_zero]
  rw [pySet_nat _ _ _ (by simp [toI]; omega)]
  simp only [Option.bind_some]
  rw [pySet_nat _ _ _ (by simp [toI]; omega)]
  congr 1
  apply List.ext_getElem
  · simp [toI, oneLine]
  · intro k h1 h2
    simp only [toI, oneLine, List.length_map, List.length_range, List.length_set] at h1 h2
    simp only [toI, oneLine, List.getElem_set, List.getElem_map, List.getElem_range, swapFn]
    by_cases e1 : k = i
    · subst e1; simp [Ne.symm hij]
    · by_cases e2 : k = j
      · subst e2; simp [e1]
      · simp [e1, e2, Ne.symm e1, Ne.symm e2]

theorem all_transpositions_raw (n : Nat) (hn : 2 ≤ n) :
    Fam.all_transpositions (n : Int) = some ⟨((pairsLt n).map fun x => oneLine n (swapFn x.1 x.2)).map toI,
      some (toI (List.range n)), some ((pairsLt n).map fun x => s!"({x.1},{x.2})"), none⟩ := by
  unfold Fam.all_transpositions
  rw [assert_ge n 2 (by omega)]
  simp only [Option.bind_eq_bind, Option.bind_some, Option.pure_def, pyRange_zero]
  rw [loop_pair (List.range n) _
    (fun i => (List.range' (i+1) (n-(i+1))).map fun j => toI (oneLine n (swapFn i j)))
    (fun i => (List.range' (i+1) (n-(i+1))).map fun j => s!"({i},{j})")]
  · simp only [Option.bind_some, List.nil_append, pairsLt, List.map_flatMap, List.map_map, Function.comp_def]
  · intro i hi st
    rw [pyRange_nat_succ, loop_pair_single _ _ (fun j => toI (oneLine n (swapFn i j))) (fun j => s!"({i},{j})")]
    · rfl
    · intro j hj st'
      simp only [List.mem_range'_1, List.mem_range] at hi hj
      rw [transposition_gen n i j (by omega) (by omega) (by omega)]
      rfl

theorem all_transpositions_gen (n : Nat) :
    (Fam.all_transpositions (n : Int)).bind rawToPermDef = Families.allTranspositions n := by
  by_cases hn : 2 ≤ n
  · rw [all_transpositions_raw n hn, Option.bind_some]
    have hd : permFamily "all_transpositions" [n] = allTranspositions n := rfl
    unfold allTranspositions at hd ⊢
    rw [if_pos hn] at hd ⊢
    exact rawToPermDef_mk _ _ _ _ (all_transpositions_valid n _ hd) (pairsLt_ne_nil n hn) (by omega)
  · unfold allTranspositions Fam.all_transpositions
    rw [if_neg hn, assert_lt _ _ (by omega)]
    rfl

theorem all_transpositions_gen_neg (n : Int) (h : n < 0) : Fam.all_transpositions n = none := by
  unfold Fam.all_transpositions
  rw [assert_lt _ _ (by omega)]
  rfl

/-! ## signed_reversals -/

theorem signedRevGen_eq (n i j : Nat) (hij : i ≤ j) (hj : j < n) :
    [] ++ pyRange 0 (i : Int) 1 ++ pyRange ((n : Int) + j) ((n : Int) + i - 1) (-1)
      ++ pyRange ((j : Int) + 1) (n : Int) 1 ++ pyRange (n : Int) ((n : Int) + i) 1
      ++ pyRange (j : Int) ((i : Int) - 1) (-1) ++ pyRange ((n : Int) + j + 1) ((n : Int) + n) 1
      = toI (oneLine (2 * n) (signedRevFn n i j)) := by
  simp only [toI_oneLine, pyRange_up, pyRange_down, List.append_assoc, List.nil_append]
  symm
  refine map_range_split _ _ _ (2 * n - i) _ _ (by omega) (fun k hk => ?_) ?_
  · unfold signedRevFn; split <;> split <;> omega
  refine map_range_split _ _ _ (2 * n - (j + 1)) _ _ (by omega) (fun k hk => ?_) ?_
  · unfold signedRevFn; split <;> split <;> omega
  refine map_range_split _ _ _ n _ _ (by omega) (fun k hk => ?_) ?_
  · unfold signedRevFn; split <;> split <;> omega
  refine map_range_split _ _ _ (n - i) _ _ (by omega) (fun k hk => ?_) ?_
  · unfold signedRevFn; split <;> split <;> omega
  refine map_range_split _ _ _ (n - (j + 1)) _ _ (by omega) (fun k hk => ?_) ?_
  · unfold signedRevFn; split <;> split <;> omega
  refine map_range_last _ _ _ _ (by omega) (fun k hk => ?_)
  · unfold signedRevFn; split <;> split <;> omega

theorem pairsLe_ne_nil (n : Nat) (hn : 1 ≤ n) : pairsLe n ≠ [] := by
  intro h
  have : (0, 0) ∈ pairsLe n := (mem_pairsLe n 0 0).2 ⟨by omega, by omega⟩
  rw [h] at this; simp at this

theorem signed_reversals_raw (n : Nat) (hn : 1 ≤ n) :
    Fam.signed_reversals (n : Int) = some ⟨((pairsLe n).map fun x => oneLine (2 * n) (signedRevFn n x.1 x.2)).map toI,
      some (toI (List.range (2 * n))), some ((pairsLe n).map fun x => s!"R[{x.1}..{x.2}]"), none⟩ := by
  unfold Fam.signed_reversals
  rw [assert_ge n 1 (by omega)]
  have h2 : (2 : Int) * (n : Int) = ((2 * n : Nat) : Int) := by omega
  simp only [Option.bind_eq_bind, Option.bind_some, Option.pure_def, h2, pyRange_zero]
  rw [loop_pair (List.range n) _
    (fun i => (List.range' i (n - i)).map fun j => toI (oneLine (2 * n) (signedRevFn n i j)))
    (fun i => (List.range' i (n - i)).map fun j => s!"R[{i}..{j}]")]
  · simp only [Option.bind_some, List.nil_append, pairsLe, List.map_flatMap, List.map_map, Function.comp_def]
  · intro i hi st
    rw [pyRange_nat, loop_pair_single _ _ (fun j => toI (oneLine (2 * n) (signedRevFn n i j))) (fun j => s!"R[{i}..{j}]")]
    · rfl
    · intro j hj st'
      simp only [List.mem_range'_1, List.mem_range] at hi hj
      rw [signedRevGen_eq n i j (by omega) (by omega)]
      rfl

theorem signed_reversals_gen (n : Nat) :
    (Fam.signed_reversals (n : Int)).bind rawToPermDef = Families.signedReversals n := by
  by_cases hn : 1 ≤ n
  · rw [signed_reversals_raw n hn, Option.bind_some]
    have hd : permFamily "signed_reversals" [n] = signedReversals n := rfl
    unfold signedReversals at hd ⊢
    rw [if_pos hn] at hd ⊢
    exact rawToPermDef_mk _ _ _ _ (signed_reversals_valid n _ hd) (pairsLe_ne_nil n hn) (by omega)
  · unfold signedReversals Fam.signed_reversals
    rw [if_neg hn, assert_lt _ _ (by omega)]
    rfl

theorem signed_reversals_gen_neg (n : Int) (h : n < 0) : Fam.signed_reversals n = none := by
  unfold Fam.signed_reversals
  rw [assert_lt _ _ (by omega)]
  rfl

/-! ## transposons -/

theorem transposonGen_eq (n i j k : Nat) (hij : i < j) (hjk : j ≤ k) (hk : k < n) :
    pyRange 0 (i : Int) 1 ++ pyRange (j : Int) ((k : Int) + 1) 1 ++ pyRange (i : Int) (j : Int) 1
      ++ pyRange ((k : Int) + 1) (n : Int) 1
      = toI (oneLine n (transposonFn i j k)) := by
  simp only [toI_oneLine, pyRange_up, List.append_assoc]
  symm
  refine map_range_split _ _ _ (n - i) _ _ (by omega) (fun p hp => ?_) ?_
  · unfold transposonFn; split <;> omega
  refine map_range_split _ _ _ (n - i - (k + 1 - j)) _ _ (by omega) (fun p hp => ?_) ?_
  · unfold transposonFn; split <;> (try split) <;> omega
  refine map_range_split _ _ _ (n - (k + 1)) _ _ (by omega) (fun p hp => ?_) ?_
  · unfold transposonFn; split <;> (try split) <;> (try split) <;> omega
  refine map_range_last _ _ _ _ (by omega) (fun p hp => ?_)
  · unfold transposonFn; split <;> (try split) <;> (try split) <;> omega

theorem triplesT_ne_nil (n : Nat) (hn : 2 ≤ n) : triplesT n ≠ [] := by
  intro h
  have : (0, 1, 1) ∈ triplesT n := (mem_triplesT n 0 1 1).2 ⟨by omega, by omega, by omega⟩
  rw [h] at this; simp at this

theorem transposons_raw (n : Nat) (hn : 2 ≤ n) :
    Fam.transposons (n : Int) = some ⟨((triplesT n).map fun x => oneLine n (transposonFn x.1 x.2.1 x.2.2)).map toI,
      some (toI (List.range n)), some ((triplesT n).map fun x => s!"T[{x.1}..{x.2.1 - 1},{x.2.2}]"), none⟩ := by
  unfold Fam.transposons
  rw [assert_ge n 2 (by omega)]
  simp only [Option.bind_eq_bind, Option.bind_some, Option.pure_def, pyRange_zero]
  rw [loop_pair (List.range n) _
    (fun i => (List.range' (i+1) (n-(i+1))).flatMap fun j => (List.range' j (n - j)).map fun k =>
      toI (oneLine n (transposonFn i j k)))
    (fun i => (List.range' (i+1) (n-(i+1))).flatMap fun j => (List.range' j (n - j)).map fun k =>
      s!"T[{i}..{j - 1},{k}]")]
  · simp only [Option.bind_some, List.nil_append, triplesT, pairsLt, List.map_flatMap, List.flatMap_assoc,
      List.flatMap_map, List.map_map, Function.comp_def]
  · intro i hi st
    rw [pyRange_nat_succ, loop_pair _ _
      (fun j => (List.range' j (n - j)).map fun k => toI (oneLine n (transposonFn i j k)))
      (fun j => (List.range' j (n - j)).map fun k => s!"T[{i}..{j - 1},{k}]")]
    · rfl
    · intro j hj st'
      rw [pyRange_nat j n, loop_pair_single _ _ (fun k => toI (oneLine n (transposonFn i j k)))
        (fun k => s!"T[{i}..{j - 1},{k}]")]
      · rfl
      · intro k hk st''
        simp only [List.mem_range'_1, List.mem_range] at hi hj hk
        rw [transposonGen_eq n i j k (by omega) (by omega) (by omega), pyStr_pred j (by omega)]
        rfl

theorem transposons_gen (n : Nat) :
    (Fam.transposons (n : Int)).bind rawToPermDef = Families.transposons n := by
  by_cases hn : 2 ≤ n
  · rw [transposons_raw n hn, Option.bind_some]
    have hd : permFamily "transposons" [n] = transposons n := rfl
    unfold transposons at hd ⊢
    rw [if_pos hn] at hd ⊢
    exact rawToPermDef_mk _ _ _ _ (transposons_valid n _ hd) (triplesT_ne_nil n hn) (by omega)
  · unfold transposons Fam.transposons
    rw [if_neg hn, assert_lt _ _ (by omega)]
    rfl

theorem transposons_gen_neg (n : Int) (h : n < 0) : Fam.transposons n = none := by
  unfold Fam.transposons
  rw [assert_lt _ _ (by omega)]
  rfl

/-! ## block_interchange -/

theorem pyRange_succ_succ (k n : Nat) :
    pyRange ((k : Int) + 1) ((n : Int) + 1) 1 = toI (List.range' (k + 1) (n - k)) := by
  have h1 : ((k : Int) + 1) = ((k + 1 : Nat) : Int) := by omega
  have h2 : ((n : Int) + 1) = ((n + 1 : Nat) : Int) := by omega
  rw [h1, h2, pyRange_nat, Nat.add_sub_add_right]

theorem interchangeGen_eq (n i j k l : Nat) (hij : i < j) (hjk : j ≤ k) (hkl : k < l) (hl : l ≤ n) :
    pyRange 0 (i : Int) 1 ++ pyRange (k : Int) (l : Int) 1 ++ pyRange (j : Int) (k : Int) 1
      ++ pyRange (i : Int) (j : Int) 1 ++ pyRange (l : Int) (n : Int) 1
      = toI (oneLine n (interchangeFn i j k l)) := by
  simp only [toI_oneLine, pyRange_up, List.append_assoc]
  symm
  refine map_range_split _ _ _ (n - i) _ _ (by omega) (fun p hp => ?_) ?_
  · unfold interchangeFn; split <;> omega
  refine map_range_split _ _ _ (n - i - (l - k)) _ _ (by omega) (fun p hp => ?_) ?_
  · unfold interchangeFn; split <;> (try split) <;> omega
  refine map_range_split _ _ _ (n - i - (l - k) - (k - j)) _ _ (by omega) (fun p hp => ?_) ?_
  · unfold interchangeFn; split <;> (try split) <;> (try split) <;> omega
  refine map_range_split _ _ _ (n - l) _ _ (by omega) (fun p hp => ?_) ?_
  · unfold interchangeFn; split <;> (try split) <;> (try split) <;> (try split) <;> omega
  refine map_range_last _ _ _ _ (by omega) (fun p hp => ?_)
  · unfold interchangeFn; split <;> (try split) <;> (try split) <;> (try split) <;> omega

theorem quadsI_ne_nil (n : Nat) (hn : 2 ≤ n) : quadsI n ≠ [] := by
  intro h
  have : (0, 1, 1, 2) ∈ quadsI n := (mem_quadsI n 0 1 1 2).2 ⟨by omega, by omega, by omega, by omega⟩
  rw [h] at this; simp at this

theorem block_interchange_raw (n : Nat) (hn : 2 ≤ n) :
    Fam.block_interchange (n : Int) = some ⟨((quadsI n).map fun x =>
        oneLine n (interchangeFn x.1 x.2.1 x.2.2.1 x.2.2.2)).map toI,
      some (toI (List.range n)),
      some ((quadsI n).map fun x => s!"I[{x.1}..{x.2.1 - 1},{x.2.2.1}..{x.2.2.2 - 1}]"), none⟩ := by
  unfold Fam.block_interchange
  rw [assert_ge n 2 (by omega)]
  simp only [Option.bind_eq_bind, Option.bind_some, Option.pure_def, pyRange_zero]
  rw [loop_pair (List.range n) _
    (fun i => (List.range' (i+1) (n-(i+1))).flatMap fun j => (List.range' j (n - j)).flatMap fun k =>
      (List.range' (k + 1) (n - k)).map fun l => toI (oneLine n (interchangeFn i j k l)))
    (fun i => (List.range' (i+1) (n-(i+1))).flatMap fun j => (List.range' j (n - j)).flatMap fun k =>
      (List.range' (k + 1) (n - k)).map fun l => s!"I[{i}..{j - 1},{k}..{l - 1}]")]
  · simp only [Option.bind_some, List.nil_append, quadsI, triplesT, pairsLt, List.map_flatMap,
      List.flatMap_assoc, List.flatMap_map, List.map_map, Function.comp_def]
  · intro i hi st
    rw [pyRange_nat_succ, loop_pair _ _
      (fun j => (List.range' j (n - j)).flatMap fun k =>
        (List.range' (k + 1) (n - k)).map fun l => toI (oneLine n (interchangeFn i j k l)))
      (fun j => (List.range' j (n - j)).flatMap fun k =>
        (List.range' (k + 1) (n - k)).map fun l => s!"I[{i}..{j - 1},{k}..{l - 1}]")]
    · rfl
    · intro j hj st'
      rw [pyRange_nat j n, loop_pair _ _
        (fun k => (List.range' (k + 1) (n - k)).map fun l => toI (oneLine n (interchangeFn i j k l)))
        (fun k => (List.range' (k + 1) (n - k)).map fun l => s!"I[{i}..{j - 1},{k}..{l - 1}]")]
      · rfl
      · intro k hk st''
        rw [pyRange_succ_succ k n, loop_pair_single _ _ (fun l => toI (oneLine n (interchangeFn i j k l)))
          (fun l => s!"I[{i}..{j - 1},{k}..{l - 1}]")]
        · rfl
        · intro l hl st'''
          simp only [List.mem_range'_1, List.mem_range] at hi hj hk hl
          rw [interchangeGen_eq n i j k l (by omega) (by omega) (by omega) (by omega),
            pyStr_pred j (by omega), pyStr_pred l (by omega)]
          rfl

theorem block_interchange_gen (n : Nat) :
    (Fam.block_interchange (n : Int)).bind rawToPermDef = Families.blockInterchange n := by
  by_cases hn : 2 ≤ n
  · rw [block_interchange_raw n hn, Option.bind_some]
    have hd : permFamily "block_interchange" [n] = blockInterchange n := rfl
    unfold blockInterchange at hd ⊢
    rw [if_pos hn] at hd ⊢
    exact rawToPermDef_mk _ _ _ _ (block_interchange_valid n _ hd) (quadsI_ne_nil n hn) (by omega)
  · unfold blockInterchange Fam.block_interchange
    rw [if_neg hn, assert_lt _ _ (by omega)]
    rfl

theorem block_interchange_gen_neg (n : Int) (h : n < 0) : Fam.block_interchange n = none := by
  unfold Fam.block_interchange
  rw [assert_lt _ _ (by omega)]
  rfl

end Cv.PyG2
