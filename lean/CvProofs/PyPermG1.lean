/-
  G1: the definitions regenerated from `cayleypy/permutation_utils.py` (`CvGen/PyPerm.lean`) equal the
  hand-written model `CvModel/Perm.lean`.  Part 1: prelude lemmas, identity / apply / compose / is_permutation /
  transposition.  Core Lean only.
-/
import CvModel.PyPrelude
import CvModel.PyBridge
import CvModel.Perm
import CvGen.PyPerm
import CvProofs.Perm

namespace Cv.PyG1
open Cv.Py Cv.PyGen

/-! ### prelude lemmas -/

theorem pyRange_zero_one (n : Int) :
    pyRange 0 n 1 = (List.range n.toNat).map (fun k : Nat => (k : Int)) := by
  simp [pyRange]

theorem pyRange_zero_one_nat (n : Nat) : pyRange 0 (n : Int) 1 = toI (List.range n) := by
  rw [pyRange_zero_one]; simp [toI]

theorem pyRange_zero_one_nonpos (n : Int) (h : n ≤ 0) : pyRange 0 n 1 = [] := by
  rw [pyRange_zero_one]
  have : n.toNat = 0 := by omega
  simp [this]

@[simp] theorem length_toI (l : List Nat) : (toI l).length = l.length := by simp [toI]

theorem pyLen_toI (l : List Nat) : pyLen (toI l) = (l.length : Int) := by simp [pyLen]

theorem getElem?_toI (l : List Nat) (i : Nat) : (toI l)[i]? = (l[i]?).map Int.ofNat := by
  unfold toI; rw [List.getElem?_map]

theorem pyGet_nat {α : Type} (x : List α) (i : Nat) : pyGet x (i : Int) = x[i]? := by
  simp [pyGet]

theorem pyGet_toI (l : List Nat) (i : Nat) :
    pyGet (toI l) (i : Int) = (l[i]?).map Int.ofNat := by
  rw [pyGet_nat, getElem?_toI]

theorem pySet_nat {α : Type} (x : List α) (i : Nat) (v : α) :
    pySet x (i : Int) v = if i < x.length then some (x.set i v) else none := by
  simp [pySet]

theorem toI_set (l : List Nat) (i v : Nat) : (toI l).set i (v : Int) = toI (l.set i v) := by
  simp [toI, List.map_set]

theorem toI_injective {a b : List Nat} (h : toI a = toI b) : a = b := by
  unfold toI at h
  exact List.map_inj_right (fun x y e => Int.ofNat.inj e) |>.1 h

/-- `mapM` in `Option` over a mapped list -/
theorem mapM_map_option {α β γ : Type} (g : α → β) (f : β → Option γ) (l : List α) :
    (l.map g).mapM f = l.mapM (fun a => f (g a)) := by
  induction l with
  | nil => rfl
  | cons a t ih => simp [List.mapM_cons, ih]

/-- `mapM` in `Option` followed by a map -/
theorem map_mapM_option {α β γ : Type} (f : α → Option β) (g : β → γ) (l : List α) :
    (l.mapM f).map (List.map g) = l.mapM (fun a => (f a).map g) := by
  induction l with
  | nil => rfl
  | cons a t ih =>
    rw [List.mapM_cons, List.mapM_cons, ← ih]
    cases f a <;> cases List.mapM f t <;> simp

/-- index loop `[g (l[i]) for i in range(len(l))]` = `[g a for a in l]` -/
theorem mapM_range_getElem? {α β : Type} (l : List α) (g : α → Option β) :
    (List.range l.length).mapM (fun i => (l[i]?).bind g) = l.mapM g := by
  induction l with
  | nil => rfl
  | cons a t ih =>
    rw [List.length_cons, List.range_succ_eq_map, List.mapM_cons, List.mapM_cons, mapM_map_option]
    simp only [List.getElem?_cons_zero, List.getElem?_cons_succ, Option.bind_some]
    rw [ih]

/-! ### `identity_perm` -/

theorem identity_perm_gen (n : Nat) : Perm.identity_perm (n : Int) = some (toI (Cv.Perm.identity n)) := by
  simp only [Perm.identity_perm, Cv.Perm.identity]
  rw [pyRange_zero_one_nat]; rfl

theorem identity_perm_gen_neg (n : Int) (h : n ≤ 0) : Perm.identity_perm n = some [] := by
  simp only [Perm.identity_perm]
  rw [pyRange_zero_one_nonpos n h]; rfl

/-! ### `apply_permutation`, `compose_permutations` -/

theorem apply_permutation_eq_mapM (p x : List Int) :
    Perm.apply_permutation p x =
      List.mapM (fun i => (pyGet p i).bind (pyGet x)) (pyRange 0 (pyLen p) 1) := by
  unfold Perm.apply_permutation
  rfl

theorem apply_permutation_gen (p x : List Nat) :
    Perm.apply_permutation (toI p) (toI x) = (Cv.Perm.apply? p x).map toI := by
  rw [apply_permutation_eq_mapM, pyLen_toI, pyRange_zero_one_nat]
  unfold Cv.Perm.apply?
  show _ = (List.mapM (fun i => x[i]?) p).map (List.map Int.ofNat)
  rw [map_mapM_option, ← mapM_range_getElem? p]
  unfold toI
  rw [mapM_map_option]
  congr 1
  funext i
  have h1 : pyGet (List.map Int.ofNat p) (Int.ofNat i) = (p[i]?).map Int.ofNat := pyGet_toI p i
  rw [h1]
  cases hp : p[i]? with
  | none => rfl
  | some a =>
    exact pyGet_toI x a

theorem apply_permutation_gen_total (p x : List Nat) (h : ∀ i ∈ p, i < x.length) :
    Perm.apply_permutation (toI p) (toI x) = some (toI (Cv.Perm.apply p x)) := by
  rw [apply_permutation_gen, Cv.Perm.apply_eq_apply? p x h]; rfl

theorem compose_permutations_eq (p q : List Int) :
    Perm.compose_permutations p q = Perm.apply_permutation p q := by
  unfold Perm.compose_permutations
  simp

theorem compose_permutations_gen (p q : List Nat) (h : ∀ i ∈ p, i < q.length) :
    Perm.compose_permutations (toI p) (toI q) = some (toI (Cv.Perm.compose p q)) := by
  rw [compose_permutations_eq, apply_permutation_gen_total p q h]; rfl

/-! ### `is_permutation` -/

theorem le_total_int (a b : Int) : (decide (a ≤ b) || decide (b ≤ a)) = true := by
  simp; omega

theorem pySorted_toI (p : List Nat) :
    pySorted (toI p) = toI (p.mergeSort fun a b => decide (a ≤ b)) := by
  unfold pySorted toI
  rw [List.map_mergeSort]
  intro a _ b _
  simp

theorem is_permutation_gen (p : List Nat) : Perm.is_permutation (toI p) = some (Cv.Perm.isPerm p) := by
  unfold Perm.is_permutation Cv.Perm.isPerm
  rw [pyLen_toI, pyRange_zero_one_nat, pySorted_toI]
  show some _ = some _
  congr 1
  rw [Bool.eq_iff_iff]
  simp only [beq_iff_eq]
  exact ⟨toI_injective, fun h => by rw [h]⟩

theorem is_permutation_gen_neg (p : List Int) (h : ∃ i ∈ p, i < 0) : Perm.is_permutation p = some false := by
  unfold Perm.is_permutation
  show some _ = some _
  congr 1
  rw [beq_eq_false_iff_ne]
  intro e
  obtain ⟨i, hi, hneg⟩ := h
  have hm : i ∈ pySorted p := by
    unfold pySorted
    exact (List.mergeSort_perm p _).symm.subset hi
  rw [e, pyRange_zero_one] at hm
  simp at hm
  omega

end Cv.PyG1
