/-
  G5: `koltsov3` regenerated from the Python source = closed-form specification.
-/
import CvGen.PyFamilies
import CvProofs.PyLemmasG5
import CvProofs.PyFamG5Cycles
import CvProofs.FamiliesMore
namespace Cv.PyG5
open Cv.Py Cv.PyGen Cv.GraphDef Cv.Families Cv.Perm

/-- `permutation_from_cycles(n, [[k, k+d]])` is the transposition `(k, k+d)` (the identity when `d = 0`:
the degenerate cycle `[k, k]` is accepted by the source) -/
theorem pfc_koltsov1 (n k d : Nat) (h : k + d < n) :
    Cv.PyGen.Perm.permutation_from_cycles (n : Int) [[(k : Int), (k : Int) + (d : Int)]] 0 =
      some (toI (oneLine n (swapFn k (k + d)))) := by
  have e : [[(k : Int), (k : Int) + (d : Int)]] = [[k, k + d]].map toI := by
    simp [toI]
  rw [e]
  by_cases hd : d = 0
  · subst hd
    rw [pfc_eq_fromCycles]
    have : fromCycles n ([[k, k + 0]].map toI) 0 = some (List.range n) := by
      have hk : k < n := by omega
      have hs : (List.range n).set k k = List.range n := by
        apply List.ext_getElem (by simp)
        intro i h1 h2
        simp only [List.getElem_set, List.getElem_range]
        split <;> omega
      simp only [fromCycles, writeCycle, toI, List.map_cons, List.map_nil, Int.ofNat_eq_natCast,
        Nat.add_zero, Int.sub_zero, List.foldlM_cons, List.foldlM_nil, List.length_cons,
        List.length_nil, List.range_succ, List.range_zero, List.nil_append, List.cons_append,
        List.getD_cons_zero, List.getD_cons_succ, Int.toNat_natCast, Nat.zero_add, Nat.reduceAdd,
        Nat.reduceMod, Int.natCast_nonneg, true_and, Option.bind_eq_bind, Option.pure_def]
      have hg : (List.range n).getD k 0 = k := by
        simp [List.getD_eq_getElem?_getD, hk]
      have hk' : (k : Int) < (n : Int) := by omega
      simp only [hk', hg, hs, and_self, if_true, Option.bind_some]
    rw [this]
    simp only [Option.map_some, Option.some.injEq]
    congr 1
    rw [← oneLine_id]
    apply oneLine_congr
    intro p _; simp only [swapFn]; pw
  · apply pfc_eq
    · simp; omega
    · intro v hv; simp at hv; omega
    · intro c hc t ht
      simp only [List.mem_singleton] at hc; subst hc
      simp only [List.length_cons, List.length_nil] at ht ⊢
      have : t = 0 ∨ t = 1 := by omega
      rcases this with rfl | rfl
      · show swapFn k (k + d) k = k + d
        simp [swapFn]
      · show swapFn k (k + d) (k + d) = k
        simp [swapFn, hd]
    · intro p hp hnm
      simp at hnm
      simp only [swapFn]; pw

/-- `permutation_from_cycles(n, [[k, k+3], [k+1, k+2]])` is the reversal of the segment `k..k+3` -/
theorem pfc_koltsov2 (n k : Nat) (h : k + 3 < n) :
    Cv.PyGen.Perm.permutation_from_cycles (n : Int)
        [[(k : Int), (k : Int) + 3], [(k : Int) + 1, (k : Int) + 2]] 0 =
      some (toI (oneLine n (revFn k (k + 3)))) := by
  have e : [[(k : Int), (k : Int) + 3], [(k : Int) + 1, (k : Int) + 2]] =
      [[k, k + 3], [k + 1, k + 2]].map toI := by
    simp [toI]
  rw [e, pfc_eq_fromCycles]
  have := fromCycles_koltsov2 n k h
  show Option.map toI (fromCycles n [[k, k + 3].map Int.ofNat, [k + 1, k + 2].map Int.ofNat]) = _
  rw [this]; rfl

theorem koltsov3_wf (n t k d : Nat) (D : PermDef) (h : koltsov3 n t k d = some D) : WF D := by
  have hv := koltsov3_valid n t k d D h
  obtain ⟨hc, rfl⟩ := koltsov3_eq n t k d D h
  exact wf_of_valid n _ (by omega) (by simp) hv

theorem koltsov3_gen (n t k d : Nat) :
    (Fam.koltsov3 (n : Int) (t : Int) (k : Int) (d : Int)).bind rawToPermDef = Families.koltsov3 n t k d := by
  have hwf := koltsov3_wf n t k d
  unfold Fam.koltsov3
  have a0 := pfc_adjSwaps n 0
  have a1 := pfc_adjSwaps n 1
  rw [show ((0 : Nat) : Int) = 0 from rfl] at a0
  rw [show ((1 : Nat) : Int) = 1 from rfl] at a1
  by_cases hk : k < n
  · have hk' : decide ((k : Int) < (n : Int)) = true := by simp; omega
    simp only [hk', pyAssert, if_true, Option.bind_eq_bind, Option.bind_some, a0, a1, Option.pure_def]
    by_cases ht1 : t = 1
    · subst ht1
      have c1 : ([1, 2] : List Int).contains ((1 : Nat) : Int) = true := by decide
      have c2 : ((((1 : Nat) : Int)) == (1 : Int)) = true := by decide
      simp only [c1, c2, if_true, Option.bind_some]
      by_cases hd : k + d < n
      · have hd' : decide ((k : Int) + (d : Int) < (n : Int)) = true := by simp; omega
        simp only [hd', if_true, Option.bind_some, pfc_koltsov1 n k d hd, pyRange_zero_nat, pyStr_nat]
        unfold koltsov3 at hwf ⊢
        have hc : k < n ∧ (1 = 1 ∧ k + d < n ∨ 1 = 2 ∧ k + 3 < n) := ⟨hk, Or.inl ⟨rfl, hd⟩⟩
        rw [if_pos hc] at hwf ⊢
        exact rawToPermDef_of_wf _ (hwf _ rfl)
      · have hd' : decide ((k : Int) + (d : Int) < (n : Int)) = false := by simp; omega
        simp only [hd', Bool.false_eq_true, if_false, Option.bind_none]
        have hc : ¬ (k < n ∧ (1 = 1 ∧ k + d < n ∨ 1 = 2 ∧ k + 3 < n)) := by omega
        unfold koltsov3; rw [if_neg hc]
    · by_cases ht2 : t = 2
      · subst ht2
        have c1 : ([1, 2] : List Int).contains ((2 : Nat) : Int) = true := by decide
        have c2 : ((((2 : Nat) : Int)) == (1 : Int)) = false := by decide
        have c3 : ((((2 : Nat) : Int)) == (2 : Int)) = true := by decide
        simp only [c1, c2, c3, if_true, Bool.false_eq_true, if_false, Option.bind_some]
        by_cases hd : k + 3 < n
        · have hd' : decide ((k : Int) + 3 < (n : Int)) = true := by simp; omega
          simp only [hd', if_true, Option.bind_some, pfc_koltsov2 n k hd, pyRange_zero_nat, pyStr_nat]
          unfold koltsov3 at hwf ⊢
          have hc : k < n ∧ (2 = 1 ∧ k + d < n ∨ 2 = 2 ∧ k + 3 < n) := ⟨hk, Or.inr ⟨rfl, hd⟩⟩
          rw [if_pos hc] at hwf ⊢
          exact rawToPermDef_of_wf _ (hwf _ rfl)
        · have hd' : decide ((k : Int) + 3 < (n : Int)) = false := by simp; omega
          simp only [hd', Bool.false_eq_true, if_false, Option.bind_none]
          have hc : ¬ (k < n ∧ (2 = 1 ∧ k + d < n ∨ 2 = 2 ∧ k + 3 < n)) := by omega
          unfold koltsov3; rw [if_neg hc]
      · have c1 : ([1, 2] : List Int).contains (t : Int) = false := by
          simp only [List.contains_cons, List.contains_nil, Bool.or_false, Bool.or_eq_false_iff,
            beq_eq_false_iff_ne, ne_eq]
          omega
        simp only [c1, Bool.false_eq_true, if_false, Option.bind_none]
        have hc : ¬ (k < n ∧ (t = 1 ∧ k + d < n ∨ t = 2 ∧ k + 3 < n)) := by omega
        unfold koltsov3; rw [if_neg hc]
  · have hk' : decide ((k : Int) < (n : Int)) = false := by simp; omega
    simp only [hk', pyAssert, Option.bind_eq_bind]
    simp [koltsov3, hk]

end Cv.PyG5
