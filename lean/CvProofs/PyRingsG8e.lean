/-
  Worker g8, part 5: `hungarian_rings_generators` (generated) = `hungarianRings` (specification); rejections.
-/
import CvProofs.PyRingsG8d
namespace Cv.PyG8
open Cv.Py Cv.PyGen Cv.Puzzles Cv.PyG2

theorem toI_inj {a b : List Nat} (h : toI a = toI b) : a = b := by
  unfold toI at h
  exact (List.map_inj_right (fun x y e => Int.ofNat.inj e)).1 h

theorem toI_bne_true (a b : List Nat) (h : a ≠ b) : (toI a != toI b) = true := by
  rw [bne_iff_ne]; exact fun e => h (toI_inj e)

theorem toI_bne_false (a b : List Nat) (h : a = b) : (toI a != toI b) = false := by
  subst h; simp

/-- the tail of `hungarian_rings_generators` on abstract rotations -/
theorem gens_tail (L R L' R' : List Nat) :
    ((if (toI L != toI L') = true then some ([toI L, toI R] ++ [toI L'], ["L", "R"] ++ ["-L"])
      else some ([toI L, toI R], ["L", "R"])).bind fun st =>
      (if (toI R != toI R') = true then some (st.1 ++ [toI R'], st.2 ++ ["-R"]) else some (st.1, st.2)).bind
        fun st => some (st.1, st.2)) =
    some (([L, R] ++ ((if L ≠ L' then [("-L", L')] else []) ++ (if R ≠ R' then [("-R", R')] else [])).map (·.2)).map toI,
          ["L", "R"] ++ ((if L ≠ L' then [("-L", L')] else []) ++ (if R ≠ R' then [("-R", R')] else [])).map (·.1)) := by
  by_cases hL : L = L' <;> by_cases hR : R = R'
  · rw [toI_bne_false _ _ hL, toI_bne_false _ _ hR]; simp [hL, hR]
  · rw [toI_bne_false _ _ hL, toI_bne_true _ _ hR]; simp [hL, hR]
  · rw [toI_bne_true _ _ hL, toI_bne_false _ _ hR]; simp [hL, hR]
  · rw [toI_bne_true _ _ hL, toI_bne_true _ _ hR]; simp [hL, hR]

theorem generators_adm (ls li rs ri : Nat) (h : RingsAdm ls li rs ri) :
    Rings.hungarian_rings_generators ls li rs ri =
      some ((hungarianRings ls li rs ri).gens.map toI, (hungarianRings ls li rs ri).names) := by
  unfold Rings.hungarian_rings_generators
  have c : (decide ((ls : Int) ≤ 1) || decide ((rs : Int) ≤ 1)) = false := by
    rw [Bool.or_eq_false_iff]; simp only [decide_eq_false_iff_not]
    have := h.1; have := h.2.1; omega
  have e : (-(1 : Int)) = -1 := rfl
  rw [c, perms_forth_adm ls li rs ri h, e, perms_back_adm ls li rs ri h]
  simp only [Bool.false_eq_true, if_false, Option.bind_eq_bind, Option.bind_some, Option.pure_def]
  exact gens_tail _ _ _ _

theorem generators_small (ls li rs ri : Int) (h : ls ≤ 1 ∨ rs ≤ 1) :
    Rings.hungarian_rings_generators ls li rs ri = none := by
  unfold Rings.hungarian_rings_generators
  have c : (decide (ls ≤ 1) || decide (rs ≤ 1)) = true := by
    rw [Bool.or_eq_true]; simpa using h
  rw [c]
  rfl

theorem perms_index_large (ls li rs ri step : Int) (h : ls ≤ li ∨ rs ≤ ri) :
    Rings.hungarian_rings_permutations ls li rs ri step = none := by
  unfold Rings.hungarian_rings_permutations
  have c : (decide (ls ≤ li) || decide (rs ≤ ri)) = true := by
    rw [Bool.or_eq_true]; simpa using h
  rw [c]
  by_cases c1 : (decide (li < 0) || decide (ri < 0)) = true
  · rw [c1]; rfl
  · rw [Bool.not_eq_true] at c1
    rw [c1]; rfl

theorem perms_index_neg (ls li rs ri step : Int) (h : li < 0 ∨ ri < 0) :
    Rings.hungarian_rings_permutations ls li rs ri step = none := by
  unfold Rings.hungarian_rings_permutations
  have c : (decide (li < 0) || decide (ri < 0)) = true := by
    rw [Bool.or_eq_true]; simpa using h
  rw [c]
  rfl

theorem perms_index_mixed (ls li rs ri step : Int) (h : ¬ (li = 0 ∧ ri = 0)) (h2 : ¬ (0 < li ∧ 0 < ri)) :
    Rings.hungarian_rings_permutations ls li rs ri step = none := by
  unfold Rings.hungarian_rings_permutations
  rw [get_intersections_none li ri h h2]
  by_cases c1 : (decide (li < 0) || decide (ri < 0)) = true
  · rw [c1]; rfl
  · rw [Bool.not_eq_true] at c1
    rw [c1]
    by_cases c2 : (decide (ls ≤ li) || decide (rs ≤ ri)) = true
    · rw [c2]; rfl
    · rw [Bool.not_eq_true] at c2
      rw [c2]; rfl

theorem generators_of_perms_none (ls li rs ri : Int)
    (h : Rings.hungarian_rings_permutations ls li rs ri 1 = none) :
    Rings.hungarian_rings_generators ls li rs ri = none := by
  unfold Rings.hungarian_rings_generators
  rw [h]
  by_cases c : (decide (ls ≤ 1) || decide (rs ≤ 1)) = true
  · rw [c]; rfl
  · rw [Bool.not_eq_true] at c
    rw [c]; rfl

end Cv.PyG8
