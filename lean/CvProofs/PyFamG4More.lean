/-
  G4 — three_cycles_01i, wrapped_k_cycles, lsl_cycles: generated = specification.  Core Lean only.
-/
import CvProofs.PyFamG4Range
namespace Cv.PyG4
open Cv.Py Cv.PyGen Cv.Families
open Cv.GraphDef (PermDef)

/-! ### three_cycles_01i -/

theorem pfc_cyc3 (n a b c : Nat) (ha : a < n) (hb : b < n) (hc : c < n)
    (hab : a ≠ b) (hac : a ≠ c) (hbc : b ≠ c) :
    Perm.permutation_from_cycles (n : Int) [toI [a, b, c]] 0 = some (toI (oneLine n (cyc3Fn a b c))) := by
  have := pfc_gen n [[a, b, c]]
  simp only [List.map_cons, List.map_nil] at this
  have h2 := fromCycles_cyc3 n a b c ha hb hc hab hac hbc
  simp only [List.map_cons, List.map_nil] at h2
  rw [this, h2]; rfl

theorem cyc3_01i_invPair (n i : Nat) (hi : 2 ≤ i) (hin : i < n) :
    InvPair n (cyc3Fn 0 1 i) (cyc3Fn 1 0 i) :=
  (cyc3Fn_invPair (n := n) (a := 0) (b := 1) (c := i) (by omega) (by omega) hin (by omega) (by omega) (by omega)).congr
    (fun _ _ => rfl) (fun p _ => by unfold cyc3Fn; pw)

theorem three_cycles_01i_raw_false (n : Nat) (hn : 3 ≤ n) :
    Fam.three_cycles_01i (n : Int) false =
      some (rawOf (mk n (List.range' 2 (n - 2)) (fun i => cyc3Fn 0 1 i) (fun i => s!"(0 1 {i})")
        ("three_cycles_01i-" ++ showNat n))) := by
  unfold Fam.three_cycles_01i
  have ha : pyAssert (decide ((n : Int) ≥ 3)) = some () := by
    apply pyAssert_true; simp only [decide_eq_true_eq]; omega
  simp only [ha, Option.bind_eq_bind, Option.bind_some, Option.pure_def, Bool.false_eq_true, if_false]
  have hr : pyRange 2 (n : Int) 1 = toI (List.range' 2 (n - 2)) := by
    rw [← pyRange_nat]; rfl
  rw [hr, pyRange_zero_nat, pyStr_nat]
  unfold toI
  rw [List.foldlM_map]
  rw [foldlM_append_pair
    (fun (i : Nat) => Perm.permutation_from_cycles (n : Int) [[0, 1, Int.ofNat i]] 0)
    (fun i => toI (oneLine n (cyc3Fn 0 1 i)))
    (fun (i : Nat) => "(0 1 " ++ pyStr (Int.ofNat i) ++ ")")
    (fun (i : Nat) => s!"(0 1 {i})")]
  · simp [rawOf, mk, toI]
  · intro i hi
    have := List.mem_range'_1.1 hi
    exact pfc_cyc3 n 0 1 i (by omega) (by omega) (by omega) (by omega) (by omega) (by omega)
  · intro i _
    rfl

theorem three_cycles_01i_raw_true (n : Nat) (hn : 3 ≤ n) :
    Fam.three_cycles_01i (n : Int) true =
      some (rawOf (mk n ((List.range' 2 (n - 2)).flatMap fun i => [(i, false), (i, true)])
        (fun x => if x.2 then cyc3Fn 1 0 x.1 else cyc3Fn 0 1 x.1)
        (fun x => if x.2 then s!"(1 0 {x.1})" else s!"(0 1 {x.1})")
        ("three_cycles_01i-" ++ showNat n ++ "-ic"))) := by
  unfold Fam.three_cycles_01i
  have ha : pyAssert (decide ((n : Int) ≥ 3)) = some () := by
    apply pyAssert_true; simp only [decide_eq_true_eq]; omega
  simp only [ha, Option.bind_eq_bind, Option.bind_some, Option.pure_def, if_true]
  have hr : pyRange 2 (n : Int) 1 = toI (List.range' 2 (n - 2)) := by
    rw [← pyRange_nat]; rfl
  rw [hr, pyRange_zero_nat, pyStr_nat]
  unfold toI
  rw [List.foldlM_map]
  rw [foldlM_outer
    (A := fun (i : Nat) => [toI (oneLine n (cyc3Fn 0 1 i)), toI (oneLine n (cyc3Fn 1 0 i))])
    (B := fun (i : Nat) => [s!"(0 1 {i})", s!"(1 0 {i})"])]
  · simp [rawOf, mk, toI, List.map_flatMap]
  · intro i hi st
    have := List.mem_range'_1.1 hi
    have h1 := pfc_cyc3 n 0 1 i (by omega) (by omega) (by omega) (by omega) (by omega) (by omega)
    have h2 := inverse_gen_oneLine (cyc3_01i_invPair n i (by omega) (by omega))
    show (Perm.permutation_from_cycles (n : Int) [toI [0, 1, i]] 0).bind _ = _
    rw [h1]
    simp only [Option.bind_some, h2, List.append_assoc, List.cons_append, List.nil_append]
    rfl

theorem three_cycles_01i_gen (n : Nat) (b : Bool) :
    (Fam.three_cycles_01i (n : Int) b).bind rawToPermDef = Families.threeCycles01i n b := by
  by_cases hn : 3 ≤ n
  · have hne : List.range' 2 (n - 2) = 2 :: List.range' 3 (n - 3) := by
      rw [show n - 2 = (n - 3) + 1 by omega]; rfl
    cases b
    · have hs : threeCycles01i n false = some (mk n (List.range' 2 (n - 2)) (fun i => cyc3Fn 0 1 i)
          (fun i => s!"(0 1 {i})") ("three_cycles_01i-" ++ showNat n)) := by
        unfold threeCycles01i; rw [if_pos hn]; rfl
      rw [hs]
      refine bind_rawOf n _ _ (three_cycles_01i_raw_false n hn)
        (three_cycles_01i_valid n false _ ((permFamily_threeCycles01i n false).trans hs)) ?_ (by omega)
      rw [mk_gens, hne]; simp
    · have hs : threeCycles01i n true = some (mk n ((List.range' 2 (n - 2)).flatMap fun i => [(i, false), (i, true)])
          (fun x => if x.2 then cyc3Fn 1 0 x.1 else cyc3Fn 0 1 x.1)
          (fun x => if x.2 then s!"(1 0 {x.1})" else s!"(0 1 {x.1})")
          ("three_cycles_01i-" ++ showNat n ++ "-ic")) := by
        unfold threeCycles01i; rw [if_pos hn]; rfl
      rw [hs]
      refine bind_rawOf n _ _ (three_cycles_01i_raw_true n hn)
        (three_cycles_01i_valid n true _ ((permFamily_threeCycles01i n true).trans hs)) ?_ (by omega)
      rw [mk_gens, hne]; simp
  · have : threeCycles01i n b = none := by unfold threeCycles01i; rw [if_neg hn]
    rw [this]
    unfold Fam.three_cycles_01i
    rw [assert_fail_int _ _ (by omega)]; rfl

theorem three_cycles_01i_gen_neg (n : Int) (b : Bool) (h : n < 0) : Fam.three_cycles_01i n b = none := by
  unfold Fam.three_cycles_01i
  rw [assert_fail_int _ _ (by omega)]; rfl

/-! ### wrapped_k_cycles -/

theorem mapM_some_map {α β : Type} (f : α → Option β) (g : α → β) (l : List α)
    (h : ∀ x ∈ l, f x = some (g x)) : l.mapM f = some (l.map g) := by
  induction l with
  | nil => rfl
  | cons x t ih =>
    rw [List.mapM_cons, h x List.mem_cons_self, ih (fun y hy => h y (List.mem_cons_of_mem _ hy))]
    rfl

theorem wrapped_cycle_gen (n s k : Nat) (hn : 0 < n) :
    List.mapM (fun j => pyMod ((s : Int) + j) (n : Int)) (toI (List.range k)) = some (toI (wrappedCycle n s k)) := by
  unfold toI wrappedCycle
  rw [List.mapM_map, mapM_some_map _ (fun j => Int.ofNat ((s + j) % n))]
  · simp
  · intro j _
    have := pyMod_nat (s + j) n hn
    have e : (s : Int) + (j : Int) = ((s + j : Nat) : Int) := by omega
    show pyMod ((s : Int) + (j : Int)) (n : Int) = _
    rw [e]; exact this

theorem pfc_wrapped (n s k : Nat) (hs : s < n) (hk1 : 1 ≤ k) (hk : k ≤ n) :
    Perm.permutation_from_cycles (n : Int) [toI (wrappedCycle n s k)] 0 =
      some (toI (oneLine n (wrappedCycleFn n s k))) := by
  have := pfc_gen n [wrappedCycle n s k]
  simp only [List.map_cons, List.map_nil] at this
  rw [this, fromCycles_wrapped n s k hs hk1 hk]; rfl

theorem wrapped_k_cycles_raw (n k : Nat) (h : 2 ≤ n ∧ 2 ≤ k ∧ k ≤ n) :
    Fam.wrapped_k_cycles (n : Int) (k : Int) =
      some (rawOf (mk n (List.range n) (fun s => wrappedCycleFn n s k)
      (fun s => tupleName " " ((List.range k).map fun j => (s + j) % n))
      ("wrapped_k_cycles-" ++ showNat n ++ "-" ++ showNat k))) := by
  unfold Fam.wrapped_k_cycles
  have ha : pyAssert ((decide ((n : Int) ≥ 2)) && (decide ((2 : Int) ≤ (k : Int)) && decide ((k : Int) ≤ (n : Int)))) = some () := by
    apply pyAssert_true
    simp only [Bool.and_eq_true, decide_eq_true_eq]; omega
  simp only [ha, Option.bind_eq_bind, Option.bind_some, Option.pure_def]
  rw [pyRange_zero_nat, pyRange_zero_nat, pyStr_nat, pyStr_nat]
  unfold toI
  rw [List.foldlM_map]
  rw [foldlM_outer
    (A := fun (s : Nat) => [toI (oneLine n (wrappedCycleFn n s k))])
    (B := fun (s : Nat) => [tupleName " " ((List.range k).map fun j => (s + j) % n)])]
  · simp only [Option.bind_some, List.nil_append, ← List.map_eq_flatMap]
    simp [rawOf, mk, toI]
  · intro s hs st
    have hs' := List.mem_range.1 hs
    have h1 := wrapped_cycle_gen n s k (by omega)
    unfold toI at h1
    simp only [Int.ofNat_eq_natCast]
    rw [h1]
    simp only [Option.bind_some]
    have h2 := pfc_wrapped n s k hs' (by omega) (by omega)
    unfold toI at h2
    rw [h2]
    simp only [Option.bind_some]
    have h3 := tupleName_gen " " (wrappedCycle n s k)
    unfold toI at h3
    rw [h3]
    rfl
theorem wrapped_k_cycles_gen (n k : Nat) :
    (Fam.wrapped_k_cycles (n : Int) (k : Int)).bind rawToPermDef = Families.wrappedKCycles n k := by
  by_cases h : 2 ≤ n ∧ 2 ≤ k ∧ k ≤ n
  · have hs : wrappedKCycles n k = some (mk n (List.range n) (fun s => wrappedCycleFn n s k)
        (fun s => tupleName " " ((List.range k).map fun j => (s + j) % n))
        ("wrapped_k_cycles-" ++ showNat n ++ "-" ++ showNat k)) := by
      unfold wrappedKCycles; rw [if_pos h]
    rw [hs]
    refine bind_rawOf n _ _ (wrapped_k_cycles_raw n k h) (wrapped_k_cycles_valid n k _ hs) ?_ (by omega)
    rw [mk_gens, show n = (n - 1) + 1 by omega, List.range_succ]; simp
  · have : wrappedKCycles n k = none := by unfold wrappedKCycles; rw [if_neg h]
    rw [this]
    unfold Fam.wrapped_k_cycles
    rw [pyAssert_false]; rfl
    rw [Bool.eq_false_iff]
    intro hb
    simp only [Bool.and_eq_true, decide_eq_true_eq] at hb
    omega

theorem wrapped_k_cycles_gen_neg (n k : Int) (h : n < 0 ∨ k < 0) :
    Fam.wrapped_k_cycles n k = none := by
  unfold Fam.wrapped_k_cycles
  rw [pyAssert_false]; rfl
  rw [Bool.eq_false_iff]
  intro hb
  simp only [Bool.and_eq_true, decide_eq_true_eq] at hb
  omega

/-! ### lsl_cycles -/

theorem pfc_long (n : Nat) (hn : 1 ≤ n) :
    Perm.permutation_from_cycles (n : Int) [toI (List.range n)] 0 = some (toI (oneLine n (shiftLFn n))) := by
  have := pfc_gen n [List.range n]
  simp only [List.map_cons, List.map_nil] at this
  rw [this, fromCycles_long n hn]; rfl

theorem pfc_subLong (n : Nat) (hn : 2 ≤ n) :
    Perm.permutation_from_cycles (n : Int) [toI (List.range' 1 (n - 1)), [0]] 0 =
      some (toI (oneLine n (subLongFn n))) := by
  have := pfc_gen n [List.range' 1 (n - 1), [0]]
  have h2 : Cv.Perm.fromCycles n ([List.range' 1 (n - 1), [0]].map (·.map Int.ofNat)) =
      some (oneLine n (subLongFn n)) := fromCycles_subLong n hn
  rw [h2] at this
  exact this

theorem lsl_cycles_raw (n : Nat) (b : Bool) (hn : 3 ≤ n) :
    Fam.lsl_cycles (n : Int) b = some (rawOf
      { gens := [oneLine n (shiftLFn n), oneLine n (subLongFn n)] ++
                   (if b then [oneLine n (shiftRFn n), oneLine n (subLongInvFn n)] else [])
        names := ["L", "S"] ++ (if b then ["L_inv", "S_inv"] else [])
        central := List.range n
        name := "lsl_cycles-" ++ showNat n }) := by
  unfold Fam.lsl_cycles
  have ha : pyAssert (decide ((n : Int) ≥ 3)) = some () := by
    apply pyAssert_true; simp only [decide_eq_true_eq]; omega
  have hr : pyRange 1 (n : Int) 1 = toI (List.range' 1 (n - 1)) := by
    rw [← pyRange_nat]; rfl
  simp only [ha, Option.bind_eq_bind, Option.bind_some, Option.pure_def, hr, pyRange_zero_nat,
    pfc_long n (by omega), pfc_subLong n (by omega), pyStr_nat]
  cases b
  · simp [rawOf]
  · simp only [if_true, inverse_gen_oneLine (shiftL_invPair n), inverse_gen_oneLine (subLong_invPair n (by omega)),
      Option.bind_some]
    simp [rawOf]

theorem lsl_cycles_gen (n : Nat) (b : Bool) :
    (Fam.lsl_cycles (n : Int) b).bind rawToPermDef = Families.lslCycles n b := by
  by_cases hn : 3 ≤ n
  · have hs : lslCycles n b = some
        { gens := [oneLine n (shiftLFn n), oneLine n (subLongFn n)] ++
                   (if b then [oneLine n (shiftRFn n), oneLine n (subLongInvFn n)] else [])
          names := ["L", "S"] ++ (if b then ["L_inv", "S_inv"] else [])
          central := List.range n
          name := "lsl_cycles-" ++ showNat n } := by
      unfold lslCycles; rw [if_pos hn]
    rw [hs]
    refine bind_rawOf n _ _ (lsl_cycles_raw n b hn)
      (lsl_cycles_valid n b _ ((permFamily_lslCycles n b).trans hs)) ?_ (by omega)
    simp
  · have : lslCycles n b = none := by unfold lslCycles; rw [if_neg hn]
    rw [this]
    unfold Fam.lsl_cycles
    rw [assert_fail_int _ _ (by omega)]; rfl

theorem lsl_cycles_gen_neg (n : Int) (b : Bool) (h : n < 0) : Fam.lsl_cycles n b = none := by
  unfold Fam.lsl_cycles
  rw [assert_fail_int _ _ (by omega)]; rfl

end Cv.PyG4
