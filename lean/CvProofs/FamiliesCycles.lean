/-
  Cycle-based graph families of `CvModel/Families.lean`: connection with the (frozen) model of
  `permutation_from_cycles`, and the family theorems.  Core Lean only.
-/
import CvProofs.FamiliesBase
namespace Cv.Families
open Cv.Perm Cv.GraphDef

/-! ### `fromCycles` of disjoint cycles is the one-line list of the cycle point function -/

theorem getD_map_ofNat (c : List Nat) (t : Nat) (ht : t < c.length) :
    (c.map Int.ofNat).getD t 0 = ((c.getD t 0 : Nat) : Int) := by
  rw [getD_map_lt Int.ofNat c t ht 0 0]; rfl

theorem flatten_map_map_ofNat (cs : List (List Nat)) :
    (cs.map (·.map Int.ofNat)).flatten = cs.flatten.map Int.ofNat := by
  induction cs with
  | nil => rfl
  | cons c t ih => simp only [List.map_cons, List.flatten_cons, List.map_append, ih]

/-- `permutation_from_cycles(n, cs)` for disjoint in-range cycles `cs`, described by a point function
`f` that maps every cycle entry to the next one and fixes all other points -/
theorem fromCycles_eq (n : Nat) (cs : List (List Nat)) (f : Nat → Nat) (hnd : cs.flatten.Nodup)
    (hlt : ∀ v ∈ cs.flatten, v < n)
    (hf : ∀ c ∈ cs, ∀ t, t < c.length → f (c.getD t 0) = c.getD ((t + 1) % c.length) 0)
    (hfix : ∀ p, p < n → p ∉ cs.flatten → f p = p) :
    fromCycles n (cs.map (·.map Int.ofNat)) = some (oneLine n f) := by
  have hnd' : (((cs.map (·.map Int.ofNat)).flatten).map (· - (0 : Int))).Nodup := by
    rw [flatten_map_map_ofNat, List.map_map]
    rw [List.nodup_iff_pairwise_ne] at hnd ⊢
    rw [List.pairwise_map]
    exact hnd.imp (fun h e => h (by simp only [Function.comp_apply, Int.ofNat_eq_natCast, Int.sub_zero] at e; omega))
  have hr : ∀ v ∈ (cs.map (·.map Int.ofNat)).flatten, 0 ≤ v - 0 ∧ v - 0 < (n : Int) := by
    intro v hv
    rw [flatten_map_map_ofNat] at hv
    obtain ⟨w, hw, rfl⟩ := List.mem_map.1 hv
    have := hlt w hw
    simp only [Int.ofNat_eq_natCast, Int.sub_zero]
    omega
  have hs := fromCycles_isSome_of_nodup n _ 0 hnd' hr
  obtain ⟨p, hp⟩ := Option.isSome_iff_exists.1 hs
  rw [hp]
  congr 1
  obtain ⟨g1, g2, g3⟩ := fromCycles_spec n _ 0 p hp hnd'
  apply List.ext_getElem (by simp [g1.length_eq])
  intro k h1 h2
  have hk : k < n := by simpa using h2
  rw [getElem_oneLine, ← getD_eq_getElem h1]
  by_cases hmem : k ∈ cs.flatten
  · obtain ⟨c, hc, hkc⟩ := List.mem_flatten.1 hmem
    obtain ⟨t, ht, rfl⟩ := List.getElem_of_mem hkc
    have := g2 (c.map Int.ofNat) (List.mem_map.2 ⟨c, hc, rfl⟩) t (by simpa using ht)
    simp only [List.length_map, Int.sub_zero] at this
    rw [getD_map_ofNat c t ht, getD_map_ofNat c _ (Nat.mod_lt _ (by omega))] at this
    simp only [Int.toNat_natCast] at this
    rw [← getD_eq_getElem ht, this, hf c hc t ht]
  · rw [hfix k hk hmem]
    apply g3 k hk
    intro c' hc' hin
    obtain ⟨c, hc, rfl⟩ := List.mem_map.1 hc'
    obtain ⟨w, hw, e⟩ := List.mem_map.1 hin
    have : w = k := by simp only [Int.ofNat_eq_natCast] at e; omega
    subst this
    exact hmem (List.mem_flatten.2 ⟨c, hc, hw⟩)

/-- single cycle -/
theorem fromCycles_single_eq (n : Nat) (c : List Nat) (f : Nat → Nat) (hnd : c.Nodup)
    (hlt : ∀ v ∈ c, v < n)
    (hf : ∀ t, t < c.length → f (c.getD t 0) = c.getD ((t + 1) % c.length) 0)
    (hfix : ∀ p, p < n → p ∉ c → f p = p) :
    fromCycles n [c.map Int.ofNat] = some (oneLine n f) := by
  have := fromCycles_eq n [c] f (by simpa using hnd) (by simpa using hlt)
    (by intro c' hc'; simp only [List.mem_singleton] at hc'; subst hc'; exact hf)
    (by intro p hp hn; exact hfix p hp (by simpa using hn))
  simpa using this

/-! ### range cycles `(i, i+1, …, i+k-1)` -/

theorem getD_range' (s len t : Nat) (ht : t < len) : (List.range' s len).getD t 0 = s + t := by
  rw [getD_eq_getElem (by simpa using ht)]; simp

/-- `permutation_from_cycles(n, [[i, i+1, …, i+k-1]])` -/
theorem fromCycles_rangeCycle (n i k : Nat) (hk : 1 ≤ k) (hik : i + k ≤ n) :
    fromCycles n [(List.range' i k).map Int.ofNat] = some (oneLine n (rangeCycleFn i k)) := by
  apply fromCycles_single_eq n _ _ List.nodup_range'
  · intro v hv; have := List.mem_range'_1.1 hv; omega
  · intro t ht
    simp only [List.length_range'] at ht ⊢
    rw [getD_range' i k t ht, getD_range' i k _ (Nat.mod_lt _ (by omega))]
    unfold rangeCycleFn
    by_cases h : t + 1 < k
    · rw [Nat.mod_eq_of_lt h]; pw
    · have : t + 1 = k := by omega
      rw [this, Nat.mod_self]; pw
  · intro p _ hp
    have : ¬ (i ≤ p ∧ p < i + k) := fun h => hp (List.mem_range'_1.2 h)
    unfold rangeCycleFn; pw

/-- the cycle `(i, …, i+k-1)` as a list: `0..i-1, i+1, …, i+k-1, i, i+k, …, n-1` -/
theorem oneLine_rangeCycle (n i k : Nat) (hk : 1 ≤ k) (hik : i + k ≤ n) :
    oneLine n (rangeCycleFn i k) =
      List.range i ++ List.range' (i + 1) (k - 1) ++ [i] ++ List.range' (i + k) (n - (i + k)) := by
  rw [oneLine_eq_ico, ico_cut 0 n i (by omega) (by omega),
    ico_cut i n (i + k - 1) (by omega) (by omega), ico_cut (i + k - 1) n (i + k) (by omega) (by omega)]
  simp only [List.map_append, List.range_eq_range', ← List.append_assoc]
  congr 1
  · congr 1
    · congr 1
      · apply map_ico_asc' _ _ _ _ (by omega); intro p _ hp; unfold rangeCycleFn; pw
      · apply map_ico_asc' _ _ _ _ (by omega); intro p _ hp; unfold rangeCycleFn; pw
    · have : ico (i + k - 1) (i + k) = [i + k - 1] := by
        unfold ico; rw [show i + k - (i + k - 1) = 1 by omega]; rfl
      rw [this]
      simp only [List.map_cons, List.map_nil, List.cons.injEq, and_true]
      unfold rangeCycleFn; pw
  · apply map_ico_asc' _ _ _ _ (by omega); intro p _ hp; unfold rangeCycleFn; pw

/-- the cycle rotates the entries `i..i+k-1` of a sequence one step to the left -/
theorem apply_rangeCycle (n i k : Nat) (hk : 1 ≤ k) (hik : i + k ≤ n) (x : List Nat)
    (hx : x.length = n) :
    apply (oneLine n (rangeCycleFn i k)) x =
      x.take i ++ (x.drop (i + 1)).take (k - 1) ++ [x.getD i 0] ++ x.drop (i + k) := by
  rw [oneLine_rangeCycle n i k hk hik]
  simp only [apply_append]
  rw [apply_range i x (by omega), apply_range' (i + 1) (k - 1) x (by omega), ← hx,
    apply_range'_to_end (i + k) x (by omega), apply_singleton]

/-- a range cycle of length `≥ 3` is not inverted by any range cycle of length `≥ 2`, nor by itself:
its inverse sends the first entry `i` to `i+k-1`, every range cycle sends `i` to `i`, `i+1` or to its
own first entry `≤ i` -/
theorem rangeCycleInv_ne (n i k i' k' : Nat) (hk : 3 ≤ k) (hik : i + k ≤ n) :
    oneLine n (rangeCycleInvFn i k) ≠ oneLine n (rangeCycleFn i' k') := by
  apply oneLine_ne_of i (by omega)
  unfold rangeCycleInvFn rangeCycleFn; pw

/-! ## consecutive_k_cycles -/

theorem permFamily_consecutiveKCycles (n k : Nat) :
    permFamily "consecutive_k_cycles" [n, k] = consecutiveKCycles n k := rfl

theorem consecutiveKCycles_eq (n k : Nat) (d : PermDef)
    (h : permFamily "consecutive_k_cycles" [n, k] = some d) :
    (1 ≤ n ∧ 1 ≤ k ∧ k ≤ n) ∧
    d = mk n (List.range (n - k + 1)) (fun i => rangeCycleFn i k)
      (fun i => tupleName "," (List.range' i k))
      ("consecutive_k_cycles-" ++ showNat n ++ "-" ++ showNat k) := by
  rw [permFamily_consecutiveKCycles] at h
  unfold consecutiveKCycles at h
  split at h
  · rename_i hn; simp only [Option.some.injEq] at h; exact ⟨hn, h.symm⟩
  · simp at h

theorem consecutive_k_cycles_valid (n k : Nat) (d : PermDef)
    (h : permFamily "consecutive_k_cycles" [n, k] = some d) :
    (∀ p ∈ d.gens, IsPermOf n p) ∧ d.central = List.range n ∧ d.names.length = d.gens.length := by
  obtain ⟨⟨hn, hk1, hk⟩, rfl⟩ := consecutiveKCycles_eq n k d h
  apply mk_valid_of_invPair _ _ _ (fun i => rangeCycleInvFn i k)
  intro i hi
  have := List.mem_range.1 hi
  exact rangeCycleFn_invPair hk1 (by omega)

theorem consecutive_k_cycles_count (n k : Nat) (d : PermDef)
    (h : permFamily "consecutive_k_cycles" [n, k] = some d) : d.gens.length = n - k + 1 := by
  obtain ⟨_, rfl⟩ := consecutiveKCycles_eq n k d h
  simp [mk_count]

/-- generator `i` is the cycle `(i, i+1, …, i+k-1)` (as built by `permutation_from_cycles`), named
`"(i,i+1,…,i+k-1)"`; it rotates the entries `i..i+k-1` of a sequence one step to the left -/
theorem consecutive_k_cycles_structure (n k : Nat) (d : PermDef)
    (h : permFamily "consecutive_k_cycles" [n, k] = some d) :
    ∀ i, i + k ≤ n →
      d.gens[i]? = fromCycles n [(List.range' i k).map Int.ofNat] ∧
      d.names[i]? = some ("(" ++ ",".intercalate ((List.range' i k).map toString) ++ ")") ∧
      ∀ x : List Nat, x.length = n →
        (d.gens[i]?.map fun g => apply g x) =
          some (x.take i ++ (x.drop (i + 1)).take (k - 1) ++ [x.getD i 0] ++ x.drop (i + k)) := by
  obtain ⟨⟨hn, hk1, hk⟩, rfl⟩ := consecutiveKCycles_eq n k d h
  intro i hi
  have hg : (mk n (List.range (n - k + 1)) (fun i => rangeCycleFn i k)
      (fun i => tupleName "," (List.range' i k))
      ("consecutive_k_cycles-" ++ showNat n ++ "-" ++ showNat k)).gens[i]? =
      some (oneLine n (rangeCycleFn i k)) := by
    rw [mk_gens, List.getElem?_map, List.getElem?_range (by omega)]; rfl
  refine ⟨?_, ?_, ?_⟩
  · rw [hg, fromCycles_rangeCycle n i k hk1 hi]
  · rw [mk_names, List.getElem?_map, List.getElem?_range (by omega)]; rfl
  · intro x hx
    rw [hg, Option.map_some, apply_rangeCycle n i k hk1 hi x hx]

/-- inverse-closed exactly for `k ≤ 2` (identity / adjacent transpositions) -/
theorem consecutive_k_cycles_inverse_closed (n k : Nat) (d : PermDef)
    (h : permFamily "consecutive_k_cycles" [n, k] = some d) : d.inverseClosed = decide (k ≤ 2) := by
  obtain ⟨⟨hn, hk1, hk⟩, rfl⟩ := consecutiveKCycles_eq n k d h
  by_cases hk2 : k ≤ 2
  · rw [decide_eq_true hk2]
    apply mk_inverseClosed
    intro i hi
    have := List.mem_range.1 hi
    refine ⟨i, hi, ?_⟩
    rw [(rangeCycleFn_invPair hk1 (by omega)).inverse_eq]
    apply oneLine_congr
    intro p _
    unfold rangeCycleFn rangeCycleInvFn; pw
  · rw [decide_eq_false hk2]
    apply inverseClosed_false_of _ (oneLine n (rangeCycleFn 0 k))
    · rw [mk_gens]; exact List.mem_map.2 ⟨0, List.mem_range.2 (by omega), rfl⟩
    · rw [(rangeCycleFn_invPair hk1 (by omega)).inverse_eq, mk_gens]
      intro hmem
      obtain ⟨i', _, e⟩ := List.mem_map.1 hmem
      exact rangeCycleInv_ne n 0 k i' k (by omega) (by omega) e.symm

theorem consecutive_k_cycles_defined_iff (n k : Nat) :
    (permFamily "consecutive_k_cycles" [n, k]).isSome ↔ 1 ≤ n ∧ 1 ≤ k ∧ k ≤ n := by
  rw [permFamily_consecutiveKCycles]; unfold consecutiveKCycles; split <;> simp_all

/-! ## down_cycles -/

theorem permFamily_downCycles (n : Nat) : permFamily "down_cycles" [n] = downCycles n := rfl

theorem downCycles_eq (n : Nat) (d : PermDef) (h : permFamily "down_cycles" [n] = some d) :
    2 ≤ n ∧
    d = mk n (pairsLt n) (fun x => rangeCycleFn x.1 (x.2 + 1 - x.1))
      (fun x => tupleName "," (List.range' x.1 (x.2 + 1 - x.1))) ("down_cycles-" ++ showNat n) := by
  rw [permFamily_downCycles] at h
  unfold downCycles at h
  split at h
  · rename_i hn; simp only [Option.some.injEq] at h; exact ⟨hn, h.symm⟩
  · simp at h

theorem down_cycles_valid (n : Nat) (d : PermDef) (h : permFamily "down_cycles" [n] = some d) :
    (∀ p ∈ d.gens, IsPermOf n p) ∧ d.central = List.range n ∧ d.names.length = d.gens.length := by
  obtain ⟨hn, rfl⟩ := downCycles_eq n d h
  apply mk_valid_of_invPair _ _ _ (fun x => rangeCycleInvFn x.1 (x.2 + 1 - x.1))
  rintro ⟨i, j⟩ hx
  have := (mem_pairsLt n i j).1 hx
  exact rangeCycleFn_invPair (by omega) (by omega)

theorem down_cycles_count (n : Nat) (d : PermDef) (h : permFamily "down_cycles" [n] = some d) :
    2 * d.gens.length = n * (n - 1) := by
  obtain ⟨hn, rfl⟩ := downCycles_eq n d h
  rw [mk_count, length_pairsLt]

/-- the generators are the cycles `(i, i+1, …, j)`, `i < j < n` (lexicographic order) -/
theorem down_cycles_structure (n : Nat) (d : PermDef) (h : permFamily "down_cycles" [n] = some d) :
    d.gens.map some =
      (pairsLt n).map (fun x => fromCycles n [(List.range' x.1 (x.2 + 1 - x.1)).map Int.ofNat]) ∧
    d.names = (pairsLt n).map (fun x =>
      "(" ++ ",".intercalate ((List.range' x.1 (x.2 + 1 - x.1)).map toString) ++ ")") ∧
    ∀ i j, (i, j) ∈ pairsLt n ↔ i < j ∧ j < n := by
  obtain ⟨hn, rfl⟩ := downCycles_eq n d h
  refine ⟨?_, rfl, mem_pairsLt n⟩
  rw [mk_gens, List.map_map]
  apply List.map_congr_left
  rintro ⟨i, j⟩ hx
  have := (mem_pairsLt n i j).1 hx
  simp only [Function.comp_apply]
  rw [fromCycles_rangeCycle n i (j + 1 - i) (by omega) (by omega)]

/-- inverse-closed only for `n = 2` -/
theorem down_cycles_inverse_closed (n : Nat) (d : PermDef)
    (h : permFamily "down_cycles" [n] = some d) : d.inverseClosed = decide (n = 2) := by
  obtain ⟨hn, rfl⟩ := downCycles_eq n d h
  by_cases hn2 : n = 2
  · subst hn2; decide
  · rw [decide_eq_false hn2]
    apply inverseClosed_false_of _ (oneLine n (rangeCycleFn 0 (2 + 1 - 0)))
    · rw [mk_gens]; exact List.mem_map.2 ⟨(0, 2), (mem_pairsLt n 0 2).2 (by omega), rfl⟩
    · rw [(rangeCycleFn_invPair (by omega) (by omega)).inverse_eq, mk_gens]
      intro hmem
      obtain ⟨x, _, e⟩ := List.mem_map.1 hmem
      exact rangeCycleInv_ne n 0 3 x.1 (x.2 + 1 - x.1) (by omega) (by omega) e.symm

theorem down_cycles_defined_iff (n : Nat) : (permFamily "down_cycles" [n]).isSome ↔ 2 ≤ n := by
  rw [permFamily_downCycles]; unfold downCycles; split <;> simp_all

/-! ## prefix_cycles -/

theorem permFamily_prefixCycles (n : Nat) : permFamily "prefix_cycles" [n] = prefixCycles n := rfl

theorem prefixCycles_eq (n : Nat) (d : PermDef) (h : permFamily "prefix_cycles" [n] = some d) :
    2 ≤ n ∧
    d = mk n (List.range' 2 (n - 1)) (fun j => rangeCycleFn 0 j)
      (fun j => tupleName "," (List.range j)) ("prefix_cycles-" ++ showNat n) := by
  rw [permFamily_prefixCycles] at h
  unfold prefixCycles at h
  split at h
  · rename_i hn; simp only [Option.some.injEq] at h; exact ⟨hn, h.symm⟩
  · simp at h

theorem prefix_cycles_valid (n : Nat) (d : PermDef) (h : permFamily "prefix_cycles" [n] = some d) :
    (∀ p ∈ d.gens, IsPermOf n p) ∧ d.central = List.range n ∧ d.names.length = d.gens.length := by
  obtain ⟨hn, rfl⟩ := prefixCycles_eq n d h
  apply mk_valid_of_invPair _ _ _ (fun j => rangeCycleInvFn 0 j)
  intro j hj
  have := List.mem_range'_1.1 hj
  exact rangeCycleFn_invPair (by omega) (by omega)

theorem prefix_cycles_count (n : Nat) (d : PermDef) (h : permFamily "prefix_cycles" [n] = some d) :
    d.gens.length = n - 1 := by
  obtain ⟨hn, rfl⟩ := prefixCycles_eq n d h
  simp [mk_count]

/-- generator number `j-2` is the cycle `(0 1 … j-1)`, `j = 2..n` -/
theorem prefix_cycles_structure (n : Nat) (d : PermDef)
    (h : permFamily "prefix_cycles" [n] = some d) :
    ∀ j, 2 ≤ j → j ≤ n →
      d.gens[j - 2]? = fromCycles n [(List.range j).map Int.ofNat] ∧
      d.names[j - 2]? = some ("(" ++ ",".intercalate ((List.range j).map toString) ++ ")") := by
  obtain ⟨hn, rfl⟩ := prefixCycles_eq n d h
  intro j h2 hj
  constructor
  · rw [mk_gens, List.getElem?_map, List.getElem?_range' (by omega)]
    simp only [Option.map_some, Nat.one_mul]
    rw [show 2 + (j - 2) = j by omega, List.range_eq_range',
      fromCycles_rangeCycle n 0 j (by omega) (by omega)]
  · rw [mk_names, List.getElem?_map, List.getElem?_range' (by omega)]
    simp only [Option.map_some, Nat.one_mul]
    rw [show 2 + (j - 2) = j by omega]; rfl

/-- inverse-closed only for `n = 2` -/
theorem prefix_cycles_inverse_closed (n : Nat) (d : PermDef)
    (h : permFamily "prefix_cycles" [n] = some d) : d.inverseClosed = decide (n = 2) := by
  obtain ⟨hn, rfl⟩ := prefixCycles_eq n d h
  by_cases hn2 : n = 2
  · subst hn2; decide
  · rw [decide_eq_false hn2]
    apply inverseClosed_false_of _ (oneLine n (rangeCycleFn 0 3))
    · rw [mk_gens]; exact List.mem_map.2 ⟨3, List.mem_range'_1.2 (by omega), rfl⟩
    · rw [(rangeCycleFn_invPair (by omega) (by omega)).inverse_eq, mk_gens]
      intro hmem
      obtain ⟨x, _, e⟩ := List.mem_map.1 hmem
      exact rangeCycleInv_ne n 0 3 0 x (by omega) (by omega) e.symm

theorem prefix_cycles_defined_iff (n : Nat) : (permFamily "prefix_cycles" [n]).isSome ↔ 2 ≤ n := by
  rw [permFamily_prefixCycles]; unfold prefixCycles; split <;> simp_all

/-! ## wrapped_k_cycles -/

theorem mod_two_n (n a : Nat) (h : a < 2 * n) : a % n = if a < n then a else a - n := by
  split
  · exact Nat.mod_eq_of_lt (by omega)
  · have : a = (a - n) + n := by omega
    rw [this, Nat.add_mod_right, Nat.add_sub_cancel]; exact Nat.mod_eq_of_lt (by omega)

/-- piecewise-linear form of `wrappedCycleFn` on `[0,n)` -/
def wrappedPw (n s k p : Nat) : Nat :=
  if (if s ≤ p then p - s else p + n - s) + 1 < k then (if p + 1 = n then 0 else p + 1)
  else if (if s ≤ p then p - s else p + n - s) + 1 = k then s else p

def wrappedInvPw (n s k q : Nat) : Nat :=
  if q = s then (if s + k - 1 < n then s + k - 1 else s + k - 1 - n)
  else if (if s ≤ q then q - s else q + n - s) < k then (if q = 0 then n - 1 else q - 1)
  else q

theorem wrappedCycleFn_eq {n s k p : Nat} (hs : s < n) (hp : p < n) :
    wrappedCycleFn n s k p = wrappedPw n s k p := by
  unfold wrappedCycleFn wrappedPw
  have e1 : (p + n - s) % n = if s ≤ p then p - s else p + n - s := by
    rw [mod_two_n n _ (by omega)]; pw
  have e2 : (p + 1) % n = if p + 1 = n then 0 else p + 1 := by
    rw [mod_two_n n _ (by omega)]; pw
  rw [e1, e2]

theorem wrapped_invPair {n s k : Nat} (hs : s < n) (hk1 : 1 ≤ k) (hk : k ≤ n) :
    InvPair n (wrappedCycleFn n s k) (wrappedInvPw n s k) := by
  refine InvPair.congr (f := wrappedPw n s k) (g := wrappedInvPw n s k) ⟨?_, ?_⟩
    (fun i hi => wrappedCycleFn_eq hs hi) (fun i _ => rfl)
  · intro p hp; unfold wrappedPw; pw
  · intro p hp; unfold wrappedPw wrappedInvPw; pw

theorem nodup_map_range (k : Nat) (f : Nat → Nat)
    (hinj : ∀ a b, a < k → b < k → f a = f b → a = b) : ((List.range k).map f).Nodup := by
  rw [List.nodup_iff_pairwise_ne, List.pairwise_map]
  have := List.pairwise_lt_range (n := k)
  rw [List.pairwise_iff_getElem] at this ⊢
  intro i j hi hj hij e
  have h1 := this i j hi hj hij
  simp only [List.length_range] at hi hj
  simp only [List.getElem_range] at e h1
  have := hinj i j hi hj e
  omega

/-- the entries of the wrapped cycle starting at `s` -/
def wrappedCycle (n s k : Nat) : List Nat := (List.range k).map fun j => (s + j) % n

theorem getD_wrappedCycle (n s k t : Nat) (ht : t < k) : (wrappedCycle n s k).getD t 0 = (s + t) % n := by
  unfold wrappedCycle
  rw [getD_map_lt _ _ t (by simpa using ht) 0 0, getD_eq_getElem (by simpa using ht)]; simp

/-- `permutation_from_cycles(n, [[(s+j) % n for j in range(k)]])` -/
theorem fromCycles_wrapped (n s k : Nat) (hs : s < n) (hk1 : 1 ≤ k) (hk : k ≤ n) :
    fromCycles n [(wrappedCycle n s k).map Int.ofNat] = some (oneLine n (wrappedCycleFn n s k)) := by
  have hmod : ∀ t, t < k → (s + t) % n = if s + t < n then s + t else s + t - n :=
    fun t ht => mod_two_n n _ (by omega)
  apply fromCycles_single_eq n
  · apply nodup_map_range
    intro a b ha hb e
    rw [hmod a ha, hmod b hb] at e
    revert e; pw
  · intro v hv
    obtain ⟨j, _, rfl⟩ := List.mem_map.1 hv
    exact Nat.mod_lt _ (by omega)
  · intro t ht
    have hlen : (wrappedCycle n s k).length = k := by simp [wrappedCycle]
    rw [hlen] at ht ⊢
    rw [getD_wrappedCycle n s k t ht, getD_wrappedCycle n s k _ (Nat.mod_lt _ (by omega)),
      wrappedCycleFn_eq hs (Nat.mod_lt _ (by omega)), hmod t ht]
    by_cases h : t + 1 < k
    · rw [Nat.mod_eq_of_lt h, hmod (t + 1) h]; unfold wrappedPw; pw
    · have : t + 1 = k := by omega
      rw [this, Nat.mod_self, Nat.add_zero, Nat.mod_eq_of_lt hs]; unfold wrappedPw; pw
  · intro p hp hnot
    rw [wrappedCycleFn_eq hs hp]
    have hoff : ¬ (if s ≤ p then p - s else p + n - s) < k := by
      intro hlt
      apply hnot
      refine List.mem_map.2 ⟨(if s ≤ p then p - s else p + n - s), List.mem_range.2 hlt, ?_⟩
      rw [hmod _ hlt]; pw
    revert hoff; unfold wrappedPw; pw

theorem permFamily_wrappedKCycles (n k : Nat) :
    permFamily "wrapped_k_cycles" [n, k] = wrappedKCycles n k := rfl

theorem wrappedKCycles_eq (n k : Nat) (d : PermDef)
    (h : permFamily "wrapped_k_cycles" [n, k] = some d) :
    (2 ≤ n ∧ 2 ≤ k ∧ k ≤ n) ∧
    d = mk n (List.range n) (fun s => wrappedCycleFn n s k)
      (fun s => tupleName " " ((List.range k).map fun j => (s + j) % n))
      ("wrapped_k_cycles-" ++ showNat n ++ "-" ++ showNat k) := by
  rw [permFamily_wrappedKCycles] at h
  unfold wrappedKCycles at h
  split at h
  · rename_i hn; simp only [Option.some.injEq] at h; exact ⟨hn, h.symm⟩
  · simp at h

theorem wrapped_k_cycles_valid (n k : Nat) (d : PermDef)
    (h : permFamily "wrapped_k_cycles" [n, k] = some d) :
    (∀ p ∈ d.gens, IsPermOf n p) ∧ d.central = List.range n ∧ d.names.length = d.gens.length := by
  obtain ⟨⟨hn, hk2, hk⟩, rfl⟩ := wrappedKCycles_eq n k d h
  apply mk_valid_of_invPair _ _ _ (fun s => wrappedInvPw n s k)
  intro s hs
  exact wrapped_invPair (List.mem_range.1 hs) (by omega) hk

theorem wrapped_k_cycles_count (n k : Nat) (d : PermDef)
    (h : permFamily "wrapped_k_cycles" [n, k] = some d) : d.gens.length = n := by
  obtain ⟨_, rfl⟩ := wrappedKCycles_eq n k d h
  simp [mk_count]

/-- generator `s` is the cycle `(s, s+1, …, s+k-1)` with entries modulo `n`, named by its entries
separated by blanks -/
theorem wrapped_k_cycles_structure (n k : Nat) (d : PermDef)
    (h : permFamily "wrapped_k_cycles" [n, k] = some d) :
    ∀ s, s < n →
      d.gens[s]? = fromCycles n [((List.range k).map fun j => (s + j) % n).map Int.ofNat] ∧
      d.names[s]? = some ("(" ++ " ".intercalate (((List.range k).map fun j => (s + j) % n).map toString)
        ++ ")") := by
  obtain ⟨⟨hn, hk2, hk⟩, rfl⟩ := wrappedKCycles_eq n k d h
  intro s hs
  constructor
  · rw [mk_gens, List.getElem?_map, List.getElem?_range hs]
    simp only [Option.map_some]
    exact (fromCycles_wrapped n s k hs (by omega) hk).symm
  · rw [mk_names, List.getElem?_map, List.getElem?_range hs]; rfl

/-- inverse-closed exactly for `k = 2` -/
theorem wrapped_k_cycles_inverse_closed (n k : Nat) (d : PermDef)
    (h : permFamily "wrapped_k_cycles" [n, k] = some d) : d.inverseClosed = decide (k = 2) := by
  obtain ⟨⟨hn, hk2, hk⟩, rfl⟩ := wrappedKCycles_eq n k d h
  by_cases hk' : k = 2
  · rw [decide_eq_true hk']
    subst hk'
    apply mk_inverseClosed
    intro s hs
    have hs' := List.mem_range.1 hs
    refine ⟨s, hs, ?_⟩
    rw [(wrapped_invPair hs' (by omega) hk).inverse_eq]
    apply oneLine_congr
    intro p hp
    rw [wrappedCycleFn_eq hs' hp]
    unfold wrappedPw wrappedInvPw; pw
  · rw [decide_eq_false hk']
    apply inverseClosed_false_of _ (oneLine n (wrappedCycleFn n 0 k))
    · rw [mk_gens]; exact List.mem_map.2 ⟨0, List.mem_range.2 (by omega), rfl⟩
    · rw [(wrapped_invPair (by omega) (by omega) hk).inverse_eq, mk_gens]
      intro hmem
      obtain ⟨s', hs', e⟩ := List.mem_map.1 hmem
      have hs'' := List.mem_range.1 hs'
      revert e
      apply Ne.symm
      apply oneLine_ne_of 2 (by omega)
      rw [wrappedCycleFn_eq hs'' (by omega)]
      unfold wrappedPw wrappedInvPw; pw

theorem wrapped_k_cycles_defined_iff (n k : Nat) :
    (permFamily "wrapped_k_cycles" [n, k]).isSome ↔ 2 ≤ n ∧ 2 ≤ k ∧ k ≤ n := by
  rw [permFamily_wrappedKCycles]; unfold wrappedKCycles; split <;> simp_all

end Cv.Families
