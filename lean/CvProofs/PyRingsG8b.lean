/-
  Worker g8, part 2: pure list lemmas — rotating a list, `ringShift` (common form of `ringForth`/`ringBack`),
  characterisation of `ringShift` by its values, the left rotation.
-/
import CvProofs.PyRingsG8
namespace Cv.PyG8
open Cv.Py Cv.PyGen Cv.Puzzles Cv.PyG2

/-- common form of `ringForth` (`s = 1`) and `ringBack` (`s = len - 1`) -/
def ringShift (n : Nat) (ring : List Nat) (s : Nat) : List Nat :=
  ofFn n fun x =>
    let k := ring.idxOf x
    if k < ring.length then ring.getD ((k + s) % ring.length) 0 else x

theorem ringForth_eq (n : Nat) (ring : List Nat) : ringForth n ring = ringShift n ring 1 := rfl
theorem ringBack_eq (n : Nat) (ring : List Nat) : ringBack n ring = ringShift n ring (ring.length - 1) := rfl

theorem rot_getElem? {α : Type} (l : List α) (s j : Nat) (hs : s ≤ l.length) (hj : j < l.length) :
    (l.drop s ++ l.take s)[j]? = l[(j + s) % l.length]? := by
  rw [add_mod_cases' j s l.length hj hs]
  split
  · rw [List.getElem?_append_left (by simp; omega), List.getElem?_drop, Nat.add_comm]
  · rw [List.getElem?_append_right (by simp; omega), List.getElem?_take, if_pos (by simp; omega)]
    congr 1; simp; omega

/-- a list with the right values IS the ring shift -/
theorem eq_ringShift (n s : Nat) (ring : List Nat) (g : List Nat) (hlen : g.length = n)
    (h1 : ∀ j (hj : j < ring.length), ring[j] < n → g[ring[j]]? = ring[(j + s) % ring.length]?)
    (h2 : ∀ x, x < n → x ∉ ring → g[x]? = some x) : g = ringShift n ring s := by
  apply List.ext_getElem?
  intro i
  by_cases hi : i < n
  · unfold ringShift ofFn
    rw [List.getElem?_map, List.getElem?_range hi]
    simp only [Option.map_some]
    by_cases hk : ring.idxOf i < ring.length
    · rw [if_pos hk]
      have hm : (ring.idxOf i + s) % ring.length < ring.length := Nat.mod_lt _ (by omega)
      have e : ring[ring.idxOf i] = i := List.getElem_idxOf hk
      have := h1 (ring.idxOf i) hk (by rw [e]; exact hi)
      simp only [e] at this
      rw [this, List.getD_eq_getElem?_getD, List.getElem?_eq_getElem hm]
      rfl
    · rw [if_neg hk]
      exact h2 i hi (by rw [← List.idxOf_lt_length_iff]; exact hk)
  · rw [List.getElem?_eq_none (by omega), List.getElem?_eq_none (by simp [ringShift]; omega)]

/-- the left rotation -/
theorem left_eq (ls n t : Nat) (hn : ls ≤ n) (ht : t ≤ ls) :
    (List.range ls).drop t ++ (List.range ls).take t ++ List.range' ls (n - ls) = ringShift n (leftRing ls) t := by
  apply eq_ringShift n t (leftRing ls)
  · simp; omega
  · intro j hj _
    have hj' : j < ls := by simpa [leftRing] using hj
    simp only [leftRing, List.getElem_range, List.length_range]
    rw [List.getElem?_append_left (by simp; omega)]
    have := rot_getElem? (List.range ls) t j (by simpa using ht) (by simpa using hj')
    simpa using this
  · intro x hx hnot
    have hx' : ls ≤ x := by simpa [leftRing] using hnot
    rw [List.getElem?_append_right (by simp; omega)]
    simp only [List.length_append, List.length_drop, List.length_take, List.length_range]
    rw [List.getElem?_range' (by omega)]
    congr 1; omega

end Cv.PyG8
