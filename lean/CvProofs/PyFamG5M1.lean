/-
  G5: `rapaport_m1` regenerated from the Python source = closed-form specification.
-/
import CvGen.PyFamilies
import CvProofs.PyLemmasG5
import CvProofs.PyFamG5Cycles
import CvProofs.FamiliesMore
namespace Cv.PyG5
open Cv.Py Cv.PyGen Cv.GraphDef Cv.Families Cv.Perm

/-! ### loops that append one item per iteration -/

theorem foldlM_append_single {α β : Type} (f : List β → α → Option (List β)) (l : List α) (H : α → β)
    (h : ∀ st, ∀ a ∈ l, f st a = some (st ++ [H a])) (init : List β) :
    List.foldlM f init l = some (init ++ l.map H) := by
  induction l generalizing init with
  | nil => simp
  | cons a t ih =>
    simp only [List.foldlM_cons, Option.bind_eq_bind]
    rw [h init a (by simp), Option.bind_some, ih (fun st a' ha' => h st a' (by simp [ha']))]
    simp

theorem foldlM_append_pair {α β γ : Type} (f : List β × List γ → α → Option (List β × List γ))
    (l : List α) (G : α → β) (N : α → γ)
    (h : ∀ st, ∀ a ∈ l, f st a = some (st.1 ++ [G a], st.2 ++ [N a])) (init : List β × List γ) :
    List.foldlM f init l = some (init.1 ++ l.map G, init.2 ++ l.map N) := by
  induction l generalizing init with
  | nil => simp
  | cons a t ih =>
    simp only [List.foldlM_cons, Option.bind_eq_bind]
    rw [h init a (by simp), Option.bind_some, ih (fun st a' ha' => h st a' (by simp [ha']))]
    simp

/-! ### the ranges -/

theorem pyRange_pairs0 (n : Nat) :
    pyRange 1 (Int.fdiv (n : Int) 2 + 1) 1 = (List.range (n / 2)).map fun t => ((t + 1 : Nat) : Int) := by
  rw [pyRange_one, Int.fdiv_eq_ediv_of_nonneg _ (by omega)]
  have : ((n : Int) / 2 + 1 - 1).toNat = n / 2 := by omega
  rw [this]
  apply List.map_congr_left
  intro t _; omega

theorem pyRange_pairs1 (n : Nat) :
    pyRange 1 (Int.fdiv ((n : Int) - 1) 2 + 1) 1 =
      (List.range ((n - 1) / 2)).map fun t => ((t + 1 : Nat) : Int) := by
  rw [pyRange_one, Int.fdiv_eq_ediv_of_nonneg _ (by omega)]
  have : (((n : Int) - 1) / 2 + 1 - 1).toNat = (n - 1) / 2 := by omega
  rw [this]
  apply List.map_congr_left
  intro t _; omega

/-! ### the inner loops building the cycle lists -/

theorem m1_cycles (r : Nat) (m : Nat)
    (f : List (List Int) → Int → Option (List (List Int)))
    (hf : ∀ st (k : Nat), k < m → f st (k : Int) = some (st ++ [toI [r + 2 * k, r + 2 * k + 1]])) :
    List.foldlM f [] (pyRange 0 (m : Int) 1) = some ((adjCycles r m).map toI) := by
  rw [pyRange_zero_nat]
  rw [foldlM_append_single _ _ (fun idx => toI [r + 2 * idx.toNat, r + 2 * idx.toNat + 1])]
  · simp only [List.nil_append, toI, adjCycles, List.map_map, Option.some.injEq]
    apply List.map_congr_left
    intro k _
    simp only [Function.comp_apply, Int.ofNat_eq_natCast, Int.toNat_natCast]
    rfl
  · intro st a ha
    obtain ⟨k, hk, rfl⟩ := List.mem_map.1 ha
    have := List.mem_range.1 hk
    rw [Int.ofNat_eq_natCast, hf st k this, Int.toNat_natCast]

theorem rapaportM1_wf (n : Nat) (d : PermDef) (h : rapaportM1 n = some d) : WF d := by
  have hv := rapaport_m1_valid n d h
  obtain ⟨hn, rfl⟩ := rapaportM1_eq n d h
  refine wf_of_valid n _ (by omega) ?_ hv
  have : 0 < n / 2 := by omega
  simp only [mk, ne_eq, List.map_eq_nil_iff, List.append_eq_nil_iff, not_and]
  intro h0
  have := congrArg List.length h0
  simp at this; omega

theorem rapaport_m1_gen (n : Nat) : (Fam.rapaport_m1 (n : Int)).bind rawToPermDef = Families.rapaportM1 n := by
  have hwf := rapaportM1_wf n
  unfold Fam.rapaport_m1
  rw [pyRange_pairs0, pyRange_pairs1]
  simp only [Option.bind_eq_bind, Option.pure_def]
  rw [foldlM_append_pair _ _ (fun a => toI (oneLine n (adjSwapsFn 0 (2 * a.toNat + 0))))
    (fun a => "M1_0_" ++ pyStr a)]
  · simp only [Option.bind_some]
    rw [foldlM_append_pair _ _ (fun a => toI (oneLine n (adjSwapsFn 1 (2 * a.toNat + 1))))
      (fun a => "M1_1_" ++ pyStr a)]
    · simp only [Option.bind_some, List.nil_append, List.map_map, pyRange_zero_nat, pyStr_nat]
      have hd : ∀ d : PermDef,
          d = mk n ((List.range (n / 2)).map (fun t => (0, t + 1)) ++
                (List.range ((n - 1) / 2)).map (fun t => (1, t + 1)))
              (fun x => adjSwapsFn x.1 (2 * x.2 + x.1)) (fun x => s!"M1_{x.1}_{x.2}")
              ("rapaport_m1-" ++ showNat n) →
          rawToPermDef
            { gens :=
                List.map ((fun a => toI (oneLine n (adjSwapsFn 0 (2 * a.toNat + 0)))) ∘ fun t => ((t + 1 : Nat) : Int))
                    (List.range (n / 2)) ++
                  List.map ((fun a => toI (oneLine n (adjSwapsFn 1 (2 * a.toNat + 1)))) ∘ fun t => ((t + 1 : Nat) : Int))
                    (List.range ((n - 1) / 2)),
              central := some (toI (List.range n)),
              names :=
                some
                  (List.map ((fun a => "M1_0_" ++ pyStr a) ∘ fun t => ((t + 1 : Nat) : Int)) (List.range (n / 2)) ++
                    List.map ((fun a => "M1_1_" ++ pyStr a) ∘ fun t => ((t + 1 : Nat) : Int)) (List.range ((n - 1) / 2))),
              name := some ("rapaport_m1-" ++ showNat n) } =
          rawToPermDef ⟨d.gens.map toI, some (toI d.central), some d.names, some d.name⟩ := by
        intro d hd
        subst hd
        congr 1
        simp only [mk, List.map_append, List.map_map]
        congr 1
        have s0 : (toString "M1_" ++ toString (0 : Nat)) ++ toString "_" = "M1_0_" := by decide
        have s1 : (toString "M1_" ++ toString (1 : Nat)) ++ toString "_" = "M1_1_" := by decide
        congr 2
        · apply List.map_congr_left
          intro t _
          show _ = (toString "M1_" ++ toString (0 : Nat)) ++ toString "_" ++ toString (t + 1)
          rw [s0]; rfl
        · apply List.map_congr_left
          intro t _
          show _ = (toString "M1_" ++ toString (1 : Nat)) ++ toString "_" ++ toString (t + 1)
          rw [s1]; rfl
      by_cases hn : 2 ≤ n
      · rw [hd _ rfl]
        unfold rapaportM1 at hwf ⊢
        rw [if_pos hn] at hwf ⊢
        exact rawToPermDef_of_wf _ (hwf _ rfl)
      · rw [hd _ rfl]
        unfold rapaportM1
        rw [if_neg hn]
        apply rawToPermDef_of_not_wf
        intro h
        apply h.1
        have h1 : n / 2 = 0 := by omega
        have h2 : (n - 1) / 2 = 0 := by omega
        simp [mk, h1, h2]
    · intro st a ha
      obtain ⟨t, ht, rfl⟩ := List.mem_map.1 ha
      have ht := List.mem_range.1 ht
      rw [m1_cycles 1 (t + 1)]
      · rw [Option.bind_some, pfc_adjCycles n 1 (t + 1) (by omega), Option.bind_some]
        simp only [Int.toNat_natCast]
        rw [show 1 + 2 * (t + 1) = 2 * (t + 1) + 1 by omega]
      · intro st k hk
        have hc : decide (1 + 2 * (k : Int) + 1 < (n : Int)) = true := by
          simp only [decide_eq_true_eq]; omega
        simp only [hc, if_true, Option.bind_some, toI, List.map_cons, List.map_nil, Int.ofNat_eq_natCast]
        congr 4 <;> omega
  · intro st a ha
    obtain ⟨t, ht, rfl⟩ := List.mem_map.1 ha
    have ht := List.mem_range.1 ht
    rw [m1_cycles 0 (t + 1)]
    · rw [Option.bind_some, pfc_adjCycles n 0 (t + 1) (by omega), Option.bind_some]
      simp only [Int.toNat_natCast]
      rw [show 0 + 2 * (t + 1) = 2 * (t + 1) + 0 by omega]
    · intro st k hk
      have hc : decide (2 * (k : Int) + 1 < (n : Int)) = true := by
        simp only [decide_eq_true_eq]; omega
      simp only [hc, if_true, Option.bind_some, toI, List.map_cons, List.map_nil, Int.ofNat_eq_natCast]
      have e1 : (2 : Int) * (k : Int) = ((0 + 2 * k : Nat) : Int) := by omega
      have e2 : (2 : Int) * (k : Int) + 1 = ((0 + 2 * k + 1 : Nat) : Int) := by omega
      rw [e2, e1]

end Cv.PyG5
