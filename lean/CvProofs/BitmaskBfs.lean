/-
  Proofs about `CvModel/Bitmask.lean`, part 5: `CayleyGraphChunkedBfs.bfs` refines the abstract gray/black bit-set BFS
  `Cv.bfsBitset` (whose correctness is `bfsBitset_spec`), and the exact domain on which the source does not raise.
  Core Lean only.
-/
import CvProofs.BitmaskPaint
import CvProofs.Codec
namespace Cv.Bitmask
open Cv.Perm

/-! ### the generator functions act on encoded states as the one-line action -/

/-- `new[i] = old[g[i]]` -/
def act (g s : List Nat) : List Nat := g.map fun i => s.getD i 0

/-- the neighbours of a state in the abstract graph -/
def nbOf (gens : List (List Nat)) (s : List Nat) : List (List Nat) := gens.map fun g => act g s

theorem act_isPerm {n : Nat} {g s : List Nat} (hg : IsPermOf n g) (hs : IsPermOf n s) : IsPermOf n (act g s) := by
  rw [isPermOf_iff_perm]
  exact (apply_perm n g hg s hs.length_eq).trans ((isPermOf_iff_perm n s).1 hs)

theorem getD_act {n : Nat} {g s : List Nat} (hg : IsPermOf n g) (i : Nat) (hi : i < n) :
    (act g s).getD i 0 = s.getD (g.getD i 0) 0 := by
  have hi' : i < g.length := by rw [hg.length_eq]; exact hi
  unfold act
  rw [getD_eq_getElem (by simpa using hi'), List.getElem_map, getD_eq_getElem hi']

/-- the compiled width-4 routine of generator `g` maps the code of `s` to the code of `act g s` -/
theorem permFunc_enc (n : Nat) (hn1 : 1 ≤ n) (hn : n ≤ 16) (g s : List Nat) (hg : IsPermOf n g)
    (hs : s.length = n) (hs16 : ∀ v ∈ s, v < 16) :
    permFunc (Cv.Codec.compile g 4 n) (encodePerm s) = encodePerm (act g s) := by
  have hgp := (isPermOf_iff_perm n g).1 hg
  have henc : Cv.Codec.encLen 4 n = 1 := by unfold Cv.Codec.encLen; omega
  have hev := Cv.Codec.compiled_routine_1d g 4 n (by omega) (by omega) hg.length_eq hgp henc
    (BitVec.ofNat 64 (encodePerm s))
  have hev' : Cv.Codec.evalProg1d (Cv.Codec.compile g 4 n) (BitVec.ofNat 64 (encodePerm s)) =
      Cv.Codec.permWord g 4 n [BitVec.ofNat 64 (encodePerm s)] 0 := by
    simpa [Cv.Codec.permuteBits] using hev
  have hact16 : ∀ v ∈ act g s, v < 2 ^ 4 := by
    intro v hv
    unfold act at hv
    rw [List.mem_map] at hv
    obtain ⟨i, hi, rfl⟩ := hv
    have : i < s.length := by rw [hs]; exact hg.lt i hi
    rw [getD_eq_getElem this]
    exact hs16 _ (List.getElem_mem this)
  unfold permFunc
  rw [hev']
  apply Nat.eq_of_testBit_eq
  intro b
  rw [BitVec.testBit_toNat, encodePerm_eq_pack (act g s), testBit_pack 4 (by omega) _ hact16]
  by_cases hb : b < 64
  · rw [Cv.Codec.permWord_bit g 4 n _ 0 b hb]
    simp only [Nat.zero_mul, Nat.zero_add]
    by_cases hbn : b < n * 4
    · have hq : b / 4 < n := by omega
      have hgq : g.getD (b / 4) 0 < n := hg.getD_lt hq
      have hsrc : Cv.Codec.srcPos g 4 b = g.getD (b / 4) 0 * 4 + b % 4 := rfl
      have h1 : (g.getD (b / 4) 0 * 4 + b % 4) / 64 = 0 := by omega
      have h2 : (g.getD (b / 4) 0 * 4 + b % 4) % 64 = g.getD (b / 4) 0 * 4 + b % 4 := by omega
      rw [hsrc, h1, h2]
      simp only [hbn, decide_true, Bool.true_and, List.getD_cons_zero]
      rw [BitVec.getLsbD_ofNat, encodePerm_eq_pack, testBit_pack 4 (by omega) s hs16]
      have h3 : (g.getD (b / 4) 0 * 4 + b % 4) / 4 = g.getD (b / 4) 0 := by omega
      have h4 : (g.getD (b / 4) 0 * 4 + b % 4) % 4 = b % 4 := by omega
      rw [h3, h4, getD_act hg _ hq]
      have : g.getD (b / 4) 0 * 4 + b % 4 < 64 := by omega
      rw [decide_eq_true this, Bool.true_and]
    · have hq : ¬ b / 4 < (act g s).length := by
        unfold act; rw [List.length_map, hg.length_eq]; omega
      have hz : (act g s).getD (b / 4) 0 = 0 := by
        rw [List.getD_eq_getElem?_getD, List.getElem?_eq_none (by omega)]; rfl
      rw [hz]
      simp [hbn]
  · rw [BitVec.getLsbD_of_ge _ _ (by omega)]
    have hq : ¬ b / 4 < (act g s).length := by
      unfold act; rw [List.length_map, hg.length_eq]; omega
    have hz : (act g s).getD (b / 4) 0 = 0 := by
      rw [List.getD_eq_getElem?_getD, List.getElem?_eq_none (by omega)]; rfl
    rw [hz]
    simp

/-- two generators that differ at a trailing position send every state into two different chunks -/
theorem chunk_ne_of_trailing {n R : Nat} (hn : n ≤ 16) {g g' s : List Nat} (hg : IsPermOf n g)
    (hg' : IsPermOf n g') (hs : IsPermOf n s) (i : Nat) (hRi : R ≤ i) (hi : i < n)
    (hne : g.getD i 0 ≠ g'.getD i 0) :
    chunkOf n R (encodePerm (act g s)) ≠ chunkOf n R (encodePerm (act g' s)) := by
  intro h
  rw [chunkOf_eq_iff' n R _ _ (act_isPerm hg hs) (act_isPerm hg' hs) hn] at h
  have h1 : ((act g s).drop R).getD (i - R) 0 = ((act g' s).drop R).getD (i - R) 0 := by rw [h]
  have e : ∀ l : List Nat, (l.drop R).getD (i - R) 0 = l.getD i 0 := by
    intro l
    rw [List.getD_eq_getElem?_getD, List.getElem?_drop, List.getD_eq_getElem?_getD]
    congr 2; omega
  rw [e, e, getD_act hg i hi, getD_act hg' i hi] at h1
  have := (List.getD_inj (fallback := 0) (by rw [hs.length_eq]; exact hg.getD_lt hi)
    (by rw [hs.length_eq]; exact hg'.getD_lt hi) hs.nodup).1 h1
  exact hne this

/-! ### `flush_gray_to_black` on one chunk -/

theorem bitCount_replicate (k : Nat) : bitCount (Array.replicate k 0#64) = 0 := by
  rw [bitCount_eq_length, List.length_eq_zero_iff, List.eq_nil_iff_forall_not_mem]
  intro r hr
  rw [mem_setBits, bitAt_replicate] at hr
  cases hr

theorem bitAt_new (g b : Bits) (h : g.size = b.size) (r : Nat) :
    bitAt (Array.zipWith (fun g b => g &&& ~~~b) g b) r = (bitAt g r && !bitAt b r) := by
  rw [bitAt_andNot]
  by_cases hr : r / 64 < b.size
  · simp [hr]
  · have : bitAt g r = false := by
      cases hg : bitAt g r with
      | false => rfl
      | true => have := lt_of_bitAt hg; omega
    simp [this]

structure FlushSpec (vc vc' : VChunk) : Prop where
  chunk : vc'.chunk = vc.chunk
  black : ∀ r, bitAt vc'.black r = (bitAt vc.black r || (bitAt vc.gray r && !bitAt vc.black r))
  last : ∀ r, bitAt vc'.lastLayer r = (bitAt vc.gray r && !bitAt vc.black r)
  gray : ∀ r, bitAt vc'.gray r = false
  count : vc'.lastCount = bitCount vc'.lastLayer
  changed : vc'.changed = (vc'.lastCount != 0)
  sizes : vc'.black.size = vc.black.size ∧ vc'.lastLayer.size = vc.black.size ∧ vc'.gray.size = vc.black.size

theorem flushChunk_spec (vc : VChunk) (h1 : vc.gray.size = vc.black.size) (h2 : vc.lastLayer.size = vc.black.size) :
    FlushSpec vc (flushChunk vc) := by
  have hnew := bitAt_new vc.gray vc.black h1
  have hnsize : (Array.zipWith (fun g b => g &&& ~~~b) vc.gray vc.black).size = vc.black.size := by
    rw [Array.size_zipWith, h1, Nat.min_self]
  unfold flushChunk
  simp only []
  split
  · rename_i hc
    have hc0 : bitCount (Array.zipWith (fun g b => g &&& ~~~b) vc.gray vc.black) = 0 := by simpa using hc
    have hz := bitAt_false_of_count_zero _ hc0
    refine ⟨rfl, ?_, ?_, ?_, ?_, rfl, ?_⟩
    · intro r; rw [← hnew, hz]; simp
    · intro r; rw [← hnew, hz, bitAt_replicate]
    · intro r; exact hz r
    · show 0 = bitCount (Array.replicate _ 0#64)
      rw [bitCount_replicate]
    · exact ⟨rfl, by simp [h2], hnsize⟩
  · rename_i hc
    refine ⟨rfl, ?_, ?_, ?_, rfl, ?_, ?_⟩
    · intro r
      show bitAt (Array.zipWith (· ||| ·) vc.black _) r = _
      rw [bitAt_or _ _ hnsize.symm, hnew]
    · intro r; exact hnew r
    · intro r; exact bitAt_replicate _ _
    · show true = (bitCount _ != 0)
      simp only [beq_iff_eq] at hc
      simp [hc]
    · refine ⟨?_, hnsize, by simp [h2]⟩
      show (Array.zipWith (· ||| ·) vc.black _).size = _
      rw [Array.size_zipWith, hnsize, Nat.min_self]

/-! ### bit sets representing vertex lists; counting -/

/-- the family of bit sets `sel` represents the vertex list `L`: a bit is set iff it is the position of a vertex of `L` -/
def Rep (n R : Nat) (sel : VChunk → Bits) (cs : List VChunk) (L : List (List Nat)) : Prop :=
  (∀ p ∈ L, IsPermOf n p) ∧
  ∀ i r, bitOf sel cs i r = true ↔ ∃ p ∈ L, ixE n R (encodePerm p) = i ∧ rkE n R (encodePerm p) = r

/-- all set bits of the family as (chunk index, rank) pairs -/
def allBits (sel : VChunk → Bits) (cs : List VChunk) : List (Nat × Nat) :=
  (List.range cs.length).flatMap fun i =>
    match cs[i]? with
    | some vc => (setBits (sel vc)).map (Prod.mk i)
    | none => []

theorem mem_allBits (sel : VChunk → Bits) (cs : List VChunk) (i r : Nat) :
    (i, r) ∈ allBits sel cs ↔ bitOf sel cs i r = true := by
  unfold allBits bitOf
  rw [List.mem_flatMap]
  constructor
  · rintro ⟨i', _, h⟩
    cases hc : cs[i']? with
    | none => rw [hc] at h; cases h
    | some vc =>
      rw [hc] at h
      simp only [List.mem_map, Prod.mk.injEq] at h
      obtain ⟨r', hr', rfl, rfl⟩ := h
      rw [hc]
      exact (mem_setBits _ _).1 hr'
  · intro h
    cases hc : cs[i]? with
    | none => rw [hc] at h; cases h
    | some vc =>
      rw [hc] at h
      have hi : i < cs.length := by
        apply Classical.byContradiction
        intro hn; rw [List.getElem?_eq_none (by omega)] at hc; cases hc
      refine ⟨i, List.mem_range.2 hi, ?_⟩
      rw [hc]
      exact List.mem_map.2 ⟨r, (mem_setBits _ _).2 h, rfl⟩

theorem nodup_allBits (sel : VChunk → Bits) (cs : List VChunk) : (allBits sel cs).Nodup := by
  unfold allBits
  apply Cv.nodup_flatMap_of_disjoint _ _ List.nodup_range
  · intro i _
    cases cs[i]? with
    | none => simp
    | some vc =>
      refine (List.pairwise_map).2 ((nodup_setBits _).imp ?_)
      intro a b hab e
      exact hab (Prod.mk.inj e).2
  · intro i _ j _ hij x hx hx'
    cases hi : cs[i]? with
    | none => rw [hi] at hx; cases hx
    | some vc =>
      cases hj : cs[j]? with
      | none => rw [hj] at hx'; cases hx'
      | some vc' =>
        rw [hi] at hx; rw [hj] at hx'
        simp only [List.mem_map] at hx hx'
        obtain ⟨_, _, rfl⟩ := hx
        obtain ⟨_, _, e⟩ := hx'
        exact hij (Prod.mk.inj e).1.symm

theorem length_allBits (sel : VChunk → Bits) (cs : List VChunk) :
    (allBits sel cs).length = (cs.map fun vc => bitCount (sel vc)).sum := by
  unfold allBits
  rw [List.length_flatMap]
  congr 1
  apply List.ext_getElem
  · simp
  · intro i h1 h2
    have hi : i < cs.length := by simpa using h2
    simp only [List.getElem_map, List.getElem_range]
    rw [List.getElem?_eq_getElem hi]
    simp only [List.length_map]
    rw [bitCount_eq_length]

section count
variable {n R : Nat} (hR : R ≤ n) (hn : n ≤ 16) (hR8 : R ≤ 8)
include hR hn hR8

/-- the positions of the vertices of a duplicate-free list are pairwise different -/
theorem nodup_positions (L : List (List Nat)) (hv : ∀ p ∈ L, IsPermOf n p) (hnd : L.Nodup) :
    (L.map fun p => (ixE n R (encodePerm p), rkE n R (encodePerm p))).Nodup := by
  refine (List.pairwise_map).2 (hnd.imp_of_mem ?_)
  intro p q hp hq hpq e
  obtain ⟨e1, e2⟩ := Prod.mk.inj e
  exact hpq (pos_injective hR hn hR8 (hv p hp) (hv q hq) e1 e2)

/-- `count_last_layer`: the sum of the chunk counts is the number of represented vertices -/
theorem count_rep (sel : VChunk → Bits) (cs : List VChunk) (L : List (List Nat)) (hrep : Rep n R sel cs L)
    (hnd : L.Nodup) : (cs.map fun vc => bitCount (sel vc)).sum = L.length := by
  rw [← length_allBits]
  have hperm : (allBits sel cs).Perm (L.map fun p => (ixE n R (encodePerm p), rkE n R (encodePerm p))) := by
    rw [List.perm_ext_iff_of_nodup (nodup_allBits sel cs) (nodup_positions hR hn hR8 L hrep.1 hnd)]
    rintro ⟨i, r⟩
    rw [mem_allBits, hrep.2, List.mem_map]
    constructor
    · rintro ⟨p, hp, rfl, rfl⟩; exact ⟨p, hp, rfl⟩
    · rintro ⟨p, hp, e⟩
      obtain ⟨e1, e2⟩ := Prod.mk.inj e
      exact ⟨p, hp, e1, e2⟩
  rw [hperm.length_eq, List.length_map]

end count

/-! ### the invariant of the main loop and `flush_gray_to_black` on all chunks -/

/-- what holds at the head of every iteration of `bfs`: `blackL` = all visited vertices, `lastL` = the last layer -/
structure Inv (n R : Nat) (cs : List VChunk) (blackL lastL : List (List Nat)) : Prop where
  shape : Shape n R cs
  black : Rep n R (·.black) cs blackL
  last : Rep n R (·.lastLayer) cs lastL
  lastNodup : lastL.Nodup
  grayZero : ∀ i r, bitOf (·.gray) cs i r = false
  count : ∀ vc ∈ cs, vc.lastCount = bitCount vc.lastLayer ∧ vc.changed = (vc.lastCount != 0)

theorem bitOf_map_flush (cs : List VChunk) (hsz : ∀ vc ∈ cs, vc.gray.size = vc.black.size ∧ vc.lastLayer.size = vc.black.size)
    (i r : Nat) :
    bitOf (·.black) (cs.map flushChunk) i r =
      (bitOf (·.black) cs i r || (bitOf (·.gray) cs i r && !bitOf (·.black) cs i r)) ∧
    bitOf (·.lastLayer) (cs.map flushChunk) i r = (bitOf (·.gray) cs i r && !bitOf (·.black) cs i r) ∧
    bitOf (·.gray) (cs.map flushChunk) i r = false := by
  unfold bitOf
  rw [List.getElem?_map]
  cases hc : cs[i]? with
  | none => simp
  | some vc =>
    obtain ⟨h1, h2⟩ := hsz vc (List.mem_of_getElem? hc)
    have hf := flushChunk_spec vc h1 h2
    simp only [Option.map_some]
    exact ⟨hf.black r, hf.last r, hf.gray r⟩

section flush
variable {n R : Nat} (hR : R ≤ n) (hn : n ≤ 16) (hR8 : R ≤ 8)
include hR hn hR8

theorem flush_spec {cs : List VChunk} (hs : Shape n R cs) {blackL grayL newL : List (List Nat)}
    (hb : Rep n R (·.black) cs blackL) (hg : Rep n R (·.gray) cs grayL)
    (hmemnew : ∀ q, q ∈ newL ↔ q ∈ grayL ∧ q ∉ blackL) (hnd : newL.Nodup) :
    Inv n R (cs.map flushChunk) (blackL ++ newL) newL ∧
    ((cs.map flushChunk).map (·.lastCount)).sum = newL.length := by
  have hsz : ∀ vc ∈ cs, vc.gray.size = vc.black.size ∧ vc.lastLayer.size = vc.black.size := by
    intro vc hvc
    obtain ⟨s1, s2, s3⟩ := hs.sizes vc hvc
    exact ⟨by rw [s3, s1], by rw [s2, s1]⟩
  have hbits := bitOf_map_flush cs hsz
  have hlast : Rep n R (·.lastLayer) (cs.map flushChunk) newL := by
    refine ⟨fun p hp => hg.1 p ((hmemnew p).1 hp).1, fun i r => ?_⟩
    rw [(hbits i r).2.1]
    simp only [Bool.and_eq_true, Bool.not_eq_true', ← Bool.not_eq_true]
    rw [hg.2, hb.2]
    constructor
    · rintro ⟨⟨q, hq, e⟩, hno⟩
      refine ⟨q, (hmemnew q).2 ⟨hq, fun hqb => hno ⟨q, hqb, e⟩⟩, e⟩
    · rintro ⟨q, hq, e1, e2⟩
      obtain ⟨hqg, hqb⟩ := (hmemnew q).1 hq
      refine ⟨⟨q, hqg, e1, e2⟩, ?_⟩
      rintro ⟨p, hp, e1', e2'⟩
      have : p = q := pos_injective hR hn hR8 (hb.1 p hp) (hg.1 q hqg) (e1'.trans e1.symm) (e2'.trans e2.symm)
      exact hqb (this ▸ hp)
  have hcount : ∀ vc ∈ cs.map flushChunk, vc.lastCount = bitCount vc.lastLayer ∧ vc.changed = (vc.lastCount != 0) := by
    intro vc' hvc'
    rw [List.mem_map] at hvc'
    obtain ⟨vc, hvc, rfl⟩ := hvc'
    have hf := flushChunk_spec vc (hsz vc hvc).1 (hsz vc hvc).2
    exact ⟨hf.count, hf.changed⟩
  refine ⟨⟨?_, ?_, hlast, hnd, fun i r => (hbits i r).2.2, hcount⟩, ?_⟩
  · refine ⟨?_, ?_⟩
    · rw [← hs.chunks, List.map_map]
      apply List.map_congr_left
      intro vc hvc
      exact (flushChunk_spec vc (hsz vc hvc).1 (hsz vc hvc).2).chunk
    · intro vc' hvc'
      rw [List.mem_map] at hvc'
      obtain ⟨vc, hvc, rfl⟩ := hvc'
      have hf := flushChunk_spec vc (hsz vc hvc).1 (hsz vc hvc).2
      obtain ⟨s1, -, -⟩ := hs.sizes vc hvc
      exact ⟨by rw [hf.sizes.1, s1], by rw [hf.sizes.2.1, s1], by rw [hf.sizes.2.2, s1]⟩
  · refine ⟨?_, fun i r => ?_⟩
    · intro p hp
      rcases List.mem_append.1 hp with h | h
      · exact hb.1 p h
      · exact hg.1 p ((hmemnew p).1 h).1
    · rw [(hbits i r).1]
      simp only [Bool.or_eq_true, Bool.and_eq_true, Bool.not_eq_true', ← Bool.not_eq_true]
      rw [hg.2, hb.2]
      constructor
      · rintro (⟨p, hp, e⟩ | ⟨⟨q, hq, e⟩, hno⟩)
        · exact ⟨p, List.mem_append_left _ hp, e⟩
        · exact ⟨q, List.mem_append_right _ ((hmemnew q).2 ⟨hq, fun hqb => hno ⟨q, hqb, e⟩⟩), e⟩
      · rintro ⟨p, hp, e⟩
        rcases List.mem_append.1 hp with h | h
        · exact Or.inl ⟨p, h, e⟩
        · by_cases hex : ∃ p', p' ∈ blackL ∧ ixE n R (encodePerm p') = i ∧ rkE n R (encodePerm p') = r
          · exact Or.inl hex
          · exact Or.inr ⟨⟨p, ((hmemnew p).1 h).1, e⟩, hex⟩
  · have : (cs.map flushChunk).map (·.lastCount) = (cs.map flushChunk).map fun vc => bitCount vc.lastLayer := by
      apply List.map_congr_left
      intro vc hvc
      exact (hcount vc hvc).1
    rw [this]
    exact count_rep hR hn hR8 (·.lastLayer) _ _ hlast hnd

end flush

/-! ### one pass over the chunks: materialise, apply the generators, paint -/

/-- `np.hstack([p(perms) for p in self.perm_funcs])` -/
def nbrsE (progs : List (List Cv.Codec.Stmt)) (perms : List Nat) : List Nat :=
  progs.flatMap fun prog => perms.map (permFunc prog)

theorem mem_nbrsE (progs : List (List Cv.Codec.Stmt)) (perms : List Nat) (y : Nat) :
    y ∈ nbrsE progs perms ↔ ∃ prog ∈ progs, ∃ x ∈ perms, y = permFunc prog x := by
  unfold nbrsE
  simp only [List.mem_flatMap, List.mem_map]
  constructor
  · rintro ⟨prog, hp, x, hx, rfl⟩; exact ⟨prog, hp, x, hx, rfl⟩
  · rintro ⟨prog, hp, x, hx, rfl⟩; exact ⟨prog, hp, x, hx, rfl⟩

/-- the body of `for c1 in self.chunks:` -/
def expandStep (n R : Nat) (progs : List (List Cv.Codec.Stmt)) (st : List VChunk × Nat) (i : Nat) :
    Except BfsError (List VChunk × Nat) :=
  match st.1[i]? with
  | none => .ok st
  | some c1 =>
    if !c1.changed then .ok st
    else
      if c1.lastCount == 0 then .error .assertion else
      if (materializeBits R c1.chunk c1.lastLayer).length != c1.lastCount then .error .assertion else
      if progs.isEmpty then .error .hstackEmpty else
      match paintGray n R st.1 (nbrsE progs (materializeBits R c1.chunk c1.lastLayer)) with
      | .error e => .error e
      | .ok chunks' => .ok (chunks', st.2 + 1)

theorem expandAll_eq (n R : Nat) (progs : List (List Cv.Codec.Stmt)) (chunks : List VChunk) :
    expandAll n R progs chunks = (List.range chunks.length).foldlM (expandStep n R progs) (chunks, 0) := rfl

/-- painting succeeds on the neighbours of every non-empty part of the last layer -/
def PaintsOK (n R : Nat) (progs : List (List Cv.Codec.Stmt)) (lastL : List (List Nat)) : Prop :=
  ∀ (cs' : List VChunk) (perms : List Nat), Shape n R cs' → perms ≠ [] → perms.Nodup →
    (∀ x ∈ perms, ∃ p ∈ lastL, x = encodePerm p) →
    ∃ cs'', paintGray n R cs' (nbrsE progs perms) = .ok cs'' ∧ Painted n R cs' cs'' (nbrsE progs perms)

section expand
variable {n R : Nat} (hR : R ≤ n) (hn : n ≤ 16) (hR8 : R ≤ 8)
include hR hn hR8

/-- what `materialize_last_layer_permutations` returns for chunk `i` -/
theorem materialize_facts {cs : List VChunk} {blackL lastL : List (List Nat)} (hinv : Inv n R cs blackL lastL)
    (i : Nat) (vc : VChunk) (hvc : cs[i]? = some vc) :
    (∀ x, x ∈ materializeBits R vc.chunk vc.lastLayer ↔
      ∃ p ∈ lastL, ixE n R (encodePerm p) = i ∧ x = encodePerm p) ∧
    (materializeBits R vc.chunk vc.lastLayer).Nodup ∧
    (materializeBits R vc.chunk vc.lastLayer).length = vc.lastCount := by
  have hmem : vc ∈ cs := List.mem_of_getElem? hvc
  have hsz := (hinv.shape.sizes vc hmem).2.1
  have hchunk : ∀ p, IsPermOf n p → ixE n R (encodePerm p) = i → vc.chunk = mkChunk n R (p.drop R) := by
    intro p hp hi
    have h1 := (ixE_spec hR hn hp).2
    rw [hi, ← hinv.shape.chunks, List.getElem?_map, hvc] at h1
    simpa using h1
  have hbit : ∀ r, r ∈ setBits vc.lastLayer ↔
      ∃ p ∈ lastL, ixE n R (encodePerm p) = i ∧ rkE n R (encodePerm p) = r := by
    intro r
    rw [mem_setBits, ← hinv.last.2]
    unfold bitOf; rw [hvc]
  have hval : ∀ r, r ∈ setBits vc.lastLayer → ∃ p ∈ lastL, ixE n R (encodePerm p) = i ∧
      rkE n R (encodePerm p) = r ∧ rankToPerm R vc.chunk r = encodePerm p := by
    intro r hr
    obtain ⟨p, hp, hi, hrk⟩ := (hbit r).1 hr
    refine ⟨p, hp, hi, hrk, ?_⟩
    rw [hchunk p (hinv.last.1 p hp) hi, ← hrk]
    exact rankToPerm_rkE hR hn hR8 (hinv.last.1 p hp)
  rw [materializeBits_eq R vc.chunk vc.lastLayer hsz]
  refine ⟨?_, ?_, ?_⟩
  · intro x
    rw [List.mem_map]
    constructor
    · rintro ⟨r, hr, rfl⟩
      obtain ⟨p, hp, hi, -, e⟩ := hval r hr
      exact ⟨p, hp, hi, e⟩
    · rintro ⟨p, hp, hi, rfl⟩
      have hr : rkE n R (encodePerm p) ∈ setBits vc.lastLayer := (hbit _).2 ⟨p, hp, hi, rfl⟩
      refine ⟨_, hr, ?_⟩
      rw [hchunk p (hinv.last.1 p hp) hi]
      exact rankToPerm_rkE hR hn hR8 (hinv.last.1 p hp)
  · refine (List.pairwise_map).2 ((nodup_setBits _).imp_of_mem ?_)
    intro r1 r2 h1 h2 hne e
    obtain ⟨p1, hp1, -, hrk1, e1⟩ := hval r1 h1
    obtain ⟨p2, hp2, -, hrk2, e2⟩ := hval r2 h2
    apply hne
    rw [← hrk1, ← hrk2, ← e1, ← e2, e]
  · rw [List.length_map, ← bitCount_eq_length]
    exact ((hinv.count vc hmem).1).symm

end expand

/-- the encoded neighbours of the last-layer vertices of chunk `i` -/
def targetY (n R : Nat) (progs : List (List Cv.Codec.Stmt)) (lastL : List (List Nat)) (i : Nat) : List Nat :=
  nbrsE progs ((lastL.filter fun p => ixE n R (encodePerm p) == i).map encodePerm)

/-- `changed_on_last_step` of chunk `i` -/
def changedAt (cs : List VChunk) (i : Nat) : Bool :=
  match cs[i]? with
  | some vc => vc.changed
  | none => false

section expand2
variable {n R : Nat} (hR : R ≤ n) (hn : n ≤ 16) (hR8 : R ≤ 8)
include hR hn hR8

theorem expandStep_spec {cs : List VChunk} {blackL lastL : List (List Nat)} (hinv : Inv n R cs blackL lastL)
    {progs : List (List Cv.Codec.Stmt)} (hok : PaintsOK n R progs lastL) (hprogs : progs ≠ [])
    (cur : List VChunk) (used : Nat) (X : List Nat) (hP : Painted n R cs cur X) (i : Nat) (hi : i < cs.length) :
    ∃ cur', expandStep n R progs (cur, used) i = .ok (cur', used + if changedAt cs i then 1 else 0) ∧
      Painted n R cur cur' (targetY n R progs lastL i) := by
  have hvc : cs[i]? = some cs[i] := List.getElem?_eq_getElem hi
  generalize cs[i] = vc at hvc
  have hfz := getElem?_of_map_eq hP.frozen i
  rw [hvc] at hfz
  cases hc1 : cur[i]? with
  | none => rw [hc1] at hfz; simp at hfz
  | some c1 =>
    rw [hc1] at hfz
    simp only [Option.map_some, Option.some.injEq, frz, Prod.mk.injEq] at hfz
    obtain ⟨hchunk, -, hlast, hchg, hcnt⟩ := hfz
    obtain ⟨hm1, hm2, hm3⟩ := materialize_facts hR hn hR8 hinv i vc hvc
    have hcount := hinv.count vc (List.mem_of_getElem? hvc)
    have hca : changedAt cs i = vc.changed := by unfold changedAt; rw [hvc]
    unfold expandStep
    simp only [hc1, hchunk, hlast, hchg, hcnt]
    rw [hca]
    by_cases hch : vc.changed = true
    · have hne0 : vc.lastCount ≠ 0 := by
        intro h0
        have := hcount.2
        rw [h0, hch] at this
        simp at this
      have hpne : materializeBits R vc.chunk vc.lastLayer ≠ [] := by
        intro e; rw [e] at hm3; simp at hm3; omega
      obtain ⟨cs'', hpg, hpt⟩ := hok cur _ (hP.shape hinv.shape) hpne hm2
        (fun x hx => by obtain ⟨p, hp, -, e⟩ := (hm1 x).1 hx; exact ⟨p, hp, e⟩)
      refine ⟨cs'', ?_, ?_⟩
      · have h1 : (vc.lastCount == 0) = false := by simpa using hne0
        have h2 : ((materializeBits R vc.chunk vc.lastLayer).length != vc.lastCount) = false := by
          rw [hm3]; simp
        have h3 : progs.isEmpty = false := by
          cases progs with
          | nil => exact absurd rfl hprogs
          | cons _ _ => rfl
        simp only [hch, Bool.not_true, Bool.false_eq_true, if_false, h1, h2, h3, hpg, if_true]
      · apply hpt.congr
        intro y
        unfold targetY
        rw [mem_nbrsE, mem_nbrsE]
        constructor
        · rintro ⟨prog, hprog, x, hx, rfl⟩
          obtain ⟨p, hp, hpi, rfl⟩ := (hm1 x).1 hx
          exact ⟨prog, hprog, _, List.mem_map.2 ⟨p, List.mem_filter.2 ⟨hp, by simpa using hpi⟩, rfl⟩, rfl⟩
        · rintro ⟨prog, hprog, x, hx, rfl⟩
          obtain ⟨p, hp, rfl⟩ := List.mem_map.1 hx
          obtain ⟨hp1, hp2⟩ := List.mem_filter.1 hp
          exact ⟨prog, hprog, _, (hm1 _).2 ⟨p, hp1, by simpa using hp2, rfl⟩, rfl⟩
    · have hch' : vc.changed = false := by simpa using hch
      refine ⟨cur, ?_, ?_⟩
      · simp [hch']
      · have h0 : vc.lastCount = 0 := by
          have := hcount.2
          rw [hch'] at this
          simpa using this.symm
        have hnil : materializeBits R vc.chunk vc.lastLayer = [] := by
          apply List.length_eq_zero_iff.1; rw [hm3, h0]
        apply (Painted.refl n R cur).congr
        intro y
        unfold targetY
        rw [mem_nbrsE]
        constructor
        · intro h; cases h
        · rintro ⟨prog, _, x, hx, -⟩
          obtain ⟨p, hp, rfl⟩ := List.mem_map.1 hx
          obtain ⟨hp1, hp2⟩ := List.mem_filter.1 hp
          have := (hm1 (encodePerm p)).2 ⟨p, hp1, by simpa using hp2, rfl⟩
          rw [hnil] at this; cases this

theorem expand_prefix {cs : List VChunk} {blackL lastL : List (List Nat)} (hinv : Inv n R cs blackL lastL)
    {progs : List (List Cv.Codec.Stmt)} (hok : PaintsOK n R progs lastL) (hprogs : progs ≠ [])
    (k : Nat) (hk : k ≤ cs.length) :
    ∃ cur, (List.range k).foldlM (expandStep n R progs) (cs, 0) =
        .ok (cur, ((List.range k).filter (changedAt cs)).length) ∧
      Painted n R cs cur ((List.range k).flatMap (targetY n R progs lastL)) := by
  induction k with
  | zero => exact ⟨cs, rfl, Painted.refl n R cs⟩
  | succ k ih =>
    obtain ⟨cur, hfold, hP⟩ := ih (by omega)
    obtain ⟨cur', hstep, hP'⟩ := expandStep_spec hR hn hR8 hinv hok hprogs cur
      ((List.range k).filter (changedAt cs)).length _ hP k (by omega)
    refine ⟨cur', ?_, ?_⟩
    · rw [List.range_succ, List.foldlM_append, hfold]
      simp only [bind, Except.bind, List.foldlM_cons, List.foldlM_nil, hstep, pure, Except.pure]
      rw [List.filter_append, List.length_append]
      congr 2
      by_cases h : changedAt cs k = true
      · simp [h]
      · have : changedAt cs k = false := by simpa using h
        simp [this]
    · rw [List.range_succ, List.flatMap_append]
      simp only [List.flatMap_cons, List.flatMap_nil, List.append_nil]
      exact hP.trans hP'

end expand2

/-! ### one iteration of the main loop -/

theorem bitOf_of_frozen {cs cs' : List VChunk} (h : cs'.map frz = cs.map frz) (i r : Nat) :
    bitOf (·.black) cs' i r = bitOf (·.black) cs i r ∧ bitOf (·.lastLayer) cs' i r = bitOf (·.lastLayer) cs i r := by
  have hf := getElem?_of_map_eq h i
  unfold bitOf
  cases h1 : cs'[i]? with
  | none =>
    cases h2 : cs[i]? with
    | none => exact ⟨rfl, rfl⟩
    | some vc => rw [h1, h2] at hf; simp at hf
  | some vc' =>
    cases h2 : cs[i]? with
    | none => rw [h1, h2] at hf; simp at hf
    | some vc =>
      rw [h1, h2] at hf
      simp only [Option.map_some, Option.some.injEq, frz, Prod.mk.injEq] at hf
      obtain ⟨-, hb, hl, -, -⟩ := hf
      simp only [hb, hl, and_self]

section iter
variable {n R : Nat} (hR : R ≤ n) (hn1 : 1 ≤ n) (hn : n ≤ 16) (hR8 : R ≤ 8)
include hR hn1 hn hR8

omit hR hn1 hn hR8 in
/-- some chunk has `changed_on_last_step` iff the last layer is not empty -/
theorem changed_iff {cs : List VChunk} {blackL lastL : List (List Nat)} (hinv : Inv n R cs blackL lastL) :
    (∃ i, i < cs.length ∧ changedAt cs i = true) ↔ lastL ≠ [] := by
  constructor
  · rintro ⟨i, hi, hc⟩
    unfold changedAt at hc
    rw [List.getElem?_eq_getElem hi] at hc
    simp only at hc
    have hmem : cs[i] ∈ cs := List.getElem_mem hi
    obtain ⟨h1, h2⟩ := hinv.count _ hmem
    have hne : bitCount cs[i].lastLayer ≠ 0 := by
      rw [← h1]; intro h0; rw [h0, hc] at h2; simp at h2
    rw [bitCount_eq_length] at hne
    have hne2 : setBits cs[i].lastLayer ≠ [] := fun e => hne (by rw [e]; rfl)
    obtain ⟨r, hr⟩ := List.exists_mem_of_ne_nil _ hne2
    have hb : bitOf (·.lastLayer) cs i r = true := by
      unfold bitOf; rw [List.getElem?_eq_getElem hi]; exact (mem_setBits _ _).1 hr
    obtain ⟨p, hp, -⟩ := (hinv.last.2 i r).1 hb
    intro e; rw [e] at hp; cases hp
  · intro hne
    obtain ⟨p, hp⟩ := List.exists_mem_of_ne_nil _ hne
    have hb := (hinv.last.2 _ _).2 ⟨p, hp, rfl, rfl⟩
    unfold bitOf at hb
    cases hc : cs[ixE n R (encodePerm p)]? with
    | none => rw [hc] at hb; cases hb
    | some vc =>
      rw [hc] at hb
      have hi : ixE n R (encodePerm p) < cs.length := by
        apply Classical.byContradiction
        intro hn'; rw [List.getElem?_eq_none (by omega)] at hc; cases hc
      refine ⟨_, hi, ?_⟩
      unfold changedAt; rw [hc]
      obtain ⟨h1, h2⟩ := hinv.count vc (List.mem_of_getElem? hc)
      have hne' : bitCount vc.lastLayer ≠ 0 := by
        rw [bitCount_eq_length]
        intro h0
        have := (mem_setBits _ _).2 hb
        rw [List.length_eq_zero_iff.1 h0] at this; cases this
      show vc.changed = true
      rw [h2, h1]; simpa using hne'

theorem expandAll_spec {cs : List VChunk} {blackL lastL : List (List Nat)} (hinv : Inv n R cs blackL lastL)
    (gens : List (List Nat)) (hgens : gens ≠ []) (hgv : ∀ g ∈ gens, IsPermOf n g)
    (hok : PaintsOK n R (gens.map fun g => Cv.Codec.compile g 4 n) lastL)
    (grayL : List (List Nat)) (hgray : ∀ q, q ∈ grayL ↔ q ∈ lastL.flatMap (nbOf gens)) :
    ∃ cs1 used, expandAll n R (gens.map fun g => Cv.Codec.compile g 4 n) cs = .ok (cs1, used) ∧
      (used = 0 ↔ lastL = []) ∧ Shape n R cs1 ∧ Rep n R (·.black) cs1 blackL ∧ Rep n R (·.gray) cs1 grayL := by
  have hprogs : (gens.map fun g => Cv.Codec.compile g 4 n) ≠ [] := by
    intro e; exact hgens (List.map_eq_nil_iff.1 e)
  obtain ⟨cs1, hfold, hP⟩ := expand_prefix hR hn hR8 hinv hok hprogs cs.length (Nat.le_refl _)
  refine ⟨cs1, _, by rw [expandAll_eq]; exact hfold, ?_, hP.shape hinv.shape, ?_, ?_⟩
  · rw [List.length_eq_zero_iff, List.filter_eq_nil_iff]
    constructor
    · intro h
      apply Classical.byContradiction
      intro hne
      obtain ⟨i, hi, hc⟩ := (changed_iff hinv).2 hne
      exact h i (List.mem_range.2 hi) hc
    · intro h i hi hc
      exact (changed_iff hinv).1 ⟨i, List.mem_range.1 hi, hc⟩ h
  · refine ⟨hinv.black.1, fun i r => ?_⟩
    rw [(bitOf_of_frozen hP.frozen i r).1]
    exact hinv.black.2 i r
  · have hvalid : ∀ q ∈ grayL, IsPermOf n q := by
      intro q hq
      obtain ⟨p, hp, hqp⟩ := List.mem_flatMap.1 ((hgray q).1 hq)
      obtain ⟨g, hg, rfl⟩ := List.mem_map.1 hqp
      exact act_isPerm (hgv g hg) (hinv.last.1 p hp)
    refine ⟨hvalid, fun i r => ?_⟩
    rw [hP.gray, hinv.grayZero]
    simp only [Bool.false_eq_true, false_or]
    constructor
    · rintro ⟨x, hx, e1, e2⟩
      obtain ⟨j, _, hxj⟩ := List.mem_flatMap.1 hx
      unfold targetY at hxj
      obtain ⟨prog, hprog, y, hy, rfl⟩ := (mem_nbrsE _ _ _).1 hxj
      obtain ⟨g, hg, rfl⟩ := List.mem_map.1 hprog
      obtain ⟨p, hp, rfl⟩ := List.mem_map.1 hy
      have hp' := (List.mem_filter.1 hp).1
      have hpv := hinv.last.1 p hp'
      rw [permFunc_enc n hn1 hn g p (hgv g hg) hpv.length_eq (lt16_of_perm hR hn hpv)] at e1 e2
      refine ⟨act g p, (hgray _).2 (List.mem_flatMap.2 ⟨p, hp', List.mem_map.2 ⟨g, hg, rfl⟩⟩), e1, e2⟩
    · rintro ⟨q, hq, e1, e2⟩
      obtain ⟨p, hp, hqp⟩ := List.mem_flatMap.1 ((hgray q).1 hq)
      obtain ⟨g, hg, rfl⟩ := List.mem_map.1 hqp
      have hpv := hinv.last.1 p hp
      have hpi : ixE n R (encodePerm p) < cs.length := by
        have := ixE_lt hR hn hpv
        rwa [← hinv.shape.chunks, List.length_map] at this
      refine ⟨encodePerm (act g p), ?_, e1, e2⟩
      apply List.mem_flatMap.2
      refine ⟨ixE n R (encodePerm p), List.mem_range.2 hpi, ?_⟩
      unfold targetY
      rw [mem_nbrsE]
      refine ⟨Cv.Codec.compile g 4 n, List.mem_map.2 ⟨g, hg, rfl⟩, encodePerm p,
        List.mem_map.2 ⟨p, List.mem_filter.2 ⟨hp, by simp⟩, rfl⟩, ?_⟩
      rw [permFunc_enc n hn1 hn g p (hgv g hg) hpv.length_eq (lt16_of_perm hR hn hpv)]

end iter

/-! ### the main loop refines the abstract gray/black bit-set BFS -/

theorem bfsLoop_zero (n R : Nat) (progs : List (List Cv.Codec.Stmt)) (cs : List VChunk) (sizes : List Nat) :
    bfsLoop n R progs 0 cs sizes = .ok sizes := rfl

theorem bfsLoop_succ (n R : Nat) (progs : List (List Cv.Codec.Stmt)) (fuel : Nat) (cs : List VChunk)
    (sizes : List Nat) :
    bfsLoop n R progs (fuel + 1) cs sizes =
      match expandAll n R progs cs with
      | .error e => .error e
      | .ok (chunks, used) =>
        if used == 0 then .ok sizes else
        if ((chunks.map flushChunk).map (·.lastCount)).sum == 0 then .ok sizes
        else bfsLoop n R progs fuel (chunks.map flushChunk)
          (sizes ++ [((chunks.map flushChunk).map (·.lastCount)).sum]) := rfl

section newLayer
variable {α : Type} [DecidableEq α]

/-- the next layer of the abstract bit-set BFS -/
def newLayer (nb : α → List α) (black last : List α) : List α :=
  ((last.flatMap nb).eraseDups).filter fun x => !black.contains x

theorem bitsetLoop_succ' (nb : α → List α) (fuel : Nat) (black last : List α) (sizes : List Nat) :
    Cv.bitsetLoop nb (fuel + 1) black last sizes =
      if last.isEmpty then sizes else
      if (newLayer nb black last).isEmpty then sizes
      else Cv.bitsetLoop nb fuel (black ++ newLayer nb black last) (newLayer nb black last)
        (sizes ++ [(newLayer nb black last).length]) := rfl

theorem mem_newLayer (nb : α → List α) (black last : List α) (x : α) :
    x ∈ newLayer nb black last ↔ x ∈ last.flatMap nb ∧ x ∉ black := by
  simp [newLayer, List.mem_filter]

theorem nodup_newLayer (nb : α → List α) (black last : List α) : (newLayer nb black last).Nodup :=
  (Cv.nodup_eraseDups' _).sublist List.filter_sublist

theorem length_newLayer_le (nb : α → List α) (black last : List α) :
    (newLayer nb black last).length ≤ (last.flatMap nb).length := by
  apply (nodup_newLayer nb black last).length_le_of_subset
  intro x hx
  exact ((mem_newLayer nb black last x).1 hx).1

end newLayer

section loop
variable {n R : Nat} (hR : R ≤ n) (hn1 : 1 ≤ n) (hn : n ≤ 16) (hR8 : R ≤ 8)
include hR hn1 hn hR8

/-- `Good` is any property of the last layer that makes painting succeed and is inherited by the next layer -/
theorem loop_sim (gens : List (List Nat)) (hgens : gens ≠ []) (hgv : ∀ g ∈ gens, IsPermOf n g)
    (Good : List (List Nat) → Prop)
    (hGoodOK : ∀ L, (∀ p ∈ L, IsPermOf n p) → Good L → PaintsOK n R (gens.map fun g => Cv.Codec.compile g 4 n) L)
    (hGoodStep : ∀ blackL lastL : List (List Nat), Good lastL → Good (newLayer (nbOf gens) blackL lastL))
    (fuel : Nat) : ∀ (cs : List VChunk) (blackL lastL : List (List Nat)) (sizes : List Nat),
      Inv n R cs blackL lastL → Good lastL →
      bfsLoop n R (gens.map fun g => Cv.Codec.compile g 4 n) fuel cs sizes =
        .ok (Cv.bitsetLoop (nbOf gens) fuel blackL lastL sizes) := by
  induction fuel with
  | zero => intro cs blackL lastL sizes _ _; rfl
  | succ fuel ih =>
    intro cs blackL lastL sizes hinv hgood
    rw [bfsLoop_succ, bitsetLoop_succ']
    obtain ⟨cs1, used, hexp, hused, hshape, hblack, hgray⟩ :=
      expandAll_spec hR hn1 hn hR8 hinv gens hgens hgv (hGoodOK lastL hinv.last.1 hgood)
        (lastL.flatMap (nbOf gens)) (fun q => Iff.rfl)
    rw [hexp]
    simp only []
    by_cases hl : lastL = []
    · have : used = 0 := hused.2 hl
      subst hl
      simp [this]
    · have hu : used ≠ 0 := fun h => hl (hused.1 h)
      have hemp : lastL.isEmpty = false := by
        cases lastL with
        | nil => exact absurd rfl hl
        | cons _ _ => rfl
      rw [if_neg (by simpa using hu), hemp]
      simp only [Bool.false_eq_true, if_false]
      obtain ⟨hinv2, hsum⟩ := flush_spec hR hn hR8 hshape hblack hgray
        (newL := newLayer (nbOf gens) blackL lastL) (mem_newLayer _ _ _) (nodup_newLayer _ _ _)
      rw [hsum]
      generalize hnew : newLayer (nbOf gens) blackL lastL = newL at hinv2 hsum ⊢
      by_cases hne : newL = []
      · subst hne; simp
      · have h1 : (newL.length == 0) = false := by
          cases newL with
          | nil => exact absurd rfl hne
          | cons _ _ => simp
        have h2 : newL.isEmpty = false := by
          cases newL with
          | nil => exact absurd rfl hne
          | cons _ _ => rfl
        rw [h1, h2]
        simp only [Bool.false_eq_true, if_false]
        apply ih _ _ _ _ hinv2
        rw [← hnew]
        exact hGoodStep blackL lastL hgood

end loop

/-! ### when painting succeeds -/

section paintsOK
variable {n R : Nat} (hR : R ≤ n) (hn1 : 1 ≤ n) (hn : n ≤ 16) (hR8 : R ≤ 8)
include hR hn1 hn hR8

omit hR8 in
theorem valid_nbrs (gens : List (List Nat)) (hgv : ∀ g ∈ gens, IsPermOf n g) (lastL : List (List Nat))
    (hv : ∀ p ∈ lastL, IsPermOf n p) (perms : List Nat) (hperms : ∀ x ∈ perms, ∃ p ∈ lastL, x = encodePerm p) :
    ∀ y ∈ nbrsE (gens.map fun g => Cv.Codec.compile g 4 n) perms, ValidE n y := by
  intro y hy
  obtain ⟨prog, hprog, x, hx, rfl⟩ := (mem_nbrsE _ _ _).1 hy
  obtain ⟨g, hg, rfl⟩ := List.mem_map.1 hprog
  obtain ⟨p, hp, rfl⟩ := hperms x hx
  have hpv := hv p hp
  rw [permFunc_enc n hn1 hn g p (hgv g hg) hpv.length_eq (lt16_of_perm hR hn hpv)]
  exact ⟨act g p, act_isPerm (hgv g hg) hpv, rfl⟩

/-- two generators that differ at a trailing position: painting always succeeds -/
theorem paintsOK_of_trailing (gens : List (List Nat)) (hgv : ∀ g ∈ gens, IsPermOf n g)
    (g g' : List Nat) (hg : g ∈ gens) (hg' : g' ∈ gens) (i : Nat) (hRi : R ≤ i) (hi : i < n)
    (hne : g.getD i 0 ≠ g'.getD i 0) (lastL : List (List Nat)) (hv : ∀ p ∈ lastL, IsPermOf n p) :
    PaintsOK n R (gens.map fun g => Cv.Codec.compile g 4 n) lastL := by
  intro cs' perms hs hpne _ hperms
  have hval := valid_nbrs hR hn1 hn gens hgv lastL hv perms hperms
  obtain ⟨x0, hx0⟩ := List.exists_mem_of_ne_nil _ hpne
  obtain ⟨p0, hp0, rfl⟩ := hperms x0 hx0
  have hpv := hv p0 hp0
  have hy1 : permFunc (Cv.Codec.compile g 4 n) (encodePerm p0) ∈
      nbrsE (gens.map fun g => Cv.Codec.compile g 4 n) perms :=
    (mem_nbrsE _ _ _).2 ⟨_, List.mem_map.2 ⟨g, hg, rfl⟩, _, hx0, rfl⟩
  have hy2 : permFunc (Cv.Codec.compile g' 4 n) (encodePerm p0) ∈
      nbrsE (gens.map fun g => Cv.Codec.compile g 4 n) perms :=
    (mem_nbrsE _ _ _).2 ⟨_, List.mem_map.2 ⟨g', hg', rfl⟩, _, hx0, rfl⟩
  have hkne : chunkOf n R (permFunc (Cv.Codec.compile g 4 n) (encodePerm p0)) ≠
      chunkOf n R (permFunc (Cv.Codec.compile g' 4 n) (encodePerm p0)) := by
    rw [permFunc_enc n hn1 hn g p0 (hgv g hg) hpv.length_eq (lt16_of_perm hR hn hpv),
      permFunc_enc n hn1 hn g' p0 (hgv g' hg') hpv.length_eq (lt16_of_perm hR hn hpv)]
    exact chunk_ne_of_trailing hn (hgv g hg) (hgv g' hg') hpv i hRi hi hne
  apply paintGray_many hR hn hR8 hs _ _ hval ⟨_, hy1, _, hy2, hkne⟩
  intro hlen
  obtain ⟨y, hy⟩ := List.length_eq_one_iff.1 hlen
  rw [hy] at hy1 hy2
  rw [List.mem_singleton.1 hy1, List.mem_singleton.1 hy2] at hkne
  exact hkne rfl

/-- a single generator and a last layer with at most one vertex: the first branch of `paint_gray` is taken -/
theorem paintsOK_of_single (g : List Nat) (hg : IsPermOf n g) (lastL : List (List Nat))
    (hv : ∀ p ∈ lastL, IsPermOf n p) (hlen : lastL.length ≤ 1) :
    PaintsOK n R ([g].map fun g => Cv.Codec.compile g 4 n) lastL := by
  intro cs' perms hs hpne hnd hperms
  have hval := valid_nbrs hR hn1 hn [g] (by intro g' hg'; rw [List.mem_singleton.1 hg']; exact hg) lastL hv perms
    hperms
  have hle : perms.length ≤ (lastL.map encodePerm).length := by
    apply hnd.length_le_of_subset
    intro x hx
    obtain ⟨p, hp, rfl⟩ := hperms x hx
    exact List.mem_map.2 ⟨p, hp, rfl⟩
  rw [List.length_map] at hle
  have h1 : perms.length = 1 := by
    have : perms.length ≠ 0 := fun h => hpne (List.length_eq_zero_iff.1 h)
    omega
  obtain ⟨x, rfl⟩ := List.length_eq_one_iff.1 h1
  have hnb : nbrsE ([g].map fun g => Cv.Codec.compile g 4 n) [x] = [permFunc (Cv.Codec.compile g 4 n) x] := by
    simp [nbrsE]
  rw [hnb] at hval ⊢
  exact paintGray_single hR hn hR8 hs _ (hval _ (List.mem_singleton.2 rfl))

end paintsOK

/-! ### the initial state -/

theorem shape_init (n R : Nat) : Shape n R (initChunks n R) := by
  refine ⟨initChunks_chunk n R, ?_⟩
  intro vc hvc
  unfold initChunks at hvc
  obtain ⟨s, _, rfl⟩ := List.mem_map.1 hvc
  simp [newVChunk]

theorem bitOf_init (n R : Nat) (i r : Nat) :
    bitOf (·.black) (initChunks n R) i r = false ∧ bitOf (·.gray) (initChunks n R) i r = false := by
  unfold bitOf
  cases hc : (initChunks n R)[i]? with
  | none => exact ⟨rfl, rfl⟩
  | some vc =>
    have hvc := List.mem_of_getElem? hc
    unfold initChunks at hvc
    obtain ⟨s, _, rfl⟩ := List.mem_map.1 hvc
    exact ⟨bitAt_replicate _ _, bitAt_replicate _ _⟩

theorem suffixMask_lt (n R : Nat) (hR : R ≤ n) : suffixMask n R < 2 ^ (4 * n) := by
  unfold suffixMask
  rw [Nat.shiftLeft_eq]
  have h1 : 2 ^ (4 * n) = 2 ^ (4 * (n - R)) * 2 ^ (4 * R) := by
    rw [← Nat.pow_add]; congr 1; omega
  rw [h1]
  apply Nat.mul_lt_mul_of_pos_right
  · have := Nat.pow_pos (a := 2) (n := 4 * (n - R)) (by omega); omega
  · exact Nat.pow_pos (by omega)

section main
variable {n R : Nat} (hRn : R < n) (hn : n ≤ 15) (hR8 : R ≤ 8)
include hRn hn hR8

theorem init_spec (central : List Nat) (hc : IsPermOf n central) :
    ∃ cs0, paintGray n R (initChunks n R) [encodePerm central] = .ok cs0 ∧
      Inv n R (cs0.map flushChunk) [central] [central] ∧ ((cs0.map flushChunk).map (·.lastCount)).sum = 1 := by
  have hR : R ≤ n := by omega
  have hn16 : n ≤ 16 := by omega
  obtain ⟨cs0, hpg, hP⟩ := paintGray_single hR hn16 hR8 (shape_init n R) (encodePerm central) ⟨central, hc, rfl⟩
  have hblack : Rep n R (·.black) cs0 [] := by
    refine ⟨fun p hp => absurd hp List.not_mem_nil, fun i r => ?_⟩
    rw [(bitOf_of_frozen hP.frozen i r).1, (bitOf_init n R i r).1]
    simp
  have hgray : Rep n R (·.gray) cs0 [central] := by
    refine ⟨fun p hp => by rw [List.mem_singleton.1 hp]; exact hc, fun i r => ?_⟩
    rw [hP.gray, (bitOf_init n R i r).2]
    simp
  obtain ⟨hinv, hsum⟩ := flush_spec hR hn16 hR8 (hP.shape (shape_init n R)) hblack hgray (newL := [central])
    (by intro q; simp) (by simp)
  exact ⟨cs0, hpg, by simpa using hinv, by simpa using hsum⟩

theorem bfsBitmask_unfold (gens : List (List Nat)) (central : List Nat) (hc : IsPermOf n central) (D : Nat) :
    bfsBitmask n R gens central D =
      match paintGray n R (initChunks n R) [encodePerm central] with
      | .error e => .error e
      | .ok chunks =>
        bfsLoop n R (gens.map fun g => Cv.Codec.compile g 4 n) D (chunks.map flushChunk)
          [((chunks.map flushChunk).map (·.lastCount)).sum] := by
  have h1 : (!decide (n > R)) = false := by simp [hRn]
  have h2 : (Cv.Codec.encLen 4 n != 1) = false := by
    have : Cv.Codec.encLen 4 n = 1 := by unfold Cv.Codec.encLen; omega
    simp [this]
  have h3 : (central.length != n || !Cv.Perm.isPerm central) = false := by
    have : Cv.Perm.isPerm central = true := by rw [isPerm_iff, hc.length_eq]; exact hc
    simp [hc.length_eq, this]
  have h4 : (decide (encodePerm central ≥ 2 ^ 63) || decide (suffixMask n R ≥ 2 ^ 63)) = false := by
    have hx : encodePerm central < 2 ^ (4 * n) := validE_lt (by omega) ⟨central, hc, rfl⟩
    have hm := suffixMask_lt n R (by omega)
    have hpow : 2 ^ (4 * n) ≤ 2 ^ 63 := Nat.pow_le_pow_right (by omega) (by omega)
    have e1 : ¬ encodePerm central ≥ 2 ^ 63 := by omega
    have e2 : ¬ suffixMask n R ≥ 2 ^ 63 := by omega
    simp [e1, e2]
  unfold bfsBitmask
  simp only [h1, h2, h3, h4, Bool.false_eq_true, if_false]
  cases paintGray n R (initChunks n R) [encodePerm central] <;> rfl

/-- the engine computes what the abstract bit-set BFS computes, on the domain where the source does not raise -/
theorem bfsBitmask_ok (gens : List (List Nat)) (hgv : ∀ g ∈ gens, IsPermOf n g) (central : List Nat)
    (hc : IsPermOf n central) (D : Nat)
    (hdom : D = 0 ∨ gens.length = 1 ∨
      ∃ g ∈ gens, ∃ g' ∈ gens, ∃ i, R ≤ i ∧ i < n ∧ g.getD i 0 ≠ g'.getD i 0) :
    bfsBitmask n R gens central D = .ok (Cv.bfsBitset (nbOf gens) central D) := by
  have hR : R ≤ n := by omega
  have hn1 : 1 ≤ n := by omega
  have hn16 : n ≤ 16 := by omega
  obtain ⟨cs0, hpg, hinv, hsum⟩ := init_spec hRn hn hR8 central hc
  rw [bfsBitmask_unfold hRn hn hR8 gens central hc D, hpg]
  simp only [hsum]
  unfold Cv.bfsBitset
  rcases hdom with rfl | hone | ⟨g, hg, g', hg', i, hRi, hi, hne⟩
  · rfl
  · obtain ⟨g, rfl⟩ := List.length_eq_one_iff.1 hone
    have hg : IsPermOf n g := hgv g (List.mem_singleton.2 rfl)
    apply loop_sim hR hn1 hn16 hR8 [g] (by simp) hgv (fun L => L.length ≤ 1)
      (fun L hv hL => paintsOK_of_single hR hn1 hn16 hR8 g hg L hv hL) _ D _ _ _ _ hinv (by simp)
    intro blackL lastL hL
    have h1 := length_newLayer_le (nbOf [g]) blackL lastL
    have h2 : (lastL.flatMap (nbOf [g])).length = lastL.length := by
      rw [List.length_flatMap]
      have : (lastL.map fun a => (nbOf [g] a).length) = lastL.map fun _ => 1 := by
        apply List.map_congr_left; intro a _; simp [nbOf]
      rw [this]
      clear this h1 hL
      induction lastL with
      | nil => rfl
      | cons a t ih => rw [List.map_cons, List.sum_cons, ih, List.length_cons]; omega
    omega
  · have hgens : gens ≠ [] := by intro e; rw [e] at hg; cases hg
    apply loop_sim hR hn1 hn16 hR8 gens hgens hgv (fun L => ∀ p ∈ L, IsPermOf n p)
      (fun L hv _ => paintsOK_of_trailing hR hn1 hn16 hR8 gens hgv g g' hg hg' i hRi hi hne L hv) _ D _ _ _ _ hinv
      (by intro p hp; rw [List.mem_singleton.1 hp]; exact hc)
    intro blackL lastL hL p hp
    obtain ⟨q, hq, hpq⟩ := List.mem_flatMap.1 ((mem_newLayer _ _ _ _).1 hp).1
    obtain ⟨g1, hg1, rfl⟩ := List.mem_map.1 hpq
    exact act_isPerm (hgv g1 hg1) (hL q hq)

end main

/-! ### where the source raises -/

theorem foldlM_error {σ β : Type} (f : σ → β → Except BfsError σ) (init st : σ) (l1 l2 : List β) (a : β)
    (e : BfsError) (h1 : l1.foldlM f init = .ok st) (h2 : f st a = .error e) :
    (l1 ++ a :: l2).foldlM f init = .error e := by
  rw [List.foldlM_append, h1]
  simp only [bind, Except.bind, List.foldlM_cons, h2]

theorem flatMap_single {α β : Type} (l : List α) (f : α → β) : l.flatMap (fun a => [f a]) = l.map f := by
  induction l with
  | nil => rfl
  | cons a t ih => rw [List.flatMap_cons, ih]; rfl

theorem expandStep_unchanged (n R : Nat) (progs : List (List Cv.Codec.Stmt)) (cs : List VChunk) (u i : Nat)
    (h : changedAt cs i = false) : expandStep n R progs (cs, u) i = .ok (cs, u) := by
  unfold expandStep changedAt at *
  cases hc : cs[i]? with
  | none => rfl
  | some vc =>
    rw [hc] at h
    simp only at h
    simp [h]

theorem expand_prefix_unchanged (n R : Nat) (progs : List (List Cv.Codec.Stmt)) (cs : List VChunk) (k : Nat)
    (h : ∀ i, i < k → changedAt cs i = false) :
    (List.range k).foldlM (expandStep n R progs) (cs, 0) = .ok (cs, 0) := by
  induction k with
  | zero => rfl
  | succ k ih =>
    rw [List.range_succ, List.foldlM_append, ih (fun i hi => h i (by omega))]
    simp only [bind, Except.bind, List.foldlM_cons, List.foldlM_nil,
      expandStep_unchanged n R progs cs 0 k (h k (by omega))]
    rfl

/-- generators that agree on all trailing positions send a state into one chunk -/
theorem chunk_eq_of_agree {n R : Nat} (hn : n ≤ 16) {g g' s : List Nat} (hg : IsPermOf n g)
    (hg' : IsPermOf n g') (hs : IsPermOf n s) (hagree : ∀ i, R ≤ i → i < n → g.getD i 0 = g'.getD i 0) :
    chunkOf n R (encodePerm (act g s)) = chunkOf n R (encodePerm (act g' s)) := by
  rw [chunkOf_eq_iff' n R _ _ (act_isPerm hg hs) (act_isPerm hg' hs) hn]
  have hl : (act g s).length = n := (act_isPerm hg hs).length_eq
  have hl' : (act g' s).length = n := (act_isPerm hg' hs).length_eq
  apply List.ext_getElem
  · rw [List.length_drop, List.length_drop, hl, hl']
  · intro j h1 h2
    rw [List.length_drop, hl] at h1
    rw [List.getElem_drop, List.getElem_drop]
    have e1 := getD_act (s := s) hg (R + j) (by omega)
    have e2 := getD_act (s := s) hg' (R + j) (by omega)
    rw [getD_eq_getElem (by omega)] at e1 e2
    rw [e1, e2, hagree (R + j) (by omega) (by omega)]

section errors
variable {n R : Nat} (hRn : R < n) (hn : n ≤ 15) (hR8 : R ≤ 8)
include hRn hn hR8

/-- the first iteration raises: no generators (`np.hstack([])`), or at least two generators that agree on all trailing
positions (`group_starts[-1]` on an empty array) -/
theorem first_iteration_error (gens : List (List Nat)) (hgv : ∀ g ∈ gens, IsPermOf n g) (central : List Nat)
    (hc : IsPermOf n central) {cs : List VChunk} (hinv : Inv n R cs [central] [central])
    (hlen : gens.length ≠ 1)
    (hagree : ∀ g ∈ gens, ∀ g' ∈ gens, ∀ i, R ≤ i → i < n → g.getD i 0 = g'.getD i 0) :
    expandAll n R (gens.map fun g => Cv.Codec.compile g 4 n) cs =
      .error (if gens = [] then .hstackEmpty else .groupStartsEmpty) := by
  have hR : R ≤ n := by omega
  have hn1 : 1 ≤ n := by omega
  have hn16 : n ≤ 16 := by omega
  -- the chunk of the central state
  have hi0 : ixE n R (encodePerm central) < cs.length := by
    have := ixE_lt hR hn16 hc
    rwa [← hinv.shape.chunks, List.length_map] at this
  have hvc : cs[ixE n R (encodePerm central)]? = some cs[ixE n R (encodePerm central)] :=
    List.getElem?_eq_getElem hi0
  generalize cs[ixE n R (encodePerm central)] = vc at hvc
  -- all other chunks are unchanged
  have hother : ∀ i, i < cs.length → changedAt cs i = true → i = ixE n R (encodePerm central) := by
    intro i hi hch
    unfold changedAt at hch
    rw [List.getElem?_eq_getElem hi] at hch
    simp only at hch
    obtain ⟨h1, h2⟩ := hinv.count _ (List.getElem_mem hi)
    have hne : bitCount cs[i].lastLayer ≠ 0 := by
      rw [← h1]; intro h0; rw [h0, hch] at h2; simp at h2
    rw [bitCount_eq_length] at hne
    have hne2 : setBits cs[i].lastLayer ≠ [] := fun e => hne (by rw [e]; rfl)
    obtain ⟨r, hr⟩ := List.exists_mem_of_ne_nil _ hne2
    have hb : bitOf (·.lastLayer) cs i r = true := by
      unfold bitOf; rw [List.getElem?_eq_getElem hi]; exact (mem_setBits _ _).1 hr
    obtain ⟨p, hp, e, -⟩ := (hinv.last.2 i r).1 hb
    rw [List.mem_singleton.1 hp] at e
    exact e.symm
  have hchanged : changedAt cs (ixE n R (encodePerm central)) = true := by
    obtain ⟨i, hi, hch⟩ := (changed_iff hinv).2 (by simp)
    rw [← hother i hi hch]; exact hch
  have hvchg : vc.changed = true := by
    unfold changedAt at hchanged; rw [hvc] at hchanged; exact hchanged
  -- what is materialised: exactly the central state
  obtain ⟨hm1, hm2, hm3⟩ := materialize_facts hR hn16 hR8 hinv _ vc hvc
  have hcount := hinv.count vc (List.mem_of_getElem? hvc)
  have hne0 : vc.lastCount ≠ 0 := by
    intro h0
    have := hcount.2
    rw [h0, hvchg] at this
    simp at this
  have hperms : materializeBits R vc.chunk vc.lastLayer = [encodePerm central] := by
    have hsub : ∀ x ∈ materializeBits R vc.chunk vc.lastLayer, x = encodePerm central := by
      intro x hx
      obtain ⟨p, hp, -, rfl⟩ := (hm1 x).1 hx
      rw [List.mem_singleton.1 hp]
    have hin : encodePerm central ∈ materializeBits R vc.chunk vc.lastLayer :=
      (hm1 _).2 ⟨central, List.mem_singleton.2 rfl, rfl, rfl⟩
    have hle : (materializeBits R vc.chunk vc.lastLayer).length ≤ [encodePerm central].length :=
      hm2.length_le_of_subset (fun x hx => List.mem_singleton.2 (hsub x hx))
    have hpos : (materializeBits R vc.chunk vc.lastLayer).length ≠ 0 := by
      intro h0; rw [List.length_eq_zero_iff.1 h0] at hin; cases hin
    obtain ⟨y, hy⟩ := List.length_eq_one_iff.1 (by simp at hle; omega :
      (materializeBits R vc.chunk vc.lastLayer).length = 1)
    rw [hy] at hin ⊢
    rw [List.mem_singleton.1 hin]
  -- the step at this chunk raises
  have hstep : expandStep n R (gens.map fun g => Cv.Codec.compile g 4 n) (cs, 0) (ixE n R (encodePerm central)) =
      .error (if gens = [] then .hstackEmpty else .groupStartsEmpty) := by
    unfold expandStep
    have h1 : (vc.lastCount == 0) = false := by simpa using hne0
    have h2 : ((materializeBits R vc.chunk vc.lastLayer).length != vc.lastCount) = false := by
      rw [hm3]; simp
    simp only [hvc, hvchg, Bool.not_true, Bool.false_eq_true, if_false, h1, h2]
    by_cases hg0 : gens = []
    · subst hg0; rfl
    · have h3 : (gens.map fun g => Cv.Codec.compile g 4 n).isEmpty = false := by
        cases gens with
        | nil => exact absurd rfl hg0
        | cons _ _ => rfl
      rw [h3, hperms, if_neg hg0]
      simp only [Bool.false_eq_true, if_false]
      have hnb : nbrsE (gens.map fun g => Cv.Codec.compile g 4 n) [encodePerm central] =
          gens.map fun g => encodePerm (act g central) := by
        unfold nbrsE
        rw [List.flatMap_map]
        simp only [List.map_cons, List.map_nil]
        rw [flatMap_single]
        apply List.map_congr_left
        intro g hg
        exact permFunc_enc n hn1 hn16 g central (hgv g hg) hc.length_eq (lt16_of_perm hR hn16 hc)
      rw [hnb, paintGray_error]
      · simpa using hlen
      · intro x hx y hy
        obtain ⟨g, hg, rfl⟩ := List.mem_map.1 hx
        obtain ⟨g', hg', rfl⟩ := List.mem_map.1 hy
        exact chunk_eq_of_agree hn16 (hgv g hg) (hgv g' hg') hc (hagree g hg g' hg')
  rw [expandAll_eq]
  have hsplit : List.range cs.length = List.range (ixE n R (encodePerm central)) ++
      ixE n R (encodePerm central) :: (List.range' (ixE n R (encodePerm central) + 1)
        (cs.length - (ixE n R (encodePerm central) + 1))) := by
    have h1 : cs.length = (ixE n R (encodePerm central) + 1) + (cs.length - (ixE n R (encodePerm central) + 1)) := by
      omega
    conv => lhs; rw [h1, List.range_add, List.range_succ, List.append_assoc]
    congr 1
    simp [List.range'_eq_map_range]
  rw [hsplit]
  apply foldlM_error _ _ (cs, 0) _ _ _ _ _ hstep
  apply expand_prefix_unchanged
  intro i hi
  cases hch : changedAt cs i with
  | false => rfl
  | true => have := hother i (by omega) hch; omega

end errors

section errors2
variable {n R : Nat} (hRn : R < n) (hn : n ≤ 15) (hR8 : R ≤ 8)
include hRn hn hR8

/-- outside the domain of `bfsBitmask_ok` (at least one iteration, not exactly one generator, all generators agree on
the trailing positions) the source raises in the first iteration -/
theorem bfsBitmask_error (gens : List (List Nat)) (hgv : ∀ g ∈ gens, IsPermOf n g) (central : List Nat)
    (hc : IsPermOf n central) (D : Nat) (hD : 1 ≤ D) (hlen : gens.length ≠ 1)
    (hagree : ∀ g ∈ gens, ∀ g' ∈ gens, ∀ i, R ≤ i → i < n → g.getD i 0 = g'.getD i 0) :
    bfsBitmask n R gens central D = .error (if gens = [] then .hstackEmpty else .groupStartsEmpty) := by
  obtain ⟨cs0, hpg, hinv, hsum⟩ := init_spec hRn hn hR8 central hc
  rw [bfsBitmask_unfold hRn hn hR8 gens central hc D, hpg]
  obtain ⟨D', rfl⟩ : ∃ D', D = D' + 1 := ⟨D - 1, by omega⟩
  simp only []
  rw [bfsLoop_succ, first_iteration_error hRn hn hR8 gens hgv central hc hinv hlen hagree]

/-- the exact domain: the engine returns normally iff there is no iteration, or exactly one generator, or two generators
that differ at a trailing position -/
theorem bfsBitmask_ok_iff (gens : List (List Nat)) (hgv : ∀ g ∈ gens, IsPermOf n g) (central : List Nat)
    (hc : IsPermOf n central) (D : Nat) :
    (∃ sizes, bfsBitmask n R gens central D = .ok sizes) ↔
      (D = 0 ∨ gens.length = 1 ∨ ∃ g ∈ gens, ∃ g' ∈ gens, ∃ i, R ≤ i ∧ i < n ∧ g.getD i 0 ≠ g'.getD i 0) := by
  constructor
  · rintro ⟨sizes, h⟩
    apply Classical.byContradiction
    intro hno
    have hD : 1 ≤ D := by
      apply Classical.byContradiction; intro hd; exact hno (Or.inl (by omega))
    have hlen : gens.length ≠ 1 := fun hl => hno (Or.inr (Or.inl hl))
    have hagree : ∀ g ∈ gens, ∀ g' ∈ gens, ∀ i, R ≤ i → i < n → g.getD i 0 = g'.getD i 0 := by
      intro g hg g' hg' i hRi hi
      apply Classical.byContradiction
      intro hne
      exact hno (Or.inr (Or.inr ⟨g, hg, g', hg', i, hRi, hi, hne⟩))
    rw [bfsBitmask_error hRn hn hR8 gens hgv central hc D hD hlen hagree] at h
    cases h
  · intro h
    exact ⟨_, bfsBitmask_ok hRn hn hR8 gens hgv central hc D h⟩

end errors2

/-! ### outside `R < n ≤ 15` -/

/-- `assert n > R` -/
theorem bfsBitmask_le (n R : Nat) (h : n ≤ R) (gens : List (List Nat)) (central : List Nat) (D : Nat) :
    bfsBitmask n R gens central D = .error .assertion := by
  unfold bfsBitmask
  have : (!decide (n > R)) = true := by simp; omega
  simp [this]

/-- `n = 16`: `suffix_mask` does not fit int64, `perms[0] & self.suffix_mask` raises OverflowError -/
theorem bfsBitmask_16 (R : Nat) (hR : R < 16) (gens : List (List Nat)) (central : List Nat)
    (hc : IsPermOf 16 central) (D : Nat) : bfsBitmask 16 R gens central D = .error .int64Overflow := by
  have h1 : (!decide (16 > R)) = false := by simp [hR]
  have h2 : (Cv.Codec.encLen 4 16 != 1) = false := by decide
  have h3 : (central.length != 16 || !Cv.Perm.isPerm central) = false := by
    have : Cv.Perm.isPerm central = true := by rw [isPerm_iff, hc.length_eq]; exact hc
    simp [hc.length_eq, this]
  have h4 : suffixMask 16 R ≥ 2 ^ 63 := by
    have : R = 0 ∨ R = 1 ∨ R = 2 ∨ R = 3 ∨ R = 4 ∨ R = 5 ∨ R = 6 ∨ R = 7 ∨ R = 8 ∨ R = 9 ∨ R = 10 ∨ R = 11 ∨
        R = 12 ∨ R = 13 ∨ R = 14 ∨ R = 15 := by omega
    rcases this with rfl | rfl | rfl | rfl | rfl | rfl | rfl | rfl | rfl | rfl | rfl | rfl | rfl | rfl | rfl | rfl <;>
      decide
  unfold bfsBitmask
  simp only [h1, h2, h3, Bool.false_eq_true, if_false]
  simp [h4]

/-- `n ≥ 17`: the width-4 encoding needs two words, `implement_permutation_1d` asserts `encoded_length == 1` -/
theorem bfsBitmask_ge17 (n R : Nat) (hR : R < n) (hn : 17 ≤ n) (gens : List (List Nat)) (central : List Nat)
    (D : Nat) : bfsBitmask n R gens central D = .error .assertion := by
  have h1 : (!decide (n > R)) = false := by simp [hR]
  have h2 : (Cv.Codec.encLen 4 n != 1) = true := by
    have : Cv.Codec.encLen 4 n ≠ 1 := by unfold Cv.Codec.encLen; omega
    simpa using this
  unfold bfsBitmask
  simp [h1, h2]

end Cv.Bitmask
