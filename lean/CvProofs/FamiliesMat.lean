/-
  Matrix families of `CvModel/Families.lean` (`MatrixGroups`): heisenberg,
  special_linear_fundamental_roots, special_linear_root_weyl.  Core Lean only.
-/
import CvProofs.FamiliesBase
namespace Cv.Families

/-! ### entries and products of row-major matrices -/

/-- entry `(i, j)` of a row-major `n×n` matrix -/
def entry (n : Nat) (A : List Int) (i j : Nat) : Int := A.getD (i * n + j) 0

/-- the exact integer product -/
def mmul (n : Nat) (A B : List Int) : List Int :=
  matOf n 0 fun i j => ((List.range n).map fun k => entry n A i k * entry n B k j).sum

/-- the product as the library computes it for `modulo > 0` (entries reduced into `0..modulo-1`);
for `modulo = 0` the exact product (the library's int64 product agrees with it as long as nothing
overflows, which is the case for the 0/±1 matrices of these families) -/
def mmulMod (n modulo : Nat) (A B : List Int) : List Int := (mmul n A B).map (red modulo)

/-- `A` and `B` are mutually inverse modulo `modulo` -/
def InvMod (n modulo : Nat) (A B : List Int) : Prop :=
  mmulMod n modulo A B = matOf n modulo eyeFn ∧ mmulMod n modulo B A = matOf n modulo eyeFn

@[simp] theorem length_matOf (n m : Nat) (f : Nat → Nat → Int) : (matOf n m f).length = n * n := by
  simp [matOf]

theorem index_div_mod (n i j : Nat) (hj : j < n) : (i * n + j) / n = i ∧ (i * n + j) % n = j := by
  constructor
  · rw [Nat.add_comm, Nat.add_mul_div_right _ _ (by omega), Nat.div_eq_of_lt hj, Nat.zero_add]
  · rw [Nat.add_comm, Nat.add_mul_mod_self_right, Nat.mod_eq_of_lt hj]

theorem index_lt (n i j : Nat) (hi : i < n) (hj : j < n) : i * n + j < n * n := by
  have : (i + 1) * n ≤ n * n := Nat.mul_le_mul_right n hi
  rw [Nat.add_mul] at this
  omega

theorem entry_matOf (n m : Nat) (f : Nat → Nat → Int) (i j : Nat) (hi : i < n) (hj : j < n) :
    entry n (matOf n m f) i j = red m (f i j) := by
  unfold entry matOf
  have hlt := index_lt n i j hi hj
  rw [List.getD_eq_getElem?_getD, List.getElem?_map, List.getElem?_range hlt]
  simp only [Option.map_some, Option.getD_some]
  rw [(index_div_mod n i j hj).1, (index_div_mod n i j hj).2]

/-- two `matOf` matrices are equal iff their (reduced) entries agree -/
theorem matOf_congr (n m : Nat) (f g : Nat → Nat → Int)
    (h : ∀ i j, i < n → j < n → red m (f i j) = red m (g i j)) : matOf n m f = matOf n m g := by
  unfold matOf
  apply List.map_congr_left
  intro t ht
  have ht' := List.mem_range.1 ht
  have hn : 0 < n := by
    apply Nat.pos_of_ne_zero; intro e; subst e; simp at ht'
  exact h _ _ (Nat.div_lt_of_lt_mul ht') (Nat.mod_lt _ hn)

theorem red_red (m : Nat) (x : Int) : red m (red m x) = red m x := by
  unfold red; split
  · rfl
  · exact Int.emod_emod _ _

theorem red_range (m : Nat) (hm : 0 < m) (x : Int) : 0 ≤ red m x ∧ red m x < m := by
  unfold red
  rw [if_neg (by omega)]
  exact ⟨Int.emod_nonneg _ (by omega), Int.emod_lt_of_pos _ (by omega)⟩

theorem sum_mul_emod (m : Int) (l : List Nat) (a b : Nat → Int) :
    ((l.map fun k => (a k % m) * (b k % m)).sum) % m = ((l.map fun k => a k * b k).sum) % m := by
  induction l with
  | nil => rfl
  | cons x t ih =>
    simp only [List.map_cons, List.sum_cons]
    rw [Int.add_emod, ih, ← Int.mul_emod, ← Int.add_emod]

/-- product of two `matOf` matrices whose exact integer product is known -/
theorem mmulMod_matOf (n m : Nat) (f g h : Nat → Nat → Int)
    (hprod : ∀ i j, i < n → j < n → ((List.range n).map fun k => f i k * g k j).sum = h i j) :
    mmulMod n m (matOf n m f) (matOf n m g) = matOf n m h := by
  unfold mmulMod mmul
  have e : ∀ (F : Nat → Nat → Int), (matOf n 0 F).map (red m) = matOf n m F := by
    intro F; simp [matOf, red, List.map_map, Function.comp_def]
  rw [e]
  apply matOf_congr
  intro i j hi hj
  rw [← hprod i j hi hj]
  have e2 : ((List.range n).map fun k => entry n (matOf n m f) i k * entry n (matOf n m g) k j) =
      (List.range n).map fun k => red m (f i k) * red m (g k j) := by
    apply List.map_congr_left
    intro k hk
    have hk' := List.mem_range.1 hk
    rw [entry_matOf n m f i k hi hk', entry_matOf n m g k j hk' hj]
  rw [e2]
  unfold red
  split
  · rfl
  · exact sum_mul_emod m _ _ _

/-! ### sums of functions with small support -/

theorem sum_zero (n : Nat) (f : Nat → Int) (h : ∀ k, k < n → f k = 0) :
    ((List.range n).map f).sum = 0 := by
  induction n with
  | zero => rfl
  | succ n ih =>
    rw [List.range_succ, List.map_append, List.sum_append_int, ih (fun k hk => h k (by omega))]
    simp [h n (by omega)]

theorem sum_single (n j : Nat) (f : Nat → Int) (hj : j < n) (h : ∀ k, k < n → k ≠ j → f k = 0) :
    ((List.range n).map f).sum = f j := by
  induction n with
  | zero => omega
  | succ n ih =>
    rw [List.range_succ, List.map_append, List.sum_append_int]
    simp only [List.map_cons, List.map_nil, List.sum_cons, List.sum_nil, Int.add_zero]
    by_cases e : j = n
    · subst e
      rw [sum_zero j f (fun k hk => h k (by omega) (by omega))]; omega
    · rw [ih (by omega) (fun k hk hne => h k (by omega) hne), h n (by omega) (fun e' => e e'.symm)]
      omega

theorem sum_add (n : Nat) (f g : Nat → Int) :
    ((List.range n).map fun k => f k + g k).sum =
      ((List.range n).map f).sum + ((List.range n).map g).sum := by
  induction n with
  | zero => rfl
  | succ n ih =>
    simp only [List.range_succ, List.map_append, List.sum_append_int, ih, List.map_cons,
      List.map_nil, List.sum_cons, List.sum_nil]
    omega

theorem sum_two (n a b : Nat) (f : Nat → Int) (ha : a < n) (hb : b < n) (hab : a ≠ b)
    (h : ∀ k, k < n → k ≠ a → k ≠ b → f k = 0) : ((List.range n).map f).sum = f a + f b := by
  have e : ((List.range n).map f) =
      (List.range n).map fun k => (if k = a then f a else 0) + (if k = a then 0 else f k) := by
    apply List.map_congr_left
    intro k _
    split <;> simp_all
  rw [e, sum_add, sum_single n a _ ha (fun k _ hne => by simp [hne]),
    sum_single n b _ hb (fun k hk hne => by
      by_cases e' : k = a
      · simp [e']
      · simp only [e', if_false]; exact h k hk e' hne)]
  simp [Ne.symm hab]

/-! ### exact products of the generator matrices -/

/-- `(I + c·E(a,b)) · (I - c·E(a,b)) = I` for `a ≠ b` -/
theorem elem_mul_elem (n a b : Nat) (c : Int) (ha : a < n) (hb : b < n) (hab : a ≠ b)
    (i j : Nat) (hi : i < n) (_hj : j < n) :
    ((List.range n).map fun k => elemFn a b c i k * elemFn a b (-c) k j).sum = eyeFn i j := by
  by_cases hia : i = a
  · subst hia
    rw [sum_two n i b _ hi hb hab (fun k _ h1 h2 => by
      simp [elemFn, eyeFn, h2, Ne.symm h1])]
    simp only [elemFn, eyeFn, true_and, and_self, if_true]
    repeat' split
    all_goals omega
  · rw [sum_single n i _ hi (fun k _ h1 => by
      simp [elemFn, eyeFn, hia, Ne.symm h1])]
    simp only [elemFn, eyeFn, if_true, if_false, hia, false_and]
    repeat' split
    all_goals omega

/-- `w · wᵀ = I` -/
theorem weyl_mul_transpose (n : Nat) (hn : 2 ≤ n) (i j : Nat) (hi : i < n) (hj : j < n) :
    ((List.range n).map fun k => weylFn n i k * weylFn n j k).sum = eyeFn i j := by
  rw [sum_single n (if i + 1 = n then 0 else i + 1) _ (by split <;> omega) (fun k hk h1 => by
    have : weylFn n i k = 0 := by
      revert h1; unfold weylFn; repeat' split
      all_goals omega
    rw [this]; simp)]
  simp only [weylFn, eyeFn]
  repeat' split
  all_goals omega

/-- `wᵀ · w = I` -/
theorem weyl_transpose_mul (n : Nat) (hn : 2 ≤ n) (i j : Nat) (hi : i < n) (hj : j < n) :
    ((List.range n).map fun k => weylFn n k i * weylFn n k j).sum = eyeFn i j := by
  rw [sum_single n (if i = 0 then n - 1 else i - 1) _ (by split <;> omega) (fun k hk h1 => by
    have : weylFn n k i = 0 := by
      revert h1; unfold weylFn; repeat' split
      all_goals omega
    rw [this]; simp)]
  simp only [weylFn, eyeFn]
  repeat' split
  all_goals omega

theorem elem_invMod (n m a b : Nat) (c : Int) (ha : a < n) (hb : b < n) (hab : a ≠ b) :
    InvMod n m (matOf n m (elemFn a b c)) (matOf n m (elemFn a b (-c))) := by
  constructor
  · exact mmulMod_matOf n m _ _ _ (elem_mul_elem n a b c ha hb hab)
  · have := mmulMod_matOf n m _ _ _ (elem_mul_elem n a b (-c) ha hb hab)
    rwa [Int.neg_neg] at this

theorem weyl_invMod (n m : Nat) (hn : 2 ≤ n) :
    InvMod n m (matOf n m (weylFn n)) (matOf n m (fun i j => weylFn n j i)) :=
  ⟨mmulMod_matOf n m _ _ _ (weyl_mul_transpose n hn), mmulMod_matOf n m _ _ _ (weyl_transpose_mul n hn)⟩

/-! ### generic facts about `matOf` generators -/

theorem matOf_wf (n m : Nat) (f : Nat → Nat → Int) :
    (matOf n m f).length = n * n ∧ (0 < m → ∀ v ∈ matOf n m f, 0 ≤ v ∧ v < (m : Int)) := by
  refine ⟨length_matOf n m f, ?_⟩
  intro hm v hv
  obtain ⟨t, _, rfl⟩ := List.mem_map.1 hv
  exact red_range m hm _

/-- well-formedness of a matrix definition: sizes, entry range, identity as central state, names -/
def MatValid (n m : Nat) (d : MatDef) : Prop :=
  d.n = n ∧ d.modulo = m ∧
  (∀ g ∈ d.gens, g.length = n * n ∧ (0 < m → ∀ v ∈ g, 0 ≤ v ∧ v < (m : Int))) ∧
  d.central = matOf n 0 eyeFn ∧ d.names.length = d.gens.length

theorem moduloOk_iff (m : Nat) : moduloOk m = true ↔ m = 0 ∨ (2 ≤ m ∧ m ≤ 2 ^ 31) := by
  simp [moduloOk]

/-- for modulo 2 the entries `+1` and `-1` coincide -/
theorem matOf_elem_neg_two (n a b : Nat) :
    matOf n 2 (elemFn a b (-1)) = matOf n 2 (elemFn a b 1) := by
  apply matOf_congr
  intro i j _ _
  simp only [elemFn, eyeFn, red]
  repeat' split
  all_goals simp_all

/-! ## heisenberg -/

theorem matFamily_heisenberg (n m : Nat) (b : Bool) :
    matFamily "heisenberg" [n, m] [b] = heisenberg n m b := rfl
theorem matFamily_heisenberg_defaults (n m : Nat) (b : Bool) :
    matFamily "heisenberg" [] [] = heisenberg 3 0 true ∧
    matFamily "heisenberg" [n] [] = heisenberg n 0 true ∧
    matFamily "heisenberg" [n, m] [] = heisenberg n m true ∧
    matFamily "heisenberg" [] [b] = heisenberg 3 0 b ∧
    matFamily "heisenberg" [n] [b] = heisenberg n 0 b := ⟨rfl, rfl, rfl, rfl, rfl⟩

/-- the `x` generators `I + c·E(0,i)` and the `y` generators `I + c·E(i,n-1)`, `i = 1..n-2` -/
def heisX (n m : Nat) (c : Int) : List (List Int) :=
  (List.range' 1 (n - 2)).map fun i => matOf n m (elemFn 0 i c)
def heisY (n m : Nat) (c : Int) : List (List Int) :=
  (List.range' 1 (n - 2)).map fun i => matOf n m (elemFn i (n - 1) c)
def heisNames (n : Nat) : List String :=
  (List.range' 1 (n - 2)).map (fun i => if n = 3 then "x" else "x" ++ showNat i) ++
  (List.range' 1 (n - 2)).map (fun i => if n = 3 then "y" else "y" ++ showNat i)

theorem heisenberg_eq (n m : Nat) (b : Bool) (d : MatDef)
    (h : matFamily "heisenberg" [n, m] [b] = some d) :
    (3 ≤ n ∧ (m = 0 ∨ (2 ≤ m ∧ m ≤ 2 ^ 31))) ∧
    d = (if b = true ∧ m ≠ 2 then
        { n := n, modulo := m
          gens := heisX n m 1 ++ heisY n m 1 ++ heisX n m (-1) ++ heisY n m (-1)
          names := heisNames n ++ (heisNames n).map (· ++ "'")
          central := matOf n 0 eyeFn
          name := "heisenberg-" ++ showNat n ++ moduloSuffix m ++ "-ic" }
      else
        { n := n, modulo := m
          gens := heisX n m 1 ++ heisY n m 1
          names := heisNames n
          central := matOf n 0 eyeFn
          name := "heisenberg-" ++ showNat n ++ moduloSuffix m }) := by
  rw [matFamily_heisenberg] at h
  unfold heisenberg at h
  split at h
  · rename_i hc
    refine ⟨⟨hc.1, (moduloOk_iff m).1 hc.2⟩, ?_⟩
    simp only at h
    split at h <;> rename_i hb
    · rw [if_pos hb]; simp only [Option.some.injEq] at h; rw [← h]; rfl
    · rw [if_neg hb]; simp only [Option.some.injEq] at h; rw [← h]; rfl
  · simp at h

theorem heisenberg_defined_iff (n m : Nat) (b : Bool) :
    (matFamily "heisenberg" [n, m] [b]).isSome ↔ 3 ≤ n ∧ (m = 0 ∨ (2 ≤ m ∧ m ≤ 2 ^ 31)) := by
  rw [matFamily_heisenberg, ← moduloOk_iff]
  unfold heisenberg
  split
  · rename_i hc
    simp only [hc.1, hc.2, and_self, iff_true]
    split <;> rfl
  · rename_i hc; simp only [Option.isSome_none, Bool.false_eq_true, false_iff]; exact hc

theorem length_heisX (n m : Nat) (c : Int) : (heisX n m c).length = n - 2 := by simp [heisX]
theorem length_heisY (n m : Nat) (c : Int) : (heisY n m c).length = n - 2 := by simp [heisY]
theorem length_heisNames (n : Nat) : (heisNames n).length = 2 * (n - 2) := by
  simp [heisNames]; omega

/-- `4(n-2)` generators with inverses, `2(n-2)` without — but also only `2(n-2)` for `modulo = 2`,
where every generator is its own inverse and `make_inverse_closed` adds nothing (the docstring says
`4(n-2)` whenever inverses are requested) -/
theorem heisenberg_count (n m : Nat) (b : Bool) (d : MatDef)
    (h : matFamily "heisenberg" [n, m] [b] = some d) :
    d.gens.length = if b = true ∧ m ≠ 2 then 4 * (n - 2) else 2 * (n - 2) := by
  obtain ⟨_, rfl⟩ := heisenberg_eq n m b d h
  split <;> simp [length_heisX, length_heisY] <;> omega

theorem mem_heis (n m : Nat) (g : List Int)
    (hg : g ∈ heisX n m 1 ++ heisY n m 1 ++ heisX n m (-1) ++ heisY n m (-1)) :
    ∃ f, g = matOf n m f := by
  simp only [List.mem_append, heisX, heisY, List.mem_map] at hg
  rcases hg with ((⟨i, _, rfl⟩ | ⟨i, _, rfl⟩) | ⟨i, _, rfl⟩) | ⟨i, _, rfl⟩ <;> exact ⟨_, rfl⟩

theorem heisenberg_valid (n m : Nat) (b : Bool) (d : MatDef)
    (h : matFamily "heisenberg" [n, m] [b] = some d) :
    d.n = n ∧ d.modulo = m ∧
    (∀ g ∈ d.gens, g.length = n * n ∧ (0 < m → ∀ v ∈ g, 0 ≤ v ∧ v < (m : Int))) ∧
    d.central = matOf n 0 eyeFn ∧ d.names.length = d.gens.length := by
  obtain ⟨_, rfl⟩ := heisenberg_eq n m b d h
  split
  · refine ⟨rfl, rfl, ?_, rfl, by simp [length_heisX, length_heisY, length_heisNames]; omega⟩
    intro g hg
    obtain ⟨f, rfl⟩ := mem_heis n m g hg
    exact matOf_wf n m f
  · refine ⟨rfl, rfl, ?_, rfl, by simp [length_heisX, length_heisY, length_heisNames]; omega⟩
    intro g hg
    obtain ⟨f, rfl⟩ := mem_heis n m g (by
      simp only [List.mem_append] at hg ⊢; exact Or.inl (Or.inl hg))
    exact matOf_wf n m f

/-- generators `x_i = I + E(0,i)`, then `y_i = I + E(i,n-1)` (`i = 1..n-2`; named `x`, `y` for `n = 3`,
`x<i>`, `y<i>` otherwise), then — with `add_inverses` and `modulo ≠ 2` — `x_i' = I - E(0,i)` and
`y_i' = I - E(i,n-1)`, named with a trailing `'`, and the graph name gets the suffix `-ic` -/
theorem heisenberg_structure (n m : Nat) (b : Bool) (d : MatDef)
    (h : matFamily "heisenberg" [n, m] [b] = some d) :
    (∀ i, 1 ≤ i → i + 2 ≤ n →
      d.gens[i - 1]? = some (matOf n m (elemFn 0 i 1)) ∧
      d.gens[(n - 2) + (i - 1)]? = some (matOf n m (elemFn i (n - 1) 1)) ∧
      d.names[i - 1]? = some (if n = 3 then "x" else "x" ++ toString i) ∧
      d.names[(n - 2) + (i - 1)]? = some (if n = 3 then "y" else "y" ++ toString i) ∧
      (b = true ∧ m ≠ 2 →
        d.gens[2 * (n - 2) + (i - 1)]? = some (matOf n m (elemFn 0 i (-1))) ∧
        d.gens[3 * (n - 2) + (i - 1)]? = some (matOf n m (elemFn i (n - 1) (-1))) ∧
        d.names[2 * (n - 2) + (i - 1)]? = some ((if n = 3 then "x" else "x" ++ toString i) ++ "'") ∧
        d.names[3 * (n - 2) + (i - 1)]? = some ((if n = 3 then "y" else "y" ++ toString i) ++ "'"))) ∧
    d.name = "heisenberg-" ++ toString n ++ (if m = 0 then "" else "%" ++ toString m) ++
      (if b = true ∧ m ≠ 2 then "-ic" else "") ∧
    (∀ a c r s : Nat, ∀ v : Int, r < n → s < n →
      entry n (matOf n m (elemFn a c v)) r s =
        red m (if r = a ∧ s = c then v else if r = s then 1 else 0)) := by
  obtain ⟨⟨hn, _⟩, rfl⟩ := heisenberg_eq n m b d h
  have hx : ∀ (c : Int) i, 1 ≤ i → i + 2 ≤ n →
      (heisX n m c)[i - 1]? = some (matOf n m (elemFn 0 i c)) := by
    intro c i h1 h2
    simp only [heisX, List.getElem?_map]
    rw [List.getElem?_range' (by omega)]
    simp only [Option.map_some, Nat.one_mul]
    rw [show 1 + (i - 1) = i by omega]
  have hy : ∀ (c : Int) i, 1 ≤ i → i + 2 ≤ n →
      (heisY n m c)[i - 1]? = some (matOf n m (elemFn i (n - 1) c)) := by
    intro c i h1 h2
    simp only [heisY, List.getElem?_map]
    rw [List.getElem?_range' (by omega)]
    simp only [Option.map_some, Nat.one_mul]
    rw [show 1 + (i - 1) = i by omega]
  have hnx : ∀ i, 1 ≤ i → i + 2 ≤ n →
      (heisNames n)[i - 1]? = some (if n = 3 then "x" else "x" ++ toString i) := by
    intro i h1 h2
    unfold heisNames
    rw [List.getElem?_append_left (by simp; omega), List.getElem?_map,
      List.getElem?_range' (by omega)]
    simp only [Option.map_some, Nat.one_mul, showNat]
    rw [show 1 + (i - 1) = i by omega]
  have hny : ∀ i, 1 ≤ i → i + 2 ≤ n →
      (heisNames n)[(n - 2) + (i - 1)]? = some (if n = 3 then "y" else "y" ++ toString i) := by
    intro i h1 h2
    unfold heisNames
    rw [List.getElem?_append_right (by simp), List.getElem?_map]
    simp only [List.length_map, List.length_range', Nat.add_sub_cancel_left]
    rw [List.getElem?_range' (by omega)]
    simp only [Option.map_some, Nat.one_mul, showNat]
    rw [show 1 + (i - 1) = i by omega]
  refine ⟨?_, ?_, ?_⟩
  · intro i h1 h2
    have lX := length_heisX n m
    have lY := length_heisY n m
    have lN := length_heisNames n
    split <;> rename_i hb
    · simp only
      refine ⟨?_, ?_, ?_, ?_, fun _ => ⟨?_, ?_, ?_, ?_⟩⟩
      · rw [List.append_assoc, List.append_assoc, List.getElem?_append_left (by rw [lX]; omega)]
        exact hx 1 i h1 h2
      · rw [List.append_assoc, List.append_assoc, List.getElem?_append_right (by rw [lX]; omega),
          lX, Nat.add_sub_cancel_left, List.getElem?_append_left (by rw [lY]; omega)]
        exact hy 1 i h1 h2
      · rw [List.getElem?_append_left (by rw [lN]; omega)]; exact hnx i h1 h2
      · rw [List.getElem?_append_left (by rw [lN]; omega)]; exact hny i h1 h2
      · rw [List.append_assoc, List.getElem?_append_right (by simp [lX, lY]; omega)]
        simp only [List.length_append, lX, lY]
        rw [show 2 * (n - 2) + (i - 1) - (n - 2 + (n - 2)) = i - 1 by omega,
          List.getElem?_append_left (by rw [lX]; omega)]
        exact hx (-1) i h1 h2
      · rw [List.getElem?_append_right (by simp [lX, lY]; omega)]
        simp only [List.length_append, lX, lY]
        rw [show 3 * (n - 2) + (i - 1) - (n - 2 + (n - 2) + (n - 2)) = i - 1 by omega]
        exact hy (-1) i h1 h2
      · rw [List.getElem?_append_right (by rw [lN]; omega), lN,
          show 2 * (n - 2) + (i - 1) - 2 * (n - 2) = i - 1 by omega, List.getElem?_map,
          hnx i h1 h2]; rfl
      · rw [List.getElem?_append_right (by rw [lN]; omega), lN,
          show 3 * (n - 2) + (i - 1) - 2 * (n - 2) = (n - 2) + (i - 1) by omega, List.getElem?_map,
          hny i h1 h2]; rfl
    · simp only
      refine ⟨?_, ?_, hnx i h1 h2, hny i h1 h2, fun hb' => absurd hb' hb⟩
      · rw [List.getElem?_append_left (by rw [lX]; omega)]; exact hx 1 i h1 h2
      · rw [List.getElem?_append_right (by rw [lX]; omega), lX, Nat.add_sub_cancel_left]
        exact hy 1 i h1 h2
  · split <;> simp [moduloSuffix, showNat]
  · intro a c r s v hr hs
    rw [entry_matOf n m _ r s hr hs]; rfl

/-- with `add_inverses` the generator list is closed under inversion: generator `t + 2(n-2)` is the
inverse of generator `t` (modulo `modulo`); for `modulo = 2` every generator is its own inverse -/
theorem heisenberg_inverses (n m : Nat) (b : Bool) (d : MatDef)
    (h : matFamily "heisenberg" [n, m] [b] = some d) :
    (b = true ∧ m ≠ 2 → ∀ t, t < 2 * (n - 2) →
      ∃ g g', d.gens[t]? = some g ∧ d.gens[t + 2 * (n - 2)]? = some g' ∧ InvMod n m g g') ∧
    (m = 2 → ∀ g ∈ d.gens, InvMod n m g g) := by
  obtain ⟨⟨hn, _⟩, rfl⟩ := heisenberg_eq n m b d h
  have lX := length_heisX n m
  have lY := length_heisY n m
  constructor
  · intro hb t ht
    rw [if_pos hb]
    simp only
    by_cases htx : t < n - 2
    · refine ⟨matOf n m (elemFn 0 (t + 1) 1), matOf n m (elemFn 0 (t + 1) (-1)), ?_, ?_,
        elem_invMod n m 0 (t + 1) 1 (by omega) (by omega) (by omega)⟩
      · rw [List.append_assoc, List.append_assoc, List.getElem?_append_left (by rw [lX]; omega)]
        simp only [heisX, List.getElem?_map]
        rw [List.getElem?_range' (by omega)]
        simp only [Option.map_some, Nat.one_mul]
        rw [Nat.add_comm]
      · rw [List.append_assoc, List.getElem?_append_right (by simp [lX, lY]; omega)]
        simp only [List.length_append, lX, lY]
        rw [show t + 2 * (n - 2) - (n - 2 + (n - 2)) = t by omega,
          List.getElem?_append_left (by rw [lX]; omega)]
        simp only [heisX, List.getElem?_map]
        rw [List.getElem?_range' (by omega)]
        simp only [Option.map_some, Nat.one_mul]
        rw [Nat.add_comm]
    · refine ⟨matOf n m (elemFn (t - (n - 2) + 1) (n - 1) 1),
        matOf n m (elemFn (t - (n - 2) + 1) (n - 1) (-1)), ?_, ?_,
        elem_invMod n m (t - (n - 2) + 1) (n - 1) 1 (by omega) (by omega) (by omega)⟩
      · rw [List.append_assoc, List.append_assoc, List.getElem?_append_right (by rw [lX]; omega),
          lX, List.getElem?_append_left (by rw [lY]; omega)]
        simp only [heisY, List.getElem?_map]
        rw [List.getElem?_range' (by omega)]
        simp only [Option.map_some, Nat.one_mul]
        rw [Nat.add_comm]
      · rw [List.getElem?_append_right (by simp [lX, lY]; omega)]
        simp only [List.length_append, lX, lY]
        rw [show t + 2 * (n - 2) - (n - 2 + (n - 2) + (n - 2)) = t - (n - 2) by omega]
        simp only [heisY, List.getElem?_map]
        rw [List.getElem?_range' (by omega)]
        simp only [Option.map_some, Nat.one_mul]
        rw [Nat.add_comm]
  · intro hm g hg
    subst hm
    rw [if_neg (by simp)] at hg
    simp only [List.mem_append, heisX, heisY, List.mem_map, List.mem_range'_1] at hg
    rcases hg with ⟨i, hi, rfl⟩ | ⟨i, hi, rfl⟩
    · have := elem_invMod n 2 0 i 1 (by omega) (by omega) (by omega)
      rwa [matOf_elem_neg_two] at this
    · have := elem_invMod n 2 i (n - 1) 1 (by omega) (by omega) (by omega)
      rwa [matOf_elem_neg_two] at this

/-! ## special_linear_fundamental_roots -/

theorem matFamily_slFundRoots (n m : Nat) :
    matFamily "special_linear_fundamental_roots" [n, m] = slFundRoots n m := rfl
theorem matFamily_slFundRoots_default (n : Nat) :
    matFamily "special_linear_fundamental_roots" [n] =
      matFamily "special_linear_fundamental_roots" [n, 0] := rfl

theorem slFundRoots_eq (n m : Nat) (d : MatDef)
    (h : matFamily "special_linear_fundamental_roots" [n, m] = some d) :
    (2 ≤ n ∧ (m = 0 ∨ (2 ≤ m ∧ m ≤ 2 ^ 31))) ∧
    d = { n := n, modulo := m
          gens := (List.range (n - 1)).flatMap fun k =>
            [matOf n m (elemFn k (k + 1) 1), matOf n m (elemFn k (k + 1) (-1)),
             matOf n m (elemFn (k + 1) k 1), matOf n m (elemFn (k + 1) k (-1))]
          names := (List.range (n - 1)).flatMap fun k =>
            [s!"e{k + 1}", s!"e{k + 1}'", s!"f{k + 1}", s!"f{k + 1}'"]
          central := matOf n 0 eyeFn
          name := "sl_fund_roots-" ++ showNat n ++ moduloSuffix m } := by
  rw [matFamily_slFundRoots] at h
  unfold slFundRoots at h
  split at h
  · rename_i hc
    simp only [Option.some.injEq] at h
    exact ⟨⟨hc.1, (moduloOk_iff m).1 hc.2⟩, h.symm⟩
  · simp at h

theorem sl_fund_roots_defined_iff (n m : Nat) :
    (matFamily "special_linear_fundamental_roots" [n, m]).isSome ↔
      2 ≤ n ∧ (m = 0 ∨ (2 ≤ m ∧ m ≤ 2 ^ 31)) := by
  rw [matFamily_slFundRoots, ← moduloOk_iff]
  unfold slFundRoots
  split <;> simp_all

/-- `4(n-1)` generators -/
theorem sl_fund_roots_count (n m : Nat) (d : MatDef)
    (h : matFamily "special_linear_fundamental_roots" [n, m] = some d) :
    d.gens.length = 4 * (n - 1) := by
  obtain ⟨_, rfl⟩ := slFundRoots_eq n m d h
  simp only [List.length_flatMap, List.length_cons, List.length_nil, List.map_const',
    List.length_range, List.sum_replicate_nat]
  omega

theorem sl_fund_roots_valid (n m : Nat) (d : MatDef)
    (h : matFamily "special_linear_fundamental_roots" [n, m] = some d) :
    d.n = n ∧ d.modulo = m ∧
    (∀ g ∈ d.gens, g.length = n * n ∧ (0 < m → ∀ v ∈ g, 0 ≤ v ∧ v < (m : Int))) ∧
    d.central = matOf n 0 eyeFn ∧ d.names.length = d.gens.length := by
  obtain ⟨_, rfl⟩ := slFundRoots_eq n m d h
  refine ⟨rfl, rfl, ?_, rfl, ?_⟩
  · intro g hg
    simp only [List.mem_flatMap, List.mem_cons, List.not_mem_nil, or_false] at hg
    obtain ⟨k, _, rfl | rfl | rfl | rfl⟩ := hg <;> exact matOf_wf n m _
  · simp only [List.length_flatMap, List.length_cons, List.length_nil]

/-- the generators are, for `k = 1..n-1` in this order: the fundamental root element
`e_k = I + E(k-1,k)`, its inverse `e_k' = I - E(k-1,k)`, `f_k = I + E(k,k-1)` and `f_k' = I - E(k,k-1)` -/
theorem sl_fund_roots_structure (n m : Nat) (d : MatDef)
    (h : matFamily "special_linear_fundamental_roots" [n, m] = some d) :
    d.gens = (List.range (n - 1)).flatMap (fun k =>
      [matOf n m (elemFn k (k + 1) 1), matOf n m (elemFn k (k + 1) (-1)),
       matOf n m (elemFn (k + 1) k 1), matOf n m (elemFn (k + 1) k (-1))]) ∧
    d.names = (List.range (n - 1)).flatMap (fun k =>
      ["e" ++ toString (k + 1), "e" ++ toString (k + 1) ++ "'",
       "f" ++ toString (k + 1), "f" ++ toString (k + 1) ++ "'"]) ∧
    d.name = "sl_fund_roots-" ++ toString n ++ (if m = 0 then "" else "%" ++ toString m) ∧
    (∀ a c r s : Nat, ∀ v : Int, r < n → s < n →
      entry n (matOf n m (elemFn a c v)) r s =
        red m (if r = a ∧ s = c then v else if r = s then 1 else 0)) := by
  obtain ⟨_, rfl⟩ := slFundRoots_eq n m d h
  refine ⟨rfl, rfl, rfl, ?_⟩
  intro a c r s v hr hs
  rw [entry_matOf n m _ r s hr hs]; rfl

/-- the primed generators are the inverses (modulo `modulo`) of the unprimed ones: the set is
inverse-closed -/
theorem sl_fund_roots_inverses (n m : Nat) (d : MatDef)
    (_h : matFamily "special_linear_fundamental_roots" [n, m] = some d) :
    ∀ k, k + 1 < n →
      InvMod n m (matOf n m (elemFn k (k + 1) 1)) (matOf n m (elemFn k (k + 1) (-1))) ∧
      InvMod n m (matOf n m (elemFn (k + 1) k 1)) (matOf n m (elemFn (k + 1) k (-1))) := by
  intro k hk
  exact ⟨elem_invMod n m k (k + 1) 1 (by omega) hk (by omega),
    elem_invMod n m (k + 1) k 1 hk (by omega) (by omega)⟩

/-! ## special_linear_root_weyl -/

theorem matFamily_slRootWeyl (n m : Nat) :
    matFamily "special_linear_root_weyl" [n, m] = slRootWeyl n m := rfl
theorem matFamily_slRootWeyl_default (n : Nat) :
    matFamily "special_linear_root_weyl" [n] = matFamily "special_linear_root_weyl" [n, 0] := rfl

theorem slRootWeyl_eq (n m : Nat) (d : MatDef)
    (h : matFamily "special_linear_root_weyl" [n, m] = some d) :
    (2 ≤ n ∧ (m = 0 ∨ (2 ≤ m ∧ m ≤ 2 ^ 31))) ∧
    d = { n := n, modulo := m
          gens := [matOf n m (elemFn 0 1 1), matOf n m (elemFn 0 1 (-1)),
                   matOf n m (weylFn n), matOf n m (fun i j => weylFn n j i)]
          names := ["e", "e'", "w", "w'"]
          central := matOf n 0 eyeFn
          name := "sl_root_weyl-" ++ showNat n ++ moduloSuffix m } := by
  rw [matFamily_slRootWeyl] at h
  unfold slRootWeyl at h
  split at h
  · rename_i hc
    simp only [Option.some.injEq] at h
    exact ⟨⟨hc.1, (moduloOk_iff m).1 hc.2⟩, h.symm⟩
  · simp at h

theorem sl_root_weyl_defined_iff (n m : Nat) :
    (matFamily "special_linear_root_weyl" [n, m]).isSome ↔
      2 ≤ n ∧ (m = 0 ∨ (2 ≤ m ∧ m ≤ 2 ^ 31)) := by
  rw [matFamily_slRootWeyl, ← moduloOk_iff]
  unfold slRootWeyl
  split <;> simp_all

theorem sl_root_weyl_count (n m : Nat) (d : MatDef)
    (h : matFamily "special_linear_root_weyl" [n, m] = some d) : d.gens.length = 4 := by
  obtain ⟨_, rfl⟩ := slRootWeyl_eq n m d h; rfl

theorem sl_root_weyl_valid (n m : Nat) (d : MatDef)
    (h : matFamily "special_linear_root_weyl" [n, m] = some d) :
    d.n = n ∧ d.modulo = m ∧
    (∀ g ∈ d.gens, g.length = n * n ∧ (0 < m → ∀ v ∈ g, 0 ≤ v ∧ v < (m : Int))) ∧
    d.central = matOf n 0 eyeFn ∧ d.names.length = d.gens.length := by
  obtain ⟨_, rfl⟩ := slRootWeyl_eq n m d h
  refine ⟨rfl, rfl, ?_, rfl, rfl⟩
  intro g hg
  simp only [List.mem_cons, List.not_mem_nil, or_false] at hg
  rcases hg with rfl | rfl | rfl | rfl <;> exact matOf_wf n m _

/-- `e = I + E(0,1)`, `e' = I - E(0,1)`, the Weyl element `w` (ones on the superdiagonal and
`(-1)^(n-1)` in the lower left corner) and its transpose `w'` -/
theorem sl_root_weyl_structure (n m : Nat) (d : MatDef)
    (h : matFamily "special_linear_root_weyl" [n, m] = some d) :
    ∃ e e' w w', d.gens = [e, e', w, w'] ∧ d.names = ["e", "e'", "w", "w'"] ∧
      d.name = "sl_root_weyl-" ++ toString n ++ (if m = 0 then "" else "%" ++ toString m) ∧
      (∀ r s, r < n → s < n →
        entry n e r s = red m (if r = 0 ∧ s = 1 then 1 else if r = s then 1 else 0) ∧
        entry n e' r s = red m (if r = 0 ∧ s = 1 then -1 else if r = s then 1 else 0) ∧
        entry n w r s = red m (if s = r + 1 then 1
          else if r = n - 1 ∧ s = 0 then (if n % 2 = 1 then 1 else -1) else 0) ∧
        entry n w' r s = entry n w s r) := by
  obtain ⟨_, rfl⟩ := slRootWeyl_eq n m d h
  refine ⟨_, _, _, _, rfl, rfl, rfl, ?_⟩
  intro r s hr hs
  rw [entry_matOf n m _ r s hr hs, entry_matOf n m _ r s hr hs, entry_matOf n m _ r s hr hs,
    entry_matOf n m _ r s hr hs, entry_matOf n m _ s r hs hr]
  exact ⟨rfl, rfl, rfl, rfl⟩

/-- `e'` is the inverse of `e` and `w'` the inverse of `w` (modulo `modulo`): inverse-closed -/
theorem sl_root_weyl_inverses (n m : Nat) (d : MatDef)
    (h : matFamily "special_linear_root_weyl" [n, m] = some d) :
    ∃ e e' w w', d.gens = [e, e', w, w'] ∧ InvMod n m e e' ∧ InvMod n m w w' := by
  obtain ⟨⟨hn, _⟩, rfl⟩ := slRootWeyl_eq n m d h
  exact ⟨_, _, _, _, rfl, elem_invMod n m 0 1 1 (by omega) (by omega) (by omega), weyl_invMod n m hn⟩

end Cv.Families
