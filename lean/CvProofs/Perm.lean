/-
  Proofs about `CvModel/Perm.lean` (model of `cayleypy/permutation_utils.py`).  Core Lean only.
-/
import CvModel.Perm
namespace Cv.Perm

/-- p is a permutation of {0..n-1} in one-line notation -/
def IsPermOf (n : Nat) (p : List Nat) : Prop := p.length = n ∧ p.Nodup ∧ ∀ i ∈ p, i < n

instance (n : Nat) (p : List Nat) : Decidable (IsPermOf n p) := by
  unfold IsPermOf; infer_instance

/-! ### basic facts about `IsPermOf` -/

theorem IsPermOf.length_eq {n p} (h : IsPermOf n p) : p.length = n := h.1
theorem IsPermOf.nodup {n p} (h : IsPermOf n p) : p.Nodup := h.2.1
theorem IsPermOf.lt {n p} (h : IsPermOf n p) : ∀ i ∈ p, i < n := h.2.2

theorem IsPermOf.getD_lt {n p} (h : IsPermOf n p) {i : Nat} (hi : i < n) : p.getD i 0 < n := by
  obtain ⟨hl, _, hlt⟩ := h
  apply hlt
  rw [List.getD_eq_getElem?_getD, List.getElem?_eq_getElem (by omega)]
  simp

/-- pigeonhole: every value below `n` occurs in a permutation of `n` -/
theorem IsPermOf.mem_of_lt {n p} (h : IsPermOf n p) {j : Nat} (hj : j < n) : j ∈ p := by
  obtain ⟨hl, hnd, hlt⟩ := h
  apply Classical.byContradiction
  intro hnot
  have hsub : p ⊆ (List.range n).erase j := by
    intro x hx
    have hxj : x ≠ j := fun e => hnot (e ▸ hx)
    exact (List.mem_erase_of_ne hxj).2 (List.mem_range.2 (hlt x hx))
  have hle := hnd.length_le_of_subset hsub
  have : ((List.range n).erase j).length = n - 1 := by
    rw [List.length_erase]; simp [hj]
  omega

theorem isPermOf_iff_perm (n : Nat) (p : List Nat) : IsPermOf n p ↔ p.Perm (List.range n) := by
  constructor
  · intro h
    rw [List.perm_ext_iff_of_nodup h.nodup List.nodup_range]
    intro a
    constructor
    · intro ha; exact List.mem_range.2 (h.lt a ha)
    · intro ha; exact h.mem_of_lt (List.mem_range.1 ha)
  · intro h
    refine ⟨by simpa using h.length_eq, (h.nodup_iff).2 List.nodup_range, ?_⟩
    intro i hi; exact List.mem_range.1 (h.subset hi)

theorem IsPermOf.exists_index {n p} (h : IsPermOf n p) {j : Nat} (hj : j < n) :
    ∃ i, i < n ∧ p.getD i 0 = j := by
  have hm := h.mem_of_lt hj
  obtain ⟨i, hi, e⟩ := List.getElem_of_mem hm
  refine ⟨i, by rw [← h.length_eq]; exact hi, ?_⟩
  rw [List.getD_eq_getElem?_getD, List.getElem?_eq_getElem hi]; simpa using e

theorem isPerm_iff (p : List Nat) : isPerm p = true ↔ IsPermOf p.length p := by
  rw [isPermOf_iff_perm]
  unfold isPerm
  rw [beq_iff_eq]
  constructor
  · intro h
    have := List.mergeSort_perm p (fun a b => decide (a ≤ b))
    rw [h] at this
    exact this.symm
  · intro h
    have hp : (p.mergeSort (fun a b => decide (a ≤ b))).Perm (List.range p.length) :=
      (List.mergeSort_perm p _).trans h
    have hs : (p.mergeSort (fun a b => decide (a ≤ b))).Pairwise (· ≤ ·) := by
      have := List.pairwise_mergeSort (le := fun a b : Nat => decide (a ≤ b))
        (by intro a b c; simp; omega) (by intro a b; simp; omega) p
      simpa using this
    have hr : (List.range p.length).Pairwise (· ≤ ·) := by
      have := List.pairwise_lt_range (n := p.length)
      exact this.imp (fun h => Nat.le_of_lt h)
    exact hp.eq_of_pairwise (fun a b _ _ h1 h2 => Nat.le_antisymm h1 h2) hs hr


/-- the validity test used by `CayleyGraphDef.__post_init__`: `sorted(p) == range(n)` -/
theorem sort_eq_range_iff (n : Nat) (p : List Nat) :
    (p.mergeSort (fun a b => decide (a ≤ b)) == List.range n) = true ↔ IsPermOf n p := by
  constructor
  · intro h
    have hl : p.length = n := by
      have := congrArg List.length (beq_iff_eq.1 h)
      simpa using this
    subst hl
    exact (isPerm_iff p).1 h
  · intro h
    have hl := h.length_eq
    subst hl
    exact (isPerm_iff p).2 h

/-! ### `apply`, `apply?`, `compose` -/

theorem getD_eq_getElem {l : List Nat} {i : Nat} (h : i < l.length) : l.getD i 0 = l[i] := by
  rw [List.getD_eq_getElem?_getD, List.getElem?_eq_getElem h]; rfl

@[simp] theorem length_apply (p x : List Nat) : (apply p x).length = p.length := by
  simp [apply]

@[simp] theorem length_compose (p q : List Nat) : (compose p q).length = p.length := by
  simp [compose]

theorem getD_apply (p x : List Nat) {i : Nat} (hi : i < p.length) :
    (apply p x).getD i 0 = x.getD (p.getD i 0) 0 := by
  rw [getD_eq_getElem (by simpa using hi), getD_eq_getElem hi]
  simp [apply]

theorem mapM_getElem?_eq_some {β : Type} (p : List Nat) (x : List β) (d : β)
    (h : ∀ i ∈ p, i < x.length) : p.mapM (fun i => x[i]?) = some (p.map fun i => x.getD i d) := by
  induction p with
  | nil => rfl
  | cons a t ih =>
    have ha : a < x.length := h a (by simp)
    rw [List.mapM_cons, ih (fun i hi => h i (by simp [hi]))]
    simp [List.getElem?_eq_getElem ha, List.getD_eq_getElem?_getD]

/-- the total version agrees with the partial one in range -/
theorem apply_eq_apply? (p x : List Nat) (h : ∀ i ∈ p, i < x.length) :
    apply? p x = some (apply p x) := by
  unfold apply? apply
  exact mapM_getElem?_eq_some p x 0 h

/-- `apply?` fails exactly when some index is out of range -/
theorem apply?_isSome_iff {β : Type} (p : List Nat) (x : List β) :
    (apply? p x).isSome = true ↔ ∀ i ∈ p, i < x.length := by
  unfold apply?
  induction p with
  | nil => simp
  | cons a t ih =>
    rw [List.mapM_cons]
    by_cases ha : a < x.length
    · simp only [List.getElem?_eq_getElem ha, List.mem_cons, forall_eq_or_imp, ha, true_and]
      rw [← ih]
      cases hm : List.mapM (fun i => x[i]?) t <;> simp
    · have : x[a]? = none := by simp; omega
      simp [ha]

theorem apply_compose (p q x : List Nat) (hp : ∀ i ∈ p, i < q.length) :
    apply (compose p q) x = apply p (apply q x) := by
  unfold compose
  apply List.ext_getElem (by simp)
  intro i h1 h2
  have hi : i < p.length := by simpa using h1
  have e1 := getD_apply (apply p q) x (i := i) (by simpa using hi)
  have e2 := getD_apply p (apply q x) hi
  have e3 := getD_apply p q hi
  have hq : p.getD i 0 < q.length := by
    apply hp; rw [getD_eq_getElem hi]; simp
  have e4 := getD_apply q x hq
  rw [getD_eq_getElem h1] at e1
  rw [getD_eq_getElem h2] at e2
  rw [e1, e2, e3, e4]

theorem compose_assoc (p q r : List Nat) (hp : ∀ i ∈ p, i < q.length) :
    compose (compose p q) r = compose p (compose q r) :=
  apply_compose p q r hp

theorem apply_identity (x : List Nat) : apply (identity x.length) x = x := by
  unfold apply identity
  apply List.ext_getElem (by simp)
  intro i h1 h2
  simp [List.getElem?_eq_getElem h2]

theorem identity_isPerm (n : Nat) : IsPermOf n (identity n) := by
  refine ⟨by simp [identity], List.nodup_range, ?_⟩
  intro i hi; simpa [identity] using hi

theorem compose_identity_left (n : Nat) (p : List Nat) (h : p.length = n) :
    compose (identity n) p = p := by
  subst h; exact apply_identity p

theorem compose_identity_right (n : Nat) (p : List Nat) (h : ∀ i ∈ p, i < n) :
    compose p (identity n) = p := by
  unfold compose apply identity
  apply List.ext_getElem (by simp)
  intro i h1 h2
  have : p[i] < n := h _ (by simp)
  simp [List.getElem?_eq_getElem (l := List.range n) (i := p[i]) (by simpa using this)]


/-! ### `inverse` -/

/-- the first `k` iterations of the loop in `inverse` -/
def invAux (p : List Nat) (k : Nat) : List Nat :=
  (List.range k).foldl (fun ans i => ans.set (p.getD i 0) i) (List.replicate p.length 0)

theorem inverse_eq_invAux (p : List Nat) : inverse p = invAux p p.length := rfl

theorem invAux_succ (p : List Nat) (k : Nat) :
    invAux p (k+1) = (invAux p k).set (p.getD k 0) k := by
  simp [invAux, List.range_succ, List.foldl_append]

@[simp] theorem length_invAux (p : List Nat) (k : Nat) : (invAux p k).length = p.length := by
  induction k with
  | zero => simp [invAux]
  | succ k ih => simp [invAux_succ, ih]

@[simp] theorem length_inverse (p : List Nat) : (inverse p).length = p.length := by
  simp [inverse_eq_invAux]

theorem getD_set_eq' (l : List Nat) (i v : Nat) (h : i < l.length) : (l.set i v).getD i 0 = v := by
  simp [List.getD_eq_getElem?_getD, h]

theorem getD_set_ne' (l : List Nat) (i j v : Nat) (h : i ≠ j) : (l.set i v).getD j 0 = l.getD j 0 := by
  simp [List.getD_eq_getElem?_getD, h]

theorem invAux_getD {n : Nat} {p : List Nat} (h : IsPermOf n p) (k : Nat) (hk : k ≤ n)
    (i : Nat) (hi : i < k) : (invAux p k).getD (p.getD i 0) 0 = i := by
  induction k with
  | zero => omega
  | succ k ih =>
    rw [invAux_succ]
    by_cases hik : i = k
    · subst hik
      apply getD_set_eq'
      simp only [length_invAux, h.length_eq]
      exact h.getD_lt (by omega)
    · have hne : p.getD k 0 ≠ p.getD i 0 := by
        intro e
        have := (List.getD_inj (fallback := 0) (by rw [h.length_eq]; omega)
          (by rw [h.length_eq]; omega) h.nodup).1 e
        omega
      rw [getD_set_ne' _ _ _ _ hne]
      exact ih (by omega) (by omega)

theorem inverse_getD (n : Nat) (p : List Nat) (h : IsPermOf n p) (i : Nat) (hi : i < n) :
    (inverse p).getD (p.getD i 0) 0 = i := by
  rw [inverse_eq_invAux]
  exact invAux_getD h p.length (by rw [h.length_eq]; exact Nat.le_refl _) i (by rw [h.length_eq]; exact hi)

/-- the other direction: `p[(inverse p)[j]] = j` -/
theorem getD_inverse (n : Nat) (p : List Nat) (h : IsPermOf n p) (j : Nat) (hj : j < n) :
    p.getD ((inverse p).getD j 0) 0 = j := by
  obtain ⟨i, hi, e⟩ := h.exists_index hj
  rw [← e, inverse_getD n p h i hi]

theorem inverse_getD_lt (n : Nat) (p : List Nat) (h : IsPermOf n p) (j : Nat) (hj : j < n) :
    (inverse p).getD j 0 < n := by
  obtain ⟨i, hi, e⟩ := h.exists_index hj
  rw [← e, inverse_getD n p h i hi]; exact hi

/-- a list of length `n` whose entries are `< n` and pairwise different (by index) is a permutation -/
theorem isPermOf_of_getD {n : Nat} {q : List Nat} (hl : q.length = n)
    (hlt : ∀ j, j < n → q.getD j 0 < n)
    (hinj : ∀ i j, i < n → j < n → q.getD i 0 = q.getD j 0 → i = j) : IsPermOf n q := by
  refine ⟨hl, ?_, ?_⟩
  · rw [List.nodup_iff_pairwise_ne, List.pairwise_iff_getElem]
    intro i j hi hj hij e
    have := hinj i j (by omega) (by omega) (by rw [getD_eq_getElem hi, getD_eq_getElem hj]; exact e)
    omega
  · intro v hv
    obtain ⟨i, hi, e⟩ := List.getElem_of_mem hv
    have := hlt i (by omega)
    rw [getD_eq_getElem hi, e] at this
    exact this

theorem inverse_isPerm (n : Nat) (p : List Nat) (h : IsPermOf n p) : IsPermOf n (inverse p) := by
  apply isPermOf_of_getD (by simp [h.length_eq]) (inverse_getD_lt n p h)
  intro i j hi hj e
  have h1 := getD_inverse n p h i hi
  have h2 := getD_inverse n p h j hj
  rw [e] at h1
  omega

theorem compose_inverse_right (n : Nat) (p : List Nat) (h : IsPermOf n p) :
    compose p (inverse p) = identity n := by
  unfold compose identity
  apply List.ext_getElem (by simp [h.length_eq])
  intro i h1 h2
  have hi : i < p.length := by simpa using h1
  have := getD_apply p (inverse p) hi
  rw [getD_eq_getElem h1] at this
  rw [this, inverse_getD n p h i (by rw [← h.length_eq]; exact hi)]
  simp

theorem compose_inverse_left (n : Nat) (p : List Nat) (h : IsPermOf n p) :
    compose (inverse p) p = identity n := by
  unfold compose identity
  apply List.ext_getElem (by simp [h.length_eq])
  intro i h1 h2
  have hi : i < (inverse p).length := by simpa using h1
  have := getD_apply (inverse p) p hi
  rw [getD_eq_getElem h1] at this
  rw [this, getD_inverse n p h i (by simpa [h.length_eq] using hi)]
  simp

theorem inverse_inverse (n : Nat) (p : List Nat) (h : IsPermOf n p) : inverse (inverse p) = p := by
  have hq := inverse_isPerm n p h
  apply List.ext_getElem (by simp)
  intro i h1 h2
  have hi : i < n := by rw [← h.length_eq]; exact h2
  have e1 := inverse_getD n (inverse p) hq (p.getD i 0) (h.getD_lt hi)
  rw [inverse_getD n p h i hi] at e1
  rw [getD_eq_getElem h1, getD_eq_getElem h2] at e1
  exact e1

/-- generator p followed by inverse p restores every state (any entries, length n) -/
theorem apply_inverse_cancel (n : Nat) (p : List Nat) (h : IsPermOf n p) (s : List Nat)
    (hs : s.length = n) :
    apply (inverse p) (apply p s) = s ∧ apply p (apply (inverse p) s) = s := by
  have hq := inverse_isPerm n p h
  constructor
  · rw [← apply_compose (inverse p) p s (by intro i hi; rw [h.length_eq]; exact hq.lt i hi),
      compose_inverse_left n p h, ← hs, apply_identity]
  · rw [← apply_compose p (inverse p) s (by intro i hi; simp [h.length_eq]; exact h.lt i hi),
      compose_inverse_right n p h, ← hs, apply_identity]

/-- `apply p` is injective on states of length `n` and `apply (inverse p)` is its two-sided inverse;
in particular the result is a rearrangement of `s` -/
theorem apply_perm (n : Nat) (p : List Nat) (h : IsPermOf n p) (s : List Nat) (hs : s.length = n) :
    (apply p s).Perm s := by
  have hp := (isPermOf_iff_perm n p).1 h
  have h1 : (apply p s).Perm (apply (List.range n) s) := by
    unfold apply; exact hp.map _
  have h2 := apply_identity s
  rw [hs] at h2
  unfold identity at h2
  rw [h2] at h1
  exact h1

/-! ### `transposition` -/

theorem transposition_none_iff {n i j : Nat} :
    transposition n i j = none ↔ ¬ (i < n ∧ j < n ∧ i ≠ j) := by
  unfold transposition
  split <;> simp_all

theorem transposition_getD (n i j : Nat) (k : Nat) (hk : k < n) :
    (((List.range n).set i j).set j i).getD k 0 = if k = j then i else if k = i then j else k := by
  simp only [List.getD_eq_getElem?_getD, List.getElem?_set, List.length_set, List.length_range]
  by_cases h1 : j = k
  · simp [h1, hk]
  · by_cases h2 : i = k
    · simp [h1, h2, hk, Ne.symm h1]
    · have h1' : ¬ k = j := fun e => h1 e.symm
      have h2' : ¬ k = i := fun e => h2 e.symm
      simp [h1, h2, h1', h2', List.getElem?_range hk]

theorem transposition_spec (n i j : Nat) (p : List Nat) (h : transposition n i j = some p) :
    IsPermOf n p ∧ p.getD i 0 = j ∧ p.getD j 0 = i ∧
      ∀ k, k < n → k ≠ i → k ≠ j → p.getD k 0 = k := by
  unfold transposition at h
  split at h
  · rename_i hc
    obtain ⟨hi, hj, hij⟩ := hc
    simp only [Option.some.injEq] at h
    subst h
    have key := transposition_getD n i j
    refine ⟨?_, ?_, ?_, ?_⟩
    · apply isPermOf_of_getD (by simp)
      · intro k hk; rw [key k hk]; split <;> (try split) <;> omega
      · intro a b ha hb; rw [key a ha, key b hb]
        split <;> split <;> (try split) <;> (try split) <;> omega
    · rw [key i hi]; simp [hij]
    · rw [key j hj]; simp
    · intro k hk h1 h2; rw [key k hk]; simp [h1, h2]
  · simp at h


/-! ### guarded write sequences (the assertion `perm[c] == c` before `perm[c] = nxt`) -/

/-- one assignment `perm[c] = nxt` guarded by the "in range and not yet written" assertion -/
def stepN (n : Nat) (perm : List Nat) (w : Nat × Nat) : Option (List Nat) :=
  if w.1 < n ∧ perm.getD w.1 0 = w.1 then some (perm.set w.1 w.2) else none

def runW (n : Nat) (ws : List (Nat × Nat)) (P : List Nat) : Option (List Nat) :=
  ws.foldlM (stepN n) P

@[simp] theorem runW_nil (n : Nat) (P : List Nat) : runW n [] P = some P := rfl

theorem runW_cons_some (n : Nat) (w : Nat × Nat) (ws : List (Nat × Nat)) (P Q : List Nat) :
    runW n (w :: ws) P = some Q ↔
      w.1 < n ∧ P.getD w.1 0 = w.1 ∧ runW n ws (P.set w.1 w.2) = some Q := by
  unfold runW
  rw [List.foldlM_cons]
  unfold stepN
  split
  · rename_i h
    simp only [Option.bind_eq_bind, Option.bind_some]
    exact ⟨fun h' => ⟨h.1, h.2, h'⟩, fun h' => h'.2.2⟩
  · rename_i h
    simp only [Option.bind_eq_bind, Option.bind_none, reduceCtorEq, false_iff]
    intro ⟨h1, h2, _⟩; exact h ⟨h1, h2⟩

theorem runW_append (n : Nat) (ws ws' : List (Nat × Nat)) (P : List Nat) :
    runW n (ws ++ ws') P = (runW n ws P).bind (runW n ws') := by
  unfold runW
  rw [List.foldlM_append]; rfl

theorem runW_length {n : Nat} {ws : List (Nat × Nat)} {P Q : List Nat} (h : runW n ws P = some Q) :
    Q.length = P.length := by
  induction ws generalizing P with
  | nil => simp at h; simp [h]
  | cons w t ih =>
    obtain ⟨_, _, h3⟩ := (runW_cons_some ..).1 h
    simpa using ih h3

/-- a position whose current value differs from its index can never be written again -/
theorem runW_frozen {n : Nat} {ws : List (Nat × Nat)} {P Q : List Nat} (h : runW n ws P = some Q)
    (k : Nat) (hk : P.getD k 0 ≠ k) : (∀ w ∈ ws, w.1 ≠ k) ∧ Q.getD k 0 = P.getD k 0 := by
  induction ws generalizing P with
  | nil => simp at h; simp [h]
  | cons w t ih =>
    obtain ⟨h1, h2, h3⟩ := (runW_cons_some ..).1 h
    have hne : w.1 ≠ k := by intro e; rw [e] at h2; exact hk h2
    have hk' : (P.set w.1 w.2).getD k 0 = P.getD k 0 := getD_set_ne' _ _ _ _ hne
    obtain ⟨i1, i2⟩ := ih h3 (by rw [hk']; exact hk)
    refine ⟨?_, by rw [i2, hk']⟩
    intro w' hw'
    rcases List.mem_cons.1 hw' with rfl | hw'
    · exact hne
    · exact i1 w' hw'

/-- positions that only receive fixed-point writes keep their value -/
theorem runW_unwritten {n : Nat} {ws : List (Nat × Nat)} {P Q : List Nat} (h : runW n ws P = some Q)
    (k : Nat) (hk : ∀ w ∈ ws, w.1 = k → w.2 = k) : Q.getD k 0 = P.getD k 0 := by
  induction ws generalizing P with
  | nil => simp at h; simp [h]
  | cons w t ih =>
    obtain ⟨h1, h2, h3⟩ := (runW_cons_some ..).1 h
    rw [ih h3 (fun w' hw' => hk w' (by simp [hw']))]
    by_cases e : w.1 = k
    · have := hk w (by simp) e
      rw [this, ← e] at *
      by_cases hl : w.1 < P.length
      · rw [getD_set_eq' _ _ _ hl, h2]
      · rw [List.set_eq_of_length_le (by omega)]
    · exact getD_set_ne' _ _ _ _ e

/-- a write that is not a fixed point is final -/
theorem runW_written {n : Nat} {ws : List (Nat × Nat)} {P Q : List Nat} (h : runW n ws P = some Q)
    (hP : P.length = n) (w : Nat × Nat) (hw : w ∈ ws) (hne : w.2 ≠ w.1) : Q.getD w.1 0 = w.2 := by
  induction ws generalizing P with
  | nil => simp at hw
  | cons w0 t ih =>
    obtain ⟨h1, h2, h3⟩ := (runW_cons_some ..).1 h
    rcases List.mem_cons.1 hw with rfl | hw'
    · have e : (P.set w.1 w.2).getD w.1 0 = w.2 := getD_set_eq' _ _ _ (by omega)
      rw [(runW_frozen h3 w.1 (by rw [e]; exact hne)).2, e]
    · exact ih h3 (by simpa using hP) hw'

/-- exact success criterion -/
theorem runW_isSome_iff (n : Nat) (ws : List (Nat × Nat)) (P : List Nat) (hP : P.length = n) :
    (runW n ws P).isSome = true ↔
      (∀ w ∈ ws, w.1 < n ∧ P.getD w.1 0 = w.1) ∧
      ws.Pairwise (fun a b => a.1 = b.1 → a.2 = a.1) := by
  induction ws generalizing P with
  | nil => simp
  | cons w t ih =>
    have key : (runW n (w :: t) P).isSome = true ↔
        w.1 < n ∧ P.getD w.1 0 = w.1 ∧ (runW n t (P.set w.1 w.2)).isSome = true := by
      constructor
      · intro h
        obtain ⟨Q, hQ⟩ := Option.isSome_iff_exists.1 h
        obtain ⟨h1, h2, h3⟩ := (runW_cons_some ..).1 hQ
        exact ⟨h1, h2, by simp [h3]⟩
      · rintro ⟨h1, h2, h3⟩
        obtain ⟨Q, hQ⟩ := Option.isSome_iff_exists.1 h3
        rw [(runW_cons_some n w t P Q).2 ⟨h1, h2, hQ⟩]; rfl
    rw [key, ih _ (by simpa using hP)]
    simp only [List.mem_cons, forall_eq_or_imp, List.pairwise_cons]
    have hget : w.1 < n → ∀ x : Nat, (P.set w.1 w.2).getD x 0 = if x = w.1 then w.2 else P.getD x 0 := by
      intro hl x
      by_cases e : x = w.1
      · subst e
        rw [if_pos rfl]; exact getD_set_eq' _ _ _ (by omega)
      · rw [if_neg e]; exact getD_set_ne' _ _ _ _ (Ne.symm e)
    constructor
    · rintro ⟨h1, h2, h3, h4⟩
      refine ⟨⟨⟨h1, h2⟩, ?_⟩, ?_, h4⟩
      · intro w' hw'
        obtain ⟨g1, g2⟩ := h3 w' hw'
        refine ⟨g1, ?_⟩
        rw [hget h1] at g2
        by_cases e : w'.1 = w.1
        · rw [e]; exact h2
        · rw [if_neg e] at g2; exact g2
      · intro w' hw' e
        obtain ⟨g1, g2⟩ := h3 w' hw'
        rw [hget h1, if_pos e.symm] at g2
        rw [g2, e]
    · rintro ⟨⟨⟨h1, h2⟩, h3⟩, h4, h5⟩
      refine ⟨h1, h2, ?_, h5⟩
      intro w' hw'
      obtain ⟨g1, g2⟩ := h3 w' hw'
      refine ⟨g1, ?_⟩
      rw [hget h1]
      by_cases e : w'.1 = w.1
      · rw [if_pos e, h4 w' hw' e.symm, e]
      · rw [if_neg e]; exact g2


theorem runW_snoc_some (n : Nat) (ws : List (Nat × Nat)) (w : Nat × Nat) (P Q : List Nat) :
    runW n (ws ++ [w]) P = some Q ↔
      ∃ Q', runW n ws P = some Q' ∧ w.1 < n ∧ Q'.getD w.1 0 = w.1 ∧ Q = Q'.set w.1 w.2 := by
  rw [runW_append]
  cases h : runW n ws P with
  | none => simp
  | some Q' =>
    simp only [Option.bind_some, Option.some.injEq, exists_eq_left']
    rw [runW_cons_some]
    simp only [runW_nil, Option.some.injEq]
    constructor
    · rintro ⟨h1, h2, h3⟩; exact ⟨h1, h2, h3.symm⟩
    · rintro ⟨h1, h2, h3⟩; exact ⟨h1, h2, h3.symm⟩

theorem set_getD_self (l : List Nat) (i : Nat) (hi : i < l.length) : l.set i (l.getD i 0) = l := by
  rw [getD_eq_getElem hi]; exact List.set_getElem_self hi

/-- moving the "hole" of an almost-closed cycle one step keeps the list a permutation -/
theorem isPermOf_move_hole {n : Nat} {Q : List Nat} {a b c0 : Nat} (hl : Q.length = n)
    (ha : a < n) (hb : b < n) (hab : a ≠ b) (hQa : Q.getD a 0 = b) (hQb : Q.getD b 0 = b)
    (hT : IsPermOf n (Q.set a c0)) : IsPermOf n (Q.set b c0) := by
  rw [isPermOf_iff_perm] at hT ⊢
  have h1 : a < (Q.set a c0).length := by simp; omega
  have h2 : b < (Q.set a c0).length := by simp; omega
  have hp := List.set_set_perm h1 h2
  have e1 : (Q.set a c0)[b] = b := by
    rw [List.getElem_set_ne hab]; rw [← getD_eq_getElem (by omega)]; exact hQb
  have e2 : (Q.set a c0)[a] = c0 := by simp
  rw [e1, e2, List.set_set] at hp
  have e3 : Q.set a b = Q := by
    have := set_getD_self Q a (by omega); rw [hQa] at this; exact this
  rw [e3] at hp
  exact hp.trans hT

/-- the first `k` guarded writes of a cycle -/
def cycPrefix (c : List Nat) (k : Nat) : List (Nat × Nat) :=
  (List.range k).map fun i => (c.getD i 0, c.getD ((i + 1) % c.length) 0)

/-- all guarded writes of a cycle -/
def cycWrites (c : List Nat) : List (Nat × Nat) := cycPrefix c c.length

theorem cycPrefix_succ (c : List Nat) (k : Nat) :
    cycPrefix c (k+1) = cycPrefix c k ++ [(c.getD k 0, c.getD ((k + 1) % c.length) 0)] := by
  simp [cycPrefix, List.range_succ]

theorem cyc_inv (n : Nat) (c P : List Nat) (hP : IsPermOf n P) (k : Nat) (hk : k + 1 ≤ c.length)
    (Q : List Nat) (h : runW n (cycPrefix c (k+1)) P = some Q) :
    IsPermOf n (Q.set (c.getD k 0) (c.getD 0 0)) ∧
      Q.getD (c.getD k 0) 0 = c.getD ((k + 1) % c.length) 0 ∧ c.getD k 0 < n ∧ c.getD 0 0 < n := by
  induction k generalizing Q with
  | zero =>
    have : cycPrefix c 1 = [(c.getD 0 0, c.getD (1 % c.length) 0)] := by simp [cycPrefix]
    rw [this, runW_cons_some] at h
    obtain ⟨h1, h2, h3⟩ := h
    simp only [runW_nil, Option.some.injEq] at h3
    subst h3
    have hl : c.getD 0 0 < P.length := by rw [hP.length_eq]; exact h1
    refine ⟨?_, ?_, h1, h1⟩
    · rw [List.set_set]
      have := set_getD_self P _ hl
      rw [h2] at this; rw [this]; exact hP
    · exact getD_set_eq' _ _ _ hl
  | succ k ih =>
    rw [cycPrefix_succ, runW_snoc_some] at h
    obtain ⟨Q', hQ', h1, h2, h3⟩ := h
    obtain ⟨i1, i2, i3, i4⟩ := ih (by omega) Q' hQ'
    have hmod : (k + 1) % c.length = k + 1 := Nat.mod_eq_of_lt (by omega)
    rw [hmod] at i2
    have hl : Q'.length = n := by rw [runW_length hQ', hP.length_eq]
    simp only at h1 h2 h3
    subst h3
    refine ⟨?_, ?_, h1, i4⟩
    · rw [List.set_set]
      by_cases hab : c.getD k 0 = c.getD (k+1) 0
      · rw [← hab]; exact i1
      · exact isPermOf_move_hole hl i3 h1 hab i2 h2 i1
    · exact getD_set_eq' _ _ _ (by omega)

/-- writing a whole cycle into a permutation gives a permutation -/
theorem cycWrites_perm (n : Nat) (c P Q : List Nat) (hP : IsPermOf n P)
    (h : runW n (cycWrites c) P = some Q) : IsPermOf n Q := by
  unfold cycWrites at h
  cases hL : c.length with
  | zero =>
    rw [hL] at h
    simp [cycPrefix] at h
    subst h; exact hP
  | succ k =>
    rw [hL] at h
    obtain ⟨i1, i2, i3, i4⟩ := cyc_inv n c P hP k (by omega) Q h
    have hl : Q.length = n := by rw [runW_length h, hP.length_eq]
    have hmod : (k + 1) % c.length = 0 := by rw [hL]; exact Nat.mod_self _
    rw [hmod] at i2
    have := set_getD_self Q (c.getD k 0) (by omega)
    rw [i2] at this
    rw [this] at i1
    exact i1


/-- consecutive cycles -/
theorem flatMap_cycWrites_perm (n : Nat) (cs : List (List Nat)) (P Q : List Nat) (hP : IsPermOf n P)
    (h : runW n (cs.flatMap cycWrites) P = some Q) : IsPermOf n Q := by
  induction cs generalizing P with
  | nil => simp at h; subst h; exact hP
  | cons c t ih =>
    rw [List.flatMap_cons, runW_append] at h
    cases h1 : runW n (cycWrites c) P with
    | none => rw [h1] at h; simp at h
    | some Q' =>
      rw [h1] at h
      exact ih Q' (cycWrites_perm n c P Q' hP h1) h

/-! ### connection with the model: `writeCycle`, `fromCycles` -/

/-- the loop body of `writeCycle` -/
def wcStep (n : Nat) (cycle : List Int) (perm : List Nat) (i : Nat) : Option (List Nat) :=
  let c := cycle.getD i 0
  let nxt := cycle.getD ((i + 1) % cycle.length) 0
  if 0 ≤ c ∧ c < (n : Int) ∧ perm.getD c.toNat 0 = c.toNat then
    some (perm.set c.toNat nxt.toNat)
  else none

theorem writeCycle_eq (n : Nat) (cycle : List Int) (P : List Nat) :
    writeCycle n cycle P = (List.range cycle.length).foldlM (wcStep n cycle) P := rfl

theorem getD_map_toNat (cycle : List Int) (i : Nat) :
    (cycle.map Int.toNat).getD i 0 = (cycle.getD i 0).toNat := by
  simp only [List.getD_eq_getElem?_getD, List.getElem?_map]
  cases cycle[i]? <;> simp

theorem wcStep_some_iff (n : Nat) (cycle : List Int) (P Q : List Nat) (i : Nat) :
    wcStep n cycle P i = some Q ↔
      0 ≤ cycle.getD i 0 ∧
      stepN n P ((cycle.map Int.toNat).getD i 0,
        (cycle.map Int.toNat).getD ((i + 1) % (cycle.map Int.toNat).length) 0) = some Q := by
  simp only [wcStep, stepN, getD_map_toNat, List.length_map]
  by_cases h0 : 0 ≤ cycle.getD i 0
  · have e : (cycle.getD i 0 < (n : Int)) ↔ (cycle.getD i 0).toNat < n := by omega
    simp only [h0, true_and, e]
  · simp only [h0, false_and, if_false, reduceCtorEq]

theorem writeCycle_prefix_iff (n : Nat) (cycle : List Int) (P Q : List Nat) (k : Nat) :
    (List.range k).foldlM (wcStep n cycle) P = some Q ↔
      (∀ i, i < k → 0 ≤ cycle.getD i 0) ∧
        runW n (cycPrefix (cycle.map Int.toNat) k) P = some Q := by
  induction k generalizing Q with
  | zero => simp [cycPrefix]
  | succ k ih =>
    rw [List.range_succ, List.foldlM_append, cycPrefix_succ, runW_snoc_some]
    cases h : (List.range k).foldlM (wcStep n cycle) P with
    | none =>
      simp only [Option.bind_eq_bind, Option.bind_none, reduceCtorEq, false_iff]
      rintro ⟨h1, Q', h2, _⟩
      have := (ih Q').2 ⟨fun i hi => h1 i (by omega), h2⟩
      rw [h] at this; simp at this
    | some Q' =>
      obtain ⟨g1, g2⟩ := (ih Q').1 h
      simp only [Option.bind_eq_bind, Option.bind_some, List.foldlM_cons, List.foldlM_nil]
      have : (wcStep n cycle Q' k).bind pure = wcStep n cycle Q' k := by
        cases wcStep n cycle Q' k <;> rfl
      rw [this, wcStep_some_iff]
      constructor
      · rintro ⟨h1, h2⟩
        refine ⟨?_, Q', g2, ?_⟩
        · intro i hi
          by_cases e : i = k
          · subst e; exact h1
          · exact g1 i (by omega)
        · unfold stepN at h2
          split at h2
          · rename_i hc
            simp only [Option.some.injEq] at h2
            exact ⟨hc.1, hc.2, h2.symm⟩
          · simp at h2
      · rintro ⟨h1, Q'', h2, h3, h4, h5⟩
        rw [g2] at h2
        simp only [Option.some.injEq] at h2
        subst h2
        refine ⟨h1 k (by omega), ?_⟩
        unfold stepN
        rw [if_pos ⟨h3, h4⟩, h5]

theorem writeCycle_some_iff (n : Nat) (cycle : List Int) (P Q : List Nat) :
    writeCycle n cycle P = some Q ↔
      (∀ v ∈ cycle, 0 ≤ v) ∧ runW n (cycWrites (cycle.map Int.toNat)) P = some Q := by
  rw [writeCycle_eq, writeCycle_prefix_iff]
  unfold cycWrites
  simp only [List.length_map]
  have : (∀ i, i < cycle.length → 0 ≤ cycle.getD i 0) ↔ ∀ v ∈ cycle, 0 ≤ v := by
    constructor
    · intro h v hv
      obtain ⟨i, hi, rfl⟩ := List.getElem_of_mem hv
      have := h i hi
      rwa [List.getD_eq_getElem?_getD, List.getElem?_eq_getElem hi] at this
    · intro h i hi
      rw [List.getD_eq_getElem?_getD, List.getElem?_eq_getElem hi]
      exact h _ (List.getElem_mem hi)
  rw [this]

theorem foldlM_writeCycle_iff (n : Nat) (cs : List (List Int)) (P Q : List Nat) :
    cs.foldlM (fun perm c => writeCycle n c perm) P = some Q ↔
      (∀ c ∈ cs, ∀ v ∈ c, 0 ≤ v) ∧
        runW n ((cs.map fun c => c.map Int.toNat).flatMap cycWrites) P = some Q := by
  induction cs generalizing P with
  | nil => simp
  | cons c t ih =>
    rw [List.foldlM_cons, List.map_cons, List.flatMap_cons, runW_append]
    cases h : writeCycle n c P with
    | none =>
      simp only [Option.bind_eq_bind, Option.bind_none, reduceCtorEq, false_iff]
      rintro ⟨h1, h2⟩
      cases h3 : runW n (cycWrites (c.map Int.toNat)) P with
      | none => rw [h3] at h2; simp at h2
      | some Q' =>
        have := (writeCycle_some_iff n c P Q').2 ⟨h1 c (by simp), h3⟩
        rw [h] at this; simp at this
    | some Q' =>
      obtain ⟨g1, g2⟩ := (writeCycle_some_iff n c P Q').1 h
      simp only [Option.bind_eq_bind, Option.bind_some, g2, List.mem_cons, forall_eq_or_imp]
      rw [ih]
      constructor
      · rintro ⟨h1, h2⟩; exact ⟨⟨g1, h1⟩, h2⟩
      · rintro ⟨⟨_, h1⟩, h2⟩; exact ⟨h1, h2⟩

/-- the cycles of `fromCycles` after subtracting the offset, as natural numbers -/
def natCycles (cycles : List (List Int)) (offset : Int) : List (List Nat) :=
  cycles.map fun c => c.map fun v => (v - offset).toNat

theorem fromCycles_some_iff_runW (n : Nat) (cycles : List (List Int)) (offset : Int) (p : List Nat) :
    fromCycles n cycles offset = some p ↔
      (∀ c ∈ cycles, ∀ v ∈ c, 0 ≤ v - offset) ∧
        runW n ((natCycles cycles offset).flatMap cycWrites) (List.range n) = some p := by
  unfold fromCycles
  rw [foldlM_writeCycle_iff]
  have : (List.map (fun c => List.map Int.toNat c) (List.map (fun c => List.map (fun x => x - offset) c) cycles))
      = natCycles cycles offset := by
    simp [natCycles, List.map_map, Function.comp_def]
  rw [this]
  simp only [List.mem_map, forall_exists_index, and_imp, forall_apply_eq_imp_iff₂]


/-- the sequence of guarded assignments `(c, nxt)` performed for one cycle -/
def cycleWrites (c : List Int) : List (Int × Int) :=
  (List.range c.length).map fun i => (c.getD i 0, c.getD ((i + 1) % c.length) 0)

/-- all guarded assignments `perm[c] = nxt` performed by `permutation_from_cycles`, in order -/
def allWrites (cycles : List (List Int)) : List (Int × Int) := cycles.flatMap cycleWrites

theorem mem_allWrites (cycles : List (List Int)) (w : Int × Int) :
    w ∈ allWrites cycles ↔ ∃ c ∈ cycles, ∃ i, i < c.length ∧
      w = (c.getD i 0, c.getD ((i + 1) % c.length) 0) := by
  simp only [allWrites, cycleWrites, List.mem_flatMap, List.mem_map, List.mem_range]
  constructor
  · rintro ⟨c, hc, i, hi, rfl⟩; exact ⟨c, hc, i, hi, rfl⟩
  · rintro ⟨c, hc, i, hi, rfl⟩; exact ⟨c, hc, i, hi, rfl⟩

theorem allWrites_map_fst (cycles : List (List Int)) :
    (allWrites cycles).map (·.1) = cycles.flatten := by
  induction cycles with
  | nil => rfl
  | cons c t ih =>
    simp only [allWrites, List.flatMap_cons, List.map_append, List.flatten_cons] at ih ⊢
    rw [ih]
    congr 1
    apply List.ext_getElem (by simp [cycleWrites])
    intro i h1 h2
    simp [cycleWrites, List.getElem?_eq_getElem h2]

theorem getD_map_lt {α β : Type} (f : α → β) (l : List α) (i : Nat) (hi : i < l.length) (d : α) (d' : β) :
    (l.map f).getD i d' = f (l.getD i d) := by
  simp [List.getD_eq_getElem?_getD, List.getElem?_eq_getElem hi]

/-- the natural-number write list is the image of the integer one -/
theorem natWrites_eq (cycles : List (List Int)) (offset : Int) :
    (natCycles cycles offset).flatMap cycWrites =
      (allWrites cycles).map fun w => ((w.1 - offset).toNat, (w.2 - offset).toNat) := by
  induction cycles with
  | nil => rfl
  | cons c t ih =>
    simp only [natCycles, allWrites, List.map_cons, List.flatMap_cons, List.map_append] at ih ⊢
    rw [ih]
    congr 1
    simp only [cycWrites, cycPrefix, cycleWrites, List.length_map, List.map_map]
    apply List.map_congr_left
    intro i hi
    have hi' : i < c.length := List.mem_range.1 hi
    have hm : (i + 1) % c.length < c.length := Nat.mod_lt _ (by omega)
    simp only [Function.comp_apply]
    rw [getD_map_lt _ c i hi' 0 0, getD_map_lt _ c _ hm 0 0]

theorem mem_flatten_iff_getD (cycles : List (List Int)) (v : Int) :
    v ∈ cycles.flatten ↔ ∃ c ∈ cycles, ∃ i, i < c.length ∧ v = c.getD i 0 := by
  simp only [List.mem_flatten]
  constructor
  · rintro ⟨c, hc, hv⟩
    obtain ⟨i, hi, rfl⟩ := List.getElem_of_mem hv
    exact ⟨c, hc, i, hi, by rw [List.getD_eq_getElem?_getD, List.getElem?_eq_getElem hi]; rfl⟩
  · rintro ⟨c, hc, i, hi, rfl⟩
    refine ⟨c, hc, ?_⟩
    rw [List.getD_eq_getElem?_getD, List.getElem?_eq_getElem hi]
    exact List.getElem_mem hi

/-- both components of every write are entries of the cycles -/
theorem allWrites_mem_flatten (cycles : List (List Int)) (w : Int × Int) (hw : w ∈ allWrites cycles) :
    w.1 ∈ cycles.flatten ∧ w.2 ∈ cycles.flatten := by
  obtain ⟨c, hc, i, hi, rfl⟩ := (mem_allWrites cycles w).1 hw
  exact ⟨(mem_flatten_iff_getD _ _).2 ⟨c, hc, i, hi, rfl⟩,
    (mem_flatten_iff_getD _ _).2 ⟨c, hc, _, Nat.mod_lt _ (by omega), rfl⟩⟩

/-- EXACT success condition of `permutation_from_cycles`: every entry is in range, and a position may
be assigned again only if every earlier assignment to it was a fixed point `perm[c] = c`
(which the assertion `perm[c] == c` cannot distinguish from "not yet written"). -/
theorem fromCycles_isSome_iff_exact (n : Nat) (cycles : List (List Int)) (offset : Int) :
    (fromCycles n cycles offset).isSome = true ↔
      (∀ v ∈ cycles.flatten, 0 ≤ v - offset ∧ v - offset < n) ∧
      (allWrites cycles).Pairwise (fun a b => a.1 = b.1 → a.2 = a.1) := by
  have hconv : (∀ v ∈ cycles.flatten, 0 ≤ v - offset) →
      (((natCycles cycles offset).flatMap cycWrites).Pairwise (fun a b => a.1 = b.1 → a.2 = a.1) ↔
        (allWrites cycles).Pairwise (fun a b => a.1 = b.1 → a.2 = a.1)) := by
    intro hnn
    rw [natWrites_eq, List.pairwise_map]
    apply List.Pairwise.iff_of_mem
    intro a b ha hb
    have ha' := allWrites_mem_flatten cycles a ha
    have hb' := allWrites_mem_flatten cycles b hb
    have := hnn _ ha'.1; have := hnn _ ha'.2; have := hnn _ hb'.1
    simp only
    constructor
    · intro h e; have := h (by rw [e]); omega
    · intro h e; have := h (by omega); rw [this]
  have hrange : (∀ v ∈ cycles.flatten, 0 ≤ v - offset) →
      ((∀ w ∈ (natCycles cycles offset).flatMap cycWrites, w.1 < n ∧ (List.range n).getD w.1 0 = w.1) ↔
        ∀ v ∈ cycles.flatten, v - offset < n) := by
    intro hnn
    rw [natWrites_eq]
    simp only [List.mem_map, forall_exists_index, and_imp, forall_apply_eq_imp_iff₂]
    constructor
    · intro h v hv
      have : v ∈ (allWrites cycles).map (·.1) := by rw [allWrites_map_fst]; exact hv
      obtain ⟨w, hw, rfl⟩ := List.mem_map.1 this
      have := (h w hw).1
      have := hnn _ hv
      omega
    · intro h w hw
      have hw' := (allWrites_mem_flatten cycles w hw).1
      have := h _ hw'
      have := hnn _ hw'
      have hlt : (w.1 - offset).toNat < n := by omega
      refine ⟨hlt, ?_⟩
      rw [List.getD_eq_getElem?_getD, List.getElem?_range hlt]; rfl
  have hnn_iff : (∀ c ∈ cycles, ∀ v ∈ c, 0 ≤ v - offset) ↔ ∀ v ∈ cycles.flatten, 0 ≤ v - offset := by
    simp only [List.mem_flatten]
    constructor
    · rintro h v ⟨c, hc, hv⟩; exact h c hc v hv
    · intro h c hc v hv; exact h v ⟨c, hc, hv⟩
  constructor
  · intro h
    obtain ⟨p, hp⟩ := Option.isSome_iff_exists.1 h
    obtain ⟨h1, h2⟩ := (fromCycles_some_iff_runW n cycles offset p).1 hp
    have h1' := hnn_iff.1 h1
    obtain ⟨h3, h4⟩ := (runW_isSome_iff n _ (List.range n) (by simp)).1 (by rw [h2]; rfl)
    exact ⟨fun v hv => ⟨h1' v hv, (hrange h1').1 h3 v hv⟩, (hconv h1').1 h4⟩
  · rintro ⟨h1, h2⟩
    have h1' : ∀ v ∈ cycles.flatten, 0 ≤ v - offset := fun v hv => (h1 v hv).1
    have := (runW_isSome_iff n ((natCycles cycles offset).flatMap cycWrites) (List.range n) (by simp)).2
      ⟨(hrange h1').2 (fun v hv => (h1 v hv).2), (hconv h1').2 h2⟩
    obtain ⟨p, hp⟩ := Option.isSome_iff_exists.1 this
    rw [(fromCycles_some_iff_runW n cycles offset p).2 ⟨hnn_iff.2 h1', hp⟩]; rfl


theorem eq_of_nodup_map {α β : Type} (f : α → β) (l : List α) (h : (l.map f).Nodup) {a b : α}
    (ha : a ∈ l) (hb : b ∈ l) (e : f a = f b) : a = b := by
  induction l with
  | nil => simp at ha
  | cons x t ih =>
    rw [List.map_cons, List.nodup_cons] at h
    rcases List.mem_cons.1 ha with rfl | ha' <;> rcases List.mem_cons.1 hb with rfl | hb'
    · rfl
    · exact absurd (e ▸ List.mem_map_of_mem hb') h.1
    · exact absurd (e ▸ List.mem_map_of_mem ha') h.1
    · exact ih h.2 ha' hb'

theorem nodup_map_sub_iff (l : List Int) (offset : Int) :
    (l.map (· - offset)).Nodup ↔ l.Nodup := by
  simp only [List.nodup_iff_pairwise_ne, List.pairwise_map]
  apply List.Pairwise.iff
  intro a b; constructor <;> intro h e <;> apply h <;> omega

theorem nodup_flatten_iff_writes (cycles : List (List Int)) :
    cycles.flatten.Nodup ↔ (allWrites cycles).Pairwise (fun a b => a.1 ≠ b.1) := by
  rw [← allWrites_map_fst, List.nodup_iff_pairwise_ne, List.pairwise_map]

/-- disjoint in-range cycles are always accepted (the stated condition is SUFFICIENT) -/
theorem fromCycles_isSome_of_nodup (n : Nat) (cycles : List (List Int)) (offset : Int)
    (hnd : (cycles.flatten.map (· - offset)).Nodup)
    (hr : ∀ v ∈ cycles.flatten, 0 ≤ v - offset ∧ v - offset < n) :
    (fromCycles n cycles offset).isSome = true := by
  rw [fromCycles_isSome_iff_exact]
  refine ⟨hr, ?_⟩
  rw [nodup_map_sub_iff, nodup_flatten_iff_writes] at hnd
  exact hnd.imp (fun h e => absurd e h)

/-- no cycle has two cyclically adjacent equal entries (in particular no cycle of length 1) -/
def NoFixedWrites (cycles : List (List Int)) : Prop :=
  ∀ c ∈ cycles, ∀ i, i < c.length → c.getD i 0 ≠ c.getD ((i + 1) % c.length) 0

instance (cycles : List (List Int)) : Decidable (NoFixedWrites cycles) := by
  unfold NoFixedWrites; infer_instance

/-- the stated equivalence holds exactly when no assignment is a fixed point `perm[c] = c`
(no 1-cycles, no cyclically adjacent repeated entries) -/
theorem fromCycles_some_iff (n : Nat) (cycles : List (List Int)) (offset : Int)
    (hnf : NoFixedWrites cycles) :
    (fromCycles n cycles offset).isSome = true ↔
      ((cycles.flatten.map (· - offset)).Nodup ∧
        ∀ v ∈ cycles.flatten, 0 ≤ v - offset ∧ v - offset < n) := by
  rw [fromCycles_isSome_iff_exact, nodup_map_sub_iff, nodup_flatten_iff_writes]
  have : (allWrites cycles).Pairwise (fun a b => a.1 = b.1 → a.2 = a.1) ↔
      (allWrites cycles).Pairwise (fun a b => a.1 ≠ b.1) := by
    apply List.Pairwise.iff_of_mem
    intro a b ha _
    obtain ⟨c, hc, i, hi, rfl⟩ := (mem_allWrites cycles a).1 ha
    have := hnf c hc i hi
    simp only
    constructor
    · intro h e; exact this (h e).symm
    · intro h e; exact absurd e h
  rw [this]
  exact ⟨fun ⟨a, b⟩ => ⟨b, a⟩, fun ⟨a, b⟩ => ⟨b, a⟩⟩

/-- without that hypothesis the stated equivalence FAILS: a 1-cycle `[0]` leaves `perm[0] = 0`
"unwritten", so the later cycle `[0,1]` may reuse `0`. -/
example : (fromCycles 2 [[0], [0, 1]] 0).isSome = true ∧
    ¬ (([[0], [0, 1]] : List (List Int)).flatten.map (· - 0)).Nodup := by decide
/-- and so does a repeated entry inside one cycle -/
example : fromCycles 2 [[0, 0, 1]] 0 = some [1, 0] ∧
    ¬ (([[0, 0, 1]] : List (List Int)).flatten.map (· - 0)).Nodup := by decide

/-- GENERAL specification of `permutation_from_cycles` (no side conditions): on success the result is
a permutation, all entries are in range, every assignment that is not a fixed point is visible in the
result, and positions that only received fixed-point assignments (or none) are fixed. -/
theorem fromCycles_spec_general (n : Nat) (cycles : List (List Int)) (offset : Int) (p : List Nat)
    (h : fromCycles n cycles offset = some p) :
    IsPermOf n p ∧
    (∀ v ∈ cycles.flatten, 0 ≤ v - offset ∧ v - offset < n) ∧
    (∀ c ∈ cycles, ∀ i, i < c.length → c.getD i 0 ≠ c.getD ((i + 1) % c.length) 0 →
        p.getD (c.getD i 0 - offset).toNat 0 = (c.getD ((i + 1) % c.length) 0 - offset).toNat) ∧
    (∀ k, k < n → (∀ c ∈ cycles, ∀ i, i < c.length → c.getD i 0 = ↑k + offset →
        c.getD ((i + 1) % c.length) 0 = ↑k + offset) → p.getD k 0 = k) := by
  have hr := ((fromCycles_isSome_iff_exact n cycles offset).1 (by rw [h]; rfl)).1
  obtain ⟨_, h2⟩ := (fromCycles_some_iff_runW n cycles offset p).1 h
  refine ⟨?_, hr, ?_, ?_⟩
  · exact flatMap_cycWrites_perm n _ _ _ (identity_isPerm n) h2
  · intro c hc i hi hne
    rw [natWrites_eq] at h2
    have hw : (c.getD i 0, c.getD ((i + 1) % c.length) 0) ∈ allWrites cycles :=
      (mem_allWrites _ _).2 ⟨c, hc, i, hi, rfl⟩
    have hm := allWrites_mem_flatten cycles _ hw
    have := (hr _ hm.1).1; have := (hr _ hm.2).1
    exact runW_written h2 (by simp) _ (List.mem_map.2 ⟨_, hw, rfl⟩) (by simp only; omega)
  · intro k hk hfix
    rw [natWrites_eq] at h2
    have := runW_unwritten h2 k (by
      intro w hw e
      obtain ⟨w', hw', rfl⟩ := List.mem_map.1 hw
      obtain ⟨c, hc, i, hi, rfl⟩ := (mem_allWrites cycles w').1 hw'
      have hm := allWrites_mem_flatten cycles _ hw'
      have := (hr _ hm.1).1; have := (hr _ hm.2).1
      simp only at e ⊢
      have := hfix c hc i hi (by omega)
      omega)
    rw [this, List.getD_eq_getElem?_getD, List.getElem?_range hk]; rfl

/-- building from DISJOINT in-range cycles yields exactly those cycles (the statement as given needs
the disjointness hypothesis `hnd`, see the counterexample below) -/
theorem fromCycles_spec (n : Nat) (cycles : List (List Int)) (offset : Int) (p : List Nat)
    (h : fromCycles n cycles offset = some p)
    (hnd : (cycles.flatten.map (· - offset)).Nodup) :
    IsPermOf n p ∧
    (∀ c ∈ cycles, ∀ i, i < c.length →
        p.getD (c.getD i 0 - offset).toNat 0 = (c.getD ((i + 1) % c.length) 0 - offset).toNat) ∧
    (∀ k, k < n → (∀ c ∈ cycles, (↑k + offset) ∉ c) → p.getD k 0 = k) := by
  obtain ⟨g1, g2, g3, g4⟩ := fromCycles_spec_general n cycles offset p h
  rw [nodup_map_sub_iff, ← allWrites_map_fst] at hnd
  refine ⟨g1, ?_, ?_⟩
  · intro c hc i hi
    by_cases hne : c.getD i 0 = c.getD ((i + 1) % c.length) 0
    · -- a fixed-point write; by disjointness nothing else touches this position
      have hw : (c.getD i 0, c.getD ((i + 1) % c.length) 0) ∈ allWrites cycles :=
        (mem_allWrites _ _).2 ⟨c, hc, i, hi, rfl⟩
      have hm := allWrites_mem_flatten cycles _ hw
      have hr1 := g2 _ hm.1
      rw [← hne]
      have hk : (c.getD i 0 - offset).toNat < n := by omega
      apply g4 _ hk
      intro c' hc' j hj e
      have hw' : (c'.getD j 0, c'.getD ((j + 1) % c'.length) 0) ∈ allWrites cycles :=
        (mem_allWrites _ _).2 ⟨c', hc', j, hj, rfl⟩
      -- the two writes have the same target position, hence are the same write
      have e1 : c'.getD j 0 = c.getD i 0 := by omega
      have := eq_of_nodup_map (·.1) (allWrites cycles) hnd hw' hw e1
      simp only [Prod.mk.injEq] at this
      omega
    · exact g3 c hc i hi hne
  · intro k hk hnot
    apply g4 k hk
    intro c hc i hi e
    exfalso
    apply hnot c hc
    rw [← e, List.getD_eq_getElem?_getD, List.getElem?_eq_getElem hi]
    exact List.getElem_mem hi


/-- the statement WITHOUT the disjointness hypothesis is false: here `fromCycles` succeeds but the
1-cycle `[0]` is not a cycle of the result (`p[0] = 1`). -/
example : fromCycles 2 [[0], [0, 1]] 0 = some [1, 0] ∧
    ¬ (([1, 0] : List Nat).getD ((([0] : List Int).getD 0 0) - 0).toNat 0 =
        ((([0] : List Int).getD ((0 + 1) % ([0] : List Int).length) 0) - 0).toNat) := by decide


/-! ### unguarded write sequences and `partitionToPermutation` -/

/-- if a duplicate-free list is contained in a list that is not longer, the two are permutations of
each other -/
theorem perm_of_nodup_subset_length {α : Type} [DecidableEq α] (l₁ l₂ : List α) (hnd : l₁.Nodup)
    (hsub : l₁ ⊆ l₂) (hlen : l₂.length ≤ l₁.length) : l₁.Perm l₂ := by
  induction l₁ generalizing l₂ with
  | nil =>
    have : l₂ = [] := by simpa using hlen
    subst this; exact List.Perm.refl _
  | cons a t ih =>
    rw [List.nodup_cons] at hnd
    have ha : a ∈ l₂ := hsub (List.mem_cons_self ..)
    have htsub : t ⊆ l₂.erase a := by
      intro x hx
      have hxa : x ≠ a := fun h => hnd.1 (h ▸ hx)
      exact (List.mem_erase_of_ne hxa).2 (hsub (List.mem_cons_of_mem _ hx))
    have hlen' : (l₂.erase a).length ≤ t.length := by
      rw [List.length_erase]; simp [ha]; simp at hlen; omega
    exact ((ih _ hnd.2 htsub hlen').cons a).trans (List.perm_cons_erase ha).symm

/-- a list of length `n` containing every `k < n` is a permutation of `n` -/
theorem isPermOf_of_surj {n : Nat} {q : List Nat} (hl : q.length = n) (hs : ∀ k, k < n → k ∈ q) :
    IsPermOf n q := by
  rw [isPermOf_iff_perm]
  apply List.Perm.symm
  apply perm_of_nodup_subset_length _ _ List.nodup_range
  · intro k hk; exact hs k (List.mem_range.1 hk)
  · simp [hl]

def writeAll (ws : List (Nat × Nat)) (P : List Nat) : List Nat :=
  ws.foldl (fun perm w => perm.set w.1 w.2) P

@[simp] theorem length_writeAll (ws : List (Nat × Nat)) (P : List Nat) :
    (writeAll ws P).length = P.length := by
  induction ws generalizing P with
  | nil => rfl
  | cons w t ih => simp [writeAll, List.foldl_cons] at ih ⊢; rw [ih]; simp

theorem writeAll_append (ws ws' : List (Nat × Nat)) (P : List Nat) :
    writeAll (ws ++ ws') P = writeAll ws' (writeAll ws P) := by
  simp [writeAll, List.foldl_append]

theorem writeAll_getD_of_not_mem (ws : List (Nat × Nat)) (P : List Nat) (k : Nat)
    (h : ∀ w ∈ ws, w.1 ≠ k) : (writeAll ws P).getD k 0 = P.getD k 0 := by
  induction ws generalizing P with
  | nil => rfl
  | cons w t ih =>
    have := ih (P.set w.1 w.2) (fun w' hw' => h w' (by simp [hw']))
    simp only [writeAll, List.foldl_cons] at this ⊢
    rw [this, getD_set_ne' _ _ _ _ (h w (by simp))]

theorem writeAll_getD_of_mem (ws : List (Nat × Nat)) (P : List Nat) (hnd : (ws.map (·.1)).Nodup)
    (hlt : ∀ w ∈ ws, w.1 < P.length) (w : Nat × Nat) (hw : w ∈ ws) :
    (writeAll ws P).getD w.1 0 = w.2 := by
  induction ws generalizing P with
  | nil => simp at hw
  | cons w0 t ih =>
    rw [List.map_cons, List.nodup_cons] at hnd
    have e : writeAll (w0 :: t) P = writeAll t (P.set w0.1 w0.2) := rfl
    rw [e]
    rcases List.mem_cons.1 hw with rfl | hw'
    · rw [writeAll_getD_of_not_mem]
      · exact getD_set_eq' _ _ _ (hlt w (by simp))
      · intro w' hw' e'
        exact hnd.1 (e' ▸ List.mem_map_of_mem (f := (·.1)) hw')
    · exact ih _ hnd.2 (fun w' hw' => by simpa using hlt w' (by simp [hw'])) hw'

/-- the assignments of one cycle in `partitionToPermutation` -/
def blockW (cycle : List Nat) (size : Nat) : List (Nat × Nat) :=
  (List.range size).map fun i => (cycle.getD i 0, cycle.getD ((i + 1) % size) 0)

theorem blockW_map_fst (cycle : List Nat) : (blockW cycle cycle.length).map (·.1) = cycle := by
  apply List.ext_getElem (by simp [blockW])
  intro i h1 h2
  simp [blockW, List.getElem?_eq_getElem h2]

theorem blockW_map_snd_perm (cycle : List Nat) :
    ((blockW cycle cycle.length).map (·.2)).Perm cycle := by
  cases cycle with
  | nil => simp [blockW]
  | cons a tail =>
    have : (blockW (a :: tail) (a :: tail).length).map (·.2) = tail ++ [a] := by
      simp only [blockW, List.length_cons, List.range_succ, List.map_append, List.map_map,
        List.map_cons, List.map_nil]
      congr 1
      · apply List.ext_getElem (by simp)
        intro i h1 h2
        have hi : i < tail.length := h2
        simp [Nat.mod_eq_of_lt (by omega : i + 1 < tail.length + 1), List.getElem?_eq_getElem hi]
      · simp
    rw [this]
    exact List.perm_append_singleton a tail

/-- the loop body of `partitionToPermutation` -/
def ptpStep (els : List Nat) (acc : List Nat × Nat) (size : Nat) : List Nat × Nat :=
  let cycle := (els.drop acc.2).take size
  let perm := (List.range size).foldl
    (fun perm i => perm.set (cycle.getD i 0) (cycle.getD ((i + 1) % size) 0)) acc.1
  (perm, acc.2 + size)

theorem partitionToPermutation_eq (lens els : List Nat) :
    partitionToPermutation lens els =
      (lens.foldl (ptpStep els) (List.replicate lens.sum 0, 0)).1 := rfl

/-- all assignments of `partitionToPermutation`, in order -/
def ptpWrites (els : List Nat) : List Nat → Nat → List (Nat × Nat)
  | [], _ => []
  | size :: t, off => blockW ((els.drop off).take size) size ++ ptpWrites els t (off + size)

theorem ptpStep_eq (els : List Nat) (acc : List Nat × Nat) (size : Nat) :
    ptpStep els acc size =
      (writeAll (blockW ((els.drop acc.2).take size) size) acc.1, acc.2 + size) := by
  simp [ptpStep, writeAll, blockW, List.foldl_map]

theorem ptp_foldl (els lens : List Nat) (acc : List Nat × Nat) :
    (lens.foldl (ptpStep els) acc).1 = writeAll (ptpWrites els lens acc.2) acc.1 := by
  induction lens generalizing acc with
  | nil => rfl
  | cons size t ih =>
    rw [List.foldl_cons, ih, ptpStep_eq]
    simp only [ptpWrites, writeAll_append]

theorem ptpWrites_fst (els lens : List Nat) (off : Nat) (h : off + lens.sum ≤ els.length) :
    (ptpWrites els lens off).map (·.1) = (els.drop off).take lens.sum := by
  induction lens generalizing off with
  | nil => simp [ptpWrites]
  | cons size t ih =>
    simp only [List.sum_cons] at h
    have hl : ((els.drop off).take size).length = size := by simp; omega
    simp only [ptpWrites, List.map_append, List.sum_cons]
    rw [ih (off + size) (by omega), List.take_add, List.drop_drop]
    congr 1
    have := blockW_map_fst ((els.drop off).take size)
    rw [hl] at this
    exact this

theorem ptpWrites_snd (els lens : List Nat) (off : Nat) (h : off + lens.sum ≤ els.length) :
    ((ptpWrites els lens off).map (·.2)).Perm ((els.drop off).take lens.sum) := by
  induction lens generalizing off with
  | nil => simp [ptpWrites]
  | cons size t ih =>
    simp only [List.sum_cons] at h
    have hl : ((els.drop off).take size).length = size := by simp; omega
    simp only [ptpWrites, List.map_append, List.sum_cons]
    rw [List.take_add, List.drop_drop]
    apply List.Perm.append
    · have := blockW_map_snd_perm ((els.drop off).take size)
      rw [hl] at this
      exact this
    · exact ih (off + size) (by omega)

/-- `partition_to_permutation` returns a permutation (for ANY cycle lengths, zeros included, and any
arrangement `els` of `0..n-1`, e.g. the shuffled one) -/
theorem partitionToPermutation_isPerm (lens els : List Nat)
    (hels : els.Perm (List.range lens.sum)) :
    IsPermOf lens.sum (partitionToPermutation lens els) := by
  have hlen : els.length = lens.sum := by simpa using hels.length_eq
  have hE := (isPermOf_iff_perm _ _).2 hels
  rw [partitionToPermutation_eq, ptp_foldl]
  have hfst := ptpWrites_fst els lens 0 (by omega)
  have hsnd := ptpWrites_snd els lens 0 (by omega)
  simp only [List.drop_zero] at hfst hsnd
  rw [← hlen, List.take_length] at hfst hsnd
  apply isPermOf_of_surj (by simp)
  intro k hk
  have hk1 : k ∈ els := hE.mem_of_lt hk
  have hk2 : k ∈ (ptpWrites els lens 0).map (·.2) := hsnd.symm.subset hk1
  obtain ⟨w, hw, rfl⟩ := List.mem_map.1 hk2
  have hw1 : w.1 ∈ els := by rw [← hfst]; exact List.mem_map_of_mem (f := (·.1)) hw
  have hlt : w.1 < lens.sum := hE.lt _ hw1
  have := writeAll_getD_of_mem (ptpWrites els lens 0) (List.replicate lens.sum 0)
    (by rw [hfst]; exact hE.nodup)
    (by intro w' hw'
        have : w'.1 ∈ els := by rw [← hfst]; exact List.mem_map_of_mem (f := (·.1)) hw'
        simpa using hE.lt _ this) w hw
  rw [← this]
  rw [getD_eq_getElem (by simpa using hlt)]
  exact List.getElem_mem _

end Cv.Perm
