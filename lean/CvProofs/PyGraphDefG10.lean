/-
  G10 — the permutation branch of `CayleyGraphDef.revert_path` / `with_inverted_generators`, REGENERATED from
  `cayley_graph_def.py` (`CvGen/PyGraphDef.lean`), equals the hand-written model (`CvModel/GraphDef.lean`).
  Part 1: small bridge lemmas, `revert_path`, `with_inverted_generators`.  Core Lean only.
-/
import CvModel.PyPrelude
import CvModel.PyBridge
import CvGen.PyGraphDef
import CvProofs.GraphDef
import CvProofs.PyPermG1b
import CvProofs.PyLemmasG5

namespace Cv.PyG10
open Cv.Py Cv.PyGen Cv.GraphDef Cv.Perm

/-! ### bridge lemmas -/

theorem toI_reverse (l : List Nat) : (toI l).reverse = toI l.reverse := by
  simp [toI]

theorem toI_eq_iff (a b : List Nat) : toI a = toI b ↔ a = b :=
  ⟨PyG1.toI_injective, fun h => by rw [h]⟩

theorem toI_beq (a b : List Nat) : (toI a == toI b) = (a == b) := by
  rw [Bool.eq_iff_iff]
  simp [toI_eq_iff]

theorem getElem?_map_toI_beq (L : List (List Nat)) (j : Nat) (q : List Nat) :
    ((L.map toI)[j]? == some (toI q)) = (L[j]? == some q) := by
  rw [List.getElem?_map]
  cases L[j]? with
  | none => rfl
  | some a =>
    rw [Bool.eq_iff_iff]
    simp [toI_eq_iff]

theorem contains_map_toI (L : List (List Nat)) (q : List Nat) :
    (L.map toI).contains (toI q) = L.contains q := by
  rw [Bool.eq_iff_iff]
  simp only [List.contains_iff_mem, List.mem_map]
  constructor
  · rintro ⟨a, ha, e⟩
    rw [← PyG1.toI_injective e]; exact ha
  · intro h; exact ⟨q, h, rfl⟩

theorem pyGet_map_toI (L : List (List Nat)) (i : Nat) :
    pyGet (L.map toI) (i : Int) = (L[i]?).map toI := by
  rw [PyG1.pyGet_nat, List.getElem?_map]

/-- `[inverse_permutation(p) for p in gens]` on in-range generators -/
theorem mapM_inverse_permutation (gens : List (List Nat)) (h : ∀ p ∈ gens, ∀ i ∈ p, i < p.length) :
    List.mapM PyGen.Perm.inverse_permutation (gens.map toI) = some ((gens.map Cv.Perm.inverse).map toI) := by
  induction gens with
  | nil => rfl
  | cons p t ih =>
    simp only [List.map_cons, List.mapM_cons]
    rw [PyG1.inverse_permutation_gen p (h p List.mem_cons_self),
      ih (fun q hq => h q (List.mem_cons_of_mem _ hq))]
    rfl

/-! ### `revert_path` -/

theorem revert_path_gen (idx : Option (List Nat)) (path : List Nat) :
    GraphDef.revert_path (idx.map toI) (toI path) = (revertPath idx path).map toI := by
  cases idx with
  | none => rfl
  | some m =>
    unfold GraphDef.revert_path revertPath
    simp only [Option.map_some, Option.isSome_some, pyAssert, if_true, Option.bind_eq_bind, Option.bind_some]
    rw [toI_reverse]
    show List.mapM _ (path.reverse.map Int.ofNat) = _
    rw [PyG1.mapM_map_option]
    show _ = Option.map (List.map Int.ofNat) _
    rw [PyG1.map_mapM_option]
    congr 1
    funext i
    exact PyG1.pyGet_toI m i

/-! ### `with_inverted_generators` -/

theorem with_inverted_generators_raw (gens : List (List Nat)) (central : List Nat)
    (h : ∀ p ∈ gens, ∀ i ∈ p, i < p.length) :
    GraphDef.with_inverted_generators (gens.map toI) (toI central) =
      some (RawDef.mk ((gens.map Cv.Perm.inverse).map toI) (some (toI central)) none none) := by
  unfold GraphDef.with_inverted_generators
  simp only [Option.bind_eq_bind, Option.pure_def]
  rw [mapM_inverse_permutation gens h]
  rfl

theorem rawToPermDef_inverted (gens : List (List Nat)) (central : List Nat) :
    rawToPermDef (RawDef.mk (gens.map toI) (some (toI central)) none none) =
      PermDef.create gens none (some central) := by
  simp only [rawToPermDef, PyG5.mapM_toN_toI, PyG5.toN_toI, Option.map_some]
  rfl

/-- in-range generators are enough -/
theorem with_inverted_generators_gen' (d : PermDef) (h : ∀ p ∈ d.gens, ∀ i ∈ p, i < p.length) :
    (GraphDef.with_inverted_generators (d.gens.map toI) (toI d.central)).bind rawToPermDef = d.inverted := by
  rw [with_inverted_generators_raw _ _ h, Option.bind_some, rawToPermDef_inverted]
  rfl

theorem with_inverted_generators_gen (d : PermDef) (hv : ∀ p ∈ d.gens, IsPermOf d.central.length p) :
    (GraphDef.with_inverted_generators (d.gens.map toI) (toI d.central)).bind rawToPermDef = d.inverted :=
  with_inverted_generators_gen' d (fun p hp i hi => by
    rw [(hv p hp).length_eq]; exact (hv p hp).lt i hi)

end Cv.PyG10
