/-
  Worker g3: the generated constructors (`CvGen/PyFamilies.lean`) with a fixed or single-loop generator list
  equal the closed-form specification (`CvModel/Families.lean`) through `rawToPermDef`.
-/
import CvProofs.PyLemmasG3
import CvProofs.Families
namespace Cv.PyG3
open Cv.Py Cv.Families Cv.GraphDef Cv.Perm Cv.PyGen

/-! ### generators -/

theorem gen_shiftL (n : Nat) (hn : 1 ≤ n) :
    pyRange (1 : Int) (n : Int) (1 : Int) ++ [(0 : Int)] = toI (oneLine n (shiftLFn n)) := by
  rw [pyRange_up_of 1 n 1 n rfl rfl]
  show toI (List.range' 1 (n - 1)) ++ toI [0] = _
  rw [← toI_append]
  congr 1
  apply List.ext_getElem
  · simp; omega
  · intro p h1 h2
    simp at h1
    simp only [oneLine, shiftLFn, List.getElem_map, List.getElem_range, List.getElem_append]
    split
    · rename_i h; simp at h
      rw [List.getElem_range', Nat.mod_eq_of_lt (by omega)]; omega
    · rename_i h; simp at h
      have : p + 1 = n := by omega
      rw [this, Nat.mod_self]; simp

theorem gen_shiftR (n : Nat) (hn : 1 ≤ n) :
    [(n : Int) - 1] ++ pyRange (0 : Int) ((n : Int) - 1) (1 : Int) = toI (oneLine n (shiftRFn n)) := by
  rw [pyRange_up_of 0 ((n : Int) - 1) 0 (n - 1) rfl (by omega)]
  have : [(n : Int) - 1] = toI [n - 1] := by simp [toI]; omega
  rw [this, ← toI_append]
  congr 1
  apply List.ext_getElem
  · simp; omega
  · intro p h1 h2
    simp at h1
    simp only [oneLine, shiftRFn, List.getElem_map, List.getElem_range]
    cases p with
    | zero => simp
    | succ q =>
      simp
      rw [show q + 1 + (n - 1) = n + q by omega, Nat.add_mod_left, Nat.mod_eq_of_lt (by omega)]

theorem gen_prefixRev (k n : Nat) (hk : k ≤ n) :
    pyRange ((k : Int) - 1) (-(1 : Int)) (-(1 : Int)) ++ pyRange (k : Int) (n : Int) (1 : Int)
      = toI (oneLine n (prefixRevFn k)) := by
  rw [pyRange_down_of ((k : Int) - 1) (-1) k 0 (by omega) (by omega), pyRange_up_of k n k n rfl rfl,
    ← toI_append]
  congr 1
  apply List.ext_getElem
  · simp; omega
  · intro p h1 h2
    simp at h1
    simp only [oneLine, prefixRevFn, List.getElem_map, List.getElem_range, List.getElem_append]
    split
    · rename_i h; simp at h
      simp [List.getElem_reverse, h]
    · rename_i h; simp at h
      have : ¬ p < k := by omega
      simp [this]; omega

/-! ### lx -/

theorem identity_range (n : Nat) : pyRange (0 : Int) (n : Int) (1 : Int) = toI (List.range n) := by
  rw [pyRange_up_of 0 n 0 n rfl rfl, Nat.sub_zero, List.range_eq_range']

theorem lx_gen (n : Nat) : (Fam.lx (n : Int)).bind rawToPermDef = Families.lx n := by
  by_cases hn : 3 ≤ n
  · have hspec := permFamily_lx n
    unfold Families.lx at hspec ⊢
    rw [if_pos hn] at hspec ⊢
    have hv := lx_valid n _ hspec
    have ht : Cv.PyGen.Perm.transposition (n : Int) 0 1 = some (toI (oneLine n (swapFn 0 1))) :=
      transposition_eq n 0 1 (by omega) (by omega) (by omega)
    have ha : decide ((n : Int) ≥ 3) = true := by simp; omega
    unfold Fam.lx
    rw [ha, ht, gen_shiftL n (by omega), identity_range]
    simp only [pyAssert_true, Option.bind_eq_bind, Option.bind_some, pure]
    exact rawToPermDef_of _ _ n rfl rfl rfl rfl hv (by simp) (by omega)
  · have ha : decide ((n : Int) ≥ 3) = false := by simp; omega
    unfold Fam.lx Families.lx
    rw [ha, if_neg hn]
    rfl

theorem lx_gen_neg (n : Int) (h : n < 0) : Fam.lx n = none := by
  have ha : decide (n ≥ 3) = false := by simp; omega
  unfold Fam.lx
  rw [ha]; rfl

/-! ### lrx -/

theorem lrx_gen (n k : Nat) : (Fam.lrx (n : Int) (k : Int)).bind rawToPermDef = Families.lrx n k := by
  by_cases hn : 3 ≤ n ∧ 1 ≤ k ∧ k < n
  · have hspec := permFamily_lrx n k
    unfold Families.lrx at hspec ⊢
    rw [if_pos hn] at hspec ⊢
    have hv := lrx_valid n k _ hspec
    have ht : Cv.PyGen.Perm.transposition (n : Int) 0 (k : Int) = some (toI (oneLine n (swapFn 0 k))) :=
      transposition_eq n 0 k (by omega) (by omega) (by omega)
    have ha : decide ((n : Int) ≥ 3) = true := by simp; omega
    unfold Fam.lrx
    rw [ha, ht, gen_shiftL n (by omega), gen_shiftR n (by omega), identity_range]
    simp only [pyAssert_true, Option.bind_eq_bind, Option.bind_some, pure]
    by_cases hk : k = 1
    · subst hk
      simp only [show (((1 : Nat) : Int) != 1) = false by decide, Bool.false_eq_true, if_false,
        Option.bind_some]
      exact rawToPermDef_of _ _ n rfl rfl rfl (by simp [pyStr_nat, showNat]) hv (by simp) (by omega)
    · have : ((k : Int) != 1) = true := by simp; omega
      simp only [this, if_true, Option.bind_some]
      exact rawToPermDef_of _ _ n rfl rfl rfl (by simp [pyStr_nat, showNat, hk]) hv (by simp) (by omega)
  · unfold Families.lrx
    rw [if_neg hn]
    by_cases h3 : 3 ≤ n
    · have ht : Cv.PyGen.Perm.transposition (n : Int) 0 (k : Int) = none :=
        transposition_none _ _ _ (by omega)
      unfold Fam.lrx
      rw [ht]
      simp [pyAssert]
    · have ha : decide ((n : Int) ≥ 3) = false := by simp; omega
      unfold Fam.lrx
      rw [ha]; rfl

theorem lrx_gen_neg (n k : Int) (h : n < 0) : Fam.lrx n k = none := by
  have ha : decide (n ≥ 3) = false := by simp; omega
  unfold Fam.lrx
  rw [ha]; rfl

theorem lrx_gen_neg_k (n k : Int) (h : k < 0) : Fam.lrx n k = none := by
  unfold Fam.lrx
  rw [transposition_none _ _ _ (by omega)]
  simp [pyAssert]

/-! ### pancake -/

theorem pancake_gen (n : Nat) : (Fam.pancake (n : Int)).bind rawToPermDef = Families.pancake n := by
  by_cases hn : 2 ≤ n
  · have hspec := permFamily_pancake n
    unfold Families.pancake at hspec ⊢
    rw [if_pos hn] at hspec ⊢
    have hv := pancake_valid n _ hspec
    have ha : decide ((n : Int) ≥ 2) = true := by simp; omega
    unfold Fam.pancake
    rw [ha, identity_range, pyRange_up_of 2 ((n : Int) + 1) 2 (n + 1) rfl (by omega)]
    simp only [pyAssert_true, Option.bind_eq_bind, Option.bind_some]
    rw [foldlM_toI_acc2 _ _ (fun m => toI (oneLine n (prefixRevFn m))) (fun m => "R" ++ toString (m - 1))]
    · simp only [Option.bind_some, pure]
      refine rawToPermDef_of _ _ n ?_ rfl ?_ (by simp [pyStr_nat, showNat, mk]) hv ?_ (by omega)
      · simp [mk, List.range'_eq_map_range, Function.comp_def, Nat.add_comm]
      · simp [mk, List.range'_eq_map_range, Function.comp_def, Nat.add_comm, showNat]
      · simp [mk]; omega
    · intro st m hm
      simp only [List.mem_range'_1] at hm
      show some (st.1 ++ [pyRange ((m : Int) - 1) (-(1 : Int)) (-(1 : Int)) ++ pyRange (m : Int) (n : Int) 1],
        st.2 ++ ["R" ++ pyStr ((m : Int) - 1)]) = _
      rw [gen_prefixRev m n (by omega), show (m : Int) - 1 = ((m - 1 : Nat) : Int) by omega, pyStr_nat]
  · have ha : decide ((n : Int) ≥ 2) = false := by simp; omega
    unfold Fam.pancake Families.pancake
    rw [ha, if_neg hn]
    rfl

theorem pancake_gen_neg (n : Int) (h : n < 0) : Fam.pancake n = none := by
  have ha : decide (n ≥ 2) = false := by simp; omega
  unfold Fam.pancake
  rw [ha]; rfl

/-! ### coxeter, cyclic_coxeter -/

theorem range_pred (n : Nat) :
    pyRange (0 : Int) ((n : Int) - 1) (1 : Int) = toI (List.range (n - 1)) := by
  by_cases hn : 1 ≤ n
  · rw [pyRange_up_of 0 ((n : Int) - 1) 0 (n - 1) rfl (by omega), Nat.sub_zero, List.range_eq_range']
  · have : n = 0 := by omega
    subst this; rfl

theorem create_coxeter_generators_eq (n : Nat) :
    Fam._create_coxeter_generators (n : Int)
      = some ((List.range (n - 1)).map fun i => toI (oneLine n (swapFn i (i + 1)))) := by
  unfold Fam._create_coxeter_generators
  rw [range_pred]
  rw [mapM_toI_some _ _ (fun i => toI (oneLine n (swapFn i (i + 1))))]
  intro m hm
  simp only [List.mem_range] at hm
  rw [show (m : Int) + 1 = ((m + 1 : Nat) : Int) by omega,
    transposition_eq n m (m + 1) (by omega) (by omega) (by omega)]

theorem coxeter_names_eq (n : Nat) :
    List.map (fun i : Int => ("(" ++ pyStr i ++ "," ++ pyStr (i + (1 : Int)) ++ ")"))
        (pyRange (0 : Int) ((n : Int) - 1) (1 : Int))
      = (List.range (n - 1)).map fun i => s!"({i},{i + 1})" := by
  rw [range_pred]
  unfold toI
  rw [List.map_map]
  apply List.map_congr_left
  intro m _
  simp only [Function.comp_apply]
  rw [show Int.ofNat m + 1 = ((m + 1 : Nat) : Int) from rfl, pyStr_nat, pyStr_ofNat]
  rfl

theorem coxeter_gen (n : Nat) : (Fam.coxeter (n : Int)).bind rawToPermDef = Families.coxeter n := by
  by_cases hn : 2 ≤ n
  · have hspec := permFamily_coxeter n
    unfold Families.coxeter at hspec ⊢
    rw [if_pos hn] at hspec ⊢
    have hv := coxeter_valid n _ hspec
    have ha : decide ((n : Int) ≥ 2) = true := by simp; omega
    unfold Fam.coxeter
    rw [ha, identity_range, create_coxeter_generators_eq, coxeter_names_eq]
    simp only [pyAssert_true, Option.bind_eq_bind, Option.bind_some, pure]
    refine rawToPermDef_of _ _ n ?_ rfl rfl (by simp [pyStr_nat, showNat, mk]) hv ?_ (by omega)
    · simp [mk]
    · simp [mk]; omega
  · have ha : decide ((n : Int) ≥ 2) = false := by simp; omega
    unfold Fam.coxeter Families.coxeter
    rw [ha, if_neg hn]
    rfl

theorem coxeter_gen_neg (n : Int) (h : n < 0) : Fam.coxeter n = none := by
  have ha : decide (n ≥ 2) = false := by simp; omega
  unfold Fam.coxeter
  rw [ha]; rfl

theorem cyclic_coxeter_gen (n : Nat) :
    (Fam.cyclic_coxeter (n : Int)).bind rawToPermDef = Families.cyclicCoxeter n := by
  by_cases hn : 2 ≤ n
  · have hspec := permFamily_cyclicCoxeter n
    unfold Families.cyclicCoxeter at hspec ⊢
    rw [if_pos hn] at hspec ⊢
    have hv := cyclic_coxeter_valid n _ hspec
    have ha : decide ((n : Int) ≥ 2) = true := by simp; omega
    have ht : Cv.PyGen.Perm.transposition (n : Int) 0 ((n : Int) - 1)
        = some (toI (oneLine n (swapFn 0 (n - 1)))) := by
      rw [show (n : Int) - 1 = ((n - 1 : Nat) : Int) by omega]
      exact transposition_eq n 0 (n - 1) (by omega) (by omega) (by omega)
    have hr : List.range n = List.range (n - 1) ++ [n - 1] := by
      rw [← List.range_succ]; congr 1; omega
    unfold Fam.cyclic_coxeter
    rw [ha, identity_range, create_coxeter_generators_eq, coxeter_names_eq, ht]
    simp only [pyAssert_true, Option.bind_eq_bind, Option.bind_some, pure]
    refine rawToPermDef_of _ _ n ?_ rfl ?_ (by simp [pyStr_nat, showNat, mk]) hv ?_ (by omega)
    · simp only [mk]
      conv => rhs; rw [hr]
      simp only [List.map_append, List.map_map, List.map_cons, List.map_nil]
      congr 1
      · apply List.map_congr_left
        intro i hi
        simp only [List.mem_range] at hi
        simp [show i + 1 < n by omega]
      · simp [show ¬ (n - 1 + 1 < n) by omega]
    · simp only [mk]
      conv => rhs; rw [hr]
      simp only [List.map_append, List.map_cons, List.map_nil, Option.some.injEq]
      congr 1
      · apply List.map_congr_left
        intro i hi
        simp only [List.mem_range] at hi
        simp [show i + 1 < n by omega]
      · rw [show (n : Int) - 1 = ((n - 1 : Nat) : Int) by omega, pyStr_nat]
        simp [show ¬ (n - 1 + 1 < n) by omega]
        rfl
    · simp [mk]; omega
  · have ha : decide ((n : Int) ≥ 2) = false := by simp; omega
    unfold Fam.cyclic_coxeter Families.cyclicCoxeter
    rw [ha, if_neg hn]
    rfl

theorem cyclic_coxeter_gen_neg (n : Int) (h : n < 0) : Fam.cyclic_coxeter n = none := by
  have ha : decide (n ≥ 2) = false := by simp; omega
  unfold Fam.cyclic_coxeter
  rw [ha]; rfl

/-! ### stars -/

theorem stars_gen (n : Nat) : (Fam.stars (n : Int)).bind rawToPermDef = Families.stars n := by
  by_cases hn : 3 ≤ n
  · have hspec := permFamily_stars n
    unfold Families.stars at hspec ⊢
    rw [if_pos hn] at hspec ⊢
    have hv := stars_valid n _ hspec
    have ha : decide ((n : Int) ≥ 3) = true := by simp; omega
    unfold Fam.stars
    rw [ha, identity_range, pyRange_up_of 1 n 1 n rfl rfl]
    simp only [pyAssert_true, Option.bind_eq_bind, Option.bind_some]
    rw [foldlM_toI_acc2 _ _ (fun m => toI (oneLine n (swapFn 0 m))) (fun m => "S" ++ toString m)]
    · simp only [Option.bind_some, pure]
      refine rawToPermDef_of _ _ n ?_ rfl ?_ (by simp [pyStr_nat, showNat, mk]) hv ?_ (by omega)
      · simp [mk, Function.comp_def]
      · simp [mk, showNat]
      · simp [mk]; omega
    · intro st m hm
      simp only [List.mem_range'_1] at hm
      have ht : Cv.PyGen.Perm.transposition (n : Int) 0 (m : Int) = some (toI (oneLine n (swapFn 0 m))) :=
        transposition_eq n 0 m (by omega) (by omega) (by omega)
      simp only [ht, Option.bind_some, pure]
      rfl
  · have ha : decide ((n : Int) ≥ 3) = false := by simp; omega
    unfold Fam.stars Families.stars
    rw [ha, if_neg hn]
    rfl

theorem stars_gen_neg (n : Int) (h : n < 0) : Fam.stars n = none := by
  have ha : decide (n ≥ 3) = false := by simp; omega
  unfold Fam.stars
  rw [ha]; rfl

/-! ### top_spin -/

theorem top_spin_gen (n k : Nat) :
    (Fam.top_spin (n : Int) (k : Int)).bind rawToPermDef = Families.topSpin n k := by
  by_cases hn : 2 ≤ k ∧ k ≤ n
  · have hspec := permFamily_topSpin n k
    unfold Families.topSpin at hspec ⊢
    rw [if_pos hn] at hspec ⊢
    have hv := top_spin_valid n k _ hspec
    have ha : (decide ((n : Int) ≥ (k : Int)) && decide ((k : Int) ≥ 2)) = true := by simp; omega
    unfold Fam.top_spin
    rw [ha, identity_range, gen_shiftL n (by omega), gen_shiftR n (by omega), gen_prefixRev k n hn.2]
    simp only [pyAssert_true, Option.bind_eq_bind, Option.bind_some, pure]
    exact rawToPermDef_of_defaultNames _ _ n rfl rfl rfl rfl (by simp [pyStr_nat, showNat]) hv
      (by simp) (by omega)
  · have ha : (decide ((n : Int) ≥ (k : Int)) && decide ((k : Int) ≥ 2)) = false := by
      simp only [ge_iff_le, Bool.and_eq_false_imp, decide_eq_true_eq, decide_eq_false_iff_not]; omega
    unfold Fam.top_spin Families.topSpin
    rw [ha, if_neg hn]
    rfl

theorem top_spin_gen_neg (n k : Int) (h : n < 0 ∨ k < 0) : Fam.top_spin n k = none := by
  have ha : (decide (n ≥ k) && decide (k ≥ 2)) = false := by
    simp only [ge_iff_le, Bool.and_eq_false_imp, decide_eq_true_eq, decide_eq_false_iff_not]; omega
  unfold Fam.top_spin
  rw [ha]; rfl

end Cv.PyG3
