/-
  `lookup` (model of `prepare_graph`) returns the constructor's definition, and own names map back.
  Core Lean only.
-/
import CvProofs.FamiliesBase
namespace Cv.Families
open Cv.Perm Cv.GraphDef

/-! ### Python's `int(str(m)) = m` in the model -/

theorem digit_facts (d : Nat) (hd : d < 10) :
    decDigit? (Nat.digitChar d) = some d ∧ isPySpace (Nat.digitChar d) = false ∧
    Nat.digitChar d ≠ '-' ∧ Nat.digitChar d ≠ '+' := by
  have : d = 0 ∨ d = 1 ∨ d = 2 ∨ d = 3 ∨ d = 4 ∨ d = 5 ∨ d = 6 ∨ d = 7 ∨ d = 8 ∨ d = 9 := by omega
  rcases this with rfl | rfl | rfl | rfl | rfl | rfl | rfl | rfl | rfl | rfl <;> decide

/-- a list of decimal digit characters, with its digit values -/
def IsDigs (cs : List Char) (ds : List Nat) : Prop :=
  cs = ds.map Nat.digitChar ∧ ∀ d ∈ ds, d < 10

theorem stripUnderscores_digs (ds : List Nat) (hd : ∀ d ∈ ds, d < 10) :
    stripUnderscores true (ds.map Nat.digitChar) = some ds := by
  induction ds with
  | nil => rfl
  | cons d t ih =>
    have := digit_facts d (hd d (by simp))
    simp only [List.map_cons, stripUnderscores, this.1]
    rw [ih (fun x hx => hd x (by simp [hx]))]; rfl

theorem stripUnderscores_digs_false (ds : List Nat) (hd : ∀ d ∈ ds, d < 10) (hne : ds ≠ []) :
    stripUnderscores false (ds.map Nat.digitChar) = some ds := by
  cases ds with
  | nil => exact absurd rfl hne
  | cons d t =>
    have := digit_facts d (hd d (by simp))
    simp only [List.map_cons, stripUnderscores, this.1]
    rw [stripUnderscores_digs t (fun x hx => hd x (by simp [hx]))]; rfl

/-- digits of `m`, most significant first -/
def digitsOf : Nat → List Nat
  | m => if _h : m < 10 then [m] else digitsOf (m / 10) ++ [m % 10]
decreasing_by omega

theorem digitsOf_lt (m : Nat) : ∀ d ∈ digitsOf m, d < 10 := by
  induction m using Nat.strongRecOn with
  | _ m ih =>
    rw [digitsOf]
    split
    · intro d hd; simp at hd; omega
    · intro d hd
      rcases List.mem_append.1 hd with hd | hd
      · exact ih (m / 10) (by omega) d hd
      · simp at hd; omega

theorem digitsOf_ne_nil (m : Nat) : digitsOf m ≠ [] := by
  rw [digitsOf]; split <;> simp

theorem toDigits_eq_digitsOf (m : Nat) : Nat.toDigits 10 m = (digitsOf m).map Nat.digitChar := by
  induction m using Nat.strongRecOn with
  | _ m ih =>
    rw [Nat.toDigits_eq_if (by omega), digitsOf]
    split
    · rfl
    · rw [ih (m / 10) (by omega)]; simp

theorem digitsValue_digitsOf (m : Nat) : digitsValue (digitsOf m) = m := by
  induction m using Nat.strongRecOn with
  | _ m ih =>
    rw [digitsOf]
    split
    · simp [digitsValue]
    · have := ih (m / 10) (by omega)
      unfold digitsValue at this ⊢
      rw [List.foldl_append, this]
      simp only [List.foldl_cons, List.foldl_nil]
      omega

theorem dropWhile_space_digs (ds : List Nat) (hd : ∀ d ∈ ds, d < 10) (hne : ds ≠ []) :
    (ds.map Nat.digitChar).dropWhile isPySpace = ds.map Nat.digitChar := by
  cases ds with
  | nil => exact absurd rfl hne
  | cons d t =>
    have := digit_facts d (hd d (by simp))
    simp [this.2.1]

/-- `int(str(m)) == m` -/
theorem pyInt_toDigits (m : Nat) : pyInt (Nat.toDigits 10 m) = some (m : Int) := by
  rw [toDigits_eq_digitsOf]
  have hlt := digitsOf_lt m
  have hne := digitsOf_ne_nil m
  unfold pyInt
  simp only
  rw [dropWhile_space_digs _ hlt hne, ← List.map_reverse,
    dropWhile_space_digs _ (by simpa using hlt) (by simpa using hne), List.map_reverse,
    List.reverse_reverse]
  cases hds : digitsOf m with
  | nil => exact absurd hds hne
  | cons d t =>
    have hf := digit_facts d (hlt d (by simp [hds]))
    have hs := stripUnderscores_digs_false (d :: t) (by rw [← hds]; exact hlt) (by simp)
    simp only [List.map_cons] at hs ⊢
    split
    · rename_i h; simp only [List.cons.injEq] at h; exact absurd h.1 hf.2.2.1
    · rename_i h; simp only [List.cons.injEq] at h; exact absurd h.1 hf.2.2.2
    · rw [hs, ← hds, Option.map_some, digitsValue_digitsOf]

theorem pyIntNat_toString (m : Nat) : pyIntNat (toString m).toList = some m := by
  rw [Nat.toString_eq_repr, Nat.toList_repr]
  unfold pyIntNat
  rw [pyInt_toDigits]

/-! ### `lookup` dispatches to the documented constructor -/

theorem lookup_lx (n : Nat) (k : Option Nat) : lookup "lx" n k = permFamily "lx" [n] := rfl
theorem lookup_lrx (n : Nat) (k : Option Nat) : lookup "lrx" n k = permFamily "lrx" [n] := rfl
theorem lookup_top_spin (n : Nat) (k : Option Nat) :
    lookup "top_spin" n k = permFamily "top_spin" [n] := rfl
theorem lookup_all_transpositions (n : Nat) (k : Option Nat) :
    lookup "all_transpositions" n k = permFamily "all_transpositions" [n] := rfl
theorem lookup_transposons (n : Nat) (k : Option Nat) :
    lookup "transposons" n k = permFamily "transposons" [n] := rfl
theorem lookup_block_interchange (n : Nat) (k : Option Nat) :
    lookup "block_interchange" n k = permFamily "block_interchange" [n] := rfl
theorem lookup_full_reversals (n : Nat) (k : Option Nat) :
    lookup "full_reversals" n k = permFamily "full_reversals" [n] := rfl
theorem lookup_coxeter (n : Nat) (k : Option Nat) :
    lookup "coxeter" n k = permFamily "coxeter" [n] := rfl
theorem lookup_pancake (n : Nat) (k : Option Nat) :
    lookup "pancake" n k = permFamily "pancake" [n] := rfl
theorem lookup_all_cycles (n : Nat) (k : Option Nat) :
    lookup "all_cycles" n k = permFamily "all_cycles" [n] := rfl
theorem lookup_lsl_cycles (n : Nat) (k : Option Nat) :
    lookup "lsl_cycles" n k = permFamily "lsl_cycles" [n] := rfl
theorem lookup_larx (n : Nat) (k : Option Nat) : lookup "larx" n k = permFamily "larx" [n] := rfl
theorem lookup_01i (n : Nat) (k : Option Nat) :
    lookup "01i" n k = permFamily "three_cycles_01i" [n] := rfl
theorem lookup_increasing_k_cycles (n k : Nat) :
    lookup "increasing_k_cycles" n (some k) = permFamily "increasing_k_cycles" [n, k] := rfl
theorem lookup_consecutive_k_cycles (n k : Nat) :
    lookup "consecutive_k_cycles" n (some k) = permFamily "consecutive_k_cycles" [n, k] := rfl
/-- without the keyword argument `k` the library raises `KeyError` -/
theorem lookup_k_cycles_missing_k (n : Nat) :
    lookup "increasing_k_cycles" n none = none ∧ lookup "consecutive_k_cycles" n none = none :=
  ⟨rfl, rfl⟩
theorem lookup_down_cycles (n : Nat) (k : Option Nat) :
    lookup "down_cycles" n k = permFamily "down_cycles" [n] := rfl
theorem lookup_prefix_cycles (n : Nat) (k : Option Nat) :
    lookup "prefix_cycles" n k = permFamily "prefix_cycles" [n] := rfl

/-- `prepare_graph("lx-" + s)` is `lx(int(s))` — for EVERY suffix `s`; the argument `n` is ignored -/
theorem lookup_lx_prefix (s : String) (n : Nat) (k : Option Nat) :
    lookup ("lx-" ++ s) n k = (pyIntNat s.toList).bind fun m => permFamily "lx" [m] := by
  have h1 : ("lx-" ++ s).toList = 'l' :: 'x' :: '-' :: s.toList := by simp
  have h2 : ("lx-" ++ s) ≠ "lx" := by
    intro e; have := congrArg String.toList e; rw [h1] at this; simp at this
  unfold lookup
  rw [if_neg h2, h1]
  rfl

/-- `prepare_graph("lrx-" + s)` is `lrx(int(s))` -/
theorem lookup_lrx_prefix (s : String) (n : Nat) (k : Option Nat) :
    lookup ("lrx-" ++ s) n k = (pyIntNat s.toList).bind fun m => permFamily "lrx" [m] := by
  have h1 : ("lrx-" ++ s).toList = 'l' :: 'r' :: 'x' :: '-' :: s.toList := by simp
  have h2 : ("lrx-" ++ s) ≠ "lx" := by
    intro e; have := congrArg String.toList e; rw [h1] at this; simp at this
  have h3 : ("lrx-" ++ s) ≠ "lrx" := by
    intro e; have := congrArg String.toList e; rw [h1] at this; simp at this
  unfold lookup
  rw [if_neg h2, h1]
  simp only [if_neg h3]
  rfl

theorem lookup_lx_N (m n : Nat) (k : Option Nat) :
    lookup ("lx-" ++ toString m) n k = permFamily "lx" [m] := by
  rw [lookup_lx_prefix, pyIntNat_toString]; rfl

theorem lookup_lrx_N (m n : Nat) (k : Option Nat) :
    lookup ("lrx-" ++ toString m) n k = permFamily "lrx" [m] := by
  rw [lookup_lrx_prefix, pyIntNat_toString]; rfl

/-- SUMMARY: looking a graph up by name returns the definition of the constructor that
`prepare_graph` names — for every supported name, every `n`, `k`, and every suffix `s` / number `m` -/
theorem lookup_constructor (n : Nat) (k : Option Nat) (kk m : Nat) (s : String) :
    lookup "lx" n k = permFamily "lx" [n] ∧
    lookup ("lx-" ++ s) n k = ((pyIntNat s.toList).bind fun m => permFamily "lx" [m]) ∧
    lookup ("lx-" ++ toString m) n k = permFamily "lx" [m] ∧
    lookup "lrx" n k = permFamily "lrx" [n] ∧
    lookup ("lrx-" ++ s) n k = ((pyIntNat s.toList).bind fun m => permFamily "lrx" [m]) ∧
    lookup ("lrx-" ++ toString m) n k = permFamily "lrx" [m] ∧
    lookup "top_spin" n k = permFamily "top_spin" [n] ∧
    lookup "all_transpositions" n k = permFamily "all_transpositions" [n] ∧
    lookup "transposons" n k = permFamily "transposons" [n] ∧
    lookup "block_interchange" n k = permFamily "block_interchange" [n] ∧
    lookup "full_reversals" n k = permFamily "full_reversals" [n] ∧
    lookup "coxeter" n k = permFamily "coxeter" [n] ∧
    lookup "pancake" n k = permFamily "pancake" [n] ∧
    lookup "all_cycles" n k = permFamily "all_cycles" [n] ∧
    lookup "lsl_cycles" n k = permFamily "lsl_cycles" [n] ∧
    lookup "larx" n k = permFamily "larx" [n] ∧
    lookup "01i" n k = permFamily "three_cycles_01i" [n] ∧
    lookup "increasing_k_cycles" n (some kk) = permFamily "increasing_k_cycles" [n, kk] ∧
    lookup "consecutive_k_cycles" n (some kk) = permFamily "consecutive_k_cycles" [n, kk] ∧
    lookup "down_cycles" n k = permFamily "down_cycles" [n] ∧
    lookup "prefix_cycles" n k = permFamily "prefix_cycles" [n] :=
  ⟨rfl, lookup_lx_prefix s n k, lookup_lx_N m n k, rfl, lookup_lrx_prefix s n k, lookup_lrx_N m n k,
    rfl, rfl, rfl, rfl, rfl, rfl, rfl, rfl, rfl, rfl, rfl, rfl, rfl, rfl, rfl⟩

/-! ### round trip: a definition's own name maps back to it -/

theorem lx_name_eq (n : Nat) (d : PermDef) (h : permFamily "lx" [n] = some d) :
    d.name = "lx-" ++ toString n := by
  have : lx n = some d := h
  unfold lx at this
  split at this
  · simp only [Option.some.injEq] at this; subst this; rfl
  · simp at this

theorem lrx_name_eq (n k : Nat) (d : PermDef) (h : permFamily "lrx" [n, k] = some d) :
    d.name = "lrx-" ++ toString n ++ (if k = 1 then "" else "(k=" ++ toString k ++ ")") := by
  have : lrx n k = some d := h
  unfold lrx at this
  split at this
  · simp only [Option.some.injEq] at this; subst this; rfl
  · simp at this

theorem lookup_roundtrip_lx (n : Nat) (d : PermDef) (h : permFamily "lx" [n] = some d)
    (n' : Nat) (k' : Option Nat) : lookup d.name n' k' = some d := by
  rw [lx_name_eq n d h, lookup_lx_N, h]

theorem lookup_roundtrip_lrx (n : Nat) (d : PermDef) (h : permFamily "lrx" [n] = some d)
    (n' : Nat) (k' : Option Nat) : lookup d.name n' k' = some d := by
  have h' : permFamily "lrx" [n, 1] = some d := h
  rw [lrx_name_eq n 1 d h']
  simp only [if_true, String.append_empty]
  rw [lookup_lrx_N, h]

/-! the own name of `lrx(n, k)` with `k ≠ 1`, `"lrx-<n>(k=<k>)"`, is NOT accepted by the lookup
(`int("<n>(k=<k>)")` raises) -/

theorem stripUnderscores_paren (ds : List Nat) (hd : ∀ d ∈ ds, d < 10) (b : Bool) (rest : List Char) :
    stripUnderscores b (ds.map Nat.digitChar ++ '(' :: rest) = none := by
  induction ds generalizing b with
  | nil =>
    have h1 : decDigit? '(' = none := by decide
    simp [stripUnderscores, h1]
  | cons d t ih =>
    have := digit_facts d (hd d (by simp))
    simp only [List.map_cons, List.cons_append, stripUnderscores, this.1]
    rw [ih (fun x hx => hd x (by simp [hx]))]; rfl

theorem pyInt_paren (m : Nat) (rest : List Char) (hlast : ∀ c, (rest.reverse.head? = some c) → isPySpace c = false)
    : pyInt (Nat.toDigits 10 m ++ '(' :: rest) = none := by
  rw [toDigits_eq_digitsOf]
  have hlt := digitsOf_lt m
  have hne := digitsOf_ne_nil m
  unfold pyInt
  simp only
  cases hds : digitsOf m with
  | nil => exact absurd hds hne
  | cons d t =>
    have hf := digit_facts d (hlt d (by simp [hds]))
    have hlt' : ∀ x ∈ d :: t, x < 10 := by rw [← hds]; exact hlt
    have e1 : ((d :: t).map Nat.digitChar ++ '(' :: rest).dropWhile isPySpace =
        (d :: t).map Nat.digitChar ++ '(' :: rest := by
      simp [hf.2.1]
    rw [e1]
    have e2 : ((d :: t).map Nat.digitChar ++ '(' :: rest).reverse.dropWhile isPySpace =
        ((d :: t).map Nat.digitChar ++ '(' :: rest).reverse := by
      cases hr : rest.reverse with
      | nil =>
        have : rest = [] := by simpa using hr
        subst this
        have h1 : isPySpace '(' = false := by decide
        simp [h1]
      | cons c r' =>
        have hc := hlast c (by rw [hr]; rfl)
        rw [List.reverse_append, List.reverse_cons, hr]
        simp [hc]
    rw [e2, List.reverse_reverse]
    have hs := stripUnderscores_paren (d :: t) hlt' false rest
    simp only [List.map_cons, List.cons_append] at hs ⊢
    split
    · rename_i h; simp only [List.cons.injEq] at h; exact absurd h.1 hf.2.2.1
    · rename_i h; simp only [List.cons.injEq] at h; exact absurd h.1 hf.2.2.2
    · rw [hs]; rfl

theorem lookup_own_name_lrx_k (n k : Nat) (hk : k ≠ 1) (d : PermDef)
    (h : permFamily "lrx" [n, k] = some d) (n' : Nat) (k' : Option Nat) :
    lookup d.name n' k' = none := by
  rw [lrx_name_eq n k d h, if_neg hk, String.append_assoc, lookup_lrx_prefix]
  have : pyIntNat (toString n ++ ("(k=" ++ toString k ++ ")")).toList = none := by
    unfold pyIntNat
    have e : (toString n ++ ("(k=" ++ toString k ++ ")")).toList =
        Nat.toDigits 10 n ++ '(' :: ('k' :: '=' :: (Nat.toDigits 10 k ++ [')'])) := by
      simp [String.toList_append]
    rw [e, pyInt_paren]
    intro c hc
    have : c = ')' := by
      simp at hc; exact hc.symm
    subst this; decide
  rw [this]; rfl

end Cv.Families
