/-
  The matrix graph (`CvModel/InstanceMat.lean`): the modelled action is the mathematical one, and the BFS model on it
  returns the distance classes of the mathematical graph.  Core Lean only.
-/
import CvModel.InstanceMat
import CvProofs.Transport
namespace Cv.InstanceMat
open Cv Cv.Matrix

/-! ### residues -/

theorem ofInt_cast (B : Nat) (hB : 0 < B) (x : Int) : ((ofInt B x : Nat) : Int) = x % (B : Int) := by
  unfold ofInt
  exact Int.toNat_of_nonneg (Int.emod_nonneg _ (by omega))

theorem ofInt_zero (B : Nat) : ofInt B 0 = 0 := by simp [ofInt]

theorem getD_toArray' (l : List Nat) (i : Nat) : l.toArray.getD i 0 = l.getD i 0 := by
  rw [Array.getD_eq_getD_getElem?, List.getElem?_toArray, List.getD_eq_getElem?_getD]

theorem getD_map_ofInt (B : Nat) (l : List Int) (i : Nat) :
    (l.map (ofInt B)).getD i 0 = ofInt B (l.getD i 0) := by
  rw [List.getD_eq_getElem?_getD, List.getD_eq_getElem?_getD, List.getElem?_map]
  cases l[i]? with
  | none => simp [ofInt_zero]
  | some a => rfl

/-- the natural-number sum of products of residues is congruent to the integer sum of products -/
theorem foldl_congr_mod (B : Nat) (a b : Nat → Nat) (A S : Nat → Int)
    (ha : ∀ j, ((a j : Nat) : Int) % (B : Int) = A j % (B : Int))
    (hb : ∀ j, ((b j : Nat) : Int) % (B : Int) = S j % (B : Int)) (l : List Nat) :
    ∀ (accN : Nat) (accI : Int), (accN : Int) % (B : Int) = accI % (B : Int) →
      ((l.foldl (fun acc j => acc + a j * b j) accN : Nat) : Int) % (B : Int) =
        (l.foldl (fun acc j => acc + A j * S j) accI) % (B : Int) := by
  induction l with
  | nil => intro accN accI h; exact h
  | cons j t ih =>
    intro accN accI h
    simp only [List.foldl_cons]
    apply ih
    rw [Int.natCast_add, Int.natCast_mul, Int.add_emod, Int.mul_emod, h, ha, hb, ← Int.mul_emod, ← Int.add_emod]

/-- one entry of the modelled product, as an integer -/
theorem entry_mod (B : Nat) (hB : 0 < B) (n k : Nat) (M S : List Int) (idx : Nat) :
    (((List.range n).foldl (fun acc j =>
        acc + (M.map (ofInt B)).toArray.getD (idx / k * n + j) 0 *
          (S.map (ofInt B)).toArray.getD (j * k + idx % k) 0) 0 % B : Nat) : Int) =
      ((List.range n).foldl (fun acc j => acc + M.getD (idx / k * n + j) 0 * S.getD (j * k + idx % k) 0) 0) %
        (B : Int) := by
  rw [Int.natCast_emod]
  simp only [getD_toArray', getD_map_ofInt]
  apply foldl_congr_mod B (fun j => ofInt B (M.getD (idx / k * n + j) 0))
    (fun j => ofInt B (S.getD (j * k + idx % k) 0)) (fun j => M.getD (idx / k * n + j) 0)
    (fun j => S.getD (j * k + idx % k) 0)
  · intro j; rw [ofInt_cast B hB, Int.emod_emod_of_dvd _ (Int.dvd_refl _)]
  · intro j; rw [ofInt_cast B hB, Int.emod_emod_of_dvd _ (Int.dvd_refl _)]
  · rfl

/-! ### (a) the modelled action is the mathematical one -/

theorem modulusOf_pos (modulo : Nat) : 0 < modulusOf modulo := by
  unfold modulusOf; split <;> omega

/-- the modelled action, entry by entry: the exact product reduced modulo `B = modulusOf modulo`, read back as int64 -/
theorem matAct_eq_map (G : MatGen) (n k : Nat) (S : List Int) :
    matAct G n k S = (matProd n k G.matrix S).map fun x =>
      if G.modulo = 0 then toSigned (x % ((2 ^ 64 : Nat) : Int)).toNat else x % (G.modulo : Int) := by
  have hB := modulusOf_pos G.modulo
  unfold matAct matProd Matrix.apply matMul
  by_cases hm : G.modulo = 0
  · simp only [hm, if_true, List.map_map]
    apply List.map_congr_left
    intro idx _
    simp only [Function.comp]
    congr 1
    have := entry_mod (modulusOf 0) (modulusOf_pos 0) n k G.matrix S idx
    rw [show modulusOf 0 = 2 ^ 64 from rfl] at this ⊢
    rw [← this]
    rfl
  · simp only [hm, if_false, List.map_map]
    apply List.map_congr_left
    intro idx _
    simp only [Function.comp]
    have := entry_mod (modulusOf G.modulo) hB n k G.matrix S idx
    rw [show modulusOf G.modulo = G.modulo from if_neg hm] at this ⊢
    exact this

/-- **(a)** for a positive modulo the modelled action IS the mathematical one, on every state (no bound on the
entries or on `n`: `Cv.Matrix.apply` with `B = m` is exact arithmetic modulo `m`) -/
theorem matAct_eq_of_modulo (G : MatGen) (hm : G.modulo ≠ 0) (n k : Nat) (S : List Int) :
    matAct G n k S = matApply G n k S := by
  rw [matAct_eq_map]
  unfold matApply
  simp only [hm, if_false]

/-- an integer that fits int64 -/
def FitsInt64 (x : Int) : Prop := -(2 ^ 63) ≤ x ∧ x < 2 ^ 63

/-- reading the residue modulo `2^64` of `x` as a signed 64-bit number gives `x` back exactly when `x` fits int64 -/
theorem toSigned_wrap_iff (x : Int) : toSigned (x % ((2 ^ 64 : Nat) : Int)).toNat = x ↔ FitsInt64 x := by
  unfold toSigned FitsInt64
  have h0 : 0 ≤ x % ((2 ^ 64 : Nat) : Int) := Int.emod_nonneg _ (by decide)
  have h1 : x % ((2 ^ 64 : Nat) : Int) < ((2 ^ 64 : Nat) : Int) := Int.emod_lt_of_pos _ (by decide)
  have h2 : (((x % ((2 ^ 64 : Nat) : Int)).toNat : Nat) : Int) = x % ((2 ^ 64 : Nat) : Int) :=
    Int.toNat_of_nonneg h0
  split <;> omega

/-- **(a), both cases**: the modelled action is the mathematical one as soon as, for `modulo = 0`, every entry of the
exact product fits int64 (nothing is required for a positive modulo) -/
theorem matAct_eq (G : MatGen) (n k : Nat) (S : List Int)
    (hfit : G.modulo = 0 → ∀ x ∈ matProd n k G.matrix S, FitsInt64 x) :
    matAct G n k S = matApply G n k S := by
  by_cases hm : G.modulo = 0
  · rw [matAct_eq_map]
    unfold matApply
    simp only [hm, if_true]
    conv => rhs; rw [← List.map_id (matProd n k G.matrix S)]
    apply List.map_congr_left
    intro x hx
    exact (toSigned_wrap_iff x).2 (hfit hm x hx)
  · exact matAct_eq_of_modulo G hm n k S

/-- … and for `modulo = 0` the condition is exact: if some entry of the exact product does not fit int64, the
modelled action differs from the exact product -/
theorem matAct_ne_of_overflow (G : MatGen) (hm : G.modulo = 0) (n k : Nat) (S : List Int) (x : Int)
    (hx : x ∈ matProd n k G.matrix S) (hover : ¬ FitsInt64 x) : matAct G n k S ≠ matApply G n k S := by
  rw [matAct_eq_map]
  unfold matApply
  simp only [hm, if_true]
  intro h
  have hid : ∀ y ∈ matProd n k G.matrix S, toSigned (y % ((2 ^ 64 : Nat) : Int)).toNat = id y := by
    apply List.map_inj_left.1
    rw [List.map_id]
    exact h
  exact hover ((toSigned_wrap_iff x).1 (hid x hx))

/-! ### where int64 wrap-around is excluded: the code in int64 arithmetic against the model -/

theorem wrap64_def (x : Int) : wrap64 x = toSigned (x % ((2 ^ 64 : Nat) : Int)).toNat := rfl

theorem wrap64_facts (x : Int) :
    FitsInt64 (wrap64 x) ∧ wrap64 x % 2 ^ 64 = x % 2 ^ 64 := by
  rw [wrap64_def]
  unfold toSigned FitsInt64
  have h0 : 0 ≤ x % ((2 ^ 64 : Nat) : Int) := Int.emod_nonneg _ (by decide)
  have h1 : x % ((2 ^ 64 : Nat) : Int) < ((2 ^ 64 : Nat) : Int) := Int.emod_lt_of_pos _ (by decide)
  have h2 : (((x % ((2 ^ 64 : Nat) : Int)).toNat : Nat) : Int) = x % ((2 ^ 64 : Nat) : Int) :=
    Int.toNat_of_nonneg h0
  split <;> omega

theorem wrap64_of_fits (x : Int) (h : FitsInt64 x) : wrap64 x = x := (toSigned_wrap_iff x).2 h

/-- an int64 value congruent to `x` modulo `2^64` is the value `x` wraps to -/
theorem eq_wrap64 (x y : Int) (hy : FitsInt64 y) (h : y % 2 ^ 64 = x % 2 ^ 64) : y = wrap64 x := by
  obtain ⟨h1, h2⟩ := wrap64_facts x
  unfold FitsInt64 at hy h1
  omega

theorem getD_bounds (l : List Int) (m : Int) (hm : 0 < m) (hl : ∀ e ∈ l, 0 ≤ e ∧ e < m) (i : Nat) :
    0 ≤ l.getD i 0 ∧ l.getD i 0 < m := by
  rw [List.getD_eq_getElem?_getD]
  by_cases hi : i < l.length
  · rw [List.getElem?_eq_getElem hi]
    exact hl _ (List.getElem_mem hi)
  · rw [List.getElem?_eq_none (by omega)]
    exact ⟨Int.le_refl 0, hm⟩

theorem mul_bounds (a b m : Int) (ha : 0 ≤ a ∧ a < m) (hb : 0 ≤ b ∧ b < m) :
    0 ≤ a * b ∧ a * b ≤ (m - 1) * (m - 1) :=
  ⟨Int.mul_nonneg ha.1 hb.1, Int.mul_le_mul (by omega) (by omega) hb.1 (by omega)⟩

/-- the int64 loop of the REPAIRED code (`prod %= m` before the sum) against the exact sum: no wrap-around as long as
a single product and the sum of `n` reduced products fit int64 -/
theorem foldl_int64_reduced (m : Nat) (hm : 0 < m) (hprod : ((m : Int) - 1) * ((m : Int) - 1) < 2 ^ 63)
    (A S : Nat → Int) (hA : ∀ j, 0 ≤ A j ∧ A j < m) (hS : ∀ j, 0 ≤ S j ∧ S j < m) (l : List Nat) :
    ∀ (acc accI : Int), 0 ≤ acc → acc + l.length * ((m : Int) - 1) < 2 ^ 63 → acc % m = accI % m →
      (l.foldl (fun acc j => wrap64 (acc + pyMod m (wrap64 (A j * S j)))) acc) % (m : Int) =
        (l.foldl (fun acc j => acc + A j * S j) accI) % (m : Int) := by
  induction l with
  | nil => intro acc accI _ _ h; exact h
  | cons j t ih =>
    intro acc accI h0 hlt hc
    simp only [List.foldl_cons]
    have hp := mul_bounds (A j) (S j) m (hA j) (hS j)
    have hw : wrap64 (A j * S j) = A j * S j := wrap64_of_fits _ ⟨by omega, by omega⟩
    have hmz : m ≠ 0 := by omega
    have hmI : (0 : Int) < m := by omega
    have hr0 : 0 ≤ A j * S j % (m : Int) := Int.emod_nonneg _ (by omega)
    have hr1 : A j * S j % (m : Int) < m := Int.emod_lt_of_pos _ hmI
    simp only [List.length_cons, Int.natCast_add, Int.natCast_one] at hlt
    have hlt' : acc + ((t.length : Int) * ((m : Int) - 1) + ((m : Int) - 1)) < 2 ^ 63 := by
      rw [Int.add_mul, Int.one_mul] at hlt; exact hlt
    have htl : 0 ≤ (t.length : Int) * ((m : Int) - 1) := Int.mul_nonneg (by omega) (by omega)
    rw [hw, show pyMod m (A j * S j) = A j * S j % (m : Int) from if_neg hmz,
      wrap64_of_fits _ ⟨by omega, by omega⟩]
    apply ih
    · omega
    · omega
    · rw [Int.add_emod, hc, Int.emod_emod_of_dvd _ (Int.dvd_refl _), ← Int.add_emod]

/-- the int64 loop of the ORIGINAL code (sum first) against the exact sum: no wrap-around as long as `n` products
fit int64 together -/
theorem foldl_int64_sum (m : Nat) (A S : Nat → Int) (hA : ∀ j, 0 ≤ A j ∧ A j < m) (hS : ∀ j, 0 ≤ S j ∧ S j < m)
    (l : List Nat) :
    ∀ (acc : Int), 0 ≤ acc → acc + l.length * (((m : Int) - 1) * ((m : Int) - 1)) < 2 ^ 63 →
      (l.foldl (fun acc j => wrap64 (acc + wrap64 (A j * S j))) acc) =
        (l.foldl (fun acc j => acc + A j * S j) acc) := by
  induction l with
  | nil => intro acc _ _; rfl
  | cons j t ih =>
    intro acc h0 hlt
    simp only [List.foldl_cons]
    have hp := mul_bounds (A j) (S j) m (hA j) (hS j)
    simp only [List.length_cons, Int.natCast_add, Int.natCast_one] at hlt
    have hlt' : acc + ((t.length : Int) * (((m : Int) - 1) * ((m : Int) - 1)) +
        (((m : Int) - 1) * ((m : Int) - 1))) < 2 ^ 63 := by
      rw [Int.add_mul, Int.one_mul] at hlt; exact hlt
    have htl : 0 ≤ (t.length : Int) * (((m : Int) - 1) * ((m : Int) - 1)) :=
      Int.mul_nonneg (by omega) (by omega)
    rw [wrap64_of_fits (A j * S j) ⟨by omega, by omega⟩, wrap64_of_fits _ ⟨by omega, by omega⟩]
    apply ih
    · omega
    · omega

/-- for `modulo = 0` the int64 loop is the exact sum wrapped once, whatever the entries -/
theorem foldl_int64_wrap (A S : Nat → Int) (l : List Nat) :
    ∀ (acc accI : Int), FitsInt64 acc → acc % 2 ^ 64 = accI % 2 ^ 64 →
      (l.foldl (fun acc j => wrap64 (acc + pyMod 0 (wrap64 (A j * S j)))) acc) =
        wrap64 (l.foldl (fun acc j => acc + A j * S j) accI) := by
  induction l with
  | nil => intro acc accI hf h; exact eq_wrap64 _ _ hf h
  | cons j t ih =>
    intro acc accI _ hc
    simp only [List.foldl_cons]
    apply ih
    · exact (wrap64_facts _).1
    · rw [(wrap64_facts _).2, show pyMod 0 (wrap64 (A j * S j)) = wrap64 (A j * S j) from rfl,
        Int.add_emod, (wrap64_facts _).2, hc, ← Int.add_emod]

/-- **repaired code = model, positive modulo**: entries of the generator and of the state in `[0, m)`, a single
product fits int64 (`(m-1)^2 < 2^63`, implied by the library's `m ≤ 2^31`) and so does the sum of `n` reduced products
(`n (m-1) < 2^63`) -/
theorem matActInt64_eq (G : MatGen) (n k : Nat) (S : List Int) (hm : G.modulo ≠ 0)
    (hprod : ((G.modulo : Int) - 1) * ((G.modulo : Int) - 1) < 2 ^ 63)
    (hsum : (n : Int) * ((G.modulo : Int) - 1) < 2 ^ 63)
    (hG : ∀ e ∈ G.matrix, 0 ≤ e ∧ e < G.modulo) (hS : ∀ e ∈ S, 0 ≤ e ∧ e < G.modulo) :
    matActInt64 G n k S = matAct G n k S := by
  rw [matAct_eq_of_modulo G hm]
  unfold matActInt64 matApply matProd
  simp only [hm, if_false, List.map_map]
  apply List.map_congr_left
  intro idx _
  simp only [Function.comp]
  have hmI : (0 : Int) < G.modulo := by omega
  rw [show ∀ x, pyMod G.modulo x = x % (G.modulo : Int) from fun x => if_neg hm]
  apply foldl_int64_reduced G.modulo (by omega) hprod (fun j => G.matrix.getD (idx / k * n + j) 0)
    (fun j => S.getD (j * k + idx % k) 0) (fun j => getD_bounds _ _ hmI hG _) (fun j => getD_bounds _ _ hmI hS _)
    (List.range n) 0 0 (Int.le_refl 0)
  · rw [List.length_range]; omega
  · rfl

/-- **code = model, `modulo = 0`**: wrapping int64 arithmetic is arithmetic modulo `2^64`, on all inputs -/
theorem matActInt64_eq_zero (G : MatGen) (n k : Nat) (S : List Int) (hm : G.modulo = 0) :
    matActInt64 G n k S = matAct G n k S := by
  rw [matAct_eq_map]
  unfold matActInt64 matProd
  simp only [hm, if_true, List.map_map]
  apply List.map_congr_left
  intro idx _
  simp only [Function.comp]
  rw [show ∀ x, pyMod 0 x = x from fun x => rfl, ← wrap64_def]
  exact foldl_int64_wrap (fun j => G.matrix.getD (idx / k * n + j) 0) (fun j => S.getD (j * k + idx % k) 0)
    (List.range n) 0 0 ⟨by decide, by decide⟩ rfl

/-- **original code = model** needs the stronger bound `n (m-1)^2 < 2^63` (the sum of `n` unreduced products) -/
theorem matActInt64Sum_eq (G : MatGen) (n k : Nat) (S : List Int) (hm : G.modulo ≠ 0)
    (hsum : (n : Int) * (((G.modulo : Int) - 1) * ((G.modulo : Int) - 1)) < 2 ^ 63)
    (hG : ∀ e ∈ G.matrix, 0 ≤ e ∧ e < G.modulo) (hS : ∀ e ∈ S, 0 ≤ e ∧ e < G.modulo) :
    matActInt64Sum G n k S = matAct G n k S := by
  rw [matAct_eq_of_modulo G hm]
  unfold matActInt64Sum matApply matProd
  simp only [hm, if_false, List.map_map]
  apply List.map_congr_left
  intro idx _
  simp only [Function.comp]
  have hmI : (0 : Int) < G.modulo := by omega
  rw [show ∀ x, pyMod G.modulo x = x % (G.modulo : Int) from fun x => if_neg hm]
  rw [foldl_int64_sum G.modulo (fun j => G.matrix.getD (idx / k * n + j) 0)
    (fun j => S.getD (j * k + idx % k) 0) (fun j => getD_bounds _ _ hmI hG _) (fun j => getD_bounds _ _ hmI hS _)
    (List.range n) 0 (Int.le_refl 0) (by rw [List.length_range]; omega)]

/-! ### the graph -/

theorem getD_mem' {β : Type} (l : List β) (d : β) (i : Nat) (hi : i < l.length) : l.getD i d ∈ l := by
  rw [List.getD_eq_getElem?_getD, List.getElem?_eq_getElem hi]
  exact List.getElem_mem hi

theorem map_range_getD' {β γ : Type} (l : List β) (d : β) (F : β → γ) :
    (List.range l.length).map (fun i => F (l.getD i d)) = l.map F := by
  apply List.ext_getElem
  · simp
  · intro i h1 h2
    have hi : i < l.length := by simpa using h2
    simp [List.getElem?_eq_getElem hi]

/-- the neighbours in the modelled graph, generator by generator -/
theorem matGraph_nb (gens : List MatGen) (n k : Nat) (hash : List Int → Int) (ic : Bool) (batch : Nat)
    (S : List Int) : (matGraph gens n k hash ic batch).nb S = gens.map fun G => matAct G n k S := by
  unfold Graph.nb nbOf
  exact map_range_getD' gens ⟨[], 0⟩ (fun G => matAct G n k S)

/-- the modelled neighbours are the mathematical ones when no product overflows (`modulo = 0` only) -/
theorem matGraph_nb_eq (gens : List MatGen) (n k : Nat) (hash : List Int → Int) (ic : Bool) (batch : Nat)
    (S : List Int)
    (hfit : ∀ G ∈ gens, G.modulo = 0 → ∀ x ∈ matProd n k G.matrix S, FitsInt64 x) :
    (matGraph gens n k hash ic batch).nb S = matNb gens n k S := by
  rw [matGraph_nb]
  unfold matNb
  apply List.map_congr_left
  intro G hG
  exact matAct_eq G n k S (hfit G hG)

/-- the no-overflow condition on the orbit of the mathematical graph: for `modulo = 0`, every entry of every
neighbour of every state of the orbit fits int64 -/
def OrbitFits (gens : List MatGen) (n k : Nat) (starts : List (List Int)) : Prop :=
  ∀ S, InOrbit (matNb gens n k) starts S → ∀ G ∈ gens, G.modulo = 0 → ∀ x ∈ matProd n k G.matrix S, FitsInt64 x

theorem orbitFits_of_modulo (gens : List MatGen) (n k : Nat) (starts : List (List Int))
    (hm : ∀ G ∈ gens, G.modulo ≠ 0) : OrbitFits gens n k starts :=
  fun _ _ G hG h0 => absurd h0 (hm G hG)

section graph
variable (gens : List MatGen) (n k : Nat) (hash : List Int → Int) (ic : Bool) (batch : Nat)
  (starts : List (List Int)) (hfit : OrbitFits gens n k starts)
include hfit

/-- the modelled graph and the mathematical graph have the same walks from the start states -/
theorem reach_iffB (i : Nat) (S : List Int) :
    Reach (matGraph gens n k hash ic batch).nb starts i S ↔ Reach (matNb gens n k) starts i S := by
  induction i generalizing S with
  | zero => rw [reach_zero, reach_zero]
  | succ i ih =>
    rw [reach_succ, reach_succ]
    constructor
    · rintro ⟨T, hT, hST⟩
      have hT' := (ih T).1 hT
      rw [matGraph_nb_eq gens n k hash ic batch T (hfit T ⟨i, hT'⟩)] at hST
      exact ⟨T, hT', hST⟩
    · rintro ⟨T, hT, hST⟩
      refine ⟨T, (ih T).2 hT, ?_⟩
      rw [matGraph_nb_eq gens n k hash ic batch T (hfit T ⟨i, hT⟩)]
      exact hST

theorem inOrbit_iff (S : List Int) :
    InOrbit (matGraph gens n k hash ic batch).nb starts S ↔ InOrbit (matNb gens n k) starts S := by
  unfold InOrbit
  simp only [reach_iffB gens n k hash ic batch starts hfit]

theorem distLayer_iffB (i : Nat) (S : List Int) :
    DistLayer (matGraph gens n k hash ic batch).nb starts i S ↔ DistLayer (matNb gens n k) starts i S := by
  unfold DistLayer
  simp only [reach_iffB gens n k hash ic batch starts hfit]

/-- the hypotheses of the (orbit-restricted) BFS theorem hold for the matrix graph -/
theorem mat_bfsHypO
    (hinj : ∀ S T, InOrbit (matNb gens n k) starts S → InOrbit (matNb gens n k) starts T →
      hash S = hash T → S = T)
    (hic : ic = true → ∀ S T, InOrbit (matNb gens n k) starts S → T ∈ matNb gens n k S → S ∈ matNb gens n k T)
    (hb : 0 < batch) : BfsHypO (matGraph gens n k hash ic batch) starts := by
  have horb := inOrbit_iff gens n k hash ic batch starts hfit
  refine ⟨?_, ?_, hb⟩
  · intro S T hS hT h
    exact hinj S T ((horb S).1 hS) ((horb T).1 hT) h
  · intro hic' S T hS hT
    have hS' := (horb S).1 hS
    rw [matGraph_nb_eq gens n k hash ic batch S (hfit S hS')] at hT
    rw [matGraph_nb_eq gens n k hash ic batch T (hfit T (hS'.step hT))]
    exact hic hic' S T hS' hT

/-- the conclusion of the BFS theorem for the matrix graph -/
def MatSpec (gens : List MatGen) (n k : Nat) (starts : List (List Int)) (r : BfsOut (List Int)) : Prop :=
  (∀ i, i < r.layerSizes.length → ∃ L : List (List Int), L.Nodup ∧
      (∀ S, S ∈ L ↔ DistLayer (matNb gens n k) starts i S) ∧ r.layerSizes[i]? = some L.length) ∧
  (∀ S, ¬ DistLayer (matNb gens n k) starts r.layerSizes.length S) ∧
  (∀ i L, (i, L) ∈ r.layers → L.Nodup ∧ ∀ S, S ∈ L ↔ DistLayer (matNb gens n k) starts i S)

/-- **(b), (c)**: an exhaustive run of the BFS model on the matrix graph returns the distance classes of the
mathematical graph -/
theorem mat_bfs_spec
    (hinj : ∀ S T, InOrbit (matNb gens n k) starts S → InOrbit (matNb gens n k) starts T →
      hash S = hash T → S = T)
    (hic : ic = true → ∀ S T, InOrbit (matNb gens n k) starts S → T ∈ matNb gens n k S → S ∈ matNb gens n k T)
    (hb : 0 < batch) (c : BfsCfg (List Int))
    (hcomp : (bfs (matGraph gens n k hash ic batch) c starts).completed = true) :
    MatSpec gens n k starts (bfs (matGraph gens n k hash ic batch) c starts) := by
  obtain ⟨h1, h2, h3, -⟩ :=
    BfsThmO.layers_eq_dist (mat_bfsHypO gens n k hash ic batch starts hfit hinj hic hb) c hcomp
  have hd := distLayer_iffB gens n k hash ic batch starts hfit
  unfold IsLayer at h1 h3
  simp only [hd] at h1 h2 h3
  refine ⟨?_, h2, h3⟩
  intro i hi
  obtain ⟨L, hL, hsz⟩ := h1 i hi
  exact ⟨L, hL.1, hL.2, hsz⟩

/-- the search reports completion whenever the mathematical graph has an empty class `d ≤ max_diameter`, its orbit
is smaller than `max_layer_size_to_explore` and no callback stops the run -/
theorem mat_bfs_completes
    (hinj : ∀ S T, InOrbit (matNb gens n k) starts S → InOrbit (matNb gens n k) starts T →
      hash S = hash T → S = T)
    (hic : ic = true → ∀ S T, InOrbit (matNb gens n k) starts S → T ∈ matNb gens n k S → S ∈ matNb gens n k T)
    (hb : 0 < batch) (c : BfsCfg (List Int))
    (d : Nat) (hd1 : 1 ≤ d) (hdd : d ≤ c.maxDiameter)
    (hempty : ∀ S, ¬ DistLayer (matNb gens n k) starts d S)
    (all : List (List Int)) (hall : ∀ S, InOrbit (matNb gens n k) starts S → S ∈ all)
    (hsmall : all.length < c.maxExplore)
    (hstop : ∀ f, c.stop = some f → ∀ i l, f i l = false) :
    (bfs (matGraph gens n k hash ic batch) c starts).completed = true := by
  have hH := mat_bfsHypO gens n k hash ic batch starts hfit hinj hic hb
  have hd := distLayer_iffB gens n k hash ic batch starts hfit
  apply BfsThmO.completes hH c d hd1 hdd
  · intro x hx
    exact hempty x ((hd d x).1 hx)
  · intro i L hL
    unfold IsLayer at hL
    simp only [hd] at hL
    have hsub : L ⊆ all := fun s hs' => hall s ((hL.2 s).1 hs').inOrbit
    have := hL.1.length_le_of_subset hsub
    omega
  · exact hstop

end graph

end Cv.InstanceMat
