/-
  G9 — all_cycles: the loop that writes a cycle into `list(range(n))`, and the loop lemma for generator names that
  depend on `len(generators)`.  Core Lean only.
-/
import CvProofs.PyFamG6Comb
import CvProofs.PyFamG6Der
namespace Cv.PyG9
open Cv.Py Cv.PyGen Cv.Families Cv.PyG4 Cv.PyG6
open Cv.GraphDef (PermDef)

/-! ### the cycle-writing loop on naturals -/

/-- `current = cur; for target in o: cycle[current] = target; current = target` followed by `cycle[current] = m` -/
def write (m : Nat) : List Nat → Nat → List Nat → List Nat
  | L, cur, [] => L.set cur m
  | L, cur, t :: o => write m (L.set cur t) t o

theorem write_length (m : Nat) (L : List Nat) (cur : Nat) (o : List Nat) :
    (write m L cur o).length = L.length := by
  induction o generalizing L cur with
  | nil => simp [write]
  | cons t o ih => simp only [write]; rw [ih]; simp

theorem write_not_mem (m : Nat) (L : List Nat) (cur : Nat) (o : List Nat) (p : Nat) (hp : p ∉ cur :: o) :
    (write m L cur o)[p]? = L[p]? := by
  induction o generalizing L cur with
  | nil =>
    simp only [write]
    rw [List.getElem?_set_ne]
    intro e; subst e; exact hp List.mem_cons_self
  | cons t o ih =>
    simp only [write]
    rw [ih]
    · rw [List.getElem?_set_ne]
      intro e; subst e; exact hp List.mem_cons_self
    · intro h; exact hp (List.mem_cons_of_mem _ h)

theorem write_mem (m : Nat) (L : List Nat) (cur : Nat) (o : List Nat) (hnd : (cur :: o).Nodup)
    (hlt : ∀ v ∈ cur :: o, v < L.length) (t : Nat) (ht : t < o.length + 1) :
    (write m L cur o)[(cur :: o).getD t 0]? = some ((o ++ [m]).getD t 0) := by
  induction o generalizing L cur t with
  | nil =>
    have : t = 0 := by simpa using ht
    subst this
    simp only [write, List.getD_cons_zero, List.nil_append]
    rw [List.getElem?_set_self (hlt cur List.mem_cons_self)]
  | cons x o ih =>
    simp only [write]
    have hnd' : (x :: o).Nodup := (List.nodup_cons.1 hnd).2
    cases t with
    | zero =>
      simp only [List.getD_cons_zero, List.cons_append]
      rw [write_not_mem _ _ _ _ _ (List.nodup_cons.1 hnd).1]
      rw [List.getElem?_set_self (hlt cur List.mem_cons_self)]
    | succ t =>
      simp only [List.getD_cons_succ, List.cons_append]
      apply ih _ _ hnd'
      · intro v hv
        rw [List.length_set]
        exact hlt v (List.mem_cons_of_mem _ hv)
      · simpa using ht

theorem getD_rot (m : Nat) (o : List Nat) (t : Nat) (ht : t < o.length + 1) :
    (o ++ [m]).getD t 0 = (m :: o).getD ((t + 1) % (o.length + 1)) 0 := by
  by_cases h : t < o.length
  · rw [Nat.mod_eq_of_lt (by omega), List.getD_cons_succ]
    simp only [List.getD_eq_getElem?_getD, List.getElem?_append_left h]
  · have : t = o.length := by omega
    subst this
    rw [Nat.mod_self, List.getD_cons_zero]
    simp [List.getD_eq_getElem?_getD]

/-- the loop writes the cycle `(m o₀ o₁ …)` -/
theorem write_eq (n m : Nat) (o : List Nat) (hnd : (m :: o).Nodup) (hlt : ∀ v ∈ m :: o, v < n) :
    write m (List.range n) m o = oneLine n (cycleFn (m :: o)) := by
  apply List.ext_getElem?
  intro p
  by_cases hp : p < n
  · have hr : (oneLine n (cycleFn (m :: o)))[p]? = some (cycleFn (m :: o) p) := by
      rw [List.getElem?_eq_getElem (by rw [length_oneLine]; exact hp), getElem_oneLine]
    rw [hr]
    by_cases hm : p ∈ m :: o
    · obtain ⟨t, ht, rfl⟩ := List.getElem_of_mem hm
      have ht' : t < o.length + 1 := by simpa using ht
      have e : (m :: o)[t] = (m :: o).getD t 0 := by
        rw [List.getD_eq_getElem?_getD, List.getElem?_eq_getElem ht]; rfl
      rw [e, write_mem m _ m o hnd (by simpa using hlt) t ht', cycleFn_getD _ hnd t ht, getD_rot m o t ht']
      simp
    · rw [write_not_mem _ _ _ _ _ hm, cycleFn_of_not_mem _ _ hm]
      simp [hp]
  · rw [List.getElem?_eq_none (by rw [write_length]; simpa using hp),
      List.getElem?_eq_none (by rw [length_oneLine]; omega)]

/-! ### the loop over `Int` -/

theorem loop_toI (m : Nat) (L : List Nat) (cur : Nat) (o : List Nat) (hlt : ∀ v ∈ cur :: o, v < L.length) :
    (List.foldlM (fun (st : List Int × Int) (target : Int) =>
        (pySet st.1 st.2 target).bind fun cycle => some (cycle, target)) (toI L, (cur : Int)) (toI o)).bind
      (fun st => pySet st.1 st.2 (m : Int)) = some (toI (write m L cur o)) := by
  induction o generalizing L cur with
  | nil =>
    simp only [toI, List.map_nil, List.foldlM_nil, Option.pure_def, Option.bind_some, write]
    exact pySet_toI L cur m (hlt cur List.mem_cons_self)
  | cons t o ih =>
    have h1 : pySet (toI L) (cur : Int) (t : Int) = some (toI (L.set cur t)) :=
      pySet_toI L cur t (hlt cur List.mem_cons_self)
    have : toI (t :: o) = (t : Int) :: toI o := rfl
    rw [this, List.foldlM_cons]
    simp only [h1, Option.bind_some, write]
    apply ih
    intro v hv
    rw [List.length_set]
    exact hlt v (List.mem_cons_of_mem _ hv)

/-! ### names `cycle_<len(generators)>` -/

def cnames (k : Nat) : List String := (List.range k).map fun t => "cycle_" ++ showNat (t + 1)

theorem cnames_succ (k : Nat) : cnames (k + 1) = cnames k ++ ["cycle_" ++ showNat (k + 1)] := by
  unfold cnames; rw [List.range_succ]; simp

theorem foldlM_named {γ : Type}
    (H : List (List Int) × List String → γ → Option (List (List Int) × List String))
    (A : γ → List (List Int)) (l : List γ)
    (hH : ∀ x ∈ l, ∀ g, H (g, cnames g.length) x = some (g ++ A x, cnames (g ++ A x).length))
    (g0 : List (List Int)) :
    List.foldlM H (g0, cnames g0.length) l =
      some (g0 ++ l.flatMap A, cnames (g0 ++ l.flatMap A).length) := by
  induction l generalizing g0 with
  | nil => simp
  | cons x t ih =>
    rw [List.foldlM_cons, hH x List.mem_cons_self g0]
    show List.foldlM H _ t = _
    rw [ih (fun y hy => hH y (List.mem_cons_of_mem _ hy))]
    simp [List.append_assoc]

/-! ### `min`, the filtered comprehension, `itertools.permutations` on a sorted subset -/

theorem foldl_min (a : Int) (t : List Int) (h : ∀ x ∈ t, a ≤ x) : t.foldl min a = a := by
  induction t with
  | nil => rfl
  | cons x t ih =>
    rw [List.foldl_cons, Int.min_eq_left (h x List.mem_cons_self)]
    exact ih (fun y hy => h y (List.mem_cons_of_mem _ hy))

theorem pyMin_sorted (a : Nat) (t : List Nat) (h : ∀ x ∈ t, a < x) : pyMin (toI (a :: t)) = some (a : Int) := by
  show some ((toI t).foldl min (a : Int)) = _
  rw [foldl_min]
  intro x hx
  obtain ⟨y, hy, rfl⟩ := List.mem_map.1 hx
  have := h y hy
  simp only [Int.ofNat_eq_natCast]; omega

theorem filter_ne_sorted (a : Nat) (t : List Nat) (h : ∀ x ∈ t, a < x) :
    List.map (fun x => x) (List.filter (fun x => x != (a : Int)) (toI (a :: t))) = toI t := by
  rw [List.map_id']
  show List.filter _ ((a : Int) :: toI t) = _
  rw [List.filter_cons]
  simp only [bne_self_eq_false, Bool.false_eq_true, if_false]
  rw [List.filter_eq_self]
  intro x hx
  obtain ⟨y, hy, rfl⟩ := List.mem_map.1 hx
  have := h y hy
  simp only [Int.ofNat_eq_natCast, bne_iff_ne, ne_eq]; omega

theorem pyPermutations_toI (t : List Nat) :
    pyPermutations (toI t) = (Cv.Perm.permsOf t.length t).map toI := by
  unfold pyPermutations
  rw [toI_length, permsOf_eq t.length t rfl]
  unfold toI
  rw [pyPermutationsN_map]

end Cv.PyG9
