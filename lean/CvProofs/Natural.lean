/-
  Naturality of the algorithm models in the state type.  Core Lean only.

  A map `f : β → α` between the state types of two graphs `h : Graph β`, `g : Graph α` that commutes with the
  generators and preserves hashes (`GraphMap h g f`) commutes with every list-level operation the algorithms are
  built from (`neighbors`, `unique`, `gather`, …), because these only look at states through `hash` and `act`.

  The main use is `Graph.restrictB`: the graph `g` restricted to a set `P` of states closed under the generators
  (a graph on the subtype `{x // P x}`, `f = Subtype.val`).  Hypotheses that the abstract theorems ask for on the
  WHOLE state type (hash injective, generator `i` of `gi` undoes generator `i` of `g`, symmetry) then only have to hold
  on `P`; a concrete representation satisfies them on the rows that encode a state, not on all rows.
-/
import CvProofs.Transport
import CvProofs.Tensor
import CvModel.Beam
namespace Cv

variable {α β : Type}

/-- `f` maps the graph `h` into the graph `g`: same number of generators, `f` commutes with them, hashes agree -/
structure GraphMap (h : Graph β) (g : Graph α) (f : β → α) : Prop where
  nGens : h.nGens = g.nGens
  act : ∀ i, i < g.nGens → ∀ x, f (h.act i x) = g.act i (f x)
  hash : ∀ x, h.hash x = g.hash (f x)
  invClosed : h.invClosed = g.invClosed

namespace GraphMap
variable {h : Graph β} {g : Graph α} {f : β → α}

theorem hash_comp (m : GraphMap h g f) : h.hash = g.hash ∘ f := funext m.hash

theorem map_hash (m : GraphMap h g f) (xs : List β) : xs.map h.hash = (xs.map f).map g.hash := by
  rw [List.map_map, m.hash_comp]

theorem flatMap_congr_mem {γ δ : Type} (l : List γ) (F G : γ → List δ) (hFG : ∀ a ∈ l, F a = G a) :
    l.flatMap F = l.flatMap G := by
  induction l with
  | nil => rfl
  | cons a t ih =>
    simp only [List.flatMap_cons]
    rw [hFG a (by simp), ih (fun b hb => hFG b (by simp [hb]))]

theorem neighbors (m : GraphMap h g f) (xs : List β) : (h.neighbors xs).map f = g.neighbors (xs.map f) := by
  simp only [Graph.neighbors, List.map_flatMap, m.nGens]
  apply flatMap_congr_mem
  intro i hi
  rw [List.map_map, List.map_map]
  apply List.map_congr_left
  intro x _
  exact m.act i (List.mem_range.1 hi) x

theorem nb (m : GraphMap h g f) (x : β) : (h.nb x).map f = g.nb (f x) := by
  simp only [Graph.nb, nbOf, m.nGens, List.map_map]
  apply List.map_congr_left
  intro i hi
  exact m.act i (List.mem_range.1 hi) x

theorem dedupAdj (m : GraphMap h g f) (prev : Option Int) (xs : List β) :
    (Cv.dedupAdj h.hash prev xs).map f = Cv.dedupAdj g.hash prev (xs.map f) := by
  induction xs generalizing prev with
  | nil => rfl
  | cons a t ih =>
    simp only [Cv.dedupAdj, List.map_cons, m.hash a]
    split
    · exact ih _
    · rw [List.map_cons, ih]

theorem sortByKey (m : GraphMap h g f) (xs : List β) :
    (Cv.sortByKey h.hash xs).map f = Cv.sortByKey g.hash (xs.map f) := by
  unfold Cv.sortByKey
  apply List.map_mergeSort
  intro a _ b _
  rw [m.hash a, m.hash b]

theorem unique (m : GraphMap h g f) (xs : List β) : (h.unique xs).map f = g.unique (xs.map f) := by
  unfold Graph.unique uniqueStates
  rw [m.dedupAdj, m.sortByKey]

end GraphMap

/-! ### restriction to an invariant set of states -/

/-- `g` restricted to a set `P` of states that is closed under the generators -/
def Graph.restrictB (g : Graph α) (P : α → Prop) (hP : ∀ i, i < g.nGens → ∀ x, P x → P (g.act i x)) :
    Graph {x : α // P x} :=
  { nGens := g.nGens,
    act := fun i x => if hi : i < g.nGens then ⟨g.act i x.1, hP i hi x.1 x.2⟩ else x,
    hash := fun x => g.hash x.1, invClosed := g.invClosed, batchSize := g.batchSize }

theorem Graph.restrict_map (g : Graph α) (P : α → Prop) (hP : ∀ i, i < g.nGens → ∀ x, P x → P (g.act i x)) :
    GraphMap (g.restrictB P hP) g Subtype.val where
  nGens := rfl
  act := by
    intro i hi x
    simp only [Graph.restrictB, hi, dite_true]
  hash := fun _ => rfl
  invClosed := rfl

theorem gather_map (f : β → α) (l : List β) (idx : List Nat) : (gather l idx).map f = gather (l.map f) idx := by
  unfold gather
  induction idx with
  | nil => rfl
  | cons i t ih =>
    simp only [List.filterMap_cons, List.getElem?_map]
    cases l[i]? with
    | none => simpa using ih
    | some a => simpa using ih

end Cv
