/-
  Graph families of `CvModel/Families.lean` defined through enumerations (`combinations`, `permsOf`):
  increasing_k_cycles, all_cycles, derangements, involutive_derangements.  Core Lean only.
-/
import CvProofs.FamiliesCycles
import CvProofs.PermConj
namespace Cv.Families
open Cv.Perm Cv.GraphDef

/-! ### the cycle given by a duplicate-free list -/

theorem cycleFn_getD (c : List Nat) (hnd : c.Nodup) (t : Nat) (ht : t < c.length) :
    cycleFn c (c.getD t 0) = c.getD ((t + 1) % c.length) 0 := by
  unfold cycleFn
  rw [getD_eq_getElem ht, hnd.idxOf_getElem t ht, if_pos ht]
  have hm : (t + 1) % c.length < c.length := Nat.mod_lt _ (by omega)
  rw [getD_eq_getElem hm, List.getD_eq_getElem?_getD, List.getElem?_eq_getElem hm]; rfl

theorem cycleFn_of_not_mem (c : List Nat) (p : Nat) (h : p ∉ c) : cycleFn c p = p := by
  unfold cycleFn
  rw [List.idxOf_eq_length h, if_neg (by omega)]

/-- `permutation_from_cycles(n, [c])` for a duplicate-free in-range cycle -/
theorem fromCycles_cycleFn (n : Nat) (c : List Nat) (hnd : c.Nodup) (hlt : ∀ v ∈ c, v < n) :
    fromCycles n [c.map Int.ofNat] = some (oneLine n (cycleFn c)) :=
  fromCycles_single_eq n c (cycleFn c) hnd hlt (cycleFn_getD c hnd)
    (fun p _ hp => cycleFn_of_not_mem c p hp)

theorem nodup_map_ofNat (c : List Nat) (hnd : c.Nodup) : (c.map Int.ofNat).Nodup := by
  rw [List.nodup_iff_pairwise_ne] at hnd ⊢
  rw [List.pairwise_map]
  exact hnd.imp (fun h e => h (by simp only [Int.ofNat_eq_natCast] at e; omega))

theorem cycleFn_isPerm (n : Nat) (c : List Nat) (hnd : c.Nodup) (hlt : ∀ v ∈ c, v < n) :
    IsPermOf n (oneLine n (cycleFn c)) := by
  have h := fromCycles_cycleFn n c hnd hlt
  have hnd' : (([c.map Int.ofNat] : List (List Int)).flatten.map (· - (0 : Int))).Nodup := by
    simp only [List.flatten_cons, List.flatten_nil, List.append_nil]
    rw [nodup_map_sub_iff]; exact nodup_map_ofNat c hnd
  exact (fromCycles_spec n _ 0 _ h hnd').1

/-- the cycle sends `c[t]` to `c[t+1]` (cyclically) and fixes every other point -/
theorem cycleFn_spec (n : Nat) (c : List Nat) (hnd : c.Nodup) :
    (∀ t, t < c.length → (oneLine n (cycleFn c)).getD (c.getD t 0) 0 =
        if c.getD t 0 < n then c.getD ((t + 1) % c.length) 0 else 0) ∧
    (∀ p, p < n → p ∉ c → (oneLine n (cycleFn c)).getD p 0 = p) := by
  constructor
  · intro t ht
    split
    · rename_i h; rw [getD_oneLine _ _ _ h, cycleFn_getD c hnd t ht]
    · rename_i h
      have hl : (oneLine n (cycleFn c)).length ≤ c.getD t 0 := by rw [length_oneLine]; omega
      rw [List.getD_eq_getElem?_getD, List.getElem?_eq_none hl]; rfl
  · intro p hp hn
    rw [getD_oneLine _ _ _ hp, cycleFn_of_not_mem c p hn]

/-! ### sublists of `range n` -/

theorem sublist_range_props (n : Nat) (c : List Nat) (h : c.Sublist (List.range n)) :
    c.Pairwise (· < ·) ∧ c.Nodup ∧ ∀ v ∈ c, v < n :=
  ⟨List.Pairwise.sublist h List.pairwise_lt_range, h.nodup List.nodup_range,
    fun _ hv => List.mem_range.1 (h.subset hv)⟩

/-- a strictly increasing list of numbers `< n` is a sublist of `range n` -/
theorem sublist_range_of_sorted (n : Nat) (c : List Nat) (hs : c.Pairwise (· < ·))
    (hlt : ∀ v ∈ c, v < n) : c.Sublist (List.range n) := by
  have hnd : c.Nodup := by
    rw [List.nodup_iff_pairwise_ne]; exact hs.imp (fun h => Nat.ne_of_lt h)
  have hf : ((List.range n).filter fun x => decide (x ∈ c)).Pairwise (· < ·) :=
    List.Pairwise.sublist List.filter_sublist List.pairwise_lt_range
  have hp : c.Perm ((List.range n).filter fun x => decide (x ∈ c)) := by
    rw [List.perm_ext_iff_of_nodup hnd (List.filter_sublist.nodup List.nodup_range)]
    intro a
    simp only [List.mem_filter, List.mem_range, decide_eq_true_eq]
    exact ⟨fun h => ⟨hlt a h, h⟩, fun h => h.2⟩
  have := hp.eq_of_pairwise (le := fun a b => a < b)
    (fun a b _ _ h1 h2 => absurd h1 (Nat.lt_asymm h2)) hs hf
  rw [this]; exact List.filter_sublist

/-- binomial coefficients (Pascal's rule) -/
def choose : Nat → Nat → Nat
  | _, 0 => 1
  | 0, _ + 1 => 0
  | n + 1, k + 1 => choose n k + choose n (k + 1)

theorem length_combinations {β : Type} (l : List β) (k : Nat) :
    (combinations l k).length = choose l.length k := by
  induction l generalizing k with
  | nil => cases k <;> simp [combinations, choose]
  | cons a t ih =>
    cases k with
    | zero => simp [combinations, choose]
    | succ k => simp [combinations, choose, ih]

/-! ## increasing_k_cycles -/

theorem permFamily_increasingKCycles (n k : Nat) :
    permFamily "increasing_k_cycles" [n, k] = increasingKCycles n k := rfl

theorem increasingKCycles_eq (n k : Nat) (d : PermDef)
    (h : permFamily "increasing_k_cycles" [n, k] = some d) :
    (1 ≤ n ∧ 1 ≤ k ∧ k ≤ n) ∧
    d = mk n (combinations (List.range n) k) (fun c => cycleFn c) (tupleName ",")
      ("increasing_k_cycles-" ++ showNat n ++ "-" ++ showNat k) := by
  rw [permFamily_increasingKCycles] at h
  unfold increasingKCycles at h
  split at h
  · rename_i hn; simp only [Option.some.injEq] at h; exact ⟨hn, h.symm⟩
  · simp at h

theorem mem_combinations_range (n k : Nat) (c : List Nat) :
    c ∈ combinations (List.range n) k ↔ c.Pairwise (· < ·) ∧ (∀ v ∈ c, v < n) ∧ c.length = k := by
  constructor
  · intro h
    obtain ⟨h1, h2⟩ := combinations_spec _ _ _ h
    obtain ⟨g1, _, g3⟩ := sublist_range_props n c h1
    exact ⟨g1, g3, h2⟩
  · rintro ⟨h1, h2, h3⟩
    exact combinations_complete _ _ _ (sublist_range_of_sorted n c h1 h2) h3

theorem increasing_k_cycles_valid (n k : Nat) (d : PermDef)
    (h : permFamily "increasing_k_cycles" [n, k] = some d) :
    (∀ p ∈ d.gens, IsPermOf n p) ∧ d.central = List.range n ∧ d.names.length = d.gens.length := by
  obtain ⟨_, rfl⟩ := increasingKCycles_eq n k d h
  apply mk_valid
  intro c hc
  obtain ⟨h1, _⟩ := combinations_spec _ _ _ hc
  obtain ⟨_, g2, g3⟩ := sublist_range_props n c h1
  exact cycleFn_isPerm n c g2 g3

/-- `C(n, k)` generators (`choose` = Pascal's rule) -/
theorem increasing_k_cycles_count (n k : Nat) (d : PermDef)
    (h : permFamily "increasing_k_cycles" [n, k] = some d) : d.gens.length = choose n k := by
  obtain ⟨_, rfl⟩ := increasingKCycles_eq n k d h
  rw [mk_count, length_combinations, List.length_range]

/-- the generators are the cycles `(c₁ c₂ … c_k)` of all increasing `k`-tuples `c₁ < … < c_k < n`
(in the lexicographic order of `itertools.combinations`), named `"(c₁,c₂,…,c_k)"` -/
theorem increasing_k_cycles_structure (n k : Nat) (d : PermDef)
    (h : permFamily "increasing_k_cycles" [n, k] = some d) :
    d.gens.map some =
      (combinations (List.range n) k).map (fun c => fromCycles n [c.map Int.ofNat]) ∧
    d.names = (combinations (List.range n) k).map
      (fun c => "(" ++ ",".intercalate (c.map toString) ++ ")") ∧
    (∀ c, c ∈ combinations (List.range n) k ↔
      c.Pairwise (· < ·) ∧ (∀ v ∈ c, v < n) ∧ c.length = k) ∧
    (combinations (List.range n) k).Nodup := by
  obtain ⟨_, rfl⟩ := increasingKCycles_eq n k d h
  refine ⟨?_, rfl, mem_combinations_range n k, combinations_nodup _ _ List.nodup_range⟩
  rw [mk_gens, List.map_map]
  apply List.map_congr_left
  intro c hc
  obtain ⟨h1, _⟩ := combinations_spec _ _ _ hc
  obtain ⟨_, g2, g3⟩ := sublist_range_props n c h1
  simp only [Function.comp_apply]
  rw [fromCycles_cycleFn n c g2 g3]

theorem increasing_k_cycles_defined_iff (n k : Nat) :
    (permFamily "increasing_k_cycles" [n, k]).isSome ↔ 1 ≤ n ∧ 1 ≤ k ∧ k ≤ n := by
  rw [permFamily_increasingKCycles]; unfold increasingKCycles; split <;> simp_all

theorem cycleFn_one (a p : Nat) : cycleFn [a] p = p := by
  by_cases h : p = a
  · subst h; simp [cycleFn]
  · rw [cycleFn_of_not_mem _ _ (by simpa using h)]

theorem cycleFn_two (a b p : Nat) (hab : a ≠ b) : cycleFn [a, b] p = swapFn a b p := by
  unfold swapFn
  by_cases h1 : p = a
  · subst h1
    have := cycleFn_getD [p, b] (by simpa using hab) 0 (by simp)
    simpa using this
  · by_cases h2 : p = b
    · subst h2
      have := cycleFn_getD [a, p] (by simpa using hab) 1 (by simp)
      simp at this
      simp [h1, this]
    · rw [cycleFn_of_not_mem _ _ (by simp [h1, h2])]
      simp [h1, h2]

/-- an increasing cycle never sends `1` to `0` unless it has at most two entries -/
theorem increasing_cycle_one (c : List Nat) (hs : c.Pairwise (· < ·)) (hk : 3 ≤ c.length) :
    cycleFn c 1 ≠ 0 := by
  have hnd : c.Nodup := by
    rw [List.nodup_iff_pairwise_ne]; exact hs.imp (fun h => Nat.ne_of_lt h)
  rw [List.pairwise_iff_getElem] at hs
  by_cases hmem : 1 ∈ c
  · obtain ⟨t, ht, e⟩ := List.getElem_of_mem hmem
    have h1 := cycleFn_getD c hnd t ht
    rw [getD_eq_getElem ht, e] at h1
    rw [h1]
    by_cases hlast : t + 1 < c.length
    · rw [Nat.mod_eq_of_lt hlast, getD_eq_getElem hlast]
      have := hs t (t + 1) ht hlast (by omega)
      omega
    · have : t + 1 = c.length := by omega
      rw [this, Nat.mod_self, getD_eq_getElem (by omega)]
      intro h0
      have a1 := hs 0 1 (by omega) (by omega) (by omega)
      have a2 := hs 1 t (by omega) ht (by omega)
      omega
  · rw [cycleFn_of_not_mem c 1 hmem]; omega

/-- inverse-closed exactly for `k ≤ 2` -/
theorem increasing_k_cycles_inverse_closed (n k : Nat) (d : PermDef)
    (h : permFamily "increasing_k_cycles" [n, k] = some d) : d.inverseClosed = decide (k ≤ 2) := by
  obtain ⟨⟨hn, hk1, hk⟩, rfl⟩ := increasingKCycles_eq n k d h
  by_cases hk2 : k ≤ 2
  · rw [decide_eq_true hk2]
    apply mk_inverseClosed_of_invol
    intro c hc
    obtain ⟨g1, g2, g3⟩ := (mem_combinations_range n k c).1 hc
    match c, g1, g2, g3 with
    | [], _, _, g3 => simp at g3; omega
    | [a], _, g2, _ =>
      exact InvPair.congr (f := fun p => p) (g := fun p => p) ⟨fun i hi => hi, fun i _ => rfl⟩
        (fun i _ => cycleFn_one a i) (fun i _ => cycleFn_one a i)
    | [a, b], g1, g2, _ =>
      have hab : a ≠ b := by simp at g1; omega
      exact InvPair.congr (swapFn_invPair (g2 a (by simp)) (g2 b (by simp)))
        (fun i _ => cycleFn_two a b i hab) (fun i _ => cycleFn_two a b i hab)
    | _ :: _ :: _ :: _, _, _, g3 => simp at g3; omega
  · rw [decide_eq_false hk2]
    have hc0 : List.range' 0 k ∈ combinations (List.range n) k := by
      rw [← List.range_eq_range']
      exact combinations_complete _ _ _ (List.range_sublist.2 hk) (by simp)
    have e0 : oneLine n (cycleFn (List.range' 0 k)) = oneLine n (rangeCycleFn 0 k) := by
      have h1 := fromCycles_cycleFn n (List.range' 0 k) List.nodup_range'
        (by intro v hv; have := List.mem_range'_1.1 hv; omega)
      rw [fromCycles_rangeCycle n 0 k hk1 (by omega)] at h1
      exact (Option.some.inj h1).symm
    apply inverseClosed_false_of _ (oneLine n (cycleFn (List.range' 0 k)))
    · rw [mk_gens]; exact List.mem_map.2 ⟨_, hc0, rfl⟩
    · rw [e0, (rangeCycleFn_invPair hk1 (by omega)).inverse_eq, mk_gens]
      intro hmem
      obtain ⟨c, hc, e⟩ := List.mem_map.1 hmem
      obtain ⟨g1, g2, g3⟩ := (mem_combinations_range n k c).1 hc
      have := oneLine_eq_iff.1 e 1 (by omega)
      have h1 : rangeCycleInvFn 0 k 1 = 0 := by unfold rangeCycleInvFn; pw
      rw [h1] at this
      exact increasing_cycle_one c g1 (by omega) this

/-! ## derangements, involutive_derangements -/

theorem mem_allPerms (n : Nat) (p : List Nat) : p ∈ allPerms n ↔ IsPermOf n p := by
  unfold allPerms
  rw [isPermOf_iff_perm]
  constructor
  · exact permsOf_spec n _ p (by simp)
  · exact permsOf_complete n _ p (by simp)

theorem allPerms_nodup (n : Nat) : (allPerms n).Nodup := permsOf_nodup n _ List.nodup_range

theorem hasFixedPoint_false_iff (n : Nat) (p : List Nat) (hp : p.length = n) :
    hasFixedPoint p = false ↔ ∀ i, i < n → p.getD i 0 ≠ i := by
  unfold hasFixedPoint
  rw [hp, List.any_eq_false]
  simp only [List.mem_range, beq_iff_eq]

theorem isInvolution_iff (n : Nat) (p : List Nat) (hp : p.length = n) :
    isInvolution p = true ↔ ∀ i, i < n → p.getD (p.getD i 0) 0 = i := by
  unfold isInvolution
  rw [hp, List.all_eq_true]
  simp only [List.mem_range, beq_iff_eq]

/-- an involution is its own inverse -/
theorem inverse_of_involution (n : Nat) (p : List Nat) (hp : IsPermOf n p)
    (hinv : ∀ i, i < n → p.getD (p.getD i 0) 0 = i) : inverse p = p := by
  have e := eq_oneLine_getD p
  rw [hp.length_eq] at e
  have hpair : InvPair n (fun i => p.getD i 0) (fun i => p.getD i 0) :=
    ⟨fun i hi => hp.getD_lt hi, hinv⟩
  rw [e, hpair.inverse_eq]

theorem inverse_derangement (n : Nat) (p : List Nat) (hp : IsPermOf n p)
    (hd : ∀ i, i < n → p.getD i 0 ≠ i) : ∀ i, i < n → (inverse p).getD i 0 ≠ i := by
  intro i hi e
  have := getD_inverse n p hp i hi
  rw [e] at this
  exact hd i hi this

theorem permFamily_derangements (n : Nat) : permFamily "derangements" [n] = derangements n := rfl

theorem derangements_eq (n : Nat) (d : PermDef) (h : permFamily "derangements" [n] = some d) :
    2 ≤ n ∧
    d = { gens := ((allPerms n).zipIdx.filter fun x => !hasFixedPoint x.1).map (·.1)
          names := ((allPerms n).zipIdx.filter fun x => !hasFixedPoint x.1).map
            fun x => "D" ++ showNat x.2
          central := List.range n
          name := "derangements-" ++ showNat n } := by
  rw [permFamily_derangements] at h
  unfold derangements at h
  split at h
  · rename_i hn; simp only [Option.some.injEq] at h; exact ⟨hn, h.symm⟩
  · simp at h

theorem mem_derangements_sel (n : Nat) (p : List Nat) (r : Nat) :
    (p, r) ∈ (allPerms n).zipIdx.filter (fun x => !hasFixedPoint x.1) ↔
      (allPerms n)[r]? = some p ∧ ∀ i, i < n → p.getD i 0 ≠ i := by
  rw [List.mem_filter, List.mem_zipIdx_iff_getElem?]
  simp only [Bool.not_eq_true']
  constructor
  · rintro ⟨h1, h2⟩
    have hp := (mem_allPerms n p).1 (List.mem_of_getElem? h1)
    exact ⟨h1, (hasFixedPoint_false_iff n p hp.length_eq).1 h2⟩
  · rintro ⟨h1, h2⟩
    have hp := (mem_allPerms n p).1 (List.mem_of_getElem? h1)
    exact ⟨h1, (hasFixedPoint_false_iff n p hp.length_eq).2 h2⟩

theorem mem_derangements_gens (n : Nat) (p : List Nat) :
    p ∈ ((allPerms n).zipIdx.filter fun x => !hasFixedPoint x.1).map (·.1) ↔
      IsPermOf n p ∧ ∀ i, i < n → p.getD i 0 ≠ i := by
  rw [List.mem_map]
  constructor
  · rintro ⟨⟨p', r⟩, hx, rfl⟩
    obtain ⟨h1, h2⟩ := (mem_derangements_sel n p' r).1 hx
    exact ⟨(mem_allPerms n p').1 (List.mem_of_getElem? h1), h2⟩
  · rintro ⟨h1, h2⟩
    obtain ⟨r, hr⟩ := List.mem_iff_getElem?.1 ((mem_allPerms n p).2 h1)
    exact ⟨(p, r), (mem_derangements_sel n p r).2 ⟨hr, h2⟩, rfl⟩

theorem derangements_valid (n : Nat) (d : PermDef) (h : permFamily "derangements" [n] = some d) :
    (∀ p ∈ d.gens, IsPermOf n p) ∧ d.central = List.range n ∧ d.names.length = d.gens.length := by
  obtain ⟨hn, rfl⟩ := derangements_eq n d h
  refine ⟨?_, rfl, by simp⟩
  intro p hp
  exact ((mem_derangements_gens n p).1 hp).1

/-- the generators are exactly the permutations of `0..n-1` without fixed points, each once, in the
order of `itertools.permutations(range(n))` (`allPerms n`); the generator that is the `r`-th
permutation of that enumeration is named `D<r>` -/
theorem derangements_structure (n : Nat) (d : PermDef) (h : permFamily "derangements" [n] = some d) :
    (∀ p, p ∈ d.gens ↔ IsPermOf n p ∧ ∀ i, i < n → p.getD i 0 ≠ i) ∧
    d.gens.Nodup ∧ d.gens.Sublist (allPerms n) ∧
    (∀ (t : Nat) (p : List Nat) (nm : String), d.gens[t]? = some p → d.names[t]? = some nm →
      ∃ r : Nat, (allPerms n)[r]? = some p ∧ nm = "D" ++ toString r) ∧
    (∀ p, p ∈ allPerms n ↔ IsPermOf n p) := by
  obtain ⟨hn, rfl⟩ := derangements_eq n d h
  have hsub : (((allPerms n).zipIdx.filter fun x => !hasFixedPoint x.1).map (·.1)).Sublist
      (allPerms n) := by
    have h1 : ((allPerms n).zipIdx.filter fun x => !hasFixedPoint x.1).Sublist (allPerms n).zipIdx :=
      List.filter_sublist
    have h2 := h1.map (·.1)
    rwa [List.zipIdx_map_fst] at h2
  refine ⟨mem_derangements_gens n, hsub.nodup (allPerms_nodup n), hsub, ?_, mem_allPerms n⟩
  intro t p nm h1 h2
  simp only [List.getElem?_map] at h1 h2
  cases hx : ((allPerms n).zipIdx.filter fun x => !hasFixedPoint x.1)[t]? with
  | none => rw [hx] at h1; simp at h1
  | some x =>
    rw [hx] at h1 h2
    simp only [Option.map_some, Option.some.injEq] at h1 h2
    obtain ⟨p', r⟩ := x
    simp only at h1 h2
    subst h1 h2
    have := (mem_derangements_sel n p' r).1 (List.mem_of_getElem? hx)
    exact ⟨r, this.1, rfl⟩

/-- the inverse of a derangement is a derangement -/
theorem derangements_inverse_closed (n : Nat) (d : PermDef)
    (h : permFamily "derangements" [n] = some d) : d.inverseClosed = true := by
  obtain ⟨hn, rfl⟩ := derangements_eq n d h
  rw [inverseClosed_true_iff]
  intro p hp
  obtain ⟨h1, h2⟩ := (mem_derangements_gens n p).1 hp
  exact (mem_derangements_gens n _).2 ⟨inverse_isPerm n p h1, inverse_derangement n p h1 h2⟩

theorem derangements_defined_iff (n : Nat) : (permFamily "derangements" [n]).isSome ↔ 2 ≤ n := by
  rw [permFamily_derangements]; unfold derangements; split <;> simp_all

theorem permFamily_involutiveDerangements (n : Nat) :
    permFamily "involutive_derangements" [n] = involutiveDerangements n := rfl

theorem involutiveDerangements_eq (n : Nat) (d : PermDef)
    (h : permFamily "involutive_derangements" [n] = some d) :
    (2 ≤ n ∧ n % 2 = 0) ∧
    d = { gens := (allPerms n).filter fun p => !hasFixedPoint p && isInvolution p
          names := (List.range ((allPerms n).filter fun p =>
            !hasFixedPoint p && isInvolution p).length).map fun t => "ID" ++ showNat (t + 1)
          central := List.range n
          name := "involutive-derangements-" ++ showNat n } := by
  rw [permFamily_involutiveDerangements] at h
  unfold involutiveDerangements at h
  split at h
  · rename_i hn; simp only [Option.some.injEq] at h; exact ⟨hn, h.symm⟩
  · simp at h

theorem mem_involutive_gens (n : Nat) (p : List Nat) :
    p ∈ (allPerms n).filter (fun p => !hasFixedPoint p && isInvolution p) ↔
      IsPermOf n p ∧ (∀ i, i < n → p.getD i 0 ≠ i) ∧ ∀ i, i < n → p.getD (p.getD i 0) 0 = i := by
  rw [List.mem_filter, mem_allPerms]
  simp only [Bool.and_eq_true, Bool.not_eq_true']
  constructor
  · rintro ⟨h1, h2, h3⟩
    exact ⟨h1, (hasFixedPoint_false_iff n p h1.length_eq).1 h2,
      (isInvolution_iff n p h1.length_eq).1 h3⟩
  · rintro ⟨h1, h2, h3⟩
    exact ⟨h1, (hasFixedPoint_false_iff n p h1.length_eq).2 h2,
      (isInvolution_iff n p h1.length_eq).2 h3⟩

theorem involutive_derangements_valid (n : Nat) (d : PermDef)
    (h : permFamily "involutive_derangements" [n] = some d) :
    (∀ p ∈ d.gens, IsPermOf n p) ∧ d.central = List.range n ∧ d.names.length = d.gens.length := by
  obtain ⟨hn, rfl⟩ := involutiveDerangements_eq n d h
  refine ⟨?_, rfl, by simp⟩
  intro p hp
  exact ((mem_involutive_gens n p).1 hp).1

/-- the generators are exactly the involutions of `0..n-1` without fixed points, each once, in the
order of `itertools.permutations(range(n))`, named `ID1, ID2, …` -/
theorem involutive_derangements_structure (n : Nat) (d : PermDef)
    (h : permFamily "involutive_derangements" [n] = some d) :
    (∀ p, p ∈ d.gens ↔
      IsPermOf n p ∧ (∀ i, i < n → p.getD i 0 ≠ i) ∧ ∀ i, i < n → p.getD (p.getD i 0) 0 = i) ∧
    d.gens.Nodup ∧ d.gens.Sublist (allPerms n) ∧
    (∀ t : Nat, t < d.gens.length → d.names[t]? = some ("ID" ++ toString (t + 1))) := by
  obtain ⟨hn, rfl⟩ := involutiveDerangements_eq n d h
  refine ⟨mem_involutive_gens n, (List.filter_sublist).nodup (allPerms_nodup n),
    List.filter_sublist, ?_⟩
  intro t ht
  simp only [List.getElem?_map]
  rw [List.getElem?_range ht]; rfl

theorem involutive_derangements_inverse_closed (n : Nat) (d : PermDef)
    (h : permFamily "involutive_derangements" [n] = some d) : d.inverseClosed = true := by
  obtain ⟨hn, rfl⟩ := involutiveDerangements_eq n d h
  rw [inverseClosed_true_iff]
  intro p hp
  obtain ⟨h1, _, h3⟩ := (mem_involutive_gens n p).1 hp
  rw [inverse_of_involution n p h1 h3]; exact hp

theorem involutive_derangements_defined_iff (n : Nat) :
    (permFamily "involutive_derangements" [n]).isSome ↔ 2 ≤ n ∧ n % 2 = 0 := by
  rw [permFamily_involutiveDerangements]; unfold involutiveDerangements; split <;> simp_all

/-! ## all_cycles -/

/-- a cycle written from its minimum: duplicate-free, length `≥ 2`, entries `< n`, first entry smallest -/
def IsCanonCycle (n : Nat) (c : List Nat) : Prop :=
  c.Nodup ∧ 2 ≤ c.length ∧ (∀ v ∈ c, v < n) ∧ ∀ v ∈ c.tail, c.headD 0 < v

theorem mem_allCyclesList (n : Nat) (c : List Nat) :
    c ∈ allCyclesList n ↔ ∃ k sub o, 2 ≤ k ∧ k ≤ n ∧ sub ∈ combinations (List.range n) k ∧
      o ∈ permsOf sub.tail.length sub.tail ∧ c = sub.headD 0 :: o := by
  unfold allCyclesList
  simp only [List.mem_flatMap, List.mem_map, List.mem_range'_1]
  constructor
  · rintro ⟨k, hk, sub, hsub, o, ho, rfl⟩
    exact ⟨k, sub, o, hk.1, by omega, hsub, ho, rfl⟩
  · rintro ⟨k, sub, o, h1, h2, h3, h4, rfl⟩
    exact ⟨k, ⟨h1, by omega⟩, sub, h3, o, h4, rfl⟩

theorem sorted_lt_of_sorted_le_nodup (l : List Nat) (h1 : l.Pairwise (· ≤ ·)) (h2 : l.Nodup) :
    l.Pairwise (· < ·) := by
  rw [List.nodup_iff_pairwise_ne] at h2
  rw [List.pairwise_iff_getElem] at h1 h2 ⊢
  intro i j hi hj hij
  have a := h1 i j hi hj hij
  have b := h2 i j hi hj hij
  omega

theorem mem_allCyclesList_iff (n : Nat) (c : List Nat) : c ∈ allCyclesList n ↔ IsCanonCycle n c := by
  rw [mem_allCyclesList]
  constructor
  · rintro ⟨k, sub, o, h1, h2, h3, h4, rfl⟩
    obtain ⟨g1, g2⟩ := combinations_spec _ _ _ h3
    obtain ⟨s1, s2, s3⟩ := sublist_range_props n sub g1
    cases sub with
    | nil => simp at g2; omega
    | cons m tl =>
      simp only [List.tail_cons, List.headD_cons] at h4 ⊢
      have hp := permsOf_spec _ _ _ (Nat.le_refl _) h4
      rw [List.pairwise_cons] at s1
      rw [List.nodup_cons] at s2
      refine ⟨?_, ?_, ?_, ?_⟩
      · rw [List.nodup_cons]
        exact ⟨fun hm => s2.1 (hp.subset hm), hp.nodup_iff.2 s2.2⟩
      · have := hp.length_eq; simp only [List.length_cons] at g2 ⊢; omega
      · intro v hv
        rcases List.mem_cons.1 hv with rfl | hv
        · exact s3 _ (by simp)
        · exact s3 v (List.mem_cons_of_mem _ (hp.subset hv))
      · intro v hv
        simp only [List.tail_cons, List.headD_cons] at hv ⊢
        exact s1.1 v (hp.subset hv)
  · rintro ⟨h1, h2, h3, h4⟩
    cases c with
    | nil => simp at h2
    | cons m o =>
      simp only [List.tail_cons, List.headD_cons] at h4
      rw [List.nodup_cons] at h1
      have hperm := isort_perm o
      have hsorted : (m :: isort o).Pairwise (· < ·) := by
        rw [List.pairwise_cons]
        refine ⟨fun v hv => h4 v (hperm.subset hv), ?_⟩
        exact sorted_lt_of_sorted_le_nodup _ (isort_sorted o) (hperm.nodup_iff.2 h1.2)
      have hlt : ∀ v ∈ m :: isort o, v < n := by
        intro v hv
        rcases List.mem_cons.1 hv with rfl | hv
        · exact h3 _ (by simp)
        · exact h3 v (List.mem_cons_of_mem _ (hperm.subset hv))
      have hsub := sublist_range_of_sorted n _ hsorted hlt
      have hlen : (m :: isort o).length = (m :: o).length := by
        simp only [List.length_cons]; rw [hperm.length_eq]
      have hle : (m :: o).length ≤ n := by
        rw [← hlen]
        have := hsub.length_le
        simpa using this
      refine ⟨(m :: o).length, m :: isort o, o, h2, hle,
        combinations_complete _ _ _ hsub hlen, ?_, by simp⟩
      simp only [List.tail_cons]
      exact permsOf_complete _ _ _ (Nat.le_refl _) hperm.symm

theorem permFamily_allCycles (n : Nat) : permFamily "all_cycles" [n] = allCycles n := rfl

theorem allCycles_eq (n : Nat) (d : PermDef) (h : permFamily "all_cycles" [n] = some d) :
    2 ≤ n ∧
    d = { gens := (allCyclesList n).map fun c => oneLine n (cycleFn c)
          names := (List.range (allCyclesList n).length).map fun t => "cycle_" ++ showNat (t + 1)
          central := List.range n
          name := "all_cycles-" ++ showNat n } := by
  rw [permFamily_allCycles] at h
  unfold allCycles at h
  split at h
  · rename_i hn; simp only [Option.some.injEq] at h; exact ⟨hn, h.symm⟩
  · simp at h

theorem all_cycles_valid (n : Nat) (d : PermDef) (h : permFamily "all_cycles" [n] = some d) :
    (∀ p ∈ d.gens, IsPermOf n p) ∧ d.central = List.range n ∧ d.names.length = d.gens.length := by
  obtain ⟨hn, rfl⟩ := allCycles_eq n d h
  refine ⟨?_, rfl, by simp⟩
  intro p hp
  obtain ⟨c, hc, rfl⟩ := List.mem_map.1 hp
  obtain ⟨h1, _, h3, _⟩ := (mem_allCyclesList_iff n c).1 hc
  exact cycleFn_isPerm n c h1 h3

/-- the generators are the cycles (as built by `permutation_from_cycles`) of the list `allCyclesList n`,
which contains exactly the cycles of length `2..n` written from their minimum; generator `t` is named
`cycle_<t+1>` -/
theorem all_cycles_structure (n : Nat) (d : PermDef) (h : permFamily "all_cycles" [n] = some d) :
    d.gens.map some = (allCyclesList n).map (fun c => fromCycles n [c.map Int.ofNat]) ∧
    (∀ c, c ∈ allCyclesList n ↔
      c.Nodup ∧ 2 ≤ c.length ∧ (∀ v ∈ c, v < n) ∧ ∀ v ∈ c.tail, c.headD 0 < v) ∧
    (∀ t : Nat, t < d.gens.length → d.names[t]? = some ("cycle_" ++ toString (t + 1))) := by
  obtain ⟨hn, rfl⟩ := allCycles_eq n d h
  refine ⟨?_, mem_allCyclesList_iff n, ?_⟩
  · simp only [List.map_map]
    apply List.map_congr_left
    intro c hc
    obtain ⟨h1, _, h3, _⟩ := (mem_allCyclesList_iff n c).1 hc
    simp only [Function.comp_apply]
    rw [fromCycles_cycleFn n c h1 h3]
  · intro t ht
    simp only [List.length_map] at ht
    simp only [List.getElem?_map]
    rw [List.getElem?_range ht]; rfl

theorem all_cycles_defined_iff (n : Nat) : (permFamily "all_cycles" [n]).isSome ↔ 2 ≤ n := by
  rw [permFamily_allCycles]; unfold allCycles; split <;> simp_all

theorem getD_cons_reverse (m : Nat) (o : List Nat) (j : Nat) (hj : j < o.length + 1) :
    (m :: o.reverse).getD j 0 = (m :: o).getD ((o.length + 1 - j) % (o.length + 1)) 0 := by
  cases j with
  | zero => simp
  | succ j =>
    have h1 : (o.length + 1 - (j + 1)) % (o.length + 1) = o.length - j := by
      rw [Nat.mod_eq_of_lt (by omega)]; omega
    rw [h1]
    have h2 : o.length - j = (o.length - j - 1) + 1 := by omega
    rw [h2]
    simp only [List.getD_cons_succ]
    rw [getD_eq_getElem (by simp; omega), getD_eq_getElem (by omega), List.getElem_reverse]
    congr 1; omega

/-- the cycle `(m o₁ … o_r)` is inverted by `(m o_r … o₁)` -/
theorem cycleFn_reverse_invPair (n m : Nat) (o : List Nat) (hnd : (m :: o).Nodup)
    (hlt : ∀ v ∈ m :: o, v < n) : InvPair n (cycleFn (m :: o)) (cycleFn (m :: o.reverse)) := by
  have hnd' : (m :: o.reverse).Nodup := by
    rw [List.nodup_cons] at hnd ⊢
    exact ⟨by simpa using hnd.1, (List.reverse_perm o).nodup_iff.2 hnd.2⟩
  have hperm := cycleFn_isPerm n (m :: o) hnd hlt
  have hL : (m :: o).length = o.length + 1 := rfl
  have hL' : (m :: o.reverse).length = o.length + 1 := by simp
  -- predecessor property of the reversed cycle
  have hpred : ∀ s, s < o.length + 1 →
      cycleFn (m :: o.reverse) ((m :: o).getD s 0) =
        (m :: o).getD ((s + o.length) % (o.length + 1)) 0 := by
    intro s hs
    -- c[s] = c'[r s]
    have hr : (o.length + 1 - s) % (o.length + 1) < o.length + 1 := Nat.mod_lt _ (by omega)
    have e1 : (m :: o).getD s 0 = (m :: o.reverse).getD ((o.length + 1 - s) % (o.length + 1)) 0 := by
      rw [getD_cons_reverse m o _ hr]
      congr 1
      by_cases h0 : s = 0
      · subst h0; simp
      · rw [Nat.mod_eq_of_lt (by omega : o.length + 1 - s < o.length + 1),
          Nat.mod_eq_of_lt (by omega)]; omega
    rw [e1, cycleFn_getD _ hnd' _ (by rw [hL']; exact hr), hL',
      getD_cons_reverse m o _ (Nat.mod_lt _ (by omega))]
    congr 1
    by_cases h0 : s = 0
    · subst h0
      by_cases hl : o.length = 0
      · simp [hl]
      · have a1 : (o.length + 1 - 0) % (o.length + 1) = 0 := by simp
        rw [a1, Nat.mod_eq_of_lt (by omega : 0 + 1 < o.length + 1),
          Nat.mod_eq_of_lt (by omega : o.length + 1 - (0 + 1) < o.length + 1),
          Nat.mod_eq_of_lt (by omega : 0 + o.length < o.length + 1)]
        omega
    · have a1 : (o.length + 1 - s) % (o.length + 1) = o.length + 1 - s :=
        Nat.mod_eq_of_lt (by omega)
      rw [a1]
      by_cases h1 : s = 1
      · subst h1
        have a2 : o.length + 1 - 1 + 1 = o.length + 1 := by omega
        rw [a2, Nat.mod_self, Nat.sub_zero, Nat.mod_self, Nat.add_comm, Nat.mod_self]
      · rw [Nat.mod_eq_of_lt (by omega : o.length + 1 - s + 1 < o.length + 1),
          Nat.mod_eq_of_lt (by omega : o.length + 1 - (o.length + 1 - s + 1) < o.length + 1)]
        have : s + o.length = (s - 1) + (o.length + 1) := by omega
        rw [this, Nat.add_mod_right, Nat.mod_eq_of_lt (by omega)]
        omega
  constructor
  · intro i hi
    have := hperm.getD_lt hi
    rwa [getD_oneLine _ _ _ hi] at this
  · intro i hi
    by_cases hmem : i ∈ m :: o
    · obtain ⟨t, ht, e⟩ := List.getElem_of_mem hmem
      have e' : i = (m :: o).getD t 0 := by rw [getD_eq_getElem ht]; exact e.symm
      rw [e', cycleFn_getD _ hnd t ht, hL, hpred _ (Nat.mod_lt _ (by omega))]
      congr 1
      rw [hL] at ht
      by_cases hlast : t + 1 < o.length + 1
      · rw [Nat.mod_eq_of_lt hlast]
        have : t + 1 + o.length = t + (o.length + 1) := by omega
        rw [this, Nat.add_mod_right, Nat.mod_eq_of_lt ht]
      · have : t + 1 = o.length + 1 := by omega
        rw [this, Nat.mod_self, Nat.zero_add, Nat.mod_eq_of_lt (by omega)]; omega
    · rw [cycleFn_of_not_mem _ _ hmem]
      apply cycleFn_of_not_mem
      intro h; apply hmem
      rcases List.mem_cons.1 h with rfl | h
      · simp
      · exact List.mem_cons_of_mem _ (by simpa using h)


/-- the inverse of a cycle is a cycle -/
theorem all_cycles_inverse_closed (n : Nat) (d : PermDef)
    (h : permFamily "all_cycles" [n] = some d) : d.inverseClosed = true := by
  obtain ⟨hn, rfl⟩ := allCycles_eq n d h
  rw [inverseClosed_true_iff]
  intro p hp
  obtain ⟨c, hc, rfl⟩ := List.mem_map.1 hp
  obtain ⟨h1, h2, h3, h4⟩ := (mem_allCyclesList_iff n c).1 hc
  cases c with
  | nil => simp at h2
  | cons m o =>
    rw [(cycleFn_reverse_invPair n m o h1 h3).inverse_eq]
    refine List.mem_map.2 ⟨m :: o.reverse, (mem_allCyclesList_iff n _).2 ⟨?_, ?_, ?_, ?_⟩, rfl⟩
    · rw [List.nodup_cons] at h1 ⊢
      exact ⟨by simpa using h1.1, (List.reverse_perm o).nodup_iff.2 h1.2⟩
    · simpa using h2
    · intro v hv
      apply h3
      rcases List.mem_cons.1 hv with rfl | hv
      · simp
      · exact List.mem_cons_of_mem _ (by simpa using hv)
    · intro v hv
      simp only [List.tail_cons, List.headD_cons] at hv h4 ⊢
      exact h4 v (by simpa using hv)

/-! ## conjugacy_classes (deterministic part) and the heterogeneous argument list -/

theorem permFamilyP_conj (n : Nat) (cls : List (List Nat)) :
    permFamilyP "conjugacy_classes" [.nat n, .lens cls] = conjugacyClasses n cls := rfl

theorem filterMap_nat_nats (nats : List Nat) : (nats.map Param.nat).filterMap Param.nat? = nats := by
  induction nats with
  | nil => rfl
  | cons x t ih => rw [List.map_cons, List.filterMap_cons]; simp only [Param.nat?]; rw [ih]

theorem filterMap_nat_flags (flags : List Bool) :
    (flags.map Param.flag).filterMap Param.nat? = [] := by
  induction flags with
  | nil => rfl
  | cons x t ih => rw [List.map_cons, List.filterMap_cons]; simp only [Param.nat?]; exact ih

theorem filterMap_flag_nats (nats : List Nat) : (nats.map Param.nat).filterMap Param.flag? = [] := by
  induction nats with
  | nil => rfl
  | cons x t ih => rw [List.map_cons, List.filterMap_cons]; simp only [Param.flag?]; exact ih

theorem filterMap_flag_flags (flags : List Bool) :
    (flags.map Param.flag).filterMap Param.flag? = flags := by
  induction flags with
  | nil => rfl
  | cons x t ih => rw [List.map_cons, List.filterMap_cons]; simp only [Param.flag?]; rw [ih]

/-- for ordinary constructors the heterogeneous call is the plain one -/
theorem permFamilyP_eq (fam : String) (nats : List Nat) (flags : List Bool)
    (hf : fam ≠ "conjugacy_classes") :
    permFamilyP fam (nats.map Param.nat ++ flags.map Param.flag) = permFamily fam nats flags := by
  unfold permFamilyP
  rw [if_neg hf]
  have h1 : (nats.map Param.nat ++ flags.map Param.flag).any Param.isLens = false := by
    rw [List.any_eq_false]
    intro x hx
    rcases List.mem_append.1 hx with hx | hx <;> obtain ⟨_, _, rfl⟩ := List.mem_map.1 hx <;>
      simp [Param.isLens]
  rw [h1, List.filterMap_append, List.filterMap_append, filterMap_nat_nats, filterMap_nat_flags,
    filterMap_flag_nats, filterMap_flag_flags, List.append_nil, List.nil_append]
  rfl


theorem length_flatMap_zip_range {α β γ : Type} (labels : List α) (perClass : List (List β))
    (g : α × List β → Nat → γ) (hl : labels.length = perClass.length) :
    ((List.zip labels perClass).flatMap fun x => (List.range x.2.length).map (g x)).length =
      perClass.flatten.length := by
  induction labels generalizing perClass with
  | nil =>
    have : perClass = [] := by simpa using hl.symm
    subst this; rfl
  | cons a t ih =>
    cases perClass with
    | nil => simp at hl
    | cons b t' =>
      simp only [List.zip_cons_cons, List.flatMap_cons, List.length_append, List.length_map,
        List.length_range, List.flatten_cons]
      rw [ih t' (by simpa using hl)]

theorem insertDesc_perm (a : Nat) (l : List Nat) : (insertDesc a l).Perm (a :: l) := by
  induction l with
  | nil => exact List.Perm.refl _
  | cons b t ih =>
    unfold insertDesc
    split
    · exact List.Perm.refl _
    · exact (ih.cons b).trans (List.Perm.swap a b t)

theorem sortDesc_perm (l : List Nat) : (sortDesc l).Perm l := by
  induction l with
  | nil => exact List.Perm.refl _
  | cons a t ih =>
    have : sortDesc (a :: t) = insertDesc a (sortDesc t) := rfl
    rw [this]
    exact (insertDesc_perm a _).trans (ih.cons a)

/-- `conjugacy_classes(n, {c: None …})`: every generator is a permutation of `0..n-1` whose cycle type
is one of the requested classes (padded with fixed points) -/
theorem conjugacy_classes_valid (n : Nat) (cls : List (List Nat)) (d : PermDef)
    (h : permFamilyP "conjugacy_classes" [.nat n, .lens cls] = some d) :
    (∀ p ∈ d.gens, IsPermOf n p ∧ ∃ c ∈ cls, cycleType p =
      (c ++ List.replicate (n - c.sum) 1).mergeSort (fun a b => decide (a ≤ b))) ∧
    d.central = List.range n ∧ d.names.length = d.gens.length := by
  rw [permFamilyP_conj] at h
  unfold conjugacyClasses at h
  simp only at h
  split at h
  · split at h
    · simp at h
    · rename_i perClass hmap
      split at h
      · simp at h
      · simp only [Option.some.injEq] at h
        subst h
        refine ⟨?_, rfl, ?_⟩
        · intro p hp
          simp only at hp
          obtain ⟨ps, hps, hpp⟩ := List.mem_flatten.1 hp
          obtain ⟨i, hi, rfl⟩ := List.getElem_of_mem hps
          have hlen := mapM_some_length hmap
          have hi' : i < (List.map (fun c => sortDesc (c ++ List.replicate (n - c.sum) 1))
              cls.eraseDups).length := by omega
          obtain ⟨b, hb1, hb2⟩ := mapM_some_getElem hmap i hi'
          rw [List.getElem?_eq_getElem hi] at hb1
          simp only [Option.some.injEq] at hb1
          subst hb1
          obtain ⟨g1, g2⟩ := conj_sound n _ _ hb2 p hpp
          refine ⟨g1, ?_⟩
          have hi'' : i < cls.eraseDups.length := by simpa using hi'
          refine ⟨cls.eraseDups[i], List.mem_eraseDups.1 (List.getElem_mem hi''), ?_⟩
          rw [g2]
          simp only [List.getElem_map]
          exact mergeSort_eq_of_perm (sortDesc_perm _)
        · simp only
          apply length_flatMap_zip_range
          rw [List.length_map, mapM_some_length hmap]
  · simp at h


end Cv.Families
