/-
  G5: `sheveleva2` regenerated from the Python source = closed-form specification.
-/
import CvGen.PyFamilies
import CvProofs.PyLemmasG5
import CvProofs.PyFamG5Cycles
import CvProofs.FamiliesMore
namespace Cv.PyG5
open Cv.Py Cv.PyGen Cv.GraphDef Cv.Families Cv.Perm

/-- point function after the assignment `p[i] = v` -/
def setFn (f : Nat → Nat) (i v : Nat) : Nat → Nat := fun p => if p = i then v else f p

theorem oneLine_set (n : Nat) (f : Nat → Nat) (i v : Nat) :
    (oneLine n f).set i v = oneLine n (setFn f i v) := by
  apply List.ext_getElem (by simp)
  intro p h1 h2
  simp only [List.getElem_set, getElem_oneLine, setFn]
  split <;> split <;> first | rfl | omega

theorem pySet_oneLine (n : Nat) (f : Nat → Nat) (i v : Int) (i' v' : Nat) (hi : i = (i' : Int))
    (hv : v = (v' : Int)) (h : i' < n) :
    pySet (toI (oneLine n f)) i v = some (toI (oneLine n (setFn f i' v'))) := by
  subst hi hv
  rw [pySet_toI _ _ _ (by simpa using h), oneLine_set]

/-- the four assignments that write the 4-cycle `(k-1 k k+1 k+2)` -/
def sFn (f : Nat → Nat) (k : Nat) : Nat → Nat :=
  setFn (setFn (setFn (setFn f (k - 1) k) k (k + 1)) (k + 1) (k + 2)) (k + 2) (k - 1)

/-- the three assignments `p[k] = k; p[k+1] = k+1; p[k+2] = k+2` -/
def aFn3 (f : Nat → Nat) (k : Nat) : Nat → Nat :=
  setFn (setFn (setFn f k k) (k + 1) (k + 1)) (k + 2) (k + 2)

/-- the four assignments `p[k] = k; p[k+1] = k+3; p[k+2] = k+2; p[k+3] = k+1` -/
def aFn4 (f : Nat → Nat) (k : Nat) : Nat → Nat :=
  setFn (setFn (setFn (setFn f k k) (k + 1) (k + 3)) (k + 2) (k + 2)) (k + 3) (k + 1)

theorem chainS {β : Type} (n k : Nat) (f : Nat → Nat) (h1 : 1 ≤ k) (h2 : k + 3 ≤ n)
    (F : List Int → Option β) :
    ((pySet (toI (oneLine n f)) ((k : Int) - 1) (k : Int)).bind fun p =>
      (pySet p (k : Int) ((k : Int) + 1)).bind fun p =>
        (pySet p ((k : Int) + 1) ((k : Int) + 2)).bind fun p =>
          (pySet p ((k : Int) + 2) ((k : Int) - 1)).bind F) = F (toI (oneLine n (sFn f k))) := by
  rw [pySet_oneLine n _ _ _ (k - 1) k (by omega) (by omega) (by omega), Option.bind_some,
    pySet_oneLine n _ _ _ k (k + 1) (by omega) (by omega) (by omega), Option.bind_some,
    pySet_oneLine n _ _ _ (k + 1) (k + 2) (by omega) (by omega) (by omega), Option.bind_some,
    pySet_oneLine n _ _ _ (k + 2) (k - 1) (by omega) (by omega) (by omega), Option.bind_some]
  rfl

theorem chainA3 {β : Type} (n k : Nat) (f : Nat → Nat) (h2 : k + 3 ≤ n)
    (F : List Int → Option β) :
    ((pySet (toI (oneLine n f)) (k : Int) (k : Int)).bind fun p =>
      (pySet p ((k : Int) + 1) ((k : Int) + 1)).bind fun p =>
        (pySet p ((k : Int) + 2) ((k : Int) + 2)).bind F) = F (toI (oneLine n (aFn3 f k))) := by
  rw [pySet_oneLine n _ _ _ k k (by omega) (by omega) (by omega), Option.bind_some,
    pySet_oneLine n _ _ _ (k + 1) (k + 1) (by omega) (by omega) (by omega), Option.bind_some,
    pySet_oneLine n _ _ _ (k + 2) (k + 2) (by omega) (by omega) (by omega), Option.bind_some]
  rfl

theorem chainA4 {β : Type} (n k : Nat) (f : Nat → Nat) (h2 : k + 3 < n)
    (F : List Int → Option β) :
    ((pySet (toI (oneLine n f)) (k : Int) (k : Int)).bind fun p =>
      (pySet p ((k : Int) + 1) ((k : Int) + 3)).bind fun p =>
        (pySet p ((k : Int) + 2) ((k : Int) + 2)).bind fun p =>
          (pySet p ((k : Int) + 3) ((k : Int) + 1)).bind F) = F (toI (oneLine n (aFn4 f k))) := by
  rw [pySet_oneLine n _ _ _ k k (by omega) (by omega) (by omega), Option.bind_some,
    pySet_oneLine n _ _ _ (k + 1) (k + 3) (by omega) (by omega) (by omega), Option.bind_some,
    pySet_oneLine n _ _ _ (k + 2) (k + 2) (by omega) (by omega) (by omega), Option.bind_some,
    pySet_oneLine n _ _ _ (k + 3) (k + 1) (by omega) (by omega) (by omega), Option.bind_some]
  rfl

theorem oneLine_sFn (n k r : Nat) (h1 : 1 ≤ k) (hr : (k + 1) % 2 = r) :
    oneLine n (sFn (adjSwapsFn r n) k) = oneLine n (shevelevaSFn n k) := by
  apply oneLine_congr
  intro p hp
  simp only [sFn, setFn, shevelevaSFn, hr]
  pw

theorem oneLine_aFn3 (n k r : Nat) (h : k + 3 = n) (hr : k % 2 = r) :
    oneLine n (aFn3 (adjSwapsFn r n) k) = oneLine n (shevelevaAFn n k) := by
  apply oneLine_congr
  intro p hp
  simp only [aFn3, setFn, shevelevaAFn, hr]
  pw

theorem oneLine_aFn4 (n k r : Nat) (h : k + 3 < n) (hr : k % 2 = r) :
    oneLine n (aFn4 (adjSwapsFn r n) k) = oneLine n (shevelevaAFn n k) := by
  apply oneLine_congr
  intro p hp
  simp only [aFn4, setFn, shevelevaAFn, hr]
  pw

theorem sheveleva2_wf (n k : Nat) (d : PermDef) (h : sheveleva2 n k = some d) : WF d := by
  have hv := sheveleva2_valid n k d h
  obtain ⟨hc, rfl⟩ := sheveleva2_eq n k d h
  exact wf_of_valid n _ (by omega) (by simp) hv

theorem sheveleva2_gen (n k : Nat) :
    (Fam.sheveleva2 (n : Int) (k : Int)).bind rawToPermDef = Families.sheveleva2 n k := by
  have hwf := sheveleva2_wf n k
  unfold Fam.sheveleva2
  have a0 := pfc_adjSwaps n 0
  have a1 := pfc_adjSwaps n 1
  rw [show ((0 : Nat) : Int) = 0 from rfl] at a0
  rw [show ((1 : Nat) : Int) = 1 from rfl] at a1
  by_cases hk : 1 ≤ k ∧ k + 3 ≤ n
  · have hk' : (decide ((1 : Int) ≤ (k : Int)) && decide ((k : Int) ≤ (n : Int) - 3)) = true := by
      simp; omega
    simp only [hk', pyAssert, if_true, Option.bind_eq_bind, Option.bind_some, a0, a1, Option.pure_def]
    have hfm : Int.fmod (k : Int) 2 = (k : Int) % 2 := Int.fmod_eq_emod_of_nonneg _ (by omega)
    have fin : rawToPermDef
        { gens := [toI (oneLine n (shevelevaAFn n k)), toI (oneLine n (shevelevaSFn n k))],
          central := some (toI (List.range n)), names := some ["A", "S"],
          name := some ("sheveleva2-n" ++ showNat n ++ "-k" ++ showNat k) } = sheveleva2 n k := by
      unfold sheveleva2 at hwf ⊢
      rw [if_pos hk] at hwf ⊢
      exact rawToPermDef_of_wf _ (hwf _ rfl)
    by_cases hodd : k % 2 = 1
    · have c1 : (Int.fmod (k : Int) 2 == 1) = true := by
        rw [hfm]; simp only [beq_iff_eq]; omega
      by_cases hlast : k + 3 = n
      · have c2 : ((k : Int) == (n : Int) - 3) = true := by simp only [beq_iff_eq]; omega
        simp only [c1, c2, if_true]
        rw [chainS n k _ hk.1 hk.2, chainA3 n k _ hk.2]
        simp only [Option.bind_some, pyRange_zero_nat, pyStr_nat]
        rw [oneLine_sFn n k 0 hk.1 (by omega), oneLine_aFn3 n k 1 hlast hodd]
        exact fin
      · have c2 : ((k : Int) == (n : Int) - 3) = false := by
          simp only [beq_eq_false_iff_ne, ne_eq]; omega
        simp only [c1, c2, if_true, Bool.false_eq_true, if_false]
        rw [chainS n k _ hk.1 hk.2, chainA4 n k _ (by omega)]
        simp only [Option.bind_some, pyRange_zero_nat, pyStr_nat]
        rw [oneLine_sFn n k 0 hk.1 (by omega), oneLine_aFn4 n k 1 (by omega) hodd]
        exact fin
    · have c1 : (Int.fmod (k : Int) 2 == 1) = false := by
        rw [hfm]; simp only [beq_eq_false_iff_ne, ne_eq]; omega
      by_cases hlast : k + 3 = n
      · have c2 : ((k : Int) == (n : Int) - 3) = true := by simp only [beq_iff_eq]; omega
        simp only [c1, c2, if_true, Bool.false_eq_true, if_false]
        rw [chainS n k _ hk.1 hk.2, chainA3 n k _ hk.2]
        simp only [Option.bind_some, pyRange_zero_nat, pyStr_nat]
        rw [oneLine_sFn n k 1 hk.1 (by omega), oneLine_aFn3 n k 0 hlast (by omega)]
        exact fin
      · have c2 : ((k : Int) == (n : Int) - 3) = false := by
          simp only [beq_eq_false_iff_ne, ne_eq]; omega
        simp only [c1, c2, Bool.false_eq_true, if_false]
        rw [chainS n k _ hk.1 hk.2, chainA4 n k _ (by omega)]
        simp only [Option.bind_some, pyRange_zero_nat, pyStr_nat]
        rw [oneLine_sFn n k 1 hk.1 (by omega), oneLine_aFn4 n k 0 (by omega) (by omega)]
        exact fin
  · have hk' : (decide ((1 : Int) ≤ (k : Int)) && decide ((k : Int) ≤ (n : Int) - 3)) = false := by
      simp; omega
    simp only [hk', pyAssert, Option.bind_eq_bind]
    unfold sheveleva2
    rw [if_neg hk]
    rfl

/-- the source asserts `1 <= k <= n - 3` -/
theorem sheveleva2_gen_none (n k : Int) (h : ¬ (1 ≤ k ∧ k ≤ n - 3)) : Fam.sheveleva2 n k = none := by
  unfold Fam.sheveleva2
  have hk' : (decide ((1 : Int) ≤ k) && decide (k ≤ n - 3)) = false := by
    simp only [Bool.and_eq_false_iff, decide_eq_false_iff_not]; omega
  simp only [hk', pyAssert, Option.bind_eq_bind]
  rfl

end Cv.PyG5
