/-
  The capped reference BFS `refLayersCap` is a prefix of the reference BFS `refLayers`; when it reports
  `exhausted` it is the whole reference BFS and the next distance class is empty.  Core Lean only.
-/
import CvModel.RefCap
import CvModel.RefCapW
import CvProofs.RefBfs
namespace Cv

theorem refLoopCap_zero (nb : Nat → List Nat) (cap total : Nat) (seen cur : List Nat) :
    refLoopCap nb cap 0 total seen cur = ([cur], .depth) := rfl

theorem refLoopCap_succ (nb : Nat → List Nat) (cap fuel total : Nat) (seen cur : List Nat) :
    refLoopCap nb cap (fuel+1) total seen cur =
      if (refStep nb seen cur).isEmpty then ([cur], .exhausted)
      else if total + (refStep nb seen cur).length > cap then ([cur], .capped)
      else
        (cur :: (refLoopCap nb cap fuel (total + (refStep nb seen cur).length)
          (List.merge seen (refStep nb seen cur) (fun a b => decide (a ≤ b))) (refStep nb seen cur)).1,
         (refLoopCap nb cap fuel (total + (refStep nb seen cur).length)
          (List.merge seen (refStep nb seen cur) (fun a b => decide (a ≤ b))) (refStep nb seen cur)).2) := rfl

/-- the capped loop returns a prefix of the uncapped loop (same fuel, same state) -/
theorem refLoopCap_prefix (nb : Nat → List Nat) (cap fuel total : Nat) (seen cur : List Nat) :
    (refLoopCap nb cap fuel total seen cur).1 <+: refLoop nb fuel seen cur := by
  induction fuel generalizing total seen cur with
  | zero => rw [refLoopCap_zero, refLoop_zero]; exact List.prefix_refl _
  | succ fuel ih =>
    rw [refLoopCap_succ, refLoop_succ]
    by_cases h1 : (refStep nb seen cur).isEmpty = true
    · simp only [h1, if_true]; exact List.prefix_refl _
    · simp only [h1, Bool.false_eq_true, if_false]
      by_cases h2 : total + (refStep nb seen cur).length > cap
      · simp only [h2, if_true]
        exact List.prefix_cons_inj _ |>.2 (List.nil_prefix)
      · simp only [h2, if_false]
        exact (List.prefix_cons_inj _).2 (ih _ _ _)

/-- the capped loop reporting `exhausted` is the uncapped loop, which stopped before its fuel ran out -/
theorem refLoopCap_exhausted (nb : Nat → List Nat) (cap fuel total : Nat) (seen cur : List Nat)
    (h : (refLoopCap nb cap fuel total seen cur).2 = .exhausted) :
    (refLoopCap nb cap fuel total seen cur).1 = refLoop nb fuel seen cur ∧
      (refLoop nb fuel seen cur).length < fuel + 1 := by
  induction fuel generalizing total seen cur with
  | zero => rw [refLoopCap_zero] at h; cases h
  | succ fuel ih =>
    rw [refLoopCap_succ] at h ⊢
    rw [refLoop_succ]
    by_cases h1 : (refStep nb seen cur).isEmpty = true
    · simp only [h1, if_true]
      exact ⟨trivial, by simp⟩
    · simp only [h1, Bool.false_eq_true, if_false] at h ⊢
      by_cases h2 : total + (refStep nb seen cur).length > cap
      · simp only [h2, if_true] at h; cases h
      · simp only [h2, if_false] at h ⊢
        obtain ⟨e, hl⟩ := ih _ _ _ h
        refine ⟨by rw [e], ?_⟩
        simp only [List.length_cons]; omega

theorem refLayersCap_prefix' (nb : Nat → List Nat) (S : List Nat) (D cap : Nat) :
    (refLayersCap nb S D cap).1 <+: refLayers nb S D :=
  refLoopCap_prefix nb cap D _ _ _

theorem refLayersCap_exhausted' (nb : Nat → List Nat) (S : List Nat) (D cap : Nat)
    (h : (refLayersCap nb S D cap).2 = .exhausted) :
    (refLayersCap nb S D cap).1 = refLayers nb S D ∧
      ∀ x, ¬ DistLayer nb S (refLayers nb S D).length x := by
  obtain ⟨e, hl⟩ := refLoopCap_exhausted nb cap D _ _ _ h
  exact ⟨e, (refLayers_spec' nb S D).2.2.2.2 hl⟩

theorem refLayersCap_layers' (nb : Nat → List Nat) (S : List Nat) (D cap : Nat) (i : Nat) (L : List Nat)
    (h : (refLayersCap nb S D cap).1[i]? = some L) :
    L.Pairwise (· < ·) ∧ ∀ x, x ∈ L ↔ DistLayer nb S i x := by
  apply (refLayers_spec' nb S D).1 i L
  obtain ⟨t, ht⟩ := refLayersCap_prefix' nb S D cap
  rw [← ht]
  have hi : i < (refLayersCap nb S D cap).1.length := by
    apply Classical.byContradiction; intro hge
    rw [List.getElem?_eq_none (by omega)] at h; cases h
  rw [List.getElem?_append_left hi]; exact h

/-- the capped run never has an empty layer after layer 0, is non-empty, and respects the depth limit -/
theorem refLayersCap_length (nb : Nat → List Nat) (S : List Nat) (D cap : Nat) :
    1 ≤ (refLayersCap nb S D cap).1.length ∧ (refLayersCap nb S D cap).1.length ≤ D + 1 := by
  constructor
  · unfold refLayersCap
    cases D with
    | zero => simp [refLoopCap_zero]
    | succ D =>
      simp only [refLoopCap_succ]
      split
      · simp
      · split <;> simp
  · exact Nat.le_trans (refLayersCap_prefix' nb S D cap).length_le (refLayers_spec' nb S D).2.2.1


/-! ### the variant with a work budget (`CvModel/RefCapW.lean`): one more early return -/

theorem refLoopCapW_zero (nb : Nat → List Nat) (deg cap work total : Nat) (seen cur : List Nat) :
    refLoopCapW nb deg cap work 0 total seen cur = ([cur], .depth) := rfl

theorem refLoopCapW_succ (nb : Nat → List Nat) (deg cap work fuel total : Nat) (seen cur : List Nat) :
    refLoopCapW nb deg cap work (fuel+1) total seen cur =
      if cur.length * deg > work then ([cur], .capped)
      else if (refStep nb seen cur).isEmpty then ([cur], .exhausted)
      else if total + (refStep nb seen cur).length > cap then ([cur], .capped)
      else
        (cur :: (refLoopCapW nb deg cap work fuel (total + (refStep nb seen cur).length)
          (List.merge seen (refStep nb seen cur) (fun a b => decide (a ≤ b))) (refStep nb seen cur)).1,
         (refLoopCapW nb deg cap work fuel (total + (refStep nb seen cur).length)
          (List.merge seen (refStep nb seen cur) (fun a b => decide (a ≤ b))) (refStep nb seen cur)).2) := rfl

theorem refLoop_cons_prefix (nb : Nat → List Nat) (fuel : Nat) (seen cur : List Nat) :
    [cur] <+: refLoop nb fuel seen cur := by
  cases fuel with
  | zero => rw [refLoop_zero]; exact List.prefix_refl _
  | succ fuel =>
    rw [refLoop_succ]
    split
    · exact List.prefix_refl _
    · exact (List.prefix_cons_inj _).2 List.nil_prefix

theorem refLoopCapW_prefix (nb : Nat → List Nat) (deg cap work fuel total : Nat) (seen cur : List Nat) :
    (refLoopCapW nb deg cap work fuel total seen cur).1 <+: refLoop nb fuel seen cur := by
  induction fuel generalizing total seen cur with
  | zero => rw [refLoopCapW_zero, refLoop_zero]; exact List.prefix_refl _
  | succ fuel ih =>
    rw [refLoopCapW_succ]
    by_cases h0 : cur.length * deg > work
    · simp only [h0, if_true]
      exact refLoop_cons_prefix nb _ seen cur
    · simp only [h0, if_false]
      rw [refLoop_succ]
      by_cases h1 : (refStep nb seen cur).isEmpty = true
      · simp only [h1, if_true]; exact List.prefix_refl _
      · simp only [h1, Bool.false_eq_true, if_false]
        by_cases h2 : total + (refStep nb seen cur).length > cap
        · simp only [h2, if_true]
          exact List.prefix_cons_inj _ |>.2 (List.nil_prefix)
        · simp only [h2, if_false]
          exact (List.prefix_cons_inj _).2 (ih _ _ _)

theorem refLoopCapW_exhausted (nb : Nat → List Nat) (deg cap work fuel total : Nat) (seen cur : List Nat)
    (h : (refLoopCapW nb deg cap work fuel total seen cur).2 = .exhausted) :
    (refLoopCapW nb deg cap work fuel total seen cur).1 = refLoop nb fuel seen cur ∧
      (refLoop nb fuel seen cur).length < fuel + 1 := by
  induction fuel generalizing total seen cur with
  | zero => rw [refLoopCapW_zero] at h; cases h
  | succ fuel ih =>
    rw [refLoopCapW_succ] at h ⊢
    by_cases h0 : cur.length * deg > work
    · simp only [h0, if_true] at h; cases h
    · simp only [h0, if_false] at h ⊢
      rw [refLoop_succ]
      by_cases h1 : (refStep nb seen cur).isEmpty = true
      · simp only [h1, if_true]
        exact ⟨trivial, by simp⟩
      · simp only [h1, Bool.false_eq_true, if_false] at h ⊢
        by_cases h2 : total + (refStep nb seen cur).length > cap
        · simp only [h2, if_true] at h; cases h
        · simp only [h2, if_false] at h ⊢
          obtain ⟨e, hl⟩ := ih _ _ _ h
          refine ⟨by rw [e], ?_⟩
          simp only [List.length_cons]; omega

theorem refLayersCapW_prefix' (nb : Nat → List Nat) (S : List Nat) (D deg cap work : Nat) :
    (refLayersCapW nb S D deg cap work).1 <+: refLayers nb S D :=
  refLoopCapW_prefix nb deg cap work D _ _ _

theorem refLayersCapW_exhausted' (nb : Nat → List Nat) (S : List Nat) (D deg cap work : Nat)
    (h : (refLayersCapW nb S D deg cap work).2 = .exhausted) :
    (refLayersCapW nb S D deg cap work).1 = refLayers nb S D ∧
      ∀ x, ¬ DistLayer nb S (refLayers nb S D).length x := by
  obtain ⟨e, hl⟩ := refLoopCapW_exhausted nb deg cap work D _ _ _ h
  exact ⟨e, (refLayers_spec' nb S D).2.2.2.2 hl⟩

theorem refLayersCapW_layers' (nb : Nat → List Nat) (S : List Nat) (D deg cap work : Nat) (i : Nat) (L : List Nat)
    (h : (refLayersCapW nb S D deg cap work).1[i]? = some L) :
    L.Pairwise (· < ·) ∧ ∀ x, x ∈ L ↔ DistLayer nb S i x := by
  apply (refLayers_spec' nb S D).1 i L
  obtain ⟨t, ht⟩ := refLayersCapW_prefix' nb S D deg cap work
  rw [← ht]
  have hi : i < (refLayersCapW nb S D deg cap work).1.length := by
    apply Classical.byContradiction; intro hge
    rw [List.getElem?_eq_none (by omega)] at h; cases h
  rw [List.getElem?_append_left hi]; exact h

end Cv
