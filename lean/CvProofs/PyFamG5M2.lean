/-
  G5: `rapaport_m2` regenerated from the Python source = closed-form specification.
-/
import CvGen.PyFamilies
import CvProofs.PyLemmasG5
import CvProofs.FamiliesMore
namespace Cv.PyG5
open Cv.Py Cv.PyGen Cv.GraphDef Cv.Families Cv.Perm

/-! ### `transposition` on naturals -/

theorem transposition_nat (n i j : Nat) (hi : i < n) (hj : j < n) (hij : i ≠ j) :
    Cv.PyGen.Perm.transposition (n : Int) (i : Int) (j : Int) = some (toI (oneLine n (swapFn i j))) := by
  unfold Cv.PyGen.Perm.transposition
  have h1 : (decide ((0 : Int) ≤ (i : Int)) && decide ((i : Int) < (n : Int))) = true := by
    simp; omega
  have h2 : (decide ((0 : Int) ≤ (j : Int)) && decide ((j : Int) < (n : Int))) = true := by
    simp; omega
  have h3 : ((i : Int) != (j : Int)) = true := by simp; omega
  simp only [h1, h2, h3, pyAssert, if_true, Option.bind_eq_bind, Option.bind_some, pyRange_zero_nat]
  rw [pySet_toI _ _ _ (by simpa using hi)]
  simp only [Option.bind_some]
  rw [pySet_toI _ _ _ (by simpa using hj)]
  simp only [Option.some.injEq]
  congr 1
  apply List.ext_getElem (by simp)
  intro p h1 h2
  simp only [List.length_set, List.length_range] at h1
  rw [getElem_oneLine]
  simp only [List.getElem_set, List.getElem_range, swapFn]
  pw

theorem transposition_none_of_le (n : Int) (i j : Int) (h : n ≤ j) :
    Cv.PyGen.Perm.transposition n i j = none := by
  unfold Cv.PyGen.Perm.transposition
  have h2 : (decide ((0 : Int) ≤ j) && decide (j < n)) = false := by
    simp; omega
  simp only [h2, pyAssert, Option.bind_eq_bind]
  cases (if (decide (0 ≤ i) && decide (i < n)) = true then some () else none) <;> rfl

/-! ### the swap loop `for i in range(r, n-1, 2): g[i], g[i+1] = g[i+1], g[i]` -/

/-- loop body `g[i], g[i+1] = g[i+1], g[i]` -/
def swapBody (g : List Int) (i : Int) : Option (List Int) := do
  let t_2 ← pyGet g (i + (1 : Int))
  let t_4 ← pyGet g i
  let g ← pySet g i t_2
  let g ← pySet g (i + (1 : Int)) t_4
  pure g

theorem swapBody_toI (L : List Nat) (i : Nat) (h : i + 1 < L.length) :
    swapBody (toI L) (i : Int) = some (toI ((L.set i (L.getD (i + 1) 0)).set (i + 1) (L.getD i 0))) := by
  unfold swapBody
  have e : (i : Int) + 1 = ((i + 1 : Nat) : Int) := by omega
  rw [e, pyGet_toI _ _ h, pyGet_toI _ _ (by omega)]
  simp only [Option.bind_eq_bind, Option.bind_some]
  rw [pySet_toI _ _ _ (by omega)]
  simp only [Option.bind_some]
  rw [pySet_toI _ _ _ (by simpa using h)]

theorem adjSwaps_step (n r j : Nat) (h : r + 2 * j + 1 < n) :
    ((oneLine n (adjSwapsFn r (r + 2 * j))).set (r + 2 * j)
        ((oneLine n (adjSwapsFn r (r + 2 * j))).getD (r + 2 * j + 1) 0)).set (r + 2 * j + 1)
        ((oneLine n (adjSwapsFn r (r + 2 * j))).getD (r + 2 * j) 0) =
      oneLine n (adjSwapsFn r (r + 2 * (j + 1))) := by
  rw [getD_oneLine _ _ _ h, getD_oneLine _ _ _ (by omega)]
  apply List.ext_getElem (by simp)
  intro p h1 h2
  simp only [List.length_set, length_oneLine] at h1
  simp only [List.getElem_set, getElem_oneLine, adjSwapsFn]
  pw

theorem swapLoop_prefix (n r c : Nat) (hc : c = 0 ∨ r + 2 * (c - 1) + 1 < n) :
    List.foldlM swapBody (toI (List.range n))
        ((List.range c).map fun (k : Nat) => (r : Int) + 2 * (k : Int)) =
      some (toI (oneLine n (adjSwapsFn r (r + 2 * c)))) := by
  induction c with
  | zero =>
    simp only [List.range_zero, List.map_nil, List.foldlM_nil, Option.pure_def, Option.some.injEq]
    congr 1
    rw [← oneLine_id]
    apply oneLine_congr
    intro p _
    simp only [adjSwapsFn]; pw
  | succ j ih =>
    rw [List.range_succ, List.map_append, List.foldlM_append, ih (by omega)]
    simp only [List.map_cons, List.map_nil, List.foldlM_cons, List.foldlM_nil, Option.bind_eq_bind,
      Option.bind_some]
    have e : (r : Int) + 2 * (j : Int) = ((r + 2 * j : Nat) : Int) := by omega
    rw [e, swapBody_toI _ _ (by simp; omega), adjSwaps_step n r j (by omega)]
    rfl

theorem swapLoop (n r : Nat) :
    List.foldlM swapBody (toI (List.range n)) (pyRange (r : Int) ((n : Int) - 1) 2) =
      some (toI (oneLine n (adjSwapsFn r n))) := by
  rw [pyRange_two]
  rw [swapLoop_prefix n r _ (by omega)]
  congr 2
  apply oneLine_congr
  intro p hp
  simp only [adjSwapsFn]
  pw

/-! ### the constructor -/

theorem rapaportM2_wf (n : Nat) (d : PermDef) (h : rapaportM2 n = some d) : WF d := by
  have hv := rapaport_m2_valid n d h
  obtain ⟨hn, rfl⟩ := rapaportM2_eq n d h
  exact wf_of_valid n _ (by omega) (by simp) hv

theorem rapaport_m2_gen (n : Nat) : (Fam.rapaport_m2 (n : Int)).bind rawToPermDef = Families.rapaportM2 n := by
  by_cases hn : 2 ≤ n
  · have hwf := rapaportM2_wf n
    unfold Fam.rapaport_m2
    have e1 : ((1 : Int)) = ((1 : Nat) : Int) := rfl
    have e0 : ((0 : Int)) = ((0 : Nat) : Int) := rfl
    rw [show Cv.PyGen.Perm.transposition (n : Int) 0 1 = some (toI (oneLine n (swapFn 0 1))) from
      transposition_nat n 0 1 (by omega) (by omega) (by omega)]
    simp only [Option.bind_eq_bind, Option.bind_some, pyRange_zero_nat]
    have l0 := swapLoop n 0
    have l1 := swapLoop n 1
    unfold swapBody at l0 l1
    simp only [Option.bind_eq_bind] at l0 l1
    rw [show ((0 : Nat) : Int) = 0 from rfl] at l0
    rw [show ((1 : Nat) : Int) = 1 from rfl] at l1
    simp only [Option.pure_def, l0, l1, Option.bind_some, pyStr_nat]
    unfold rapaportM2 at hwf ⊢
    simp only [hn, if_true] at hwf ⊢
    exact rawToPermDef_of_wf _ (hwf _ rfl)
  · unfold Fam.rapaport_m2
    rw [transposition_none_of_le n 0 1 (by omega)]
    simp [rapaportM2, hn]

theorem rapaport_m2_gen_neg (n : Int) (h : n < 2) : Fam.rapaport_m2 n = none := by
  unfold Fam.rapaport_m2
  rw [transposition_none_of_le n 0 1 (by omega)]
  rfl

end Cv.PyG5
