/-
  Further graph families of `CvModel/Families.lean`: lsl_cycles, rapaport_m1/m2, larx, the 3-cycle
  families, koltsov3, sheveleva2.  Core Lean only.
-/
import CvProofs.FamiliesCycles
namespace Cv.Families
open Cv.Perm Cv.GraphDef

/-! ## lsl_cycles -/

theorem permFamily_lslCycles (n : Nat) (b : Bool) :
    permFamily "lsl_cycles" [n] [b] = lslCycles n b := rfl
theorem permFamily_lslCycles_default (n : Nat) :
    permFamily "lsl_cycles" [n] = permFamily "lsl_cycles" [n] [true] := rfl

theorem lslCycles_eq (n : Nat) (b : Bool) (d : PermDef)
    (h : permFamily "lsl_cycles" [n] [b] = some d) :
    3 ≤ n ∧
    d = { gens := [oneLine n (shiftLFn n), oneLine n (subLongFn n)] ++
                   (if b then [oneLine n (shiftRFn n), oneLine n (subLongInvFn n)] else [])
          names := ["L", "S"] ++ (if b then ["L_inv", "S_inv"] else [])
          central := List.range n
          name := "lsl_cycles-" ++ showNat n } := by
  rw [permFamily_lslCycles] at h
  unfold lslCycles at h
  split at h
  · rename_i hn; simp only [Option.some.injEq] at h; exact ⟨hn, h.symm⟩
  · simp at h

theorem subLong_invPair (n : Nat) (hn : 2 ≤ n) : InvPair n (subLongFn n) (subLongInvFn n) :=
  rangeCycleFn_invPair (by omega) (by omega)

theorem subLongInv_invPair (n : Nat) (hn : 2 ≤ n) : InvPair n (subLongInvFn n) (subLongFn n) :=
  rangeCycleInvFn_invPair (by omega) (by omega)

theorem lsl_cycles_valid (n : Nat) (b : Bool) (d : PermDef)
    (h : permFamily "lsl_cycles" [n] [b] = some d) :
    (∀ p ∈ d.gens, IsPermOf n p) ∧ d.central = List.range n ∧ d.names.length = d.gens.length := by
  obtain ⟨hn, rfl⟩ := lslCycles_eq n b d h
  refine ⟨?_, rfl, by cases b <;> rfl⟩
  intro p hp
  have : p ∈ [oneLine n (shiftLFn n), oneLine n (subLongFn n), oneLine n (shiftRFn n),
      oneLine n (subLongInvFn n)] := by
    cases b
    · exact List.mem_of_mem_take (i := 2) hp
    · exact hp
  simp only [List.mem_cons, List.not_mem_nil, or_false] at this
  rcases this with rfl | rfl | rfl | rfl
  · exact (shiftL_invPair n).isPermOf
  · exact (subLong_invPair n (by omega)).isPermOf
  · exact (shiftR_invPair n).isPermOf
  · exact (subLongInv_invPair n (by omega)).isPermOf

theorem lsl_cycles_count (n : Nat) (b : Bool) (d : PermDef)
    (h : permFamily "lsl_cycles" [n] [b] = some d) : d.gens.length = if b then 4 else 2 := by
  obtain ⟨hn, rfl⟩ := lslCycles_eq n b d h
  cases b <;> rfl

/-- the long cycle is `permutation_from_cycles(n, [[0, …, n-1]])` -/
theorem fromCycles_long (n : Nat) (hn : 1 ≤ n) :
    fromCycles n [(List.range n).map Int.ofNat] = some (oneLine n (shiftLFn n)) := by
  rw [List.range_eq_range', fromCycles_rangeCycle n 0 n hn (by omega)]
  congr 1
  apply oneLine_congr
  intro p hp
  rw [shiftLFn_eq hp]; unfold rangeCycleFn; pw

/-- the sub-long cycle is `permutation_from_cycles(n, [[1, …, n-1], [0]])` -/
theorem fromCycles_subLong (n : Nat) (hn : 2 ≤ n) :
    fromCycles n [(List.range' 1 (n - 1)).map Int.ofNat, [0]] = some (oneLine n (subLongFn n)) := by
  have := fromCycles_eq n [List.range' 1 (n - 1), [0]] (subLongFn n)
    (by
      simp only [List.flatten_cons, List.flatten_nil, List.append_nil]
      rw [List.nodup_append]
      refine ⟨List.nodup_range', by simp, ?_⟩
      intro a ha b hb
      have := List.mem_range'_1.1 ha
      simp only [List.mem_singleton] at hb
      omega)
    (by
      intro v hv
      simp only [List.flatten_cons, List.flatten_nil, List.append_nil, List.mem_append,
        List.mem_range'_1, List.mem_singleton] at hv
      omega)
    (by
      intro c hc t ht
      simp only [List.mem_cons, List.not_mem_nil, or_false] at hc
      rcases hc with rfl | rfl
      · simp only [List.length_range'] at ht ⊢
        rw [getD_range' 1 (n - 1) t ht, getD_range' 1 (n - 1) _ (Nat.mod_lt _ (by omega))]
        unfold subLongFn rangeCycleFn
        by_cases h : t + 1 < n - 1
        · rw [Nat.mod_eq_of_lt h]; pw
        · have : t + 1 = n - 1 := by omega
          rw [this, Nat.mod_self]; pw
      · simp only [List.length_singleton] at ht
        have : t = 0 := by omega
        subst this
        show subLongFn n 0 = 0
        unfold subLongFn rangeCycleFn; pw)
    (by
      intro p hp hnot
      simp only [List.flatten_cons, List.flatten_nil, List.append_nil, List.mem_append,
        List.mem_range'_1, List.mem_singleton] at hnot
      omega)
  simpa using this

/-- L = long cycle `(0 1 … n-1)`, S = sub-long cycle `(1 2 … n-1)`; with `add_inverses` their
inverses follow -/
theorem lsl_cycles_structure (n : Nat) (b : Bool) (d : PermDef)
    (h : permFamily "lsl_cycles" [n] [b] = some d) :
    ∃ L S, fromCycles n [(List.range n).map Int.ofNat] = some L ∧
      fromCycles n [(List.range' 1 (n - 1)).map Int.ofNat, [0]] = some S ∧
      d.gens = (if b then [L, S, inverse L, inverse S] else [L, S]) ∧
      d.names = (if b then ["L", "S", "L_inv", "S_inv"] else ["L", "S"]) ∧
      ∀ x : List Nat, x.length = n →
        apply L x = x.drop 1 ++ x.take 1 ∧
        apply S x = x.take 1 ++ (x.drop 2).take (n - 2) ++ [x.getD 1 0] := by
  obtain ⟨hn, rfl⟩ := lslCycles_eq n b d h
  refine ⟨_, _, fromCycles_long n (by omega), fromCycles_subLong n (by omega), ?_, ?_, ?_⟩
  · rw [(shiftL_invPair n).inverse_eq, (subLong_invPair n (by omega)).inverse_eq]
    cases b <;> rfl
  · cases b <;> rfl
  · intro x hx
    refine ⟨apply_shiftL n (by omega) x hx, ?_⟩
    have := apply_rangeCycle n 1 (n - 1) (by omega) (by omega) x hx
    unfold subLongFn
    rw [this, show 1 + (n - 1) = n by omega, show n - 1 - 1 = n - 2 by omega,
      List.drop_of_length_le (l := x) (i := n) (by omega)]
    simp

/-- inverse-closed exactly when `add_inverses` -/
theorem lsl_cycles_inverse_closed (n : Nat) (b : Bool) (d : PermDef)
    (h : permFamily "lsl_cycles" [n] [b] = some d) : d.inverseClosed = b := by
  obtain ⟨hn, rfl⟩ := lslCycles_eq n b d h
  cases b
  · apply inverseClosed_false_of _ (oneLine n (shiftLFn n)) (by simp)
    rw [(shiftL_invPair n).inverse_eq]
    simp only [Bool.false_eq_true, if_false, List.append_nil, List.mem_cons, List.not_mem_nil,
      or_false, not_or]
    constructor
    · apply oneLine_ne_of 0 (by omega)
      rw [shiftRFn_eq (by omega), shiftLFn_eq (by omega)]; pw
    · apply oneLine_ne_of 0 (by omega)
      rw [shiftRFn_eq (by omega)]; unfold subLongFn rangeCycleFn; pw
  · rw [inverseClosed_true_iff]
    intro p hp
    simp only [if_true, List.cons_append, List.nil_append, List.mem_cons, List.not_mem_nil,
      or_false] at hp ⊢
    rcases hp with rfl | rfl | rfl | rfl
    · rw [(shiftL_invPair n).inverse_eq]; simp
    · rw [(subLong_invPair n (by omega)).inverse_eq]; simp
    · rw [(shiftR_invPair n).inverse_eq]; simp
    · rw [(subLongInv_invPair n (by omega)).inverse_eq]; simp

theorem lsl_cycles_defined_iff (n : Nat) (b : Bool) :
    (permFamily "lsl_cycles" [n] [b]).isSome ↔ 3 ≤ n := by
  rw [permFamily_lslCycles]; unfold lslCycles; split <;> simp_all

/-! ## rapaport_m2 -/

theorem permFamily_rapaportM2 (n : Nat) : permFamily "rapaport_m2" [n] = rapaportM2 n := rfl

theorem rapaportM2_eq (n : Nat) (d : PermDef) (h : permFamily "rapaport_m2" [n] = some d) :
    2 ≤ n ∧
    d = { gens := [oneLine n (swapFn 0 1), oneLine n (adjSwapsFn 0 n), oneLine n (adjSwapsFn 1 n)]
          names := ["(0,1)", "EvenDisjTrans", "OddDisjTrans"]
          central := List.range n
          name := "rapaport_m2-" ++ showNat n } := by
  rw [permFamily_rapaportM2] at h
  unfold rapaportM2 at h
  split at h
  · rename_i hn; simp only [Option.some.injEq] at h; exact ⟨hn, h.symm⟩
  · simp at h

theorem rapaport_m2_valid (n : Nat) (d : PermDef) (h : permFamily "rapaport_m2" [n] = some d) :
    (∀ p ∈ d.gens, IsPermOf n p) ∧ d.central = List.range n ∧ d.names.length = d.gens.length := by
  obtain ⟨hn, rfl⟩ := rapaportM2_eq n d h
  refine ⟨?_, rfl, rfl⟩
  intro p hp
  simp only [List.mem_cons, List.not_mem_nil, or_false] at hp
  rcases hp with rfl | rfl | rfl
  · exact (swapFn_invPair (by omega) (by omega)).isPermOf
  · exact (adjSwapsFn_invPair (Nat.le_refl n)).isPermOf
  · exact (adjSwapsFn_invPair (Nat.le_refl n)).isPermOf

theorem rapaport_m2_count (n : Nat) (d : PermDef) (h : permFamily "rapaport_m2" [n] = some d) :
    d.gens.length = 3 := by
  obtain ⟨_, rfl⟩ := rapaportM2_eq n d h; rfl

/-- `(0,1)`, the product `(0 1)(2 3)…` of all even adjacent transpositions, the product `(1 2)(3 4)…`
of all odd ones -/
theorem rapaport_m2_structure (n : Nat) (d : PermDef) (h : permFamily "rapaport_m2" [n] = some d) :
    ∃ g1 g2 g3, d.gens = [g1, g2, g3] ∧ d.names = ["(0,1)", "EvenDisjTrans", "OddDisjTrans"] ∧
      transposition n 0 1 = some g1 ∧
      (∀ t, 2 * t + 1 < n → g2.getD (2 * t) 0 = 2 * t + 1 ∧ g2.getD (2 * t + 1) 0 = 2 * t) ∧
      (n % 2 = 1 → g2.getD (n - 1) 0 = n - 1) ∧
      (∀ t, 2 * t + 2 < n → g3.getD (2 * t + 1) 0 = 2 * t + 2 ∧ g3.getD (2 * t + 2) 0 = 2 * t + 1) ∧
      g3.getD 0 0 = 0 ∧ (n % 2 = 0 → g3.getD (n - 1) 0 = n - 1) := by
  obtain ⟨hn, rfl⟩ := rapaportM2_eq n d h
  refine ⟨_, _, _, rfl, rfl, transposition_eq n 0 1 (by omega) (by omega) (by omega), ?_, ?_, ?_, ?_, ?_⟩
  · intro t ht
    rw [getD_oneLine _ _ _ (by omega), getD_oneLine _ _ _ (by omega)]
    unfold adjSwapsFn; constructor <;> pw
  · intro ho
    rw [getD_oneLine _ _ _ (by omega)]; unfold adjSwapsFn; pw
  · intro t ht
    rw [getD_oneLine _ _ _ (by omega), getD_oneLine _ _ _ (by omega)]
    unfold adjSwapsFn; constructor <;> pw
  · rw [getD_oneLine _ _ _ (by omega)]; unfold adjSwapsFn; pw
  · intro he
    rw [getD_oneLine _ _ _ (by omega)]; unfold adjSwapsFn; pw

theorem rapaport_m2_inverse_closed (n : Nat) (d : PermDef)
    (h : permFamily "rapaport_m2" [n] = some d) : d.inverseClosed = true := by
  obtain ⟨hn, rfl⟩ := rapaportM2_eq n d h
  rw [inverseClosed_true_iff]
  intro p hp
  simp only [List.mem_cons, List.not_mem_nil, or_false] at hp
  rcases hp with rfl | rfl | rfl
  · rw [(swapFn_invPair (by omega) (by omega)).inverse_eq]; simp
  · rw [(adjSwapsFn_invPair (Nat.le_refl n)).inverse_eq]; simp
  · rw [(adjSwapsFn_invPair (Nat.le_refl n)).inverse_eq]; simp

theorem rapaport_m2_defined_iff (n : Nat) : (permFamily "rapaport_m2" [n]).isSome ↔ 2 ≤ n := by
  rw [permFamily_rapaportM2]; unfold rapaportM2; split <;> simp_all

/-- boundary observations: duplicates for `n = 2, 3` (the first two generators coincide) and an
identity generator for `n = 2` -/
example : (permFamily "rapaport_m2" [2]).map (·.gens) = some [[1, 0], [1, 0], [0, 1]] := by decide
example : (permFamily "rapaport_m2" [3]).map (·.gens) = some [[1, 0, 2], [1, 0, 2], [0, 2, 1]] := by
  decide

/-! ## rapaport_m1 -/

theorem permFamily_rapaportM1 (n : Nat) : permFamily "rapaport_m1" [n] = rapaportM1 n := rfl

theorem rapaportM1_eq (n : Nat) (d : PermDef) (h : permFamily "rapaport_m1" [n] = some d) :
    2 ≤ n ∧
    d = mk n ((List.range (n / 2)).map (fun t => (0, t + 1)) ++
                (List.range ((n - 1) / 2)).map (fun t => (1, t + 1)))
      (fun x => adjSwapsFn x.1 (2 * x.2 + x.1)) (fun x => s!"M1_{x.1}_{x.2}")
      ("rapaport_m1-" ++ showNat n) := by
  rw [permFamily_rapaportM1] at h
  unfold rapaportM1 at h
  split at h
  · rename_i hn; simp only [Option.some.injEq] at h; exact ⟨hn, h.symm⟩
  · simp at h

theorem rapaportM1_idx (n : Nat) (x : Nat × Nat)
    (hx : x ∈ (List.range (n / 2)).map (fun t => (0, t + 1)) ++
      (List.range ((n - 1) / 2)).map (fun t => (1, t + 1))) : 2 * x.2 + x.1 ≤ n := by
  rcases List.mem_append.1 hx with hx | hx
  · obtain ⟨t, ht, rfl⟩ := List.mem_map.1 hx
    have := List.mem_range.1 ht
    simp only; omega
  · obtain ⟨t, ht, rfl⟩ := List.mem_map.1 hx
    have := List.mem_range.1 ht
    simp only; omega

theorem rapaport_m1_valid (n : Nat) (d : PermDef) (h : permFamily "rapaport_m1" [n] = some d) :
    (∀ p ∈ d.gens, IsPermOf n p) ∧ d.central = List.range n ∧ d.names.length = d.gens.length := by
  obtain ⟨hn, rfl⟩ := rapaportM1_eq n d h
  apply mk_valid_of_invPair _ _ _ (fun x => adjSwapsFn x.1 (2 * x.2 + x.1))
  intro x hx
  exact adjSwapsFn_invPair (rapaportM1_idx n x hx)

theorem rapaport_m1_count (n : Nat) (d : PermDef) (h : permFamily "rapaport_m1" [n] = some d) :
    d.gens.length = n - 1 := by
  obtain ⟨hn, rfl⟩ := rapaportM1_eq n d h
  simp only [mk_count, List.length_append, List.length_map, List.length_range]
  omega

/-- generators `M1_0_m = (0 1)(2 3)…(2m-2 2m-1)`, `m = 1..n/2`, followed by
`M1_1_m = (1 2)(3 4)…(2m-1 2m)`, `m = 1..(n-1)/2` -/
theorem rapaport_m1_structure (n : Nat) (d : PermDef) (h : permFamily "rapaport_m1" [n] = some d) :
    (∀ m, 1 ≤ m → 2 * m ≤ n → ∃ g, d.gens[m - 1]? = some g ∧
      d.names[m - 1]? = some ("M1_0_" ++ toString m) ∧
      (∀ t, t < m → g.getD (2 * t) 0 = 2 * t + 1 ∧ g.getD (2 * t + 1) 0 = 2 * t) ∧
      (∀ p, 2 * m ≤ p → p < n → g.getD p 0 = p)) ∧
    (∀ m, 1 ≤ m → 2 * m + 1 ≤ n → ∃ g, d.gens[n / 2 + (m - 1)]? = some g ∧
      d.names[n / 2 + (m - 1)]? = some ("M1_1_" ++ toString m) ∧
      (∀ t, t < m → g.getD (2 * t + 1) 0 = 2 * t + 2 ∧ g.getD (2 * t + 2) 0 = 2 * t + 1) ∧
      g.getD 0 0 = 0 ∧ (∀ p, 2 * m < p → p < n → g.getD p 0 = p)) := by
  obtain ⟨hn, rfl⟩ := rapaportM1_eq n d h
  constructor
  · intro m h1 h2
    refine ⟨oneLine n (adjSwapsFn 0 (2 * m + 0)), ?_, ?_, ?_, ?_⟩
    · rw [mk_gens, List.getElem?_map, List.getElem?_append_left (by simp; omega), List.getElem?_map,
        List.getElem?_range (by omega)]
      simp only [Option.map_some]
      rw [show m - 1 + 1 = m by omega]
    · rw [mk_names, List.getElem?_map, List.getElem?_append_left (by simp; omega), List.getElem?_map,
        List.getElem?_range (by omega)]
      simp only [Option.map_some]
      rw [show m - 1 + 1 = m by omega]; rfl
    · intro t ht
      rw [getD_oneLine _ _ _ (by omega), getD_oneLine _ _ _ (by omega)]
      unfold adjSwapsFn; constructor <;> pw
    · intro p hp1 hp2
      rw [getD_oneLine _ _ _ hp2]; unfold adjSwapsFn; pw
  · intro m h1 h2
    refine ⟨oneLine n (adjSwapsFn 1 (2 * m + 1)), ?_, ?_, ?_, ?_, ?_⟩
    · rw [mk_gens, List.getElem?_map, List.getElem?_append_right (by simp), List.getElem?_map]
      simp only [List.length_map, List.length_range, Nat.add_sub_cancel_left]
      rw [List.getElem?_range (by omega)]
      simp only [Option.map_some]
      rw [show m - 1 + 1 = m by omega]
    · rw [mk_names, List.getElem?_map, List.getElem?_append_right (by simp), List.getElem?_map]
      simp only [List.length_map, List.length_range, Nat.add_sub_cancel_left]
      rw [List.getElem?_range (by omega)]
      simp only [Option.map_some]
      rw [show m - 1 + 1 = m by omega]; rfl
    · intro t ht
      rw [getD_oneLine _ _ _ (by omega), getD_oneLine _ _ _ (by omega)]
      unfold adjSwapsFn; constructor <;> pw
    · rw [getD_oneLine _ _ _ (by omega)]; unfold adjSwapsFn; pw
    · intro p hp1 hp2
      rw [getD_oneLine _ _ _ hp2]; unfold adjSwapsFn; pw

theorem rapaport_m1_inverse_closed (n : Nat) (d : PermDef)
    (h : permFamily "rapaport_m1" [n] = some d) : d.inverseClosed = true := by
  obtain ⟨hn, rfl⟩ := rapaportM1_eq n d h
  apply mk_inverseClosed_of_invol
  intro x hx
  exact adjSwapsFn_invPair (rapaportM1_idx n x hx)

/-- no range is documented; the library returns a definition exactly for `n ≥ 2` (for `n ≤ 1` the
generator list is empty and `CayleyGraphDef.create` raises) -/
theorem rapaport_m1_defined_iff (n : Nat) : (permFamily "rapaport_m1" [n]).isSome ↔ 2 ≤ n := by
  rw [permFamily_rapaportM1]; unfold rapaportM1; split <;> simp_all

/-! ## larx -/

theorem permFamily_larx (n : Nat) : permFamily "larx" [n] = larx n := rfl

theorem larx_eq (n : Nat) (d : PermDef) (h : permFamily "larx" [n] = some d) :
    2 ≤ n ∧
    d = { gens := [oneLine n (swapFn 0 1), oneLine n (subLongFn n)]
          names := [oneLine n (swapFn 0 1), oneLine n (subLongFn n)].map (tupleName " ")
          central := List.range n
          name := "larx-" ++ showNat n } := by
  rw [permFamily_larx] at h
  unfold larx at h
  split at h
  · rename_i hn; simp only [Option.some.injEq] at h; exact ⟨hn, h.symm⟩
  · simp at h

theorem larx_valid (n : Nat) (d : PermDef) (h : permFamily "larx" [n] = some d) :
    (∀ p ∈ d.gens, IsPermOf n p) ∧ d.central = List.range n ∧ d.names.length = d.gens.length := by
  obtain ⟨hn, rfl⟩ := larx_eq n d h
  refine ⟨?_, rfl, rfl⟩
  intro p hp
  simp only [List.mem_cons, List.not_mem_nil, or_false] at hp
  rcases hp with rfl | rfl
  · exact (swapFn_invPair (by omega) (by omega)).isPermOf
  · exact (subLong_invPair n hn).isPermOf

theorem larx_count (n : Nat) (d : PermDef) (h : permFamily "larx" [n] = some d) :
    d.gens.length = 2 := by
  obtain ⟨_, rfl⟩ := larx_eq n d h; rfl

/-- the transposition `(0 1)` and the cycle `(1 2 … n-1)`; the generator names are the one-line
notations `"(1 0 2 …)"`, `"(0 2 3 … 1)"` -/
theorem larx_structure (n : Nat) (d : PermDef) (h : permFamily "larx" [n] = some d) :
    d.gens = [[1, 0] ++ List.range' 2 (n - 2), [0] ++ List.range' 2 (n - 2) ++ [1]] ∧
    d.names = d.gens.map (fun g => "(" ++ " ".intercalate (g.map toString) ++ ")") ∧
    transposition n 0 1 = some ([1, 0] ++ List.range' 2 (n - 2)) ∧
    fromCycles n [(List.range' 1 (n - 1)).map Int.ofNat, [0]] =
      some ([0] ++ List.range' 2 (n - 2) ++ [1]) := by
  obtain ⟨hn, rfl⟩ := larx_eq n d h
  have e1 : oneLine n (swapFn 0 1) = [1, 0] ++ List.range' 2 (n - 2) := by
    rw [oneLine_eq_ico, ico_cut 0 n 2 (by omega) (by omega), List.map_append]
    congr 1
    apply map_ico_asc' _ _ _ _ (by omega); intro p hp _; unfold swapFn; pw
  have e2 : oneLine n (subLongFn n) = [0] ++ List.range' 2 (n - 2) ++ [1] := by
    have := oneLine_rangeCycle n 1 (n - 1) (by omega) (by omega)
    unfold subLongFn
    rw [this, show 1 + (n - 1) = n by omega, show n - 1 - 1 = n - 2 by omega, Nat.sub_self]
    simp [List.range_succ]
  refine ⟨by rw [e1, e2], rfl, ?_, ?_⟩
  · rw [← e1]; exact transposition_eq n 0 1 (by omega) (by omega) (by omega)
  · rw [← e2]; exact fromCycles_subLong n hn

/-- inverse-closed exactly for `n ≤ 3` (for `n ≥ 4` the cycle `(1 2 … n-1)` is longer than 2) -/
theorem larx_inverse_closed (n : Nat) (d : PermDef) (h : permFamily "larx" [n] = some d) :
    d.inverseClosed = decide (n ≤ 3) := by
  obtain ⟨hn, rfl⟩ := larx_eq n d h
  by_cases hn3 : n ≤ 3
  · have : n = 2 ∨ n = 3 := by omega
    rcases this with rfl | rfl <;> decide
  · rw [decide_eq_false hn3]
    apply inverseClosed_false_of _ (oneLine n (subLongFn n)) (by simp)
    rw [(subLong_invPair n hn).inverse_eq]
    simp only [List.mem_cons, List.not_mem_nil, or_false, not_or]
    constructor
    · apply oneLine_ne_of 1 (by omega)
      unfold subLongInvFn rangeCycleInvFn swapFn; pw
    · apply oneLine_ne_of 1 (by omega)
      unfold subLongInvFn rangeCycleInvFn subLongFn rangeCycleFn; pw

theorem larx_defined_iff (n : Nat) : (permFamily "larx" [n]).isSome ↔ 2 ≤ n := by
  rw [permFamily_larx]; unfold larx; split <;> simp_all

/-! ## three_cycles, three_cycles_0ij, three_cycles_01i -/

/-- `permutation_from_cycles(n, [[a, b, c]])` -/
theorem fromCycles_cyc3 (n a b c : Nat) (ha : a < n) (hb : b < n) (hc : c < n)
    (hab : a ≠ b) (hac : a ≠ c) (hbc : b ≠ c) :
    fromCycles n [[a, b, c].map Int.ofNat] = some (oneLine n (cyc3Fn a b c)) := by
  apply fromCycles_single_eq n
  · simp; omega
  · intro v hv; simp at hv; omega
  · intro t ht
    simp only [List.length_cons, List.length_nil] at ht ⊢
    rcases t with _ | _ | _ | t
    · simp [cyc3Fn]
    · simp [cyc3Fn, Ne.symm hab]
    · simp [cyc3Fn, Ne.symm hac, Ne.symm hbc]
    · omega
  · intro p _ hp
    simp only [List.mem_cons, List.not_mem_nil, or_false, not_or] at hp
    unfold cyc3Fn; pw

theorem permFamily_threeCycles (n : Nat) : permFamily "three_cycles" [n] = threeCycles n := rfl

theorem threeCycles_eq (n : Nat) (d : PermDef) (h : permFamily "three_cycles" [n] = some d) :
    3 ≤ n ∧
    d = mk n (triplesMinFirst n) (fun x => cyc3Fn x.1 x.2.1 x.2.2)
      (fun x => s!"({x.1} {x.2.1} {x.2.2})") ("three_cycles-" ++ showNat n) := by
  rw [permFamily_threeCycles] at h
  unfold threeCycles at h
  split at h
  · rename_i hn; simp only [Option.some.injEq] at h; exact ⟨hn, h.symm⟩
  · simp at h

theorem three_cycles_valid (n : Nat) (d : PermDef) (h : permFamily "three_cycles" [n] = some d) :
    (∀ p ∈ d.gens, IsPermOf n p) ∧ d.central = List.range n ∧ d.names.length = d.gens.length := by
  obtain ⟨hn, rfl⟩ := threeCycles_eq n d h
  apply mk_valid_of_invPair _ _ _ (fun x => cyc3Fn x.1 x.2.2 x.2.1)
  rintro ⟨a, b, c⟩ hx
  obtain ⟨h1, h2, h3, h4, h5⟩ := (mem_triplesMinFirst n a b c).1 hx
  exact cyc3Fn_invPair (a := a) (b := b) (c := c) (by omega) h4 h5 (by omega) (by omega) h3

/-- the generators are the 3-cycles `(a b c)` with `a < b`, `a < c`, `b ≠ c` (lexicographic order),
named `"(a b c)"` -/
theorem three_cycles_structure (n : Nat) (d : PermDef) (h : permFamily "three_cycles" [n] = some d) :
    d.gens.map some = (triplesMinFirst n).map
      (fun x => fromCycles n [[x.1, x.2.1, x.2.2].map Int.ofNat]) ∧
    d.names = (triplesMinFirst n).map
      (fun x => "(" ++ toString x.1 ++ " " ++ toString x.2.1 ++ " " ++ toString x.2.2 ++ ")") ∧
    ∀ a b c, (a, b, c) ∈ triplesMinFirst n ↔ a < b ∧ a < c ∧ b ≠ c ∧ b < n ∧ c < n := by
  obtain ⟨hn, rfl⟩ := threeCycles_eq n d h
  refine ⟨?_, rfl, mem_triplesMinFirst n⟩
  rw [mk_gens, List.map_map]
  apply List.map_congr_left
  rintro ⟨a, b, c⟩ hx
  obtain ⟨h1, h2, h3, h4, h5⟩ := (mem_triplesMinFirst n a b c).1 hx
  simp only [Function.comp_apply]
  rw [fromCycles_cyc3 n a b c (by omega) h4 h5 (by omega) (by omega) h3]

theorem three_cycles_inverse_closed (n : Nat) (d : PermDef)
    (h : permFamily "three_cycles" [n] = some d) : d.inverseClosed = true := by
  obtain ⟨hn, rfl⟩ := threeCycles_eq n d h
  apply mk_inverseClosed
  rintro ⟨a, b, c⟩ hx
  obtain ⟨h1, h2, h3, h4, h5⟩ := (mem_triplesMinFirst n a b c).1 hx
  have hp := cyc3Fn_invPair (n := n) (a := a) (b := b) (c := c) (by omega) h4 h5 (by omega) (by omega) h3
  exact ⟨(a, c, b), (mem_triplesMinFirst n _ _ _).2 ⟨h2, h1, Ne.symm h3, h5, h4⟩, hp.inverse_eq⟩

theorem three_cycles_defined_iff (n : Nat) : (permFamily "three_cycles" [n]).isSome ↔ 3 ≤ n := by
  rw [permFamily_threeCycles]; unfold threeCycles; split <;> simp_all

theorem permFamily_threeCycles0ij (n : Nat) :
    permFamily "three_cycles_0ij" [n] = threeCycles0ij n := rfl

theorem threeCycles0ij_eq (n : Nat) (d : PermDef) (h : permFamily "three_cycles_0ij" [n] = some d) :
    3 ≤ n ∧
    d = mk n (pairsNe1 n) (fun x => cyc3Fn 0 x.1 x.2) (fun x => s!"(0 {x.1} {x.2})")
      ("three_cycles_0ij-" ++ showNat n) := by
  rw [permFamily_threeCycles0ij] at h
  unfold threeCycles0ij at h
  split at h
  · rename_i hn; simp only [Option.some.injEq] at h; exact ⟨hn, h.symm⟩
  · simp at h

theorem three_cycles_0ij_valid (n : Nat) (d : PermDef)
    (h : permFamily "three_cycles_0ij" [n] = some d) :
    (∀ p ∈ d.gens, IsPermOf n p) ∧ d.central = List.range n ∧ d.names.length = d.gens.length := by
  obtain ⟨hn, rfl⟩ := threeCycles0ij_eq n d h
  apply mk_valid_of_invPair _ _ _ (fun x => cyc3Fn 0 x.2 x.1)
  rintro ⟨i, j⟩ hx
  obtain ⟨h1, h2, h3, h4, h5⟩ := (mem_pairsNe1 n i j).1 hx
  exact cyc3Fn_invPair (a := 0) (b := i) (c := j) (by omega) h2 h4 (by omega) (by omega) h5

/-- the generators are the 3-cycles `(0 i j)`, `1 ≤ i, j < n`, `i ≠ j` (lexicographic order) -/
theorem three_cycles_0ij_structure (n : Nat) (d : PermDef)
    (h : permFamily "three_cycles_0ij" [n] = some d) :
    d.gens.map some = (pairsNe1 n).map (fun x => fromCycles n [[0, x.1, x.2].map Int.ofNat]) ∧
    d.names = (pairsNe1 n).map (fun x => "(0 " ++ toString x.1 ++ " " ++ toString x.2 ++ ")") ∧
    ∀ i j, (i, j) ∈ pairsNe1 n ↔ 1 ≤ i ∧ i < n ∧ 1 ≤ j ∧ j < n ∧ i ≠ j := by
  obtain ⟨hn, rfl⟩ := threeCycles0ij_eq n d h
  refine ⟨?_, rfl, mem_pairsNe1 n⟩
  rw [mk_gens, List.map_map]
  apply List.map_congr_left
  rintro ⟨i, j⟩ hx
  obtain ⟨h1, h2, h3, h4, h5⟩ := (mem_pairsNe1 n i j).1 hx
  simp only [Function.comp_apply]
  rw [fromCycles_cyc3 n 0 i j (by omega) h2 h4 (by omega) (by omega) h5]

theorem three_cycles_0ij_inverse_closed (n : Nat) (d : PermDef)
    (h : permFamily "three_cycles_0ij" [n] = some d) : d.inverseClosed = true := by
  obtain ⟨hn, rfl⟩ := threeCycles0ij_eq n d h
  apply mk_inverseClosed
  rintro ⟨i, j⟩ hx
  obtain ⟨h1, h2, h3, h4, h5⟩ := (mem_pairsNe1 n i j).1 hx
  have hp := cyc3Fn_invPair (n := n) (a := 0) (b := i) (c := j) (by omega) h2 h4 (by omega) (by omega) h5
  exact ⟨(j, i), (mem_pairsNe1 n _ _).2 ⟨h3, h4, h1, h2, Ne.symm h5⟩, hp.inverse_eq⟩

/-- the docstring says `n ≥ 3`; there is no assertion, but for `n ≤ 2` the generator list is empty and
`CayleyGraphDef.create` raises -/
theorem three_cycles_0ij_defined_iff (n : Nat) :
    (permFamily "three_cycles_0ij" [n]).isSome ↔ 3 ≤ n := by
  rw [permFamily_threeCycles0ij]; unfold threeCycles0ij; split <;> simp_all

theorem permFamily_threeCycles01i (n : Nat) (b : Bool) :
    permFamily "three_cycles_01i" [n] [b] = threeCycles01i n b := rfl
theorem permFamily_threeCycles01i_default (n : Nat) :
    permFamily "three_cycles_01i" [n] = permFamily "three_cycles_01i" [n] [true] := rfl

theorem threeCycles01i_eq (n : Nat) (b : Bool) (d : PermDef)
    (h : permFamily "three_cycles_01i" [n] [b] = some d) :
    3 ≤ n ∧
    d = (if b then
        mk n ((List.range' 2 (n - 2)).flatMap fun i => [(i, false), (i, true)])
          (fun x => if x.2 then cyc3Fn 1 0 x.1 else cyc3Fn 0 1 x.1)
          (fun x => if x.2 then s!"(1 0 {x.1})" else s!"(0 1 {x.1})")
          ("three_cycles_01i-" ++ showNat n ++ "-ic")
      else
        mk n (List.range' 2 (n - 2)) (fun i => cyc3Fn 0 1 i) (fun i => s!"(0 1 {i})")
          ("three_cycles_01i-" ++ showNat n)) := by
  rw [permFamily_threeCycles01i] at h
  unfold threeCycles01i at h
  split at h
  · rename_i hn
    refine ⟨hn, ?_⟩
    cases b <;> simp only [Option.some.injEq, Bool.false_eq_true, if_false, if_true] at h ⊢ <;>
      exact h.symm
  · simp at h

theorem three_cycles_01i_valid (n : Nat) (b : Bool) (d : PermDef)
    (h : permFamily "three_cycles_01i" [n] [b] = some d) :
    (∀ p ∈ d.gens, IsPermOf n p) ∧ d.central = List.range n ∧ d.names.length = d.gens.length := by
  obtain ⟨hn, rfl⟩ := threeCycles01i_eq n b d h
  cases b
  · simp only [Bool.false_eq_true, if_false]
    apply mk_valid_of_invPair _ _ _ (fun i => cyc3Fn 0 i 1)
    intro i hi
    have := List.mem_range'_1.1 hi
    exact cyc3Fn_invPair (by omega) (by omega) (by omega) (by omega) (by omega) (by omega)
  · simp only [if_true]
    apply mk_valid_of_invPair _ _ _ (fun x => if x.2 then cyc3Fn 1 x.1 0 else cyc3Fn 0 x.1 1)
    rintro ⟨i, c⟩ hx
    obtain ⟨i', hi', hx'⟩ := List.mem_flatMap.1 hx
    have := List.mem_range'_1.1 hi'
    simp only [List.mem_cons, Prod.mk.injEq, List.not_mem_nil, or_false] at hx'
    rcases hx' with ⟨rfl, rfl⟩ | ⟨rfl, rfl⟩
    · exact cyc3Fn_invPair (by omega) (by omega) (by omega) (by omega) (by omega) (by omega)
    · exact cyc3Fn_invPair (by omega) (by omega) (by omega) (by omega) (by omega) (by omega)

theorem three_cycles_01i_count (n : Nat) (b : Bool) (d : PermDef)
    (h : permFamily "three_cycles_01i" [n] [b] = some d) :
    d.gens.length = if b then 2 * (n - 2) else n - 2 := by
  obtain ⟨hn, rfl⟩ := threeCycles01i_eq n b d h
  cases b
  · simp [mk_count]
  · simp only [if_true, mk_count, List.length_flatMap, List.length_cons, List.length_nil,
      List.map_const', List.length_range', List.sum_replicate_nat]
    omega

/-- the generators are the 3-cycles `(0 1 i)`, `i = 2..n-1`, each followed by its inverse `(1 0 i)`
when `add_inverses` -/
theorem three_cycles_01i_structure (n : Nat) (b : Bool) (d : PermDef)
    (h : permFamily "three_cycles_01i" [n] [b] = some d) :
    (∀ i, 2 ≤ i → i < n →
      fromCycles n [[0, 1, i].map Int.ofNat] = some (oneLine n (cyc3Fn 0 1 i)) ∧
      inverse (oneLine n (cyc3Fn 0 1 i)) = oneLine n (cyc3Fn 1 0 i) ∧
      fromCycles n [[1, 0, i].map Int.ofNat] = some (oneLine n (cyc3Fn 1 0 i))) ∧
    d.gens = (if b then
        (List.range' 2 (n - 2)).flatMap fun i => [oneLine n (cyc3Fn 0 1 i), oneLine n (cyc3Fn 1 0 i)]
      else (List.range' 2 (n - 2)).map fun i => oneLine n (cyc3Fn 0 1 i)) ∧
    d.names = (if b then
        (List.range' 2 (n - 2)).flatMap fun i =>
          ["(0 1 " ++ toString i ++ ")", "(1 0 " ++ toString i ++ ")"]
      else (List.range' 2 (n - 2)).map fun i => "(0 1 " ++ toString i ++ ")") ∧
    d.name = "three_cycles_01i-" ++ toString n ++ (if b then "-ic" else "") := by
  obtain ⟨hn, rfl⟩ := threeCycles01i_eq n b d h
  refine ⟨?_, ?_, ?_, ?_⟩
  · intro i h2 hi
    refine ⟨fromCycles_cyc3 n 0 1 i (by omega) (by omega) hi (by omega) (by omega) (by omega), ?_,
      fromCycles_cyc3 n 1 0 i (by omega) (by omega) hi (by omega) (by omega) (by omega)⟩
    rw [(cyc3Fn_invPair (by omega) (by omega) hi (by omega) (by omega) (by omega)).inverse_eq]
    apply oneLine_congr; intro p _; unfold cyc3Fn; pw
  · cases b
    · rfl
    · simp only [if_true, mk_gens, List.map_flatMap, List.map_cons, List.map_nil]
      rfl
  · cases b
    · rfl
    · simp only [if_true, mk_names, List.map_flatMap, List.map_cons, List.map_nil]
      rfl
  · cases b
    · simp [mk, showNat]
    · rfl

/-- inverse-closed exactly when `add_inverses` -/
theorem three_cycles_01i_inverse_closed (n : Nat) (b : Bool) (d : PermDef)
    (h : permFamily "three_cycles_01i" [n] [b] = some d) : d.inverseClosed = b := by
  obtain ⟨hn, rfl⟩ := threeCycles01i_eq n b d h
  cases b
  · simp only [Bool.false_eq_true, if_false]
    apply inverseClosed_false_of _ (oneLine n (cyc3Fn 0 1 2))
    · rw [mk_gens]; exact List.mem_map.2 ⟨2, List.mem_range'_1.2 (by omega), rfl⟩
    · rw [(cyc3Fn_invPair (by omega) (by omega) (by omega) (by omega) (by omega)
        (by omega)).inverse_eq, mk_gens]
      intro hmem
      obtain ⟨i, hi, e⟩ := List.mem_map.1 hmem
      have := List.mem_range'_1.1 hi
      revert e
      apply oneLine_ne_of 0 (by omega)
      unfold cyc3Fn; pw
  · simp only [if_true]
    apply mk_inverseClosed
    rintro ⟨i, c⟩ hx
    obtain ⟨i', hi', hx'⟩ := List.mem_flatMap.1 hx
    have := List.mem_range'_1.1 hi'
    simp only [List.mem_cons, Prod.mk.injEq, List.not_mem_nil, or_false] at hx'
    rcases hx' with ⟨rfl, rfl⟩ | ⟨rfl, rfl⟩
    · refine ⟨(i, true), List.mem_flatMap.2 ⟨i, hi', by simp⟩, ?_⟩
      simp only [Bool.false_eq_true, if_false, if_true]
      rw [(cyc3Fn_invPair (by omega) (by omega) (by omega) (by omega) (by omega)
        (by omega)).inverse_eq]
      apply oneLine_congr; intro p _; unfold cyc3Fn; pw
    · refine ⟨(i, false), List.mem_flatMap.2 ⟨i, hi', by simp⟩, ?_⟩
      simp only [Bool.false_eq_true, if_false, if_true]
      rw [(cyc3Fn_invPair (by omega) (by omega) (by omega) (by omega) (by omega)
        (by omega)).inverse_eq]
      apply oneLine_congr; intro p _; unfold cyc3Fn; pw

theorem three_cycles_01i_defined_iff (n : Nat) (b : Bool) :
    (permFamily "three_cycles_01i" [n] [b]).isSome ↔ 3 ≤ n := by
  rw [permFamily_threeCycles01i]; unfold threeCycles01i
  split
  · cases b <;> simp_all
  · simp_all

/-! ## koltsov3 -/

theorem permFamily_koltsov3 (n t k d : Nat) :
    permFamily "koltsov3" [n, t, k, d] = koltsov3 n t k d := rfl
theorem permFamily_koltsov3_default1 (n : Nat) :
    permFamily "koltsov3" [n] = permFamily "koltsov3" [n, 2, 1, 1] := rfl
theorem permFamily_koltsov3_default2 (n t : Nat) :
    permFamily "koltsov3" [n, t] = permFamily "koltsov3" [n, t, 1, 1] := rfl
theorem permFamily_koltsov3_default3 (n t k : Nat) :
    permFamily "koltsov3" [n, t, k] = permFamily "koltsov3" [n, t, k, 1] := rfl

theorem koltsov3_eq (n t k d : Nat) (D : PermDef)
    (h : permFamily "koltsov3" [n, t, k, d] = some D) :
    (k < n ∧ ((t = 1 ∧ k + d < n) ∨ (t = 2 ∧ k + 3 < n))) ∧
    D = { gens := [oneLine n (adjSwapsFn 0 n), oneLine n (adjSwapsFn 1 n),
                   oneLine n (if t = 1 then swapFn k (k + d) else revFn k (k + 3))]
          names := ["I", "K", "S"]
          central := List.range n
          name := "koltsov3-n" ++ showNat n ++ "-k" ++ showNat k } := by
  rw [permFamily_koltsov3] at h
  unfold koltsov3 at h
  split at h
  · rename_i hn; simp only [Option.some.injEq] at h; exact ⟨hn, h.symm⟩
  · simp at h

theorem koltsovS_invPair (n t k d : Nat)
    (hc : k < n ∧ ((t = 1 ∧ k + d < n) ∨ (t = 2 ∧ k + 3 < n))) :
    InvPair n (if t = 1 then swapFn k (k + d) else revFn k (k + 3))
      (if t = 1 then swapFn k (k + d) else revFn k (k + 3)) := by
  split
  · exact swapFn_invPair (by omega) (by omega)
  · exact revFn_invPair (by omega)

theorem koltsov3_valid (n t k d : Nat) (D : PermDef)
    (h : permFamily "koltsov3" [n, t, k, d] = some D) :
    (∀ p ∈ D.gens, IsPermOf n p) ∧ D.central = List.range n ∧ D.names.length = D.gens.length := by
  obtain ⟨hc, rfl⟩ := koltsov3_eq n t k d D h
  refine ⟨?_, rfl, rfl⟩
  intro p hp
  simp only [List.mem_cons, List.not_mem_nil, or_false] at hp
  rcases hp with rfl | rfl | rfl
  · exact (adjSwapsFn_invPair (Nat.le_refl n)).isPermOf
  · exact (adjSwapsFn_invPair (Nat.le_refl n)).isPermOf
  · exact (koltsovS_invPair n t k d hc).isPermOf

theorem koltsov3_count (n t k d : Nat) (D : PermDef)
    (h : permFamily "koltsov3" [n, t, k, d] = some D) : D.gens.length = 3 := by
  obtain ⟨_, rfl⟩ := koltsov3_eq n t k d D h; rfl

/-- `permutation_from_cycles(n, [[k, k+3], [k+1, k+2]])` is the reversal of the segment `k..k+3` -/
theorem fromCycles_koltsov2 (n k : Nat) (hk : k + 3 < n) :
    fromCycles n [[k, k + 3].map Int.ofNat, [k + 1, k + 2].map Int.ofNat] =
      some (oneLine n (revFn k (k + 3))) := by
  have := fromCycles_eq n [[k, k + 3], [k + 1, k + 2]] (revFn k (k + 3))
    (by simp <;> omega)
    (by intro v hv; simp at hv; omega)
    (by
      intro c hc t ht
      simp only [List.mem_cons, List.not_mem_nil, or_false] at hc
      rcases hc with rfl | rfl <;> rcases t with _ | _ | t <;>
        simp [revFn] at ht ⊢ <;> omega)
    (by
      intro p _ hp
      simp only [List.flatten_cons, List.flatten_nil, List.append_nil, List.cons_append,
        List.nil_append, List.mem_cons, List.not_mem_nil, or_false, not_or] at hp
      unfold revFn; pw)
  simpa using this

/-- I = `(0 1)(2 3)…`, K = `(1 2)(3 4)…`, S = `(k, k+d)` for type 1 (the identity when `d = 0`),
`(k, k+3)(k+1, k+2)` for type 2 -/
theorem koltsov3_structure (n t k d : Nat) (D : PermDef)
    (h : permFamily "koltsov3" [n, t, k, d] = some D) :
    ∃ gI gK gS, D.gens = [gI, gK, gS] ∧ D.names = ["I", "K", "S"] ∧
      (∀ q, 2 * q + 1 < n → gI.getD (2 * q) 0 = 2 * q + 1 ∧ gI.getD (2 * q + 1) 0 = 2 * q) ∧
      (n % 2 = 1 → gI.getD (n - 1) 0 = n - 1) ∧
      (∀ q, 2 * q + 2 < n → gK.getD (2 * q + 1) 0 = 2 * q + 2 ∧ gK.getD (2 * q + 2) 0 = 2 * q + 1) ∧
      gK.getD 0 0 = 0 ∧ (n % 2 = 0 → gK.getD (n - 1) 0 = n - 1) ∧
      (t = 1 → d ≠ 0 → transposition n k (k + d) = some gS) ∧
      (t = 1 → d = 0 → gS = List.range n) ∧
      (t = 2 → fromCycles n [[k, k + 3].map Int.ofNat, [k + 1, k + 2].map Int.ofNat] = some gS) := by
  obtain ⟨hc, rfl⟩ := koltsov3_eq n t k d D h
  refine ⟨_, _, _, rfl, rfl, ?_, ?_, ?_, ?_, ?_, ?_, ?_, ?_⟩
  · intro q hq
    rw [getD_oneLine _ _ _ (by omega), getD_oneLine _ _ _ (by omega)]
    unfold adjSwapsFn; constructor <;> pw
  · intro ho
    rw [getD_oneLine _ _ _ (by omega)]; unfold adjSwapsFn; pw
  · intro q hq
    rw [getD_oneLine _ _ _ (by omega), getD_oneLine _ _ _ (by omega)]
    unfold adjSwapsFn; constructor <;> pw
  · rw [getD_oneLine _ _ _ (by omega)]; unfold adjSwapsFn; pw
  · intro he
    rw [getD_oneLine _ _ _ (by omega)]; unfold adjSwapsFn; pw
  · intro ht hd
    rw [if_pos ht, transposition_eq n k (k + d) (by omega) (by omega) (by omega)]
  · intro ht hd
    rw [if_pos ht, ← oneLine_id n]
    apply oneLine_congr; intro p _; unfold swapFn; pw
  · intro ht
    rw [if_neg (by omega), fromCycles_koltsov2 n k (by omega)]

theorem koltsov3_inverse_closed (n t k d : Nat) (D : PermDef)
    (h : permFamily "koltsov3" [n, t, k, d] = some D) : D.inverseClosed = true := by
  obtain ⟨hc, rfl⟩ := koltsov3_eq n t k d D h
  rw [inverseClosed_true_iff]
  intro p hp
  simp only [List.mem_cons, List.not_mem_nil, or_false] at hp
  rcases hp with rfl | rfl | rfl
  · rw [(adjSwapsFn_invPair (Nat.le_refl n)).inverse_eq]; simp
  · rw [(adjSwapsFn_invPair (Nat.le_refl n)).inverse_eq]; simp
  · rw [(koltsovS_invPair n t k d hc).inverse_eq]; simp

theorem koltsov3_defined_iff (n t k d : Nat) :
    (permFamily "koltsov3" [n, t, k, d]).isSome ↔
      k < n ∧ ((t = 1 ∧ k + d < n) ∨ (t = 2 ∧ k + 3 < n)) := by
  rw [permFamily_koltsov3]; unfold koltsov3; split <;> simp_all

/-! ## sheveleva2 -/

/-- inverse of the generator "S" -/
def shevelevaSInvFn (n k p : Nat) : Nat :=
  if p = k then k - 1 else if p = k + 1 then k else if p = k + 2 then k + 1
  else if p + 1 = k then k + 2 else adjSwapsFn ((k + 1) % 2) n p

theorem permFamily_sheveleva2 (n k : Nat) : permFamily "sheveleva2" [n, k] = sheveleva2 n k := rfl

theorem sheveleva2_eq (n k : Nat) (d : PermDef) (h : permFamily "sheveleva2" [n, k] = some d) :
    (1 ≤ k ∧ k + 3 ≤ n) ∧
    d = { gens := [oneLine n (shevelevaAFn n k), oneLine n (shevelevaSFn n k)]
          names := ["A", "S"]
          central := List.range n
          name := "sheveleva2-n" ++ showNat n ++ "-k" ++ showNat k } := by
  rw [permFamily_sheveleva2] at h
  unfold sheveleva2 at h
  split at h
  · rename_i hn; simp only [Option.some.injEq] at h; exact ⟨hn, h.symm⟩
  · simp at h

/-- the three ways an adjacent-swap product acts on a point -/
theorem adjSwaps_cases (r m p : Nat) :
    (adjSwapsFn r m p = p + 1 ∧ r ≤ p ∧ (p - r) % 2 = 0 ∧ p + 1 < m) ∨
    (adjSwapsFn r m p + 1 = p ∧ r < p ∧ (p - r) % 2 = 1 ∧ p < m) ∨
    (adjSwapsFn r m p = p ∧ (p < r ∨ ((p - r) % 2 = 0 ∧ m ≤ p + 1) ∨ ((p - r) % 2 = 1 ∧ m ≤ p))) := by
  unfold adjSwapsFn; pw

theorem adjSwaps_invol (r m p : Nat) : adjSwapsFn r m (adjSwapsFn r m p) = p := by
  unfold adjSwapsFn; pw

theorem shevelevaA_cases (n k p : Nat) :
    (p = k ∧ shevelevaAFn n k p = k) ∨ (p = k + 2 ∧ shevelevaAFn n k p = k + 2) ∨
    (p = k + 1 ∧ k + 3 < n ∧ shevelevaAFn n k p = k + 3) ∨
    (p = k + 1 ∧ ¬ k + 3 < n ∧ shevelevaAFn n k p = k + 1) ∨
    (p = k + 3 ∧ shevelevaAFn n k p = k + 1) ∨
    ((p < k ∨ k + 3 < p) ∧ shevelevaAFn n k p = adjSwapsFn (k % 2) n p) := by
  unfold shevelevaAFn; pw

theorem shevelevaS_cases (n k p : Nat) (hk : 1 ≤ k) :
    (p + 1 = k ∧ shevelevaSFn n k p = k) ∨ (p = k ∧ shevelevaSFn n k p = k + 1) ∨
    (p = k + 1 ∧ shevelevaSFn n k p = k + 2) ∨ (p = k + 2 ∧ shevelevaSFn n k p + 1 = k) ∨
    ((p + 1 < k ∨ k + 2 < p) ∧ shevelevaSFn n k p = adjSwapsFn ((k + 1) % 2) n p) := by
  unfold shevelevaSFn; pw

theorem shevelevaSInv_cases (n k p : Nat) (hk : 1 ≤ k) :
    (p = k ∧ shevelevaSInvFn n k p + 1 = k) ∨ (p = k + 1 ∧ shevelevaSInvFn n k p = k) ∨
    (p = k + 2 ∧ shevelevaSInvFn n k p = k + 1) ∨ (p + 1 = k ∧ shevelevaSInvFn n k p = k + 2) ∨
    ((p + 1 < k ∨ k + 2 < p) ∧ shevelevaSInvFn n k p = adjSwapsFn ((k + 1) % 2) n p) := by
  unfold shevelevaSInvFn; pw

theorem shevelevaA_invPair (n k : Nat) (_hk : 1 ≤ k) (hkn : k + 3 ≤ n) :
    InvPair n (shevelevaAFn n k) (shevelevaAFn n k) := by
  constructor
  · intro p hp
    have h1 := adjSwaps_cases (k % 2) n p
    rcases shevelevaA_cases n k p with h | h | h | h | h | h <;> omega
  · intro p hp
    have h1 := adjSwaps_cases (k % 2) n p
    have h2 := adjSwaps_invol (k % 2) n p
    generalize hq : shevelevaAFn n k p = q
    have h3 : q = adjSwapsFn (k % 2) n p → adjSwapsFn (k % 2) n q = p := by
      intro e; rw [e]; exact h2
    rcases shevelevaA_cases n k p with h | h | h | h | h | h <;>
      rcases shevelevaA_cases n k q with h' | h' | h' | h' | h' | h' <;> omega

theorem shevelevaS_invPair (n k : Nat) (hk : 1 ≤ k) (hkn : k + 3 ≤ n) :
    InvPair n (shevelevaSFn n k) (shevelevaSInvFn n k) := by
  constructor
  · intro p hp
    have h1 := adjSwaps_cases ((k + 1) % 2) n p
    rcases shevelevaS_cases n k p hk with h | h | h | h | h <;> omega
  · intro p hp
    have h1 := adjSwaps_cases ((k + 1) % 2) n p
    have h2 := adjSwaps_invol ((k + 1) % 2) n p
    generalize hq : shevelevaSFn n k p = q
    have h3 : q = adjSwapsFn ((k + 1) % 2) n p → adjSwapsFn ((k + 1) % 2) n q = p := by
      intro e; rw [e]; exact h2
    rcases shevelevaS_cases n k p hk with h | h | h | h | h <;>
      rcases shevelevaSInv_cases n k q hk with h' | h' | h' | h' | h' <;> omega

theorem sheveleva2_valid (n k : Nat) (d : PermDef) (h : permFamily "sheveleva2" [n, k] = some d) :
    (∀ p ∈ d.gens, IsPermOf n p) ∧ d.central = List.range n ∧ d.names.length = d.gens.length := by
  obtain ⟨⟨hk, hkn⟩, rfl⟩ := sheveleva2_eq n k d h
  refine ⟨?_, rfl, rfl⟩
  intro p hp
  simp only [List.mem_cons, List.not_mem_nil, or_false] at hp
  rcases hp with rfl | rfl
  · exact (shevelevaA_invPair n k hk hkn).isPermOf
  · exact (shevelevaS_invPair n k hk hkn).isPermOf

theorem sheveleva2_count (n k : Nat) (d : PermDef) (h : permFamily "sheveleva2" [n, k] = some d) :
    d.gens.length = 2 := by
  obtain ⟨_, rfl⟩ := sheveleva2_eq n k d h; rfl

/-- A is an involution: the adjacent transpositions `(q, q+1)`, `q ≡ k (mod 2)`, except that `(k k+1)`
and `(k+2 k+3)` are replaced by `(k+1 k+3)` (or dropped when `k+3 = n`);
S consists of the 4-cycle `(k-1 k k+1 k+2)` and the adjacent transpositions `(q, q+1)`,
`q ≡ k-1 (mod 2)`, outside it -/
theorem sheveleva2_structure (n k : Nat) (d : PermDef)
    (h : permFamily "sheveleva2" [n, k] = some d) :
    ∃ gA gS, d.gens = [gA, gS] ∧ d.names = ["A", "S"] ∧
      (∀ p, p < n → gA.getD (gA.getD p 0) 0 = p) ∧
      gA.getD k 0 = k ∧ gA.getD (k + 2) 0 = k + 2 ∧
      (k + 3 < n → gA.getD (k + 1) 0 = k + 3 ∧ gA.getD (k + 3) 0 = k + 1) ∧
      (k + 3 = n → gA.getD (k + 1) 0 = k + 1) ∧
      (∀ q, q % 2 = k % 2 → q + 1 < n → q ≠ k → q ≠ k + 2 →
        gA.getD q 0 = q + 1 ∧ gA.getD (q + 1) 0 = q) ∧
      gS.getD (k - 1) 0 = k ∧ gS.getD k 0 = k + 1 ∧ gS.getD (k + 1) 0 = k + 2 ∧
      gS.getD (k + 2) 0 = k - 1 ∧
      (∀ q, q % 2 = (k + 1) % 2 → q + 1 < n → q + 1 ≠ k → q ≠ k + 1 →
        gS.getD q 0 = q + 1 ∧ gS.getD (q + 1) 0 = q) := by
  obtain ⟨⟨hk, hkn⟩, rfl⟩ := sheveleva2_eq n k d h
  refine ⟨_, _, rfl, rfl, ?_, ?_, ?_, ?_, ?_, ?_, ?_, ?_, ?_, ?_, ?_⟩
  · intro p hp
    rw [getD_oneLine _ _ _ hp, getD_oneLine _ _ _ ((shevelevaA_invPair n k hk hkn).lt p hp)]
    exact (shevelevaA_invPair n k hk hkn).inv p hp
  · rw [getD_oneLine _ _ _ (by omega)]; unfold shevelevaAFn; pw
  · rw [getD_oneLine _ _ _ (by omega)]; unfold shevelevaAFn; pw
  · intro h3
    rw [getD_oneLine _ _ _ (by omega), getD_oneLine _ _ _ (by omega)]
    unfold shevelevaAFn; constructor <;> pw
  · intro h3
    rw [getD_oneLine _ _ _ (by omega)]; unfold shevelevaAFn; pw
  · intro q hq1 hq2 hq3 hq4
    rw [getD_oneLine _ _ _ (by omega), getD_oneLine _ _ _ (by omega)]
    unfold shevelevaAFn adjSwapsFn; constructor <;> pw
  · rw [getD_oneLine _ _ _ (by omega)]; unfold shevelevaSFn; pw
  · rw [getD_oneLine _ _ _ (by omega)]; unfold shevelevaSFn; pw
  · rw [getD_oneLine _ _ _ (by omega)]; unfold shevelevaSFn; pw
  · rw [getD_oneLine _ _ _ (by omega)]; unfold shevelevaSFn; pw
  · intro q hq1 hq2 hq3 hq4
    rw [getD_oneLine _ _ _ (by omega), getD_oneLine _ _ _ (by omega)]
    unfold shevelevaSFn adjSwapsFn; constructor <;> pw

/-- never inverse-closed: the inverse of S (which contains a 4-cycle) is neither A nor S -/
theorem sheveleva2_inverse_closed (n k : Nat) (d : PermDef)
    (h : permFamily "sheveleva2" [n, k] = some d) : d.inverseClosed = false := by
  obtain ⟨⟨hk, hkn⟩, rfl⟩ := sheveleva2_eq n k d h
  apply inverseClosed_false_of _ (oneLine n (shevelevaSFn n k)) (by simp)
  rw [(shevelevaS_invPair n k hk hkn).inverse_eq]
  simp only [List.mem_cons, List.not_mem_nil, or_false, not_or]
  constructor
  · apply oneLine_ne_of k (by omega)
    unfold shevelevaSInvFn shevelevaAFn; pw
  · apply oneLine_ne_of k (by omega)
    unfold shevelevaSInvFn shevelevaSFn; pw

theorem sheveleva2_defined_iff (n k : Nat) :
    (permFamily "sheveleva2" [n, k]).isSome ↔ 1 ≤ k ∧ k + 3 ≤ n := by
  rw [permFamily_sheveleva2]; unfold sheveleva2; split <;> simp_all

end Cv.Families
