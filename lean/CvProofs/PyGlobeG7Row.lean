/-
  G7 part 2: the row generators `r<k>` of `globe_gens` are `globeRow a b k`.  Core Lean only.
-/
import CvProofs.PyGlobeG7

namespace Cv.PyG7
open Cv.Py Cv.PyGen Cv.Puzzles

/-- the point map of `help_cyclic` on one row of width `w` is the row turn -/
theorem rowFn_eq (w k i : Nat) (hw : 0 < w) :
    (if k * w ≤ i ∧ i < (k + 1) * w - 1 then i + 1 else if i = (k + 1) * w - 1 ∧ k * w ≤ (k + 1) * w - 1 then k * w else i)
      = if i / w = k then k * w + (i % w + 1) % w else i := by
  have hdm := Nat.div_add_mod i w
  have hml := Nat.mod_lt i hw
  have e : (k + 1) * w = k * w + w := by rw [Nat.add_mul, Nat.one_mul]
  by_cases hq : i / w = k
  · rw [if_pos hq]
    subst hq
    rw [Nat.mul_comm] at hdm
    have e1 := add_mod_cases' (i % w) 1 w hml (by omega)
    rw [e1, e]
    generalize i / w * w = K at *
    generalize i % w = r at *
    subst hdm
    split <;> split <;> (try split) <;> omega
  · rw [if_neg hq]
    have : ¬ (k * w ≤ i ∧ i ≤ k * w + w - 1) := fun h => hq ((Nat.div_eq_iff (x := i) (y := k) hw).2 h)
    rw [e]
    generalize k * w = K at *
    rw [if_neg (by omega), if_neg (by omega)]

theorem help_cyclic_row (a b k : Nat) (hb : 1 ≤ b) (hk : k < a + 1) :
    Globe.help_cyclic ((k : Int) * (2 * (b : Int))) ((((k : Int) + 1) * (2 * (b : Int))) - 1)
      (2 * ((a : Int) + 1) * (b : Int)) = some (toI (globeRow a b k)) := by
  have hw : 0 < 2 * b := by omega
  have hle : (k + 1) * (2 * b) ≤ (a + 1) * (2 * b) := Nat.mul_le_mul_right _ hk
  have hpos : 1 ≤ (k + 1) * (2 * b) := Nat.mul_pos (by omega) hw
  have e1 : (k : Int) * (2 * (b : Int)) = ((k * (2 * b) : Nat) : Int) := by push_cast; rfl
  have e2 : (((k : Int) + 1) * (2 * (b : Int))) - 1 = (((k + 1) * (2 * b) - 1 : Nat) : Int) := by
    rw [Int.natCast_sub hpos]; push_cast; rfl
  have e3 : (2 * ((a : Int) + 1) * (b : Int)) = ((2 * (a + 1) * b : Nat) : Int) := by push_cast; rfl
  have hfn : (k + 1) * (2 * b) - 1 < 2 * (a + 1) * b := by
    rw [globe_size]
    generalize (k + 1) * (2 * b) = X at *
    generalize (a + 1) * (2 * b) = Y at *
    omega
  have hsf : k * (2 * b) ≤ (k + 1) * (2 * b) - 1 + 1 := by
    rw [Nat.add_mul, Nat.one_mul]
    generalize k * (2 * b) = X at *
    omega
  rw [e1, e2, e3, help_cyclic_gen _ _ _ hsf hfn]
  congr 2
  unfold globeRow
  apply ofFn_congr
  intro i _
  exact rowFn_eq (2 * b) k i hw

/-- for `b = 0` there are no cells: every row generator is the empty list -/
theorem help_cyclic_row_zero (a k : Nat) :
    Globe.help_cyclic ((k : Int) * (2 * ((0 : Nat) : Int))) ((((k : Int) + 1) * (2 * ((0 : Nat) : Int))) - 1)
      (2 * ((a : Int) + 1) * ((0 : Nat) : Int)) = some (toI (globeRow a 0 k)) := by
  rw [help_cyclic_int]
  simp [pyRange, globeRow, ofFn, toI]

/-- the row generators for all `b` -/
theorem help_cyclic_row' (a b k : Nat) (hk : k < a + 1) :
    Globe.help_cyclic ((k : Int) * (2 * (b : Int))) ((((k : Int) + 1) * (2 * (b : Int))) - 1)
      (2 * ((a : Int) + 1) * (b : Int)) = some (toI (globeRow a b k)) := by
  rcases Nat.eq_zero_or_pos b with rfl | hb
  · exact help_cyclic_row_zero a k
  · exact help_cyclic_row a b k hb hk

end Cv.PyG7
