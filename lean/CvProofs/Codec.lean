/-
  Proofs about `CvModel/Codec.lean` (state codec, generated bit-permutation programs).  Core Lean only.
-/
import CvModel.Codec

namespace Cv.Codec

/-! ### one statement -/

set_option linter.unusedSimpArgs false in
/-- bit semantics of one generated statement: output bit b is false or exactly one input bit -/
theorem Stmt.eval_bit (s : Stmt) (x : W) (b : Nat) (hb : b < 64) :
    (s.eval x).getLsbD b = match s.srcBit b with | none => false | some j => x.getLsbD j := by
  unfold Stmt.eval Stmt.srcBit
  rcases s with ⟨_, _, mask, shl, shr, post⟩
  cases post <;> simp only [] <;> split <;> (try split) <;>
    simp_all [BitVec.getLsbD_sshiftRight, BitVec.msb_eq_getLsbD_last, BitVec.getLsbD_shiftLeft] <;> grind

/-! ### `orAt` and folds of `orAt` -/

@[simp] theorem length_orAt (l : List W) (i : Nat) (v : W) : (orAt l i v).length = l.length := by
  simp [orAt]

theorem getD_orAt (l : List W) (i d : Nat) (v : W) :
    (orAt l i v).getD d 0#64 = if i = d ∧ d < l.length then l.getD d 0#64 ||| v else l.getD d 0#64 := by
  unfold orAt
  simp only [List.getD_eq_getElem?_getD, List.getElem?_modify]
  by_cases h : i = d
  · subst h
    by_cases h2 : i < l.length
    · simp [h2]
    · simp [h2]
  · simp [h]

theorem getLsbD_getD_orAt (l : List W) (i d b : Nat) (v : W) :
    ((orAt l i v).getD d 0#64).getLsbD b =
      ((l.getD d 0#64).getLsbD b || (decide (d < l.length) && (i == d && v.getLsbD b))) := by
  rw [getD_orAt]
  by_cases h : i = d <;> by_cases h2 : d < l.length <;> simp [h, h2]

theorem length_foldl_orAt {σ : Type} (prog : List σ) (f : σ → Nat) (g : σ → W) (init : List W) :
    (prog.foldl (fun y s => orAt y (f s) (g s)) init).length = init.length := by
  induction prog generalizing init with
  | nil => rfl
  | cons a t ih => simp [ih]

/-- bits of a fold of `orAt`: the initial bit or-ed with every contribution to that word -/
theorem getLsbD_foldl_orAt {σ : Type} (prog : List σ) (f : σ → Nat) (g : σ → W) (init : List W)
    (d b : Nat) :
    ((prog.foldl (fun y s => orAt y (f s) (g s)) init).getD d 0#64).getLsbD b =
      ((init.getD d 0#64).getLsbD b ||
        (decide (d < init.length) && prog.any fun s => f s == d && (g s).getLsbD b)) := by
  induction prog generalizing init with
  | nil => simp
  | cons a t ih =>
    simp only [List.foldl_cons, ih, getLsbD_getD_orAt, length_orAt, List.any_cons]
    cases (init.getD d 0#64).getLsbD b <;> cases decide (d < init.length) <;> simp


/-! ### the specification `permuteBits` -/

theorem getLsbD_foldl_setBits (c : Nat → Bool) (k : Nat) (hk : k ≤ 64) (i : Nat) (hi : i < 64) :
    ((List.range k).foldl (fun (acc : W) b => if c b then acc ||| (1#64 <<< b) else acc) 0#64).getLsbD i =
      (decide (i < k) && c i) := by
  induction k with
  | zero => simp
  | succ k ih =>
    rw [List.range_succ, List.foldl_append]
    simp only [List.foldl_cons, List.foldl_nil]
    have ih' := ih (by omega)
    have hstep : ∀ acc : W, (if c k then acc ||| (1#64 <<< k) else acc).getLsbD i =
        (acc.getLsbD i || (decide (i = k) && c k)) := by
      intro acc
      by_cases hc : c k
      · simp only [hc, if_true, BitVec.getLsbD_or, BitVec.getLsbD_shiftLeft, Bool.and_true]
        congr 1
        by_cases h2 : i = k
        · subst h2; simp [hi]
        · have : ¬ (i - k = 0 ∧ k ≤ i) := by omega
          by_cases h3 : i < k <;> simp [h2, h3, hi] <;> omega
      · simp [hc]
    rw [hstep, ih']
    by_cases h1 : i < k
    · have : ¬ i = k := by omega
      simp [h1, this, show i < k + 1 by omega]
    · by_cases h2 : i = k
      · subst h2; simp
      · simp [h1, h2, show ¬ i < k + 1 by omega]

/-- bits of one word of the specification -/
theorem permWord_bit (p : List Nat) (w n : Nat) (x : List W) (d b : Nat) (hb : b < 64) :
    (permWord p w n x d).getLsbD b =
      (decide (d * 64 + b < n * w) &&
        (x.getD (srcPos p w (d * 64 + b) / 64) 0#64).getLsbD (srcPos p w (d * 64 + b) % 64)) := by
  unfold permWord
  have := getLsbD_foldl_setBits
    (fun b => decide (d * 64 + b < n * w) &&
      (x.getD (srcPos p w (d * 64 + b) / 64) 0#64).getLsbD (srcPos p w (d * 64 + b) % 64)) 64 (Nat.le_refl _) b hb
  simp only [hb, decide_true, Bool.true_and] at this
  exact this

@[simp] theorem length_permuteBits (p : List Nat) (w n len : Nat) (x : List W) :
    (permuteBits p w n len x).length = len := by
  simp [permuteBits]

theorem getD_permuteBits (p : List Nat) (w n len : Nat) (x : List W) (d : Nat) (hd : d < len) :
    (permuteBits p w n len x).getD d 0#64 = permWord p w n x d := by
  simp [permuteBits, List.getD_eq_getElem?_getD, hd]


/-! ### interpreter vs. symbolic contributors, soundness of the checker -/

/-- relating the interpreter's or-fold to the symbolic contributors -/
theorem any_contributors (prog : List Stmt) (x : List W) (d b : Nat) (hb : b < 64) :
    (prog.any fun s => s.dst == d && (s.eval (x.getD s.src 0#64)).getLsbD b) =
      (contributors prog d b).any fun c => (x.getD c.1 0#64).getLsbD c.2 := by
  induction prog with
  | nil => simp [contributors]
  | cons s t ih =>
    unfold contributors at ih ⊢
    rw [List.any_cons, ih, List.filterMap_cons]
    by_cases h : s.dst = d
    · simp only [h, if_true, beq_self_eq_true, Bool.true_and]
      rw [Stmt.eval_bit _ _ _ hb]
      cases s.srcBit b <;> simp
    · simp [h]

@[simp] theorem length_evalProg (prog : List Stmt) (len : Nat) (x : List W) :
    (evalProg prog len x).length = len := by
  unfold evalProg
  rw [length_foldl_orAt prog Stmt.dst (fun s => s.eval (x.getD s.src 0#64))]
  simp

/-- bits computed by the interpreter: the or of all symbolic contributors -/
theorem evalProg_bit (prog : List Stmt) (len : Nat) (x : List W) (d b : Nat) (hb : b < 64) :
    ((evalProg prog len x).getD d 0#64).getLsbD b =
      (decide (d < len) && (contributors prog d b).any fun c => (x.getD c.1 0#64).getLsbD c.2) := by
  unfold evalProg
  rw [getLsbD_foldl_orAt prog Stmt.dst (fun s => s.eval (x.getD s.src 0#64)), any_contributors _ _ _ _ hb]
  have : (List.replicate len 0#64).getD d 0#64 = 0#64 := by
    simp only [List.getD_eq_getElem?_getD, List.getElem?_replicate]
    split <;> rfl
  rw [this]; simp

/-- what an accepted program guarantees for one output bit -/
theorem checkProg_bit {prog : List Stmt} {p : List Nat} {w n len : Nat}
    (h : checkProg prog p w n len = true) (d : Nat) (hd : d < len) (b : Nat) (hb : b < 64) :
    if d * 64 + b < n * w then
      contributors prog d b ≠ [] ∧
        ∀ c ∈ contributors prog d b, c = (srcPos p w (d * 64 + b) / 64, srcPos p w (d * 64 + b) % 64)
    else contributors prog d b = [] := by
  unfold checkProg at h
  simp only [Bool.and_eq_true, List.all_eq_true, List.mem_range] at h
  have h2 := h.2 d hd b hb
  split
  · rename_i ht
    simp only [ht, if_true, Bool.and_eq_true, List.all_eq_true, beq_iff_eq, Bool.not_eq_true',
      List.isEmpty_eq_false_iff] at h2
    exact h2
  · rename_i ht
    simpa [ht] using h2

theorem checkProg_bounds {prog : List Stmt} {p : List Nat} {w n len : Nat}
    (h : checkProg prog p w n len = true) : ∀ s ∈ prog, s.dst < len ∧ s.src < len := by
  unfold checkProg at h
  simp only [Bool.and_eq_true, List.all_eq_true, decide_eq_true_eq] at h
  exact h.1

theorem any_of_all_eq {α : Type} (l : List α) (c : α) (f : α → Bool) (hne : l ≠ [])
    (hall : ∀ a ∈ l, a = c) : l.any f = f c := by
  cases l with
  | nil => exact absurd rfl hne
  | cons a t =>
    have ha : a = c := hall a (by simp)
    subst ha
    cases hf : f a
    · simp only [List.any_cons, hf, Bool.false_or, List.any_eq_false]
      intro y hy
      rw [hall y (by simp [hy])]; simp [hf]
    · simp [hf]

set_option linter.unusedVariables false in
/-- soundness of the checker: an accepted program computes the bit permutation on ALL inputs -/
theorem checkProg_sound (prog : List Stmt) (p : List Nat) (w n len : Nat)
    (h : checkProg prog p w n len = true) (x : List W) (hx : x.length = len) :
    evalProg prog len x = permuteBits p w n len x := by
  apply List.ext_getElem
  · simp
  · intro d h1 h2
    have hd : d < len := by simpa using h1
    apply BitVec.eq_of_getLsbD_eq
    intro b hb
    have e1 := evalProg_bit prog len x d b hb
    have e2 := permWord_bit p w n x d b hb
    rw [← getD_permuteBits p w n len x d hd] at e2
    simp only [List.getD_eq_getElem?_getD, List.getElem?_eq_getElem h1, List.getElem?_eq_getElem h2,
      Option.getD_some] at e1 e2
    rw [e1, e2]
    have hc := checkProg_bit h d hd b hb
    split at hc
    · rename_i ht
      rw [any_of_all_eq _ _ _ hc.1 hc.2]
      simp [hd, ht]
    · rename_i ht
      simp [hc, ht]

theorem foldl_orAt_singleton (prog : List Stmt) (x y : W) (hsd : ∀ s ∈ prog, s.src = 0 ∧ s.dst = 0) :
    prog.foldl (fun y s => orAt y s.dst (s.eval (([x] : List W).getD s.src 0#64))) [y] =
      [prog.foldl (fun y s => y ||| s.eval x) y] := by
  induction prog generalizing y with
  | nil => rfl
  | cons s t ih =>
    have hs := hsd s (by simp)
    simp only [List.foldl_cons, hs.1, hs.2]
    have : orAt [y] 0 (s.eval (([x] : List W).getD 0 0#64)) = [y ||| s.eval x] := by
      simp [orAt]
    rw [this]
    exact ih _ (fun s hs => hsd s (by simp [hs]))

/-- the 1-D routine agrees with the 2-D routine on a single word -/
theorem evalProg1d_eq (prog : List Stmt) (x : W) (hsd : ∀ s ∈ prog, s.src = 0 ∧ s.dst = 0) :
    [evalProg1d prog x] = evalProg prog 1 [x] := by
  unfold evalProg1d evalProg
  exact (foldl_orAt_singleton prog x 0#64 hsd).symm

/-- the 1-D routine (single word) -/
theorem checkProg_sound_1d (prog : List Stmt) (p : List Nat) (w n : Nat)
    (h : checkProg prog p w n 1 = true) (hsd : ∀ s ∈ prog, s.src = 0 ∧ s.dst = 0) (x : W) :
    [evalProg1d prog x] = permuteBits p w n 1 [x] := by
  rw [evalProg1d_eq prog x hsd]
  exact checkProg_sound prog p w n 1 h [x] rfl


/-! ### bit characterisation of `encode` and `decode` -/

/-- the one-bit word moved by one step of `encode`/`decode` -/
def bitW (v : W) (k m : Nat) : W := ((v.sshiftRight k) &&& 1#64) <<< m

theorem bitW_bit (v : W) (k m b : Nat) (hk : k < 64) (hb : b < 64) :
    (bitW v k m).getLsbD b = (decide (b = m) && v.getLsbD k) := by
  unfold bitW
  simp only [BitVec.getLsbD_shiftLeft, BitVec.getLsbD_and, BitVec.getLsbD_sshiftRight, BitVec.getLsbD_one]
  by_cases h1 : b = m
  · subst h1
    simp [hb]; omega
  · by_cases h2 : b < m
    · simp [h1, h2]
    · have : b - m ≠ 0 := by omega
      simp [h1, this]

theorem any_range_unique (N t : Nat) (q : Nat → Bool) (h : ∀ i, i < N → q i = true → i = t) :
    (List.range N).any q = (decide (t < N) && q t) := by
  cases hq : (List.range N).any q
  · rw [List.any_eq_false] at hq
    by_cases ht : t < N
    · have := hq t (List.mem_range.2 ht)
      simp [this]
    · simp [ht]
  · rw [List.any_eq_true] at hq
    obtain ⟨i, hi, hqi⟩ := hq
    have := h i (List.mem_range.1 hi) hqi
    subst this
    simp [List.mem_range.1 hi, hqi]

theorem getD_replicate_zero (len d : Nat) : (List.replicate len 0#64).getD d 0#64 = 0#64 := by
  simp only [List.getD_eq_getElem?_getD, List.getElem?_replicate]
  split <;> rfl

theorem encode_eq (w n : Nat) (s : List Nat) :
    encode w n s = (List.range (w * n)).foldl
      (fun enc i => orAt enc (i / 64) (bitW (BitVec.ofNat 64 (s.getD (i / w) 0)) (i % w) (i % 64)))
      (List.replicate (encLen w n) 0#64) := rfl

@[simp] theorem length_encode (w n : Nat) (s : List Nat) : (encode w n s).length = encLen w n := by
  rw [encode_eq, length_foldl_orAt (List.range (w * n)) (fun i => i / 64)
    (fun i => bitW (BitVec.ofNat 64 (s.getD (i / w) 0)) (i % w) (i % 64))]
  simp

theorem lt_encLen_of_lt {w n d b : Nat} (h : d * 64 + b < n * w) : d < encLen w n := by
  unfold encLen; omega

/-- bit characterisation of `encode`: bit `b` of word `d` is bit `t % w` of element `t / w`
(`t = d*64+b`), padding bits are 0 -/
theorem encode_bit (w n : Nat) (hw' : w ≤ 64) (s : List Nat) (d b : Nat) (hb : b < 64) :
    ((encode w n s).getD d 0#64).getLsbD b =
      (decide (d * 64 + b < n * w) && (s.getD ((d * 64 + b) / w) 0).testBit ((d * 64 + b) % w)) := by
  rw [encode_eq, getLsbD_foldl_orAt (List.range (w * n)) (fun i => i / 64)
    (fun i => bitW (BitVec.ofNat 64 (s.getD (i / w) 0)) (i % w) (i % 64)), getD_replicate_zero]
  rw [any_range_unique (w * n) (d * 64 + b)]
  · simp only [BitVec.getLsbD_zero, Bool.false_or, List.length_replicate, Nat.mul_comm w n]
    by_cases ht : d * 64 + b < n * w
    · have hw0 : 0 < w := by
        rcases Nat.eq_zero_or_pos w with h | h
        · subst h; simp at ht
        · exact h
      have hk : (d * 64 + b) % w < 64 := Nat.lt_of_lt_of_le (Nat.mod_lt _ hw0) hw'
      rw [bitW_bit _ _ _ _ hk hb]
      simp only [lt_encLen_of_lt ht, ht, decide_true, Bool.true_and, BitVec.getLsbD_ofNat, hk]
      have h1 : (d * 64 + b) / 64 = d := by omega
      have h2 : (d * 64 + b) % 64 = b := by omega
      simp [h1, h2]
    · simp [ht]
  · intro i hiN hi
    simp only [Bool.and_eq_true, beq_iff_eq] at hi
    obtain ⟨h1, h2⟩ := hi
    by_cases hk : i % w < 64
    · rw [bitW_bit _ _ _ _ hk hb] at h2
      simp only [Bool.and_eq_true, decide_eq_true_eq] at h2
      omega
    · -- impossible when the bit is set: then `w > 64`
      exfalso
      rcases Nat.eq_zero_or_pos w with h | h
      · subst h
        simp at hiN
      · exact hk (Nat.lt_of_lt_of_le (Nat.mod_lt _ h) hw')

/-- the form of the task statement: for `t < n*w` … -/
theorem encode_bit' (w n : Nat) (hw' : w ≤ 64) (s : List Nat) (t : Nat) (ht : t < n * w) :
    ((encode w n s).getD (t / 64) 0#64).getLsbD (t % 64) = (s.getD (t / w) 0).testBit (t % w) := by
  rw [encode_bit w n hw' s (t / 64) (t % 64) (Nat.mod_lt _ (by omega))]
  have : t / 64 * 64 + t % 64 = t := by omega
  simp [this, ht]

/-- … and padding bits are 0 -/
theorem encode_bit_padding (w n : Nat) (hw' : w ≤ 64) (s : List Nat) (t : Nat) (ht : n * w ≤ t) :
    ((encode w n s).getD (t / 64) 0#64).getLsbD (t % 64) = false := by
  rw [encode_bit w n hw' s (t / 64) (t % 64) (Nat.mod_lt _ (by omega))]
  have : t / 64 * 64 + t % 64 = t := by omega
  simp [this, Nat.not_lt.2 ht]


/-- the word list built by `decode` before the final conversion to naturals -/
def decodeW (w n : Nat) (e : List W) : List W :=
  (List.range (w * n)).foldl
    (fun orig i => orAt orig (i / w) (bitW (e.getD (i / 64) 0#64) (i % 64) (i % w)))
    (List.replicate n 0#64)

theorem decode_eq (w n : Nat) (e : List W) : decode w n e = (decodeW w n e).map BitVec.toNat := rfl

@[simp] theorem length_decodeW (w n : Nat) (e : List W) : (decodeW w n e).length = n := by
  unfold decodeW
  rw [length_foldl_orAt (List.range (w * n)) (fun i => i / w)
    (fun i => bitW (e.getD (i / 64) 0#64) (i % 64) (i % w))]
  simp

@[simp] theorem length_decode (w n : Nat) (e : List W) : (decode w n e).length = n := by
  simp [decode_eq]

/-- bit characterisation of `decode`: bit `k` of element `j` is global bit `j*w+k` (0 for `k ≥ w`) -/
theorem decodeW_bit (w n : Nat) (e : List W) (j k : Nat) (hk : k < 64) :
    ((decodeW w n e).getD j 0#64).getLsbD k =
      (decide (j < n) && decide (k < w) &&
        (e.getD ((j * w + k) / 64) 0#64).getLsbD ((j * w + k) % 64)) := by
  unfold decodeW
  rw [getLsbD_foldl_orAt (List.range (w * n)) (fun i => i / w)
    (fun i => bitW (e.getD (i / 64) 0#64) (i % 64) (i % w)), getD_replicate_zero]
  simp only [BitVec.getLsbD_zero, Bool.false_or, List.length_replicate]
  have hbit : ∀ i, (bitW (e.getD (i / 64) 0#64) (i % 64) (i % w)).getLsbD k =
      (decide (k = i % w) && (e.getD (i / 64) 0#64).getLsbD (i % 64)) :=
    fun i => bitW_bit _ _ _ _ (Nat.mod_lt _ (by omega)) hk
  simp only [hbit]
  by_cases hkw : k < w
  · have hw0 : 0 < w := by omega
    rw [any_range_unique (w * n) (j * w + k)]
    · have h1 : (j * w + k) / w = j := by
        rw [Nat.mul_comm, Nat.mul_add_div hw0, Nat.div_eq_of_lt hkw]; rfl
      have h2 : (j * w + k) % w = k := by
        rw [Nat.mul_comm, Nat.mul_add_mod, Nat.mod_eq_of_lt hkw]
      simp only [h1, h2, beq_self_eq_true, decide_true, Bool.true_and, hkw]
      by_cases hj : j < n
      · have : j * w + k < w * n := by
          have : (j + 1) * w ≤ n * w := Nat.mul_le_mul_right w hj
          rw [Nat.mul_comm w n]
          rw [Nat.add_mul] at this; omega
        simp [hj, this]
      · simp [hj]
    · intro i _ hi
      simp only [Bool.and_eq_true, beq_iff_eq, decide_eq_true_eq] at hi
      have := Nat.div_add_mod i w
      rw [hi.1, ← hi.2.1, Nat.mul_comm] at this
      exact this.symm
  · have : (List.range (w * n)).any (fun s => s / w == j &&
        (decide (k = s % w) && (e.getD (s / 64) 0#64).getLsbD (s % 64))) = false := by
      rw [List.any_eq_false]
      intro i hi
      rcases Nat.eq_zero_or_pos w with h | h
      · subst h; simp at hi
      · have := Nat.mod_lt i h
        have : ¬ k = i % w := by omega
        simp [this]
    rw [this]; simp [hkw]

/-- `decode` is determined by the bits at positions `j*w+k` -/
theorem decode_eq_of_bits (w n : Nat) (hw' : w ≤ 64) (e : List W) (v : List Nat) (hv : v.length = n)
    (hlt : ∀ a ∈ v, a < 2 ^ w)
    (hbits : ∀ j, j < n → ∀ k, k < w →
      (e.getD ((j * w + k) / 64) 0#64).getLsbD ((j * w + k) % 64) = (v.getD j 0).testBit k) :
    decode w n e = v := by
  apply List.ext_getElem
  · simp [hv]
  · intro j h1 h2
    have hj : j < n := by simpa using h1
    simp only [decode_eq, List.getElem_map]
    have hvj : v[j] < 2 ^ w := hlt _ (List.getElem_mem h2)
    have hword : (decodeW w n e)[j]'(by simp [hj]) = BitVec.ofNat 64 v[j] := by
      apply BitVec.eq_of_getLsbD_eq
      intro k hk
      have hb := decodeW_bit w n e j k hk
      simp only [List.getD_eq_getElem?_getD, List.getElem?_eq_getElem (show j < (decodeW w n e).length by simp [hj]),
        Option.getD_some] at hb
      rw [hb, BitVec.getLsbD_ofNat]
      by_cases hkw : k < w
      · have := hbits j hj k hkw
        simp only [List.getD_eq_getElem?_getD, List.getElem?_eq_getElem h2, Option.getD_some] at this
        simp [hj, hkw, hk, this]
      · have : v[j].testBit k = false :=
          Nat.testBit_lt_two_pow (Nat.lt_of_lt_of_le hvj (Nat.pow_le_pow_right (by omega) (by omega)))
        simp [hkw, this]
    rw [hword, BitVec.toNat_ofNat]
    exact Nat.mod_eq_of_lt (Nat.lt_of_lt_of_le hvj (Nat.pow_le_pow_right (by omega) hw'))

theorem encodable_iff (w n : Nat) (s : List Nat) :
    encodable w n s = true ↔ s.length = n ∧ ∀ a ∈ s, a < 2 ^ w ∧ a < 2 ^ 63 := by
  simp [encodable]

/-- encode/decode round trip: any row the encoder accepts -/
theorem decode_encode (w n : Nat) (hw : 1 ≤ w) (hw' : w ≤ 64) (s : List Nat) (h : encodable w n s = true) :
    decode w n (encode w n s) = s := by
  rw [encodable_iff] at h
  apply decode_eq_of_bits w n hw' _ s h.1 (fun a ha => (h.2 a ha).1)
  intro j hj k hk
  have ht : j * w + k < n * w := by
    have : (j + 1) * w ≤ n * w := Nat.mul_le_mul_right w hj
    rw [Nat.add_mul] at this; omega
  rw [encode_bit' w n hw' s _ ht]
  have h1 : (j * w + k) / w = j := by
    rw [Nat.mul_comm, Nat.mul_add_div (by omega), Nat.div_eq_of_lt hk]; rfl
  have h2 : (j * w + k) % w = k := by
    rw [Nat.mul_comm, Nat.mul_add_mod, Nat.mod_eq_of_lt hk]
  rw [h1, h2]


/-! ### the bit permutation acts on decoded states -/

theorem div_mod_of_lt {w j k : Nat} (hk : k < w) : (j * w + k) / w = j ∧ (j * w + k) % w = k := by
  constructor
  · rw [Nat.mul_comm, Nat.mul_add_div (by omega), Nat.div_eq_of_lt hk]; rfl
  · rw [Nat.mul_comm, Nat.mul_add_mod, Nat.mod_eq_of_lt hk]

theorem pos_lt {w n j k : Nat} (hj : j < n) (hk : k < w) : j * w + k < n * w := by
  have : (j + 1) * w ≤ n * w := Nat.mul_le_mul_right w hj
  rw [Nat.add_mul] at this; omega

set_option linter.unusedVariables false in
/-- the bit permutation acts on decoded states as the defined action new[j] = old[p[j]] -/
theorem permuteBits_action (p : List Nat) (w n : Nat) (hw : 1 ≤ w) (hw' : w ≤ 64)
    (hpl : p.length = n) (hp : ∀ i ∈ p, i < n) (s : List Nat) (h : encodable w n s = true) :
    decode w n (permuteBits p w n (encLen w n) (encode w n s)) = p.map fun i => s.getD i 0 := by
  rw [encodable_iff] at h
  apply decode_eq_of_bits w n hw'
  · simp [hpl]
  · intro a ha
    rw [List.mem_map] at ha
    obtain ⟨i, hi, rfl⟩ := ha
    have hin : i < s.length := by rw [h.1]; exact hp i hi
    simp only [List.getD_eq_getElem?_getD, List.getElem?_eq_getElem hin, Option.getD_some]
    exact (h.2 _ (List.getElem_mem hin)).1
  · intro j hj k hk
    have ht := pos_lt hj hk
    have hd : (j * w + k) / 64 < encLen w n := by unfold encLen; omega
    rw [getD_permuteBits _ _ _ _ _ _ hd, permWord_bit _ _ _ _ _ _ (Nat.mod_lt _ (by omega))]
    have e1 : (j * w + k) / 64 * 64 + (j * w + k) % 64 = j * w + k := by omega
    rw [e1]
    have hjp : j < p.length := by omega
    have hpj : p[j] < n := hp _ (List.getElem_mem hjp)
    have hsp : srcPos p w (j * w + k) = p[j] * w + k := by
      unfold srcPos
      rw [(div_mod_of_lt hk).1, (div_mod_of_lt hk).2]
      simp [List.getD_eq_getElem?_getD, List.getElem?_eq_getElem hjp]
    rw [hsp, encode_bit' w n hw' s _ (pos_lt hpj hk), (div_mod_of_lt hk).1, (div_mod_of_lt hk).2]
    simp [ht, List.getD_eq_getElem?_getD, List.getElem?_eq_getElem hjp]

/-- corollary: an accepted program acts on encoded states as the defined action -/
theorem generated_routine_action (prog : List Stmt) (p : List Nat) (w n : Nat) (hw : 1 ≤ w) (hw' : w ≤ 64)
    (hpl : p.length = n) (hp : ∀ i ∈ p, i < n) (hc : checkProg prog p w n (encLen w n) = true)
    (s : List Nat) (h : encodable w n s = true) :
    decode w n (evalProg prog (encLen w n) (encode w n s)) = p.map fun i => s.getD i 0 := by
  rw [checkProg_sound prog p w n (encLen w n) hc (encode w n s) (length_encode w n s)]
  exact permuteBits_action p w n hw hw' hpl hp s h

/-! ### automatic width -/

/-- the automatic width is the least width ≥ 1 that can hold the largest value -/
theorem autoWidth_spec (m : Nat) :
    1 ≤ autoWidth m ∧ m < 2 ^ autoWidth m ∧ ∀ k, 1 ≤ k → m < 2 ^ k → autoWidth m ≤ k := by
  unfold autoWidth
  split
  · rename_i h
    subst h
    refine ⟨Nat.le_refl _, by decide, fun k hk _ => hk⟩
  · rename_i h
    refine ⟨by omega, Nat.lt_log2_self, ?_⟩
    intro k _ hk
    have h1 : 2 ^ m.log2 ≤ m := Nat.log2_self_le h
    have h2 : 2 ^ m.log2 < 2 ^ k := Nat.lt_of_le_of_lt h1 hk
    have := (Nat.pow_lt_pow_iff_right (by decide : 1 < 2)).1 h2
    omega

/-! ## the library's compiler always produces an accepted program -/

abbrev Key := Nat × Nat × Int

/-! ### the insertion-ordered dict: invariant of `orKey` folds -/

theorem oneShifted_bit (m c : Nat) (hm : m < 64) (hc : c < 64) :
    (oneShifted m).getLsbD c = decide (c = m) := by
  unfold oneShifted
  simp only [BitVec.getLsbD_shiftLeft, BitVec.getLsbD_one]
  by_cases h1 : c = m
  · subst h1; simp [hc]
  · by_cases h2 : c < m
    · simp [h1, h2]
    · have : c - m ≠ 0 := by omega
      simp [h1, this]

/-- invariant of the dict after processing the items `L`: an entry's mask has exactly the bits of the items
with that key, and the keys present are exactly the keys of the items -/
structure SMInv {α : Type} (key : α → Key) (bit : α → Nat) (M : ShiftMap) (L : List α) : Prop where
  bits : ∀ e ∈ M, ∀ c, c < 64 → (e.2.getLsbD c = true ↔ ∃ q ∈ L, key q = e.1 ∧ bit q = c)
  keys : ∀ k, (∃ e ∈ M, e.1 = k) ↔ ∃ q ∈ L, key q = k

theorem SMInv.nil {α : Type} (key : α → Key) (bit : α → Nat) : SMInv key bit [] [] :=
  ⟨by simp, by simp⟩

theorem SMInv.step {α : Type} {key : α → Key} {bit : α → Nat} {M : ShiftMap} {L : List α}
    (h : SMInv key bit M L) (q : α) (hq : bit q < 64) :
    SMInv key bit (M.orKey (key q) (oneShifted (bit q))) (L ++ [q]) := by
  obtain ⟨hb, hk⟩ := h
  unfold ShiftMap.orKey
  split
  · -- key present: masks of that key are or-ed
    rename_i hany
    have hpres : ∃ e ∈ M, e.1 = key q := by
      simpa [List.any_eq_true] using hany
    obtain ⟨q0, hq0, hq0k⟩ := (hk _).1 hpres
    constructor
    · intro e' he' c hc
      rw [List.mem_map] at he'
      obtain ⟨e, he, rfl⟩ := he'
      by_cases hek : e.1 = key q
      · simp only [hek, beq_self_eq_true, if_true, BitVec.getLsbD_or, Bool.or_eq_true,
          oneShifted_bit _ _ hq hc, decide_eq_true_eq, hb e he c hc, List.mem_append, List.mem_singleton]
        constructor
        · rintro (⟨q', hq', h1, h2⟩ | h)
          · exact ⟨q', Or.inl hq', h1, h2⟩
          · exact ⟨q, Or.inr rfl, rfl, h.symm⟩
        · rintro ⟨q', hq' | hq', h1, h2⟩
          · exact Or.inl ⟨q', hq', h1, h2⟩
          · subst hq'; exact Or.inr h2.symm
      · have : (e.1 == key q) = false := by simpa using hek
        simp only [this, Bool.false_eq_true, if_false, hb e he c hc, List.mem_append, List.mem_singleton]
        constructor
        · rintro ⟨q', hq', h1, h2⟩
          exact ⟨q', Or.inl hq', h1, h2⟩
        · rintro ⟨q', hq' | hq', h1, h2⟩
          · exact ⟨q', hq', h1, h2⟩
          · subst hq'; exact absurd h1.symm hek
    · intro k
      have : (∃ e ∈ M.map (fun e => if (e.1 == key q) = true then (e.1, e.2 ||| oneShifted (bit q)) else e), e.1 = k) ↔
          ∃ e ∈ M, e.1 = k := by
        constructor
        · rintro ⟨e', he', rfl⟩
          rw [List.mem_map] at he'
          obtain ⟨e, he, rfl⟩ := he'
          refine ⟨e, he, ?_⟩
          split <;> rfl
        · rintro ⟨e, he, rfl⟩
          refine ⟨_, List.mem_map.2 ⟨e, he, rfl⟩, ?_⟩
          split <;> rfl
      rw [this, hk]
      simp only [List.mem_append, List.mem_singleton]
      constructor
      · rintro ⟨q', hq', h1⟩; exact ⟨q', Or.inl hq', h1⟩
      · rintro ⟨q', hq' | hq', h1⟩
        · exact ⟨q', hq', h1⟩
        · subst hq'; exact ⟨q0, hq0, hq0k.trans h1⟩
  · -- key absent: a new entry is appended
    rename_i hany
    have habs : ¬ ∃ e ∈ M, e.1 = key q := by
      simpa [List.any_eq_true] using hany
    have habsL : ¬ ∃ q' ∈ L, key q' = key q := fun h => habs ((hk _).2 h)
    constructor
    · intro e he c hc
      simp only [List.mem_append, List.mem_singleton] at he ⊢
      rcases he with he | rfl
      · have hek : e.1 ≠ key q := fun h => habs ⟨e, he, h⟩
        rw [hb e he c hc]
        constructor
        · rintro ⟨q', hq', h1, h2⟩
          exact ⟨q', Or.inl hq', h1, h2⟩
        · rintro ⟨q', hq' | hq', h1, h2⟩
          · exact ⟨q', hq', h1, h2⟩
          · subst hq'; exact absurd h1.symm hek
      · simp only [oneShifted_bit _ _ hq hc, decide_eq_true_eq]
        constructor
        · intro h; exact ⟨q, Or.inr rfl, rfl, h.symm⟩
        · rintro ⟨q', hq' | hq', h1, h2⟩
          · exact absurd ⟨q', hq', h1⟩ habsL
          · subst hq'; exact h2.symm
    · intro k
      simp only [List.mem_append, List.mem_singleton]
      constructor
      · rintro ⟨e, he | rfl, h1⟩
        · obtain ⟨q', hq', h2⟩ := (hk k).1 ⟨e, he, h1⟩
          exact ⟨q', Or.inl hq', h2⟩
        · exact ⟨q, Or.inr rfl, h1⟩
      · rintro ⟨q', hq' | hq', h1⟩
        · obtain ⟨e, he, h2⟩ := (hk k).2 ⟨q', hq', h1⟩
          exact ⟨e, Or.inl he, h2⟩
        · subst hq'; exact ⟨_, Or.inr rfl, h1⟩

theorem SMInv.foldl {α : Type} {key : α → Key} {bit : α → Nat} (hbit : ∀ q, bit q < 64)
    (L : List α) {M : ShiftMap} {L0 : List α} (h : SMInv key bit M L0) :
    SMInv key bit (L.foldl (fun m q => m.orKey (key q) (oneShifted (bit q))) M) (L0 ++ L) := by
  induction L generalizing M L0 with
  | nil => simpa using h
  | cons q t ih =>
    have := ih (h.step q (hbit q))
    simpa using this


/-! ### `prepareShiftToMask` as one fold over all (element, bit) pairs -/

def startBit (p : List Nat) (w : Nat) (q : Nat × Nat) : Nat := p.getD q.1 0 * w + q.2
def endBit (w : Nat) (q : Nat × Nat) : Nat := q.1 * w + q.2
def keyOf (p : List Nat) (w : Nat) (q : Nat × Nat) : Key :=
  (startBit p w q / 64, endBit w q / 64,
    ((endBit w q % 64 : Nat) : Int) - ((startBit p w q % 64 : Nat) : Int))
def pairs (n w : Nat) : List (Nat × Nat) := (List.range n).flatMap fun i => (List.range w).map fun j => (i, j)

theorem mem_pairs (n w : Nat) (q : Nat × Nat) : q ∈ pairs n w ↔ q.1 < n ∧ q.2 < w := by
  rcases q with ⟨i, j⟩
  simp only [pairs, List.mem_flatMap, List.mem_range, List.mem_map, Prod.mk.injEq]
  constructor
  · rintro ⟨a, ha, b, hb, rfl, rfl⟩; exact ⟨ha, hb⟩
  · rintro ⟨h1, h2⟩; exact ⟨i, h1, j, h2, rfl, rfl⟩

theorem prepare_eq (p : List Nat) (w n : Nat) :
    prepareShiftToMask p w n =
      (pairs n w).foldl (fun (m : ShiftMap) q => m.orKey (keyOf p w q) (oneShifted (startBit p w q % 64))) [] := by
  unfold prepareShiftToMask pairs
  rw [List.foldl_flatMap]
  congr 1
  funext m i
  rw [List.foldl_map]
  rfl

theorem prepare_inv (p : List Nat) (w n : Nat) :
    SMInv (keyOf p w) (fun q => startBit p w q % 64) (prepareShiftToMask p w n) (pairs n w) := by
  rw [prepare_eq]
  have := SMInv.foldl (key := keyOf p w) (bit := fun q => startBit p w q % 64)
    (fun q => Nat.mod_lt _ (by decide)) (pairs n w) (SMInv.nil _ _)
  simpa using this

/-! ### the code generator -/

/-- the statement generated for one dict entry -/
def toStmt (e : Key × W) : Stmt :=
  if e.1.2.2 > 0 then
    { src := e.1.1, dst := e.1.2.1, mask := e.2, shl := e.1.2.2.toNat, shr := 0, post := none }
  else if e.1.2.2 < 0 then
    { src := e.1.1, dst := e.1.2.1, mask := e.2, shl := 0, shr := (-e.1.2.2).toNat,
      post := if e.2.msb then some (maskHighZeros (-e.1.2.2).toNat) else none }
  else { src := e.1.1, dst := e.1.2.1, mask := e.2, shl := 0, shr := 0, post := none }

theorem compile_eq (p : List Nat) (w n : Nat) :
    compile p w n = (prepareShiftToMask p w n).map toStmt := by
  unfold compile
  apply List.map_congr_left
  rintro ⟨⟨sc, ec, shift⟩, mask⟩ _
  rfl

@[simp] theorem toStmt_src (e : Key × W) : (toStmt e).src = e.1.1 := by
  unfold toStmt; split <;> (try split) <;> rfl
@[simp] theorem toStmt_dst (e : Key × W) : (toStmt e).dst = e.1.2.1 := by
  unfold toStmt; split <;> (try split) <;> rfl

theorem maskHighZeros_bit (r b : Nat) (hb : b < 64) :
    (maskHighZeros r).getLsbD b = decide (b < 64 - r) := by
  unfold maskHighZeros
  rw [BitVec.getLsbD_ofNat]; simp [hb]

/-- a generated statement only moves a masked bit by exactly the entry's shift (no sign-extension leaks) -/
theorem toStmt_srcBit_some (e : Key × W) (b j : Nat) (hb : b < 64) (h : (toStmt e).srcBit b = some j) :
    e.2.getLsbD j = true ∧ (b : Int) = (j : Int) + e.1.2.2 := by
  rcases e with ⟨⟨sc, ec, shift⟩, mask⟩
  have hmsb := BitVec.msb_eq_getLsbD_last mask
  have hmz := maskHighZeros_bit (-shift).toNat b hb
  unfold toStmt Stmt.srcBit at h
  grind

/-- conversely a masked bit is moved to the position given by the shift -/
theorem toStmt_srcBit_of (e : Key × W) (b j : Nat) (hb : b < 64) (hj : j < 64)
    (hm : e.2.getLsbD j = true) (hs : (b : Int) = (j : Int) + e.1.2.2) :
    (toStmt e).srcBit b = some j := by
  rcases e with ⟨⟨sc, ec, shift⟩, mask⟩
  have hmsb := BitVec.msb_eq_getLsbD_last mask
  have hmz := maskHighZeros_bit (-shift).toNat b hb
  unfold toStmt Stmt.srcBit
  grind


/-! ### the compiled program is accepted -/

theorem mem_contributors (prog : List Stmt) (d b : Nat) (c : Nat × Nat) :
    c ∈ contributors prog d b ↔ ∃ s ∈ prog, s.dst = d ∧ ∃ j, s.srcBit b = some j ∧ c = (s.src, j) := by
  unfold contributors
  rw [List.mem_filterMap]
  constructor
  · rintro ⟨s, hs, h⟩
    by_cases hd : s.dst = d
    · simp only [hd, if_true, Option.map_eq_some_iff] at h
      obtain ⟨j, hj, rfl⟩ := h
      exact ⟨s, hs, hd, j, hj, rfl⟩
    · simp [hd] at h
  · rintro ⟨s, hs, hd, j, hj, rfl⟩
    exact ⟨s, hs, by simp [hd, hj]⟩

/-- sufficient conditions for acceptance (converse of `checkProg_bit`/`checkProg_bounds`) -/
theorem checkProg_of {prog : List Stmt} {p : List Nat} {w n len : Nat}
    (hbd : ∀ s ∈ prog, s.dst < len ∧ s.src < len)
    (hc : ∀ d, d < len → ∀ b, b < 64 →
      (∀ c ∈ contributors prog d b,
        d * 64 + b < n * w ∧ c = (srcPos p w (d * 64 + b) / 64, srcPos p w (d * 64 + b) % 64)) ∧
      (d * 64 + b < n * w → contributors prog d b ≠ [])) :
    checkProg prog p w n len = true := by
  unfold checkProg
  simp only [Bool.and_eq_true, List.all_eq_true, List.mem_range, decide_eq_true_eq]
  refine ⟨hbd, fun d hd b hb => ?_⟩
  obtain ⟨h1, h2⟩ := hc d hd b hb
  split
  · rename_i ht
    simp only [Bool.and_eq_true, Bool.not_eq_true', List.isEmpty_eq_false_iff, List.all_eq_true, beq_iff_eq]
    exact ⟨h2 ht, fun c hc => (h1 c hc).2⟩
  · rename_i ht
    rw [List.isEmpty_iff]
    apply List.eq_nil_iff_forall_not_mem.2
    intro c hc
    exact ht (h1 c hc).1

theorem div_lt_encLen {w n t : Nat} (h : t < n * w) : t / 64 < encLen w n := by
  unfold encLen; omega

/-- the library's compiler always produces an accepted program; only `p[i] < n` is needed -/
theorem compile_accepted_of_lt (p : List Nat) (w n : Nat) (hw : 1 ≤ w)
    (hp : ∀ i, p.getD i 0 < n ∨ n = 0) :
    checkProg (compile p w n) p w n (encLen w n) = true := by
  have inv := prepare_inv p w n
  rw [compile_eq]
  have hstart : ∀ q ∈ pairs n w, startBit p w q < n * w := by
    intro q hq
    rw [mem_pairs] at hq
    rcases hp q.1 with h | h
    · exact pos_lt h hq.2
    · omega
  have hend : ∀ q ∈ pairs n w, endBit w q < n * w := by
    intro q hq
    rw [mem_pairs] at hq
    exact pos_lt hq.1 hq.2
  apply checkProg_of
  · -- no statement reads or writes outside the row
    intro s hs
    rw [List.mem_map] at hs
    obtain ⟨e, he, rfl⟩ := hs
    obtain ⟨q, hq, hk⟩ := (inv.keys e.1).1 ⟨e, he, rfl⟩
    rw [toStmt_src, toStmt_dst, ← hk]
    exact ⟨div_lt_encLen (hend q hq), div_lt_encLen (hstart q hq)⟩
  · intro d hd b hb
    constructor
    · -- every contributor is the prescribed bit
      intro c hc
      rw [mem_contributors] at hc
      obtain ⟨s, hs, hsd, j, hj, rfl⟩ := hc
      rw [List.mem_map] at hs
      obtain ⟨e, he, rfl⟩ := hs
      rw [toStmt_dst] at hsd
      rw [toStmt_src]
      obtain ⟨hm, hsh⟩ := toStmt_srcBit_some e b j hb hj
      have hj64 : j < 64 := by
        rcases Nat.lt_or_ge j 64 with h | h
        · exact h
        · rw [BitVec.getLsbD_of_ge _ _ h] at hm; cases hm
      obtain ⟨q, hq, hk, hbit⟩ := (inv.bits e he j hj64).1 hm
      have hq' := (mem_pairs n w q).1 hq
      have hk1 : startBit p w q / 64 = e.1.1 := congrArg (·.1) hk
      have hk2 : endBit w q / 64 = e.1.2.1 := congrArg (·.2.1) hk
      have hk3 : ((endBit w q % 64 : Nat) : Int) - ((startBit p w q % 64 : Nat) : Int) = e.1.2.2 :=
        congrArg (·.2.2) hk
      have ht : d * 64 + b = endBit w q := by omega
      have hsp : srcPos p w (d * 64 + b) = startBit p w q := by
        rw [ht]; unfold srcPos endBit startBit
        rw [(div_mod_of_lt hq'.2).1, (div_mod_of_lt hq'.2).2]
      rw [hsp, ht]
      refine ⟨hend q hq, ?_⟩
      rw [← hk1, hbit]
    · -- every payload bit has a contributor
      intro ht
      have hw0 : 0 < w := hw
      let q : Nat × Nat := ((d * 64 + b) / w, (d * 64 + b) % w)
      have hq : q ∈ pairs n w := by
        rw [mem_pairs]
        exact ⟨Nat.div_lt_of_lt_mul (by rw [Nat.mul_comm w n]; exact ht), Nat.mod_lt _ hw0⟩
      have hqe : endBit w q = d * 64 + b := by
        show (d * 64 + b) / w * w + (d * 64 + b) % w = d * 64 + b
        rw [Nat.mul_comm]; exact Nat.div_add_mod _ _
      obtain ⟨e, he, hk⟩ := (inv.keys (keyOf p w q)).2 ⟨q, hq, rfl⟩
      have hm : e.2.getLsbD (startBit p w q % 64) = true :=
        (inv.bits e he _ (Nat.mod_lt _ (by decide))).2 ⟨q, hq, hk.symm, rfl⟩
      have hk2 : e.1.2.1 = endBit w q / 64 := congrArg (·.2.1) hk
      have hk3 : e.1.2.2 = ((endBit w q % 64 : Nat) : Int) - ((startBit p w q % 64 : Nat) : Int) :=
        congrArg (·.2.2) hk
      have hsb : (toStmt e).srcBit b = some (startBit p w q % 64) := by
        apply toStmt_srcBit_of e b _ hb (Nat.mod_lt _ (by decide)) hm
        rw [hk3, hqe]; omega
      intro hnil
      have : ((toStmt e).src, startBit p w q % 64) ∈ contributors ((prepareShiftToMask p w n).map toStmt) d b := by
        rw [mem_contributors]
        refine ⟨toStmt e, List.mem_map.2 ⟨e, he, rfl⟩, ?_, _, hsb, rfl⟩
        rw [toStmt_dst, hk2, hqe]; omega
      rw [hnil] at this
      cases this

set_option linter.unusedVariables false in
/-- STRETCH: the library's compiler always produces an accepted program (∀ permutations, widths, lengths) -/
theorem compile_accepted (p : List Nat) (w n : Nat) (hw : 1 ≤ w) (hw' : w ≤ 64)
    (hpl : p.length = n) (hp : p.Perm (List.range n)) :
    checkProg (compile p w n) p w n (encLen w n) = true := by
  apply compile_accepted_of_lt p w n hw
  intro i
  rcases Nat.lt_or_ge i p.length with h | h
  · left
    have : p[i] ∈ List.range n := hp.mem_iff.1 (List.getElem_mem h)
    simpa [List.getD_eq_getElem?_getD, List.getElem?_eq_getElem h] using this
  · rcases Nat.eq_zero_or_pos n with h0 | h0
    · exact Or.inr h0
    · left
      simp [List.getD_eq_getElem?_getD, List.getElem?_eq_none h, h0]

/-- every statement of a compiled single-word program reads and writes word 0 -/
theorem compile_src_dst_zero (p : List Nat) (w n : Nat) (hw : 1 ≤ w) (hw' : w ≤ 64)
    (hpl : p.length = n) (hp : p.Perm (List.range n)) (h1 : encLen w n = 1) :
    ∀ s ∈ compile p w n, s.src = 0 ∧ s.dst = 0 := by
  intro s hs
  have := checkProg_bounds (compile_accepted p w n hw hw' hpl hp) s hs
  rw [h1] at this
  omega

/-- the library's 2-D routine acts on encoded states as the defined action new[j] = old[p[j]] -/
theorem compiled_routine_action (p : List Nat) (w n : Nat) (hw : 1 ≤ w) (hw' : w ≤ 64)
    (hpl : p.length = n) (hp : p.Perm (List.range n)) (s : List Nat) (h : encodable w n s = true) :
    decode w n (evalProg (compile p w n) (encLen w n) (encode w n s)) = p.map fun i => s.getD i 0 :=
  generated_routine_action _ p w n hw hw' hpl (fun _ hi => List.mem_range.1 (hp.mem_iff.1 hi))
    (compile_accepted p w n hw hw' hpl hp) s h

/-- the library's 1-D routine (states that fit one word) computes the bit permutation -/
theorem compiled_routine_1d (p : List Nat) (w n : Nat) (hw : 1 ≤ w) (hw' : w ≤ 64)
    (hpl : p.length = n) (hp : p.Perm (List.range n)) (h1 : encLen w n = 1) (x : W) :
    [evalProg1d (compile p w n) x] = permuteBits p w n 1 [x] :=
  checkProg_sound_1d _ p w n (h1 ▸ compile_accepted p w n hw hw' hpl hp)
    (compile_src_dst_zero p w n hw hw' hpl hp h1) x

end Cv.Codec
