/-
  G7 part 4: a sequence of swaps of pairwise disjoint pairs `(p, σ p)` applied to the identity list.  Core Lean only.
-/
import CvProofs.Puzzles

namespace Cv.PyG7
open Cv.Puzzles Cv.Perm Cv.Gap

/-- `lst[p], lst[q] = lst[q], lst[p]` -/
def swapN (l : List Nat) (p q : Nat) : List Nat := (l.set p (l.getD q 0)).set q (l.getD p 0)

@[simp] theorem length_swapN (l : List Nat) (p q : Nat) : (swapN l p q).length = l.length := by
  simp [swapN]

theorem getD_set' (l : List Nat) (i j v : Nat) :
    (l.set i v).getD j 0 = if i = j ∧ i < l.length then v else l.getD j 0 := by
  simp only [List.getD_eq_getElem?_getD, List.getElem?_set]
  by_cases h : i = j
  · subst h
    by_cases h2 : i < l.length
    · simp [h2]
    · simp [h2]
  · simp [h]

theorem getD_swapN (l : List Nat) (p q j : Nat) (hp : p < l.length) (hq : q < l.length) :
    (swapN l p q).getD j 0 = if j = q then l.getD p 0 else if j = p then l.getD q 0 else l.getD j 0 := by
  unfold swapN
  rw [getD_set', getD_set', List.length_set]
  by_cases h1 : j = q
  · subst h1; simp [hq]
  · by_cases h2 : j = p
    · subst h2
      rw [if_neg (by omega), if_pos ⟨rfl, hp⟩, if_neg h1, if_pos rfl]
    · rw [if_neg (by omega), if_neg (by omega), if_neg h1, if_neg h2]

/-- the relation "the pairs `(p, σ p)` and `(q, σ q)` are disjoint" -/
def Sep (σ : Nat → Nat) (p q : Nat) : Prop := p ≠ q ∧ p ≠ σ q ∧ σ p ≠ q ∧ σ p ≠ σ q

theorem foldl_swaps_aux (n : Nat) (σ : Nat → Nat) (ps : List Nat)
    (hlt : ∀ p ∈ ps, p < n ∧ σ p < n ∧ σ (σ p) = p)
    (hpw : ps.Pairwise (Sep σ))
    (l : List Nat) (hl : l.length = n)
    (hfix : ∀ p ∈ ps, l.getD p 0 = p ∧ l.getD (σ p) 0 = σ p) :
    (ps.foldl (fun l p => swapN l p (σ p)) l).length = n ∧
    ∀ j, (ps.foldl (fun l p => swapN l p (σ p)) l).getD j 0 =
      if j ∈ ps ∨ j ∈ ps.map σ then σ j else l.getD j 0 := by
  induction ps generalizing l with
  | nil => exact ⟨hl, fun j => by simp⟩
  | cons p t ih =>
    obtain ⟨hp1, hp2, hp3⟩ := hlt p List.mem_cons_self
    obtain ⟨hfp1, hfp2⟩ := hfix p List.mem_cons_self
    rw [List.pairwise_cons] at hpw
    obtain ⟨hsep, hpw'⟩ := hpw
    have hl' : (swapN l p (σ p)).length = n := by simp [hl]
    have hg := fun j => getD_swapN l p (σ p) j (by omega) (by omega)
    have hfix' : ∀ q ∈ t, (swapN l p (σ p)).getD q 0 = q ∧ (swapN l p (σ p)).getD (σ q) 0 = σ q := by
      intro q hq
      obtain ⟨s1, s2, s3, s4⟩ := hsep q hq
      obtain ⟨f1, f2⟩ := hfix q (List.mem_cons_of_mem _ hq)
      constructor
      · rw [hg, if_neg (fun e => s3 e.symm), if_neg (fun e => s1 e.symm)]; exact f1
      · rw [hg, if_neg (fun e => s4 e.symm), if_neg (fun e => s2 e.symm)]; exact f2
    obtain ⟨ih1, ih2⟩ := ih (fun q hq => hlt q (List.mem_cons_of_mem _ hq)) hpw' _ hl' hfix'
    rw [List.foldl_cons]
    refine ⟨ih1, fun j => ?_⟩
    rw [ih2 j, hg j]
    simp only [List.mem_cons, List.map_cons]
    by_cases hc : j ∈ t ∨ j ∈ t.map σ
    · rw [if_pos hc, if_pos (by rcases hc with h | h <;> simp [h])]
    · rw [if_neg hc]
      have hc1 : j ∉ t := fun h => hc (Or.inl h)
      have hc2 : j ∉ t.map σ := fun h => hc (Or.inr h)
      by_cases h1 : j = σ p
      · rw [if_pos h1, if_pos (Or.inr (Or.inl h1)), hfp1, h1, hp3]
      · by_cases h2 : j = p
        · rw [if_neg h1, if_pos h2, if_pos (Or.inl (Or.inl h2)), hfp2, h2]
        · rw [if_neg h1, if_neg h2, if_neg]
          simp [h1, h2, hc1]
          simpa using hc2

/-- swapping the pairwise disjoint pairs `(p, σ p)`, `p ∈ ps`, in the identity list gives the one-line form of `σ`,
when `σ` fixes every point outside the pairs -/
theorem foldl_swaps (n : Nat) (σ : Nat → Nat) (ps : List Nat)
    (hlt : ∀ p ∈ ps, p < n ∧ σ p < n ∧ σ (σ p) = p)
    (hpw : ps.Pairwise (Sep σ))
    (hcover : ∀ j, j < n → σ j ≠ j → j ∈ ps ∨ j ∈ ps.map σ) :
    ps.foldl (fun l p => swapN l p (σ p)) (List.range n) = ofFn n σ := by
  have hr : ∀ j, j < n → (List.range n).getD j 0 = j := by
    intro j hj; simp [List.getD_eq_getElem?_getD, hj]
  obtain ⟨h1, h2⟩ := foldl_swaps_aux n σ ps hlt hpw (List.range n) (by simp)
    (fun p hp => ⟨hr p (hlt p hp).1, hr _ (hlt p hp).2.1⟩)
  apply getD_ext (n := n) h1 (by simp)
  intro j hj
  rw [h2 j, getD_ofFn n σ j hj, hr j hj]
  split
  · rfl
  · rename_i h
    by_cases e : σ j = j
    · exact e.symm
    · exact absurd (hcover j hj e) h

/-- nested loops -/
theorem foldl_flatMap' {α β γ : Type} (f : α → γ → α) (g : β → List γ) (l : List β) (init : α) :
    (l.flatMap g).foldl f init = l.foldl (fun s i => (g i).foldl f s) init := by
  induction l generalizing init with
  | nil => rfl
  | cons a t ih => rw [List.flatMap_cons, List.foldl_append, List.foldl_cons, ih]

end Cv.PyG7
