/-
  G4 — the key lemma in its `cycleFn` form: the source-translated `permutation_from_cycles` with one
  duplicate-free in-range cycle (optionally followed by the fixed point `[0]`) is the one-line list of
  the cycle point function.  Core Lean only.
-/
import CvProofs.PyFamG4Base
import CvProofs.FamiliesEnum
namespace Cv.PyG4
open Cv.Py Cv.PyGen Cv.Families

/-- `permutation_from_cycles(n, [c])` -/
theorem pfc_cycleFn (n : Nat) (c : List Nat) (hnd : c.Nodup) (hlt : ∀ v ∈ c, v < n) :
    Perm.permutation_from_cycles (n : Int) [toI c] 0 = some (toI (oneLine n (cycleFn c))) := by
  have := pfc_gen n [c]
  simp only [List.map_cons, List.map_nil] at this
  rw [this, fromCycles_cycleFn n c hnd hlt]; rfl

/-- `permutation_from_cycles(n, [c, [0]])` with `0` not in `c` -/
theorem pfc_cycleFn_fix0 (n : Nat) (c : List Nat) (hnd : c.Nodup) (hlt : ∀ v ∈ c, v < n)
    (h0 : 0 ∉ c) (hn : 0 < n) :
    Perm.permutation_from_cycles (n : Int) [toI c, [0]] 0 = some (toI (oneLine n (cycleFn c))) := by
  have := pfc_gen n [c, [0]]
  have h2 : Cv.Perm.fromCycles n ([c, [0]].map (·.map Int.ofNat)) = some (oneLine n (cycleFn c)) := by
    apply fromCycles_eq n [c, [0]] (cycleFn c)
    · simp only [List.flatten_cons, List.flatten_nil, List.append_nil]
      rw [List.nodup_append]
      refine ⟨hnd, by simp, ?_⟩
      intro a ha b hb
      simp only [List.mem_singleton] at hb
      subst hb
      intro e; subst e; exact h0 ha
    · intro v hv
      simp only [List.flatten_cons, List.flatten_nil, List.append_nil, List.mem_append,
        List.mem_singleton] at hv
      rcases hv with hv | rfl
      · exact hlt v hv
      · exact hn
    · intro c' hc' t ht
      simp only [List.mem_cons, List.not_mem_nil, or_false] at hc'
      rcases hc' with rfl | rfl
      · exact cycleFn_getD c' hnd t ht
      · simp only [List.length_singleton] at ht
        have : t = 0 := by omega
        subst this
        exact cycleFn_of_not_mem c 0 h0
    · intro p _ hnot
      simp only [List.flatten_cons, List.flatten_nil, List.append_nil, List.mem_append,
        List.mem_singleton, not_or] at hnot
      exact cycleFn_of_not_mem c p hnot.1
  rw [h2] at this
  exact this

end Cv.PyG4
