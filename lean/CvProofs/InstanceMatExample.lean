/-
  The Heisenberg group modulo 3 (3×3 upper unitriangular matrices over Z/3, 27 elements) as a matrix graph:
  generators `x = I + E(0,1)`, `y = I + E(1,2)` and their inverses, states = flattened 3×3 matrices, start = identity.
  All hypotheses of the BFS theorem are established; the runs are evaluated in the kernel.  Core Lean only.
-/
import CvProofs.InstanceMat
import CvProofs.BfsKernel
namespace Cv.InstanceMat.Example
open Cv Cv.InstanceMat

def hx : MatGen := ⟨[1, 1, 0, 0, 1, 0, 0, 0, 1], 3⟩
def hy : MatGen := ⟨[1, 0, 0, 0, 1, 1, 0, 0, 1], 3⟩
def hx' : MatGen := ⟨[1, 2, 0, 0, 1, 0, 0, 0, 1], 3⟩
def hy' : MatGen := ⟨[1, 0, 0, 0, 1, 2, 0, 0, 1], 3⟩
def heis3 : List MatGen := [hx, hy, hx', hy']
def eye3 : List Int := [1, 0, 0, 0, 1, 0, 0, 0, 1]

/-- the state read in base 3 (injective on states with entries in `[0, 3)`) -/
def b3Hash (s : List Int) : Int := s.foldl (fun acc a => acc * 3 + a) 0

/-- everything the duplicate-free recurrence has seen after 4 steps -/
def all27 : List (List Int) := (absSt (matNb heis3 3 3) [eye3] 4).1

theorem all27_length : all27.length = 27 := by decide +kernel
theorem all27_closed : ∀ s ∈ all27, ∀ t ∈ matNb heis3 3 3 s, t ∈ all27 := by decide +kernel

theorem orbit_subset : ∀ s, InOrbit (matNb heis3 3 3) [eye3] s → s ∈ all27 :=
  Transport.inOrbit_invariant _ _ (· ∈ all27) (by decide +kernel) (fun a b ha hb => all27_closed a ha b hb)

theorem heis3_modulo : ∀ G ∈ heis3, G.modulo ≠ 0 := by decide

theorem heis3_fits : OrbitFits heis3 3 3 [eye3] := orbitFits_of_modulo heis3 3 3 [eye3] heis3_modulo

theorem b3Hash_inj : ∀ s t, InOrbit (matNb heis3 3 3) [eye3] s → InOrbit (matNb heis3 3 3) [eye3] t →
    b3Hash s = b3Hash t → s = t := by
  have h : ∀ s ∈ all27, ∀ t ∈ all27, b3Hash s = b3Hash t → s = t := by decide +kernel
  intro s t hs ht
  exact h s (orbit_subset s hs) t (orbit_subset t ht)

theorem heis3_symm : ∀ s t, InOrbit (matNb heis3 3 3) [eye3] s → t ∈ matNb heis3 3 3 s →
    s ∈ matNb heis3 3 3 t := by
  have h : ∀ s ∈ all27, ∀ t ∈ matNb heis3 3 3 s, s ∈ matNb heis3 3 3 t := by decide +kernel
  intro s t hs ht
  exact h s (orbit_subset s hs) t ht

theorem class5_empty : ∀ s, ¬ DistLayer (matNb heis3 3 3) [eye3] 5 s := by
  intro s hs
  have := ((absSt_spec (matNb heis3 3 3) [eye3] 5).1 s).2 hs
  rw [show (absSt (matNb heis3 3 3) [eye3] 5).2 = [] by decide +kernel] at this
  simp at this

/-- the graph of the example: base-3 hash, flagged inverse-closed (two-layer window), batch size 2 (layers 1 … 4 go
through the batched branch) -/
def gH : Graph (List Int) := matGraph heis3 3 3 b3Hash true 2

/-- the run is exhaustive: derived from facts about the mathematical graph, not assumed -/
theorem heis3_completed : (bfs gH {} [eye3]).completed = true :=
  mat_bfs_completes heis3 3 3 b3Hash true 2 [eye3] heis3_fits b3Hash_inj (fun _ => heis3_symm) (by decide) {} 5
    (by decide) (by decide) class5_empty all27 orbit_subset (by rw [all27_length]; decide)
    (fun f hf => by cases hf)

open Cv.Kernel in
/-- the run evaluated in the kernel (`bfs = bfsK`): growth function `1 + 4 + 8 + 12 + 2 = 27` and all layers -/
theorem heis3_run :
    (bfs gH {} [eye3]).completed = true ∧ (bfs gH {} [eye3]).layerSizes = [1, 4, 8, 12, 2] ∧
    (bfs gH {} [eye3]).layers =
      [(0, [[1, 0, 0, 0, 1, 0, 0, 0, 1]]),
       (1, [[1, 0, 0, 0, 1, 1, 0, 0, 1], [1, 0, 0, 0, 1, 2, 0, 0, 1], [1, 1, 0, 0, 1, 0, 0, 0, 1],
            [1, 2, 0, 0, 1, 0, 0, 0, 1]]),
       (2, [[1, 1, 1, 0, 1, 1, 0, 0, 1], [1, 1, 2, 0, 1, 2, 0, 0, 1], [1, 2, 1, 0, 1, 2, 0, 0, 1],
            [1, 2, 2, 0, 1, 1, 0, 0, 1], [1, 1, 0, 0, 1, 1, 0, 0, 1], [1, 1, 0, 0, 1, 2, 0, 0, 1],
            [1, 2, 0, 0, 1, 1, 0, 0, 1], [1, 2, 0, 0, 1, 2, 0, 0, 1]]),
       (3, [[1, 1, 1, 0, 1, 0, 0, 0, 1], [1, 1, 1, 0, 1, 2, 0, 0, 1], [1, 1, 2, 0, 1, 0, 0, 0, 1],
            [1, 1, 2, 0, 1, 1, 0, 0, 1], [1, 2, 1, 0, 1, 0, 0, 0, 1], [1, 2, 1, 0, 1, 1, 0, 0, 1],
            [1, 2, 2, 0, 1, 0, 0, 0, 1], [1, 2, 2, 0, 1, 2, 0, 0, 1], [1, 0, 1, 0, 1, 2, 0, 0, 1],
            [1, 0, 2, 0, 1, 1, 0, 0, 1], [1, 0, 1, 0, 1, 1, 0, 0, 1], [1, 0, 2, 0, 1, 2, 0, 0, 1]]),
       (4, [[1, 0, 1, 0, 1, 0, 0, 0, 1], [1, 0, 2, 0, 1, 0, 0, 0, 1]])] := by
  rw [bfs_eq_bfsK]; decide +kernel

open Cv.Kernel in
/-- the two generators `x`, `y` alone (not inverse-closed, no flag): the directed growth function -/
theorem heis3_directed_run :
    (bfs (matGraph [hx, hy] 3 3 b3Hash false 2) {} [eye3]).completed = true ∧
    (bfs (matGraph [hx, hy] 3 3 b3Hash false 2) {} [eye3]).layerSizes = [1, 2, 4, 6, 7, 5, 2] := by
  rw [bfs_eq_bfsK]; decide +kernel

/-- cross-check: layer 3 of the evaluated run is a permutation of class 3 as computed by the duplicate-free
recurrence on the MATHEMATICAL graph -/
theorem heis3_layer3_crosscheck :
    ([[1, 1, 1, 0, 1, 0, 0, 0, 1], [1, 1, 1, 0, 1, 2, 0, 0, 1], [1, 1, 2, 0, 1, 0, 0, 0, 1],
      [1, 1, 2, 0, 1, 1, 0, 0, 1], [1, 2, 1, 0, 1, 0, 0, 0, 1], [1, 2, 1, 0, 1, 1, 0, 0, 1],
      [1, 2, 2, 0, 1, 0, 0, 0, 1], [1, 2, 2, 0, 1, 2, 0, 0, 1], [1, 0, 1, 0, 1, 2, 0, 0, 1],
      [1, 0, 2, 0, 1, 1, 0, 0, 1], [1, 0, 1, 0, 1, 1, 0, 0, 1], [1, 0, 2, 0, 1, 2, 0, 0, 1]] : List (List Int)).Perm
      (absSt (matNb heis3 3 3) [eye3] 3).2 := by decide +kernel

/-! ### `modulo = 0`: the rotation group of order 4 (entries `-1, 0, 1`) -/

def rot : MatGen := ⟨[0, -1, 1, 0], 0⟩
def rot' : MatGen := ⟨[0, 1, -1, 0], 0⟩
def c4 : List MatGen := [rot, rot']
def eye2 : List Int := [1, 0, 0, 1]
/-- entries `-1, 0, 1` read as base-3 digits `0, 1, 2` -/
def sHash (s : List Int) : Int := s.foldl (fun acc a => acc * 3 + (a + 1)) 0
def all4 : List (List Int) := (absSt (matNb c4 2 2) [eye2] 2).1

instance (x : Int) : Decidable (FitsInt64 x) := by unfold FitsInt64; infer_instance

theorem all4_closed : ∀ s ∈ all4, ∀ t ∈ matNb c4 2 2 s, t ∈ all4 := by decide +kernel
theorem c4_orbit_subset : ∀ s, InOrbit (matNb c4 2 2) [eye2] s → s ∈ all4 :=
  Transport.inOrbit_invariant _ _ (· ∈ all4) (by decide +kernel) (fun a b ha hb => all4_closed a ha b hb)

/-- the hypothesis of (c): on the orbit no entry of a product leaves int64 -/
theorem c4_fits : OrbitFits c4 2 2 [eye2] := by
  have h : ∀ s ∈ all4, ∀ G ∈ c4, G.modulo = 0 → ∀ x ∈ matProd 2 2 G.matrix s, FitsInt64 x := by decide +kernel
  intro s hs
  exact h s (c4_orbit_subset s hs)

theorem sHash_inj : ∀ s t, InOrbit (matNb c4 2 2) [eye2] s → InOrbit (matNb c4 2 2) [eye2] t →
    sHash s = sHash t → s = t := by
  have h : ∀ s ∈ all4, ∀ t ∈ all4, sHash s = sHash t → s = t := by decide +kernel
  intro s t hs ht
  exact h s (c4_orbit_subset s hs) t (c4_orbit_subset t ht)

theorem c4_symm : ∀ s t, InOrbit (matNb c4 2 2) [eye2] s → t ∈ matNb c4 2 2 s → s ∈ matNb c4 2 2 t := by
  have h : ∀ s ∈ all4, ∀ t ∈ matNb c4 2 2 s, s ∈ matNb c4 2 2 t := by decide +kernel
  intro s t hs ht
  exact h s (c4_orbit_subset s hs) t ht

open Cv.Kernel in
theorem c4_run :
    (bfs (matGraph c4 2 2 sHash true 1) {} [eye2]).completed = true ∧
    (bfs (matGraph c4 2 2 sHash true 1) {} [eye2]).layerSizes = [1, 2, 1] ∧
    (bfs (matGraph c4 2 2 sHash true 1) {} [eye2]).layers =
      [(0, [[1, 0, 0, 1]]), (1, [[0, -1, 1, 0], [0, 1, -1, 0]]), (2, [[-1, 0, 0, -1]])] := by
  rw [bfs_eq_bfsK]; decide +kernel

/-! ### where wrap-around starts -/

/-- `modulo = 0`: `2^32 · (2^31 - 1)` still fits int64 and the model returns the exact product; `2^32 · 2^31 = 2^63`
is the next case and wraps to `-2^63` -/
theorem wrap_modulo0 :
    matAct ⟨[2 ^ 32], 0⟩ 1 1 [2 ^ 31 - 1] = [2 ^ 63 - 2 ^ 32] ∧ matApply ⟨[2 ^ 32], 0⟩ 1 1 [2 ^ 31 - 1] = [2 ^ 63 - 2 ^ 32] ∧
    matAct ⟨[2 ^ 32], 0⟩ 1 1 [2 ^ 31] = [-(2 ^ 63)] ∧ matApply ⟨[2 ^ 32], 0⟩ 1 1 [2 ^ 31] = [2 ^ 63] ∧
    matActInt64 ⟨[2 ^ 32], 0⟩ 1 1 [2 ^ 31] = [-(2 ^ 63)] := by decide +kernel

/-- positive modulo, `m = 2^31 - 1` (all entries `m - 1`): the model `Cv.Matrix.apply` and the repaired int64 code
agree with the mathematical product for `n = 3`; the ORIGINAL code (sum before `%`) is right for `n = 2`
(`2 (m-1)^2 < 2^63`) and wrong for `n = 3` (`3 (m-1)^2 ≥ 2^63`, the sum wraps: D4) -/
theorem wrap_sum_first :
    (2 : Int) * ((2147483647 - 1) * (2147483647 - 1)) < 2 ^ 63 ∧
    ¬ (3 : Int) * ((2147483647 - 1) * (2147483647 - 1)) < 2 ^ 63 ∧
    matActInt64Sum ⟨[2147483646, 2147483646, 0, 0], 2147483647⟩ 2 1 [2147483646, 2147483646] = [2, 0] ∧
    matApply ⟨[2147483646, 2147483646, 0, 0], 2147483647⟩ 2 1 [2147483646, 2147483646] = [2, 0] ∧
    matApply ⟨[2147483646, 2147483646, 2147483646, 0, 0, 0, 0, 0, 0], 2147483647⟩ 3 1
      [2147483646, 2147483646, 2147483646] = [3, 0, 0] ∧
    matAct ⟨[2147483646, 2147483646, 2147483646, 0, 0, 0, 0, 0, 0], 2147483647⟩ 3 1
      [2147483646, 2147483646, 2147483646] = [3, 0, 0] ∧
    matActInt64 ⟨[2147483646, 2147483646, 2147483646, 0, 0, 0, 0, 0, 0], 2147483647⟩ 3 1
      [2147483646, 2147483646, 2147483646] = [3, 0, 0] ∧
    matActInt64Sum ⟨[2147483646, 2147483646, 2147483646, 0, 0, 0, 0, 0, 0], 2147483647⟩ 3 1
      [2147483646, 2147483646, 2147483646] = [2147483646, 0, 0] := by decide +kernel

end Cv.InstanceMat.Example
