/-
  cvdriver: line protocol over the executable models.  One request per line, one answer line.
  Sections of a request are separated by `;`, tokens by blanks.  Errors are `ERR <kind>`.
-/
import CvModel
import CvGen
import Std.Data.HashMap
open Cv

structure DState where
  B : Nat := 2
  n : Nat := 0
  nGens : Nat := 0
  act : Nat → Nat → Nat := fun _ x => x
  /-- the inverted graph (generator i undoes generator i), when constructible -/
  actInv : Option (Nat → Nat → Nat) := none
  invClosed : Bool := false
  batch : Nat := 2^20
  /-- hash table supplied by the harness (state -> the implementation's hash); empty = identity key -/
  tab : Std.HashMap Nat Int := {}
  central : Nat := 0
  invMap : Option (List Nat) := none

def toks (s : String) : List String := (s.splitOn " ").filter (· ≠ "")
def secs (s : String) : List String := (s.splitOn ";").map fun x => x.trimAscii.toString
def nats (s : String) : Option (List Nat) := (toks s).mapM String.toNat?
def ints (s : String) : Option (List Int) := (toks s).mapM String.toInt?
def showNats (l : List Nat) : String := " ".intercalate (l.map toString)
def showInts (l : List Int) : String := " ".intercalate (l.map toString)
def showLL (l : List (List Nat)) : String := " | ".intercalate (l.map showNats)


/-! bit-mask engine (`CvModel/Bitmask.lean`): kernel-level and whole-engine queries, one per line, lists separated by `|` -/
namespace BmReader
open Cv.Bitmask
def bmNums (s : String) : List Nat := (s.splitOn " ").filterMap fun t => t.toNat?
def bmShowL (l : List Nat) : String := " ".intercalate (l.map toString)

def bmAnswer (line : String) : String :=
  match line.splitOn "|" with
  | [] => "?"
  | hd :: rest =>
    let toks := (hd.splitOn " ").filter (· ≠ "")
    let cmd := toks.headD ""
    let a := toks.drop 1 |>.filterMap (·.toNat?)
    let lists := rest.map bmNums
    match cmd with
    | "ENC" => toString (encodePerm a)
    | "DEC" => bmShowL (decodePerm (a.getD 0 0) (a.getD 1 0))
    | "BC" => toString (bitCount (a.map (BitVec.ofNat 64)).toArray)
    | "BCN" => toString ((a.map fun w => bitCount64Numba (BitVec.ofNat 64 w)).sum)
    | "PM2L" => bmShowL ((lists.getD 0 []).map (prefixMap2 (a.getD 0 0)))
    | "PM1" => toString (prefixMap1 (a.getD 0 0) (a.getD 1 0))
    | "PM2" => toString (prefixMap2 (a.getD 0 0) (a.getD 1 0))
    | "PM1ALL" => bmShowL ((List.range (fact (a.getD 0 0))).map (prefixMap1 (a.getD 0 0)))
    | "CHUNK" =>
      let c := mkChunk (a.getD 0 0) (a.getD 1 0) (lists.getD 0 [])
      s!"{bmShowL c.map1} | {bmShowL c.map2} | {c.encodedSuffix} | {chunkAsserts (a.getD 0 0) (a.getD 1 0) (lists.getD 0 [])}"
    | "P2R" =>
      let c := mkChunk (a.getD 0 0) (a.getD 1 0) (lists.getD 0 [])
      bmShowL ((lists.getD 1 []).map (permToRank (a.getD 1 0) c))
    | "R2P" =>
      let c := mkChunk (a.getD 0 0) (a.getD 1 0) (lists.getD 0 [])
      bmShowL ((lists.getD 1 []).flatMap fun r => [rankToPrefix (a.getD 1 0) c.map1 r, rankToPerm (a.getD 1 0) c r])
    | "MASK" => toString (suffixMask (a.getD 0 0) (a.getD 1 0))
    | "GEN" =>
      let prog := Cv.Codec.compile (lists.getD 0 []) 4 (a.getD 0 0)
      bmShowL ((lists.getD 1 []).map (permFunc prog))
    | "UNIQ" => bmShowL (npUnique a)
    | "GS" => bmShowL (groupStarts a)
    | "NCHUNKS" => toString (initChunks (a.getD 0 0) (a.getD 1 0)).length
    | "SUFFIXES" =>
      " | ".intercalate ((initChunks (a.getD 0 0) (a.getD 1 0)).map fun vc => bmShowL vc.chunk.suffix)
    | "BFS" =>
      match bfsBitmask (a.getD 0 0) (a.getD 1 0) (lists.drop 1) (lists.getD 0 []) (a.getD 2 0) with
      | .ok sizes => "OK " ++ bmShowL sizes
      | .error e => "ERR " ++ reprStr e
    | _ => "?"

end BmReader

/-- with a table: the implementation's hash; a miss maps outside the int64 range (never collides silently) -/
def DState.hash (d : DState) : Nat → Int :=
  if d.tab.isEmpty then fun x => (x : Int)
  else
    let t := d.tab
    fun x => match t.get? x with
      | some h => h
      | none => (x : Int) + 2^100

def DState.graph (d : DState) : Graph Nat :=
  { nGens := d.nGens, act := d.act, hash := d.hash, invClosed := d.invClosed, batchSize := d.batch }

def DState.graphInv (d : DState) : Option (Graph Nat) :=
  d.actInv.map fun a =>
    { nGens := d.nGens, act := a, hash := d.hash, invClosed := d.invClosed, batchSize := d.batch }

def parseLayers (s : String) : Option (List (List Int)) :=
  if s.trimAscii.toString == "" then some [] else ((s.splitOn "|").map fun x => x.trimAscii.toString).mapM ints

def parseNatLists (s : String) : Option (List (List Nat)) :=
  if s.trimAscii.toString == "" then some [] else ((s.splitOn "|").map fun x => x.trimAscii.toString).mapM nats

def showPathRes : PathRes → String
  | .found p => "found " ++ showNats p
  | .notFound => "none"
  | .assertFail _ => "assert"

def showBeam : Option BeamRes → String
  | none => "assert"
  | some r => s!"{if r.found then 1 else 0} {r.length} ; {match r.path with | none => "nopath" | some p => "path " ++ showNats p}"

def showWalk (l : List (Nat × Nat)) : String :=
  " ".intercalate (l.map fun (p : Nat × Nat) => toString p.1 ++ "," ++ toString p.2)

def optNat (s : String) : Option (Option Nat) :=
  if s == "-1" then some none else s.toNat?.map some

/-- path / search operations on the current graph -/
def handleAlgo (d : DState) (line : String) : Option String :=
  match secs line with
  | hd :: rest =>
    match toks hd, rest with
    | ["path.to"], [layers, e] =>
      match d.graphInv, parseLayers layers, e.toNat? with
      | some gi, some ls, some e => some (showPathRes (findPathTo d.graph gi ls e))
      | none, _, _ => some "ERR no-inverse"
      | _, _, _ => some "ERR parse"
    | ["path.from"], [layers, e] =>
      match d.graphInv, parseLayers layers, e.toNat? with
      | some gi, some ls, some e => some (showPathRes (findPathFrom d.graph gi d.invMap ls e))
      | none, _, _ => some "ERR no-inverse"
      | _, _, _ => some "ERR parse"
    | ["path.restore"], [layers, e] =>
      match d.graphInv, parseLayers layers, e.toNat? with
      | some gi, some ls, some e => some (match restorePath gi ls e with | some p => "found " ++ showNats p | none => "assert")
      | none, _, _ => some "ERR no-inverse"
      | _, _, _ => some "ERR parse"
    | ["path.revert"], [p] =>
      (nats p).map fun p => match revertPathM d.invMap p with | some r => "found " ++ showNats r | none => "assert"
    | ["path.apply"], [st, p] =>
      match st.toNat?, nats p with
      | some st, some p => some (toString (applyPath d.act st p))
      | _, _ => some "ERR parse"
    | ["mitm.to"], [layers, e] =>
      match d.graphInv, parseLayers layers, e.toNat? with
      | some gi, some ls, some e => some (showPathRes (mitmFindPathTo d.graph gi ls e))
      | none, _, _ => some "ERR no-inverse"
      | _, _, _ => some "ERR parse"
    | ["mitm.from"], [layers, e] =>
      match d.graphInv, parseLayers layers, e.toNat? with
      | some gi, some ls, some e => some (showPathRes (mitmFindPathFrom d.graph gi d.invMap ls e))
      | none, _, _ => some "ERR no-inverse"
      | _, _, _ => some "ERR parse"
    | ["between", md], [starts, dests] =>
      match d.graphInv, md.toNat?, nats starts, nats dests with
      | some gi, some md, some S, some T =>
        some (match findPathBetween d.graph gi S T md with
          | none => "assert"
          | some none => "none"
          | some (some r) => s!"found {r.start} ; {showNats r.edges}")
      | none, _, _, _ => some "ERR no-inverse"
      | _, _, _, _ => some "ERR parse"
    | ["findpath", me, md], [st] =>
      match d.graphInv, optNat me, optNat md, st.toNat? with
      | some gi, some me, some md, some st => some (showPathRes (findPath d.graph gi d.invMap d.central st me md))
      | none, _, _, _ => some "ERR no-inverse"
      | _, _, _, _ => some "ERR parse"
    | ["beam.simple", w, steps, rp], [st, ball, sel] =>
      match d.graphInv, w.toNat?, steps.toNat?, st.toNat?, parseNatLists sel with
      | some gi, some w, some steps, some st, some sel =>
        let ballL : Option (Option (List (List Int))) :=
          if ball == "noball" then some none else (parseLayers ball).map some
        match ballL with
        | some ballL =>
          let c : SimpleCfg Nat := { beamWidth := w, maxSteps := steps, returnPath := rp == "1", ball := ballL,
                                     select := fun i _ => sel.getD i [] }
          some (showBeam (beamSimple d.graph gi d.invMap d.central st c))
        | none => some "ERR parse"
      | none, _, _, _, _ => some "ERR no-inverse"
      | _, _, _, _, _ => some "ERR parse"
    | ["beam.adv", w, steps, depth], [st, dst, sel] =>
      match w.toNat?, steps.toNat?, depth.toNat?, st.toNat?, dst.toNat?, parseNatLists sel with
      | some w, some steps, some depth, some st, some dst, some sel =>
        let c : AdvCfg Nat := { beamWidth := w, maxSteps := steps, historyDepth := depth,
                                select := fun i _ => sel.getD (i - 1) [] }
        some (showBeam (beamAdvanced d.graph st dst c))
      | _, _, _, _, _, _ => some "ERR parse"
    | ["walks.classic", w, len], [st, draws] =>
      match w.toNat?, len.toNat?, st.toNat?, parseNatLists draws with
      | some w, some len, some st, some draws => some (showWalk (walksClassic d.graph w len st draws))
      | _, _, _, _ => some "ERR parse"
    | ["walks.bfs", w, len], [st, perms] =>
      match w.toNat?, len.toNat?, st.toNat?, parseNatLists perms with
      | some w, some len, some st, some perms => some (showWalk (walksBfs d.graph w len st perms))
      | _, _, _, _ => some "ERR parse"
    | ["walks.nbt", w, len, depth], [st, perms] =>
      match w.toNat?, len.toNat?, depth.toNat?, st.toNat?, parseNatLists perms with
      | some w, some len, some depth, some st, some perms => some (showWalk (walksNbt d.graph w len depth st perms))
      | _, _, _, _, _ => some "ERR parse"
    | ["export", maxDiam], [starts] =>
      match maxDiam.toNat?, nats starts with
      | some md, some S =>
        let c : BfsCfg Nat := { maxStore := none, maxDiameter := md, returnEdges := true, returnHashes := true }
        let r := bfs d.graph c S
        let st := match allStates r with | some l => showNats l | none => "none"
        let es := match edgesList r with
          | some l => " ".intercalate (l.map fun (p : Nat × Nat) => toString p.1 ++ "," ++ toString p.2)
          | none => "none"
        some s!"{if r.completed then 1 else 0} ; {st} ; {es}"
      | _, _ => some "ERR parse"
    | ["edgegen"], [a, b] =>
      match a.toNat?, b.toNat? with
      | some a, some b => some (match edgeGen d.graph a b with | some i => toString i | none => "none")
      | _, _ => some "ERR parse"
    | ["vname"], [st] => (ints st).map vertexName
    | ["bfs.numpy", md], [start] =>
      match md.toNat?, start.toNat?, d.invMap with
      | some md, some st, some im => some (showNats (bfsNumpy d.nGens d.act im st md))
      | _, _, none => some "ERR not-inverse-closed"
      | _, _, _ => some "ERR parse"
    | ["bfs.bitset", md], [start] =>
      match md.toNat?, start.toNat? with
      | some md, some st => some (showNats (bfsBitset d.graph.nb st md))
      | _, _ => some "ERR parse"
    | ["lexrank"], [p] => (nats p).map fun p => toString (lexRank p)
    | ["lexunrank", k], [avail] =>
      match k.toNat?, nats avail with
      | some k, some av => some (showNats (lexUnrank av.length av k))
      | _, _ => some "ERR parse"
    | ["ibfs", steps], [starts] =>
      match steps.toNat?, nats starts with
      | some steps, some S =>
        let b := (List.range steps).foldl (fun (acc : IBfs Nat × List Nat) _ =>
            let b' := acc.1.step d.graph
            (b', acc.2 ++ [b'.cur.length])) (IBfs.init d.graph S, [(IBfs.init d.graph S).cur.length])
        some (showNats b.2)
      | _, _ => some "ERR parse"
    | ["hamming"], [c, st] =>
      match ints c, ints st with
      | some c, some st => some (toString (hamming c st))
      | _, _ => some "ERR parse"
    | _, _ => none
  | [] => none

def natsOfInts (l : List Int) : List Nat := l.map Int.toNat

def showBfsOut (r : BfsOut Nat) : String :=
  let stored := " | ".intercalate (r.layers.map fun (p : Nat × List Nat) => toString p.1 ++ " : " ++ showNats p.2)
  let hs := " | ".intercalate (r.hashes.map fun h => showInts h)
  let es := match r.edges with
    | none => "none"
    | some e => " ".intercalate (e.map fun (p : Int × Int) => toString p.1 ++ "," ++ toString p.2)
  s!"{showNats r.layerSizes} ; {if r.completed then 1 else 0} ; {stored} ; {r.hashes.length} ; {hs} ; {es} ; {showNats r.cbTrace}"

/-- stop callback specifications the harness can also implement in Python:
`none`, `at k` (true at layer index k), `has s` (layer contains state s), `size k` (layer size ≥ k) -/
def parseStop (s : String) : Option (Option (Nat → List Nat → Bool)) :=
  match toks s with
  | ["none"] => some none
  | ["never"] => some (some fun _ _ => false)
  | ["at", k] => k.toNat?.map fun k => some fun i _ => i == k
  | ["has", x] => x.toNat?.map fun x => some fun _ l => l.contains x
  | ["size", k] => k.toNat?.map fun k => some fun _ l => decide (l.length ≥ k)
  | _ => none

def handle0 (d : DState) (line : String) : DState × String :=
  match secs line with
  | hd :: rest =>
    match toks hd, rest with
    | ["G", "perm", b, n], gens =>
      match b.toNat?, n.toNat?, gens.mapM nats with
      | some B, some n, some ps =>
        if ps.all (fun p => Perm.isPerm p && p.length == n) && !ps.isEmpty then
          let psA := ps.toArray
          let invs := (ps.map Perm.inverse).toArray
          let ic := (GraphDef.inverseMapPerm ps).isSome
          ({ d with B := B, n := n, nGens := ps.length,
                    act := fun i x => permAct B n (psA.getD i []) x,
                    actInv := some fun i x => permAct B n (invs.getD i []) x,
                    invClosed := ic, invMap := GraphDef.inverseMapPerm ps, tab := {} }, s!"ok {if ic then 1 else 0}")
        else (d, "ERR bad-generator")
      | _, _, _ => (d, "ERR parse")
    | ["G", "mat", b, n, m], gens =>
      -- sections: generator matrices, then the literal `INV` and candidate inverses (optional)
      match b.toNat?, n.toNat?, m.toNat? with
      | some B, some n, some m =>
        let (gs, is) := (gens.span (· ≠ "INV"))
        match gs.mapM nats, (is.drop 1).mapM nats with
        | some ms, some cands =>
          if ms.isEmpty || !(ms.all fun M => M.length == n * n) then (d, "ERR bad-generator") else
          let msA := (ms.map List.toArray).toArray
          let ic := (GraphDef.inverseMapMat B n ms).isSome
          let inv : Option (Nat → Nat → Nat) :=
            if cands.length == ms.length && (List.zip ms cands).all (fun p => Matrix.isInverse B n p.1 p.2) then
              let cA := (cands.map List.toArray).toArray
              some fun i x => matAct B n m (cA.getD i #[]) x
            else none
          ({ d with B := B, n := n * m, nGens := ms.length,
                    act := fun i x => matAct B n m (msA.getD i #[]) x,
                    actInv := inv, invClosed := ic, invMap := GraphDef.inverseMapMat B n ms, tab := {} },
           s!"ok {if ic then 1 else 0} {if inv.isSome then 1 else 0}")
        | _, _ => (d, "ERR parse")
      | _, _, _ => (d, "ERR parse")
    | ["H"], [pairs] =>
      match ints pairs with
      | some l =>
        let rec go (t : Std.HashMap Nat Int) : List Int → Std.HashMap Nat Int
          | a :: b :: rest => go (t.insert a.toNat b) rest
          | _ => t
        ({ d with tab := go {} l }, "ok")
      | none => (d, "ERR parse")
    | ["H.clear"], _ => ({ d with tab := {} }, "ok")
    | ["central", c], _ =>
      match c.toNat? with
      | some c => ({ d with central := c }, "ok")
      | none => (d, "ERR parse")
    | ["batch", k], _ =>
      match k.toNat? with
      | some k => ({ d with batch := k }, "ok")
      | none => (d, "ERR parse")
    | ["spec.layers", depth], [starts] =>
      match depth.toNat?, nats starts with
      | some depth, some S =>
        (d, showLL (refLayers d.graph.nb S depth))
      | _, _ => (d, "ERR parse")
    | ["spec.growth", depth, cap], [starts] =>
      match depth.toNat?, cap.toNat?, nats starts with
      | some depth, some cap, some S =>
        let r := refLayersCap d.graph.nb S depth cap
        let flag := match r.2 with | .exhausted => "exhausted" | .depth => "depth" | .capped => "capped"
        (d, s!"{showNats (r.1.map List.length)} ; {flag}")
      | _, _, _ => (d, "ERR parse")
    | ["spec.growthw", depth, cap, work], [starts] =>
      match depth.toNat?, cap.toNat?, work.toNat?, nats starts with
      | some depth, some cap, some work, some S =>
        let r := refLayersCapW d.graph.nb S depth d.nGens cap work
        let flag := match r.2 with | .exhausted => "exhausted" | .depth => "depth" | .capped => "capped"
        (d, s!"{showNats (r.1.map List.length)} ; {flag}")
      | _, _, _, _ => (d, "ERR parse")
    | ["bfs"], [starts, opts, stop] =>
      match nats starts, ints opts, parseStop stop with
      | some S, some [maxStore, maxExplore, maxDiam, edges, hashes, nobatch], some stop =>
        let c : BfsCfg Nat :=
          { maxStore := if maxStore < 0 then none else some maxStore.toNat,
            maxExplore := maxExplore.toNat, maxDiameter := maxDiam.toNat,
            returnEdges := edges != 0, returnHashes := hashes != 0, disableBatching := nobatch != 0,
            stop := stop }
        (d, showBfsOut (bfs d.graph c S))
      | _, _, _ => (d, "ERR parse")
    | _, _ => (d, "ERR unknown-op")
  | [] => (d, "ERR empty")


def optNat0 (s : String) : Option (Option Nat) :=
  if s == "-1" then some none else s.toNat?.map some

def wordsOf (s : String) : Option (List (BitVec 64)) := (nats s).map fun l => l.map (BitVec.ofNat 64)
def showWords (l : List (BitVec 64)) : String := showNats (l.map BitVec.toNat)

def showStmt (s : Codec.Stmt) : String :=
  s!"{s.src} {s.dst} {s.mask.toNat} {s.shl} {s.shr} {match s.post with | some m => toString m.toNat | none => "-"}"

def parseStmt (s : String) : Option Codec.Stmt :=
  match toks s with
  | [a, b, m, l, r, p] =>
    match a.toNat?, b.toNat?, m.toNat?, l.toNat?, r.toNat? with
    | some a, some b, some m, some l, some r =>
      let post : Option (Option (BitVec 64)) := if p == "-" then some none else p.toNat?.map fun v => some (BitVec.ofNat 64 v)
      post.map fun post => { src := a, dst := b, mask := BitVec.ofNat 64 m, shl := l, shr := r, post := post }
    | _, _, _, _, _ => none
  | _ => none

/-- kernel operations (codec, hash, permutation helpers): stateless -/
def handleKernel (line : String) : Option String :=
  match secs line with
  | hd :: rest =>
    match toks hd, rest with
    | ["enc", w, n], [s] =>
      match w.toNat?, n.toNat?, nats s with
      | some w, some n, some s =>
        if Codec.encodable w n s && decide (1 ≤ w) && decide (w ≤ 64) then some (showWords (Codec.encode w n s)) else some "ERR not-encodable"
      | _, _, _ => some "ERR parse"
    | ["dec", w, n], [e] =>
      match w.toNat?, n.toNat?, wordsOf e with
      | some w, some n, some e => some (showNats (Codec.decode w n e))
      | _, _, _ => some "ERR parse"
    | ["autowidth", m], _ => m.toNat?.map fun m => toString (Codec.autoWidth m)
    | ["prog.compile", w, n], [p] =>
      match w.toNat?, n.toNat?, nats p with
      | some w, some n, some p => some (" | ".intercalate ((Codec.compile p w n).map showStmt))
      | _, _, _ => some "ERR parse"
    | ["prog.check", w, n], p :: stmts =>
      match w.toNat?, n.toNat?, nats p, stmts.mapM parseStmt with
      | some w, some n, some p, some prog =>
        some (if Codec.checkProg prog p w n (Codec.encLen w n) then "1" else "0")
      | _, _, _, _ => some "ERR parse"
    | ["prog.eval", len], x :: stmts =>
      match len.toNat?, wordsOf x, stmts.mapM parseStmt with
      | some len, some x, some prog => some (showWords (Codec.evalProg prog len x))
      | _, _, _ => some "ERR parse"
    | ["prog.eval1d"], x :: stmts =>
      match wordsOf x, stmts.mapM parseStmt with
      | some [x], some prog => some (toString (Codec.evalProg1d prog x).toNat)
      | _, _ => some "ERR parse"
    | ["prog.spec", w, n], [p, x] =>
      match w.toNat?, n.toNat?, nats p, wordsOf x with
      | some w, some n, some p, some x => some (showWords (Codec.permuteBits p w n (Codec.encLen w n) x))
      | _, _, _, _ => some "ERR parse"
    | ["mat.apply", b, n, m], [M, S] =>
      match b.toNat?, n.toNat?, m.toNat?, nats M, nats S with
      | some B, some n, some m, some M, some S => some (showNats (Matrix.apply B n m M S))
      | _, _, _, _, _ => some "ERR parse"
    | ["mat.apply64", md, n, m], [M, S] =>
      -- int64 rendering of `apply_batch_torch` (products wrap, are reduced, the sum wraps, is reduced)
      match md.toNat?, n.toNat?, m.toNat?, ints M, ints S with
      | some md, some n, some m, some M, some S =>
        some (showInts (Cv.InstanceMat.matActInt64 { matrix := M, modulo := md } n m S))
      | _, _, _, _, _ => some "ERR parse"
    | ["mat.isinverse", b, n], [A, C] =>
      match b.toNat?, n.toNat?, nats A, nats C with
      | some B, some n, some A, some C => some (if Matrix.isInverse B n A C then "1" else "0")
      | _, _, _, _ => some "ERR parse"
    | ["permute"], [p, st] =>
      match nats p, nats st with
      | some p, some st => some (showNats (permuteList p st))
      | _, _ => some "ERR parse"
    | ["uniq.idx"], [hs] =>
      (ints hs).map fun hs =>
        let a := hs.toArray
        showNats (uniqueStates (fun i => a.getD i 0) (List.range hs.length))
    | ["isin"], [hay, vs] =>
      match ints hay, ints vs with
      | some hay, some vs => some (showNats (vs.map fun v => if isinSorted hay v then 1 else 0))
      | _, _ => some "ERR parse"
    | ["bm"], rest => some (BmReader.bmAnswer (" ; ".intercalate rest))
    | ["hset"], q :: batches =>
      match ints q, batches.mapM ints with
      | some q, some bs =>
        let s : HashSetM := bs.foldl HashSetM.addSorted {}
        some (" | ".intercalate (s.data.map showInts) ++ " ; " ++ showNats (q.map fun v => if s.unseen v then 1 else 0))
      | _, _ => some "ERR parse"
    | ["tsplit", k], [xs] =>
      match k.toNat?, nats xs with
      | some k, some xs => some (showLL (tensorSplit k xs))
      | _, _ => some "ERR parse"
    | ["def.invmap"], gens =>
      (gens.mapM nats).map fun ps => match GraphDef.inverseMapPerm ps with | some m => "some " ++ showNats m | none => "none"
    | ["def.create"], name :: names :: central :: gens =>
      match nats central, gens.mapM nats with
      | some c, some ps =>
        let nm := if names == "-" then none else some (toks names)
        let cs := if central == "-" then none else some c
        some (match GraphDef.PermDef.create ps nm cs name with
          | some d => s!"ok ; {d.name} ; {" ".intercalate d.names} ; {showNats d.central} ; {showLL d.gens}"
          | none => "ERR assert")
      | _, _ => some "ERR parse"
    | ["def.makeic"], name :: names :: central :: gens =>
      match nats central, gens.mapM nats with
      | some c, some ps =>
        some (match (GraphDef.PermDef.create ps (some (toks names)) (some c) name).bind (·.makeInverseClosed) with
          | some d => s!"ok ; {d.name} ; {" ".intercalate d.names} ; {showNats d.central} ; {showLL d.gens} ; {if d.inverseClosed then 1 else 0}"
          | none => "ERR assert")
      | _, _ => some "ERR parse"
    | ["def.inverted"], central :: gens =>
      match nats central, gens.mapM nats with
      | some c, some ps =>
        some (match (GraphDef.PermDef.create ps none (some c) "").bind (·.inverted) with
          | some d => s!"ok ; {d.name} ; {" ".intercalate d.names} ; {showNats d.central} ; {showLL d.gens}"
          | none => "ERR assert")
      | _, _ => some "ERR parse"
    | ["mat.inv", b, n], [A, cand] =>
      match b.toNat?, n.toNat?, nats A, nats cand with
      | some B, some n, some A, some cand => some (match Matrix.inv B n A cand with | some _ => "ok" | none => "fail")
      | _, _, _, _ => some "ERR parse"
    | ["mat.invmap", b, n], ms =>
      match b.toNat?, n.toNat?, ms.mapM nats with
      | some B, some n, some ms => some (match GraphDef.inverseMapMat B n ms with | some m => "some " ++ showNats m | none => "none")
      | _, _, _ => some "ERR parse"
    | ["save.layout", completed, n], [sizes, layerIdx, hashLens, edges, ngens] =>
      -- layout (keys and shapes) of the store `save` writes for a result with the given structure
      match n.toNat?, nats sizes, nats layerIdx, nats hashLens, ngens.toNat? with
      | some n, some sizes, some li, some hl, some ng =>
        let r : SaveLoad.Res :=
          { completed := completed == "1", layerSizes := sizes,
            layers := li.map (fun i => (i, List.replicate (sizes.getD i 0) (List.replicate n 0))),
            layersHashes := hl.map (fun k => List.replicate k 0),
            edges := if edges == "none" then none else (edges.toNat?.map fun k => List.replicate k (0, 0)),
            gens := List.replicate ng (List.range n), genNames := List.replicate ng "g",
            central := List.range n, name := "" }
        let showVal : SaveLoad.Val → String
          | .flag _ => "flag"
          | .ints sh _ => "ints" ++ toString sh
          | .strs l => "strs[" ++ toString l.length ++ "]"
          | .str _ => "str"
          | .emptyMarker => "empty"
        let st := SaveLoad.save r
        let rt := match SaveLoad.load st with | some r' => (if SaveLoad.beq r' r && SaveLoad.beq r r' && r' == r then "1" else "0") | none => "none"
        some (" ".intercalate (st.map fun (p : String × SaveLoad.Val) => p.1 ++ "=" ++ showVal p.2) ++ " ; " ++ rt)
      | _, _, _, _, _ => some "ERR parse"
    | ["family", fam], [args, flags] =>
      match nats args, nats flags with
      | some a, some f =>
        some (match Families.permFamily fam a (f.map (· != 0)) with
          | some d => s!"ok ; {d.name} ; {" | ".intercalate d.names} ; {showNats d.central} ; {showLL d.gens}"
          | none => "none")
      | _, _ => some "ERR parse"
    | ["matfamily", fam], [args, flags] =>
      match nats args, nats flags with
      | some a, some f =>
        some (match Families.matFamily fam a (f.map (· != 0)) with
          | some d => s!"ok ; {d.name} ; {" | ".intercalate d.names} ; {showInts d.central} ; {" | ".intercalate (d.gens.map showInts)} ; {d.n} {d.modulo}"
          | none => "none")
      | _, _ => some "ERR parse"
    | ["lookup", name, n, k], _ =>
      match n.toNat? with
      | some n =>
        let kk := if k == "-" then none else k.toNat?
        some (match Families.lookup name n kk with
          | some d => s!"ok ; {d.name} ; {" | ".intercalate d.names} ; {showNats d.central} ; {showLL d.gens}"
          | none => "none")
      | none => some "ERR parse"
    | ["enc.narrow", bits, sgn, w, n], [st] =>
      match bits.toNat?, w.toNat?, n.toNat?, nats st with
      | some bits, some w, some n, some st =>
        some (showWords (if sgn == "1" then Normalize.encodeNarrow bits w n st else Normalize.encodeNarrowU bits w n st))
      | _, _, _, _ => some "ERR parse"
    | ["session.key", me, md], _ =>
      match optNat0 me, optNat0 md with
      | some me, some md =>
        let k := Session.Limits.key { maxLayerSizeToExplore := me, maxDiameter := md }
        some s!"{k.1} {k.2}"
      | _, _ => some "ERR parse"
    | ["gap.parse", hex], _ =>
      -- the text arrives hex-encoded (UTF-8 bytes) so that it fits on one protocol line
      let cs := hex.toList
      let hv (c : Char) : Nat := if c.isDigit then c.toNat - 48 else c.toNat - 87
      let rec bytes : List Char → List UInt8
        | a :: b :: t => UInt8.ofNat (hv a * 16 + hv b) :: bytes t
        | _ => []
      match String.fromUTF8? (ByteArray.mk (bytes cs).toArray) with
      | some text =>
        some (match Gap.parseGap text with
          | some (gens, central) =>
            s!"ok ; {" | ".intercalate (gens.map (·.1))} ; {showLL (gens.map (·.2))} ; {showNats central}"
          | none => "none")
      | none => some "ERR utf8"
    | ["puzzle", kind], [args] =>
      match nats args with
      | some a =>
        let pz : Option Puzzles.Puzzle :=
          match kind, a with
          | "globe", [x, y] => some (Puzzles.globe x y)
          | "rings", [ls, li, rs, ri] => some (Puzzles.hungarianRings ls li rs ri)
          | "cube_qstm", [n] => some (Puzzles.cubeQstm n)
          | "cube_qtm", [n] => some (Puzzles.cubeQtm n)
          | "cube_htm", [n] => some (Puzzles.cubeHtm n)
          | _, _ => none
        some (match pz with
          | some p => s!"ok ; {" | ".intercalate p.names} ; {showLL p.gens} ; {showNats p.central}"
          | none => "none")
      | none => some "ERR parse"
    | ["hash.mix"], [x] => (wordsOf x).map fun l => showInts (l.map fun w => Hash.key (Hash.evalMix Gen.mixSteps w))
    | ["hash.comb", seed], rows =>
      match seed.toInt?, rows.mapM wordsOf with
      | some seed, some rows =>
        some (showInts (rows.map fun r => Hash.key (Hash.combine Gen.mixSteps Gen.combinerMul (BitVec.ofInt 64 seed) r)))
      | _, _ => some "ERR parse"
    | ["hash.dot"], vec :: rows =>
      match ints vec, rows.mapM ints with
      | some vec, some rows =>
        some (showInts (rows.map fun r => Hash.key (Hash.dot (vec.map (BitVec.ofInt 64)) (r.map (BitVec.ofInt 64)))))
      | _, _ => some "ERR parse"
    | ["hash.check"], _ => some (if Gen.fitsGrammar && Hash.checkMix Gen.mixSteps Gen.mixInvs then "1" else "0")
    | ["perm.inverse"], [p] => (nats p).map fun p => showNats (Perm.inverse p)
    | ["perm.compose"], [p, q] =>
      match nats p, nats q with
      | some p, some q => some (showNats (Perm.compose p q))
      | _, _ => some "ERR parse"
    | ["perm.isperm"], [p] => (nats p).map fun p => if Perm.isPerm p then "1" else "0"
    | ["perm.transposition", n, i, j], _ =>
      match n.toNat?, i.toNat?, j.toNat? with
      | some n, some i, some j => some (match Perm.transposition n i j with | some p => showNats p | none => "ERR assert")
      | _, _, _ => some "ERR parse"
    | ["perm.fromcycles", n, off], cycles =>
      match n.toNat?, off.toInt?, cycles.mapM ints with
      | some n, some off, some cs => some (match Perm.fromCycles n cs off with | some p => showNats p | none => "ERR assert")
      | _, _, _ => some "ERR parse"
    | ["perm.cyclelens", n], [lens] =>
      match n.toNat?, nats lens with
      | some n, some lens =>
        some (match Perm.permutationsWithCycleLengths n lens with
          | some ps => showLL ps
          | none => "ERR assert")
      | _, _ => some "ERR parse"
    | ["perm.partition"], [lens, els] =>
      match nats lens, nats els with
      | some lens, some els => some (showNats (Perm.partitionToPermutation lens els))
      | _, _ => some "ERR parse"
    | ["perm.cycletype"], [p] => (nats p).map fun p => showNats (Perm.cycleType p)
    | _, _ => none
  | [] => none

def handle (d : DState) (line : String) : DState × String :=
  match handleKernel line with
  | some r => (d, r)
  | none =>
    match handleAlgo d line with
    | some r => (d, r)
    | none => handle0 d line

partial def loop (h : IO.FS.Stream) (out : IO.FS.Stream) (d : DState) : IO Unit := do
  let line ← h.getLine
  if line.isEmpty then return ()
  let (d', o) := handle d line.trimAscii.toString
  out.putStrLn o
  out.flush
  loop h out d'

def main : IO Unit := do loop (← IO.getStdin) (← IO.getStdout) {}
