/- REGENERATED from /repo on every run by harness/extract/pylean.py — do not edit. -/
import CvModel.PyPrelude
import CvGen.PyPerm
import CvGen.PyFamilies
import CvGen.PyGlobe
import CvGen.PyRings
import CvGen.PyGraphDef

namespace Cv.PyGen
open Cv.Py

class ShowRes (α : Type) where
  render : α → String
class ShowFlat (α : Type) where
  flat : α → String
instance : ShowRes Int := ⟨fun i => toString i⟩
instance : ShowRes Bool := ⟨fun b => if b then "True" else "False"⟩
instance : ShowRes String := ⟨fun s => "'" ++ s ++ "'"⟩
instance {α : Type} [ShowRes α] : ShowRes (List α) := ⟨fun l => "[" ++ ", ".intercalate (l.map ShowRes.render) ++ "]"⟩
instance {α : Type} [ShowRes α] : ShowRes (Option α) := ⟨fun o => match o with | some a => ShowRes.render a | none => "None"⟩
instance (priority := low) {α : Type} [ShowRes α] : ShowFlat α := ⟨ShowRes.render⟩
instance {α β : Type} [ShowRes α] [ShowFlat β] : ShowFlat (α × β) := ⟨fun p => ShowRes.render p.1 ++ ", " ++ ShowFlat.flat p.2⟩
instance {α β : Type} [ShowRes α] [ShowFlat β] : ShowRes (α × β) := ⟨fun p => "(" ++ ShowRes.render p.1 ++ ", " ++ ShowFlat.flat p.2 ++ ")"⟩
instance : ShowRes RawDef := ⟨fun d => "create(" ++ ShowRes.render d.gens ++ ", " ++ ShowRes.render d.names ++ ", " ++
  ShowRes.render d.central ++ ", " ++ ShowRes.render d.name ++ ")"⟩
def showRes {α : Type} [ShowRes α] : Option α → String
  | some a => "ok ; " ++ ShowRes.render a
  | none => "none"

def dispatch (fn : String) (args : List (List Int)) : String :=
  match fn, args with
  | "Perm.identity_perm", (a0 :: _) :: [] => showRes (Cv.PyGen.Perm.identity_perm a0)
  | "Perm.apply_permutation", a0 :: a1 :: [] => showRes (Cv.PyGen.Perm.apply_permutation a0 a1)
  | "Perm.compose_permutations", a0 :: a1 :: [] => showRes (Cv.PyGen.Perm.compose_permutations a0 a1)
  | "Perm.inverse_permutation", a0 :: [] => showRes (Cv.PyGen.Perm.inverse_permutation a0)
  | "Perm.is_permutation", a0 :: [] => showRes (Cv.PyGen.Perm.is_permutation a0)
  | "Perm.transposition", (a0 :: _) :: (a1 :: _) :: (a2 :: _) :: [] => showRes (Cv.PyGen.Perm.transposition a0 a1 a2)
  | "Perm.permutation_from_cycles", (a0 :: _) :: (a1 :: _) :: rest => showRes (Cv.PyGen.Perm.permutation_from_cycles a0 rest a1)
  | "Fam._create_coxeter_generators", (a0 :: _) :: [] => showRes (Cv.PyGen.Fam._create_coxeter_generators a0)
  | "Fam.all_transpositions", (a0 :: _) :: [] => showRes (Cv.PyGen.Fam.all_transpositions a0)
  | "Fam.transposons", (a0 :: _) :: [] => showRes (Cv.PyGen.Fam.transposons a0)
  | "Fam.block_interchange", (a0 :: _) :: [] => showRes (Cv.PyGen.Fam.block_interchange a0)
  | "Fam.full_reversals", (a0 :: _) :: [] => showRes (Cv.PyGen.Fam.full_reversals a0)
  | "Fam.signed_reversals", (a0 :: _) :: [] => showRes (Cv.PyGen.Fam.signed_reversals a0)
  | "Fam.lrx", (a0 :: _) :: (a1 :: _) :: [] => showRes (Cv.PyGen.Fam.lrx a0 a1)
  | "Fam.lx", (a0 :: _) :: [] => showRes (Cv.PyGen.Fam.lx a0)
  | "Fam.top_spin", (a0 :: _) :: (a1 :: _) :: [] => showRes (Cv.PyGen.Fam.top_spin a0 a1)
  | "Fam.coxeter", (a0 :: _) :: [] => showRes (Cv.PyGen.Fam.coxeter a0)
  | "Fam.cyclic_coxeter", (a0 :: _) :: [] => showRes (Cv.PyGen.Fam.cyclic_coxeter a0)
  | "Fam.pancake", (a0 :: _) :: [] => showRes (Cv.PyGen.Fam.pancake a0)
  | "Fam.cubic_pancake", (a0 :: _) :: (a1 :: _) :: [] => showRes (Cv.PyGen.Fam.cubic_pancake a0 a1)
  | "Fam.burnt_pancake", (a0 :: _) :: [] => showRes (Cv.PyGen.Fam.burnt_pancake a0)
  | "Fam.three_cycles", (a0 :: _) :: [] => showRes (Cv.PyGen.Fam.three_cycles a0)
  | "Fam.three_cycles_0ij", (a0 :: _) :: [] => showRes (Cv.PyGen.Fam.three_cycles_0ij a0)
  | "Fam.three_cycles_01i", (a0 :: _) :: (a1 :: _) :: [] => showRes (Cv.PyGen.Fam.three_cycles_01i a0 (a1 != 0))
  | "Fam.derangements", (a0 :: _) :: [] => showRes (Cv.PyGen.Fam.derangements a0)
  | "Fam.stars", (a0 :: _) :: [] => showRes (Cv.PyGen.Fam.stars a0)
  | "Fam.generalized_stars", (a0 :: _) :: (a1 :: _) :: [] => showRes (Cv.PyGen.Fam.generalized_stars a0 a1)
  | "Fam.rapaport_m1", (a0 :: _) :: [] => showRes (Cv.PyGen.Fam.rapaport_m1 a0)
  | "Fam.rapaport_m2", (a0 :: _) :: [] => showRes (Cv.PyGen.Fam.rapaport_m2 a0)
  | "Fam.all_cycles", (a0 :: _) :: [] => showRes (Cv.PyGen.Fam.all_cycles a0)
  | "Fam.lsl_cycles", (a0 :: _) :: (a1 :: _) :: [] => showRes (Cv.PyGen.Fam.lsl_cycles a0 (a1 != 0))
  | "Fam.wrapped_k_cycles", (a0 :: _) :: (a1 :: _) :: [] => showRes (Cv.PyGen.Fam.wrapped_k_cycles a0 a1)
  | "Fam.larx", (a0 :: _) :: [] => showRes (Cv.PyGen.Fam.larx a0)
  | "Fam.increasing_k_cycles", (a0 :: _) :: (a1 :: _) :: [] => showRes (Cv.PyGen.Fam.increasing_k_cycles a0 a1)
  | "Fam.sheveleva2", (a0 :: _) :: (a1 :: _) :: [] => showRes (Cv.PyGen.Fam.sheveleva2 a0 a1)
  | "Fam.koltsov3", (a0 :: _) :: (a1 :: _) :: (a2 :: _) :: (a3 :: _) :: [] => showRes (Cv.PyGen.Fam.koltsov3 a0 a1 a2 a3)
  | "Fam.consecutive_k_cycles", (a0 :: _) :: (a1 :: _) :: [] => showRes (Cv.PyGen.Fam.consecutive_k_cycles a0 a1)
  | "Fam.down_cycles", (a0 :: _) :: [] => showRes (Cv.PyGen.Fam.down_cycles a0)
  | "Fam.prefix_cycles", (a0 :: _) :: [] => showRes (Cv.PyGen.Fam.prefix_cycles a0)
  | "Globe.help_cyclic", (a0 :: _) :: (a1 :: _) :: (a2 :: _) :: [] => showRes (Cv.PyGen.Globe.help_cyclic a0 a1 a2)
  | "Globe.globe_gens", (a0 :: _) :: (a1 :: _) :: [] => showRes (Cv.PyGen.Globe.globe_gens a0 a1)
  | "Globe.globe_puzzle", (a0 :: _) :: (a1 :: _) :: [] => showRes (Cv.PyGen.Globe.globe_puzzle a0 a1)
  | "Rings._circular_shift", a0 :: (a1 :: _) :: [] => showRes (Cv.PyGen.Rings._circular_shift a0 a1)
  | "Rings._get_intersections", (a0 :: _) :: (a1 :: _) :: [] => showRes (Cv.PyGen.Rings._get_intersections a0 a1)
  | "Rings._create_right_ring", (a0 :: _) :: (a1 :: _) :: (a2 :: _) :: (a3 :: _) :: (a4 :: _) :: [] => showRes (Cv.PyGen.Rings._create_right_ring a0 a1 a2 a3 a4)
  | "Rings.hungarian_rings_permutations", (a0 :: _) :: (a1 :: _) :: (a2 :: _) :: (a3 :: _) :: (a4 :: _) :: [] => showRes (Cv.PyGen.Rings.hungarian_rings_permutations a0 a1 a2 a3 a4)
  | "Rings.get_santa_parameters_from_n", (a0 :: _) :: [] => showRes (Cv.PyGen.Rings.get_santa_parameters_from_n a0)
  | "Rings.get_pair_variants", (a0 :: _) :: (a1 :: _) :: [] => showRes (Cv.PyGen.Rings.get_pair_variants a0 a1)
  | "Rings.hungarian_rings_generators", (a0 :: _) :: (a1 :: _) :: (a2 :: _) :: (a3 :: _) :: [] => showRes (Cv.PyGen.Rings.hungarian_rings_generators a0 a1 a2 a3)
  | "Rings.get_group", (a0 :: _) :: [] => showRes (Cv.PyGen.Rings.get_group a0)
  | "GraphDef.generators_inverse_map", rest => showRes (Cv.PyGen.GraphDef.generators_inverse_map rest)
  | "GraphDef.with_inverted_generators", a0 :: rest => showRes (Cv.PyGen.GraphDef.with_inverted_generators rest a0)
  | "GraphDef.make_inverse_closed", a0 :: a1 :: a2 :: (a3 :: _) :: rest => showRes (Cv.PyGen.GraphDef.make_inverse_closed rest (a0.map fun i => "n" ++ toString i) a1 (match a2 with | [] => "" | i :: _ => "s" ++ toString i) (a3 != 0))
  | "GraphDef.revert_path", a0 :: a1 :: [] => showRes (Cv.PyGen.GraphDef.revert_path (match a0 with | 1 :: xs => some xs | _ => none) a1)
  | _, _ => "ERR pygen"

end Cv.PyGen
