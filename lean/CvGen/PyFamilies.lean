/- REGENERATED from /repo on every run by harness/extract/pylean.py — do not edit. -/
import CvModel.PyPrelude
import CvGen.PyPerm

namespace Cv.PyGen.Fam
open Cv.Py

/-- translated from `graphs_lib.py:_create_coxeter_generators` -/
def _create_coxeter_generators (n : Int) : Option (List (List Int)) := do
  let t_2 ← List.mapM (fun k => do let t_1 ← Cv.PyGen.Perm.transposition n k (k + (1 : Int)); pure t_1) (pyRange (0 : Int) (n - (1 : Int)) (1 : Int))
  pure t_2

/-- translated from `graphs_lib.py:all_transpositions` -/
def all_transpositions (n : Int) : Option (RawDef) := do
  pyAssert (decide (n ≥ (2 : Int)))
  let generators : List (List Int) := []
  let generator_names : List String := []
  let st ← List.foldlM (fun (st : (List (List Int)) × (List String)) (i : Int) => do
      let generators := st.1
      let generator_names := st.2
      let st ← List.foldlM (fun (st : (List (List Int)) × (List String)) (j : Int) => do
          let generators := st.1
          let generator_names := st.2
          let t_1 ← Cv.PyGen.Perm.transposition n i j
          let generators := generators ++ [t_1]
          let generator_names := generator_names ++ [("(" ++ pyStr i ++ "," ++ pyStr j ++ ")")]
          pure (generators, generator_names)
          ) (generators, generator_names) (pyRange (i + (1 : Int)) n (1 : Int))
      let generators := st.1
      let generator_names := st.2
      pure (generators, generator_names)
      ) (generators, generator_names) (pyRange (0 : Int) n (1 : Int))
  let generators := st.1
  let generator_names := st.2
  pure (RawDef.mk generators (some (pyRange (0 : Int) n (1 : Int))) (some generator_names) none)

/-- translated from `graphs_lib.py:transposons` -/
def transposons (n : Int) : Option (RawDef) := do
  pyAssert (decide (n ≥ (2 : Int)))
  let generators : List (List Int) := []
  let generator_names : List String := []
  let st ← List.foldlM (fun (st : (List (List Int)) × (List String)) (i : Int) => do
      let generators := st.1
      let generator_names := st.2
      let st ← List.foldlM (fun (st : (List (List Int)) × (List String)) (j : Int) => do
          let generators := st.1
          let generator_names := st.2
          let st ← List.foldlM (fun (st : (List (List Int)) × (List String)) (k : Int) => do
              let generators := st.1
              let generator_names := st.2
              let transp : List Int := ((((pyRange (0 : Int) i (1 : Int)) ++ (pyRange j (k + (1 : Int)) (1 : Int))) ++ (pyRange i j (1 : Int))) ++ (pyRange (k + (1 : Int)) n (1 : Int)))
              let generators := generators ++ [transp]
              let generator_names := generator_names ++ [("T[" ++ pyStr i ++ ".." ++ pyStr (j - (1 : Int)) ++ "," ++ pyStr k ++ "]")]
              pure (generators, generator_names)
              ) (generators, generator_names) (pyRange j n (1 : Int))
          let generators := st.1
          let generator_names := st.2
          pure (generators, generator_names)
          ) (generators, generator_names) (pyRange (i + (1 : Int)) n (1 : Int))
      let generators := st.1
      let generator_names := st.2
      pure (generators, generator_names)
      ) (generators, generator_names) (pyRange (0 : Int) n (1 : Int))
  let generators := st.1
  let generator_names := st.2
  pure (RawDef.mk generators (some (pyRange (0 : Int) n (1 : Int))) (some generator_names) none)

/-- translated from `graphs_lib.py:block_interchange` -/
def block_interchange (n : Int) : Option (RawDef) := do
  pyAssert (decide (n ≥ (2 : Int)))
  let generators : List (List Int) := []
  let generator_names : List String := []
  let st ← List.foldlM (fun (st : (List (List Int)) × (List String)) (i : Int) => do
      let generators := st.1
      let generator_names := st.2
      let st ← List.foldlM (fun (st : (List (List Int)) × (List String)) (j : Int) => do
          let generators := st.1
          let generator_names := st.2
          let st ← List.foldlM (fun (st : (List (List Int)) × (List String)) (k : Int) => do
              let generators := st.1
              let generator_names := st.2
              let st ← List.foldlM (fun (st : (List (List Int)) × (List String)) (l : Int) => do
                  let generators := st.1
                  let generator_names := st.2
                  let transp : List Int := (((((pyRange (0 : Int) i (1 : Int)) ++ (pyRange k l (1 : Int))) ++ (pyRange j k (1 : Int))) ++ (pyRange i j (1 : Int))) ++ (pyRange l n (1 : Int)))
                  let generators := generators ++ [transp]
                  let generator_names := generator_names ++ [("I[" ++ pyStr i ++ ".." ++ pyStr (j - (1 : Int)) ++ "," ++ pyStr k ++ ".." ++ pyStr (l - (1 : Int)) ++ "]")]
                  pure (generators, generator_names)
                  ) (generators, generator_names) (pyRange (k + (1 : Int)) (n + (1 : Int)) (1 : Int))
              let generators := st.1
              let generator_names := st.2
              pure (generators, generator_names)
              ) (generators, generator_names) (pyRange j n (1 : Int))
          let generators := st.1
          let generator_names := st.2
          pure (generators, generator_names)
          ) (generators, generator_names) (pyRange (i + (1 : Int)) n (1 : Int))
      let generators := st.1
      let generator_names := st.2
      pure (generators, generator_names)
      ) (generators, generator_names) (pyRange (0 : Int) n (1 : Int))
  let generators := st.1
  let generator_names := st.2
  pure (RawDef.mk generators (some (pyRange (0 : Int) n (1 : Int))) (some generator_names) none)

/-- translated from `graphs_lib.py:full_reversals` -/
def full_reversals (n : Int) : Option (RawDef) := do
  pyAssert (decide (n ≥ (2 : Int)))
  let generators : List (List Int) := []
  let generator_names : List String := []
  let st ← List.foldlM (fun (st : (List (List Int)) × (List String)) (i : Int) => do
      let generators := st.1
      let generator_names := st.2
      let st ← List.foldlM (fun (st : (List (List Int)) × (List String)) (j : Int) => do
          let generators := st.1
          let generator_names := st.2
          let perm : List Int := (((pyRange (0 : Int) i (1 : Int)) ++ (pyRange j (i - (1 : Int)) (-(1 : Int)))) ++ (pyRange (j + (1 : Int)) n (1 : Int)))
          let generators := generators ++ [perm]
          let generator_names := generator_names ++ [("R[" ++ pyStr i ++ ".." ++ pyStr j ++ "]")]
          pure (generators, generator_names)
          ) (generators, generator_names) (pyRange (i + (1 : Int)) n (1 : Int))
      let generators := st.1
      let generator_names := st.2
      pure (generators, generator_names)
      ) (generators, generator_names) (pyRange (0 : Int) n (1 : Int))
  let generators := st.1
  let generator_names := st.2
  pure (RawDef.mk generators (some (pyRange (0 : Int) n (1 : Int))) (some generator_names) none)

/-- translated from `graphs_lib.py:signed_reversals` -/
def signed_reversals (n : Int) : Option (RawDef) := do
  pyAssert (decide (n ≥ (1 : Int)))
  let generators : List (List Int) := []
  let generator_names : List String := []
  let st ← List.foldlM (fun (st : (List (List Int)) × (List String)) (i : Int) => do
      let generators := st.1
      let generator_names := st.2
      let st ← List.foldlM (fun (st : (List (List Int)) × (List String)) (j : Int) => do
          let generators := st.1
          let generator_names := st.2
          let perm : List Int := []
          let perm : List Int := (perm ++ (pyRange (0 : Int) i (1 : Int)))
          let perm : List Int := (perm ++ (pyRange (n + j) ((n + i) - (1 : Int)) (-(1 : Int))))
          let perm : List Int := (perm ++ (pyRange (j + (1 : Int)) n (1 : Int)))
          let perm : List Int := (perm ++ (pyRange n (n + i) (1 : Int)))
          let perm : List Int := (perm ++ (pyRange j (i - (1 : Int)) (-(1 : Int))))
          let perm : List Int := (perm ++ (pyRange ((n + j) + (1 : Int)) (n + n) (1 : Int)))
          let generators := generators ++ [perm]
          let generator_names := generator_names ++ [("R[" ++ pyStr i ++ ".." ++ pyStr j ++ "]")]
          pure (generators, generator_names)
          ) (generators, generator_names) (pyRange i n (1 : Int))
      let generators := st.1
      let generator_names := st.2
      pure (generators, generator_names)
      ) (generators, generator_names) (pyRange (0 : Int) n (1 : Int))
  let generators := st.1
  let generator_names := st.2
  pure (RawDef.mk generators (some (pyRange (0 : Int) ((2 : Int) * n) (1 : Int))) (some generator_names) none)

/-- default value of `lrx(k=…)` in the source -/
def lrx_default_k : Int := (1 : Int)
/-- translated from `graphs_lib.py:lrx` -/
def lrx (n : Int) (k : Int) : Option (RawDef) := do
  pyAssert (decide (n ≥ (3 : Int)))
  let t_1 ← Cv.PyGen.Perm.transposition n (0 : Int) k
  let generators : List (List Int) := [((pyRange (1 : Int) n (1 : Int)) ++ [(0 : Int)]), ([(n - (1 : Int))] ++ (pyRange (0 : Int) (n - (1 : Int)) (1 : Int))), t_1]
  let generator_names : List String := ["L", "R", "X"]
  let name : String := ("lrx-" ++ pyStr n)
  let st : String ← (if ((k != (1 : Int))) then do
      let name : String := (name ++ ("(k=" ++ pyStr k ++ ")"))
      pure name
    else do
      pure name
    )
  let name := st
  pure (RawDef.mk generators (some (pyRange (0 : Int) n (1 : Int))) (some generator_names) (some name))

/-- translated from `graphs_lib.py:lx` -/
def lx (n : Int) : Option (RawDef) := do
  pyAssert (decide (n ≥ (3 : Int)))
  let t_1 ← Cv.PyGen.Perm.transposition n (0 : Int) (1 : Int)
  let generators : List (List Int) := [((pyRange (1 : Int) n (1 : Int)) ++ [(0 : Int)]), t_1]
  let generator_names : List String := ["L", "X"]
  pure (RawDef.mk generators (some (pyRange (0 : Int) n (1 : Int))) (some generator_names) (some ("lx-" ++ pyStr n)))

/-- default value of `top_spin(k=…)` in the source -/
def top_spin_default_k : Int := (4 : Int)
/-- translated from `graphs_lib.py:top_spin` -/
def top_spin (n : Int) (k : Int) : Option (RawDef) := do
  pyAssert (decide (n ≥ k) && decide (k ≥ (2 : Int)))
  let generators : List (List Int) := [((pyRange (1 : Int) n (1 : Int)) ++ [(0 : Int)]), ([(n - (1 : Int))] ++ (pyRange (0 : Int) (n - (1 : Int)) (1 : Int))), ((pyRange (k - (1 : Int)) (-(1 : Int)) (-(1 : Int))) ++ (pyRange k n (1 : Int)))]
  let name : String := ("top_spin-" ++ pyStr n ++ "-" ++ pyStr k)
  pure (RawDef.mk generators (some (pyRange (0 : Int) n (1 : Int))) none (some name))

/-- translated from `graphs_lib.py:coxeter` -/
def coxeter (n : Int) : Option (RawDef) := do
  pyAssert (decide (n ≥ (2 : Int)))
  let t_1 ← Cv.PyGen.Fam._create_coxeter_generators n
  let generators : List (List Int) := t_1
  let generator_names : List String := (List.map (fun i => ("(" ++ pyStr i ++ "," ++ pyStr (i + (1 : Int)) ++ ")")) (pyRange (0 : Int) (n - (1 : Int)) (1 : Int)))
  let central_state : List Int := (pyRange (0 : Int) n (1 : Int))
  let name : String := ("coxeter-" ++ pyStr n)
  pure (RawDef.mk generators (some central_state) (some generator_names) (some name))

/-- translated from `graphs_lib.py:cyclic_coxeter` -/
def cyclic_coxeter (n : Int) : Option (RawDef) := do
  pyAssert (decide (n ≥ (2 : Int)))
  let t_1 ← Cv.PyGen.Fam._create_coxeter_generators n
  let t_2 ← Cv.PyGen.Perm.transposition n (0 : Int) (n - (1 : Int))
  let generators : List (List Int) := (t_1 ++ [t_2])
  let generator_names : List String := ((List.map (fun i => ("(" ++ pyStr i ++ "," ++ pyStr (i + (1 : Int)) ++ ")")) (pyRange (0 : Int) (n - (1 : Int)) (1 : Int))) ++ [("(0," ++ pyStr (n - (1 : Int)) ++ ")")])
  let central_state : List Int := (pyRange (0 : Int) n (1 : Int))
  let name : String := ("cyclic_coxeter-" ++ pyStr n)
  pure (RawDef.mk generators (some central_state) (some generator_names) (some name))

/-- translated from `graphs_lib.py:pancake` -/
def pancake (n : Int) : Option (RawDef) := do
  pyAssert (decide (n ≥ (2 : Int)))
  let generators : List (List Int) := []
  let generator_names : List String := []
  let st ← List.foldlM (fun (st : (List (List Int)) × (List String)) (prefix_len : Int) => do
      let generators := st.1
      let generator_names := st.2
      let perm : List Int := ((pyRange (prefix_len - (1 : Int)) (-(1 : Int)) (-(1 : Int))) ++ (pyRange prefix_len n (1 : Int)))
      let generators := generators ++ [perm]
      let generator_names := generator_names ++ [("R" ++ (pyStr (prefix_len - (1 : Int))))]
      pure (generators, generator_names)
      ) (generators, generator_names) (pyRange (2 : Int) (n + (1 : Int)) (1 : Int))
  let generators := st.1
  let generator_names := st.2
  let name : String := ("pancake-" ++ pyStr n)
  pure (RawDef.mk generators (some (pyRange (0 : Int) n (1 : Int))) (some generator_names) (some name))

def cubic_pancake_pancake_generator (k : Int) (n : Int) : Option (List Int) := do
  pure ((pyRange (k - (1 : Int)) (-(1 : Int)) (-(1 : Int))) ++ (pyRange k n (1 : Int)))

/-- translated from `graphs_lib.py:cubic_pancake` -/
def cubic_pancake (n : Int) (subset : Int) : Option (RawDef) := do
  pyAssert (decide (n ≥ (2 : Int)))
  pyAssert ((List.contains [(1 : Int), (2 : Int), (3 : Int), (4 : Int), (5 : Int), (6 : Int), (7 : Int)] subset))
  let generators : List (List Int) := []
  let generator_names : List String := []
  let st : (List (List Int)) × (List String) ← (if ((subset == (1 : Int))) then do
      let t_1 ← cubic_pancake_pancake_generator n n
      let t_2 ← cubic_pancake_pancake_generator (n - (1 : Int)) n
      let t_3 ← cubic_pancake_pancake_generator (2 : Int) n
      let generators : List (List Int) := [t_1, t_2, t_3]
      let generator_names : List String := [("R" ++ pyStr n), ("R" ++ pyStr (n - (1 : Int))), "R2"]
      pure (generators, generator_names)
    else do
      let st : (List (List Int)) × (List String) ← (if ((subset == (2 : Int))) then do
          let t_4 ← cubic_pancake_pancake_generator n n
          let t_5 ← cubic_pancake_pancake_generator (n - (1 : Int)) n
          let t_6 ← cubic_pancake_pancake_generator (3 : Int) n
          let generators : List (List Int) := [t_4, t_5, t_6]
          let generator_names : List String := [("R" ++ pyStr n), ("R" ++ pyStr (n - (1 : Int))), "R3"]
          pure (generators, generator_names)
        else do
          let st : (List (List Int)) × (List String) ← (if ((subset == (3 : Int))) then do
              let t_7 ← cubic_pancake_pancake_generator n n
              let t_8 ← cubic_pancake_pancake_generator (n - (1 : Int)) n
              let t_9 ← cubic_pancake_pancake_generator (n - (2 : Int)) n
              let generators : List (List Int) := [t_7, t_8, t_9]
              let generator_names : List String := [("R" ++ pyStr n), ("R" ++ pyStr (n - (1 : Int))), ("R" ++ pyStr (n - (2 : Int)))]
              pure (generators, generator_names)
            else do
              let st : (List (List Int)) × (List String) ← (if ((subset == (4 : Int))) then do
                  let t_10 ← cubic_pancake_pancake_generator n n
                  let t_11 ← cubic_pancake_pancake_generator (n - (1 : Int)) n
                  let t_12 ← cubic_pancake_pancake_generator (n - (3 : Int)) n
                  let generators : List (List Int) := [t_10, t_11, t_12]
                  let generator_names : List String := [("R" ++ pyStr n), ("R" ++ pyStr (n - (1 : Int))), ("R" ++ pyStr (n - (3 : Int)))]
                  pure (generators, generator_names)
                else do
                  let st : (List (List Int)) × (List String) ← (if ((subset == (5 : Int))) then do
                      let t_13 ← cubic_pancake_pancake_generator n n
                      let t_14 ← cubic_pancake_pancake_generator (n - (2 : Int)) n
                      let t_15 ← cubic_pancake_pancake_generator (2 : Int) n
                      let generators : List (List Int) := [t_13, t_14, t_15]
                      let generator_names : List String := [("R" ++ pyStr n), ("R" ++ pyStr (n - (2 : Int))), "R2"]
                      pure (generators, generator_names)
                    else do
                      let st : (List (List Int)) × (List String) ← (if ((subset == (6 : Int))) then do
                          let t_16 ← cubic_pancake_pancake_generator n n
                          let t_17 ← cubic_pancake_pancake_generator (n - (2 : Int)) n
                          let t_18 ← cubic_pancake_pancake_generator (3 : Int) n
                          let generators : List (List Int) := [t_16, t_17, t_18]
                          let generator_names : List String := [("R" ++ pyStr n), ("R" ++ pyStr (n - (2 : Int))), "R3"]
                          pure (generators, generator_names)
                        else do
                          let st : (List (List Int)) × (List String) ← (if ((subset == (7 : Int))) then do
                              let t_19 ← cubic_pancake_pancake_generator n n
                              let t_20 ← cubic_pancake_pancake_generator (n - (2 : Int)) n
                              let t_21 ← cubic_pancake_pancake_generator (n - (3 : Int)) n
                              let generators : List (List Int) := [t_19, t_20, t_21]
                              let generator_names : List String := [("R" ++ pyStr n), ("R" ++ pyStr (n - (2 : Int))), ("R" ++ pyStr (n - (3 : Int)))]
                              pure (generators, generator_names)
                            else do
                              pure (generators, generator_names)
                            )
                          let generators := st.1
                          let generator_names := st.2
                          pure (generators, generator_names)
                        )
                      let generators := st.1
                      let generator_names := st.2
                      pure (generators, generator_names)
                    )
                  let generators := st.1
                  let generator_names := st.2
                  pure (generators, generator_names)
                )
              let generators := st.1
              let generator_names := st.2
              pure (generators, generator_names)
            )
          let generators := st.1
          let generator_names := st.2
          pure (generators, generator_names)
        )
      let generators := st.1
      let generator_names := st.2
      pure (generators, generator_names)
    )
  let generators := st.1
  let generator_names := st.2
  let name : String := ("cubic_pancake-" ++ pyStr n ++ "-" ++ pyStr subset)
  pure (RawDef.mk generators (some (pyRange (0 : Int) n (1 : Int))) (some generator_names) (some name))

/-- translated from `graphs_lib.py:burnt_pancake` -/
def burnt_pancake (n : Int) : Option (RawDef) := do
  pyAssert (decide (n ≥ (1 : Int)))
  let generators : List (List Int) := []
  let generator_names : List String := []
  let st ← List.foldlM (fun (st : (List (List Int)) × (List String)) (prefix_len : Int) => do
      let generators := st.1
      let generator_names := st.2
      let perm : List Int := []
      let perm : List Int := (perm ++ (pyRange (n + prefix_len) (n - (1 : Int)) (-(1 : Int))))
      let perm : List Int := (perm ++ (pyRange (prefix_len + (1 : Int)) n (1 : Int)))
      let perm : List Int := (perm ++ (pyRange prefix_len (-(1 : Int)) (-(1 : Int))))
      let perm : List Int := (perm ++ (pyRange ((n + prefix_len) + (1 : Int)) ((2 : Int) * n) (1 : Int)))
      let generators := generators ++ [perm]
      let generator_names := generator_names ++ [("R" ++ (pyStr (prefix_len + (1 : Int))))]
      pure (generators, generator_names)
      ) (generators, generator_names) (pyRange (0 : Int) n (1 : Int))
  let generators := st.1
  let generator_names := st.2
  let name : String := ("burnt_pancake-" ++ pyStr n)
  pure (RawDef.mk generators (some (pyRange (0 : Int) ((2 : Int) * n) (1 : Int))) (some generator_names) (some name))

/-- translated from `graphs_lib.py:three_cycles` -/
def three_cycles (n : Int) : Option (RawDef) := do
  pyAssert (decide (n ≥ (3 : Int)))
  let generators : List (List Int) := []
  let generator_names : List String := []
  let st ← List.foldlM (fun (st : (List (List Int)) × (List String)) (t_1 : List Int) => do
      let generators := st.1
      let generator_names := st.2
      pyAssert ((pyLen t_1) == (3 : Int))
      let a ← pyGet t_1 (0 : Int)
      let b ← pyGet t_1 (1 : Int)
      let c ← pyGet t_1 (2 : Int)
      let st : (List (List Int)) × (List String) ← (if ((decide (a < b)) && (decide (a < c))) then do
          let t_2 ← Cv.PyGen.Perm.permutation_from_cycles n [[a, b, c]] (0 : Int)
          let generators := generators ++ [t_2]
          let generator_names := generator_names ++ [("(" ++ pyStr a ++ " " ++ pyStr b ++ " " ++ pyStr c ++ ")")]
          pure (generators, generator_names)
        else do
          pure (generators, generator_names)
        )
      let generators := st.1
      let generator_names := st.2
      pure (generators, generator_names)
      ) (generators, generator_names) (pyPermutationsR (pyRange (0 : Int) n (1 : Int)) (3 : Int))
  let generators := st.1
  let generator_names := st.2
  let name : String := ("three_cycles-" ++ pyStr n)
  pure (RawDef.mk generators (some (pyRange (0 : Int) n (1 : Int))) (some generator_names) (some name))

/-- translated from `graphs_lib.py:three_cycles_0ij` -/
def three_cycles_0ij (n : Int) : Option (RawDef) := do
  let generators : List (List Int) := []
  let generator_names : List String := []
  let st ← List.foldlM (fun (st : (List (List Int)) × (List String)) (t_1 : List Int) => do
      let generators := st.1
      let generator_names := st.2
      pyAssert ((pyLen t_1) == (2 : Int))
      let i ← pyGet t_1 (0 : Int)
      let j ← pyGet t_1 (1 : Int)
      let t_2 ← Cv.PyGen.Perm.permutation_from_cycles n [[(0 : Int), i, j]] (0 : Int)
      let generators := generators ++ [t_2]
      let generator_names := generator_names ++ [("(" ++ pyStr (0 : Int) ++ " " ++ pyStr i ++ " " ++ pyStr j ++ ")")]
      pure (generators, generator_names)
      ) (generators, generator_names) (pyPermutationsR (pyRange (1 : Int) n (1 : Int)) (2 : Int))
  let generators := st.1
  let generator_names := st.2
  let name : String := ("three_cycles_0ij-" ++ pyStr n)
  pure (RawDef.mk generators (some (pyRange (0 : Int) n (1 : Int))) (some generator_names) (some name))

/-- default value of `three_cycles_01i(add_inverses=…)` in the source -/
def three_cycles_01i_default_add_inverses : Bool := true
/-- translated from `graphs_lib.py:three_cycles_01i` -/
def three_cycles_01i (n : Int) (add_inverses : Bool) : Option (RawDef) := do
  pyAssert (decide (n ≥ (3 : Int)))
  let generators : List (List Int) := []
  let generator_names : List String := []
  let st ← List.foldlM (fun (st : (List (List Int)) × (List String)) (i : Int) => do
      let generators := st.1
      let generator_names := st.2
      let t_1 ← Cv.PyGen.Perm.permutation_from_cycles n [[(0 : Int), (1 : Int), i]] (0 : Int)
      let perm : List Int := t_1
      let generators := generators ++ [perm]
      let generator_names := generator_names ++ [("(0 1 " ++ pyStr i ++ ")")]
      let st : (List (List Int)) × (List String) ← (if add_inverses then do
          let t_2 ← Cv.PyGen.Perm.inverse_permutation perm
          let generators := generators ++ [t_2]
          let generator_names := generator_names ++ [("(1 0 " ++ pyStr i ++ ")")]
          pure (generators, generator_names)
        else do
          pure (generators, generator_names)
        )
      let generators := st.1
      let generator_names := st.2
      pure (generators, generator_names)
      ) (generators, generator_names) (pyRange (2 : Int) n (1 : Int))
  let generators := st.1
  let generator_names := st.2
  let name : String := ("three_cycles_01i-" ++ pyStr n)
  let st : String ← (if add_inverses then do
      let name : String := (name ++ "-ic")
      pure name
    else do
      pure name
    )
  let name := st
  pure (RawDef.mk generators (some (pyRange (0 : Int) n (1 : Int))) (some generator_names) (some name))

/-- translated from `graphs_lib.py:derangements` -/
def derangements (n : Int) : Option (RawDef) := do
  pyAssert (decide (n ≥ (2 : Int)))
  let generators : List (List Int) := []
  let generator_names : List String := []
  let st ← List.foldlM (fun (st : (List (List Int)) × (List String)) (t_1 : Int × (List Int)) => do
      let generators := st.1
      let generator_names := st.2
      let idx : Int := t_1.1
      let perm := t_1.2
      let t_3 ← pyAnyM (fun i => do let t_2 ← pyGet perm i; pure ((t_2 == i))) (pyRange (0 : Int) n (1 : Int))
      let has_fixed_point : Bool := t_3
      let st : (List (List Int)) × (List String) ← (if (!has_fixed_point) then do
          let generators := generators ++ [perm]
          let generator_names := generator_names ++ [("D" ++ pyStr idx)]
          pure (generators, generator_names)
        else do
          pure (generators, generator_names)
        )
      let generators := st.1
      let generator_names := st.2
      pure (generators, generator_names)
      ) (generators, generator_names) (pyEnumerate (pyPermutations (pyRange (0 : Int) n (1 : Int))))
  let generators := st.1
  let generator_names := st.2
  let name : String := ("derangements-" ++ pyStr n)
  pure (RawDef.mk generators (some (pyRange (0 : Int) n (1 : Int))) (some generator_names) (some name))

/-- translated from `graphs_lib.py:stars` -/
def stars (n : Int) : Option (RawDef) := do
  pyAssert (decide (n ≥ (3 : Int)))
  let generators : List (List Int) := []
  let generator_names : List String := []
  let st ← List.foldlM (fun (st : (List (List Int)) × (List String)) (i : Int) => do
      let generators := st.1
      let generator_names := st.2
      let t_1 ← Cv.PyGen.Perm.transposition n (0 : Int) i
      let generators := generators ++ [t_1]
      let generator_names := generator_names ++ [("S" ++ pyStr i)]
      pure (generators, generator_names)
      ) (generators, generator_names) (pyRange (1 : Int) n (1 : Int))
  let generators := st.1
  let generator_names := st.2
  let name : String := ("stars-" ++ pyStr n)
  pure (RawDef.mk generators (some (pyRange (0 : Int) n (1 : Int))) (some generator_names) (some name))

/-- default value of `generalized_stars(k=…)` in the source -/
def generalized_stars_default_k : Int := (1 : Int)
/-- translated from `graphs_lib.py:generalized_stars` -/
def generalized_stars (n : Int) (k : Int) : Option (RawDef) := do
  pyAssert (decide (n ≥ (3 : Int)))
  pyAssert (decide ((1 : Int) ≤ k) && decide (k < n))
  let generators : List (List Int) := []
  let generator_names : List String := []
  let st ← List.foldlM (fun (st : (List (List Int)) × (List String)) (i : Int) => do
      let generators := st.1
      let generator_names := st.2
      let st ← List.foldlM (fun (st : (List (List Int)) × (List String)) (j : Int) => do
          let generators := st.1
          let generator_names := st.2
          let t_1 ← Cv.PyGen.Perm.transposition n i j
          let generators := generators ++ [t_1]
          let generator_names := generator_names ++ [("S" ++ pyStr i ++ "-" ++ pyStr j)]
          pure (generators, generator_names)
          ) (generators, generator_names) (pyRange k n (1 : Int))
      let generators := st.1
      let generator_names := st.2
      pure (generators, generator_names)
      ) (generators, generator_names) (pyRange (0 : Int) k (1 : Int))
  let generators := st.1
  let generator_names := st.2
  let name : String := ("generalized-stars-" ++ pyStr n ++ "-" ++ pyStr k)
  pure (RawDef.mk generators (some (pyRange (0 : Int) n (1 : Int))) (some generator_names) (some name))

/-- translated from `graphs_lib.py:rapaport_m1` -/
def rapaport_m1 (n : Int) : Option (RawDef) := do
  let generators : List (List Int) := []
  let generator_names : List String := []
  let st ← List.foldlM (fun (st : (List (List Int)) × (List String)) (num_pairs : Int) => do
      let generators := st.1
      let generator_names := st.2
      let cycles : List (List Int) := []
      let st ← List.foldlM (fun (st : (List (List Int))) (idx : Int) => do
          let cycles := st
          let st : (List (List Int)) ← (if (decide ((((2 : Int) * idx) + (1 : Int)) < n)) then do
              let cycles := cycles ++ [[((2 : Int) * idx), (((2 : Int) * idx) + (1 : Int))]]
              pure cycles
            else do
              pure cycles
            )
          let cycles := st
          pure cycles
          ) cycles (pyRange (0 : Int) num_pairs (1 : Int))
      let cycles := st
      let t_1 ← Cv.PyGen.Perm.permutation_from_cycles n cycles (0 : Int)
      let permutation : List Int := t_1
      let generators := generators ++ [permutation]
      let generator_names := generator_names ++ [("M1_0_" ++ pyStr num_pairs)]
      pure (generators, generator_names)
      ) (generators, generator_names) (pyRange (1 : Int) ((Int.fdiv n (2 : Int)) + (1 : Int)) (1 : Int))
  let generators := st.1
  let generator_names := st.2
  let st ← List.foldlM (fun (st : (List (List Int)) × (List String)) (num_pairs : Int) => do
      let generators := st.1
      let generator_names := st.2
      let cycles : List (List Int) := []
      let permutation : List Int := (pyRange (0 : Int) n (1 : Int))
      let st ← List.foldlM (fun (st : (List (List Int))) (idx : Int) => do
          let cycles := st
          let st : (List (List Int)) ← (if (decide ((((1 : Int) + ((2 : Int) * idx)) + (1 : Int)) < n)) then do
              let cycles := cycles ++ [[((1 : Int) + ((2 : Int) * idx)), (((1 : Int) + ((2 : Int) * idx)) + (1 : Int))]]
              pure cycles
            else do
              pure cycles
            )
          let cycles := st
          pure cycles
          ) cycles (pyRange (0 : Int) num_pairs (1 : Int))
      let cycles := st
      let t_2 ← Cv.PyGen.Perm.permutation_from_cycles n cycles (0 : Int)
      let permutation : List Int := t_2
      let generators := generators ++ [permutation]
      let generator_names := generator_names ++ [("M1_1_" ++ pyStr num_pairs)]
      pure (generators, generator_names)
      ) (generators, generator_names) (pyRange (1 : Int) ((Int.fdiv (n - (1 : Int)) (2 : Int)) + (1 : Int)) (1 : Int))
  let generators := st.1
  let generator_names := st.2
  let name : String := ("rapaport_m1-" ++ pyStr n)
  pure (RawDef.mk generators (some (pyRange (0 : Int) n (1 : Int))) (some generator_names) (some name))

/-- translated from `graphs_lib.py:rapaport_m2` -/
def rapaport_m2 (n : Int) : Option (RawDef) := do
  let t_1 ← Cv.PyGen.Perm.transposition n (0 : Int) (1 : Int)
  let g1 : List Int := t_1
  let g2 : List Int := (pyRange (0 : Int) n (1 : Int))
  let st ← List.foldlM (fun (st : (List Int)) (i : Int) => do
      let g2 := st
      let t_2 ← pyGet g2 (i + (1 : Int))
      let t_3 := t_2
      let t_4 ← pyGet g2 i
      let t_5 := t_4
      let g2 ← pySet g2 i t_3
      let g2 ← pySet g2 (i + (1 : Int)) t_5
      pure g2
      ) g2 (pyRange (0 : Int) (n - (1 : Int)) (2 : Int))
  let g2 := st
  let g3 : List Int := (pyRange (0 : Int) n (1 : Int))
  let st ← List.foldlM (fun (st : (List Int)) (i : Int) => do
      let g3 := st
      let t_6 ← pyGet g3 (i + (1 : Int))
      let t_7 := t_6
      let t_8 ← pyGet g3 i
      let t_9 := t_8
      let g3 ← pySet g3 i t_7
      let g3 ← pySet g3 (i + (1 : Int)) t_9
      pure g3
      ) g3 (pyRange (1 : Int) (n - (1 : Int)) (2 : Int))
  let g3 := st
  let generators : List (List Int) := [g1, g2, g3]
  let generator_names : List String := ["(0,1)", "EvenDisjTrans", "OddDisjTrans"]
  let name : String := ("rapaport_m2-" ++ pyStr n)
  pure (RawDef.mk generators (some (pyRange (0 : Int) n (1 : Int))) (some generator_names) (some name))

/-- translated from `graphs_lib.py:all_cycles` -/
def all_cycles (n : Int) : Option (RawDef) := do
  pyAssert (decide (n ≥ (2 : Int)))
  let generators : List (List Int) := []
  let generator_names : List String := []
  let st ← List.foldlM (fun (st : (List (List Int)) × (List String)) (k : Int) => do
      let generators := st.1
      let generator_names := st.2
      let st ← List.foldlM (fun (st : (List (List Int)) × (List String)) (subset : List Int) => do
          let generators := st.1
          let generator_names := st.2
          let t_1 ← pyMin subset
          let min_elem : Int := t_1
          let rest : List Int := (List.map (fun x => x) (List.filter (fun x => ((x != min_elem))) subset))
          let st ← List.foldlM (fun (st : (List (List Int)) × (List String)) (perm : List Int) => do
              let generators := st.1
              let generator_names := st.2
              let cycle : List Int := (pyRange (0 : Int) n (1 : Int))
              let current : Int := min_elem
              let st ← List.foldlM (fun (st : (List Int) × Int) (target : Int) => do
                  let cycle := st.1
                  let current := st.2
                  let cycle ← pySet cycle current target
                  let current : Int := target
                  pure (cycle, current)
                  ) (cycle, current) perm
              let cycle := st.1
              let current := st.2
              let cycle ← pySet cycle current min_elem
              let generators := generators ++ [cycle]
              let generator_names := generator_names ++ [("cycle_" ++ pyStr (pyLen generators))]
              pure (generators, generator_names)
              ) (generators, generator_names) (pyPermutations rest)
          let generators := st.1
          let generator_names := st.2
          pure (generators, generator_names)
          ) (generators, generator_names) (pyCombinations (pyRange (0 : Int) n (1 : Int)) k)
      let generators := st.1
      let generator_names := st.2
      pure (generators, generator_names)
      ) (generators, generator_names) (pyRange (2 : Int) (n + (1 : Int)) (1 : Int))
  let generators := st.1
  let generator_names := st.2
  let name : String := ("all_cycles-" ++ pyStr n)
  pure (RawDef.mk generators (some (pyRange (0 : Int) n (1 : Int))) (some generator_names) (some name))

/-- default value of `lsl_cycles(add_inverses=…)` in the source -/
def lsl_cycles_default_add_inverses : Bool := true
/-- translated from `graphs_lib.py:lsl_cycles` -/
def lsl_cycles (n : Int) (add_inverses : Bool) : Option (RawDef) := do
  pyAssert (decide (n ≥ (3 : Int)))
  let t_1 ← Cv.PyGen.Perm.permutation_from_cycles n [(pyRange (0 : Int) n (1 : Int))] (0 : Int)
  let long_cycle : List Int := t_1
  let t_2 ← Cv.PyGen.Perm.permutation_from_cycles n [(pyRange (1 : Int) n (1 : Int)), [(0 : Int)]] (0 : Int)
  let sub_long_cycle : List Int := t_2
  let generators : List (List Int) := [long_cycle, sub_long_cycle]
  let names : List String := ["L", "S"]
  let st : (List (List Int)) × (List String) ← (if add_inverses then do
      let t_3 ← Cv.PyGen.Perm.inverse_permutation long_cycle
      let long_cycle_inv : List Int := t_3
      let t_4 ← Cv.PyGen.Perm.inverse_permutation sub_long_cycle
      let sub_long_cycle_inv : List Int := t_4
      let generators : List (List Int) := (generators ++ [long_cycle_inv, sub_long_cycle_inv])
      let names : List String := (names ++ ["L_inv", "S_inv"])
      pure (generators, names)
    else do
      pure (generators, names)
    )
  let generators := st.1
  let names := st.2
  pure (RawDef.mk generators (some (pyRange (0 : Int) n (1 : Int))) (some names) (some ("lsl_cycles-" ++ pyStr n)))

/-- translated from `graphs_lib.py:wrapped_k_cycles` -/
def wrapped_k_cycles (n : Int) (k : Int) : Option (RawDef) := do
  pyAssert ((decide (n ≥ (2 : Int))) && (decide ((2 : Int) ≤ k) && decide (k ≤ n)))
  let generators : List (List Int) := []
  let generator_names : List String := []
  let st ← List.foldlM (fun (st : (List (List Int)) × (List String)) (start : Int) => do
      let generators := st.1
      let generator_names := st.2
      let t_2 ← List.mapM (fun j => do let t_1 ← pyMod (start + j) n; pure t_1) (pyRange (0 : Int) k (1 : Int))
      let cycle : List Int := t_2
      let t_3 ← Cv.PyGen.Perm.permutation_from_cycles n [cycle] (0 : Int)
      let generators := generators ++ [t_3]
      let generator_names := generator_names ++ [("(" ++ (pyJoin " " (List.map pyStr cycle)) ++ ")")]
      pure (generators, generator_names)
      ) (generators, generator_names) (pyRange (0 : Int) n (1 : Int))
  let generators := st.1
  let generator_names := st.2
  let name : String := ("wrapped_k_cycles-" ++ pyStr n ++ "-" ++ pyStr k)
  pure (RawDef.mk generators (some (pyRange (0 : Int) n (1 : Int))) (some generator_names) (some name))

/-- translated from `graphs_lib.py:larx` -/
def larx (n : Int) : Option (RawDef) := do
  pyAssert (decide (n ≥ (2 : Int)))
  let generators : List (List Int) := []
  let generator_names : List String := []
  let perm1 : List Int := ([(1 : Int), (0 : Int)] ++ (pyRange (2 : Int) n (1 : Int)))
  let generators := generators ++ [perm1]
  let generator_names := generator_names ++ [("(" ++ (pyJoin " " (List.map pyStr perm1)) ++ ")")]
  let perm2 : List Int := (([(0 : Int)] ++ (pyRange (2 : Int) n (1 : Int))) ++ [(1 : Int)])
  let generators := generators ++ [perm2]
  let generator_names := generator_names ++ [("(" ++ (pyJoin " " (List.map pyStr perm2)) ++ ")")]
  let name : String := ("larx-" ++ pyStr n)
  pure (RawDef.mk generators (some (pyRange (0 : Int) n (1 : Int))) (some generator_names) (some name))

/-- translated from `graphs_lib.py:increasing_k_cycles` -/
def increasing_k_cycles (n : Int) (k : Int) : Option (RawDef) := do
  pyAssert ((decide (n ≥ (1 : Int))) && (decide ((1 : Int) ≤ k) && decide (k ≤ n)))
  let generators : List (List Int) := []
  let generator_names : List String := []
  let st ← List.foldlM (fun (st : (List (List Int)) × (List String)) (combo : List Int) => do
      let generators := st.1
      let generator_names := st.2
      let cyc : List Int := combo
      let t_1 ← Cv.PyGen.Perm.permutation_from_cycles n [cyc] (0 : Int)
      let generators := generators ++ [t_1]
      let generator_names := generator_names ++ [("(" ++ (pyJoin "," (List.map pyStr cyc)) ++ ")")]
      pure (generators, generator_names)
      ) (generators, generator_names) (pyCombinations (pyRange (0 : Int) n (1 : Int)) k)
  let generators := st.1
  let generator_names := st.2
  let name : String := ("increasing_k_cycles-" ++ pyStr n ++ "-" ++ pyStr k)
  pure (RawDef.mk generators (some (pyRange (0 : Int) n (1 : Int))) (some generator_names) (some name))

/-- translated from `graphs_lib.py:sheveleva2` -/
def sheveleva2 (n : Int) (k : Int) : Option (RawDef) := do
  pyAssert (decide ((1 : Int) ≤ k) && decide (k ≤ (n - (3 : Int))))
  let t_1 ← Cv.PyGen.Perm.permutation_from_cycles n (List.map (fun i => [i, (i + (1 : Int))]) (pyRange (0 : Int) (n - (1 : Int)) (2 : Int))) (0 : Int)
  let p1 : List Int := t_1
  let t_2 ← Cv.PyGen.Perm.permutation_from_cycles n (List.map (fun i => [i, (i + (1 : Int))]) (pyRange (1 : Int) (n - (1 : Int)) (2 : Int))) (0 : Int)
  let p2 : List Int := t_2
  let st : (List Int) × (List Int) ← (if (((Int.fmod k (2 : Int)) == (1 : Int))) then do
      let st : (List Int) × (List Int) ← (if ((k == (n - (3 : Int)))) then do
          let p1 ← pySet p1 (k - (1 : Int)) k
          let p1 ← pySet p1 k (k + (1 : Int))
          let p1 ← pySet p1 (k + (1 : Int)) (k + (2 : Int))
          let p1 ← pySet p1 (k + (2 : Int)) (k - (1 : Int))
          let p2 ← pySet p2 k k
          let p2 ← pySet p2 (k + (1 : Int)) (k + (1 : Int))
          let p2 ← pySet p2 (k + (2 : Int)) (k + (2 : Int))
          pure (p1, p2)
        else do
          let p1 ← pySet p1 (k - (1 : Int)) k
          let p1 ← pySet p1 k (k + (1 : Int))
          let p1 ← pySet p1 (k + (1 : Int)) (k + (2 : Int))
          let p1 ← pySet p1 (k + (2 : Int)) (k - (1 : Int))
          let p2 ← pySet p2 k k
          let p2 ← pySet p2 (k + (1 : Int)) (k + (3 : Int))
          let p2 ← pySet p2 (k + (2 : Int)) (k + (2 : Int))
          let p2 ← pySet p2 (k + (3 : Int)) (k + (1 : Int))
          pure (p1, p2)
        )
      let p1 := st.1
      let p2 := st.2
      pure (p1, p2)
    else do
      let st : (List Int) × (List Int) ← (if ((k == (n - (3 : Int)))) then do
          let p2 ← pySet p2 (k - (1 : Int)) k
          let p2 ← pySet p2 k (k + (1 : Int))
          let p2 ← pySet p2 (k + (1 : Int)) (k + (2 : Int))
          let p2 ← pySet p2 (k + (2 : Int)) (k - (1 : Int))
          let p1 ← pySet p1 k k
          let p1 ← pySet p1 (k + (1 : Int)) (k + (1 : Int))
          let p1 ← pySet p1 (k + (2 : Int)) (k + (2 : Int))
          pure (p2, p1)
        else do
          let p2 ← pySet p2 (k - (1 : Int)) k
          let p2 ← pySet p2 k (k + (1 : Int))
          let p2 ← pySet p2 (k + (1 : Int)) (k + (2 : Int))
          let p2 ← pySet p2 (k + (2 : Int)) (k - (1 : Int))
          let p1 ← pySet p1 k k
          let p1 ← pySet p1 (k + (1 : Int)) (k + (3 : Int))
          let p1 ← pySet p1 (k + (2 : Int)) (k + (2 : Int))
          let p1 ← pySet p1 (k + (3 : Int)) (k + (1 : Int))
          pure (p2, p1)
        )
      let p2 := st.1
      let p1 := st.2
      pure (p1, p2)
    )
  let p1 := st.1
  let p2 := st.2
  let st : (List (List Int)) ← (if (((Int.fmod k (2 : Int)) == (1 : Int))) then do
      let generators : List (List Int) := [p2, p1]
      pure generators
    else do
      let generators : List (List Int) := [p1, p2]
      pure generators
    )
  let generators := st
  let generator_names : List String := ["A", "S"]
  let name : String := ("sheveleva2-n" ++ pyStr n ++ "-k" ++ pyStr k)
  pure (RawDef.mk generators (some (pyRange (0 : Int) n (1 : Int))) (some generator_names) (some name))

/-- default value of `koltsov3(perm_type=…)` in the source -/
def koltsov3_default_perm_type : Int := (2 : Int)

/-- default value of `koltsov3(k=…)` in the source -/
def koltsov3_default_k : Int := (1 : Int)

/-- default value of `koltsov3(d=…)` in the source -/
def koltsov3_default_d : Int := (1 : Int)
/-- translated from `graphs_lib.py:koltsov3` -/
def koltsov3 (n : Int) (perm_type : Int) (k : Int) (d : Int) : Option (RawDef) := do
  pyAssert (decide (k < n))
  pyAssert ((List.contains [(1 : Int), (2 : Int)] perm_type))
  let t_1 ← Cv.PyGen.Perm.permutation_from_cycles n (List.map (fun i => [i, (i + (1 : Int))]) (pyRange (0 : Int) (n - (1 : Int)) (2 : Int))) (0 : Int)
  let t_2 ← Cv.PyGen.Perm.permutation_from_cycles n (List.map (fun i => [i, (i + (1 : Int))]) (pyRange (1 : Int) (n - (1 : Int)) (2 : Int))) (0 : Int)
  let generators : List (List Int) := [t_1, t_2]
  let st : (List (List Int)) ← (if ((perm_type == (1 : Int))) then do
      pyAssert (decide ((k + d) < n))
      let t_3 ← Cv.PyGen.Perm.permutation_from_cycles n [[k, (k + d)]] (0 : Int)
      let generators := generators ++ [t_3]
      pure generators
    else do
      let st : (List (List Int)) ← (if ((perm_type == (2 : Int))) then do
          pyAssert (decide ((k + (3 : Int)) < n))
          let t_4 ← Cv.PyGen.Perm.permutation_from_cycles n [[k, (k + (3 : Int))], [(k + (1 : Int)), (k + (2 : Int))]] (0 : Int)
          let generators := generators ++ [t_4]
          pure generators
        else do
          pure generators
        )
      let generators := st
      pure generators
    )
  let generators := st
  let generator_names : List String := ["I", "K", "S"]
  let name : String := ("koltsov3-n" ++ pyStr n ++ "-k" ++ pyStr k)
  pure (RawDef.mk generators (some (pyRange (0 : Int) n (1 : Int))) (some generator_names) (some name))

/-- translated from `graphs_lib.py:consecutive_k_cycles` -/
def consecutive_k_cycles (n : Int) (k : Int) : Option (RawDef) := do
  pyAssert ((decide (n ≥ (1 : Int))) && (decide ((1 : Int) ≤ k) && decide (k ≤ n)))
  let generators : List (List Int) := []
  let generator_names : List String := []
  let st ← List.foldlM (fun (st : (List (List Int)) × (List String)) (i : Int) => do
      let generators := st.1
      let generator_names := st.2
      let cyc : List Int := (pyRange i (i + k) (1 : Int))
      let t_1 ← Cv.PyGen.Perm.permutation_from_cycles n [cyc] (0 : Int)
      let generators := generators ++ [t_1]
      let generator_names := generator_names ++ [("(" ++ (pyJoin "," (List.map pyStr cyc)) ++ ")")]
      pure (generators, generator_names)
      ) (generators, generator_names) (pyRange (0 : Int) ((n - k) + (1 : Int)) (1 : Int))
  let generators := st.1
  let generator_names := st.2
  let name : String := ("consecutive_k_cycles-" ++ pyStr n ++ "-" ++ pyStr k)
  pure (RawDef.mk generators (some (pyRange (0 : Int) n (1 : Int))) (some generator_names) (some name))

/-- translated from `graphs_lib.py:down_cycles` -/
def down_cycles (n : Int) : Option (RawDef) := do
  pyAssert (decide (n ≥ (2 : Int)))
  let generators : List (List Int) := []
  let generator_names : List String := []
  let st ← List.foldlM (fun (st : (List (List Int)) × (List String)) (i : Int) => do
      let generators := st.1
      let generator_names := st.2
      let st ← List.foldlM (fun (st : (List (List Int)) × (List String)) (j : Int) => do
          let generators := st.1
          let generator_names := st.2
          let cycle : List Int := (pyRange i (j + (1 : Int)) (1 : Int))
          let t_1 ← Cv.PyGen.Perm.permutation_from_cycles n [cycle] (0 : Int)
          let generators := generators ++ [t_1]
          let generator_names := generator_names ++ [("(" ++ (pyJoin "," (List.map pyStr cycle)) ++ ")")]
          pure (generators, generator_names)
          ) (generators, generator_names) (pyRange (i + (1 : Int)) n (1 : Int))
      let generators := st.1
      let generator_names := st.2
      pure (generators, generator_names)
      ) (generators, generator_names) (pyRange (0 : Int) n (1 : Int))
  let generators := st.1
  let generator_names := st.2
  let name : String := ("down_cycles-" ++ pyStr n)
  pure (RawDef.mk generators (some (pyRange (0 : Int) n (1 : Int))) (some generator_names) (some name))

/-- translated from `graphs_lib.py:prefix_cycles` -/
def prefix_cycles (n : Int) : Option (RawDef) := do
  pyAssert (decide (n ≥ (2 : Int)))
  let generators : List (List Int) := []
  let generator_names : List String := []
  let st ← List.foldlM (fun (st : (List (List Int)) × (List String)) (j : Int) => do
      let generators := st.1
      let generator_names := st.2
      let cycle : List Int := (pyRange (0 : Int) j (1 : Int))
      let t_1 ← Cv.PyGen.Perm.permutation_from_cycles n [cycle] (0 : Int)
      let generators := generators ++ [t_1]
      let generator_names := generator_names ++ [("(" ++ (pyJoin "," (List.map pyStr cycle)) ++ ")")]
      pure (generators, generator_names)
      ) (generators, generator_names) (pyRange (2 : Int) (n + (1 : Int)) (1 : Int))
  let generators := st.1
  let generator_names := st.2
  let name : String := ("prefix_cycles-" ++ pyStr n)
  pure (RawDef.mk generators (some (pyRange (0 : Int) n (1 : Int))) (some generator_names) (some name))

-- NOT TRANSLATED `prepare_graph`: not translated: star arguments

-- NOT TRANSLATED `involutive_derangements`: not translated: local function generate_matchings uses outer variables ['first', 'generate_matchings', 'i', 'matching', 'partner', 'remaining', 'result']

-- NOT TRANSLATED `conjugacy_classes`: not translated: annotation dict[tuple[int], Union[int, None]]

-- NOT TRANSLATED `rand_generators`: not translated: call of factorial

end Cv.PyGen.Fam
