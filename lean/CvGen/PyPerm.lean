/- REGENERATED from /repo on every run by harness/extract/pylean.py — do not edit. -/
import CvModel.PyPrelude

namespace Cv.PyGen.Perm
open Cv.Py

/-- translated from `permutation_utils.py:identity_perm` -/
def identity_perm (n : Int) : Option (List Int) := do
  pure (pyRange (0 : Int) n (1 : Int))

/-- translated from `permutation_utils.py:apply_permutation` -/
def apply_permutation (p : List Int) (x : List Int) : Option (List Int) := do
  let t_3 ← List.mapM (fun i => do let t_1 ← pyGet p i; let t_2 ← pyGet x t_1; pure t_2) (pyRange (0 : Int) (pyLen p) (1 : Int))
  pure t_3

/-- translated from `permutation_utils.py:compose_permutations` -/
def compose_permutations (p1 : List Int) (p2 : List Int) : Option (List Int) := do
  let t_1 ← Cv.PyGen.Perm.apply_permutation p1 p2
  pure t_1

/-- translated from `permutation_utils.py:inverse_permutation` -/
def inverse_permutation (p : List Int) : Option (List Int) := do
  let n : Int := (pyLen p)
  let ans : List Int := (pyRepeat (0 : Int) n)
  let st ← List.foldlM (fun (st : (List Int)) (i : Int) => do
      let ans := st
      let t_1 ← pyGet p i
      let ans ← pySet ans t_1 i
      pure ans
      ) ans (pyRange (0 : Int) n (1 : Int))
  let ans := st
  pure ans

/-- translated from `permutation_utils.py:is_permutation` -/
def is_permutation (p : List Int) : Option (Bool) := do
  pure (((pySorted p) == (pyRange (0 : Int) (pyLen p) (1 : Int))))

/-- translated from `permutation_utils.py:transposition` -/
def transposition (n : Int) (i1 : Int) (i2 : Int) : Option (List Int) := do
  pyAssert (decide ((0 : Int) ≤ i1) && decide (i1 < n))
  pyAssert (decide ((0 : Int) ≤ i2) && decide (i2 < n))
  pyAssert ((i1 != i2))
  let perm : List Int := (pyRange (0 : Int) n (1 : Int))
  let t_1 := i2
  let t_2 := i1
  let perm ← pySet perm i1 t_1
  let perm ← pySet perm i2 t_2
  pure perm

/-- default value of `permutation_from_cycles(offset=…)` in the source -/
def permutation_from_cycles_default_offset : Int := (0 : Int)
/-- translated from `permutation_utils.py:permutation_from_cycles` -/
def permutation_from_cycles (n : Int) (cycles : List (List Int)) (offset : Int) : Option (List Int) := do
  let perm : List Int := (pyRange (0 : Int) n (1 : Int))
  let cycles_offsetted : List (List Int) := (List.map (fun y => (List.map (fun x => (x - offset)) y)) cycles)
  let st ← List.foldlM (fun (st : (List Int)) (cycle : List Int) => do
      let perm := st
      let st ← List.foldlM (fun (st : (List Int)) (i : Int) => do
          let perm := st
          let t_1 ← pyGet cycle i
          pyAssert (decide ((0 : Int) ≤ t_1) && decide (t_1 < n))
          let t_2 ← pyGet cycle i
          let t_3 ← pyGet perm t_2
          let t_4 ← pyGet cycle i
          pyAssert ((t_3 == t_4))
          let t_5 ← pyMod (i + (1 : Int)) (pyLen cycle)
          let t_6 ← pyGet cycle t_5
          let t_7 ← pyGet cycle i
          let perm ← pySet perm t_7 t_6
          pure perm
          ) perm (pyRange (0 : Int) (pyLen cycle) (1 : Int))
      let perm := st
      pure perm
      ) perm cycles_offsetted
  let perm := st
  pure perm

end Cv.PyGen.Perm
