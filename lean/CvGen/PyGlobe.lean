/- REGENERATED from /repo on every run by harness/extract/pylean.py — do not edit. -/
import CvModel.PyPrelude
import CvGen.PyPerm

namespace Cv.PyGen.Globe
open Cv.Py

/-- translated from `globe.py:help_cyclic` -/
def help_cyclic (start_pos : Int) (finish_pos : Int) (n : Int) : Option (List Int) := do
  let lst : List Int := []
  let st ← List.foldlM (fun (st : (List Int)) (i : Int) => do
      let lst := st
      let lst := lst ++ [i]
      pure lst
      ) lst (pyRange (0 : Int) start_pos (1 : Int))
  let lst := st
  let st ← List.foldlM (fun (st : (List Int)) (i : Int) => do
      let lst := st
      let lst := lst ++ [(if ((i != finish_pos)) then (i + (1 : Int)) else start_pos)]
      pure lst
      ) lst (pyRange start_pos (finish_pos + (1 : Int)) (1 : Int))
  let lst := st
  let st ← List.foldlM (fun (st : (List Int)) (i : Int) => do
      let lst := st
      let lst := lst ++ [i]
      pure lst
      ) lst (pyRange (finish_pos + (1 : Int)) n (1 : Int))
  let lst := st
  pure lst

/-- translated from `globe.py:globe_gens` -/
def globe_gens (a : Int) (b : Int) : Option (List (String × (List Int))) := do
  let gens : List (String × (List Int)) := []
  let x_count : Int := ((2 : Int) * b)
  let y_count : Int := (a + (1 : Int))
  let n : Int := (((2 : Int) * (a + (1 : Int))) * b)
  let st ← List.foldlM (fun (st : (List (String × (List Int)))) (r_count : Int) => do
      let gens := st
      let t_1 ← Cv.PyGen.Globe.help_cyclic (r_count * x_count) (((r_count + (1 : Int)) * x_count) - (1 : Int)) n
      let gens := pyDictSet gens ("r" ++ pyStr r_count) t_1
      pure gens
      ) gens (pyRange (0 : Int) y_count (1 : Int))
  let gens := st
  let total_a : Int := (y_count - (1 : Int))
  let st ← List.foldlM (fun (st : (List (String × (List Int)))) (f_count : Int) => do
      let gens := st
      let lst : List Int := (pyRange (0 : Int) n (1 : Int))
      let st ← List.foldlM (fun (st : (List Int)) (i : Int) => do
          let lst := st
          let block1 : List Int := []
          let block2 : List Int := []
          let st ← List.foldlM (fun (st : (List Int) × (List Int)) (k : Int) => do
              let block1 := st.1
              let block2 := st.2
              let t_2 ← pyMod (f_count + k) x_count
              let idx1 : Int := ((i * x_count) + t_2)
              let block1 := block1 ++ [idx1]
              let t_3 ← pyMod (f_count + k) x_count
              let idx2 : Int := (((total_a - i) * x_count) + t_3)
              let block2 := block2 ++ [idx2]
              pure (block1, block2)
              ) (block1, block2) (pyRange (0 : Int) b (1 : Int))
          let block1 := st.1
          let block2 := st.2
          let st ← List.foldlM (fun (st : (List Int)) (k : Int) => do
              let lst := st
              let t_4 ← pyGet block1 k
              let idx1 : Int := t_4
              let t_5 ← pyGet block2 ((b - (1 : Int)) - k)
              let idx2 : Int := t_5
              let t_6 ← pyGet lst idx2
              let t_7 := t_6
              let t_8 ← pyGet lst idx1
              let t_9 := t_8
              let lst ← pySet lst idx1 t_7
              let lst ← pySet lst idx2 t_9
              pure lst
              ) lst (pyRange (0 : Int) b (1 : Int))
          let lst := st
          pure lst
          ) lst (pyRange (0 : Int) (Int.fdiv y_count (2 : Int)) (1 : Int))
      let lst := st
      let gens := pyDictSet gens ("f" ++ pyStr f_count) lst
      pure gens
      ) gens (pyRange (0 : Int) x_count (1 : Int))
  let gens := st
  pure gens

/-- translated from `globe.py:globe_puzzle` -/
def globe_puzzle (a : Int) (b : Int) : Option (RawDef) := do
  let generators : List (List Int) := []
  let generator_names : List String := []
  let t_1 ← Cv.PyGen.Globe.globe_gens a b
  let moves : List (String × (List Int)) := t_1
  let st ← List.foldlM (fun (st : (List (List Int)) × (List String)) (t_2 : String × (List Int)) => do
      let generators := st.1
      let generator_names := st.2
      let key : String := t_2.1
      let perm := t_2.2
      let generators : List (List Int) := (generators ++ [perm])
      let generator_names : List String := (generator_names ++ [key])
      let st : (List (List Int)) × (List String) ← (if ((pyStrContains key "r")) then do
          let t_3 ← Cv.PyGen.Perm.inverse_permutation perm
          let generators : List (List Int) := (generators ++ [t_3])
          let generator_names : List String := (generator_names ++ [(key ++ "_inv")])
          pure (generators, generator_names)
        else do
          pure (generators, generator_names)
        )
      let generators := st.1
      let generator_names := st.2
      pure (generators, generator_names)
      ) (generators, generator_names) moves
  let generators := st.1
  let generator_names := st.2
  let central_state : List Int := (pyRange (0 : Int) (((2 : Int) * b) * (a + (1 : Int))) (1 : Int))
  let name : String := ("globe_puzzle-" ++ pyStr a ++ "-" ++ pyStr b)
  pure (RawDef.mk generators (some central_state) (some generator_names) (some name))

end Cv.PyGen.Globe
