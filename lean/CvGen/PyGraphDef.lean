/- REGENERATED from /repo on every run by harness/extract/pylean.py — do not edit. -/
import CvModel.PyPrelude
import CvGen.PyPerm

namespace Cv.PyGen.GraphDef
open Cv.Py

/-- translated from `cayley_graph_def.py:generators_inverse_map` -/
def generators_inverse_map (gens : List (List Int)) : Option (Option (List Int)) := do
  let ans : List Int := []
  let t_1 ← List.foldlM (fun (d_ : List ((List Int) × (Int))) i => do let t_2 ← pyGet gens i; pure (pyKSet d_ t_2 i)) [] (pyRange (0 : Int) (pyLen gens) (1 : Int))
  let generators_idx : List ((List Int) × Int) := t_1
  let st ← List.foldlM (fun (st : Option (Option (List Int)) × ((List Int))) (i : Int) => do
      if (Option.isSome st.1) then pure st else do
          let ans := st.2
          let t_3 ← pyGet gens i
          let t_4 ← Cv.PyGen.Perm.inverse_permutation t_3
          let inv_perm : List Int := t_4
          if ((!(pyKHas generators_idx inv_perm))) then do
              pure (some none, ans)
          else do
              let t_5 ← pyKGet generators_idx inv_perm
              let ans := ans ++ [t_5]
              pure (none, ans)
      ) (none, ans) (pyRange (0 : Int) (pyLen gens) (1 : Int))
  if (Option.isSome st.1) then do
      let t_6 ← st.1
      pure t_6
  else do
      let ans := st.2
      pure (some ans)

/-- translated from `cayley_graph_def.py:with_inverted_generators` -/
def with_inverted_generators (gens : List (List Int)) (central : List Int) : Option (RawDef) := do
  let t_2 ← List.mapM (fun p => do let t_1 ← Cv.PyGen.Perm.inverse_permutation p; pure t_1) gens
  pure (RawDef.mk t_2 (some central) none none)

/-- translated from `cayley_graph_def.py:make_inverse_closed` -/
def make_inverse_closed (gens : List (List Int)) (names : List String) (central : List Int) (name : String) (inverse_closed : Bool) : Option (RawDef) := do
  if inverse_closed then do
      pure (RawDef.mk gens (some central) (some names) (some name))
  else do
      let new_name : String := name
      let st : String ← (if ((new_name != "")) then do
          let new_name : String := (new_name ++ "-ic")
          pure new_name
        else do
          pure new_name
        )
      let new_name := st
      let new_generator_names : List String := []
      let t_1 ← List.mapM (fun i => do let t_2 ← pyGet gens i; pure t_2) (pyRange (0 : Int) (pyLen gens) (1 : Int))
      let generators_set : List (List Int) := t_1
      let new_generators_permutations : List (List Int) := []
      let st ← List.foldlM (fun (st : (List (List Int)) × (List String)) (i : Int) => do
          let new_generators_permutations := st.1
          let new_generator_names := st.2
          let t_3 ← pyGet gens i
          let t_4 ← Cv.PyGen.Perm.inverse_permutation t_3
          let inv_perm : List Int := t_4
          let st : (List (List Int)) × (List String) ← (if ((!(List.contains generators_set inv_perm))) then do
              let new_generators_permutations := new_generators_permutations ++ [inv_perm]
              let t_5 ← pyGet names i
              let new_generator_names := new_generator_names ++ [(t_5 ++ "'")]
              pure (new_generators_permutations, new_generator_names)
            else do
              pure (new_generators_permutations, new_generator_names)
            )
          let new_generators_permutations := st.1
          let new_generator_names := st.2
          pure (new_generators_permutations, new_generator_names)
          ) (new_generators_permutations, new_generator_names) (pyRange (0 : Int) (pyLen gens) (1 : Int))
      let new_generators_permutations := st.1
      let new_generator_names := st.2
      pure (RawDef.mk (gens ++ new_generators_permutations) (some central) (some (names ++ new_generator_names)) (some new_name))

/-- translated from `cayley_graph_def.py:revert_path` -/
def revert_path (inverse_map : Option (List Int)) (path : List Int) : Option (List Int) := do
  let idx : Option (List Int) := inverse_map
  pyAssert (Option.isSome idx)
  let t_3 ← List.mapM (fun i => do let t_1 ← idx; let t_2 ← pyGet t_1 i; pure t_2) (List.reverse path)
  pure t_3

end Cv.PyGen.GraphDef
