/- REGENERATED from /repo on every run by harness/extract/pylean.py — do not edit. -/
import CvModel.PyPrelude

namespace Cv.PyGen.Rings
open Cv.Py

/-- translated from `hungarian_rings.py:_circular_shift` -/
def _circular_shift (items : List Int) (step : Int) : Option (List Int) := do
  let st : Int ← (if (decide ((pyLen items) > (0 : Int))) then do
      let t_1 ← pyMod step (pyLen items)
      let step : Int := t_1
      pure step
    else do
      pure step
    )
  let step := st
  pure ((pySlice items (some step) none) ++ (pySlice items none (some step)))

/-- translated from `hungarian_rings.py:_get_intersections` -/
def _get_intersections (left_index : Int) (right_index : Int) : Option (Int) := do
  let st : Int ← (if (((left_index == (0 : Int))) && ((right_index == (0 : Int)))) then do
      let intersections : Int := (1 : Int)
      pure intersections
    else do
      let st : Int ← (if ((decide (left_index > (0 : Int))) && (decide (right_index > (0 : Int)))) then do
          let intersections : Int := (2 : Int)
          pure intersections
        else do
          none
        )
      let intersections := st
      pure intersections
    )
  let intersections := st
  pure intersections

/-- translated from `hungarian_rings.py:_create_right_ring` -/
def _create_right_ring (left_size : Int) (left_index : Int) (right_size : Int) (right_index : Int) (full_size : Int) : Option (List Int) := do
  let t_1 ← Cv.PyGen.Rings._get_intersections left_index right_index
  let intersections : Int := t_1
  let st : (List Int) ← (if ((intersections == (2 : Int))) then do
      let second_intersection_index : Int := (((left_size + right_size) - right_index) - (1 : Int))
      let right_ring : List Int := (([(0 : Int)] ++ (pyRange left_size second_intersection_index (1 : Int))) ++ [left_index])
      let st : (List Int) ← (if (decide (right_index > (1 : Int))) then do
          let right_ring : List Int := (right_ring ++ (pyRange second_intersection_index full_size (1 : Int)))
          pure right_ring
        else do
          pure right_ring
        )
      let right_ring := st
      pure right_ring
    else do
      let right_ring : List Int := ([(0 : Int)] ++ (pyRange left_size full_size (1 : Int)))
      pure right_ring
    )
  let right_ring := st
  pyAssert (((pyLen right_ring) == right_size))
  pure right_ring

/-- default value of `hungarian_rings_permutations(step=…)` in the source -/
def hungarian_rings_permutations_default_step : Int := (1 : Int)
/-- translated from `hungarian_rings.py:hungarian_rings_permutations` -/
def hungarian_rings_permutations (left_size : Int) (left_index : Int) (right_size : Int) (right_index : Int) (step : Int) : Option ((List Int) × (List Int)) := do
  let st : Unit ← (if ((decide (left_index < (0 : Int))) || (decide (right_index < (0 : Int)))) then do
      none
    else do
      pure ()
    )
  let st : Unit ← (if ((decide (left_size ≤ left_index)) || (decide (right_size ≤ right_index))) then do
      none
    else do
      pure ()
    )
  let t_1 ← Cv.PyGen.Rings._get_intersections left_index right_index
  let intersections : Int := t_1
  let full_size : Int := ((left_size + right_size) - intersections)
  let left_ring : List Int := (pyRange (0 : Int) left_size (1 : Int))
  let t_2 ← Cv.PyGen.Rings._circular_shift left_ring step
  let left_rotation : List Int := (t_2 ++ (pyRange left_size full_size (1 : Int)))
  let t_3 ← Cv.PyGen.Rings._create_right_ring left_size left_index right_size right_index full_size
  let right_ring : List Int := t_3
  let t_4 ← Cv.PyGen.Rings._circular_shift right_ring step
  let shifted_right_ring : List Int := t_4
  let t_5 ← pyGet shifted_right_ring (0 : Int)
  let first_intersect_value : Int := t_5
  let shifted_right_ring ← pyRemove shifted_right_ring first_intersect_value
  let second_intersect_value : Option Int := none
  let st : (Option Int) × (List Int) ← (if ((intersections == (2 : Int))) then do
      let t_6 ← pyGet shifted_right_ring (-right_index)
      let second_intersect_value : Option Int := (some t_6)
      let t_7 ← second_intersect_value
      let shifted_right_ring ← pyRemove shifted_right_ring t_7
      pure (second_intersect_value, shifted_right_ring)
    else do
      pure (second_intersect_value, shifted_right_ring)
    )
  let second_intersect_value := st.1
  let shifted_right_ring := st.2
  let right_rotation : List Int := (left_ring ++ shifted_right_ring)
  let right_rotation ← pySet right_rotation (0 : Int) first_intersect_value
  let st : (List Int) ← (if (Option.isSome second_intersect_value) then do
      let t_8 ← second_intersect_value
      let right_rotation ← pySet right_rotation left_index t_8
      pure right_rotation
    else do
      pure right_rotation
    )
  let right_rotation := st
  pure (left_rotation, right_rotation)

/-- translated from `hungarian_rings.py:get_santa_parameters_from_n` -/
def get_santa_parameters_from_n (n : Int) : Option (Int × Int × Int × Int) := do
  let right_size : Int := (Int.fdiv (n + (2 : Int)) (2 : Int))
  pyAssert (decide (right_size ≥ (4 : Int)))
  let left_size : Int := ((n + (2 : Int)) - right_size)
  let left_index : Int := (Int.fdiv right_size (3 : Int))
  let right_index : Int := (left_index + (1 : Int))
  pure (left_size, left_index, right_size, right_index)

/-- translated from `hungarian_rings.py:get_pair_variants` -/
def get_pair_variants (left_size : Int) (right_size : Int) : Option (List (Int × Int × Int × Int)) := do
  let result : List (Int × Int × Int × Int) := []
  let st ← List.foldlM (fun (st : (List (Int × Int × Int × Int))) (left_index : Int) => do
      let result := st
      let st ← List.foldlM (fun (st : (List (Int × Int × Int × Int))) (right_index : Int) => do
          let result := st
          let parameters : Int × Int × Int × Int := (left_size, left_index, right_size, right_index)
          let clone : Int × Int × Int × Int := (right_size, right_index, left_size, left_index)
          let st : (List (Int × Int × Int × Int)) ← (if (((!(List.contains result parameters))) && ((!(List.contains result clone)))) then do
              let result := result ++ [parameters]
              pure result
            else do
              pure result
            )
          let result := st
          pure result
          ) result (pyRange (1 : Int) ((Int.fdiv right_size (2 : Int)) + (1 : Int)) (1 : Int))
      let result := st
      pure result
      ) result (pyRange (1 : Int) ((Int.fdiv left_size (2 : Int)) + (1 : Int)) (1 : Int))
  let result := st
  pure result

/-- translated from `hungarian_rings.py:hungarian_rings_generators` -/
def hungarian_rings_generators (left_size : Int) (left_index : Int) (right_size : Int) (right_index : Int) : Option ((List (List Int)) × (List String)) := do
  let st : Unit ← (if ((decide (left_size ≤ (1 : Int))) || (decide (right_size ≤ (1 : Int)))) then do
      none
    else do
      pure ()
    )
  let t_1 ← Cv.PyGen.Rings.hungarian_rings_permutations left_size left_index right_size right_index (1 : Int)
  let t_2 := t_1
  let forth_l : List Int := t_2.1
  let forth_r : List Int := t_2.2
  let t_3 ← Cv.PyGen.Rings.hungarian_rings_permutations left_size left_index right_size right_index (-(1 : Int))
  let t_4 := t_3
  let back_l : List Int := t_4.1
  let back_r : List Int := t_4.2
  let generators : List (List Int) := [forth_l, forth_r]
  let generator_names : List String := ["L", "R"]
  let st : (List (List Int)) × (List String) ← (if ((forth_l != back_l)) then do
      let generators := generators ++ [back_l]
      let generator_names := generator_names ++ ["-L"]
      pure (generators, generator_names)
    else do
      pure (generators, generator_names)
    )
  let generators := st.1
  let generator_names := st.2
  let st : (List (List Int)) × (List String) ← (if ((forth_r != back_r)) then do
      let generators := generators ++ [back_r]
      let generator_names := generator_names ++ ["-R"]
      pure (generators, generator_names)
    else do
      pure (generators, generator_names)
    )
  let generators := st.1
  let generator_names := st.2
  pure (generators, generator_names)

/-- translated from `hungarian_rings.py:get_group` -/
def get_group (n : Int) : Option (List (Int × Int × Int × Int)) := do
  let result : List (Int × Int × Int × Int) := []
  let full_size_one_intersection : Int := (n + (1 : Int))
  let st ← List.foldlM (fun (st : (List (Int × Int × Int × Int))) (left_size : Int) => do
      let result := st
      let right_size : Int := (full_size_one_intersection - left_size)
      let result := result ++ [(left_size, (0 : Int), right_size, (0 : Int))]
      pure result
      ) result (pyRange (2 : Int) ((Int.fdiv full_size_one_intersection (2 : Int)) + (1 : Int)) (1 : Int))
  let result := st
  let full_size_two_intersections : Int := (n + (2 : Int))
  let st ← List.foldlM (fun (st : (List (Int × Int × Int × Int))) (left_size : Int) => do
      let result := st
      let right_size : Int := (full_size_two_intersections - left_size)
      let t_1 ← Cv.PyGen.Rings.get_pair_variants left_size right_size
      let result := result ++ t_1
      pure result
      ) result (pyRange (2 : Int) ((Int.fdiv full_size_two_intersections (2 : Int)) + (1 : Int)) (1 : Int))
  let result := st
  pure result

end Cv.PyGen.Rings
