/-
  Model of `cayleypy/string_encoder.py`: bit-serial encode/decode, the compiler of a permutation into
  mask/shift/or statements (`prepare_shift_to_mask` + both code generators), the interpreter of such
  programs and a symbolic checker.  Core Lean only.  int64 tensors are `BitVec 64`; `>>` on them is the
  arithmetic shift `sshiftRight`.
-/
namespace Cv.Codec

abbrev W := BitVec 64

/-- `encoded_length = ceil(n*w/64)` -/
def encLen (w n : Nat) : Nat := (n * w + 63) / 64

/-- `l[i] |= v` -/
def orAt (l : List W) (i : Nat) (v : W) : List W := l.modify i (· ||| v)

/-- `StringEncoder.encode` for one row (`s` has int64 entries, given as naturals `< 2^63`):
`for i in range(w*n): encoded[i // 64] |= ((s[i // w] >> (i % w)) & 1) << (i % 64)` -/
def encode (w n : Nat) (s : List Nat) : List W :=
  (List.range (w * n)).foldl
    (fun enc i =>
      let v : W := BitVec.ofNat 64 (s.getD (i / w) 0)
      orAt enc (i / 64) (((v.sshiftRight (i % w)) &&& 1#64) <<< (i % 64)))
    (List.replicate (encLen w n) 0#64)

/-- `StringEncoder.decode` for one row:
`for i in range(w*n): orig[i // w] |= ((encoded[i // 64] >> (i % 64)) & 1) << (i % w)` -/
def decode (w n : Nat) (e : List W) : List Nat :=
  ((List.range (w * n)).foldl
    (fun orig i =>
      let v : W := e.getD (i / 64) 0#64
      orAt orig (i / w) (((v.sshiftRight (i % 64)) &&& 1#64) <<< (i % w)))
    (List.replicate n 0#64)).map BitVec.toNat

/-- the precondition asserted by `encode`: `0 ≤ s[i]` and `max < 2^w` (entries are int64, so `< 2^63`) -/
def encodable (w n : Nat) (s : List Nat) : Bool :=
  s.length == n && s.all fun v => decide (v < 2^w) && decide (v < 2^63)

/-- one generated statement `y[:,dst] |= (x[:,src] & mask) << shl` / `>> shr [& post]` -/
structure Stmt where
  src : Nat
  dst : Nat
  mask : W
  shl : Nat
  shr : Nat
  post : Option W
deriving Repr, BEq, DecidableEq

def Stmt.eval (s : Stmt) (x : W) : W :=
  let t := x &&& s.mask
  let t := if s.shl > 0 then t <<< s.shl else if s.shr > 0 then t.sshiftRight s.shr else t
  match s.post with
  | some m => t &&& m
  | none => t

/-- the 2-D routine: `y` zero-initialised, statements executed in order -/
def evalProg (prog : List Stmt) (len : Nat) (x : List W) : List W :=
  prog.foldl (fun y s => orAt y s.dst (s.eval (x.getD s.src 0#64))) (List.replicate len 0#64)

/-- the 1-D routine `lambda x: t1 | t2 | …` (single word) -/
def evalProg1d (prog : List Stmt) (x : W) : W :=
  prog.foldl (fun y s => y ||| s.eval x) 0#64

/-- symbolic meaning of one statement: which source bit (if any) feeds output bit `b` -/
def Stmt.srcBit (s : Stmt) (b : Nat) : Option Nat :=
  let pre : Option Nat :=
    if s.shl > 0 then (if s.shl ≤ b then some (b - s.shl) else none)
    else if s.shr > 0 then (if b + s.shr < 64 then some (b + s.shr) else some 63)
    else some b
  match pre with
  | none => none
  | some j =>
    if s.mask.getLsbD j && (match s.post with | some m => m.getLsbD b | none => true) then some j
    else none

/-- global bit position that the permutation routes to global output bit `t`:
element `t / w` of the new state is element `p[t / w]` of the old one. -/
def srcPos (p : List Nat) (w : Nat) (t : Nat) : Nat := p.getD (t / w) 0 * w + t % w

/-- one word of the specification: output bit `b` of word `d` is the routed input bit (padding: 0) -/
def permWord (p : List Nat) (w n : Nat) (x : List W) (d : Nat) : W :=
  (List.range 64).foldl (fun acc b =>
    let t := d * 64 + b
    if t < n * w && (x.getD (srcPos p w t / 64) 0#64).getLsbD (srcPos p w t % 64)
    then acc ||| (1#64 <<< b) else acc) 0#64

/-- the specification: the bit-permutation induced by `p` on encoded rows of `len` words -/
def permuteBits (p : List Nat) (w n : Nat) (len : Nat) (x : List W) : List W :=
  (List.range len).map (permWord p w n x)

/-- all (source word, source bit) pairs that are or-ed into output bit `(d, b)` -/
def contributors (prog : List Stmt) (d b : Nat) : List (Nat × Nat) :=
  prog.filterMap fun s =>
    if s.dst = d then (s.srcBit b).map fun j => (s.src, j) else none

/-- The checker: for every output bit the contributors are exactly the one bit the permutation
prescribes (or none for padding bits), and no statement writes outside the row. -/
def checkProg (prog : List Stmt) (p : List Nat) (w n len : Nat) : Bool :=
  prog.all (fun s => decide (s.dst < len) && decide (s.src < len)) &&
  (List.range len).all fun d =>
    (List.range 64).all fun b =>
      let t := d * 64 + b
      let cs := contributors prog d b
      if t < n * w then
        !cs.isEmpty && cs.all fun c => c == (srcPos p w t / 64, srcPos p w t % 64)
      else cs.isEmpty

/-! ### the compiler (`prepare_shift_to_mask` + code generation) -/

/-- `_one_shifted(bit_id)` as a 64-bit pattern -/
def oneShifted (bit : Nat) : W := 1#64 <<< bit

/-- `_mask_with_high_zeros(n) = (1 << (64 - n)) - 1` -/
def maskHighZeros (k : Nat) : W := BitVec.ofNat 64 (2^(64 - k) - 1)

/-- insertion-ordered dict `(start_cw, end_cw, shift) -> mask` -/
abbrev ShiftMap := List ((Nat × Nat × Int) × W)

def ShiftMap.orKey (m : ShiftMap) (k : Nat × Nat × Int) (v : W) : ShiftMap :=
  if m.any (fun e => e.1 == k) then m.map fun e => if e.1 == k then (e.1, e.2 ||| v) else e
  else m ++ [(k, v)]

def prepareShiftToMask (p : List Nat) (w n : Nat) : ShiftMap :=
  (List.range n).foldl (fun m i =>
    (List.range w).foldl (fun m j =>
      let startBit := p.getD i 0 * w + j
      let endBit := i * w + j
      let shift : Int := ((endBit % 64 : Nat) : Int) - ((startBit % 64 : Nat) : Int)
      m.orKey (startBit / 64, endBit / 64, shift) (oneShifted (startBit % 64))) m) []

/-- both code generators emit, per dict entry, `(x & mask) << s`, `(x & mask) >> s [& hi]` or `(x & mask)` -/
def compile (p : List Nat) (w n : Nat) : List Stmt :=
  (prepareShiftToMask p w n).map fun ((sc, ec, shift), mask) =>
    if shift > 0 then { src := sc, dst := ec, mask := mask, shl := shift.toNat, shr := 0, post := none }
    else if shift < 0 then
      { src := sc, dst := ec, mask := mask, shl := 0, shr := (-shift).toNat,
        post := if mask.msb then some (maskHighZeros (-shift).toNat) else none }
    else { src := sc, dst := ec, mask := mask, shl := 0, shr := 0, post := none }

/-- `max(1, int(math.ceil(math.log2(max + 1))))` computed exactly: the bit length of `max`, at least 1 -/
def autoWidth (maxVal : Nat) : Nat := if maxVal = 0 then 1 else Nat.log2 maxVal + 1

end Cv.Codec
