/-
  Closed-form specifications of the generated puzzles of `cayleypy/puzzles` (globe.py, hungarian_rings.py,
  cube.py), written from the physical description of the puzzles (rows/sectors of the globe, the two bead
  rings, a cube embedded in 3-space whose layers are turned rigidly) — NOT transliterated from the code.
  Agreement with the real generators is checked by `compare_puzzles.py` (task A11).  Core Lean only.

  Convention (as in the library): a generator is a one-line list `p`; applying it to a state gives
  `new[i] = old[p[i]]`, i.e. the content of position `p[i]` travels to position `i`.
-/
import CvModel.Perm
import CvModel.Gap
namespace Cv.Puzzles

/-- a generated puzzle: `n` points, named generators, central state -/
structure Puzzle where
  n : Nat
  names : List String
  gens : List (List Nat)
  central : List Nat
deriving Repr, BEq

/-- one-line permutation of `n` points from a point map -/
def ofFn (n : Nat) (f : Nat → Nat) : List Nat := (List.range n).map f

/-! ## Globe puzzle `globe_puzzle(a, b)`

`a + 1` latitude rows, `2 b` longitude sectors; the cell in row `r`, sector `x` is point `r * 2b + x`.
* `r<k>` turns row `k` by one sector, `r<k>_inv` turns it back;
* `f<c>` flips the half globe made of the `b` sectors `c, c+1, …, c+b-1 (mod 2b)` upside down: row `r` is
  exchanged with row `a - r` and the order of the `b` sectors is reversed.  When the number of rows is odd
  the middle row is not touched by a flip. -/

def globeRow (a b k : Nat) : List Nat :=
  ofFn (2 * (a + 1) * b) fun i =>
    if i / (2 * b) = k then k * (2 * b) + (i % (2 * b) + 1) % (2 * b) else i

def globeRowInv (a b k : Nat) : List Nat :=
  ofFn (2 * (a + 1) * b) fun i =>
    if i / (2 * b) = k then k * (2 * b) + (i % (2 * b) + (2 * b - 1)) % (2 * b) else i

def globeFlip (a b c : Nat) : List Nat :=
  ofFn (2 * (a + 1) * b) fun i =>
    let r := i / (2 * b)
    let k := (i % (2 * b) + (2 * b - c)) % (2 * b)      -- offset of the sector inside the flipped half
    if k < b ∧ 2 * r ≠ a then (a - r) * (2 * b) + (c + (b - 1 - k)) % (2 * b) else i

def globe (a b : Nat) : Puzzle :=
  { n := 2 * (a + 1) * b
    names := ((List.range (a + 1)).flatMap fun k => [s!"r{k}", s!"r{k}_inv"]) ++
             (List.range (2 * b)).map fun c => s!"f{c}"
    gens := ((List.range (a + 1)).flatMap fun k => [globeRow a b k, globeRowInv a b k]) ++
            (List.range (2 * b)).map fun c => globeFlip a b c
    central := List.range (2 * (a + 1) * b) }

/-! ## Hungarian rings `hungarian_rings(left_size, left_index, right_size, right_index)`

Two closed rings of `ls` and `rs` beads that cross in one point (`li = ri = 0`) or in two points.  The left
ring is `0, 1, …, ls-1`; point `0` is the first crossing, point `li` the second one.  The right ring starts at
the first crossing `0`, continues with the beads that are only on the right ring (numbered from `ls` on) and
passes through the second crossing `li` when `ri` more steps would close the ring.
A rotation sends every position of a ring to the next position of that ring. -/

def leftRing (ls : Nat) : List Nat := List.range ls

def rightRing (ls li rs ri : Nat) : List Nat :=
  if li = 0 ∧ ri = 0 then 0 :: List.range' ls (rs - 1)
  else 0 :: List.range' ls (rs - ri - 1) ++ li :: List.range' (ls + rs - ri - 1) (ri - 1)

def ringsSize (ls li rs ri : Nat) : Nat := if li = 0 ∧ ri = 0 then ls + rs - 1 else ls + rs - 2

/-- every position of `ring` is mapped to the next one (cyclically), the other points are fixed -/
def ringForth (n : Nat) (ring : List Nat) : List Nat :=
  ofFn n fun x =>
    let k := ring.idxOf x
    if k < ring.length then ring.getD ((k + 1) % ring.length) 0 else x

/-- every position of `ring` is mapped to the previous one -/
def ringBack (n : Nat) (ring : List Nat) : List Nat :=
  ofFn n fun x =>
    let k := ring.idxOf x
    if k < ring.length then ring.getD ((k + (ring.length - 1)) % ring.length) 0 else x

/-- the parameters accepted by `Puzzles.hungarian_rings` -/
def ringsAdmissible (ls li rs ri : Nat) : Bool :=
  1 < ls && 1 < rs && li < ls && ri < rs && ((li == 0 && ri == 0) || (0 < li && 0 < ri)) &&
  2 * li ≤ ls && 2 * ri ≤ rs

def hungarianRings (ls li rs ri : Nat) : Puzzle :=
  let n := ringsSize ls li rs ri
  let L := ringForth n (leftRing ls)
  let R := ringForth n (rightRing ls li rs ri)
  let L' := ringBack n (leftRing ls)
  let R' := ringBack n (rightRing ls li rs ri)
  let extra := (if L ≠ L' then [("-L", L')] else []) ++ (if R ≠ R' then [("-R", R')] else [])
  { n := n
    names := ["L", "R"] ++ extra.map (·.1)
    gens := [L, R] ++ extra.map (·.2)
    central := List.range n }

/-! ## n×n×n cube (`cube.py`)

The cube is the set of `n³` cubies with integer coordinates `x` (left → right), `y` (top → bottom),
`z` (front → back), each in `0..n-1`.  A sticker is a cubie together with the outward face it lies on:
`0 = U (y = 0)`, `1 = F (z = 0)`, `2 = R (x = n-1)`, `3 = B (z = n-1)`, `4 = L (x = 0)`, `5 = D (y = n-1)`.
Sticker numbering (cube.py): `face * n² + row * n + col` on the usual unfolded net

          U
        L F R B
          D

(rows of U run back → front, rows of D run front → back, columns of B run right → left, … ). -/

structure Sticker where
  face : Nat
  x : Nat
  y : Nat
  z : Nat
deriving DecidableEq, Repr

def stickerOf (n idx : Nat) : Sticker :=
  let f := idx / (n * n)
  let r := idx % (n * n) / n
  let c := idx % n
  match f with
  | 0 => ⟨0, c, 0, n - 1 - r⟩
  | 1 => ⟨1, c, r, 0⟩
  | 2 => ⟨2, n - 1, r, c⟩
  | 3 => ⟨3, n - 1 - c, r, n - 1⟩
  | 4 => ⟨4, 0, r, n - 1 - c⟩
  | _ => ⟨5, c, n - 1, r⟩

def indexOf (n : Nat) (s : Sticker) : Nat :=
  match s.face with
  | 0 => (n - 1 - s.z) * n + s.x
  | 1 => n * n + s.y * n + s.x
  | 2 => 2 * (n * n) + s.y * n + s.z
  | 3 => 3 * (n * n) + s.y * n + (n - 1 - s.x)
  | 4 => 4 * (n * n) + s.y * n + (n - 1 - s.z)
  | _ => 5 * (n * n) + s.z * n + s.x

/-- the three turning axes: `f` = front-back (`z`), `r` = right-left (`x`), `d` = down-up (`y`) -/
inductive Axis where
  | f | r | d
deriving DecidableEq, Repr

/-- layer `j` of an axis: `f<j>` is the slice `z = j` (counted from the front face), `r<j>` the slice
`x = n-1-j` (counted from the right face), `d<j>` the slice `y = n-1-j` (counted from the down face) -/
def inLayer (n : Nat) (ax : Axis) (j : Nat) (s : Sticker) : Bool :=
  match ax with
  | .f => s.z == j
  | .r => s.x == n - 1 - j
  | .d => s.y == n - 1 - j

/-- rigid quarter turn of 3-space about an axis (the same turn for all layers of the axis), acting on
cubie coordinates and on the face a sticker points to.
* `f`: `(x, y) ↦ (y, n-1-x)`, faces `U → L → D → R → U`   (counterclockwise seen from the front);
* `r`: `(y, z) ↦ (n-1-z, y)`, faces `U → F → D → B → U`;
* `d`: `(x, z) ↦ (z, n-1-x)`, faces `F → L → B → R → F`. -/
def quarter (n : Nat) (ax : Axis) (s : Sticker) : Sticker :=
  match ax with
  | .f => ⟨match s.face with | 0 => 4 | 4 => 5 | 5 => 2 | 2 => 0 | g => g, s.y, n - 1 - s.x, s.z⟩
  | .r => ⟨match s.face with | 0 => 1 | 1 => 5 | 5 => 3 | 3 => 0 | g => g, s.x, n - 1 - s.z, s.y⟩
  | .d => ⟨match s.face with | 1 => 4 | 4 => 3 | 3 => 2 | 2 => 1 | g => g, s.z, s.y, n - 1 - s.x⟩

/-- the stickers of layer `j` of axis `ax` (increasing) -/
def cubeLayer (n : Nat) (ax : Axis) (j : Nat) : List Nat :=
  (List.range (6 * n * n)).filter fun i => inLayer n ax j (stickerOf n i)

/-- the centre sticker of a face perpendicular to the axis (odd `n` only): a turn of that face rotates it in
place, so as a POSITION it is not moved although it belongs to the layer -/
def isAxisCentre (n : Nat) (ax : Axis) (s : Sticker) : Bool :=
  match ax with
  | .f => (s.face == 1 || s.face == 3) && 2 * s.x == n - 1 && 2 * s.y == n - 1
  | .r => (s.face == 2 || s.face == 4) && 2 * s.y == n - 1 && 2 * s.z == n - 1
  | .d => (s.face == 0 || s.face == 5) && 2 * s.x == n - 1 && 2 * s.z == n - 1

/-- the stickers of the layer whose position changes: the whole layer except such a face centre -/
def cubeLayerMoved (n : Nat) (ax : Axis) (j : Nat) : List Nat :=
  (cubeLayer n ax j).filter fun i => !isAxisCentre n ax (stickerOf n i)

/-- the layer turn `f<j>` / `r<j>` / `d<j>` of `generate_cube_permutations_oneline(n)` -/
def cubeMove (n : Nat) (ax : Axis) (j : Nat) : List Nat :=
  ofFn (6 * n * n) fun i =>
    let s := stickerOf n i
    if inLayer n ax j s then indexOf n (quarter n ax s) else i

def axisName : Axis → String
  | .f => "f" | .r => "r" | .d => "d"

/-- `generate_cube_permutations_oneline(n)`: `f0 … f(n-1), r0 … r(n-1), d0 … d(n-1)` -/
def cubeMoves (n : Nat) : List (String × List Nat) :=
  [Axis.f, Axis.r, Axis.d].flatMap fun ax =>
    (List.range n).map fun j => (axisName ax ++ toString j, cubeMove n ax j)

def cubeCentral (n : Nat) : List Nat := (List.range 6).flatMap fun c => List.replicate (n * n) c

/-- `rubik_cube_qstm(n)`: every layer turn and its inverse -/
def cubeQstm (n : Nat) : Puzzle :=
  let ms := cubeMoves n
  { n := 6 * n * n
    names := ms.flatMap fun m => [m.1, m.1 ++ "_inv"]
    gens := ms.flatMap fun m => [m.2, Perm.inverse m.2]
    central := cubeCentral n }

/-- the moves kept by `get_qtm_metric_moves` / `get_htm_metric_moves`: the central layer of an odd cube
is dropped -/
def cubeOuterMoves (n : Nat) : List (String × List Nat) :=
  [Axis.f, Axis.r, Axis.d].flatMap fun ax =>
    ((List.range n).filter fun j => !(n % 2 == 1 && j == (n - 1) / 2)).map fun j =>
      (axisName ax ++ toString j, cubeMove n ax j)

/-- `rubik_cube_qtm(n)` -/
def cubeQtm (n : Nat) : Puzzle :=
  let ms := cubeOuterMoves n
  { n := 6 * n * n
    names := ms.flatMap fun m => [m.1, m.1 ++ "'"]
    gens := ms.flatMap fun m => [m.2, Perm.inverse m.2]
    central := cubeCentral n }

/-- `rubik_cube_htm(n)`: quarter turns, their inverses and the half turns -/
def cubeHtm (n : Nat) : Puzzle :=
  let ms := cubeOuterMoves n
  { n := 6 * n * n
    names := ms.flatMap fun m => [m.1, m.1 ++ "'", m.1 ++ "^2"]
    gens := ms.flatMap fun m => [m.2, Perm.inverse m.2, Perm.compose m.2 m.2]
    central := cubeCentral n }

/-- all structure claims of property C16 about the cube of size `n`, as one decidable check:
every layer turn is a list of `6 n²` points `< 6 n²` of order exactly 4 (hence a permutation) whose moved positions are exactly the stickers of its layer
(minus an in-place rotating face centre), turns of the same axis commute, and the QSTM / QTM / HTM generator
sets are inverse-closed -/
def cubeCheck (n : Nat) : Bool :=
  ([Axis.f, Axis.r, Axis.d].all fun ax =>
    (List.range n).all fun j =>
      let p := cubeMove n ax j
      p.length == 6 * n * n && p.all (· < 6 * n * n) && Gap.order4 p &&
      Gap.supportOf p == cubeLayerMoved n ax j &&
      (List.range n).all fun j' => Gap.commute p (cubeMove n ax j')) &&
  Gap.isInverseClosedSet (cubeQstm n).gens && Gap.isInverseClosedSet (cubeQtm n).gens &&
  Gap.isInverseClosedSet (cubeHtm n).gens

end Cv.Puzzles
