/-
  Models of `CayleyGraph.restore_path`, `find_path_to`, `find_path_from` (cayley_graph.py:225-281),
  `InteractiveBfs` (algo/interactive_bfs.py), `MeetInTheMiddle` (algo/bfs_mitm.py) and `find_path`
  (algo/find_path.py).  Core Lean only.

  A graph comes with its inverted copy `gi` (generator `i` of `gi` undoes generator `i` of `g`); both share
  the hasher, as `modified_copy` guarantees.
-/
import CvModel.Bfs
namespace Cv

variable {α : Type}

/-- outcome of a path query: the code returns a path, returns `None`, or trips an assertion -/
inductive PathRes where
  | found (p : List Nat)
  | notFound
  | assertFail (msg : String)
deriving Repr, BEq, DecidableEq

/-- `graph.restore_path(hashes, to_state)`; `gi` is `graph.with_inverted_generators`.
Walks the layers backwards; at each layer takes the FIRST generator of the inverted graph whose
neighbour's hash is in the layer (`torch.isin`, plain membership). -/
def restorePath (gi : Graph α) (hashes : List (List Int)) (to : α) : Option (List Nat) :=
  (hashes.reverse.foldlM (fun (acc : α × List Nat) (layer : List Int) =>
      let cands := (List.range gi.nGens).map fun i => gi.act i acc.1
      match cands.findIdx? (fun c => layer.contains (gi.hash c)) with
      | some k => some (gi.act k acc.1, k :: acc.2)
      | none => none) (to, [])).map fun (r : α × List Nat) => r.2

/-- `graph.find_path_to(end_state, bfs_result)` given `bfs_result.layers_hashes` -/
def findPathTo (g gi : Graph α) (layersHashes : List (List Int)) (endState : α) : PathRes :=
  match layersHashes.findIdx? (fun layer => isinSorted layer (g.hash endState)) with
  | some i =>
    match restorePath gi (layersHashes.take i) endState with
    | some p => .found p
    | none => .assertFail "Not found any neighbor on previous layer."
  | none => .notFound

/-- `definition.revert_path` over the inverse map -/
def revertPathM (invMap : Option (List Nat)) (p : List Nat) : Option (List Nat) :=
  match invMap with
  | none => none
  | some idx => p.reverse.mapM fun i => idx[i]?

/-- `graph.find_path_from(start_state, bfs_result)` -/
def findPathFrom (g gi : Graph α) (invMap : Option (List Nat)) (layersHashes : List (List Int)) (start : α) :
    PathRes :=
  if !g.invClosed then .assertFail "generators_inverse_closed" else
  match findPathTo g gi layersHashes start with
  | .found p =>
    match revertPathM invMap p with
    | some r => .found r
    | none => .assertFail "Cannot revert path"
  | r => r

/-! ### InteractiveBfs -/

structure IBfs (α : Type) where
  cur : List α
  hashes : List (List Int)

def IBfs.init (g : Graph α) (starts : List α) : IBfs α :=
  let u := g.unique starts
  { cur := u, hashes := [u.map g.hash] }

/-- `_remove_seen_states` for one hash: the last two layers always, all earlier ones unless inverse-closed -/
def IBfs.notSeen (g : Graph α) (b : IBfs α) (h : Int) : Bool :=
  let n := b.hashes.length
  let recent := b.hashes.drop (n - 2)
  let older := if g.invClosed then [] else b.hashes.take (n - 2)
  (recent ++ older).all fun s => !isinSorted s h

def IBfs.step (g : Graph α) (b : IBfs α) : IBfs α :=
  let u := g.unique (g.neighbors b.cur)
  let keep := u.filter fun x => b.notSeen g (g.hash x)
  { cur := keep, hashes := b.hashes ++ [keep.map g.hash] }

/-- `find_on_last_layer(hashes)`: first state of the current layer whose hash is in `hs` (sorted) -/
def IBfs.findOnLast (g : Graph α) (b : IBfs α) (hs : List Int) : Option α :=
  b.cur.find? fun x => isinSorted hs (g.hash x)

/-! ### Meet in the middle -/

/-- `MeetInTheMiddle.find_path_to(graph, dest_state, bfs_result)`; `layersHashes` non-empty with the
central state's hash first (asserted by the code). -/
def mitmFindPathTo (g gi : Graph α) (layersHashes : List (List Int)) (dest : α) : PathRes :=
  match findPathTo g gi layersHashes dest with
  | .found p => .found p
  | .assertFail m => .assertFail m
  | .notFound =>
    let lastLayer := layersHashes.getLast?.getD []
    let isMiddle := fun x => isinSorted lastLayer (g.hash x)
    let c : BfsCfg α :=
      { maxStore := none, maxDiameter := layersHashes.length - 1, returnHashes := true, disableBatching := true,
        stop := some fun _ layer2 => layer2.any isMiddle }
    let r2 := bfs gi c [dest]
    -- middle states: collected by the callback on the layer where it fired (the last one)
    let lastStored := (r2.layers.find? fun p => p.1 == r2.layerSizes.length - 1).map (·.2)
    let middles := (lastStored.getD []).filter isMiddle
    -- `for middle_state in middle_states: try path1 … except AssertionError: continue; path2 …; return`
    let rec go : List α → PathRes
      | [] => .notFound
      | m :: rest =>
        match restorePath gi layersHashes.dropLast m with
        | none => go rest
        | some p1 =>
          match restorePath g r2.hashes.dropLast m with
          | some p2 => .found (p1 ++ p2.reverse)
          | none => .assertFail "Not found any neighbor on previous layer."
    go middles

/-- `MeetInTheMiddle.find_path_from` -/
def mitmFindPathFrom (g gi : Graph α) (invMap : Option (List Nat)) (layersHashes : List (List Int))
    (start : α) : PathRes :=
  if !g.invClosed then .assertFail "generators_inverse_closed" else
  match mitmFindPathTo g gi layersHashes start with
  | .found p =>
    match revertPathM invMap p with
    | some r => .found r
    | none => .assertFail "Cannot revert path"
  | r => r

/-- result of `find_path_between`: `CayleyPath(start_state, edges)` -/
structure BetweenRes (α : Type) where
  start : α
  edges : List Nat

/-- the loop `for _ in range(max_diameter)` of `find_path_between` -/
def betweenLoop (g gi : Graph α) : Nat → IBfs α → IBfs α → Option (Option (BetweenRes α))
  | 0, _, _ => some none
  | fuel+1, b1, b2 =>
    let b1 := b1.step g
    let b2 := b2.step gi
    let n2 := b2.hashes.length
    -- `for i in [2, 1]`: last layer of bfs1 against the last two layers of bfs2
    let try2 := (b1.findOnLast g (b2.hashes.getD (n2 - 2) [])).map fun m => (m, b2.hashes.take (n2 - 2))
    let try1 := (b1.findOnLast g (b2.hashes.getD (n2 - 1) [])).map fun m => (m, b2.hashes.take (n2 - 1))
    match try2.orElse (fun _ => try1) with
    | some (mid, hs2) =>
      match restorePath g hs2 mid, restorePath gi b1.hashes.dropLast mid with
      | some p2, some p1 =>
        let start := applyPath gi.act mid p1.reverse
        some (some { start := start, edges := p1 ++ p2.reverse })
      | _, _ => none     -- AssertionError in restore_path
    | none => betweenLoop g gi fuel b1 b2

/-- `MeetInTheMiddle.find_path_between(graph, start_states, dest_states, max_diameter)`;
outer `none` = assertion failure -/
def findPathBetween (g gi : Graph α) (starts dests : List α) (maxDiameter : Nat) :
    Option (Option (BetweenRes α)) :=
  let b1 := IBfs.init g starts
  let b2 := IBfs.init gi dests
  match b1.findOnLast g (b2.hashes.getLast?.getD []) with
  | some mid => some (some { start := mid, edges := [] })
  | none => betweenLoop g gi maxDiameter b1 b2

/-! ### find_path -/

/-- `_precompute_bfs(graph, **kwargs)` (`max_layer_size_to_store=0` means "store everything") -/
def precomputeBfs (g : Graph α) (central : α) (maxExplore maxDiameter : Option Nat) : BfsOut α :=
  bfs g { maxStore := some 0, maxExplore := (maxExplore.filter (· ≠ 0)).getD (10^6),
          maxDiameter := (maxDiameter.filter (· ≠ 0)).getD 50, returnHashes := true } [central]

/-- `find_path(graph, start_state, **kwargs)` for graphs without a pre-trained model -/
def findPath (g gi : Graph α) (invMap : Option (List Nat)) (central start : α)
    (maxExplore maxDiameter : Option Nat) : PathRes :=
  if g.invClosed then
    mitmFindPathFrom g gi invMap (precomputeBfs g central maxExplore maxDiameter).hashes start
  else
    match mitmFindPathTo gi g (precomputeBfs gi central maxExplore maxDiameter).hashes start with
    | .found p => .found p.reverse
    | r => r

end Cv
