/-
  The reference BFS with a vertex budget: the same steps as `refLoop` (CvModel/Spec.lean), stopped as soon
  as the next layer would push the number of enumerated vertices above `cap`.  Used for the dataset rows
  whose orbit is too large to enumerate.  Core Lean only.
-/
import CvModel.Spec
namespace Cv

inductive RefStop where
  | exhausted   -- an empty next layer was computed: the layers are the whole orbit
  | depth       -- the depth limit was reached
  | capped      -- the vertex budget was reached
deriving Repr, BEq, DecidableEq

def refLoopCap (nb : Nat → List Nat) (cap : Nat) : Nat → Nat → List Nat → List Nat → List (List Nat) × RefStop
  | 0, _, _, cur => ([cur], .depth)
  | fuel+1, total, seen, cur =>
    let nxt := refStep nb seen cur
    if nxt.isEmpty then ([cur], .exhausted)
    else if total + nxt.length > cap then ([cur], .capped)
    else
      let r := refLoopCap nb cap fuel (total + nxt.length)
        (List.merge seen nxt (fun a b => decide (a ≤ b))) nxt
      (cur :: r.1, r.2)

def refLayersCap (nb : Nat → List Nat) (S : List Nat) (maxDepth cap : Nat) : List (List Nat) × RefStop :=
  let l0 := sortDedup S
  refLoopCap nb cap maxDepth l0.length l0 l0

end Cv
