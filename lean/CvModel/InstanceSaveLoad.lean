/-
  The saved form of a BFS result of the bit-encoded permutation graph: what `BfsAlgorithm.bfs` puts into the `BfsResult`
  it returns (bfs_algo.py:167-174) and `BfsResult.save` writes (definitions only, core Lean only).

  The loop works on encoded rows; the stored layers are DECODED on the way into the result
  (`layers[i] = graph.decode_states(layer2)`), everything else (sizes, completion flag, hash tensors, edge list) is
  taken as it is, and the graph definition (generators, generator names, central state, name) is attached.
-/
import CvModel.Bfs
import CvModel.Codec
import CvModel.GraphDef
import CvModel.SaveLoad
namespace Cv.InstanceSaveLoad

/-- `graph.decode_states` on one row, as the int64 row the result holds -/
def decodeRow (w n : Nat) (x : List Cv.Codec.W) : List Int := (Cv.Codec.decode w n x).map Int.ofNat

/-- the `BfsResult` built from a run of the BFS model on encoded rows (width `w`, state size `n`) for the definition
`d`: stored layers decoded, the rest copied -/
def savedForm (w n : Nat) (d : Cv.GraphDef.PermDef) (r : Cv.BfsOut (List Cv.Codec.W)) : Cv.SaveLoad.Res :=
  { completed := r.completed, layerSizes := r.layerSizes,
    layers := r.layers.map fun p => (p.1, p.2.map (decodeRow w n)),
    layersHashes := r.hashes, edges := r.edges,
    gens := d.gens, genNames := d.names, central := d.central, name := d.name }

end Cv.InstanceSaveLoad
