/-
  A state machine for one `CayleyGraph` object and the copies derived from it (property C14): what an operation
  returns, and which per-object state it leaves behind.  Core Lean only.

  Per object, immutable: the definition, the encoder parameters, the hasher parameters (seed included), the batch size
  (`CayleyGraph.__init__`, cayley_graph.py:50-116).  Per object, mutable — the ONLY attributes written after
  construction:
    * `with_inverted_generators` (cayley_graph.py:312-315), a `cached_property`: the inverted copy, created by
      `modified_copy` on first use and then kept;
    * `_bfs_result_for_find_path` / `_bfs_result_for_find_path_key` (algo/find_path.py:14-32): the ball pre-computed by
      `find_path`, kept together with the limits it was computed for.
  `modified_copy` (cayley_graph.py:317-329) builds `CayleyGraph(new_def, _hasher=self.hasher, bit_encoding_width=…)`
  and then installs the origin's hasher and encoder: the copy shares `enc` and `hasher` with its origin; its batch size
  is the constructor default, not the origin's.

  WHAT an operation computes (what a BFS returns for a definition, …) is a PARAMETER of the model (`Compute`): every
  semantic function receives the immutable part of the object it runs on and, where the code reaches for
  `self.with_inverted_generators` (`restore_path`, `MeetInTheMiddle.find_path_to`; possibly also of the inverted copy:
  `graph_inv.restore_path`), the immutable parts of the inverted copies it actually finds in the session.  The model is
  the bookkeeping: object allocation, the two caches, copies.

  `stepWith keyed`: `keyed = true` is the code (cache compared with its key); `keyed = false` is the code before the
  repair "find_path re-computes its cached BFS when called with different BFS limits" (cache reused whatever the limits).
-/
namespace Cv.Session

abbrev ObjId := Nat

/-- cache key of the ball of `find_path`: `(max_layer_size_to_explore or 10**6, max_diameter or 50)` -/
abbrev BallKey := Nat × Nat

/-- the two BFS limits `find_path` reads from its keyword arguments -/
structure Limits where
  maxLayerSizeToExplore : Option Nat := none
  maxDiameter : Option Nat := none
deriving Repr, DecidableEq

/-- Python `kwargs.get(k) or d`: absent, `None` and `0` give the default -/
def orDefault (x : Option Nat) (d : Nat) : Nat :=
  match x with
  | some (n+1) => n+1
  | _ => d

def Limits.key (l : Limits) : BallKey :=
  (orDefault l.maxLayerSizeToExplore (10^6), orDefault l.maxDiameter 50)

section
variable {Def Enc Hasher Arg Res : Type}

/-- the immutable part of a graph object -/
structure Imm (Def Enc Hasher : Type) where
  defn : Def
  enc : Enc
  hasher : Hasher
  batch : Nat
deriving Repr, DecidableEq

structure Obj (Def Enc Hasher Res : Type) where
  defn : Def
  enc : Enc
  hasher : Hasher
  batch : Nat
  /-- `with_inverted_generators` once evaluated -/
  invertedCache : Option ObjId
  /-- `_bfs_result_for_find_path_key`, `_bfs_result_for_find_path` -/
  ballCache : Option (BallKey × Res)
deriving Repr, DecidableEq

def Obj.imm (o : Obj Def Enc Hasher Res) : Imm Def Enc Hasher := ⟨o.defn, o.enc, o.hasher, o.batch⟩

/-- a freshly constructed object -/
def Obj.new (i : Imm Def Enc Hasher) : Obj Def Enc Hasher Res :=
  { defn := i.defn, enc := i.enc, hasher := i.hasher, batch := i.batch, invertedCache := none, ballCache := none }

structure Session (Def Enc Hasher Res : Type) where
  objs : List (Obj Def Enc Hasher Res)
deriving Repr, DecidableEq

/-- the session right after `CayleyGraph(definition, random_seed=…, …)`: one object, no caches -/
def fresh (root : Imm Def Enc Hasher) : Session Def Enc Hasher Res := ⟨[Obj.new root]⟩

/-- the pure semantic functions; `Arg` stands for any user-supplied argument (options, states, recorded random
draws), `Res` for any returned value -/
structure Compute (Def Enc Hasher Arg Res : Type) where
  /-- `definition.with_inverted_generators()` -/
  invert : Def → Def
  /-- `definition.generators_inverse_closed` -/
  invClosed : Def → Bool
  /-- `definition.name in PREDICTOR_MODELS` -/
  hasModel : Def → Bool
  /-- the `batch_size` default of the constructor -/
  defaultBatch : Nat
  /-- `graph.bfs(**opts)` -/
  bfs : Imm Def Enc Hasher → Arg → Res
  /-- the options `_precompute_bfs` passes for a key -/
  ballOpts : BallKey → Arg
  /-- `MeetInTheMiddle.find_path_from(graph, start, ball)`; the list is the chain of inverted copies it reaches -/
  pathFrom : Imm Def Enc Hasher → List (Imm Def Enc Hasher) → Arg → Res → Res
  /-- `MeetInTheMiddle.find_path_to(graph_inv, start, ball)[::-1]` (run on the inverted copy) -/
  revPathTo : Imm Def Enc Hasher → List (Imm Def Enc Hasher) → Arg → Res → Res
  /-- how far down the chain graph → inverted copy → its inverted copy … the MITM query reaches (0: not at all) -/
  mitmDepth : Imm Def Enc Hasher → Arg → Res → Nat
  /-- `graph.find_path_to / find_path_from / restore_path (…, bfs_result)` with a result the caller holds -/
  pathQuery : Imm Def Enc Hasher → List (Imm Def Enc Hasher) → Arg → Res → Res
  pathQueryDepth : Imm Def Enc Hasher → Arg → Res → Nat
  /-- `graph.beam_search(**args)` -/
  beam : Imm Def Enc Hasher → List (Imm Def Enc Hasher) → Arg → Res
  beamDepth : Imm Def Enc Hasher → Arg → Nat
  /-- the arguments `find_path` passes to `beam_search` when a pre-trained model exists -/
  modelBeamArgs : Arg → Limits → Arg
  /-- `graph.random_walks(**args)` with the recorded random draws -/
  walks : Imm Def Enc Hasher → Arg → Arg → Res
  /-- `to_networkx_graph`, `adjacency_matrix`, … -/
  exportGraph : Imm Def Enc Hasher → Arg → Res

inductive Op (Def Arg Res : Type) where
  | bfs (obj : ObjId) (opts : Arg)
  | findPath (obj : ObjId) (start : Arg) (limits : Limits)
  | pathQuery (obj : ObjId) (q : Arg) (ball : Res)
  | beam (obj : ObjId) (args : Arg)
  | walks (obj : ObjId) (args : Arg) (draws : Arg)
  | takeInverted (obj : ObjId)
  | modifiedCopy (obj : ObjId) (newDef : Def)
  | exportGraph (obj : ObjId) (args : Arg)

def Op.target : Op Def Arg Res → ObjId
  | .bfs k _ | .findPath k _ _ | .pathQuery k _ _ | .beam k _ | .walks k _ _ | .takeInverted k
  | .modifiedCopy k _ | .exportGraph k _ => k

/-- the same operation addressed to another object -/
def Op.retarget (k : ObjId) : Op Def Arg Res → Op Def Arg Res
  | .bfs _ a => .bfs k a
  | .findPath _ a l => .findPath k a l
  | .pathQuery _ q b => .pathQuery k q b
  | .beam _ a => .beam k a
  | .walks _ a d => .walks k a d
  | .takeInverted _ => .takeInverted k
  | .modifiedCopy _ d => .modifiedCopy k d
  | .exportGraph _ a => .exportGraph k a

inductive Out (Res : Type) where
  | value (r : Res)
  /-- a graph object is returned (a reference) -/
  | obj (id : ObjId)
  | noSuchObject
deriving Repr, DecidableEq

/-- `modified_copy(new_def)`: a new object sharing encoder and hasher with its origin -/
def copyOf (c : Compute Def Enc Hasher Arg Res) (o : Obj Def Enc Hasher Res) (newDef : Def) : Obj Def Enc Hasher Res :=
  { defn := newDef, enc := o.enc, hasher := o.hasher, batch := c.defaultBatch, invertedCache := none,
    ballCache := none }

/-- `graph.with_inverted_generators` (cached_property) on object `k`: the cached copy, or a new one that is cached -/
def inverted (c : Compute Def Enc Hasher Arg Res) (s : Session Def Enc Hasher Res) (k : ObjId) :
    Session Def Enc Hasher Res × Option ObjId :=
  match s.objs[k]? with
  | none => (s, none)
  | some o =>
    match o.invertedCache with
    | some id => (s, some id)
    | none =>
      (⟨(s.objs ++ [copyOf c o (c.invert o.defn)]).set k { o with invertedCache := some s.objs.length }⟩,
       some s.objs.length)

/-- the code path reaches for `with_inverted_generators` along the chain of inverted copies, `depth` levels deep;
returns the immutable parts of the copies it finds -/
def touchChain (c : Compute Def Enc Hasher Arg Res) :
    Nat → Session Def Enc Hasher Res → ObjId → Session Def Enc Hasher Res × List (Imm Def Enc Hasher)
  | 0, s, _ => (s, [])
  | d+1, s, k =>
    match inverted c s k with
    | (s1, some id) =>
      match s1.objs[id]? with
      | some oi => ((touchChain c d s1 id).1, oi.imm :: (touchChain c d s1 id).2)
      | none => (s1, [])
    | (s1, none) => (s1, [])

/-- `_precompute_bfs(graph, **kwargs)` on object `k` -/
def precompute (keyed : Bool) (c : Compute Def Enc Hasher Arg Res) (s : Session Def Enc Hasher Res) (k : ObjId)
    (key : BallKey) : Session Def Enc Hasher Res × Option Res :=
  match s.objs[k]? with
  | none => (s, none)
  | some o =>
    let recompute : Session Def Enc Hasher Res × Option Res :=
      let b := c.bfs o.imm (c.ballOpts key)
      (⟨s.objs.set k { o with ballCache := some (key, b) }⟩, some b)
    match o.ballCache with
    | some (key', b) => if !keyed || key' = key then (s, some b) else recompute
    | none => recompute

/-- one public operation -/
def stepWith (keyed : Bool) (c : Compute Def Enc Hasher Arg Res) (s : Session Def Enc Hasher Res) :
    Op Def Arg Res → Session Def Enc Hasher Res × Out Res
  | .bfs k opts =>
    match s.objs[k]? with
    | none => (s, .noSuchObject)
    | some o => (s, .value (c.bfs o.imm opts))
  | .walks k args draws =>
    match s.objs[k]? with
    | none => (s, .noSuchObject)
    | some o => (s, .value (c.walks o.imm args draws))
  | .exportGraph k args =>
    match s.objs[k]? with
    | none => (s, .noSuchObject)
    | some o => (s, .value (c.exportGraph o.imm args))
  | .pathQuery k q ball =>
    match s.objs[k]? with
    | none => (s, .noSuchObject)
    | some o =>
      let t := touchChain c (c.pathQueryDepth o.imm q ball) s k
      (t.1, .value (c.pathQuery o.imm t.2 q ball))
  | .beam k args =>
    match s.objs[k]? with
    | none => (s, .noSuchObject)
    | some o =>
      let t := touchChain c (c.beamDepth o.imm args) s k
      (t.1, .value (c.beam o.imm t.2 args))
  | .takeInverted k =>
    match inverted c s k with
    | (s1, some id) => (s1, .obj id)
    | (s1, none) => (s1, .noSuchObject)
  | .modifiedCopy k d =>
    match s.objs[k]? with
    | none => (s, .noSuchObject)
    | some o => (⟨s.objs ++ [copyOf c o d]⟩, .obj s.objs.length)
  | .findPath k start lim =>
    match s.objs[k]? with
    | none => (s, .noSuchObject)
    | some o =>
      if c.hasModel o.defn then
        -- beam search with the pre-trained predictor; nothing is cached
        let args := c.modelBeamArgs start lim
        let t := touchChain c (c.beamDepth o.imm args) s k
        (t.1, .value (c.beam o.imm t.2 args))
      else if c.invClosed o.defn then
        match precompute keyed c s k lim.key with
        | (s1, some ball) =>
          let t := touchChain c (c.mitmDepth o.imm start ball) s1 k
          (t.1, .value (c.pathFrom o.imm t.2 start ball))
        | (s1, none) => (s1, .noSuchObject)
      else
        -- the ball is computed for, and cached on, the inverted copy
        match inverted c s k with
        | (s1, some gi) =>
          match s1.objs[gi]? with
          | some oi =>
            match precompute keyed c s1 gi lim.key with
            | (s2, some ball) =>
              let t := touchChain c (c.mitmDepth oi.imm start ball) s2 gi
              (t.1, .value (c.revPathTo oi.imm t.2 start ball))
            | (s2, none) => (s2, .noSuchObject)
          | none => (s1, .noSuchObject)
        | (s1, none) => (s1, .noSuchObject)

/-- the code -/
def step (c : Compute Def Enc Hasher Arg Res) (s : Session Def Enc Hasher Res) (op : Op Def Arg Res) :
    Session Def Enc Hasher Res × Out Res := stepWith true c s op

def runWith (keyed : Bool) (c : Compute Def Enc Hasher Arg Res) (s : Session Def Enc Hasher Res)
    (ops : List (Op Def Arg Res)) : Session Def Enc Hasher Res :=
  ops.foldl (fun s op => (stepWith keyed c s op).1) s

def run (c : Compute Def Enc Hasher Arg Res) (s : Session Def Enc Hasher Res) (ops : List (Op Def Arg Res)) :
    Session Def Enc Hasher Res := runWith true c s ops

/-- what can be observed of an output: a returned value as it is; a returned object through its immutable part (the
raw reference depends on the allocation order, its content must not) -/
inductive OutView (Def Enc Hasher Res : Type) where
  | value (r : Res)
  | obj (i : Imm Def Enc Hasher)
  | noSuchObject
deriving Repr, DecidableEq

def view (p : Session Def Enc Hasher Res × Out Res) : OutView Def Enc Hasher Res :=
  match p.2 with
  | .value r => .value r
  | .obj id =>
    match p.1.objs[id]? with
    | some o => .obj o.imm
    | none => .noSuchObject
  | .noSuchObject => .noSuchObject

end
end Cv.Session
