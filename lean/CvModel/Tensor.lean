/-
  List-level models of the torch operations cayleypy relies on.  Core Lean only.

  torch.sort(stable=True) by key          -> `sortByKey`
  first-occurrence mask after the sort    -> `dedupAdj`
  CayleyGraph.get_unique_states           -> `uniqueStates`
  torch.searchsorted (left)               -> `searchsorted` (specified on sorted haystacks)
  torch_utils.isin_via_searchsorted       -> `isinSorted`
  torch.isin                              -> `List.contains`
  tensor.tensor_split(k)                  -> `tensorSplit`
  TorchHashSet                            -> `HashSetM`
-/
namespace Cv

variable {α : Type}

/-- `torch.sort(hashes, stable=True)` applied to rows: stable sort of rows by an integer key. -/
def sortByKey (key : α → Int) (xs : List α) : List α :=
  xs.mergeSort (fun a b => decide (key a ≤ key b))

/-- `mask[0] = True; mask[1:] = h[1:] != h[:-1]` : keep a row iff its key differs from the key of the
row before it.  `prev` is the key of the previous row. -/
def dedupAdj (key : α → Int) : Option Int → List α → List α
  | _, [] => []
  | prev, a :: t =>
    if prev = some (key a) then dedupAdj key prev t else a :: dedupAdj key (some (key a)) t

/-- `CayleyGraph.get_unique_states`: rows sorted by hash, first row of every hash value kept.
(For the identity hasher the code calls `torch.unique(sorted=True)` on the single column, which is the
same list of rows.) -/
def uniqueStates (hash : α → Int) (xs : List α) : List α :=
  dedupAdj hash none (sortByKey hash xs)

/-- `torch.searchsorted(hay, v)` (left insertion point) for a sorted haystack. -/
def searchsorted (hay : List Int) (v : Int) : Nat := (hay.takeWhile (fun a => decide (a < v))).length

/-- `isin_via_searchsorted(v, hay)` for one element. -/
def isinSorted (hay : List Int) (v : Int) : Bool :=
  match hay with
  | [] => false
  | _ :: _ =>
    let ts := searchsorted hay v
    let ts := if ts ≥ hay.length then hay.length - 1 else ts
    match hay[ts]? with
    | some a => a == v
    | none => false

/-- sizes of `tensor_split(len, k)`: the first `len % k` parts have one more element. -/
def splitSizes (len k : Nat) : List Nat :=
  (List.range k).map fun i => len / k + (if i < len % k then 1 else 0)

def splitBy : List Nat → List α → List (List α)
  | [], _ => []
  | n :: ns, xs => xs.take n :: splitBy ns (xs.drop n)

/-- `tensor.tensor_split(k, dim=0)` -/
def tensorSplit (k : Nat) (xs : List α) : List (List α) := splitBy (splitSizes xs.length k) xs

/-- `int(math.ceil(len / size))` for positive size -/
def ceilDiv (len size : Nat) : Nat := (len + size - 1) / size

/-- `TorchHashSet`: list of sorted hash tensors; merged into one when 10 have accumulated. -/
structure HashSetM where
  data : List (List Int) := []

def sortInts (l : List Int) : List Int := l.mergeSort (fun a b => decide (a ≤ b))

def HashSetM.addSorted (s : HashSetM) (h : List Int) : HashSetM :=
  let d := s.data ++ [h]
  if d.length ≥ 10 then { data := [sortInts d.flatten] } else { data := d }

/-- `get_mask_to_remove_seen_hashes` for one element: `true` = keep -/
def HashSetM.unseen (s : HashSetM) (v : Int) : Bool := s.data.all fun h => !isinSorted h v

def isSortedInts : List Int → Bool
  | [] => true
  | [_] => true
  | a :: b :: t => decide (a ≤ b) && isSortedInts (b :: t)

end Cv
