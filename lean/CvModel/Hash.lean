/-
  Model of `cayleypy/hasher.py`.  Core Lean only.
  The mixing function is an IR (`MixStep`) that `harness/extract/regen.py` regenerates from the source
  of `_splitmix64` / `_hash_splitmix64` on every run (`CvGen/HashIR.lean`).
-/
namespace Cv.Hash

abbrev W := BitVec 64

inductive MixStep
  /-- `x = x ^ (x >> k)` on int64 (arithmetic shift) -/
  | xorShrArith (k : Nat)
  /-- `x = x ^ ((x >> k) & m)` -/
  | xorShrMasked (k : Nat) (m : W)
  /-- `x = x * c` (wrapping) -/
  | mul (c : W)
deriving Repr, DecidableEq

def MixStep.eval : MixStep → W → W
  | .xorShrArith k, x => x ^^^ (x.sshiftRight k)
  | .xorShrMasked k m, x => x ^^^ ((x.sshiftRight k) &&& m)
  | .mul c, x => x * c

/-- `_splitmix64` -/
def evalMix (steps : List MixStep) (x : W) : W := steps.foldl (fun x s => s.eval x) x

/-- `_hash_splitmix64` for one row: `h = seed; for w in row: h ^= mix(w); h = h * c` -/
def combine (steps : List MixStep) (c : W) (seed : W) (row : List W) : W :=
  row.foldl (fun h w => (h ^^^ evalMix steps w) * c) seed

/-- `(states @ vec_hasher)` / `torch.sum(states * vec_hasher, dim=1)` for one row, wrapping int64 -/
def dot (vec : List W) (row : List W) : W :=
  (List.zip row vec).foldl (fun acc p => acc + p.1 * p.2) 0#64

/-- identity hasher (`state_size == 1`): the single word -/
def identity (row : List W) : W := row.getD 0 0#64

/-- hash values are int64: ordered as signed integers -/
def key (h : W) : Int := h.toInt

/-- logical-shift mask for shift `k`: `(1 << (64-k)) - 1` -/
def logicalMask (k : Nat) : W := BitVec.ofNat 64 (2^(64 - k) - 1)

/-- The invertibility certificate check: every xor-shift is a logical one with `1 ≤ k`, every multiplier
comes with its inverse modulo `2^64` (listed in order in `invs`). -/
def checkMix : List MixStep → List W → Bool
  | [], _ => true
  | .xorShrArith _ :: _, _ => false
  | .xorShrMasked k m :: t, invs => decide (1 ≤ k) && decide (m = logicalMask k) && checkMix t invs
  | .mul c :: t, ci :: invs => decide (c * ci = 1#64) && checkMix t invs
  | .mul _ :: _, [] => false

/-- chunked hashing (`hasher.py:56-68`): hash every part of `tensor_split(parts)` and concatenate -/
def chunked {β : Type} (h : β → W) (parts : List (List β)) : List W := parts.flatMap fun z => z.map h

end Cv.Hash
