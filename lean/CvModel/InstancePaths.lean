/-
  The graphs the path algorithms of `CayleyGraph` work with, for a permutation group (definitions only, core Lean only).

  `graph.with_inverted_generators` is `graph.modified_copy(definition.with_inverted_generators())`: the generators are
  replaced by their inverses IN THE SAME ORDER, encoder and hasher are shared, the batch size is kept; the flag
  `generators_inverse_closed` of the inverted definition is recomputed, and it has the same value (the list of inverses is
  closed under inverses iff the list is; `Cv.Instance.inverted_flag_eq` in `CvProofs/InstancePaths.lean`).

  * `encodedPermGraphInv`   inverted copy of `encodedPermGraph`
  * `encodedPermGraph1dInv` inverted copy of `encodedPermGraph1d`
  * `plainPermGraphInv`     inverted copy of `plainPermGraph`
  * `genAct`               generator `i` of the mathematical action, `new[j] = old[p_i[j]]`
  * `permInvMap`            `definition.generators_inverse_map`
-/
import CvModel.Instance
import CvModel.Paths
import CvModel.Perm
import CvModel.GraphDef
namespace Cv.Instance

/-- generator `i` of the mathematical action on decoded states: `new[j] = old[p_i[j]]` (this is, by definition, the
action of `plainPermGraph`) -/
def genAct (perms : List (List Nat)) (i : Nat) (s : List Nat) : List Nat :=
  (perms.getD i []).map fun j => s.getD j 0

/-- `graph.with_inverted_generators` for the bit-encoded graph -/
def encodedPermGraphInv (w n : Nat) (perms : List (List Nat)) (hash : List Cv.Codec.W → Int)
    (invClosed : Bool) (batch : Nat) : Cv.Graph (List Cv.Codec.W) :=
  encodedPermGraph w n (perms.map Cv.Perm.inverse) hash invClosed batch

/-- `graph.with_inverted_generators` for the single-word graph (1-D routines) -/
def encodedPermGraph1dInv (w n : Nat) (perms : List (List Nat)) (hash : List Cv.Codec.W → Int)
    (invClosed : Bool) (batch : Nat) : Cv.Graph (List Cv.Codec.W) :=
  encodedPermGraph1d w n (perms.map Cv.Perm.inverse) hash invClosed batch

/-- `graph.with_inverted_generators` for the un-encoded graph -/
def plainPermGraphInv (perms : List (List Nat)) (hash : List Nat → Int) (invClosed : Bool) (batch : Nat) :
    Cv.Graph (List Nat) :=
  plainPermGraph (perms.map Cv.Perm.inverse) hash invClosed batch

/-- `definition.generators_inverse_map` (`None` unless the generator list is closed under inverses) -/
def permInvMap (perms : List (List Nat)) : Option (List Nat) := Cv.GraphDef.inverseMapPerm perms

end Cv.Instance
