/-
  The concrete graph `CayleyGraph` builds for a matrix group (`generators_type == MATRIX`), as an instance of the
  abstract `Cv.Graph` used by the BFS model, and the mathematical graph it is meant to represent (definitions only,
  core Lean only).

  * `MatGen`       a `MatrixGenerator`: the stored int64 matrix (row-major, `n*n` entries) and its modulo
  * `matAct`       `MatrixGenerator.apply_batch_torch` on ONE flattened `n×k` state, through the model
                   `Cv.Matrix.apply` (int64 values are read as residues modulo `B = modulusOf modulo`, i.e. modulo `m`,
                   or modulo `2^64` for `modulo = 0`; the result is read back as int64: `[0, m)`, resp. the signed
                   reading of the residue modulo `2^64`)
  * `matGraph`     the graph: generator `i` is `matAct gens[i]`
  * `matProd`      the exact integer matrix product
  * `matNb`        the mathematical graph: exact product reduced mod `m` (entries in `[0, m)`), resp. exact product
  * `matActInt64`  `apply_batch_torch` statement by statement in wrapping int64 arithmetic (a finer rendering of the
                   code than `Cv.Matrix.apply`, used to state WHERE wrap-around is excluded), in the repaired form
                   (`prod %= modulo` before the sum) and in the original form (`matActInt64Sum`: sum first)
-/
import CvModel.Bfs
import CvModel.Matrix
namespace Cv.InstanceMat

/-- a `MatrixGenerator`: the stored matrix (row-major) and its modulo -/
structure MatGen where
  matrix : List Int
  modulo : Nat
deriving BEq, Repr, DecidableEq

/-- `MatrixGenerator.apply_batch_torch` on one flattened `n×k` state (model: `Cv.Matrix.apply`) -/
def matAct (G : MatGen) (n k : Nat) (S : List Int) : List Int :=
  let B := Cv.Matrix.modulusOf G.modulo
  let R := Cv.Matrix.apply B n k (G.matrix.map (Cv.Matrix.ofInt B)) (S.map (Cv.Matrix.ofInt B))
  if G.modulo = 0 then R.map Cv.Matrix.toSigned else R.map Int.ofNat

/-- the matrix graph the library builds: states are flattened `n×k` integer matrices, generator `i` multiplies from
the left by the `i`-th generator matrix -/
def matGraph (gens : List MatGen) (n k : Nat) (hash : List Int → Int) (invClosed : Bool) (batch : Nat) :
    Cv.Graph (List Int) :=
  { nGens := gens.length,
    act := fun i S => matAct (gens.getD i ⟨[], 0⟩) n k S,
    hash := hash, invClosed := invClosed, batchSize := batch }

/-- exact integer product of an `n×n` matrix and an `n×k` matrix (both row-major) -/
def matProd (n k : Nat) (M S : List Int) : List Int :=
  (List.range (n * k)).map fun idx =>
    (List.range n).foldl (fun acc j => acc + M.getD (idx / k * n + j) 0 * S.getD (j * k + idx % k) 0) 0

/-- the mathematical action of one generator: exact product, reduced into `[0, m)` when `modulo = m > 0` -/
def matApply (G : MatGen) (n k : Nat) (S : List Int) : List Int :=
  if G.modulo = 0 then matProd n k G.matrix S else (matProd n k G.matrix S).map (· % (G.modulo : Int))

/-- the mathematical graph on integer matrices -/
def matNb (gens : List MatGen) (n k : Nat) (S : List Int) : List (List Int) :=
  gens.map fun G => matApply G n k S

/-! ### int64-level rendering of `apply_batch_torch` -/

/-- the int64 value an integer wraps to -/
def wrap64 (x : Int) : Int := Cv.Matrix.toSigned (Cv.Matrix.ofInt (2 ^ 64) x)

/-- Python / torch `%` with a positive modulus on an int64 value, `x` itself when `modulo = 0` (no reduction) -/
def pyMod (modulo : Nat) (x : Int) : Int := if modulo = 0 then x else x % (modulo : Int)

/-- `apply_batch_torch` as repaired (D4): `prod = mx * states` (wraps); `prod %= modulo`; `ans = prod.sum(dim=2)`
(wraps); `ans %= modulo` -/
def matActInt64 (G : MatGen) (n k : Nat) (S : List Int) : List Int :=
  (List.range (n * k)).map fun idx =>
    pyMod G.modulo <| (List.range n).foldl (fun acc j =>
      wrap64 (acc + pyMod G.modulo (wrap64 (G.matrix.getD (idx / k * n + j) 0 * S.getD (j * k + idx % k) 0)))) 0

/-- `apply_batch_torch` before the repair: the products are summed first (`ans = (mx * states).sum(dim=2)`, both
operations wrap) and only the sum is reduced -/
def matActInt64Sum (G : MatGen) (n k : Nat) (S : List Int) : List Int :=
  (List.range (n * k)).map fun idx =>
    pyMod G.modulo <| (List.range n).foldl (fun acc j =>
      wrap64 (acc + wrap64 (G.matrix.getD (idx / k * n + j) 0 * S.getD (j * k + idx % k) 0))) 0

end Cv.InstanceMat
