/-
  Model of `CayleyGraphDef` (cayley_graph_def.py:102-347): validation, inverse map, inverse-closed flag,
  inverted definition, inverse closure, path reversal.  Core Lean only.
-/
import CvModel.Perm
import CvModel.Matrix
namespace Cv.GraphDef

/-- last index `j` with `l[j] = x` (a Python dict built in index order keeps the last) -/
def lastIndexOf {β : Type} [BEq β] (l : List β) (x : β) : Option Nat :=
  (List.range l.length).foldl (fun acc j => if l[j]? == some x then some j else acc) none

/-- `generators_inverse_map` for permutation generators -/
def inverseMapPerm (ps : List (List Nat)) : Option (List Nat) :=
  ps.mapM fun p => lastIndexOf ps (Perm.inverse p)

/-- `generators_inverse_map` for matrix generators (last matching `j` wins) -/
def inverseMapMat (B n : Nat) (ms : List (List Nat)) : Option (List Nat) :=
  ms.mapM fun A =>
    (List.range ms.length).foldl
      (fun acc j => if Matrix.isInverse B n A (ms.getD j []) then some j else acc) none

structure PermDef where
  gens : List (List Nat)
  names : List String
  central : List Nat
  name : String
deriving BEq, Repr

/-- default generator names `",".join(str(i) for i in g)` -/
def defaultName (g : List Nat) : String := ",".intercalate (g.map toString)

/-- `CayleyGraphDef.create` + `__post_init__` for permutation generators; `none` where it asserts -/
def PermDef.create (gens : List (List Nat)) (names : Option (List String)) (central : Option (List Nat))
    (name : String := "") : Option PermDef :=
  match gens with
  | [] => none
  | g0 :: _ =>
    let n := g0.length
    if !(gens.all fun p => p.mergeSort (fun a b => decide (a ≤ b)) == List.range n) then none else
    let names := names.getD (gens.map defaultName)
    let central := central.getD (List.range n)
    if names.length ≠ gens.length then none
    else if !(gens.all fun p => p.length == central.length) then none
    else if central.isEmpty then none   -- min([]) raises
    else if !(central.all (· < central.length)) then none
    else some { gens := gens, names := names, central := central, name := name }

def PermDef.inverseClosed (d : PermDef) : Bool := (inverseMapPerm d.gens).isSome

/-- `with_inverted_generators` (names and name are reset to the defaults) -/
def PermDef.inverted (d : PermDef) : Option PermDef :=
  PermDef.create (d.gens.map Perm.inverse) none (some d.central)

/-- `make_inverse_closed` -/
def PermDef.makeInverseClosed (d : PermDef) : Option PermDef :=
  if d.inverseClosed then some d else
  let newName := if d.name != "" then d.name ++ "-ic" else d.name
  let extra := (List.zip d.gens d.names).filterMap fun (p, nm) =>
    let ip := Perm.inverse p
    if d.gens.contains ip then none else some (ip, nm ++ "'")
  PermDef.create (d.gens ++ extra.map (·.1)) (some (d.names ++ extra.map (·.2))) (some d.central) newName

/-- `revert_path` -/
def revertPath (invMap : Option (List Nat)) (path : List Nat) : Option (List Nat) :=
  match invMap with
  | none => none
  | some idx => path.reverse.mapM fun i => idx[i]?

end Cv.GraphDef
