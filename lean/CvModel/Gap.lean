/-
  Model of `cayleypy/puzzles/gap_puzzles.py` (the GAP text reader `_parse_gap_file`, `_cycle_str_to_list`,
  `_central_state_from_ip`), a printer for the same format, cycle notation of a permutation and the
  decidable structure predicates used by property C16.  Core Lean only.

  Everything works on `List Char`; `String` appears only at the boundary (`parseGap`, `printGap`).
  All scanners are tail recursive (the shipped files have up to ~350 000 characters).

  Scope of the character-level model (see REPORT.md of task A11):
  * `\d` of the Python regular expression and `int()` are modelled for ASCII digits only (Python also
    accepts other Unicode decimal digits);
  * `json.loads` is modelled on the fragment `null | [[int,…],…]` (JSON whitespace allowed); any other JSON
    value makes the model answer `none`;
  * resource limits of CPython (4300-digit limit of `int()`, memory) are not modelled.
-/
import CvModel.Perm
namespace Cv.Gap

/-! ## Python string primitives on `List Char` -/

/-- worker of `splitChar`: `cur` is the current piece (reversed), `acc` the finished pieces (reversed) -/
def splitCharAux (c : Char) : List Char → List Char → List (List Char) → List (List Char)
  | [], cur, acc => (cur.reverse :: acc).reverse
  | x :: t, cur, acc =>
    if x = c then splitCharAux c t [] (cur.reverse :: acc) else splitCharAux c t (x :: cur) acc

/-- `s.split(c)` for a one-character separator -/
def splitChar (c : Char) (s : List Char) : List (List Char) := splitCharAux c s [] []

/-- worker of `splitPair` -/
def splitPairAux (a b : Char) : List Char → List Char → List (List Char) → List (List Char)
  | [], cur, acc => (cur.reverse :: acc).reverse
  | [x], cur, acc => ((x :: cur).reverse :: acc).reverse
  | x :: y :: t, cur, acc =>
    if x = a ∧ y = b then splitPairAux a b t [] (cur.reverse :: acc)
    else splitPairAux a b (y :: t) (x :: cur) acc

/-- `s.split(sep)` for a two-character separator `sep = a b` (leftmost, non-overlapping occurrences) -/
def splitPair (a b : Char) (s : List Char) : List (List Char) := splitPairAux a b s [] []

/-- worker of `removePair` -/
def removePairAux (a b : Char) : List Char → List Char → List Char
  | [], acc => acc.reverse
  | [x], acc => (x :: acc).reverse
  | x :: y :: t, acc =>
    if x = a ∧ y = b then removePairAux a b t acc else removePairAux a b (y :: t) (x :: acc)

/-- `s.replace(old, "")` for a two-character `old = a b` (leftmost, non-overlapping occurrences) -/
def removePair (a b : Char) (s : List Char) : List Char := removePairAux a b s []

/-! ## `_cycle_str_to_list` -/

/-- the character class `[\d,]` (ASCII digits) -/
def isCycChar (c : Char) : Bool := c.isDigit || c == ','

/-- worker of `findGroups`.  State `none`: not inside a candidate match; `some run`: a `(` has been read,
followed by the characters `run` (reversed), all of class `[\d,]`.  A candidate that is not closed by `)`
(or is empty) is abandoned and scanning resumes — exactly what the backtracking matcher does, because no
character of `run` can start a match. -/
def findGroupsAux : Option (List Char) → List Char → List (List Char) → List (List Char)
  | _, [], acc => acc.reverse
  | none, c :: t, acc =>
    if c = '(' then findGroupsAux (some []) t acc else findGroupsAux none t acc
  | some run, c :: t, acc =>
    if isCycChar c then findGroupsAux (some (c :: run)) t acc
    else if c = ')' ∧ run ≠ [] then findGroupsAux none t (run.reverse :: acc)
    else if c = '(' then findGroupsAux (some []) t acc
    else findGroupsAux none t acc

/-- `re.findall(r"\(([\d,]+)\)", s)` -/
def findGroups (s : List Char) : List (List Char) := findGroupsAux none s []

/-- `list(map(int, group.split(",")))`; `int("")` raises `ValueError` (`none`) -/
def parseGroup (g : List Char) : Option (List Nat) :=
  (splitChar ',' g).mapM fun piece => if piece.isEmpty then none else some (Nat.ofDigitChars 10 piece 0)

/-- `_cycle_str_to_list` -/
def cycleStrToList (value : List Char) : Option (List (List Nat)) := (findGroups value).mapM parseGroup

/-! ## `json.loads` on the fragment `null | [[int,…],…]` -/

inductive Tok where
  | lb | rb | comma | null
  | int (v : Int)
deriving DecidableEq, Repr

def isJsonWs (c : Char) : Bool := c == ' ' || c == '\t' || c == '\n' || c == '\r'

/-- value of a JSON integer literal `-?(0|[1-9][0-9]*)`; `none` if the digit string is empty or has a
leading zero -/
def finishNum (neg : Bool) (ds : List Char) : Option Int :=
  if ds.isEmpty then none
  else if ds.head? = some '0' ∧ ds.length ≠ 1 then none
  else
    let v : Int := Int.ofNat (Nat.ofDigitChars 10 ds 0)
    some (if neg then -v else v)

/-- lexer states -/
inductive LexSt where
  | idle                                   -- between tokens
  | num (neg : Bool) (ds : List Char)      -- inside an integer literal: sign, digits so far (reversed)
  | kw (rest : List Char)                  -- inside the literal `null`: the characters still expected

/-- lexer; `acc`: tokens so far (reversed) -/
def lexJsonAux : LexSt → List Char → List Tok → Option (List Tok)
  | .idle, [], acc => some acc.reverse
  | .num neg ds, [], acc => (finishNum neg ds.reverse).map fun v => (Tok.int v :: acc).reverse
  | .kw _, [], _ => none
  | .idle, c :: t, acc =>
    if isJsonWs c then lexJsonAux .idle t acc
    else if c = '[' then lexJsonAux .idle t (Tok.lb :: acc)
    else if c = ']' then lexJsonAux .idle t (Tok.rb :: acc)
    else if c = ',' then lexJsonAux .idle t (Tok.comma :: acc)
    else if c = '-' then lexJsonAux (.num true []) t acc
    else if c.isDigit then lexJsonAux (.num false [c]) t acc
    else if c = 'n' then lexJsonAux (.kw ['u', 'l', 'l']) t acc
    else none
  | .num neg ds, c :: t, acc =>
    if c.isDigit then lexJsonAux (.num neg (c :: ds)) t acc
    else
      match finishNum neg ds.reverse with
      | none => none
      | some v =>
        if isJsonWs c then lexJsonAux .idle t (Tok.int v :: acc)
        else if c = ']' then lexJsonAux .idle t (Tok.rb :: Tok.int v :: acc)
        else if c = ',' then lexJsonAux .idle t (Tok.comma :: Tok.int v :: acc)
        else none   -- `1[`, `1-`, `1n` are errors; `1.5`, `1e3` are floats: outside the fragment
  | .kw [], _ :: _, _ => none              -- unreachable
  | .kw (x :: r), c :: t, acc =>
    if c = x then (if r.isEmpty then lexJsonAux .idle t (Tok.null :: acc) else lexJsonAux (.kw r) t acc)
    else none

def lexJson (s : List Char) : Option (List Tok) := lexJsonAux .idle s []

/-- parser states for `[[int,…],…]` -/
inductive PSt where
  | outerOpen        -- after the outer `[`        : expect `[` or `]`
  | innerOpen        -- after an inner `[`         : expect an integer or `]`
  | afterInt         -- after an integer           : expect `,` or `]`
  | afterComma       -- after `,` inside a class   : expect an integer
  | afterInner       -- after an inner `]`         : expect `,` or `]`
  | afterOuterComma  -- after `,` between classes  : expect `[`
  | done             -- after the outer `]`        : expect the end
deriving DecidableEq, Repr

/-- `outer`: finished classes (reversed); `cur`: current class (reversed) -/
def parseToksAux : PSt → List (List Int) → List Int → List Tok → Option (List (List Int))
  | .done, outer, _, [] => some outer.reverse
  | _, _, _, [] => none
  | .outerOpen, outer, _, .lb :: t => parseToksAux .innerOpen outer [] t
  | .outerOpen, outer, cur, .rb :: t => parseToksAux .done outer cur t
  | .innerOpen, outer, cur, .int v :: t => parseToksAux .afterInt outer (v :: cur) t
  | .innerOpen, outer, cur, .rb :: t => parseToksAux .afterInner (cur.reverse :: outer) [] t
  | .afterInt, outer, cur, .comma :: t => parseToksAux .afterComma outer cur t
  | .afterInt, outer, cur, .rb :: t => parseToksAux .afterInner (cur.reverse :: outer) [] t
  | .afterComma, outer, cur, .int v :: t => parseToksAux .afterInt outer (v :: cur) t
  | .afterInner, outer, cur, .comma :: t => parseToksAux .afterOuterComma outer cur t
  | .afterInner, outer, cur, .rb :: t => parseToksAux .done outer cur t
  | .afterOuterComma, outer, _, .lb :: t => parseToksAux .innerOpen outer [] t
  | _, _, _, _ :: _ => none

/-- `json.loads(value)` restricted to the fragment: `some none` for `null`, `some (some classes)` for a list
of lists of integers, `none` for a syntax error or a JSON value outside the fragment -/
def parseJsonIp (value : List Char) : Option (Option (List (List Int))) :=
  match lexJson value with
  | none => none
  | some [Tok.null] => some none
  | some (Tok.lb :: t) => (parseToksAux .outerOpen [] [] t).map some
  | some _ => none

/-! ## `_central_state_from_ip` -/

/-- Python `lst[k] = v` for an `int` index `k` (negative indices count from the end); `none` = IndexError -/
def pySet (l : List Int) (k : Int) (v : Int) : Option (List Int) :=
  if 0 ≤ k ∧ k < (l.length : Int) then some (l.set k.toNat v)
  else if -(l.length : Int) ≤ k ∧ k < 0 then some (l.set (k + (l.length : Int)).toNat v)
  else none

/-- `pos_to_eq_list.get(i)`: the LAST class of `ip` containing the 1-based position `i+1` -/
def lastClass (ip : List (List Int)) (i : Nat) : Option (List Int) :=
  ip.foldl (fun acc cls => if cls.contains ((i : Int) + 1) then some cls else acc) none

/-- loop body; the state is `(ans, color)` with `-1` for "not coloured yet" -/
def centralStep (ip : List (List Int)) (st : List Int × Int) (i : Nat) : Option (List Int × Int) :=
  if st.1.getD i (-1) ≠ -1 then some st
  else
    match lastClass ip i with
    | some cls => (cls.foldlM (fun a j => pySet a (j - 1) st.2) st.1).map fun a => (a, st.2 + 1)
    | none => some (st.1.set i st.2, st.2 + 1)

/-- `_central_state_from_ip(n, ip)`; `none` where Python raises IndexError -/
def centralFromIp (n : Nat) (ip : List (List Int)) : Option (List Nat) :=
  ((List.range n).foldlM (centralStep ip) (List.replicate n (-1), 0)).map fun st => st.1.map Int.toNat

/-! ## `_parse_gap_file` -/

/-- what the line loop accumulates: definitions `(gen_name, cycles)` in file order, and `ip` -/
structure Acc where
  defs : List (List Char × List (List Nat)) := []
  ip : Option (List (List Int)) := none

/-- one iteration of `for line in text.split("\n")`; `none` where Python raises -/
def stepLine (acc : Acc) (line : List Char) : Option Acc :=
  match splitPair ':' '=' line with
  | [_] => some acc                                   -- `":=" not in line`
  | [key, value] =>
    let value := value.filter (· != ';')              -- `value.replace(";", "")`
    if ['M', '_'].isPrefixOf key then                 -- `key.startswith("M_")`
      match cycleStrToList value with
      | none => none
      | some cyc => some { acc with defs := acc.defs ++ [(removePair 'M' '_' key, cyc)] }
    else if key = ['i', 'p'] then
      match parseJsonIp value with
      | none => none
      | some v => some { acc with ip := v }
    else some acc
  | _ => none                                         -- `key, value = …` : too many values to unpack

/-- `generators_dict[name]`: the LAST definition with that name -/
def lookupLast (defs : List (List Char × List (List Nat))) (name : List Char) : List (List Nat) :=
  defs.foldl (fun cur d => if d.1 = name then d.2 else cur) []

/-- the part of `_parse_gap_file` after the line loop -/
def finish (acc : Acc) : Option (List (List Char × List Nat) × List Nat) :=
  let names := acc.defs.map (·.1)
  let cyc := names.map (lookupLast acc.defs)
  let all := cyc.flatten.flatten
  if all.isEmpty then none            -- `max()` of an empty sequence
  else
    let n := all.foldl max 0
    match cyc.mapM (fun cs => Perm.fromCycles n (cs.map (·.map Int.ofNat)) 1) with
    | none => none
    | some gens =>
      match acc.ip with
      | none => some (names.zip gens, List.range n)
      | some ip => (centralFromIp n ip).map fun c => (names.zip gens, c)

/-- the line loop alone -/
def scanChars (text : List Char) : Option Acc := (splitChar '\n' text).foldlM stepLine {}

/-- `_parse_gap_file` on a list of characters: named generators (in file order) and the central state -/
def parseChars (text : List Char) : Option (List (List Char × List Nat) × List Nat) :=
  match scanChars text with
  | none => none
  | some acc => finish acc

/-- decidable WELL-FORMEDNESS of what the line loop found (every shipped file satisfies it): the generator names
are pairwise distinct, there is at least one cycle, in every definition the cycles are pairwise disjoint lists of
points `≥ 1` without repetition, and `ip` (if present) consists of pairwise disjoint classes of points in `1..n`
(`n` = largest point in a cycle).  For such files the reader's answer has the plain meaning of the cycle notation
(theorem `parse_wellFormed`). -/
def Acc.wellFormed (acc : Acc) : Bool :=
  let all : List Nat := (acc.defs.map (·.2)).flatten.flatten
  let n : Nat := all.foldl max 0
  decide (acc.defs.map (·.1)).Nodup && !all.isEmpty &&
  acc.defs.all (fun d => decide d.2.flatten.Nodup && d.2.flatten.all (fun v => decide (1 ≤ v))) &&
  (match acc.ip with
   | none => true
   | some ipv => decide ipv.flatten.Nodup && ipv.flatten.all fun x => decide (1 ≤ x) && decide (x ≤ Int.ofNat n))

def wellFormedText (text : String) : Bool :=
  match scanChars text.toList with
  | none => false
  | some acc => acc.wellFormed

/-- `_parse_gap_file(text)`: `(generator_names zipped with generators, central_state)`; `none` where the
Python code raises (or, for the `ip` line only, leaves the modelled JSON fragment) -/
def parseGap (text : String) : Option (List (String × List Nat) × List Nat) :=
  (parseChars text.toList).map fun r => (r.1.map fun g => (String.ofList g.1, g.2), r.2)

/-! ## cycle notation -/

/-- cycle notation of a one-line permutation, fixed points omitted; cycles in order of their least point,
each starting at its least point -/
def toCycles (p : List Nat) : List (List Nat) :=
  (List.range p.length).foldl (fun (acc : List (List Nat)) i =>
    if p.getD i 0 = i ∨ acc.any (·.contains i) then acc
    else acc ++ [Perm.cycleOf p i (p.length + 1)]) []

/-- `permutation_from_cycles` on cycles of naturals -/
def fromCyclesNat (n : Nat) (cycles : List (List Nat)) (offset : Nat := 0) : Option (List Nat) :=
  Perm.fromCycles n (cycles.map (·.map Int.ofNat)) (Int.ofNat offset)

/-! ## printer -/

def natStr (k : Nat) : List Char := Nat.toDigits 10 k

/-- `sep.join(pieces)` for a one-character separator -/
def joinChar (sep : Char) : List (List Char) → List Char
  | [] => []
  | [a] => a
  | a :: b :: t => a ++ sep :: joinChar sep (b :: t)

/-- one cycle of 0-based points, printed 1-based: `(1,2,3)` -/
def printCycle (c : List Nat) : List Char :=
  '(' :: joinChar ',' (c.map fun x => natStr (x + 1)) ++ [')']

/-- `M_name:=(1,2,3)(4,5);` -/
def printGenLine (name : List Char) (p : List Nat) : List Char :=
  ['M', '_'] ++ name ++ [':', '='] ++ (toCycles p).flatMap printCycle ++ [';']

/-- `ip:=[[1,2],[3]];` (classes are given 1-based, as in the file) -/
def printIpLine (identical : List (List Nat)) : List Char :=
  ['i', 'p', ':', '=', '['] ++
    joinChar ',' (identical.map fun cls => '[' :: joinChar ',' (cls.map natStr) ++ [']']) ++ [']', ';']

/-- the lines of the shipped layout: generator definitions, the `Gen:=[…];` block, the `ip` line -/
def printLines (gens : List (List Char × List Nat)) (identical : List (List Nat)) : List (List Char) :=
  (gens.map fun g => printGenLine g.1 g.2) ++
  [['G', 'e', 'n', ':', '=', '['],
   joinChar ',' (gens.map fun g => ['M', '_'] ++ g.1),
   [']', ';'],
   printIpLine identical]

/-- every line is terminated by a newline -/
def printChars (gens : List (List Char × List Nat)) (identical : List (List Nat)) : List Char :=
  (printLines gens identical).flatMap (· ++ ['\n'])

/-- GAP text for generators given as 0-based one-line permutations and 1-based identical-piece classes -/
def printGap (gens : List (String × List Nat)) (identical : List (List Nat)) : String :=
  String.ofList (printChars (gens.map fun g => (g.1.toList, g.2)) identical)

/-! ## decidable structure predicates -/

/-- `p^k(x)` -/
def iterate (p : List Nat) (x : Nat) : Nat → Nat
  | 0 => x
  | k+1 => p.getD (iterate p x k) 0

/-- the moved points, increasing -/
def supportOf (p : List Nat) : List Nat := (List.range p.length).filter fun i => p.getD i 0 != i

/-- `p` has order exactly 4: `p⁴ = id` and `p² ≠ id` -/
def order4 (p : List Nat) : Bool :=
  let p2 := Perm.compose p p
  Perm.compose p2 p2 == Perm.identity p.length && p2 != Perm.identity p.length

def commute (p q : List Nat) : Bool := Perm.compose p q == Perm.compose q p

/-- the cycle notation of `p` is exactly one cycle, of length `len` -/
def isSingleCycle (p : List Nat) (len : Nat) : Bool :=
  match toCycles p with
  | [c] => c.length == len
  | _ => false

/-- the points moved by both `p` and `q` are exactly `pts` (as sets) -/
def sharesExactly (p q : List Nat) (pts : List Nat) : Bool :=
  let common := (supportOf p).filter fun x => (supportOf q).contains x
  common.all (pts.contains ·) && pts.all (common.contains ·)

/-- every generator's inverse is again a generator -/
def isInverseClosedSet (gens : List (List Nat)) : Bool := gens.all fun g => gens.contains (Perm.inverse g)

/-- largest moved point + 1 over all generators (`0` if all are identities): the `n` the reader recovers -/
def maxMoved (gens : List (List Nat)) : Nat :=
  (gens.map fun p => (supportOf p).foldl (fun m i => max m (i + 1)) 0).foldl max 0

end Cv.Gap
