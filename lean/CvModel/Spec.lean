/-
  Spec: the mathematics the properties name.  Core Lean only.

  * `Walk nb n a b`     a walk of exactly `n` edges from `a` to `b` in the directed graph whose
                         out-neighbours are `nb`
  * `Reach nb S n x`    some start state of `S` reaches `x` by a walk of exactly `n` edges
  * `DistLayer nb S i`  states whose shortest directed distance from the start list `S` is `i`
  * `refLayers`         executable reference BFS over `Nat`-coded states (merge sort, no hashing);
                         `CvProofs/Spec.lean` proves that it returns the distance classes.
-/
namespace Cv

variable {α : Type}

inductive Walk (nb : α → List α) : Nat → α → α → Prop
  | nil (a) : Walk nb 0 a a
  | snoc {n a b c} : Walk nb n a b → c ∈ nb b → Walk nb (n+1) a c

def Reach (nb : α → List α) (S : List α) (n : Nat) (x : α) : Prop := ∃ s ∈ S, Walk nb n s x

/-- `x` is at directed distance exactly `i` from the start list `S`. -/
def DistLayer (nb : α → List α) (S : List α) (i : Nat) (x : α) : Prop :=
  Reach nb S i x ∧ ∀ j < i, ¬ Reach nb S j x

/-- `x` lies in the orbit of `S`. -/
def InOrbit (nb : α → List α) (S : List α) (x : α) : Prop := ∃ n, Reach nb S n x

/-- Undirectedness: what inverse-closed generators give. -/
def Symm (nb : α → List α) : Prop := ∀ x y, y ∈ nb x → x ∈ nb y

/-- A path given as generator indices, replayed edge by edge. -/
def applyPath (act : Nat → α → α) (s : α) (p : List Nat) : α := p.foldl (fun x i => act i x) s

/-- out-neighbours from an indexed action -/
def nbOf (nGens : Nat) (act : Nat → α → α) (x : α) : List α :=
  (List.range nGens).map fun i => act i x

/-! ### Reference BFS on `Nat`-coded states (sorted lists, no hashing) -/

/-- remove adjacent duplicates (input sorted) -/
def dedupSorted : List Nat → List Nat
  | [] => []
  | [a] => [a]
  | a :: b :: t => if a = b then dedupSorted (b :: t) else a :: dedupSorted (b :: t)

/-- difference `a \ b` of sorted lists -/
def sdiff : List Nat → List Nat → List Nat
  | [], _ => []
  | a, [] => a
  | x :: a, y :: b =>
    if x < y then x :: sdiff a (y :: b)
    else if x = y then sdiff a (y :: b)
    else sdiff (x :: a) b

def sortDedup (l : List Nat) : List Nat := dedupSorted (l.mergeSort (fun a b => decide (a ≤ b)))

/-- one BFS step: all neighbours of `cur`, sorted, de-duplicated, minus everything seen -/
def refStep (nb : Nat → List Nat) (seen cur : List Nat) : List Nat :=
  sdiff (sortDedup (cur.flatMap nb)) seen

/-- `refLoop fuel seen cur` = the layers from `cur` on (`cur` is non-empty, sorted and already part of
`seen`); stops at the first empty layer or when the fuel runs out. -/
def refLoop (nb : Nat → List Nat) : Nat → List Nat → List Nat → List (List Nat)
  | 0, _, cur => [cur]
  | fuel+1, seen, cur =>
    let nxt := refStep nb seen cur
    if nxt.isEmpty then [cur]
    else cur :: refLoop nb fuel (List.merge seen nxt (fun a b => decide (a ≤ b))) nxt

/-- Reference BFS: layers `0 … maxDepth` (or fewer if the orbit is exhausted earlier), each sorted and
duplicate-free.  `S` must be non-empty for the result to be meaningful. -/
def refLayers (nb : Nat → List Nat) (S : List Nat) (maxDepth : Nat) : List (List Nat) :=
  let l0 := sortDedup S
  refLoop nb maxDepth l0 l0

/-- abstract recurrence used in the proofs: (everything seen so far, current layer) -/
def absStep [DecidableEq α] (nb : α → List α) (seen cur : List α) : List α :=
  ((cur.flatMap nb).eraseDups).filter (fun x => !seen.contains x)

def absSt [DecidableEq α] (nb : α → List α) (S : List α) : Nat → List α × List α
  | 0 => (S.eraseDups, S.eraseDups)
  | k+1 =>
    let p := absSt nb S k
    let nxt := absStep nb p.1 p.2
    (p.1 ++ nxt, nxt)

end Cv
