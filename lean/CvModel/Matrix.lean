/-
  Model of `MatrixGenerator` (cayley_graph_def.py:27-99).  Core Lean only.
  A matrix is a row-major `List Nat` of length `n*n` with entries reduced modulo `B`, where `B` is the
  generator's modulo, or `2^64` when `modulo == 0` (signed 64-bit arithmetic with wrap-around is
  arithmetic in `ZMod 2^64`; the signed reading of a residue is `Matrix.toSigned`).
-/
import CvModel.Pack
namespace Cv.Matrix

def modulusOf (modulo : Nat) : Nat := if modulo = 0 then 2^64 else modulo

/-- signed 64-bit reading of a residue mod 2^64 -/
def toSigned (x : Nat) : Int := if x < 2^63 then (x : Int) else (x : Int) - 2^64

/-- residue of an integer -/
def ofInt (B : Nat) (x : Int) : Nat := (x % (B : Int)).toNat

/-- `MatrixGenerator.apply(state)`: `(M @ S) % modulo` for an `n×m` state -/
def apply (B n m : Nat) (M S : List Nat) : List Nat := matMul B n m M.toArray S.toArray

def eye (n : Nat) : List Nat := (List.range (n * n)).map fun idx => if idx / n = idx % n then 1 else 0

/-- `a.is_inverse_to(c)` for equal modulo -/
def isInverse (B n : Nat) (A C : List Nat) : Bool :=
  apply B n n A C == eye n && apply B n n C A == eye n

/-- `MatrixGenerator.inv`: `cand` is the integer matrix obtained from the floating point inverse
(oracle input, already reduced mod B by `create`).  The code verifies one product only. -/
def inv (B n : Nat) (A cand : List Nat) : Option (List Nat) :=
  if apply B n n A cand == eye n then some cand else none

end Cv.Matrix
