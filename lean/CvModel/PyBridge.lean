/-
  Bridge between the definitions REGENERATED from the Python source (`CvGen/PyPerm.lean`,
  `CvGen/PyFamilies.lean`; values are `Int`, errors are `none`) and the hand-written model / specification
  (`CvModel/Perm.lean`, `CvModel/Families.lean`; values are `Nat`).  Core Lean only.
-/
import CvModel.PyPrelude
import CvModel.GraphDef
namespace Cv.Py
open Cv.GraphDef (PermDef)

/-- a list of naturals as the Python list of ints it stands for -/
def toI (l : List Nat) : List Int := l.map Int.ofNat

/-- back: `none` when an entry is negative -/
def toN? (l : List Int) : Option (List Nat) := l.mapM fun i => if 0 ≤ i then some i.toNat else none

/-- `CayleyGraphDef.create(raw.gens, central_state=raw.central, generator_names=raw.names, name=raw.name)` through the
hand-written model of `create` (`PermDef.create`, `name` defaults to `""`) -/
def rawToPermDef (r : RawDef) : Option PermDef := do
  let gens ← r.gens.mapM toN?
  let central ← match r.central with
    | none => some none
    | some c => (toN? c).map some
  PermDef.create gens r.names central (r.name.getD "")

/-- the raw arguments a translated constructor hands to `create` are those of the specified definition `d`
(omitted names / name mean the defaults of `create`) -/
def RawMatches (r : RawDef) (d : PermDef) : Prop :=
  r.gens = d.gens.map toI ∧
  (r.central = some (toI d.central) ∨ (r.central = none ∧ d.central = List.range (d.gens.headD []).length)) ∧
  (r.names = some d.names ∨ (r.names = none ∧ d.names = d.gens.map Cv.GraphDef.defaultName)) ∧
  r.name.getD "" = d.name

end Cv.Py
